(* C14 — proofs about the pending-request table model (FuturesModel.v). *)
From Coq Require Import List NArith ZArith Bool Lia ZifyN ZifyNat ZifyBool.
From SeataV Require Import Remoting.FuturesModel.
Import ListNotations.

Ltac Zify.zify_post_hook ::= Z.div_mod_to_equations.

(* ------------------------------------------------------------ association lists *)
Section AssocFacts.
  Context {K V : Type}.
  Variable eqb : K -> K -> bool.
  Hypothesis eqb_eq : forall a b, eqb a b = true <-> a = b.

  Lemma eqb_refl' a : eqb a a = true.
  Proof. now apply eqb_eq. Qed.
  Lemma eqb_neq' a b : a <> b -> eqb a b = false.
  Proof. intro H. destruct (eqb a b) eqn:E; [apply eqb_eq in E; contradiction|reflexivity]. Qed.

  Lemma alookup_aremove_eq k (l : list (K * V)) : alookup eqb k (aremove eqb k l) = None.
  Proof.
    induction l as [|[k' v] r IH]; cbn; [reflexivity|].
    destruct (eqb k k') eqn:E; [exact IH|]. cbn. now rewrite E.
  Qed.
  Lemma alookup_aremove_neq k k' (l : list (K * V)) :
    k <> k' -> alookup eqb k (aremove eqb k' l) = alookup eqb k l.
  Proof.
    intro N. induction l as [|[k2 v] r IH]; cbn; [reflexivity|].
    destruct (eqb k' k2) eqn:E.
    - apply eqb_eq in E. subst k2. rewrite (eqb_neq' _ _ N). exact IH.
    - cbn. destruct (eqb k k2); [reflexivity|exact IH].
  Qed.
  Lemma alookup_aupsert_eq k v (l : list (K * V)) : alookup eqb k (aupsert eqb k v l) = Some v.
  Proof. unfold aupsert. cbn. now rewrite eqb_refl'. Qed.
  Lemma alookup_aupsert_neq k k' v (l : list (K * V)) :
    k <> k' -> alookup eqb k (aupsert eqb k' v l) = alookup eqb k l.
  Proof. intro N. unfold aupsert. cbn. rewrite (eqb_neq' _ _ N). now apply alookup_aremove_neq. Qed.
  Lemma alookup_all_none (l : list (K * V)) : (forall k, alookup eqb k l = None) -> l = [].
  Proof.
    destruct l as [|[k v] r]; [reflexivity|]. intro H. specialize (H k). cbn in H.
    now rewrite eqb_refl' in H.
  Qed.
End AssocFacts.

Lemma Neqb_eq : forall a b, N.eqb a b = true <-> a = b. Proof. exact N.eqb_eq. Qed.
Lemma Zeqb_eq : forall a b, Z.eqb a b = true <-> a = b. Proof. exact Z.eqb_eq. Qed.

Definition tl_rm_eq := @alookup_aremove_eq Z owner Z.eqb.
Definition tl_rm_neq := @alookup_aremove_neq Z owner Z.eqb Zeqb_eq.
Definition tl_up_eq := @alookup_aupsert_eq Z owner Z.eqb Zeqb_eq.
Definition tl_up_neq := @alookup_aupsert_neq Z owner Z.eqb Zeqb_eq.

(* ------------------------------------------------------------ waiters *)
Lemma getw_setw k k' w s :
  getw k (setw k' w s) = if N.eqb k k' then Some w else getw k s.
Proof.
  unfold getw, setw; cbn. destruct (N.eqb k k') eqn:E; [reflexivity|].
  apply (@alookup_aremove_neq N waiter N.eqb Neqb_eq). now apply N.eqb_neq.
Qed.
Lemma getw_setw_eq k w s : getw k (setw k w s) = Some w.
Proof. rewrite getw_setw. now rewrite N.eqb_refl. Qed.
Lemma getw_setw_neq k k' w s : k <> k' -> getw k (setw k' w s) = getw k s.
Proof. intro H. rewrite getw_setw. apply N.eqb_neq in H. now rewrite H. Qed.

Lemma remove1_in id l r : remove1 id l = Some r -> In id l.
Proof.
  revert r. induction l as [|x l IH]; cbn; [discriminate|]. intros r.
  destruct (Z.eqb id x) eqn:E; [apply Z.eqb_eq in E; auto|].
  destruct (remove1 id l) eqn:R; [|discriminate]. intros _. right. eapply IH. reflexivity.
Qed.
Lemma remove1_keeps id l r x : remove1 id l = Some r -> x <> id -> In x l -> In x r.
Proof.
  revert r. induction l as [|y l IH]; cbn; [discriminate|]. intros r.
  destruct (Z.eqb id y) eqn:E.
  - apply Z.eqb_eq in E. subst y. intros H N [A|A]; [congruence|]. now inversion H; subst.
  - destruct (remove1 id l) eqn:R; [|discriminate]. intros H N [A|A]; inversion H; subst.
    + now left.
    + right. now apply (IH l0).
Qed.
Lemma remove1_sub id l r x : remove1 id l = Some r -> In x r -> In x l.
Proof.
  revert r. induction l as [|y l IH]; cbn; [discriminate|]. intros r.
  destruct (Z.eqb id y) eqn:E.
  - intros H A. inversion H; subst. now right.
  - destruct (remove1 id l) eqn:R; [|discriminate]. intros H A. inversion H; subst.
    destruct A as [A|A]; [now left|right; now apply (IH l0)].
Qed.

(* ------------------------------------------------------------ shape of a good configuration *)
Lemma good_cfg_shape c : good_cfg c = true -> exists n, c = mkCfg (S n) true true false false.
Proof.
  destruct c as [cap nb tr sn pr]. unfold good_cfg; cbn.
  destruct cap; cbn; [discriminate|].
  destruct nb, tr, sn, pr; cbn; try discriminate. intros _. now exists cap.
Qed.

Lemma run_app c s a b : run c s (a ++ b) = run c (run c s a) b.
Proof. unfold run. apply fold_left_app. Qed.
Lemma run_snoc c s a e : run c s (a ++ [e]) = step c (run c s a) e.
Proof. now rewrite run_app. Qed.

(* ------------------------------------------------------------ invariants of a good configuration *)
(* T: every entry of the table belongs to a waiter that still needs it *)
Definition InvT (s : st) : Prop :=
  forall id o, alookup Z.eqb id (table s) = Some o ->
    exists k w, o = OWaiter k /\ getw k s = Some w /\ w_id w = id /\
      (forall e, w_stat w <> DoneErr e) /\
      ((w_stat w = Waiting /\ w_tok w = 0%nat) \/ In id (premoves s)).

(* R: what a waiter holds came from a reply that carried its own id *)
Definition InvR (evs : list ev) (s : st) : Prop :=
  forall k w, getw k s = Some w ->
    (forall b, w_resp w = Some b -> In (EDeliver (w_id w) b) evs) /\
    (forall b, w_stat w = DoneOk b -> In (EDeliver (w_id w) b) evs) /\
    (w_tok w <> 0%nat -> w_resp w <> None).

Definition Inv (evs : list ev) (s : st) : Prop := InvT s /\ parked s = 0%nat /\ InvR evs s.

Lemma InvR_mono evs e s : InvR evs s -> InvR (evs ++ [e]) s.
Proof.
  intros H k w G. destruct (H k w G) as (A & B & C). repeat split; auto.
  - intros b Hb. apply in_or_app. left. auto.
  - intros b Hb. apply in_or_app. left. auto.
Qed.

Ltac same T P R := (split; [exact T | split; [exact P | exact R]]).
Ltac inv_some := match goal with H : Some _ = Some _ |- _ => inversion H; subst; clear H end.

Lemma step_inv n evs s e :
  let c := mkCfg (S n) true true false false in
  Inv evs s -> Inv (evs ++ [e]) (step c s e).
Proof.
  intros c (T & P & R). apply (InvR_mono _ e) in R.
  destruct e as [k wf|id wf|wf|id b|id|k|k|id| |]; cbn [step].
  - (* ESend *)
    destruct (getw k s) as [w0|] eqn:G; [same T P R|].
    set (nn := (ctr s + 1)%N).
    assert (OLD : forall k' w', getw k' s = Some w' -> k' <> k) by (intros k' w' G' ->; congruence).
    destruct (negb (live s)); [|destruct wf].
    + (* no session *)
      split; [|split; [exact P|]].
      * intros id o L. cbn [table setw set_table add_premove park] in L. destruct (T id o L) as (k' & w' & -> & G' & I & E & D).
        exists k', w'. repeat split; auto. rewrite getw_setw_neq; [exact G'|eauto].
      * intros k' w' G'. rewrite getw_setw in G'. destruct (N.eqb k' k) eqn:E.
        -- inv_some. cbn. split; [|split]; intros; try discriminate; congruence.
        -- apply (R k' w' G').
    + (* write fails *)
      split; [|split; [exact P|]].
      * intros id o L. cbn [table setw set_table add_premove park] in L.
        destruct (Z.eq_dec id (id_of nn)) as [->|N]; [now rewrite tl_rm_eq in L|].
        rewrite tl_rm_neq in L by exact N.
        destruct (T id o L) as (k' & w' & -> & G' & I & E & D).
        exists k', w'. repeat split; auto. rewrite getw_setw_neq; [exact G'|eauto].
      * intros k' w' G'. rewrite getw_setw in G'. destruct (N.eqb k' k) eqn:E.
        -- inv_some. cbn. split; [|split]; intros; try discriminate; congruence.
        -- apply (R k' w' G').
    + (* stored and written *)
      split; [|split; [exact P|]].
      * intros id o L. cbn [table setw set_table add_premove park] in L.
        destruct (Z.eq_dec id (id_of nn)) as [->|N].
        -- rewrite tl_up_eq in L. inv_some. eexists k, _. split; [reflexivity|].
           split; [apply getw_setw_eq|]. cbn. repeat split; try discriminate. now left.
        -- rewrite tl_up_neq in L by exact N.
           destruct (T id o L) as (k' & w' & -> & G' & I & E & D).
           exists k', w'. repeat split; auto. rewrite getw_setw_neq; [exact G'|eauto].
      * intros k' w' G'. rewrite getw_setw in G'. destruct (N.eqb k' k) eqn:E.
        -- inv_some. cbn. split; [|split]; intros; try discriminate; congruence.
        -- apply (R k' w' G').
  - (* EWrite *) unfold write_nocb; cbn. rewrite !andb_false_r. cbn. same T P R.
  - (* EHeartbeat *) unfold write_nocb; cbn. rewrite !andb_false_r. cbn. same T P R.
  - (* EDeliver *)
    destruct (alookup Z.eqb id (table s)) as [o|] eqn:L; [|same T P R].
    destruct (T id o L) as (k & w & -> & G & I & E & D). rewrite G.
    unfold signal. cbn [c_cap c_nonblock c].
    assert (SH : forall w2, w_n w2 = w_n w -> w_id w2 = w_id w -> w_stat w2 = w_stat w ->
                 w_resp w2 = Some b -> (w_tok w2 <> 0%nat -> True) ->
                 Inv (evs ++ [EDeliver id b]) (add_premove id (setw k w2 s))).
    { intros w2 Hn Hi Hs Hr _. split; [|split; [exact P|]].
      - intros id' o' L'. cbn [table setw set_table add_premove park] in L'. destruct (T id' o' L') as (k' & w' & -> & G' & I' & E' & D').
        destruct (N.eq_dec k' k) as [->|NK].
        + exists k, w2. rewrite G in G'. inv_some. repeat split; auto.
          * cbn. apply getw_setw_eq.
          * now rewrite Hs.
          * right. cbn. left. congruence.
        + exists k', w'. repeat split; auto.
          * cbn. unfold add_premove. cbn. change (getw k' (setw k w2 s) = Some w').
            now rewrite getw_setw_neq.
          * destruct D' as [D'|D']; [now left|right; cbn; now right].
      - intros k' w' G'. change (getw k' (setw k w2 s) = Some w') in G'.
        rewrite getw_setw in G'. destruct (N.eqb k' k) eqn:EK.
        + inv_some. destruct (R k w G) as (A & B & C). split; [|split].
          * intros b' Hb. rewrite Hr in Hb. rewrite Hi. apply in_or_app. right. left. congruence.
          * intros b' Hb. rewrite Hs in Hb. rewrite Hi. auto.
          * intros _. now rewrite Hr.
        + apply (R k' w' G'). }
    destruct (w_stat w) eqn:WS.
    + destruct (w_tok w <? S n)%nat; apply SH; cbn; auto.
    + destruct (w_tok w <? S n)%nat; apply SH; cbn; auto.
    + destruct (w_tok w <? S n)%nat; apply SH; cbn; auto.
  - (* ERemove *)
    destruct (remove1 id (premoves s)) as [pr|] eqn:RM; [|same T P R].
    split; [|split; [exact P|]].
    + intros id' o L. cbn [table setw set_table add_premove park] in L.
      destruct (Z.eq_dec id' id) as [->|N]; [now rewrite tl_rm_eq in L|].
      rewrite tl_rm_neq in L by exact N.
      destruct (T id' o L) as (k' & w' & -> & G' & I & E & D).
      exists k', w'. repeat split; auto. destruct D as [D|D]; [now left|right]. cbn.
      eapply remove1_keeps; eauto.
    + intros k' w' G'. apply (R k' w' G').
  - (* EWake *)
    destruct (getw k s) as [w|] eqn:G; [|same T P R].
    destruct (w_stat w) eqn:WS; try (same T P R).
    destruct (w_tok w) as [|t] eqn:WT; [same T P R|].
    destruct (w_resp w) as [b|] eqn:WR; [|same T P R].
    split; [|split; [exact P|]].
    + intros id o L. cbn [table setw set_table add_premove park] in L. destruct (T id o L) as (k' & w' & -> & G' & I & E & D).
      destruct (N.eq_dec k' k) as [->|NK].
      * rewrite G in G'. inv_some. eexists k, _. split; [reflexivity|].
        split; [apply getw_setw_eq|]. cbn. repeat split; try discriminate.
        destruct D as [[_ D]|D]; [congruence|now right].
      * exists k', w'. repeat split; auto. now rewrite getw_setw_neq.
    + intros k' w' G'. rewrite getw_setw in G'. destruct (N.eqb k' k) eqn:EK.
      * inv_some. cbn. destruct (R k w G) as (A & B & C). split; [|split].
        -- intros b' Hb. apply A. congruence.
        -- intros b' Hb. inversion Hb; subst. now apply A.
        -- intros _. congruence.
      * apply (R k' w' G').
  - (* ETimeout *)
    destruct (getw k s) as [w|] eqn:G; [|same T P R].
    destruct (w_stat w) eqn:WS; try (same T P R).
    cbn [c_tmo_removes c].
    split; [|split; [exact P|]].
    + intros id o L. cbn [table setw set_table add_premove park] in L.
      destruct (Z.eq_dec id (w_id w)) as [->|N]; [now rewrite tl_rm_eq in L|].
      rewrite tl_rm_neq in L by exact N.
      destruct (T id o L) as (k' & w' & -> & G' & I & E & D).
      assert (k' <> k) by (intros ->; rewrite G in G'; inv_some; congruence).
      exists k', w'. repeat split; auto. cbn.
      change (getw k' (setw k (mkW (w_n w) (w_id w) (w_resp w) (w_tok w) (DoneErr 1)) s) = Some w').
      now rewrite getw_setw_neq.
    + intros k' w' G'.
      change (getw k' (setw k (mkW (w_n w) (w_id w) (w_resp w) (w_tok w) (DoneErr 1)) s) = Some w') in G'.
      rewrite getw_setw in G'. destruct (N.eqb k' k) eqn:EK.
      * inv_some. cbn. destruct (R k w G) as (A & B & C). split; [|split]; auto. intros; discriminate.
      * apply (R k' w' G').
  - (* EPong *) same T P R.
  - (* EClose *) same T P R.
  - (* EOpen *) same T P R.
Qed.

Lemma init_inv c0 h0 lv : Inv [] (init c0 h0 lv).
Proof.
  repeat split; try (intros; discriminate).
Qed.

Lemma run_inv c c0 h0 lv evs :
  good_cfg c = true -> Inv evs (run c (init c0 h0 lv) evs).
Proof.
  intro G. destruct (good_cfg_shape c G) as [n ->].
  induction evs as [|e evs IH] using rev_ind; [apply init_inv|].
  rewrite run_snoc. now apply step_inv.
Qed.

(* ------------------------------------------------------------ theorems that need no freshness of ids *)
Theorem own_reply c c0 h0 lv evs k w b :
  good_cfg c = true ->
  getw k (run c (init c0 h0 lv) evs) = Some w -> w_stat w = DoneOk b ->
  In (EDeliver (w_id w) b) evs.
Proof.
  intros G Gw S. destruct (run_inv c c0 h0 lv evs G) as (_ & _ & R).
  destruct (R k w Gw) as (_ & B & _). auto.
Qed.

Theorem never_parked c c0 h0 lv evs :
  good_cfg c = true -> parked (run c (init c0 h0 lv) evs) = 0%nat.
Proof. intro G. now destruct (run_inv c c0 h0 lv evs G) as (_ & P & _). Qed.

Lemma alookup_in {V} k (l : list (N * V)) v : alookup N.eqb k l = Some v -> exists k', In (k', v) l.
Proof.
  induction l as [|[k' v'] r IH]; cbn; [discriminate|].
  destruct (N.eqb k k'); intro H.
  - inversion H; subst. exists k'. now left.
  - destruct (IH H) as [k2 I]. exists k2. now right.
Qed.

Theorem no_leak c c0 h0 lv evs :
  good_cfg c = true ->
  quiescent (run c (init c0 h0 lv) evs) = true -> table (run c (init c0 h0 lv) evs) = [].
Proof.
  intros G Q. destruct (run_inv c c0 h0 lv evs G) as (T & _ & _).
  set (s := run c (init c0 h0 lv) evs) in *.
  unfold quiescent in Q. apply andb_true_iff in Q. destruct Q as [QW QP].
  apply (@alookup_all_none Z owner Z.eqb Zeqb_eq). intro id.
  destruct (alookup Z.eqb id (table s)) as [o|] eqn:L; [exfalso|reflexivity].
  destruct (T id o L) as (k & w & -> & Gw & I & E & [[W _]|D]).
  - unfold getw in Gw. destruct (alookup_in _ _ _ Gw) as [k' IN].
    rewrite forallb_forall in QW. specialize (QW _ IN). cbn in QW.
    unfold is_waiting in QW. now rewrite W in QW.
  - destruct (premoves s); [contradiction|discriminate].
Qed.

(* an outcome, once reached, never changes (any configuration) *)
Theorem outcome_stable c s e k x :
  stat_of k s = Some x -> x <> Waiting -> stat_of k (step c s e) = Some x.
Proof.
  unfold stat_of. intros H NW.
  destruct (getw k s) as [w|] eqn:G; [|discriminate]. inversion H; subst x; clear H.
  assert (KEEP : forall k' w', (k' = k -> w_stat w' = w_stat w) ->
            forall s', getw k s' = Some w ->
            match getw k (setw k' w' s') with Some w0 => Some (w_stat w0) | None => None end
            = Some (w_stat w)).
  { intros k' w' Hs s' G'. rewrite getw_setw. destruct (N.eqb k k') eqn:E.
    - apply N.eqb_eq in E. now rewrite Hs by auto.
    - now rewrite G'. }
  destruct e as [k1 wf|id wf|wf|id b|id|k1|k1|id| |]; cbn [step].
  - destruct (getw k1 s) eqn:G1; [now rewrite G|].
    assert (k1 <> k) by (intros ->; congruence).
    destruct (negb (live s)); [|destruct wf];
      (rewrite getw_setw_neq by auto); unfold getw in *; cbn; now rewrite G.
  - unfold write_nocb. destruct (live s && c_store_nocb c && negb wf);
      [|destruct (live s && c_store_nocb c)]; unfold getw in *; cbn; now rewrite G.
  - unfold write_nocb. cbn.
    destruct (live s && c_store_nocb c && negb wf);
      [|destruct (live s && c_store_nocb c)]; unfold getw in *; cbn; now rewrite G.
  - destruct (alookup Z.eqb id (table s)) as [[k1|tok]|]; [| |now rewrite G].
    + destruct (getw k1 s) as [w1|] eqn:G1; [|now rewrite G].
      unfold signal.
      assert (k1 = k -> w1 = w) by (intros ->; congruence).
      destruct (w_stat w1) eqn:S1, (c_cap c) eqn:CC;
        try (destruct (w_tok w1 <? _)%nat; [|destruct (c_nonblock c)]);
        unfold add_premove, park; cbn -[getw setw];
        try (change (getw k (mkSt ?a ?b ?d ?t (waiters ?s1) ?p ?q)) with (getw k s1));
        apply KEEP; auto; cbn; intro EK; specialize (H EK); subst w1; try congruence.
    + destruct (tok <? c_cap c)%nat; [|destruct (c_nonblock c)];
        unfold getw in *; cbn; now rewrite G.
  - destruct (remove1 id (premoves s)); unfold getw in *; cbn; now rewrite G.
  - destruct (getw k1 s) as [w1|] eqn:G1; [|now rewrite G].
    destruct (w_stat w1) eqn:S1; try now rewrite G.
    destruct (w_tok w1); [now rewrite G|]. destruct (w_resp w1); [|now rewrite G].
    rewrite getw_setw. destruct (N.eqb k k1) eqn:E; [|now rewrite G].
    apply N.eqb_eq in E. subst k1. congruence.
  - destruct (getw k1 s) as [w1|] eqn:G1; [|now rewrite G].
    destruct (w_stat w1) eqn:S1; try now rewrite G.
    assert (k1 <> k) by (intros ->; congruence).
    destruct (c_tmo_removes c); unfold set_table; cbn -[getw setw];
      try (change (getw k (mkSt ?a ?b ?d ?t (waiters ?s1) ?p ?q)) with (getw k s1));
      rewrite getw_setw_neq by auto; now rewrite G.
  - destruct (c_pong_removes c); unfold getw in *; cbn; now rewrite G.
  - unfold getw in *; cbn; now rewrite G.
  - unfold getw in *; cbn; now rewrite G.
Qed.

Lemma outcome_stable_run c s evs k x :
  stat_of k s = Some x -> x <> Waiting -> stat_of k (run c s evs) = Some x.
Proof.
  revert s. induction evs as [|e evs IH]; intros s H N; [exact H|].
  cbn. apply IH; [now apply outcome_stable|exact N].
Qed.

(* the timer of a waiting caller fires: it returns the timeout error *)
Theorem timeout_fires c s k w :
  getw k s = Some w -> w_stat w = Waiting -> stat_of k (step c s (ETimeout k)) = Some (DoneErr 1).
Proof.
  intros G W. cbn [step]. rewrite G, W. unfold stat_of.
  destruct (c_tmo_removes c); unfold set_table; cbn -[getw setw];
    try (change (getw k (mkSt ?a ?b ?d ?t (waiters ?s1) ?p ?q)) with (getw k s1));
    now rewrite getw_setw_eq.
Qed.

(* a caller whose reply never comes ends with an error or is still waiting —
   never with a body *)
Theorem no_reply_no_body c c0 h0 lv evs k w :
  good_cfg c = true ->
  getw k (run c (init c0 h0 lv) evs) = Some w ->
  (forall b, ~ In (EDeliver (w_id w) b) evs) ->
  w_stat w = Waiting \/ exists e, w_stat w = DoneErr e.
Proof.
  intros G Gw NR. destruct (w_stat w) eqn:S; [now left| |right; eauto].
  exfalso. apply (NR body). eapply own_reply; eauto.
Qed.

(* after any history a fresh request completes with the body of its reply *)
Theorem fresh_ok c c0 h0 lv evs k b :
  good_cfg c = true ->
  let s := run c (init c0 h0 lv) evs in
  live s = true -> getw k s = None ->
  stat_of k (run c s [ESend k false; EDeliver (id_of (ctr s + 1)) b; EWake k]) = Some (DoneOk b).
Proof.
  intros G s LV FR. destruct (good_cfg_shape c G) as [n ->].
  cbn [run fold_left]. 
  set (id := id_of (ctr s + 1)).
  assert (S1 : step (mkCfg (S n) true true false false) s (ESend k false) =
     setw k (mkW (ctr s + 1) id None 0 Waiting)
          (set_table (aupsert Z.eqb id (OWaiter k) (table s))
             (mkSt (ctr s + 1) (hbc s) (live s) (table s) (waiters s) (premoves s) (parked s)))).
  { cbn [step]. rewrite FR, LV. reflexivity. }
  rewrite S1. clear S1.
  set (s1 := setw k _ _).
  assert (L1 : alookup Z.eqb id (table s1) = Some (OWaiter k)) by (subst s1; cbn [table setw set_table]; apply tl_up_eq).
  assert (G1 : getw k s1 = Some (mkW (ctr s + 1) id None 0 Waiting)) by (subst s1; apply getw_setw_eq).
  assert (S2 : step (mkCfg (S n) true true false false) s1 (EDeliver id b) =
     add_premove id (setw k (mkW (ctr s + 1) id (Some b) 1 Waiting) s1)).
  { cbn [step]. rewrite L1, G1. unfold signal. cbn. reflexivity. }
  rewrite S2. clear S2.
  set (s2 := add_premove id _).
  assert (G2 : getw k s2 = Some (mkW (ctr s + 1) id (Some b) 1 Waiting)).
  { subst s2. unfold add_premove. cbn -[getw setw].
    change (getw k (setw k (mkW (ctr s + 1) id (Some b) 1 Waiting) s1) = Some (mkW (ctr s + 1) id (Some b) 1 Waiting)).
    apply getw_setw_eq. }
  cbn [step]. rewrite G2. cbn. unfold stat_of. now rewrite getw_setw_eq.
Qed.
