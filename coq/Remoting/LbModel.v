(* Model of pkg/remoting/loadbalance (Select and the five policies) over a
   session registry whose members open and close between selections, and of
   what the client announces when a session opens (pkg/remoting/getty/listener.go
   OnOpen, pkg/rm/rm_remoting.go RegisterResource).

   Random choices and Go's map iteration order are nondeterminism of the model:
   `outcomes` returns EVERY (pick, next state) the code may produce. *)
From Coq Require Import String Ascii.
From Coq Require Import List NArith Bool.
From SeataV Require Import Base.Bytes.
Import ListNotations.
Open Scope N_scope.

Record sess := { s_id : N; s_addr : bytes; s_closed : bool }.

Inductive policy := PRandom | PXid | PRoundRobin | PConsistentHash | PLeastActive.

(* loadbalance.Select: the switch over the configured name; anything else is Random *)
Definition policy_of (name : string) : policy :=
  if String.eqb name "RandomLoadBalance" then PRandom
  else if String.eqb name "XID" then PXid
  else if String.eqb name "ConsistentHashLoadBalance" then PConsistentHash
  else if String.eqb name "LeastActiveLoadBalance" then PLeastActive
  else if String.eqb name "RoundRobinLoadBalance" then PRoundRobin
  else PRandom.

(* the consistent-hash ring: virtual node position -> session id *)
Definition ring := list (N * N).

Record state := {
  st_sess : list sess;            (* the registry (sync.Map keys); closed members may linger *)
  st_seq : N;                     (* round-robin sequence *)
  st_ring : option ring;          (* None: the singleton has not been built yet *)
  st_act : list (bytes * N)       (* rpc.GetStatus(addr).Active *)
}.

Definition init : state := {| st_sess := []; st_seq := 0; st_ring := None; st_act := [] |}.

Definition is_open_s (s : sess) : bool := negb (s_closed s).
Definition opens (st : state) : list sess := filter is_open_s (st_sess st).
Definition open_ids (st : state) : list N := map s_id (opens st).
Definition is_open (st : state) (id : N) : bool :=
  existsb (fun s => (s_id s =? id) && is_open_s s) (st_sess st).
Definition open_at (st : state) (a : bytes) : list sess :=
  filter (fun s => bytes_eqb (s_addr s) a) (opens st).

(* RandomLoadBalance: any open session; nil when there is none *)
Definition rand (st : state) : list (option N) :=
  match open_ids st with [] => [None] | l => map Some l end.

(* ---- XID ---- *)
Definition colon : byte := Byte.x3a.
(* strings.Split(xid, ":") *)
Fixpoint split_colon_aux (bs cur : bytes) : list bytes :=
  match bs with
  | [] => [rev cur]
  | b :: bs' => if byte_eqb b colon then rev cur :: split_colon_aux bs' [] else split_colon_aux bs' (b :: cur)
  end.
Definition split_colon (bs : bytes) : list bytes := split_colon_aux bs [].

Definition xid_target (xid : bytes) : option bytes :=
  match split_colon xid with
  | [ip; port; _] => Some (ip ++ [colon] ++ port)
  | _ => None
  end.

Definition cand_xid (st : state) (xid : bytes) : list (option N) :=
  match xid_target xid with
  | Some a => match open_at st a with
              | [] => rand st
              | l => map (fun s => Some (s_id s)) l
              end
  | None => rand st
  end.

(* ---- round robin ---- *)
Fixpoint bytes_leb (a b : bytes) : bool :=
  match a, b with
  | [], _ => true
  | _ :: _, [] => false
  | x :: a', y :: b' => if b2n x <? b2n y then true else if b2n y <? b2n x then false else bytes_leb a' b'
  end.
Fixpoint insert_sorted (a : bytes) (l : list bytes) : list bytes :=
  match l with
  | [] => [a]
  | b :: l' => if bytes_leb a b then a :: l else b :: insert_sorted a l'
  end.
Definition sort_bytes (l : list bytes) : list bytes := fold_right insert_sorted [] l.
Fixpoint dedup (l : list bytes) : list bytes :=
  match l with
  | [] => []
  | a :: l' => if existsb (bytes_eqb a) l' then dedup l' else a :: dedup l'
  end.

(* adders (sorted, WITH duplicates) indexed by sequence mod the number of
   DISTINCT addresses, as the code does *)
Definition cand_rr (st : state) : list (option N) :=
  match opens st with
  | [] => [None]
  | os =>
      let adders := sort_bytes (map s_addr os) in
      let n := N.of_nat (length (dedup (map s_addr os))) in
      let a := nth (N.to_nat (st_seq st mod n)) adders [] in
      map (fun s => Some (s_id s)) (open_at st a)
  end.
Definition next_seq (st : state) : N :=
  match opens st with
  | [] => st_seq st
  | _ => if st_seq st =? 2147483647 then 0 else st_seq st + 1
  end.

(* ---- least active ---- *)
Fixpoint act_of (t : list (bytes * N)) (a : bytes) : N :=
  match t with
  | [] => 0
  | (k, v) :: t' => if bytes_eqb k a then v else act_of t' a
  end.
Definition min_act (st : state) (os : list sess) : N :=
  fold_right (fun s m => N.min (act_of (st_act st) (s_addr s)) m)
             (match os with [] => 0 | s :: _ => act_of (st_act st) (s_addr s) end) os.
Definition cand_la (st : state) : list (option N) :=
  match opens st with
  | [] => [None]
  | os => let m := min_act st os in
          map (fun s => Some (s_id s)) (filter (fun s => act_of (st_act st) (s_addr s) =? m) os)
  end.

(* ---- consistent hash ---- *)
Section Hash.
Variable hash : bytes -> N.     (* first four bytes of md5(key), big-endian *)

Definition digit (i : nat) : byte := n2b (48 + N.of_nat i).
Definition positions (a : bytes) : list N := map (fun i => hash (a ++ [digit i])) (seq 0 10).

(* one representative per distinct open address (the session that Range met last);
   every choice is a possible ring *)
Fixpoint worlds_of (st : state) (addrs : list bytes) : list ring :=
  match addrs with
  | [] => [[]]
  | a :: as' =>
      flat_map (fun s => map (fun r => map (fun p => (p, s_id s)) (positions a) ++ r) (worlds_of st as'))
               (open_at st a)
  end.
Definition build_worlds (st : state) : list ring := worlds_of st (dedup (map s_addr (opens st))).

(* first virtual node at or after h: the minimal position >= h *)
Fixpoint succ_from (r : ring) (h : N) (best : option (N * N)) : option (N * N) :=
  match r with
  | [] => best
  | (p, s) :: r' =>
      if p <? h then succ_from r' h best
      else match best with
           | Some (bp, _) => if p <? bp then succ_from r' h (Some (p, s)) else succ_from r' h best
           | None => succ_from r' h (Some (p, s))
           end
  end.
Definition succ (r : ring) (h : N) : option N :=
  match succ_from r h None with Some (_, s) => Some s | None => None end.

Definition pick_in (st : state) (r : ring) (h : N) : list (option N * ring) :=
  match succ r h with
  | None => map (fun c => (c, r)) (rand st)
  | Some s => [(Some s, r)]
  end.

(* pick: lookup; a closed session there => rebuild the ring from the sessions open
   now and look again; no node / still closed => Random over the open sessions *)
Definition ch_outcomes (st : state) (key : bytes) : list (option N * ring) :=
  let h := hash key in
  let with_ring (r : ring) :=
    match succ r h with
    | None => map (fun c => (c, r)) (rand st)
    | Some s =>
        if is_open st s then [(Some s, r)]
        else flat_map (fun r' =>
               match succ r' h with
               | None => map (fun c => (c, r')) (rand st)
               | Some s' => if is_open st s' then [(Some s', r')] else map (fun c => (c, r')) (rand st)
               end) (build_worlds st)
    end in
  match st_ring st with
  | Some r => with_ring r
  | None => flat_map with_ring (build_worlds st)     (* first use: the ring is built once *)
  end.

Definition set_ring (st : state) (r : ring) : state :=
  {| st_sess := st_sess st; st_seq := st_seq st; st_ring := Some r; st_act := st_act st |}.
Definition set_seq (st : state) (n : N) : state :=
  {| st_sess := st_sess st; st_seq := n; st_ring := st_ring st; st_act := st_act st |}.

(* every (session or nil, next state) one Select call may produce *)
Definition outcomes (p : policy) (st : state) (xid : bytes) : list (option N * state) :=
  match p with
  | PRandom => map (fun c => (c, st)) (rand st)
  | PXid => map (fun c => (c, st)) (cand_xid st xid)
  | PRoundRobin => map (fun c => (c, set_seq st (next_seq st))) (cand_rr st)
  | PLeastActive => map (fun c => (c, st)) (cand_la st)
  | PConsistentHash => map (fun cr => (fst cr, set_ring st (snd cr))) (ch_outcomes st xid)
  end.

Definition candidates (p : policy) (st : state) (xid : bytes) : list (option N) :=
  map fst (outcomes p st xid).

(* ---- histories ---- *)
Inductive event :=
| EOpen (id : N) (a : bytes)        (* registerSession of a new open session *)
| EClose (id : N)                   (* the session closes (with or without releaseSession) *)
| EBegin (a : bytes) | EEnd (a : bytes)   (* rpc.BeginCount / EndCount *)
| ESelect (p : policy) (xid : bytes).

Fixpoint act_upd (t : list (bytes * N)) (a : bytes) (f : N -> N) : list (bytes * N) :=
  match t with
  | [] => [(a, f 0)]
  | (k, v) :: t' => if bytes_eqb k a then (k, f v) :: t' else (k, v) :: act_upd t' a f
  end.

Definition close_id (id : N) (s : sess) : sess :=
  if s_id s =? id then {| s_id := s_id s; s_addr := s_addr s; s_closed := true |} else s.

Definition step (st : state) (e : event) : list state :=
  match e with
  | EOpen id a => [{| st_sess := st_sess st ++ [{| s_id := id; s_addr := a; s_closed := false |}];
                      st_seq := st_seq st; st_ring := st_ring st; st_act := st_act st |}]
  | EClose id => [{| st_sess := map (close_id id) (st_sess st);
                     st_seq := st_seq st; st_ring := st_ring st; st_act := st_act st |}]
  | EBegin a => [{| st_sess := st_sess st; st_seq := st_seq st; st_ring := st_ring st;
                    st_act := act_upd (st_act st) a (fun v => v + 1) |}]
  | EEnd a => [{| st_sess := st_sess st; st_seq := st_seq st; st_ring := st_ring st;
                  st_act := act_upd (st_act st) a (fun v => v - 1) |}]
  | ESelect p xid => map snd (outcomes p st xid)
  end.

(* all states a history may end in *)
Definition run (evs : list event) : list state :=
  fold_left (fun sts e => flat_map (fun st => step st e) sts) evs [init].

(* distinct positions across addresses (md5 prefixes do not collide in the case) *)
Fixpoint nodupN (l : list N) : bool :=
  match l with [] => true | x :: l' => negb (existsb (N.eqb x) l') && nodupN l' end.
Definition ring_wf (st : state) : bool :=
  nodupN (flat_map positions (dedup (map s_addr (st_sess st)))).

End Hash.

(* =================================================================== *)
(* Re-announcement: what the client sends when a session opens, and the
   session manager's per-address bookkeeping (serverSessions).
   Follows the code AFTER the fix "a newly opened session is told the registered
   resources again": OnOpen sends RegisterTM and then, on the new session, one
   RegisterRM per resource manager (branch type) holding resources, carrying all
   its resource ids (sorted, joined by ","). *)
Inductive request := RegisterTM | RegisterRM (ids : list bytes).

Definition resource := (N * bytes)%type.   (* branch type, resource id *)

Record client := {
  cl_resources : list resource;     (* held by the resource managers' caches *)
  cl_cur : option bytes;            (* address of the open session; None = disconnected *)
  cl_server : list (bytes * N);     (* serverSessions: address -> number of recorded sessions *)
  cl_all : N;                       (* allSessions: size of the registry used for selection *)
  cl_tm : bool;                     (* RegisterTM has been written successfully on the open session *)
  cl_rm : list resource;            (* resources announced on the open session *)
  cl_pending : list resource        (* resources whose announcement failed on the open session
                                       (held all the same: the next session is told) *)
}.
Definition cl_connected (c : client) : bool := match cl_cur c with Some _ => true | None => false end.

Inductive cevent :=
| CRegisterResource (t : N) (r : bytes) (sent_ok : bool)
                                    (* RegisterResource: cached FIRST, whatever becomes of the send;
                                       announced at once if connected and the write succeeds
                                       (sent_ok = false: WritePkg of the RegisterRMRequest fails) *)
| CConnLost (by_peer : bool)        (* OnClose / OnError -> releaseSession; by_peer: the session is
                                       already closed when it is released *)
| CReconnect (a : bytes) (write_ok : bool).
                                    (* getty (re)connects to address a: OnOpen on a new session;
                                       write_ok = false: WritePkg of the RegisterTMRequest fails
                                       (write timeout, full buffer) while the session is open *)

Fixpoint dedupN (l : list N) : list N :=
  match l with
  | [] => []
  | x :: l' => if existsb (N.eqb x) l' then dedupN l' else x :: dedupN l'
  end.
Definition ids_of (rs : list resource) (t : N) : list bytes :=
  map snd (filter (fun x => fst x =? t) rs).
Definition branch_types (rs : list resource) : list N := dedupN (map fst rs).

(* gettyClientHandler.OnOpen: registerSession, RegisterTMRequest, then the requests of
   rm.registeredResourceRequests on the new session — whatever the per-address map holds *)
Definition on_open (c : client) : list request :=
  RegisterTM :: map (fun t => RegisterRM (sort_bytes (ids_of (cl_resources c) t))) (branch_types (cl_resources c)).

(* what the property asks of the requests written on a new session *)
Definition announces (sent : list request) (r : bytes) : bool :=
  existsb (fun q => match q with RegisterRM ids => existsb (bytes_eqb r) ids | RegisterTM => false end) sent.
Definition has_tm (sent : list request) : bool :=
  existsb (fun q => match q with RegisterTM => true | _ => false end) sent.
Definition reannounced (c : client) (sent : list request) : bool :=
  has_tm sent && forallb (fun x => announces sent (snd x)) (cl_resources c).

Fixpoint cnt_upd (t : list (bytes * N)) (a : bytes) (f : N -> N) : list (bytes * N) :=
  match t with
  | [] => [(a, f 0)]
  | (k, v) :: t' => if bytes_eqb k a then (k, f v) :: t' else (k, v) :: cnt_upd t' a f
  end.
Fixpoint cnt_of (t : list (bytes * N)) (a : bytes) : N :=
  match t with
  | [] => 0
  | (k, v) :: t' => if bytes_eqb k a then v else cnt_of t' a
  end.

Definition cstep (c : client) (e : cevent) : client * list request :=
  match e with
  | CRegisterResource t r ok =>
      let now := cl_connected c && ok in
      ({| cl_resources := cl_resources c ++ [(t, r)]; cl_cur := cl_cur c; cl_server := cl_server c;
          cl_all := cl_all c; cl_tm := cl_tm c;
          cl_rm := if now then cl_rm c ++ [(t, r)] else cl_rm c;
          cl_pending := if now then cl_pending c else cl_pending c ++ [(t, r)] |},
       if now then [RegisterRM [r]] else [])
  | CConnLost by_peer =>
      (* releaseSession: always dropped from allSessions; dropped from the per-address
         map (and closed) only when it is still open: a peer-closed session stays recorded *)
      match cl_cur c with
      | None => (c, [])
      | Some a =>
          ({| cl_resources := cl_resources c; cl_cur := None;
              cl_server := if by_peer then cl_server c else cnt_upd (cl_server c) a (fun v => v - 1);
              cl_all := cl_all c - 1; cl_tm := false; cl_rm := []; cl_pending := [] |}, [])
      end
  | CReconnect a true =>
      ({| cl_resources := cl_resources c; cl_cur := Some a;
          cl_server := cnt_upd (cl_server c) a (fun v => v + 1); cl_all := cl_all c + 1; cl_tm := true;
          cl_rm := cl_resources c; cl_pending := [] |},
       on_open c)
  | CReconnect a false =>
      (* registerSession, the announcement cannot be written, OnOpen releases the (open)
         session again: nothing stays registered, getty will reconnect *)
      ({| cl_resources := cl_resources c; cl_cur := None;
          cl_server := cnt_upd (cnt_upd (cl_server c) a (fun v => v + 1)) a (fun v => v - 1);
          cl_all := cl_all c; cl_tm := false; cl_rm := []; cl_pending := [] |}, [])
  end.

(* the client before its first connection *)
Definition cinit : client :=
  {| cl_resources := []; cl_cur := None; cl_server := []; cl_all := 0; cl_tm := false; cl_rm := []; cl_pending := [] |}.

(* runs a history; returns the final client and, for every session that stays
   established (CReconnect _ true) in order, the requests written on it together with
   the client at that time *)
Fixpoint crun (c : client) (evs : list cevent) : client * list (client * list request) :=
  match evs with
  | [] => (c, [])
  | e :: evs' =>
      let '(c', out) := cstep c e in
      let '(cf, rest) := crun c' evs' in
      (cf, match e with CReconnect _ true => (c, out) :: rest | _ => rest end)
  end.

Fixpoint ids_eqb (a b : list bytes) : bool :=
  match a, b with
  | [], [] => true
  | x :: a', y :: b' => bytes_eqb x y && ids_eqb a' b'
  | _, _ => false
  end.
Definition req_eqb (a b : request) : bool :=
  match a, b with
  | RegisterTM, RegisterTM => true
  | RegisterRM x, RegisterRM y => ids_eqb x y
  | _, _ => false
  end.
Definition includes (sent required : list request) : bool :=
  forallb (fun r => existsb (req_eqb r) sent) required.
