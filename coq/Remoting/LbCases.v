(* Executable comparison of what the real loadbalance.Select returned along a
   history of sessions opening / closing (cases written by the harness run) with
   the model: the set of states the code may be in is tracked, every observed
   pick must be a candidate of at least one of them.  And of the requests the
   real client wrote on opening sessions with the model's on_open.
   No proofs here. *)
From Coq Require Import String Ascii.
From Coq Require Import List NArith Bool.
From SeataV Require Import Base.Bytes Remoting.LbModel.
Import ListNotations.
Open Scope N_scope.

Definition hash_of (t : list (bytes * N)) (k : bytes) : N :=
  (fix go t := match t with
               | [] => 0
               | (k', v) :: t' => if bytes_eqb k k' then v else go t'
               end) t.

Definition optN_eqb (a b : option N) : bool :=
  match a, b with
  | None, None => true
  | Some x, Some y => x =? y
  | _, _ => false
  end.

Fixpoint ring_eqb (a b : ring) : bool :=
  match a, b with
  | [], [] => true
  | (p, s) :: a', (q, t) :: b' => (p =? q) && (s =? t) && ring_eqb a' b'
  | _, _ => false
  end.

(* states of one belief set share sessions and counters; they differ in ring and sequence *)
Definition state_eqb (a b : state) : bool :=
  (st_seq a =? st_seq b) &&
  match st_ring a, st_ring b with
  | None, None => true
  | Some x, Some y => ring_eqb x y
  | _, _ => false
  end.

Fixpoint dedup_states (l : list state) : list state :=
  match l with
  | [] => []
  | s :: l' => if existsb (state_eqb s) l' then dedup_states l' else s :: dedup_states l'
  end.

(* an event with, for selections, what the code returned: None = nil session *)
Definition oevent := (event * option (option N))%type.

Record lcase := { lc_hash : list (bytes * N); lc_events : list oevent }.

(* codes: 10*i + 1  the pick at event i is not a candidate of the model in any tracked state
          10*i + 2  malformed case (a selection without observation)              *)
Fixpoint track (h : bytes -> N) (bel : list state) (evs : list oevent) (i : N) : list N :=
  match evs with
  | [] => []
  | (ESelect p xid, Some pick) :: evs' =>
      let nxt := flat_map (fun st => map snd (filter (fun o => optN_eqb (fst o) pick) (outcomes h p st xid))) bel in
      match nxt with
      | [] => [10 * i + 1]
      | _ => track h (dedup_states nxt) evs' (i + 1)
      end
  | (ESelect _ _, None) :: _ => [10 * i + 2]
  | (e, _) :: evs' => track h (flat_map (fun st => step h st e) bel) evs' (i + 1)
  end.

Definition check_lcase (c : lcase) : list N :=
  track (hash_of (lc_hash c)) [init] (lc_events c) 0.

(* ---- client histories: per event the requests written and the session
   manager's counts (per-address map at the event's address, registry size) ---- *)
Definition same_requests (a b : list request) : bool :=
  Nat.eqb (length a) (length b) && includes a b && includes b a.

Record cobs := { co_sent : list request; co_addr : bytes; co_per : N; co_all : N; co_open : bool }.

(* codes: 10*i + 3  the requests written at event i differ from the model's
          10*i + 4  serverSessions[addr] / allSessions sizes differ from the model's
          10*i + 5  the session is open / gone after the event, the model says otherwise *)
Fixpoint ctrack (c : client) (evs : list (cevent * cobs)) (i : N) : list N :=
  match evs with
  | [] => []
  | (e, o) :: evs' =>
      let '(c', out) := cstep c e in
      if negb (same_requests out (co_sent o)) then [10 * i + 3]
      else if negb ((cnt_of (cl_server c') (co_addr o) =? co_per o) && (cl_all c' =? co_all o)) then [10 * i + 4]
      else if negb (Bool.eqb (cl_connected c') (co_open o)) then [10 * i + 5]
      else ctrack c' evs' (i + 1)
  end.

Inductive anycase := LCase (c : lcase) | CCase (evs : list (cevent * cobs)).

Definition check_case (c : anycase) : list N :=
  match c with
  | LCase l => check_lcase l
  | CCase evs => ctrack cinit evs 0
  end.

Fixpoint mismatches_from (i : nat) (cs : list anycase) : list (nat * N) :=
  match cs with
  | [] => []
  | c :: cs' => map (fun e => (i, e)) (check_case c) ++ mismatches_from (S i) cs'
  end.
Definition mismatches := mismatches_from 0.

(* diagnostics: the candidate sets along a history (for replay files) *)
Fixpoint cands_along (h : bytes -> N) (bel : list state) (evs : list oevent) : list (list (option N)) :=
  match evs with
  | [] => []
  | (ESelect p xid, Some pick) :: evs' =>
      let cs := flat_map (fun st => candidates h p st xid) bel in
      let nxt := flat_map (fun st => map snd (filter (fun o => optN_eqb (fst o) pick) (outcomes h p st xid))) bel in
      cs :: cands_along h (dedup_states nxt) evs'
  | (e, _) :: evs' => cands_along h (flat_map (fun st => step h st e) bel) evs'
  end.
