(* C02 — proofs about At/Commit.v.  The journal of every run has one of three shapes
   (run_shape); everything else is derived from the shape. *)
From Coq Require Import List NArith Bool Arith Lia.
From SeataV Require Import At.Commit.
Import ListNotations.

(* ---------------------------------------------------------------- toolbox *)

Definition is_body (e : event) : bool :=
  match e with EDb OQuery _ | EDb (OStmt _) _ => true | _ => false end.
Definition body (j : list event) : Prop := forallb is_body j = true.

Ltac ev_cases e :=
  let o := fresh "o" in let b := fresh "b" in let g := fresh "g" in
  destruct e as [o b|g|? b]; [destruct o; destruct b|destruct g|destruct b].

Lemma existsb_none : forall (p q : event -> bool) l,
  forallb p l = true -> (forall e, p e = true -> q e = false) -> existsb q l = false.
Proof.
  induction l as [|a l IH]; simpl; intros H Hpq; [reflexivity|].
  apply andb_true_iff in H as [Ha Hl]. rewrite (Hpq a Ha). simpl. now apply IH.
Qed.

Lemma forallb_weaken : forall (p q : event -> bool) l,
  forallb p l = true -> (forall e, p e = true -> q e = true) -> forallb q l = true.
Proof.
  induction l as [|a l IH]; simpl; intros H Hpq; [reflexivity|].
  apply andb_true_iff in H as [Ha Hl]. rewrite (Hpq a Ha). simpl. now apply IH.
Qed.

Lemma forallb_firstn : forall (p : event -> bool) l n, forallb p l = true -> forallb p (firstn n l) = true.
Proof.
  induction l as [|a l IH]; intros [|n] H; simpl; try reflexivity.
  simpl in H. apply andb_true_iff in H as [Ha Hl]. rewrite Ha. simpl. now apply IH.
Qed.

Lemma count_app : forall p a b, count p (a ++ b) = count p a + count p b.
Proof. intros. unfold count. now rewrite filter_app, app_length. Qed.

Lemma count_none : forall (p q : event -> bool) l,
  forallb p l = true -> (forall e, p e = true -> q e = false) -> count q l = 0.
Proof.
  unfold count. induction l as [|a l IH]; simpl; intros H Hpq; [reflexivity|].
  apply andb_true_iff in H as [Ha Hl]. rewrite (Hpq a Ha). now apply IH.
Qed.

Lemma count_all : forall (p : event -> bool) l, forallb p l = true -> count p l = length l.
Proof.
  unfold count. induction l as [|a l IH]; simpl; intros H; [reflexivity|].
  apply andb_true_iff in H as [Ha Hl]. rewrite Ha. simpl. now rewrite IH.
Qed.

Lemma stmts_ok_app : forall a b, stmts_ok (a ++ b) = stmts_ok a ++ stmts_ok b.
Proof. intros. unfold stmts_ok. apply flat_map_app. Qed.

Lemma stmts_ok_reps : forall l, forallb is_rep l = true -> stmts_ok l = [].
Proof.
  induction l as [|a l IH]; simpl; intros H; [reflexivity|].
  apply andb_true_iff in H as [Ha Hl]. ev_cases a; try discriminate; simpl; auto.
Qed.

Lemma granted_app : forall a b,
  granted (a ++ b) = match granted a with Some x => Some x | None => granted b end.
Proof.
  induction a as [|e a IH]; intros; simpl; [reflexivity|].
  destruct e as [| [x|] |]; auto.
Qed.

Lemma granted_none : forall (p : event -> bool) l,
  forallb p l = true -> (forall x, p (EReg (Some x)) = false) -> granted l = None.
Proof.
  induction l as [|a l IH]; simpl; intros H Hp; [reflexivity|].
  apply andb_true_iff in H as [Ha Hl].
  destruct a as [| [x|] |]; auto. rewrite Hp in Ha. discriminate.
Qed.

Lemma granted_In : forall l b, granted l = Some b -> In (EReg (Some b)) l.
Proof.
  induction l as [|a l IH]; simpl; intros b H; [discriminate|].
  destruct a as [| [x|] |]; auto. inversion H. now left.
Qed.

Definition last_db_from (acc : option event) (j : list event) : option event :=
  fold_left (fun acc e => match e with EDb _ _ => Some e | _ => acc end) j acc.

Lemma last_db_from_spec : forall j acc,
  last_db_from acc j = match last_db j with Some e => Some e | None => acc end.
Proof.
  unfold last_db, last_db_from.
  induction j as [|e j IH]; intros acc; simpl; [reflexivity|].
  rewrite IH. rewrite (IH (match e with EDb _ _ => Some e | _ => None end)).
  destruct (fold_left _ j None); [reflexivity|]. destruct e; reflexivity.
Qed.

Lemma last_db_app : forall a b,
  last_db (a ++ b) = match last_db b with Some e => Some e | None => last_db a end.
Proof.
  intros. unfold last_db at 1. rewrite fold_left_app.
  change (last_db_from (last_db a) b = match last_db b with Some e => Some e | None => last_db a end).
  apply last_db_from_spec.
Qed.

Lemma last_db_reps : forall l, forallb is_rep l = true -> last_db l = None.
Proof.
  induction l as [|a l IH]; intros H; [reflexivity|].
  simpl in H. apply andb_true_iff in H as [Ha Hl].
  change (a :: l) with ([a] ++ l). rewrite last_db_app, (IH Hl).
  ev_cases a; try discriminate; reflexivity.
Qed.

Lemma step_reps : forall l st, forallb is_rep l = true -> fold_left step l st = st.
Proof.
  induction l as [|a l IH]; simpl; intros st H; [reflexivity|].
  apply andb_true_iff in H as [Ha Hl]. rewrite IH by assumption.
  ev_cases a; try discriminate; reflexivity.
Qed.

Definition mk_st (d : durable) (w : option (list nat * option N)) (b : N) : dbstate :=
  {| db_dur := d ; db_wc := w ; db_bid := b |}.

Lemma step_body : forall jb, body jb -> forall d w u b,
  fold_left step jb (mk_st d (Some (w, u)) b) = mk_st d (Some (w ++ stmts_ok jb, u)) b.
Proof.
  unfold body. induction jb as [|a jb IH]; simpl; intros H d w u b.
  - now rewrite app_nil_r.
  - apply andb_true_iff in H as [Ha Hl].
    ev_cases a; try discriminate; simpl; unfold mk_st in *; simpl; rewrite ?IH by assumption; try reflexivity.
    now rewrite <- app_assoc.
Qed.

Lemma body_firstn : forall jb n, body jb -> body (firstn n jb).
Proof. intros. now apply forallb_firstn. Qed.

Lemma body_facts : forall jb, body jb ->
  committed jb = false /\ undo_ok jb = false /\ rollback_failed jb = false /\ tail_failed jb = false /\
  granted jb = None /\ forallb inside jb = true /\ count is_commit_ok jb = 0 /\
  (forall d, count (is_rep_of d) jb = 0) /\ (forall g, ~ In (EReg g) jb) /\ (forall r, ~ In (EDb OUndo r) jb).
Proof.
  intros jb H. unfold committed, undo_ok, rollback_failed, tail_failed.
  repeat split.
  1-4: apply (existsb_none is_body); [assumption|]; intros e; ev_cases e; simpl; congruence.
  - apply (granted_none is_body); auto.
  - apply (forallb_weaken is_body); [assumption|]; intros e; ev_cases e; simpl; congruence.
  - apply (count_none is_body); [assumption|]; intros e; ev_cases e; simpl; congruence.
  - intros d. apply (count_none is_body); [assumption|]; intros e; ev_cases e; simpl; congruence.
  - intros g Hin. unfold body in H. rewrite forallb_forall in H. apply H in Hin. discriminate.
  - intros r Hin. unfold body in H. rewrite forallb_forall in H. apply H in Hin. discriminate.
Qed.

Lemma reps_facts : forall l, forallb is_rep l = true ->
  committed l = false /\ undo_ok l = false /\ rollback_failed l = false /\ tail_failed l = false /\
  call_failed l = false /\ granted l = None /\ count is_commit_ok l = 0.
Proof.
  intros l H. unfold committed, undo_ok, rollback_failed, tail_failed, call_failed.
  repeat split.
  1-5: apply (existsb_none is_rep); [assumption|]; intros e; ev_cases e; simpl; congruence.
  - apply (granted_none is_rep); auto.
  - apply (count_none is_rep); [assumption|]; intros e; ev_cases e; simpl; congruence.
Qed.

(* ---------------------------------------------------------------- statements *)

Definition body_op (o : dbop) : bool := match o with OQuery | OStmt _ => true | _ => false end.

Lemma calls_body : forall s, forallb body_op (calls s) = true.
Proof. intros [i k r]. destruct k, r; reflexivity. Qed.

Lemma calls_stmt : forall s, In (OStmt (st_id s)) (calls s).
Proof. intros [i k r]. destruct k, r; simpl; auto. Qed.

Lemma exec_calls_body : forall ops db,
  forallb body_op ops = true -> body (fst (fst (exec_calls ops db))).
Proof.
  unfold body. induction ops as [|o r IH]; intros db H; simpl; [reflexivity|].
  simpl in H. apply andb_true_iff in H as [Ho Hr].
  destruct (pop db) as [b db1]. destruct b.
  - specialize (IH db1 Hr). destruct (exec_calls r db1) as [[j ok] db2]. simpl in *.
    rewrite IH. destruct o; try discriminate; reflexivity.
  - simpl. destruct o; try discriminate; reflexivity.
Qed.

Lemma exec_calls_ok : forall ops db j db',
  exec_calls ops db = (j, true, db') -> j = map (fun o => EDb o true) ops.
Proof.
  induction ops as [|o r IH]; intros db j db' H; simpl in H.
  - now inversion H.
  - destruct (pop db) as [b db1]. destruct b.
    + destruct (exec_calls r db1) as [[j1 ok] db2] eqn:E. inversion H; subst.
      simpl. f_equal. eapply IH. eassumption.
    + inversion H.
Qed.

(* the recorded flags belong to the statements, and a recorded statement was applied *)
Definition links (ss : list stmt) (jb : list event) (oks : list bool) : Prop :=
  length oks = length ss /\
  forall i s, nth_error ss i = Some s -> nth_error oks i = Some true ->
              In (EDb (OStmt (st_id s)) true) jb.

Lemma exec_stmts_spec : forall ss db,
  body (fst (fst (exec_stmts ss db))) /\
  links ss (fst (fst (exec_stmts ss db))) (snd (fst (exec_stmts ss db))).
Proof.
  induction ss as [|s r IH]; intros db; simpl.
  - split; [reflexivity|]. split; [reflexivity|]. intros [|i] s; discriminate.
  - pose proof (exec_calls_body (calls s) db (calls_body s)) as Hb.
    destruct (exec_calls (calls s) db) as [[j ok] db1] eqn:E.
    specialize (IH db1). destruct (exec_stmts r db1) as [[j' oks] db2]. simpl in *.
    destruct IH as [Hb' [Hlen Hl]]. split; [|split].
    + unfold body in *. now rewrite forallb_app, Hb, Hb'.
    + simpl. now rewrite Hlen.
    + intros [|i] s0 Hs Hok; simpl in *.
      * inversion Hs; subst s0. inversion Hok; subst ok.
        apply exec_calls_ok in E. subst j. apply in_or_app. left.
        apply (in_map (fun o => EDb o true)). apply calls_stmt.
      * apply in_or_app. right. eapply Hl; eassumption.
Qed.

Lemma rows_of_iff : forall ss oks,
  rows_of ss oks = true <->
  exists i s, nth_error ss i = Some s /\ st_rows s = true /\ nth_error oks i = Some true.
Proof.
  induction ss as [|s ss IH]; intros oks; simpl.
  - split; [discriminate|]. intros [[|i] [s [H _]]]; discriminate.
  - destruct oks as [|ok oks].
    + split; [discriminate|]. intros [[|i] [s0 [_ [_ H]]]]; discriminate.
    + rewrite orb_true_iff, andb_true_iff, IH. split.
      * intros [[Hok Hr]|[i [s0 [H1 [H2 H3]]]]].
        -- exists 0, s. subst. auto.
        -- exists (S i), s0. auto.
      * intros [[|i] [s0 [H1 [H2 H3]]]]; simpl in *.
        -- left. inversion H1; inversion H3; subst. auto.
        -- right. exists i, s0. auto.
Qed.

Lemma existsb_id_nth : forall oks i, nth_error oks i = Some true -> existsb (fun b : bool => b) oks = true.
Proof.
  induction oks as [|b oks IH]; intros [|i] H; simpl in *; try discriminate.
  - inversion H. reflexivity.
  - rewrite (IH i H). apply orb_true_r.
Qed.

(* ---------------------------------------------------------------- the commit *)

Definition rep_run (done : bool) (reps : list event) : Prop :=
  forallb (is_rep_of done) reps = true /\ 1 <= length reps <= max_retries.

Lemma reports_n_spec : forall k done rep,
  forallb (is_rep_of done) (reports_n k done rep) = true /\
  length (reports_n k done rep) <= k /\ (0 < k -> 1 <= length (reports_n k done rep)).
Proof.
  induction k as [|k IH]; intros done rep; simpl.
  - repeat split; lia.
  - destruct (pop rep) as [b rep']. simpl. rewrite eqb_reflx. simpl.
    destruct b; simpl.
    + repeat split; lia.
    + destruct (IH done rep') as [H1 [H2 H3]]. repeat split; try assumption; lia.
Qed.

Lemma reports_run : forall done rep, rep_run done (reports done rep).
Proof.
  intros. unfold rep_run, reports. destruct (reports_n_spec max_retries done rep) as [H1 [H2 H3]].
  repeat split; try assumption. apply H3. unfold max_retries. lia.
Qed.

Lemma rep_of_is_rep : forall d l, forallb (is_rep_of d) l = true -> forallb is_rep l = true.
Proof.
  intros d l H. apply (forallb_weaken (is_rep_of d)); [assumption|].
  intros e; ev_cases e; simpl; congruence.
Qed.

Definition undo_ev (rows : bool) : list event := if rows then [EDb OUndo true] else [].

Inductive tail_shape : bool -> bool -> list event -> list event -> bool -> Prop :=
| TS_none_ok : forall rows, tail_shape false rows [EDb OCommit true] [] true
| TS_none_fail : forall rows r, tail_shape false rows [EDb OCommit false; EDb ORollback r] [] false
| TS_refused : forall rows r, tail_shape true rows [EReg None; EDb ORollback r] [] false
| TS_undo_fail : forall b r reps, rep_run false reps ->
    tail_shape true true [EReg (Some b); EDb OUndo false; EDb ORollback r] reps false
| TS_commit_fail : forall rows b r reps, rep_run false reps ->
    tail_shape true rows (EReg (Some b) :: undo_ev rows ++ [EDb OCommit false; EDb ORollback r]) reps false
| TS_ok : forall rows b reps, rep_run true reps ->
    tail_shape true rows (EReg (Some b) :: undo_ev rows ++ [EDb OCommit true]) reps true.

Lemma commit_tail_shape : forall recd rows db reg rep,
  exists core reps,
    fst (commit_tail recd rows db reg rep) = core ++ reps /\
    tail_shape recd rows core reps (snd (commit_tail recd rows db reg rep)).
Proof.
  intros recd rows db reg rep. unfold commit_tail, rb.
  pose proof (reports_run true rep) as Rt. pose proof (reports_run false rep) as Rf.
  destruct recd.
  - destruct (pop_reg reg) as [b|].
    + destruct rows.
      * destruct (pop db) as [u db1]. destruct u.
        -- destruct (pop db1) as [c db2]. destruct c; simpl.
           ++ exists [EReg (Some b); EDb OUndo true; EDb OCommit true], (reports true rep).
              split; [reflexivity|]. apply (TS_ok true b). assumption.
           ++ exists [EReg (Some b); EDb OUndo true; EDb OCommit false; EDb ORollback (fst (pop db2))], (reports false rep).
              split; [reflexivity|]. apply (TS_commit_fail true b). assumption.
        -- simpl. exists [EReg (Some b); EDb OUndo false; EDb ORollback (fst (pop db1))], (reports false rep).
           split; [reflexivity|]. apply TS_undo_fail. assumption.
      * destruct (pop db) as [c db2]. destruct c; simpl.
        -- exists [EReg (Some b); EDb OCommit true], (reports true rep).
           split; [reflexivity|]. apply (TS_ok false b). assumption.
        -- exists [EReg (Some b); EDb OCommit false; EDb ORollback (fst (pop db2))], (reports false rep).
           split; [reflexivity|]. apply (TS_commit_fail false b). assumption.
    + simpl. exists [EReg None; EDb ORollback (fst (pop db))], []. split; [reflexivity|]. constructor.
  - destruct (pop db) as [c db1]. destruct c; simpl.
    + exists [EDb OCommit true], []. split; [reflexivity|]. constructor.
    + exists [EDb OCommit false; EDb ORollback (fst (pop db1))], []. split; [reflexivity|]. constructor.
Qed.

(* ---------------------------------------------------------------- facts about the six tails *)

Definition is_rollback (e : event) : bool := match e with EDb ORollback _ => true | _ => false end.

Ltac tail_cases H := destruct H as [rows|rows r|rows r|b r reps R|rows b r reps R|rows b reps R]; try destruct rows.

Lemma tail_decomp : forall recd rows core reps okc, tail_shape recd rows core reps okc ->
  exists cinner close, core = cinner ++ [close] /\ forallb inside cinner = true /\ is_close close = true.
Proof.
  intros recd rows core reps okc H. tail_cases H; simpl.
  1,2: exists [], (EDb OCommit true); auto.
  1,2: exists [EDb OCommit false], (EDb ORollback r); auto.
  1,2: exists [EReg None], (EDb ORollback r); auto.
  - exists [EReg (Some b); EDb OUndo false], (EDb ORollback r); auto.
  - exists [EReg (Some b); EDb OUndo true; EDb OCommit false], (EDb ORollback r); auto.
  - exists [EReg (Some b); EDb OCommit false], (EDb ORollback r); auto.
  - exists [EReg (Some b); EDb OUndo true], (EDb OCommit true); auto.
  - exists [EReg (Some b)], (EDb OCommit true); auto.
Qed.

Lemma tail_reps : forall recd rows core reps okc, tail_shape recd rows core reps okc ->
  forallb is_rep reps = true.
Proof.
  intros recd rows core reps okc H. tail_cases H; try reflexivity;
  destruct R as [R _]; eapply rep_of_is_rep; eassumption.
Qed.

Lemma tail_basic : forall recd rows core reps okc, tail_shape recd rows core reps okc ->
  stmts_ok core = [] /\ committed core = okc /\ count is_commit_ok core = (if okc then 1 else 0) /\
  tail_failed core = negb okc /\ call_failed core = negb okc /\
  (okc = true -> existsb is_rollback core = false).
Proof.
  intros recd rows core reps okc H. tail_cases H; repeat split; try reflexivity; intros; discriminate.
Qed.

Lemma tail_replay : forall recd rows core reps okc, tail_shape recd rows core reps okc ->
  forall d w,
  db_dur (fold_left step core (mk_st d (Some (w, None)) 0)) =
    (if okc then commit_wc d w (if undo_ok core then granted core else None) else d) /\
  is_open (fold_left step core (mk_st d (Some (w, None)) 0)) = rollback_failed core.
Proof.
  intros recd rows core reps okc H d w. tail_cases H; try destruct r; split; reflexivity.
Qed.

Lemma tail_prefix : forall recd rows core reps okc, tail_shape recd rows core reps okc ->
  forall d w k,
  db_dur (fold_left step (firstn k core) (mk_st d (Some (w, None)) 0)) = d \/
  (okc = true /\
   db_dur (fold_left step (firstn k core) (mk_st d (Some (w, None)) 0)) =
     commit_wc d w (if undo_ok core then granted core else None)).
Proof.
  intros recd rows core reps okc H d w k.
  tail_cases H; try destruct r;
  do 5 (try (destruct k as [|k]; [left; reflexivity|]));
  try (left; reflexivity);
  do 5 (try (destruct k as [|k]; [(left; reflexivity) || (right; split; reflexivity)|]));
  simpl; rewrite ?firstn_nil; (left; reflexivity) || (right; split; reflexivity).
Qed.

Lemma tail_order : forall recd rows core reps okc, tail_shape recd rows core reps okc ->
  okc = true -> recd = true -> rows = true ->
  exists b, core = [EReg (Some b); EDb OUndo true; EDb OCommit true].
Proof.
  intros recd rows core reps okc H. tail_cases H; intros; try discriminate; exists b; reflexivity.
Qed.

Lemma tail_undo : forall recd rows core reps okc, tail_shape recd rows core reps okc ->
  (forall r, In (EDb OUndo r) core -> recd = true /\ rows = true /\ exists b, granted core = Some b) /\
  (recd = true -> rows = true -> granted core <> None -> exists r, In (EDb OUndo r) core).
Proof.
  intros recd rows core reps okc H. tail_cases H; (split; [intros r0 Hin|intros H1 H2 H3]); simpl in *;
  try congruence;
  try (repeat (destruct Hin as [Hin|Hin]; try discriminate); contradiction);
  try (repeat split; eexists; reflexivity);
  try (eexists; right; left; reflexivity).
Qed.

Lemma tail_reports : forall recd rows core reps okc, tail_shape recd rows core reps okc ->
  (forall b, In (EReg (Some b)) core -> rep_run okc reps) /\ (granted core = None -> reps = []) /\
  (forall b, In (EReg (Some b)) core <-> granted core = Some b).
Proof.
  intros recd rows core reps okc H. tail_cases H; (split; [intros b0 Hin|split; [intros Hg|intros b0; split; intros Hin]]); simpl in *;
  try assumption; try reflexivity; try discriminate;
  try (repeat (destruct Hin as [Hin|Hin]; try discriminate); try contradiction);
  try (inversion Hin; subst; reflexivity);
  try (inversion Hin; subst; left; reflexivity).
Qed.

Lemma tail_last : forall recd rows core reps okc, tail_shape recd rows core reps okc ->
  okc = false -> exists r, last_db core = Some (EDb ORollback r).
Proof.
  intros recd rows core reps okc H. tail_cases H; intros; try discriminate; exists r; reflexivity.
Qed.

(* ---------------------------------------------------------------- the shape of every run *)

Lemma exec_calls_failed : forall ops db, forallb body_op ops = true ->
  call_failed (fst (fst (exec_calls ops db))) = negb (snd (fst (exec_calls ops db))).
Proof.
  unfold call_failed. induction ops as [|o r IH]; intros db H; simpl; [reflexivity|].
  simpl in H. apply andb_true_iff in H as [Ho Hr].
  destruct (pop db) as [b db1]. destruct b.
  - specialize (IH db1 Hr). destruct (exec_calls r db1) as [[j ok] db2]. simpl in *.
    rewrite IH. destruct o; try discriminate; reflexivity.
  - simpl. destruct o; try discriminate; reflexivity.
Qed.

Lemma exec_stmts_failed : forall ss db,
  call_failed (fst (fst (exec_stmts ss db))) = negb (forallb (fun b : bool => b) (snd (fst (exec_stmts ss db)))).
Proof.
  induction ss as [|s r IH]; intros db; simpl; [reflexivity|].
  pose proof (exec_calls_failed (calls s) db (calls_body s)) as Hc.
  destruct (exec_calls (calls s) db) as [[j ok] db1].
  specialize (IH db1). destruct (exec_stmts r db1) as [[j' oks] db2]. simpl in *.
  unfold call_failed in *. rewrite existsb_app, Hc, IH. now rewrite negb_andb.
Qed.

Inductive run_shape (u : use) : list event -> list bool -> list bool -> Prop :=
| RS_nobegin : run_shape u [EDb OBegin false] [false] []
| RS_rollback : forall jb oks r,
    body jb -> links (stmts_of u) jb oks ->
    call_failed jb = negb (forallb (fun b : bool => b) oks) ->
    wants_rollback u oks = true ->
    run_shape u (EDb OBegin true :: jb ++ [EDb ORollback r])
              (results_of u oks (match u with Auto _ => false | Explicit _ _ => r end)) oks
| RS_commit : forall jb oks core reps okc,
    body jb -> links (stmts_of u) jb oks ->
    call_failed jb = negb (forallb (fun b : bool => b) oks) ->
    wants_rollback u oks = false ->
    tail_shape (existsb (fun b : bool => b) oks) (rows_of (stmts_of u) oks) core reps okc ->
    run_shape u (EDb OBegin true :: jb ++ core ++ reps) (results_of u oks okc) oks.

Lemma run_parts_shape : forall u sc,
  run_shape u (journal u sc) (snd (fst (run_parts u sc))) (stmt_oks u sc).
Proof.
  intros u sc. unfold journal, stmt_oks, run_parts.
  destruct (pop (s_db sc)) as [b db0]. destruct b; [|constructor].
  pose proof (exec_stmts_spec (stmts_of u) db0) as [Hb Hl].
  pose proof (exec_stmts_failed (stmts_of u) db0) as Hf.
  destruct (exec_stmts (stmts_of u) db0) as [[jb oks] db1]. simpl in Hb, Hl, Hf.
  destruct (wants_rollback u oks) eqn:W.
  - simpl. now constructor.
  - destruct (commit_tail_shape (existsb (fun b : bool => b) oks) (rows_of (stmts_of u) oks)
                                db1 (s_reg sc) (s_rep sc)) as [core [reps [E T]]].
    destruct (commit_tail _ _ db1 (s_reg sc) (s_rep sc)) as [jt okc]. simpl in *. subst jt.
    now constructor.
Qed.

(* aggregates of a journal of the third shape *)
Lemma commit_shape_aggr : forall recd rows jb core reps okc,
  body jb -> tail_shape recd rows core reps okc ->
  let j := EDb OBegin true :: jb ++ core ++ reps in
  stmts_ok j = stmts_ok jb /\ undo_ok j = undo_ok core /\ granted j = granted core /\
  committed j = okc /\ count is_commit_ok j = (if okc then 1 else 0) /\
  rollback_failed j = rollback_failed core /\ tail_failed j = negb okc /\
  call_failed j = call_failed jb || negb okc.
Proof.
  intros recd rows jb core reps okc Hb T j.
  destruct (body_facts jb Hb) as [B1 [B2 [B3 [B4 [B5 [B6 [B7 _]]]]]]].
  pose proof (tail_reps _ _ _ _ _ T) as Hr.
  destruct (reps_facts reps Hr) as [R1 [R2 [R3 [R4 [R5 [R6 R7]]]]]].
  destruct (tail_basic _ _ _ _ _ T) as [T1 [T2 [T3 [T4 [T5 T6]]]]].
  unfold j, committed, undo_ok, rollback_failed, tail_failed, call_failed in *.
  repeat split.
  - change (stmts_ok (EDb OBegin true :: jb ++ core ++ reps)) with (stmts_ok (jb ++ core ++ reps)).
    rewrite !stmts_ok_app, T1, (stmts_ok_reps reps Hr). simpl. now rewrite app_nil_r.
  - simpl. now rewrite !existsb_app, B2, R2, orb_false_r.
  - change (granted (EDb OBegin true :: jb ++ core ++ reps)) with (granted (jb ++ core ++ reps)).
    rewrite !granted_app, B5, R6. now destruct (granted core).
  - simpl. now rewrite !existsb_app, B1, R1, T2, orb_false_r.
  - change (EDb OBegin true :: jb ++ core ++ reps) with ([EDb OBegin true] ++ jb ++ core ++ reps).
    rewrite !count_app, B7, R7, T3. simpl. lia.
  - simpl. now rewrite !existsb_app, B3, R3, orb_false_r.
  - simpl. now rewrite !existsb_app, B4, R4, T4, orb_false_r.
  - simpl. now rewrite !existsb_app, R5, T5, orb_false_r.
Qed.

(* ---------------------------------------------------------------- brackets *)

Lemma begin_state : forall d0 l,
  fold_left step (EDb OBegin true :: l) (init_db d0) = fold_left step l (mk_st d0 (Some ([], None)) 0).
Proof. reflexivity. Qed.

Lemma shape_bracket : forall u j res oks, run_shape u j res oks ->
  j = [EDb OBegin false] \/
  exists inner close reps,
    j = EDb OBegin true :: inner ++ close :: reps /\
    forallb inside inner = true /\ is_close close = true /\ forallb is_rep reps = true.
Proof.
  intros u j res oks H. destruct H as [|jb oks r Hb Hl Hf W|jb oks core reps okc Hb Hl Hf W T].
  - now left.
  - right. exists jb, (EDb ORollback r), []. repeat split. apply (body_facts jb Hb).
  - right. destruct (tail_decomp _ _ _ _ _ T) as [ci [cl [E [Hi Hc]]]]. subst core.
    exists (jb ++ ci), cl, reps. repeat split.
    + now rewrite <- !app_assoc.
    + rewrite forallb_app, Hi. destruct (body_facts jb Hb) as [_ [_ [_ [_ [_ [B6 _]]]]]]. now rewrite B6.
    + assumption.
    + eapply tail_reps; eassumption.
Qed.

(* ---------------------------------------------------------------- final state *)

Lemma shape_final : forall u j res oks, run_shape u j res oks -> forall d0,
  db_dur (fold_left step j (init_db d0)) = (if committed j then all_state d0 j else d0) /\
  is_open (fold_left step j (init_db d0)) = rollback_failed j.
Proof.
  intros u j res oks H d0. destruct H as [|jb oks r Hb Hl Hf W|jb oks core reps okc Hb Hl Hf W T].
  - split; reflexivity.
  - destruct (body_facts jb Hb) as [B1 [B2 [B3 _]]].
    rewrite begin_state, fold_left_app, (step_body jb Hb).
    unfold committed, rollback_failed in *. simpl existsb. rewrite !existsb_app, B1, B3.
    destruct r; split; reflexivity.
  - pose proof (commit_shape_aggr _ _ jb core reps okc Hb T) as A. cbv zeta in A.
    destruct A as [A1 [A2 [A3 [A4 [A5 [A6 [A7 A8]]]]]]].
    rewrite A4, A6. unfold all_state. rewrite A1, A2, A3.
    rewrite begin_state, !fold_left_app, (step_body jb Hb), (step_reps reps) by (eapply tail_reps; eassumption).
    destruct (tail_replay _ _ _ _ _ T d0 ([] ++ stmts_ok jb)) as [E1 E2].
    rewrite E1, E2. split; [|reflexivity]. now destruct okc.
Qed.

(* ---------------------------------------------------------------- crash points *)

Lemma firstn_app_le : forall (a b : list event) n, n <= length a -> firstn n (a ++ b) = firstn n a.
Proof.
  intros a b n H. rewrite firstn_app. replace (n - length a) with 0 by lia. simpl. apply app_nil_r.
Qed.

Lemma shape_atomic : forall u j res oks, run_shape u j res oks -> forall d0 n,
  db_dur (fold_left step (firstn n j) (init_db d0)) = d0 \/
  (committed j = true /\ db_dur (fold_left step (firstn n j) (init_db d0)) = all_state d0 j).
Proof.
  intros u j res oks H d0 n. destruct H as [|jb oks r Hb Hl Hf W|jb oks core reps okc Hb Hl Hf W T].
  - left. destruct n as [|[|n]]; reflexivity.
  - left. destruct n as [|n]; [reflexivity|]. simpl firstn. rewrite begin_state.
    rewrite firstn_app, fold_left_app, (step_body _ (body_firstn jb n Hb)).
    destruct (n - length jb) as [|[|m]]; try reflexivity; destruct r; reflexivity.
  - destruct n as [|n]; [left; reflexivity|]. simpl firstn. rewrite begin_state.
    destruct (le_lt_dec n (length jb)) as [L|L].
    + left. rewrite firstn_app_le by assumption. now rewrite (step_body _ (body_firstn jb n Hb)).
    + rewrite firstn_app, (firstn_all2 jb) by lia. rewrite fold_left_app, (step_body jb Hb).
      rewrite firstn_app, fold_left_app.
      rewrite (step_reps (firstn _ reps)) by (apply forallb_firstn; eapply tail_reps; eassumption).
      pose proof (commit_shape_aggr _ _ jb core reps okc Hb T) as A. cbv zeta in A.
      destruct A as [A1 [A2 [A3 [A4 _]]]].
      destruct (tail_prefix _ _ _ _ _ T d0 ([] ++ stmts_ok jb) (n - length jb)) as [E|[E1 E2]].
      * left. exact E.
      * right. split; [now rewrite A4|]. rewrite E2. unfold all_state. now rewrite A1, A2, A3.
Qed.

(* ---------------------------------------------------------------- order *)

Lemma split_unique : forall (p : event -> bool) x a b a' b',
  p x = true -> count p a = 0 -> count p b = 0 ->
  a ++ x :: b = a' ++ x :: b' -> a = a' /\ b = b'.
Proof.
  intros p x. induction a as [|z a IH]; intros b a' b' Hx Ha Hb E.
  - destruct a' as [|y a'].
    + inversion E. auto.
    + simpl in E. inversion E; subst. exfalso.
      rewrite count_app in Hb. unfold count in Hb. simpl in Hb. rewrite Hx in Hb. simpl in Hb. lia.
  - unfold count in Ha. simpl in Ha. destruct (p z) eqn:Pz; [simpl in Ha; lia|].
    destruct a' as [|y a'].
    + simpl in E. inversion E; subst. congruence.
    + simpl in E. inversion E; subst. destruct (IH b a' b' Hx Ha Hb H1). subst. auto.
Qed.

Lemma split_committed : forall j pre post, j = pre ++ EDb OCommit true :: post -> committed j = true.
Proof. intros; subst. unfold committed. rewrite existsb_app. simpl. apply orb_true_r. Qed.

Definition recorded_rows (u : use) (oks : list bool) : Prop :=
  exists i s, nth_error (stmts_of u) i = Some s /\ st_rows s = true /\ nth_error oks i = Some true.

Lemma recorded_rows_flags : forall u oks, recorded_rows u oks ->
  existsb (fun b : bool => b) oks = true /\ rows_of (stmts_of u) oks = true.
Proof.
  intros u oks [i [s [H1 [H2 H3]]]]. split.
  - eapply existsb_id_nth; eassumption.
  - apply rows_of_iff. exists i, s. auto.
Qed.

Lemma rollback_shape_not_committed : forall jb r, body jb ->
  committed (EDb OBegin true :: jb ++ [EDb ORollback r]) = false.
Proof.
  intros jb r Hb. destruct (body_facts jb Hb) as [B1 _]. unfold committed in *. simpl.
  now rewrite existsb_app, B1.
Qed.

Lemma shape_order : forall u j res oks, run_shape u j res oks ->
  forall i s, nth_error (stmts_of u) i = Some s -> st_rows s = true -> nth_error oks i = Some true ->
  forall pre post, j = pre ++ EDb OCommit true :: post ->
  exists b p1,
    pre = EDb OBegin true :: p1 ++ [EReg (Some b); EDb OUndo true] /\
    forallb inside p1 = true /\ (forall g, ~ In (EReg g) p1) /\ (forall r, ~ In (EDb OUndo r) p1) /\
    In (EDb (OStmt (st_id s)) true) p1 /\ forallb is_rep post = true.
Proof.
  intros u j res oks H i s H1 H2 H3 pre post E.
  pose proof (split_committed _ _ _ E) as C.
  destruct H as [|jb oks r Hb Hl Hf W|jb oks core reps okc Hb Hl Hf W T].
  - discriminate.
  - rewrite rollback_shape_not_committed in C by assumption. discriminate.
  - pose proof (commit_shape_aggr _ _ jb core reps okc Hb T) as A. cbv zeta in A.
    destruct A as [_ [_ [_ [A4 _]]]]. rewrite A4 in C. subst okc.
    destruct (recorded_rows_flags u oks) as [F1 F2]; [exists i, s; auto|].
    destruct (tail_order _ _ _ _ _ T eq_refl F1 F2) as [b Ec]. subst core.
    destruct (body_facts jb Hb) as [_ [_ [_ [_ [_ [B6 [B7 [_ [B9 B10]]]]]]]]].
    pose proof (tail_reps _ _ _ _ _ T) as Hr.
    destruct (reps_facts reps Hr) as [_ [_ [_ [_ [_ [_ R7]]]]]].
    assert (E' : (EDb OBegin true :: jb ++ [EReg (Some b); EDb OUndo true]) ++ EDb OCommit true :: reps
                 = pre ++ EDb OCommit true :: post).
    { rewrite <- E. simpl. now rewrite <- app_assoc. }
    apply (split_unique is_commit_ok) in E'; try reflexivity; try assumption.
    + destruct E' as [E1 E2]. subst pre post. exists b, jb. repeat split; try assumption.
      destruct Hl as [_ Hl]. eapply Hl; eassumption.
    + change (EDb OBegin true :: jb ++ [EReg (Some b); EDb OUndo true])
        with ([EDb OBegin true] ++ jb ++ [EReg (Some b); EDb OUndo true]).
      rewrite !count_app, B7. reflexivity.
Qed.

Lemma shape_undo_granted : forall u j res oks, run_shape u j res oks ->
  recorded_rows u oks -> committed j = true ->
  exists b, undo_ok j = true /\ granted j = Some b.
Proof.
  intros u j res oks H R C.
  destruct H as [|jb oks r Hb Hl Hf W|jb oks core reps okc Hb Hl Hf W T].
  - discriminate.
  - rewrite rollback_shape_not_committed in C by assumption. discriminate.
  - pose proof (commit_shape_aggr _ _ jb core reps okc Hb T) as A. cbv zeta in A.
    destruct A as [_ [A2 [A3 [A4 _]]]]. rewrite A4 in C. subst okc.
    destruct (recorded_rows_flags u oks R) as [F1 F2].
    destruct (tail_order _ _ _ _ _ T eq_refl F1 F2) as [b Ec]. subst core.
    exists b. rewrite A2, A3. split; reflexivity.
Qed.

(* the undo insert is attempted exactly when a branch was granted and a recorded image has rows *)
Lemma shape_undo_iff : forall u j res oks, run_shape u j res oks ->
  (exists r, In (EDb OUndo r) j) <-> ((exists b, In (EReg (Some b)) j) /\ recorded_rows u oks).
Proof.
  intros u j res oks H.
  destruct H as [|jb oks r Hb Hl Hf W|jb oks core reps okc Hb Hl Hf W T].
  - split.
    + intros [r [Hin|[]]]. discriminate.
    + intros [[b [Hin|[]]] _]. discriminate.
  - destruct (body_facts jb Hb) as [_ [_ [_ [_ [_ [_ [_ [_ [B9 B10]]]]]]]]]. split.
    + intros [r0 [Hin|Hin]]; [discriminate|]. apply in_app_or in Hin as [Hin|[Hin|[]]]; [|discriminate].
      now apply B10 in Hin.
    + intros [[b [Hin|Hin]] _]; [discriminate|]. apply in_app_or in Hin as [Hin|[Hin|[]]]; [|discriminate].
      now apply B9 in Hin.
  - destruct (body_facts jb Hb) as [_ [_ [_ [_ [_ [_ [_ [_ [B9 B10]]]]]]]]].
    pose proof (tail_reps _ _ _ _ _ T) as Hr. rewrite forallb_forall in Hr.
    destruct (tail_undo _ _ _ _ _ T) as [U1 U2].
    destruct (tail_reports _ _ _ _ _ T) as [_ [_ G]].
    split.
    + intros [r0 [Hin|Hin]]; [discriminate|].
      apply in_app_or in Hin as [Hin|Hin]; [now apply B10 in Hin|].
      apply in_app_or in Hin as [Hin|Hin]; [|apply Hr in Hin; discriminate].
      destruct (U1 _ Hin) as [F1 [F2 [b Hg]]]. split.
      * exists b. right. apply in_or_app. right. apply in_or_app. left. now apply G.
      * apply rows_of_iff in F2. exact F2.
    + intros [[b [Hin|Hin]] R]; [discriminate|].
      apply in_app_or in Hin as [Hin|Hin]; [now apply B9 in Hin|].
      apply in_app_or in Hin as [Hin|Hin]; [|apply Hr in Hin; discriminate].
      destruct (recorded_rows_flags u oks R) as [F1 F2].
      apply G in Hin. destruct (U2 F1 F2) as [r0 Hu]; [congruence|].
      exists r0. right. apply in_or_app. right. apply in_or_app. now left.
Qed.

(* ---------------------------------------------------------------- failure handling *)

Lemma tail_norep : forall recd rows core reps okc, tail_shape recd rows core reps okc ->
  forall p, (forall e, p e = true -> is_rep e = true) -> count p core = 0.
Proof.
  intros recd rows core reps okc H p Hp.
  assert (F : forall e, is_rep e = false -> p e = false).
  { intros e He. destruct (p e) eqn:P; [|reflexivity]. apply Hp in P. congruence. }
  unfold count. tail_cases H; simpl; rewrite ?F by reflexivity; reflexivity.
Qed.

Lemma rep_of_rep : forall d e, is_rep_of d e = true -> is_rep e = true.
Proof. intros d e; ev_cases e; simpl; congruence. Qed.

Lemma rep_run_counts : forall d reps, rep_run d reps ->
  1 <= count (is_rep_of d) reps <= max_retries /\ count (is_rep_of (negb d)) reps = 0.
Proof.
  intros d reps [H1 H2]. split.
  - now rewrite (count_all _ _ H1).
  - apply (count_none (is_rep_of d)); [assumption|].
    intros [o b|g|d' b]; simpl; try congruence. destruct d, d'; simpl; congruence.
Qed.

Lemma shape_general : forall u j res oks, run_shape u j res oks ->
  count is_commit_ok j = (if committed j then 1 else 0) /\
  (committed j = false -> j = [EDb OBegin false] \/ exists r, last_db j = Some (EDb ORollback r)) /\
  (forall b, In (EReg (Some b)) j ->
     1 <= count (is_rep_of (committed j)) j <= max_retries /\ count (is_rep_of (negb (committed j))) j = 0) /\
  ((forall b, ~ In (EReg (Some b)) j) -> count is_rep j = 0) /\
  (committed j = true -> rollback_failed j = false /\ existsb is_rollback j = false).
Proof.
  intros u j res oks H.
  destruct H as [|jb oks r Hb Hl Hf W|jb oks core reps okc Hb Hl Hf W T].
  - split; [reflexivity|]. split; [auto|]. split; [|split; [reflexivity|discriminate]].
    intros b [Hin|[]]. discriminate.
  - pose proof (rollback_shape_not_committed jb r Hb) as C. rewrite C.
    destruct (body_facts jb Hb) as [_ [_ [_ [_ [_ [_ [B7 [B8 [B9 _]]]]]]]]].
    split; [|split; [|split; [|split; [|discriminate]]]].
    + change (EDb OBegin true :: jb ++ [EDb ORollback r]) with ([EDb OBegin true] ++ jb ++ [EDb ORollback r]).
      now rewrite !count_app, B7.
    + intros _. right. exists r.
      change (EDb OBegin true :: jb ++ [EDb ORollback r]) with ((EDb OBegin true :: jb) ++ [EDb ORollback r]).
      now rewrite last_db_app.
    + intros b H. exfalso.
      destruct H as [H|H]; [discriminate|]. apply in_app_or in H as [H|[H|[]]]; [|discriminate]. now apply B9 in H.
    + intros _.
      change (EDb OBegin true :: jb ++ [EDb ORollback r]) with ([EDb OBegin true] ++ jb ++ [EDb ORollback r]).
      rewrite !count_app. rewrite (count_none is_body is_rep jb Hb); [reflexivity|].
      intros e; ev_cases e; simpl; congruence.
  - pose proof (commit_shape_aggr _ _ jb core reps okc Hb T) as A. cbv zeta in A.
    destruct A as [A1 [A2 [A3 [A4 [A5 [A6 [A7 A8]]]]]]].
    destruct (body_facts jb Hb) as [_ [_ [B3 [_ [_ [_ [B7 [B8 [B9 _]]]]]]]]].
    pose proof (tail_reps _ _ _ _ _ T) as Hr.
    destruct (tail_reports _ _ _ _ _ T) as [G1 [G2 G3]].
    destruct (tail_basic _ _ _ _ _ T) as [_ [_ [_ [_ [_ T6]]]]].
    assert (Hcnt : forall p, (forall e, p e = true -> is_rep e = true) ->
              count p (EDb OBegin true :: jb ++ core ++ reps) = count p reps).
    { intros p Hp.
      change (EDb OBegin true :: jb ++ core ++ reps) with ([EDb OBegin true] ++ jb ++ core ++ reps).
      rewrite !count_app, (tail_norep _ _ _ _ _ T p Hp).
      rewrite (count_none is_body p jb Hb).
      - unfold count. simpl. destruct (p (EDb OBegin true)) eqn:P; [apply Hp in P; discriminate|reflexivity].
      - intros e He. destruct (p e) eqn:P; [|reflexivity]. apply Hp in P. revert He P. ev_cases e; simpl; congruence. }
    assert (Hin : forall b, In (EReg (Some b)) (EDb OBegin true :: jb ++ core ++ reps) -> In (EReg (Some b)) core).
    { intros b [H|H]; [discriminate|]. apply in_app_or in H as [H|H]; [now apply B9 in H|].
      apply in_app_or in H as [H|H]; [assumption|]. rewrite forallb_forall in Hr. apply Hr in H. discriminate. }
    rewrite A5, A4. clear A4 A5 A7 A8. split; [reflexivity|]. split; [|split; [|split]].
    + intros Hc. right. subst okc. destruct (tail_last _ _ _ _ _ T eq_refl) as [r Hl'].
      exists r.
      change (EDb OBegin true :: jb ++ core ++ reps) with ((EDb OBegin true :: jb) ++ core ++ reps).
      now rewrite !last_db_app, (last_db_reps reps Hr), Hl'.
    + intros b H. rewrite !Hcnt by apply rep_of_rep. apply Hin in H. apply G1 in H. apply (rep_run_counts _ _ H).
    + intros Hno. rewrite Hcnt by auto.
      destruct (granted core) as [b|] eqn:Eg.
      * exfalso. apply (Hno b). right. apply in_or_app. right. apply in_or_app. left. now apply G3.
      * now rewrite (G2 eq_refl).
    + intros Hc. subst okc. specialize (T6 eq_refl). split.
      * rewrite A6. unfold rollback_failed. apply (existsb_none (fun e => negb (is_rollback e))).
        -- clear - T6. induction core as [|e c IH]; [reflexivity|]. simpl in *.
           apply orb_false_iff in T6 as [T6 T7]. now rewrite T6, IH.
        -- intros e; ev_cases e; simpl; congruence.
      * simpl. rewrite !existsb_app, T6.
        rewrite (existsb_none is_body is_rollback jb Hb) by (intros e; ev_cases e; simpl; congruence).
        rewrite (existsb_none is_rep is_rollback reps Hr) by (intros e; ev_cases e; simpl; congruence).
        reflexivity.
Qed.

Lemma forallb_id_one : forall oks : list bool,
  length oks = 1 -> forallb (fun b : bool => b) oks = true -> oks = [true].
Proof. intros [|[] [|? ?]] H1 H2; try discriminate; reflexivity. Qed.

Lemma shape_auto : forall s j res oks, run_shape (Auto s) j res oks ->
  res = [committed j] /\ call_failed j = negb (committed j) /\
  (committed j = true -> oks = [true] /\ In (EDb (OStmt (st_id s)) true) j).
Proof.
  intros s j res oks H.
  destruct H as [|jb oks r Hb Hl Hf W|jb oks core reps okc Hb Hl Hf W T].
  - repeat split; discriminate.
  - rewrite (rollback_shape_not_committed jb r Hb). simpl in W. repeat split; try discriminate.
    unfold call_failed in *. simpl. now rewrite existsb_app, Hf, W.
  - pose proof (commit_shape_aggr _ _ jb core reps okc Hb T) as A. cbv zeta in A.
    destruct A as [A1 [A2 [A3 [A4 [A5 [A6 [A7 A8]]]]]]].
    rewrite A4, A8, Hf. simpl in W. apply negb_false_iff in W. rewrite W. repeat split.
    + destruct Hl as [Hlen _]. now apply forallb_id_one.
    + destruct Hl as [Hlen Hl]. simpl in Hlen. pose proof (forallb_id_one oks Hlen W). subst oks.
      right. apply in_or_app. left. apply (Hl 0 s); reflexivity.
Qed.

Lemma shape_explicit_commit : forall ss j res oks, run_shape (Explicit ss true) j res oks ->
  (j = [EDb OBegin false] /\ res = [false] /\ oks = []) \/
  (res = true :: oks ++ [committed j] /\ tail_failed j = negb (committed j) /\ length oks = length ss).
Proof.
  intros ss j res oks H.
  destruct H as [|jb oks r Hb Hl Hf W|jb oks core reps okc Hb Hl Hf W T].
  - now left.
  - discriminate.
  - right. pose proof (commit_shape_aggr _ _ jb core reps okc Hb T) as A. cbv zeta in A.
    destruct A as [A1 [A2 [A3 [A4 [A5 [A6 [A7 A8]]]]]]].
    rewrite A4, A7. repeat split. apply Hl.
Qed.

Lemma shape_explicit_rollback : forall ss j res oks, run_shape (Explicit ss false) j res oks ->
  (j = [EDb OBegin false] /\ res = [false] /\ oks = []) \/
  (res = true :: oks ++ [negb (rollback_failed j)] /\ committed j = false /\ length oks = length ss /\
   (forall g, ~ In (EReg g) j) /\ (forall r, ~ In (EDb OUndo r) j) /\ count is_rep j = 0).
Proof.
  intros ss j res oks H. pose proof (shape_general _ _ _ _ H) as [_ [_ [_ [G4 _]]]].
  destruct H as [|jb oks r Hb Hl Hf W|jb oks core reps okc Hb Hl Hf W T].
  - now left.
  - right. destruct (body_facts jb Hb) as [_ [_ [B3 [_ [_ [_ [_ [_ [B9 B10]]]]]]]]].
    assert (Hg : forall g, ~ In (EReg g) (EDb OBegin true :: jb ++ [EDb ORollback r])).
    { intros g [Hin|Hin]; [discriminate|]. apply in_app_or in Hin as [Hin|[Hin|[]]]; [|discriminate]. now apply B9 in Hin. }
    repeat split.
    + unfold rollback_failed in *. simpl existsb. rewrite existsb_app, B3. now destruct r.
    + now apply rollback_shape_not_committed.
    + apply Hl.
    + exact Hg.
    + intros r0 [Hin|Hin]; [discriminate|]. apply in_app_or in Hin as [Hin|[Hin|[]]]; [|discriminate]. now apply B10 in Hin.
    + apply G4. intros b. apply Hg.
  - discriminate.
Qed.

(* ---------------------------------------------------------------- statements about `run` *)

Lemma run_shape_of : forall d0 u sc,
  run_shape u (o_journal (run d0 u sc)) (o_results (run d0 u sc)) (stmt_oks u sc).
Proof. intros. apply run_parts_shape. Qed.

Lemma run_durable_replay : forall d0 u sc,
  o_durable (run d0 u sc) = fst (replay d0 (o_journal (run d0 u sc))).
Proof. reflexivity. Qed.

Lemma crash_all : forall d0 u sc n, length (o_journal (run d0 u sc)) <= n ->
  crash_durable d0 u sc n = o_durable (run d0 u sc).
Proof.
  intros d0 u sc n H. unfold crash_durable. simpl in *. now rewrite firstn_all2.
Qed.

Lemma c02_bracket : forall d0 u sc,
  let j := o_journal (run d0 u sc) in
  j = [EDb OBegin false] \/
  exists inner close reps,
    j = EDb OBegin true :: inner ++ close :: reps /\
    forallb inside inner = true /\ is_close close = true /\ forallb is_rep reps = true.
Proof. intros d0 u sc. exact (shape_bracket _ _ _ _ (run_shape_of d0 u sc)). Qed.

Lemma c02_order : forall d0 u sc i s pre post,
  nth_error (stmts_of u) i = Some s -> st_rows s = true -> nth_error (stmt_oks u sc) i = Some true ->
  o_journal (run d0 u sc) = pre ++ EDb OCommit true :: post ->
  exists b p1,
    pre = EDb OBegin true :: p1 ++ [EReg (Some b); EDb OUndo true] /\
    forallb inside p1 = true /\ (forall g, ~ In (EReg g) p1) /\ (forall r, ~ In (EDb OUndo r) p1) /\
    In (EDb (OStmt (st_id s)) true) p1 /\ forallb is_rep post = true.
Proof.
  intros d0 u sc i s pre post H1 H2 H3 E.
  exact (shape_order _ _ _ _ (run_shape_of d0 u sc) i s H1 H2 H3 pre post E).
Qed.

Lemma c02_order_auto : forall d0 s sc pre post,
  st_rows s = true ->
  o_journal (run d0 (Auto s) sc) = pre ++ EDb OCommit true :: post ->
  exists b p1,
    pre = EDb OBegin true :: p1 ++ [EReg (Some b); EDb OUndo true] /\
    forallb inside p1 = true /\ (forall g, ~ In (EReg g) p1) /\ (forall r, ~ In (EDb OUndo r) p1) /\
    In (EDb (OStmt (st_id s)) true) p1 /\ forallb is_rep post = true.
Proof.
  intros d0 s sc pre post H E.
  pose proof (run_shape_of d0 (Auto s) sc) as S.
  destruct (shape_auto _ _ _ _ S) as [_ [_ A]].
  destruct (A (split_committed _ _ _ E)) as [Ho _].
  apply (shape_order _ _ _ _ S 0 s); try assumption; try reflexivity. now rewrite Ho.
Qed.

Lemma c02_atomic : forall d0 u sc n,
  crash_durable d0 u sc n = d0 \/
  (committed (o_journal (run d0 u sc)) = true /\
   crash_durable d0 u sc n = all_state d0 (o_journal (run d0 u sc))).
Proof. intros d0 u sc n. exact (shape_atomic _ _ _ _ (run_shape_of d0 u sc) d0 n). Qed.

Lemma c02_final : forall d0 u sc,
  let o := run d0 u sc in
  o_durable o = (if committed (o_journal o) then all_state d0 (o_journal o) else d0) /\
  o_open o = rollback_failed (o_journal o).
Proof. intros d0 u sc. exact (shape_final _ _ _ _ (run_shape_of d0 u sc) d0). Qed.

Lemma c02_together : forall d0 u sc n i s,
  nth_error (stmts_of u) i = Some s -> st_rows s = true -> nth_error (stmt_oks u sc) i = Some true ->
  In (st_id s) (d_biz (crash_durable d0 u sc n)) -> ~ In (st_id s) (d_biz d0) ->
  exists b, In (EReg (Some b)) (o_journal (run d0 u sc)) /\
            d_undo (crash_durable d0 u sc n) = d_undo d0 ++ [b].
Proof.
  intros d0 u sc n i s H1 H2 H3 Hin Hnot.
  destruct (c02_atomic d0 u sc n) as [E|[C E]].
  - rewrite E in Hin. contradiction.
  - destruct (shape_undo_granted _ _ _ _ (run_shape_of d0 u sc)) as [b [U G]]; [exists i, s; auto|assumption|].
    exists b. split; [now apply granted_In|]. rewrite E. unfold all_state. rewrite U, G. reflexivity.
Qed.

Lemma c02_undo_iff : forall d0 u sc,
  (exists r, In (EDb OUndo r) (o_journal (run d0 u sc))) <->
  ((exists b, In (EReg (Some b)) (o_journal (run d0 u sc))) /\
   exists i s, nth_error (stmts_of u) i = Some s /\ st_rows s = true /\ nth_error (stmt_oks u sc) i = Some true).
Proof. intros d0 u sc. exact (shape_undo_iff _ _ _ _ (run_shape_of d0 u sc)). Qed.

Lemma c02_general : forall d0 u sc,
  let j := o_journal (run d0 u sc) in
  count is_commit_ok j = (if committed j then 1 else 0) /\
  (committed j = false -> j = [EDb OBegin false] \/ exists r, last_db j = Some (EDb ORollback r)) /\
  (forall b, In (EReg (Some b)) j ->
     1 <= count (is_rep_of (committed j)) j <= max_retries /\ count (is_rep_of (negb (committed j))) j = 0) /\
  ((forall b, ~ In (EReg (Some b)) j) -> count is_rep j = 0) /\
  (committed j = true -> rollback_failed j = false /\ existsb is_rollback j = false).
Proof. intros d0 u sc. exact (shape_general _ _ _ _ (run_shape_of d0 u sc)). Qed.

Lemma c02_failure_auto : forall d0 s sc,
  let o := run d0 (Auto s) sc in
  let j := o_journal o in
  o_results o = [negb (call_failed j)] /\
  (call_failed j = true ->
     o_durable o = d0 /\ committed j = false /\
     (j = [EDb OBegin false] \/ exists r, last_db j = Some (EDb ORollback r)) /\
     (rollback_failed j = false -> o_open o = false) /\
     (forall b, In (EReg (Some b)) j ->
        1 <= count (is_rep_of false) j <= 5 /\ count (is_rep_of true) j = 0) /\
     ((forall b, ~ In (EReg (Some b)) j) -> count is_rep j = 0)) /\
  (call_failed j = false ->
     o_durable o = all_state d0 j /\ count is_commit_ok j = 1 /\ o_open o = false /\
     existsb is_rollback j = false /\ In (EDb (OStmt (st_id s)) true) j /\
     (forall b, In (EReg (Some b)) j ->
        1 <= count (is_rep_of true) j <= 5 /\ count (is_rep_of false) j = 0)).
Proof.
  intros d0 s sc o j.
  pose proof (run_shape_of d0 (Auto s) sc) as S.
  destruct (shape_auto _ _ _ _ S) as [A1 [A2 A3]].
  destruct (c02_general d0 (Auto s) sc) as [G1 [G2 [G3 [G4 G5]]]].
  destruct (c02_final d0 (Auto s) sc) as [F1 F2].
  fold o in A1, A2, A3, G1, G2, G3, G4, G5, F1, F2. fold j in A1, A2, A3, G1, G2, G3, G4, G5, F1, F2.
  split; [|split].
  - rewrite A1, A2. now rewrite negb_involutive.
  - intros Hc. rewrite Hc in A2. symmetry in A2. apply negb_true_iff in A2.
    rewrite A2 in *. repeat split; auto.
    + intros Hr. now rewrite F2.
    + apply (G3 b H).
    + apply (G3 b H).
    + apply (G3 b H).
  - intros Hc. rewrite Hc in A2. symmetry in A2. apply negb_false_iff in A2.
    rewrite A2 in *. destruct (G5 eq_refl) as [R1 R2]. destruct (A3 eq_refl) as [_ A4].
    repeat split; auto.
    + now rewrite F2.
    + apply (G3 b H).
    + apply (G3 b H).
    + apply (G3 b H).
Qed.

Lemma c02_failure_explicit : forall d0 ss sc,
  let o := run d0 (Explicit ss true) sc in
  let j := o_journal o in
  (j = [EDb OBegin false] /\ o_results o = [false] /\ o_durable o = d0 /\ o_open o = false) \/
  (o_results o = true :: stmt_oks (Explicit ss true) sc ++ [negb (tail_failed j)] /\
   length (stmt_oks (Explicit ss true) sc) = length ss /\
   (tail_failed j = true ->
      o_durable o = d0 /\ committed j = false /\
      (exists r, last_db j = Some (EDb ORollback r)) /\
      (rollback_failed j = false -> o_open o = false) /\
      (forall b, In (EReg (Some b)) j ->
         1 <= count (is_rep_of false) j <= 5 /\ count (is_rep_of true) j = 0) /\
      ((forall b, ~ In (EReg (Some b)) j) -> count is_rep j = 0)) /\
   (tail_failed j = false ->
      o_durable o = all_state d0 j /\ count is_commit_ok j = 1 /\ o_open o = false /\
      existsb is_rollback j = false /\
      (forall b, In (EReg (Some b)) j ->
         1 <= count (is_rep_of true) j <= 5 /\ count (is_rep_of false) j = 0))).
Proof.
  intros d0 ss sc o j.
  pose proof (run_shape_of d0 (Explicit ss true) sc) as S.
  destruct (c02_general d0 (Explicit ss true) sc) as [G1 [G2 [G3 [G4 G5]]]].
  destruct (c02_final d0 (Explicit ss true) sc) as [F1 F2].
  fold o in S, G1, G2, G3, G4, G5, F1, F2. fold j in S, G1, G2, G3, G4, G5, F1, F2.
  destruct (shape_explicit_commit _ _ _ _ S) as [[E1 [E2 E3]]|[E1 [E2 E3]]].
  - left. rewrite F1, F2, E1. repeat split; auto.
  - right. split; [|split; [assumption|split]].
    + rewrite E1, E2. now rewrite negb_involutive.
    + intros Hc. rewrite Hc in E2. symmetry in E2. apply negb_true_iff in E2.
      rewrite E2 in *. repeat split; auto.
      * destruct (G2 eq_refl) as [Hj|Hj]; [|assumption]. rewrite Hj in Hc. discriminate.
      * intros Hr. now rewrite F2.
      * apply (G3 b H).
      * apply (G3 b H).
      * apply (G3 b H).
    + intros Hc. rewrite Hc in E2. symmetry in E2. apply negb_false_iff in E2.
      rewrite E2 in *. destruct (G5 eq_refl) as [R1 R2].
      repeat split; auto.
      * now rewrite F2.
      * apply (G3 b H).
      * apply (G3 b H).
      * apply (G3 b H).
Qed.

Lemma c02_user_rollback : forall d0 ss sc,
  let o := run d0 (Explicit ss false) sc in
  let j := o_journal o in
  o_durable o = d0 /\
  (forall g, ~ In (EReg g) j) /\ (forall r, ~ In (EDb OUndo r) j) /\ count is_rep j = 0 /\
  (j = [EDb OBegin false] /\ o_results o = [false] \/
   o_results o = true :: stmt_oks (Explicit ss false) sc ++ [negb (rollback_failed j)] /\
   length (stmt_oks (Explicit ss false) sc) = length ss).
Proof.
  intros d0 ss sc o j.
  pose proof (run_shape_of d0 (Explicit ss false) sc) as S.
  destruct (c02_final d0 (Explicit ss false) sc) as [F1 _].
  fold o in S, F1. fold j in S, F1.
  destruct (shape_explicit_rollback _ _ _ _ S) as [[E1 [E2 E3]]|[E1 [E2 [E3 [E4 [E5 E6]]]]]].
  - rewrite F1, E1. repeat split; auto.
    + intros g [H|[]]. discriminate.
    + intros r [H|[]]. discriminate.
  - rewrite F1, E2. repeat split; auto.
Qed.
