(* C02 — proofs about At/Commit.v.  The journal of every run has one of three shapes
   (run_shape); everything else is derived from the shape. *)
From Coq Require Import List NArith Bool Arith Lia.
From SeataV Require Import At.Commit.
Import ListNotations.

(* ---------------------------------------------------------------- toolbox *)

Definition is_body (e : event) : bool :=
  match e with EDb OQuery _ | EDb (OStmt _) _ => true | _ => false end.
Definition body (j : list event) : Prop := forallb is_body j = true.

Ltac ev_cases e :=
  let o := fresh "o" in let b := fresh "b" in let g := fresh "g" in
  destruct e as [o b|g|? b]; [destruct o; destruct b|destruct g|destruct b].

Lemma existsb_none : forall (p q : event -> bool) l,
  forallb p l = true -> (forall e, p e = true -> q e = false) -> existsb q l = false.
Proof.
  induction l as [|a l IH]; simpl; intros H Hpq; [reflexivity|].
  apply andb_true_iff in H as [Ha Hl]. rewrite (Hpq a Ha). simpl. now apply IH.
Qed.

Lemma forallb_weaken : forall (p q : event -> bool) l,
  forallb p l = true -> (forall e, p e = true -> q e = true) -> forallb q l = true.
Proof.
  induction l as [|a l IH]; simpl; intros H Hpq; [reflexivity|].
  apply andb_true_iff in H as [Ha Hl]. rewrite (Hpq a Ha). simpl. now apply IH.
Qed.

Lemma forallb_firstn : forall (p : event -> bool) l n, forallb p l = true -> forallb p (firstn n l) = true.
Proof.
  induction l as [|a l IH]; intros [|n] H; simpl; try reflexivity.
  simpl in H. apply andb_true_iff in H as [Ha Hl]. rewrite Ha. simpl. now apply IH.
Qed.

Lemma count_app : forall p a b, count p (a ++ b) = count p a + count p b.
Proof. intros. unfold count. now rewrite filter_app, app_length. Qed.

Lemma count_none : forall (p q : event -> bool) l,
  forallb p l = true -> (forall e, p e = true -> q e = false) -> count q l = 0.
Proof.
  unfold count. induction l as [|a l IH]; simpl; intros H Hpq; [reflexivity|].
  apply andb_true_iff in H as [Ha Hl]. rewrite (Hpq a Ha). now apply IH.
Qed.

Lemma count_all : forall (p : event -> bool) l, forallb p l = true -> count p l = length l.
Proof.
  unfold count. induction l as [|a l IH]; simpl; intros H; [reflexivity|].
  apply andb_true_iff in H as [Ha Hl]. rewrite Ha. simpl. now rewrite IH.
Qed.

Lemma stmts_ok_app : forall a b, stmts_ok (a ++ b) = stmts_ok a ++ stmts_ok b.
Proof. intros. unfold stmts_ok. apply flat_map_app. Qed.

Lemma stmts_ok_reps : forall l, forallb is_rep l = true -> stmts_ok l = [].
Proof.
  induction l as [|a l IH]; simpl; intros H; [reflexivity|].
  apply andb_true_iff in H as [Ha Hl]. ev_cases a; try discriminate; simpl; auto.
Qed.

Lemma granted_app : forall a b,
  granted (a ++ b) = match granted a with Some x => Some x | None => granted b end.
Proof.
  induction a as [|e a IH]; intros; simpl; [reflexivity|].
  destruct e as [| [x|] |]; auto.
Qed.

Lemma granted_none : forall (p : event -> bool) l,
  forallb p l = true -> (forall x, p (EReg (Some x)) = false) -> granted l = None.
Proof.
  induction l as [|a l IH]; simpl; intros H Hp; [reflexivity|].
  apply andb_true_iff in H as [Ha Hl].
  destruct a as [| [x|] |]; auto. rewrite Hp in Ha. discriminate.
Qed.

Lemma granted_In : forall l b, granted l = Some b -> In (EReg (Some b)) l.
Proof.
  induction l as [|a l IH]; simpl; intros b H; [discriminate|].
  destruct a as [| [x|] |]; auto. inversion H. now left.
Qed.

Definition last_db_from (acc : option event) (j : list event) : option event :=
  fold_left (fun acc e => match e with EDb _ _ => Some e | _ => acc end) j acc.

Lemma last_db_from_spec : forall j acc,
  last_db_from acc j = match last_db j with Some e => Some e | None => acc end.
Proof.
  unfold last_db, last_db_from.
  induction j as [|e j IH]; intros acc; simpl; [reflexivity|].
  rewrite IH. rewrite (IH (match e with EDb _ _ => Some e | _ => None end)).
  destruct (fold_left _ j None); [reflexivity|]. destruct e; reflexivity.
Qed.

Lemma last_db_app : forall a b,
  last_db (a ++ b) = match last_db b with Some e => Some e | None => last_db a end.
Proof.
  intros. unfold last_db at 1. rewrite fold_left_app.
  change (last_db_from (last_db a) b = match last_db b with Some e => Some e | None => last_db a end).
  apply last_db_from_spec.
Qed.

Lemma last_db_reps : forall l, forallb is_rep l = true -> last_db l = None.
Proof.
  induction l as [|a l IH]; intros H; [reflexivity|].
  simpl in H. apply andb_true_iff in H as [Ha Hl].
  change (a :: l) with ([a] ++ l). rewrite last_db_app, (IH Hl).
  ev_cases a; try discriminate; reflexivity.
Qed.

Lemma step_reps : forall l st, forallb is_rep l = true -> fold_left step l st = st.
Proof.
  induction l as [|a l IH]; simpl; intros st H; [reflexivity|].
  apply andb_true_iff in H as [Ha Hl]. rewrite IH by assumption.
  ev_cases a; try discriminate; reflexivity.
Qed.

Definition mk_st (d : durable) (w : option (list nat * option N)) (b : N) : dbstate :=
  {| db_dur := d ; db_wc := w ; db_bid := b |}.

Lemma step_body : forall jb, body jb -> forall d w u b,
  fold_left step jb (mk_st d (Some (w, u)) b) = mk_st d (Some (w ++ stmts_ok jb, u)) b.
Proof.
  unfold body. induction jb as [|a jb IH]; simpl; intros H d w u b.
  - now rewrite app_nil_r.
  - apply andb_true_iff in H as [Ha Hl].
    ev_cases a; try discriminate; simpl; unfold mk_st in *; simpl; rewrite ?IH by assumption; try reflexivity.
    now rewrite <- app_assoc.
Qed.

Lemma body_firstn : forall jb n, body jb -> body (firstn n jb).
Proof. intros. now apply forallb_firstn. Qed.

Lemma body_facts : forall jb, body jb ->
  committed jb = false /\ undo_ok jb = false /\ rollback_failed jb = false /\ tail_failed jb = false /\
  granted jb = None /\ forallb inside jb = true /\ count is_commit_ok jb = 0 /\
  (forall d, count (is_rep_of d) jb = 0) /\ (forall g, ~ In (EReg g) jb) /\ (forall r, ~ In (EDb OUndo r) jb).
Proof.
  intros jb H. unfold committed, undo_ok, rollback_failed, tail_failed.
  repeat split.
  1-4: apply (existsb_none is_body); [assumption|]; intros e; ev_cases e; simpl; congruence.
  - apply (granted_none is_body); auto.
  - apply (forallb_weaken is_body); [assumption|]; intros e; ev_cases e; simpl; congruence.
  - apply (count_none is_body); [assumption|]; intros e; ev_cases e; simpl; congruence.
  - intros d. apply (count_none is_body); [assumption|]; intros e; ev_cases e; simpl; congruence.
  - intros g Hin. unfold body in H. rewrite forallb_forall in H. apply H in Hin. discriminate.
  - intros r Hin. unfold body in H. rewrite forallb_forall in H. apply H in Hin. discriminate.
Qed.

Lemma reps_facts : forall l, forallb is_rep l = true ->
  committed l = false /\ undo_ok l = false /\ rollback_failed l = false /\ tail_failed l = false /\
  call_failed l = false /\ granted l = None /\ count is_commit_ok l = 0.
Proof.
  intros l H. unfold committed, undo_ok, rollback_failed, tail_failed, call_failed.
  repeat split.
  1-5: apply (existsb_none is_rep); [assumption|]; intros e; ev_cases e; simpl; congruence.
  - apply (granted_none is_rep); auto.
  - apply (count_none is_rep); [assumption|]; intros e; ev_cases e; simpl; congruence.
Qed.

(* ---------------------------------------------------------------- statements *)

Definition body_op (o : dbop) : bool := match o with OQuery | OStmt _ => true | _ => false end.

Lemma calls_body : forall s, forallb body_op (calls s) = true.
Proof. intros [i k r]. destruct k, r; reflexivity. Qed.

Lemma calls_stmt : forall s, In (OStmt (st_id s)) (calls s).
Proof. intros [i k r]. destruct k, r; simpl; auto. Qed.

Lemma exec_calls_body : forall ops db,
  forallb body_op ops = true -> body (fst (fst (exec_calls ops db))).
Proof.
  unfold body. induction ops as [|o r IH]; intros db H; simpl; [reflexivity|].
  simpl in H. apply andb_true_iff in H as [Ho Hr].
  destruct (pop db) as [b db1]. destruct b.
  - specialize (IH db1 Hr). destruct (exec_calls r db1) as [[j ok] db2]. simpl in *.
    rewrite IH. destruct o; try discriminate; reflexivity.
  - simpl. destruct o; try discriminate; reflexivity.
Qed.

Lemma exec_calls_ok : forall ops db j db',
  exec_calls ops db = (j, true, db') -> j = map (fun o => EDb o true) ops.
Proof.
  induction ops as [|o r IH]; intros db j db' H; simpl in H.
  - now inversion H.
  - destruct (pop db) as [b db1]. destruct b.
    + destruct (exec_calls r db1) as [[j1 ok] db2] eqn:E. inversion H; subst.
      simpl. f_equal. eapply IH. eassumption.
    + inversion H.
Qed.

(* the recorded flags belong to the statements, and a recorded statement was applied *)
Definition links (ss : list stmt) (jb : list event) (oks : list bool) : Prop :=
  length oks = length ss /\
  forall i s, nth_error ss i = Some s -> nth_error oks i = Some true ->
              In (EDb (OStmt (st_id s)) true) jb.

Lemma exec_stmts_spec : forall ss db,
  body (fst (fst (exec_stmts ss db))) /\
  links ss (fst (fst (exec_stmts ss db))) (snd (fst (exec_stmts ss db))).
Proof.
  induction ss as [|s r IH]; intros db; simpl.
  - split; [reflexivity|]. split; [reflexivity|]. intros [|i] s; discriminate.
  - pose proof (exec_calls_body (calls s) db (calls_body s)) as Hb.
    destruct (exec_calls (calls s) db) as [[j ok] db1] eqn:E.
    specialize (IH db1). destruct (exec_stmts r db1) as [[j' oks] db2]. simpl in *.
    destruct IH as [Hb' [Hlen Hl]]. split; [|split].
    + unfold body in *. now rewrite forallb_app, Hb, Hb'.
    + simpl. now rewrite Hlen.
    + intros [|i] s0 Hs Hok; simpl in *.
      * inversion Hs; subst s0. inversion Hok; subst ok.
        apply exec_calls_ok in E. subst j. apply in_or_app. left.
        apply (in_map (fun o => EDb o true)). apply calls_stmt.
      * apply in_or_app. right. eapply Hl; eassumption.
Qed.

Lemma rows_of_iff : forall ss oks,
  rows_of ss oks = true <->
  exists i s, nth_error ss i = Some s /\ st_rows s = true /\ nth_error oks i = Some true.
Proof.
  induction ss as [|s ss IH]; intros oks; simpl.
  - split; [discriminate|]. intros [[|i] [s [H _]]]; discriminate.
  - destruct oks as [|ok oks].
    + split; [discriminate|]. intros [[|i] [s0 [_ [_ H]]]]; discriminate.
    + rewrite orb_true_iff, andb_true_iff, IH. split.
      * intros [[Hok Hr]|[i [s0 [H1 [H2 H3]]]]].
        -- exists 0, s. subst. auto.
        -- exists (S i), s0. auto.
      * intros [[|i] [s0 [H1 [H2 H3]]]]; simpl in *.
        -- left. inversion H1; inversion H3; subst. auto.
        -- right. exists i, s0. auto.
Qed.

Lemma existsb_id_nth : forall oks i, nth_error oks i = Some true -> existsb (fun b : bool => b) oks = true.
Proof.
  induction oks as [|b oks IH]; intros [|i] H; simpl in *; try discriminate.
  - inversion H. reflexivity.
  - rewrite (IH i H). apply orb_true_r.
Qed.

(* ---------------------------------------------------------------- the commit *)

Definition rep_run (done : bool) (reps : list event) : Prop :=
  forallb (is_rep_of done) reps = true /\ 1 <= length reps <= max_retries.

Lemma reports_n_spec : forall k done rep,
  forallb (is_rep_of done) (reports_n k done rep) = true /\
  length (reports_n k done rep) <= k /\ (0 < k -> 1 <= length (reports_n k done rep)).
Proof.
  induction k as [|k IH]; intros done rep; simpl.
  - repeat split; lia.
  - destruct (pop rep) as [b rep']. simpl. rewrite eqb_reflx. simpl.
    destruct b; simpl.
    + repeat split; lia.
    + destruct (IH done rep') as [H1 [H2 H3]]. repeat split; try assumption; lia.
Qed.

Lemma reports_run : forall done rep, rep_run done (reports done rep).
Proof.
  intros. unfold rep_run, reports. destruct (reports_n_spec max_retries done rep) as [H1 [H2 H3]].
  repeat split; try assumption. apply H3. unfold max_retries. lia.
Qed.

Lemma rep_of_is_rep : forall d l, forallb (is_rep_of d) l = true -> forallb is_rep l = true.
Proof.
  intros d l H. apply (forallb_weaken (is_rep_of d)); [assumption|].
  intros e; ev_cases e; simpl; congruence.
Qed.

Definition undo_ev (rows : bool) : list event := if rows then [EDb OUndo true] else [].

Inductive tail_shape : bool -> bool -> list event -> list event -> bool -> Prop :=
| TS_none_ok : forall rows, tail_shape false rows [EDb OCommit true] [] true
| TS_none_fail : forall rows r, tail_shape false rows [EDb OCommit false; EDb ORollback r] [] false
| TS_refused : forall rows r, tail_shape true rows [EReg None; EDb ORollback r] [] false
| TS_undo_fail : forall b r reps, rep_run false reps ->
    tail_shape true true [EReg (Some b); EDb OUndo false; EDb ORollback r] reps false
| TS_commit_fail : forall rows b r reps, rep_run false reps ->
    tail_shape true rows (EReg (Some b) :: undo_ev rows ++ [EDb OCommit false; EDb ORollback r]) reps false
| TS_ok : forall rows b reps, rep_run true reps ->
    tail_shape true rows (EReg (Some b) :: undo_ev rows ++ [EDb OCommit true]) reps true.

Lemma commit_tail_shape : forall recd rows db reg rep,
  exists core reps,
    fst (commit_tail recd rows db reg rep) = core ++ reps /\
    tail_shape recd rows core reps (snd (commit_tail recd rows db reg rep)).
Proof.
  intros recd rows db reg rep. unfold commit_tail, rb.
  pose proof (reports_run true rep) as Rt. pose proof (reports_run false rep) as Rf.
  destruct recd.
  - destruct (pop_reg reg) as [b|].
    + destruct rows.
      * destruct (pop db) as [u db1]. destruct u.
        -- destruct (pop db1) as [c db2]. destruct c; simpl.
           ++ exists [EReg (Some b); EDb OUndo true; EDb OCommit true], (reports true rep).
              split; [reflexivity|]. apply (TS_ok true b). assumption.
           ++ exists [EReg (Some b); EDb OUndo true; EDb OCommit false; EDb ORollback (fst (pop db2))], (reports false rep).
              split; [reflexivity|]. apply (TS_commit_fail true b). assumption.
        -- simpl. exists [EReg (Some b); EDb OUndo false; EDb ORollback (fst (pop db1))], (reports false rep).
           split; [reflexivity|]. apply TS_undo_fail. assumption.
      * destruct (pop db) as [c db2]. destruct c; simpl.
        -- exists [EReg (Some b); EDb OCommit true], (reports true rep).
           split; [reflexivity|]. apply (TS_ok false b). assumption.
        -- exists [EReg (Some b); EDb OCommit false; EDb ORollback (fst (pop db2))], (reports false rep).
           split; [reflexivity|]. apply (TS_commit_fail false b). assumption.
    + simpl. exists [EReg None; EDb ORollback (fst (pop db))], []. split; [reflexivity|]. constructor.
  - destruct (pop db) as [c db1]. destruct c; simpl.
    + exists [EDb OCommit true], []. split; [reflexivity|]. constructor.
    + exists [EDb OCommit false; EDb ORollback (fst (pop db1))], []. split; [reflexivity|]. constructor.
Qed.
