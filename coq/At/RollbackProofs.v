(* Lemmas about the rollback kernel and the C01 theorems. *)
From Coq Require Import List NArith ZArith Bool Arith Lia.
From SeataV Require Import Base.Bytes At.Db At.DbProofs At.RollbackKinds Gen.UndoFlow At.Rollback.
Import ListNotations.

(* ================= masks ================= *)
Lemma merge_l_length m n o : length (merge_l m n o) = length o.
Proof.
  revert m n; induction o as [|ov o IH]; intros m n; cbn; [reflexivity|].
  destruct m as [|b m]; [reflexivity|]. destruct n as [|nv n]; [reflexivity|].
  cbn. now rewrite IH.
Qed.

Lemma merge_l_same m r : merge_l m r r = r.
Proof.
  revert m; induction r as [|v r IH]; intros m; cbn; [reflexivity|].
  destruct m as [|b m]; [reflexivity|]. rewrite IH. now destruct b.
Qed.

Lemma merge_l_restore m n r : merge_l m r (merge_l m n r) = r.
Proof.
  revert m n; induction r as [|v r IH]; intros m n; cbn; [reflexivity|].
  destruct m as [|b m]; [cbn; reflexivity|].
  destruct n as [|nv n]; cbn.
  - rewrite merge_l_same. now destruct b.
  - rewrite IH. now destruct b.
Qed.

Lemma meq_l_refl m r : meq_l m r r = true.
Proof.
  revert m; induction r as [|v r IH]; intros m; cbn; [reflexivity|].
  destruct m as [|b m]; [reflexivity|]. rewrite IH, andb_true_r.
  destruct b; [apply value_eqb_refl | reflexivity].
Qed.

Lemma meq_l_merge_eq m n r : meq_l m r (merge_l m n r) = true -> merge_l m n r = r.
Proof.
  revert m n; induction r as [|v r IH]; intros m n; cbn; [reflexivity|].
  destruct m as [|b m]; [reflexivity|]. destruct n as [|nv n]; [reflexivity|].
  cbn. rewrite andb_true_iff. intros [H1 H2]. rewrite (IH _ _ H2).
  destruct b; [apply value_eqb_eq in H1; now subst | reflexivity].
Qed.

Lemma meq_refl m r : meq m r r = true.
Proof. destruct m; cbn; [apply meq_l_refl | apply row_eqb_refl]. Qed.

(* image mask of an UPDATE: the statement's SET mask, or everything *)
Definition img_mask (oc : bool) (sm : mask) : mask := if oc then sm else None.

Lemma merge_restore oc sm n r : merge (img_mask oc sm) r (merge sm n r) = r.
Proof.
  destruct oc; cbn; [|reflexivity].
  destruct sm; cbn; [apply merge_l_restore | reflexivity].
Qed.

Lemma meq_merge_eq oc sm n r : meq (img_mask oc sm) r (merge sm n r) = true -> merge sm n r = r.
Proof.
  destruct oc; cbn.
  - destruct sm; cbn; [apply meq_l_merge_eq|]. intro H. apply row_eqb_eq in H. now subst.
  - intro H. apply row_eqb_eq in H. now subst.
Qed.

(* ================= key membership ================= *)
Lemma memk_In k ks : memk k ks = true <-> In k ks.
Proof.
  unfold memk. rewrite existsb_exists. split.
  - intros [x [Hx E]]. apply key_eqb_eq in E. now subst.
  - intro H. exists k. split; [assumption | apply key_eqb_refl].
Qed.

Lemma memk_false k ks : memk k ks = false <-> ~ In k ks.
Proof. rewrite <- memk_In. destruct (memk k ks); split; congruence. Qed.

(* ================= folds ================= *)
Lemma lookup_remove_all ks t k :
  lookup k (remove_all ks t) = if memk k ks then None else lookup k t.
Proof.
  unfold remove_all, memk. revert t; induction ks as [|k0 ks IH]; intros t; cbn; [reflexivity|].
  rewrite IH, lookup_remove.
  destruct (key_eqb k k0), (existsb (key_eqb k) ks); reflexivity.
Qed.

Lemma remove_all_wf ks t : tbl_wf t -> tbl_wf (remove_all ks t).
Proof.
  unfold remove_all. revert t; induction ks; intros t H; cbn; [assumption|].
  apply IHks, remove_wf, H.
Qed.

Lemma lookup_wf_head k r (rows : tbl) : tbl_wf ((k, r) :: rows) -> lookup k rows = None.
Proof. intro H. inversion H; subst. now apply lookup_None. Qed.

Lemma lookup_insert_all rows t k : tbl_wf rows ->
  lookup k (insert_all rows t) = match lookup k rows with Some r => Some r | None => lookup k t end.
Proof.
  unfold insert_all. revert t; induction rows as [|[k0 r0] rows IH]; intros t W; cbn; [reflexivity|].
  assert (W' : tbl_wf rows) by (now inversion W).
  rewrite (IH _ W'). rewrite lookup_insert. keq k k0.
  - subst. now rewrite (lookup_wf_head _ _ _ W).
  - reflexivity.
Qed.

Lemma insert_all_wf rows t : tbl_wf t -> tbl_wf (insert_all rows t).
Proof.
  unfold insert_all. revert t; induction rows as [|[k0 r0] rows IH]; intros t H; cbn; [assumption|].
  apply IH, insert_wf, H.
Qed.

Lemma lookup_update_all m ups t k : tbl_wf ups ->
  lookup k (update_all m ups t) =
  match lookup k ups with Some n => option_map (merge m n) (lookup k t) | None => lookup k t end.
Proof.
  unfold update_all. revert t; induction ups as [|[k0 n0] ups IH]; intros t W; cbn; [reflexivity|].
  assert (W' : tbl_wf ups) by (now inversion W).
  rewrite (IH _ W'). rewrite lookup_update. keq k k0.
  - subst. now rewrite (lookup_wf_head _ _ _ W).
  - reflexivity.
Qed.

Lemma update_all_wf m ups t : tbl_wf t -> tbl_wf (update_all m ups t).
Proof.
  unfold update_all. revert t; induction ups as [|[k0 n0] ups IH]; intros t H; cbn; [assumption|].
  apply IH, update_wf, H.
Qed.

Lemma reinsert_none rows :
  fold_left (fun ot kr => match ot with
                          | Some t => if mem (fst kr) t then None else Some (insert (fst kr) (snd kr) t)
                          | None => None end) rows (@None tbl) = None.
Proof. induction rows; cbn; auto. Qed.

Lemma reinsert_all_spec rows t : tbl_wf rows ->
  (forall k, In k (keys rows) -> lookup k t = None) ->
  exists t', reinsert_all rows t = Some t' /\
    forall k, lookup k t' = match lookup k rows with Some r => Some r | None => lookup k t end.
Proof.
  unfold reinsert_all. revert t; induction rows as [|[k0 r0] rows IH]; intros t W A; cbn.
  - exists t. split; reflexivity.
  - assert (W' : tbl_wf rows) by (now inversion W).
    assert (E : mem k0 t = false).
    { unfold mem. rewrite (A k0); [reflexivity | cbn; now left]. }
    rewrite E.
    destruct (IH (insert k0 r0 t) W') as [t' [H1 H2]].
    + intros k Hk. rewrite lookup_insert. keq k k0.
      * subst. inversion W; subst. contradiction.
      * apply A. cbn. now right.
    + exists t'. split; [assumption|]. intro k. rewrite H2, lookup_insert. keq k k0.
      * subst. now rewrite (lookup_wf_head _ _ _ W).
      * reflexivity.
Qed.

(* a failed reinsert: some key is occupied *)
Lemma reinsert_all_occupied rows t k : In k (keys rows) -> lookup k t <> None -> reinsert_all rows t = None.
Proof.
  unfold reinsert_all. revert t; induction rows as [|[k0 r0] rows IH]; intros t Hin Hocc; cbn; [destruct Hin|].
  destruct (mem k0 t) eqn:E; [apply reinsert_none|].
  cbn in Hin. destruct Hin as [->|Hin].
  - unfold mem in E. destruct (lookup k t); [discriminate | congruence].
  - apply IH; [assumption|]. rewrite lookup_insert. destruct (key_eqb k k0); [discriminate | assumption].
Qed.

(* ================= matched / current_of ================= *)
Lemma lookup_matched ks t k : lookup k (matched ks t) = if memk k ks then lookup k t else None.
Proof.
  unfold matched. induction t as [|[k0 r0] t IH]; cbn; [now destruct (memk k ks)|].
  destruct (memk k0 ks) eqn:M; cbn.
  - keq k k0; [subst; now rewrite M | exact IH].
  - rewrite IH. keq k k0; [subst; now rewrite M | reflexivity].
Qed.

Lemma keys_matched_In ks t k : In k (keys (matched ks t)) -> In k ks /\ In k (keys t).
Proof.
  unfold matched, keys. rewrite in_map_iff. intros [[k' r'] [E H]]. cbn in E; subst.
  apply filter_In in H. destruct H as [H1 H2]. cbn in H2. split; [now apply memk_In|].
  apply in_map_iff. exists (k, r'). split; [reflexivity | assumption].
Qed.

Lemma matched_wf ks t : tbl_wf t -> tbl_wf (matched ks t).
Proof.
  unfold tbl_wf, matched. induction t as [|[k0 r0] t IH]; cbn; intro H; [constructor|].
  inversion H; subst. destruct (memk k0 ks); cbn; [|now apply IH].
  constructor; [|now apply IH]. intro Hin. apply H2.
  apply (keys_matched_In ks t k0) in Hin. exact (proj2 Hin).
Qed.

Lemma matched_keys_present ks t k : In k (keys (matched ks t)) <-> (In k ks /\ lookup k t <> None).
Proof.
  split.
  - intro H. destruct (keys_matched_In _ _ _ H) as [H1 H2]. split; [assumption|].
    intro E. apply lookup_None in E. contradiction.
  - intros [H1 H2]. destruct (lookup k (matched ks t)) eqn:E.
    + eapply lookup_Some_In_keys; eassumption.
    + rewrite lookup_matched in E. apply memk_In in H1. rewrite H1 in E. contradiction.
Qed.

Lemma memk_cons k k0 ks : memk k (k0 :: ks) = key_eqb k k0 || memk k ks.
Proof. reflexivity. Qed.

Lemma lookup_current_of ks t k : lookup k (current_of ks t) = if memk k ks then lookup k t else None.
Proof.
  induction ks as [|k0 ks IH]; [reflexivity|].
  rewrite memk_cons. cbn [current_of].
  destruct (lookup k0 t) eqn:E; cbn [lookup fst snd].
  - keq k k0; cbn [orb]; [subst; now rewrite E | exact IH].
  - rewrite IH. keq k k0; cbn [orb]; [|reflexivity]. subst. rewrite E. now destruct (memk k0 ks).
Qed.

Lemma current_of_length ks t : (forall k, In k ks -> lookup k t <> None) -> length (current_of ks t) = length ks.
Proof.
  induction ks as [|k0 ks IH]; intro H; cbn; [reflexivity|].
  destruct (lookup k0 t) eqn:E.
  - cbn. rewrite IH; [reflexivity|]. intros k Hk. apply H. now right.
  - exfalso. apply (H k0); [now left | assumption].
Qed.

Lemma current_of_nil ks t : (forall k, In k ks -> lookup k t = None) -> current_of ks t = [].
Proof.
  induction ks as [|k0 ks IH]; intro H; cbn; [reflexivity|].
  rewrite (H k0) by now left. apply IH. intros k Hk. apply H. now right.
Qed.

Lemma current_of_ext ks t u : (forall k, In k ks -> lookup k t = lookup k u) -> current_of ks t = current_of ks u.
Proof.
  induction ks as [|k0 ks IH]; intro H; cbn; [reflexivity|].
  rewrite (H k0) by now left. rewrite IH; [reflexivity|]. intros k Hk. apply H. now right.
Qed.

(* the rows of an image found unchanged: the comparison succeeds *)
Lemma recs_eqb_current m (a : tbl) t :
  (forall k r, In (k, r) a -> lookup k t = Some r) ->
  recs_eqb m a (current_of (keys a) t) = true.
Proof.
  intro H. unfold recs_eqb. apply andb_true_iff. split.
  - apply Nat.eqb_eq. rewrite current_of_length; [unfold keys; now rewrite map_length|].
    intros k Hk. unfold keys in Hk. apply in_map_iff in Hk. destruct Hk as [[k' r'] [E Hin]]. cbn in E; subst.
    rewrite (H _ _ Hin). discriminate.
  - apply forallb_forall. intros [k r] Hin. cbn.
    rewrite lookup_current_of.
    assert (M : memk k (keys a) = true).
    { apply memk_In. unfold keys. apply in_map_iff. exists (k, r). split; [reflexivity | assumption]. }
    rewrite M, (H _ _ Hin). apply meq_refl.
Qed.

Lemma recs_eqb_nil_l m b : recs_eqb m [] b = is_nil b.
Proof. unfold recs_eqb. destruct b; reflexivity. Qed.
Lemma recs_eqb_nil_r m a : recs_eqb m a [] = is_nil a.
Proof. unfold recs_eqb. destruct a; reflexivity. Qed.

(* ================= one statement and its compensation ================= *)
Definition agree_on (ks : list key) (u t : tbl) : Prop := forall k, In k ks -> lookup k u = lookup k t.

Lemma In_keys (a : tbl) k r : In (k, r) a -> In k (keys a).
Proof. intro H. unfold keys. apply in_map_iff. exists (k, r). split; [reflexivity | assumption]. Qed.

Lemma keys_In (a : tbl) k : In k (keys a) -> exists r, In (k, r) a.
Proof. unfold keys. rewrite in_map_iff. intros [[k' r] [E H]]. cbn in E; subst. now exists r. Qed.

Lemma fresh_rows_spec rows t : fresh_rows rows t = true ->
  tbl_wf rows /\ forall k, In k (keys rows) -> lookup k t = None.
Proof.
  unfold fresh_rows. rewrite andb_true_iff. intros [H1 H2]. split; [now apply tbl_wfb_correct|].
  intros k Hk. destruct (keys_In _ _ Hk) as [r Hr].
  rewrite forallb_forall in H1. specialize (H1 _ Hr). cbn in H1. unfold mem in H1.
  destruct (lookup k t); [discriminate | reflexivity].
Qed.

Lemma at_stmt_wf oc s t t' img : tbl_wf t -> at_stmt oc s t = Some (t', img) -> tbl_wf t'.
Proof.
  intros W H. destruct s as [tn rows|tn sm ups|tn ks]; cbn in H.
  - destruct (fresh_rows rows t); inversion H; subst. now apply insert_all_wf.
  - destruct (tbl_wfb ups); inversion H; subst. now apply update_all_wf.
  - inversion H; subst. now apply remove_all_wf.
Qed.

Lemma at_stmt_tn oc s t t' img : at_stmt oc s t = Some (t', img) -> i_tn img = stmt_tn s.
Proof.
  intro H. destruct s as [tn rows|tn sm ups|tn ks]; cbn in H.
  - destruct (fresh_rows rows t); inversion H; reflexivity.
  - destruct (tbl_wfb ups); inversion H; reflexivity.
  - inversion H; reflexivity.
Qed.

(* keys of an UPDATE's two images coincide *)
Lemma update_present m ups t k : tbl_wf ups ->
  (lookup k (update_all m ups t) <> None <-> lookup k t <> None).
Proof.
  intro W. rewrite lookup_update_all by assumption.
  destruct (lookup k ups); destruct (lookup k t); cbn; split; congruence.
Qed.

(* L1: a statement changes only the keys of its image *)
Lemma at_stmt_frame oc s t t' img : at_stmt oc s t = Some (t', img) ->
  forall k, ~ In k (img_keys img) -> lookup k t' = lookup k t.
Proof.
  intros H k Hk. destruct s as [tn rows|tn sm ups|tn ks]; cbn in H.
  - destruct (fresh_rows rows t) eqn:F; inversion H; subst; clear H.
    destruct (fresh_rows_spec _ _ F) as [W _].
    unfold img_keys in Hk; cbn in Hk.
    rewrite lookup_insert_all by assumption.
    destruct (lookup k rows) eqn:E; [|reflexivity].
    exfalso. apply Hk. eapply lookup_Some_In_keys; eassumption.
  - destruct (tbl_wfb ups) eqn:F; inversion H; subst; clear H.
    apply tbl_wfb_correct in F.
    unfold img_keys in Hk; cbn in Hk.
    rewrite lookup_update_all by assumption.
    destruct (lookup k ups) eqn:E; [|reflexivity].
    destruct (lookup k t) eqn:E2; [|reflexivity].
    exfalso. apply Hk. apply in_or_app. left. apply matched_keys_present. split.
    + eapply lookup_Some_In_keys; eassumption.
    + congruence.
  - inversion H; subst; clear H. unfold img_keys in Hk; cbn in Hk. rewrite app_nil_r in Hk.
    rewrite lookup_remove_all. destruct (memk k ks) eqn:M; [|reflexivity].
    destruct (lookup k t) eqn:E2; [|reflexivity].
    exfalso. apply Hk. apply matched_keys_present. split; [now apply memk_In | congruence].
Qed.

Definition undo_spec (dv : bool) (img : image) (u t : tbl) : Prop :=
  (is_nil (replayed_rows img) = true /\ agree_on (img_keys img) u t) \/
  (is_nil (replayed_rows img) = false /\
   ((validate dv img u = VStop /\ agree_on (img_keys img) u t) \/
    (validate dv img u = VGo /\
     exists u', compensate img u = Some u' /\ agree_on (img_keys img) u' t /\
                forall k, ~ In k (img_keys img) -> lookup k u' = lookup k u))).

Lemma is_nil_false {A} (l : list A) : is_nil l = false <-> l <> [].
Proof. destruct l; cbn; split; congruence. Qed.

Lemma is_nil_dec {A} (l : list A) : {is_nil l = true /\ l = []} + {is_nil l = false}.
Proof. destruct l; [left; split; reflexivity | right; reflexivity]. Qed.

(* INSERT *)
Lemma undo_insert_spec tn rows t dv u : tbl_wf t -> fresh_rows rows t = true ->
  let img := {| i_tn := tn; i_kind := KInsert; i_mask := None; i_before := []; i_after := rows |} in
  agree_on (img_keys img) u (insert_all rows t) -> undo_spec dv img u t.
Proof.
  intros W F img A. destruct (fresh_rows_spec _ _ F) as [Wr Fr].
  unfold undo_spec. unfold replayed_rows; cbn.
  destruct (is_nil_dec rows) as [[E1 E2]|E1]; [left|right]; (split; [assumption|]).
  - subst rows. intros k Hk. destruct Hk.
  - assert (Hrows : forall k r, In (k, r) rows -> lookup k u = Some r).
    { intros k r Hin. rewrite (A k); [|unfold img_keys; cbn; eapply In_keys; eassumption].
      rewrite lookup_insert_all by assumption. now rewrite (In_lookup _ _ _ Wr Hin). }
    right. split.
    + unfold validate. destruct dv; cbn; [|reflexivity].
      rewrite recs_eqb_nil_l, E1. unfold check_keys; cbn.
      pose proof (recs_eqb_current None rows u Hrows) as R. unfold keys in R. now rewrite R.
    + unfold compensate; cbn. eexists; split; [reflexivity|]. split.
      * intros k Hk. unfold img_keys in Hk; cbn in Hk.
        rewrite lookup_remove_all. apply memk_In in Hk. rewrite Hk.
        symmetry. apply Fr. now apply memk_In.
      * intros k Hk. unfold img_keys in Hk; cbn in Hk.
        rewrite lookup_remove_all. apply memk_false in Hk. now rewrite Hk.
Qed.

(* DELETE *)
Lemma undo_delete_spec tn ks t dv u : tbl_wf t ->
  let img := {| i_tn := tn; i_kind := KDelete; i_mask := None; i_before := matched ks t; i_after := [] |} in
  agree_on (img_keys img) u (remove_all ks t) -> undo_spec dv img u t.
Proof.
  intros W img A. unfold undo_spec. unfold replayed_rows; cbn.
  assert (K : img_keys img = keys (matched ks t)) by (unfold img_keys; cbn; apply app_nil_r).
  rewrite K in *.
  destruct (is_nil_dec (matched ks t)) as [[E1 E2]|E1]; [left|right]; (split; [assumption|]).
  - rewrite E2. intros k Hk. destruct Hk.
  - assert (Habs : forall k, In k (keys (matched ks t)) -> lookup k u = None).
    { intros k Hk. rewrite (A k Hk), lookup_remove_all.
      apply keys_matched_In in Hk. destruct Hk as [Hk _]. apply memk_In in Hk. now rewrite Hk. }
    right. split.
    + unfold validate. destruct dv; cbn; [|reflexivity].
      rewrite recs_eqb_nil_r, E1. unfold check_keys; cbn.
      pose proof (current_of_nil _ _ Habs) as R. unfold keys in R. rewrite R. reflexivity.
    + unfold compensate; cbn.
      destruct (reinsert_all_spec (matched ks t) u (matched_wf ks t W) Habs) as [u' [H1 H2]].
      exists u'. split; [assumption|]. split.
      * intros k Hk0. assert (Hk : In k (keys (matched ks t))) by (rewrite <- K; exact Hk0).
        rewrite H2, lookup_matched.
        destruct (keys_matched_In _ _ _ Hk) as [Hk1 _]. apply memk_In in Hk1. rewrite Hk1.
        destruct (lookup k t) eqn:E; [reflexivity|].
        apply matched_keys_present in Hk. destruct Hk as [_ Hk]. contradiction.
      * intros k Hk. rewrite H2. destruct (lookup k (matched ks t)) eqn:E; [|reflexivity].
        exfalso. apply Hk. change (In k (img_keys img)). rewrite K. eapply lookup_Some_In_keys; eassumption.
Qed.

(* UPDATE *)
Lemma undo_update_spec tn oc sm ups t dv u : tbl_wf t -> tbl_wf ups ->
  let t' := update_all sm ups t in
  let img := {| i_tn := tn; i_kind := KUpdate; i_mask := img_mask oc sm;
                i_before := matched (keys ups) t; i_after := matched (keys ups) t' |} in
  agree_on (img_keys img) u t' -> undo_spec dv img u t.
Proof.
  intros W Wu t' img A.
  set (B := matched (keys ups) t). set (Aft := matched (keys ups) t').
  assert (Wt' : tbl_wf t') by (now apply update_all_wf).
  assert (KA : forall k, In k (keys Aft) <-> In k (keys B)).
  { intro k. unfold Aft, B. rewrite !matched_keys_present. unfold t'.
    rewrite update_present by assumption. reflexivity. }
  assert (KI : forall k, In k (img_keys img) <-> In k (keys B)).
  { intro k. unfold img_keys; cbn. fold B Aft. rewrite in_app_iff, KA. tauto. }
  (* facts about a key of the image *)
  assert (KF : forall k, In k (keys B) ->
            exists r n, lookup k t = Some r /\ lookup k ups = Some n /\ lookup k B = Some r /\
                        lookup k t' = Some (merge sm n r) /\ lookup k Aft = Some (merge sm n r)).
  { intros k Hk. unfold B in Hk. pose proof Hk as Hk0. apply matched_keys_present in Hk. destruct Hk as [Hk1 Hk2].
    destruct (lookup k t) as [r|] eqn:E1; [|contradiction].
    destruct (lookup k ups) as [n|] eqn:E2; [|apply lookup_None in E2; contradiction].
    exists r, n. apply memk_In in Hk1. unfold B, Aft. rewrite !lookup_matched, Hk1. unfold t'.
    rewrite lookup_update_all by assumption. rewrite E2, E1. cbn. auto. }
  assert (Comp : exists u', compensate img u = Some u' /\ agree_on (img_keys img) u' t /\
                forall k, ~ In k (img_keys img) -> lookup k u' = lookup k u).
  { exists (update_all (img_mask oc sm) B u). split; [reflexivity|].
    assert (WB : tbl_wf B) by (now apply matched_wf).
    split.
    - intros k Hk. pose proof Hk as Hk'. apply KI in Hk. destruct (KF k Hk) as [r [n [F1 [F2 [F3 [F4 F5]]]]]].
      rewrite lookup_update_all by assumption. rewrite F3, (A k Hk'). fold t'. rewrite F4. cbn.
      now rewrite merge_restore.
    - intros k Hk. rewrite lookup_update_all by assumption.
      destruct (lookup k B) eqn:E; [|reflexivity].
      exfalso. apply Hk, KI. eapply lookup_Some_In_keys; eassumption. }
  unfold undo_spec. unfold replayed_rows; cbn. fold B Aft.
  destruct (is_nil_dec B) as [[E1 E2]|E1]; [left|right]; (split; [assumption|]).
  - intros k Hk. apply KI in Hk. rewrite E2 in Hk. destruct Hk.
  - destruct dv.
    2:{ right. split; [reflexivity | exact Comp]. }
    unfold validate; cbn. fold B Aft.
    destruct (recs_eqb (img_mask oc sm) B Aft) eqn:RBA.
    + left. split; [reflexivity|].
      intros k Hk. pose proof Hk as Hk'. apply KI in Hk. destruct (KF k Hk) as [r [n [F1 [F2 [F3 [F4 F5]]]]]].
      unfold recs_eqb in RBA. apply andb_true_iff in RBA. destruct RBA as [_ RBA].
      rewrite forallb_forall in RBA. specialize (RBA (k, r) (lookup_In _ _ _ F3)). cbn in RBA.
      rewrite F5 in RBA. apply meq_merge_eq in RBA.
      rewrite (A k Hk'). fold t'. rewrite F4, F1, RBA. reflexivity.
    + right. split; [|exact Comp].
      unfold check_keys; cbn. fold Aft.
      rewrite recs_eqb_current; [reflexivity|].
      intros k r' Hin.
      assert (WA : tbl_wf Aft) by (now apply matched_wf).
      pose proof (In_lookup _ _ _ WA Hin) as L. unfold Aft in L. rewrite lookup_matched in L.
      destruct (memk k (keys ups)); [|discriminate].
      rewrite (A k); [exact L|]. apply KI, KA. eapply In_keys; eassumption.
Qed.

(* L2: the image of a statement, replayed on any table that agrees with the
   statement's result on the image keys, gives back the table before it *)
Lemma at_stmt_undo oc s t t' img dv u : tbl_wf t -> at_stmt oc s t = Some (t', img) ->
  agree_on (img_keys img) u t' -> undo_spec dv img u t.
Proof.
  intros W H A. destruct s as [tn rows|tn sm ups|tn ks]; cbn in H.
  - destruct (fresh_rows rows t) eqn:F; inversion H; subst; clear H.
    now apply undo_insert_spec.
  - destruct (tbl_wfb ups) eqn:F; inversion H; subst; clear H.
    apply tbl_wfb_correct in F. now apply (undo_update_spec tn oc sm ups t dv u).
  - inversion H; subst; clear H. now apply undo_delete_spec.
Qed.

(* ================= databases ================= *)
Definition db_wf (d : db) : Prop := forall tn, tbl_wf (db_get tn d).

Lemma db_get_set tn tn' t d : db_get tn' (db_set tn t d) = if bytes_eqb tn' tn then t else db_get tn' d.
Proof.
  destruct (bytes_eqb tn' tn) eqn:E.
  - apply bytes_eqb_eq in E. subst. apply db_get_set_eq.
  - apply bytes_eqb_false in E. apply db_get_set_neq. congruence.
Qed.

Lemma db_set_wf tn t d : db_wf d -> tbl_wf t -> db_wf (db_set tn t d).
Proof. intros H W tn'. rewrite db_get_set. destruct (bytes_eqb tn' tn); [assumption | apply H]. Qed.

Definition touched (imgs : list image) (tn : tablename) (k : key) : Prop :=
  exists img, In img imgs /\ i_tn img = tn /\ In k (img_keys img).

Definition dagree (S : tablename -> key -> Prop) (d1 d2 : db) : Prop :=
  forall tn k, S tn k -> lookup k (db_get tn d1) = lookup k (db_get tn d2).

Lemma undo_images_app dv l1 l2 d :
  undo_images dv (l1 ++ l2) d = match undo_images dv l1 d with Some d' => undo_images dv l2 d' | None => None end.
Proof. revert d; induction l1; intro d; cbn; [reflexivity|]. destruct (undo_one dv a d); auto. Qed.

(* the generated executor table: every executor validates, skips empty images *)
Lemma exec_validates_all k : exec_validates k = true.
Proof. destruct k; reflexivity. Qed.
Lemma exec_skips_empty_all k : exec_skips_empty k = true.
Proof. destruct k; reflexivity. Qed.

Lemma undo_one_spec dv img u tprev :
  undo_spec dv img (db_get (i_tn img) u) tprev ->
  exists u', undo_one dv img u = Some u' /\
    agree_on (img_keys img) (db_get (i_tn img) u') tprev /\
    (forall k, ~ In k (img_keys img) -> lookup k (db_get (i_tn img) u') = lookup k (db_get (i_tn img) u)) /\
    (forall tn', tn' <> i_tn img -> db_get tn' u' = db_get tn' u).
Proof.
  intro H. unfold undo_one. rewrite exec_validates_all, exec_skips_empty_all.
  destruct H as [[E A]|[E [[V A]|[V [t' [C [A F]]]]]]]; rewrite E.
  - exists u. repeat split; auto.
  - rewrite V. exists u. repeat split; auto.
  - rewrite V, C. exists (db_set (i_tn img) t' u). split; [reflexivity|].
    rewrite db_get_set_eq. repeat split; auto.
    intros tn' Hn. apply db_get_set_neq. congruence.
Qed.

Lemma run_stmts_wf oc ss d d' imgs : db_wf d -> run_stmts oc ss d = Some (d', imgs) -> db_wf d'.
Proof.
  revert d d' imgs; induction ss as [|s ss IH]; intros d d' imgs W H; cbn in H.
  - inversion H; subst; assumption.
  - destruct (at_stmt oc s (db_get (stmt_tn s) d)) as [[t' img]|] eqn:E; [|discriminate].
    destruct (run_stmts oc ss (db_set (stmt_tn s) t' d)) as [[d2 imgs2]|] eqn:E2; [|discriminate].
    inversion H; subst. eapply IH; [|eassumption].
    apply db_set_wf; [assumption|]. eapply at_stmt_wf; [apply W | eassumption].
Qed.

(* phase one only changes touched keys *)
Lemma run_stmts_frame oc ss d d' imgs : run_stmts oc ss d = Some (d', imgs) ->
  forall tn k, ~ touched imgs tn k -> lookup k (db_get tn d') = lookup k (db_get tn d).
Proof.
  revert d d' imgs; induction ss as [|s ss IH]; intros d d' imgs H tn k NT; cbn in H.
  - inversion H; subst; reflexivity.
  - destruct (at_stmt oc s (db_get (stmt_tn s) d)) as [[t' img]|] eqn:E; [|discriminate].
    destruct (run_stmts oc ss (db_set (stmt_tn s) t' d)) as [[d2 imgs2]|] eqn:E2; [|discriminate].
    inversion H; subst; clear H.
    rewrite (IH _ _ _ E2 tn k).
    2:{ intros [im [Hin [Ht Hk]]]. apply NT. exists im. split; [now right | auto]. }
    rewrite db_get_set. destruct (bytes_eqb tn (stmt_tn s)) eqn:B; [|reflexivity].
    apply bytes_eqb_eq in B. subst tn.
    eapply at_stmt_frame; [eassumption|].
    intro Hk. apply NT. exists img. split; [now left|]. split; [eapply at_stmt_tn; eassumption | assumption].
Qed.

(* L3: replaying the images of a local transaction in reverse order restores,
   on every key set S that covers them, the tables before it *)
Lemma run_stmts_undo oc dv ss d0 dn imgs : db_wf d0 -> run_stmts oc ss d0 = Some (dn, imgs) ->
  forall (S : tablename -> key -> Prop) u,
    (forall tn k, touched imgs tn k -> S tn k) -> dagree S u dn ->
    exists u', undo_images dv (rev imgs) u = Some u' /\ dagree S u' d0 /\
      (forall tn k, ~ touched imgs tn k -> lookup k (db_get tn u') = lookup k (db_get tn u)).
Proof.
  revert d0 dn imgs; induction ss as [|s ss IH]; intros d0 dn imgs W H S u Cov A; cbn in H.
  - inversion H; subst. exists u. cbn. repeat split; auto.
  - destruct (at_stmt oc s (db_get (stmt_tn s) d0)) as [[t1 img]|] eqn:E; [|discriminate].
    destruct (run_stmts oc ss (db_set (stmt_tn s) t1 d0)) as [[d2 imgs2]|] eqn:E2; [|discriminate].
    inversion H; subst; clear H.
    set (d1 := db_set (stmt_tn s) t1 d0) in *.
    assert (W1 : db_wf d1).
    { apply db_set_wf; [assumption|]. eapply at_stmt_wf; [apply W | eassumption]. }
    assert (Cov2 : forall tn k, touched imgs2 tn k -> S tn k).
    { intros tn k [im [Hin R]]. apply Cov. exists im. split; [now right | assumption]. }
    destruct (IH d1 dn imgs2 W1 E2 S u Cov2 A) as [u1 [U1 [A1 F1]]].
    pose proof (at_stmt_tn _ _ _ _ _ E) as TN.
    assert (CovI : forall k, In k (img_keys img) -> S (stmt_tn s) k).
    { intros k Hk. apply Cov. exists img. split; [now left|]. split; assumption. }
    assert (Sp : undo_spec dv img (db_get (i_tn img) u1) (db_get (stmt_tn s) d0)).
    { eapply at_stmt_undo; [apply W | eassumption |].
      intros k Hk. rewrite TN. rewrite (A1 _ _ (CovI k Hk)). unfold d1. now rewrite db_get_set_eq. }
    destruct (undo_one_spec _ _ _ _ Sp) as [u2 [U2 [A2 [F2 O2]]]].
    exists u2. split; [|split].
    + cbn [rev]. rewrite undo_images_app, U1. cbn. now rewrite U2.
    + intros tn k HS. destruct (bytes_eq_dec tn (stmt_tn s)) as [->|Hn].
      * destruct (in_dec key_eq_dec k (img_keys img)) as [Hk|Hk].
        -- pose proof (A2 k Hk) as Q. rewrite TN in Q. exact Q.
        -- pose proof (F2 k Hk) as Q. rewrite TN in Q. rewrite Q, (A1 _ _ HS). unfold d1. rewrite db_get_set_eq.
           eapply at_stmt_frame; eassumption.
      * rewrite O2 by (rewrite TN; assumption). rewrite (A1 _ _ HS). unfold d1.
        apply f_equal. apply db_get_set_neq. congruence.
    + intros tn k NT.
      assert (NT2 : ~ touched imgs2 tn k).
      { intros [im [Hin R]]. apply NT. exists im. split; [now right | assumption]. }
      rewrite <- (F1 _ _ NT2).
      destruct (bytes_eq_dec tn (i_tn img)) as [->|Hn].
      * apply F2. intro Hk. apply NT. exists img. split; [now left | split; [reflexivity | assumption]].
      * now rewrite O2.
Qed.

(* ================= the undo log ================= *)
Lemma ukey_eqb_eq a b : ukey_eqb a b = true <-> a = b.
Proof.
  destruct a as [a1 a2], b as [b1 b2]. unfold ukey_eqb; cbn.
  rewrite andb_true_iff, !N.eqb_eq. split; [intros [-> ->]; reflexivity | intro H; inversion H; auto].
Qed.
Lemma ukey_eqb_refl a : ukey_eqb a a = true.
Proof. now apply ukey_eqb_eq. Qed.
Lemma ukey_eqb_false a b : ukey_eqb a b = false <-> a <> b.
Proof. rewrite <- ukey_eqb_eq. destruct (ukey_eqb a b); split; congruence. Qed.

Lemma ulookup_uremove x y l : ulookup y (uremove x l) = if ukey_eqb y x then None else ulookup y l.
Proof.
  induction l as [|[z u] l IH]; cbn; [now destruct (ukey_eqb y x)|].
  destruct (ukey_eqb x z) eqn:E1.
  - apply ukey_eqb_eq in E1. subst z. rewrite IH. destruct (ukey_eqb y x); reflexivity.
  - cbn. rewrite IH. destruct (ukey_eqb y z) eqn:E2; [|reflexivity].
    apply ukey_eqb_eq in E2. subst z.
    destruct (ukey_eqb y x) eqn:E3; [|reflexivity].
    apply ukey_eqb_eq in E3. subst. rewrite ukey_eqb_refl in E1. discriminate.
Qed.

Definition no_normal (x : ukey) (d : dbs) : Prop :=
  match ulookup x (d_undo d) with Some u => u_normal u = false | None => True end.

Definition branch_touched (d : dbs) (x : ukey) (tn : tablename) (k : key) : Prop :=
  match ulookup x (d_undo d) with
  | Some u => match u_body u with Some imgs => touched imgs tn k | None => False end
  | None => False
  end.

(* ---- what a clean delivery does ---- *)
Lemma rollback_clean_marker cfg u x : ulookup x (d_undo u) = None ->
  rollback_branch cfg None u x =
  {| r_db := {| d_tabs := d_tabs u; d_undo := (x, marker) :: d_undo u |}; r_out := status_ok;
     r_fired := false; r_tx_open := false; r_conn_released := undo_closes_conn; r_ops := 6 |}.
Proof. intro H. unfold rollback_branch, undo_plan. rewrite H. reflexivity. Qed.

Lemma rollback_clean_finished cfg u x row : ulookup x (d_undo u) = Some row -> u_normal row = false ->
  rollback_branch cfg None u x =
  {| r_db := u; r_out := status_ok; r_fired := false; r_tx_open := false;
     r_conn_released := undo_closes_conn; r_ops := 3 |}.
Proof. intros H N. unfold rollback_branch, undo_plan. rewrite H, N. reflexivity. Qed.

Lemma rollback_clean_normal cfg u x row imgs tabs' : ulookup x (d_undo u) = Some row -> u_normal row = true ->
  u_body row = Some imgs -> undo_images (c_validation cfg) (rev imgs) (d_tabs u) = Some tabs' ->
  let r := rollback_branch cfg None u x in
  r_db r = {| d_tabs := tabs'; d_undo := uremove x (d_undo u) |} /\ r_out r = status_ok /\
  r_fired r = false /\ r_tx_open r = false.
Proof.
  intros H N B U. unfold rollback_branch, undo_plan. rewrite H, N, B. cbn [negb].
  unfold order_log. change undo_reverses_log with true. change undo_empty_log_returns_early with false.
  rewrite andb_false_r. cbn iota. rewrite U. cbn. auto.
Qed.

Lemma rollback_clean_failed cfg u x row imgs : ulookup x (d_undo u) = Some row -> u_normal row = true ->
  u_body row = Some imgs -> undo_images (c_validation cfg) (rev imgs) (d_tabs u) = None ->
  let r := rollback_branch cfg None u x in
  r_db r = u /\ r_out r = status_plain_error /\ r_fired r = false /\ r_tx_open r = false.
Proof.
  intros H N B U. unfold rollback_branch, undo_plan. rewrite H, N, B. cbn [negb].
  unfold order_log. change undo_reverses_log with true. change undo_empty_log_returns_early with false.
  rewrite andb_false_r. cbn iota. rewrite U. cbn. auto.
Qed.

(* ---- phase one of a branch ---- *)
Lemma image_empty_untouched imgs : forallb image_empty imgs = true -> forall tn k, ~ touched imgs tn k.
Proof.
  intros H tn k [img [Hin [_ Hk]]]. rewrite forallb_forall in H. specialize (H _ Hin).
  unfold image_empty in H. unfold img_keys in Hk.
  destruct (i_before img); [|discriminate]. destruct (i_after img); [|discriminate]. destruct Hk.
Qed.

Lemma phase1_branch_other cfg x ss d d' ok y : phase1_branch cfg x ss d = (d', ok) -> y <> x ->
  ulookup y (d_undo d') = ulookup y (d_undo d).
Proof.
  unfold phase1_branch. intros H Hn.
  destruct (run_stmts (c_only_care cfg) ss (d_tabs d)) as [[tabs' imgs]|]; [|inversion H; reflexivity].
  destruct (forallb image_empty imgs); [inversion H; reflexivity|].
  destruct (ulookup x (d_undo d)); inversion H; subst; [reflexivity|]. cbn.
  apply ukey_eqb_false in Hn. now rewrite Hn.
Qed.

Lemma phase1_branch_wf cfg x ss d d' ok : db_wf (d_tabs d) -> phase1_branch cfg x ss d = (d', ok) -> db_wf (d_tabs d').
Proof.
  unfold phase1_branch. intros W H.
  destruct (run_stmts (c_only_care cfg) ss (d_tabs d)) as [[tabs' imgs]|] eqn:R; [|inversion H; subst; assumption].
  pose proof (run_stmts_wf _ _ _ _ _ W R) as W'.
  destruct (forallb image_empty imgs); [inversion H; subst; assumption|].
  destruct (ulookup x (d_undo d)); inversion H; subst; assumption.
Qed.

Lemma phase1_branch_failed cfg x ss d d' : phase1_branch cfg x ss d = (d', false) -> d' = d.
Proof.
  unfold phase1_branch. intro H.
  destruct (run_stmts (c_only_care cfg) ss (d_tabs d)) as [[tabs' imgs]|]; [|inversion H; reflexivity].
  destruct (forallb image_empty imgs); [inversion H|].
  destruct (ulookup x (d_undo d)); inversion H; reflexivity.
Qed.

Lemma phase1_branch_frame cfg x ss d d' ok : ulookup x (d_undo d) = None -> phase1_branch cfg x ss d = (d', ok) ->
  forall tn k, ~ branch_touched d' x tn k -> lookup k (db_get tn (d_tabs d')) = lookup k (db_get tn (d_tabs d)).
Proof.
  unfold phase1_branch. intros F H tn k NT.
  destruct (run_stmts (c_only_care cfg) ss (d_tabs d)) as [[tabs' imgs]|] eqn:R; [|inversion H; reflexivity].
  destruct (forallb image_empty imgs) eqn:EI.
  - inversion H; subst; cbn. eapply run_stmts_frame; [eassumption|]. now apply image_empty_untouched.
  - rewrite F in H. inversion H; subst; cbn.
    eapply run_stmts_frame; [eassumption|].
    unfold branch_touched in NT. cbn in NT. rewrite ukey_eqb_refl in NT. exact NT.
Qed.

(* one branch: phase one, then (after anything that respects S) its rollback *)
Lemma branch_roundtrip cfg x ss d d' : db_wf (d_tabs d) -> ulookup x (d_undo d) = None ->
  phase1_branch cfg x ss d = (d', true) ->
  forall (S : tablename -> key -> Prop) u,
    (forall tn k, branch_touched d' x tn k -> S tn k) ->
    dagree S (d_tabs u) (d_tabs d') -> ulookup x (d_undo u) = ulookup x (d_undo d') ->
    let r := rollback_branch cfg None u x in
    r_out r = status_ok /\ dagree S (d_tabs (r_db r)) (d_tabs d) /\
    (forall tn k, ~ S tn k -> lookup k (db_get tn (d_tabs (r_db r))) = lookup k (db_get tn (d_tabs u))) /\
    no_normal x (r_db r) /\ (forall y, y <> x -> ulookup y (d_undo (r_db r)) = ulookup y (d_undo u)).
Proof.
  intros W F H S u Cov A UL. pose proof H as H0. unfold phase1_branch in H.
  destruct (run_stmts (c_only_care cfg) ss (d_tabs d)) as [[tabs' imgs]|] eqn:R; [|inversion H].
  destruct (forallb image_empty imgs) eqn:EI.
  - (* nothing flushed: the delivery finds no undo log and leaves the marker *)
    inversion H; subst d'; clear H. cbn in UL. rewrite F in UL.
    rewrite (rollback_clean_marker cfg u x UL). cbn.
    split; [reflexivity|]. split; [|split; [|split]].
    + intros tn k HS. rewrite (A _ _ HS). cbn.
      eapply run_stmts_frame; [eassumption|]. now apply image_empty_untouched.
    + reflexivity.
    + unfold no_normal. cbn. rewrite ukey_eqb_refl. reflexivity.
    + intros y Hn. apply ukey_eqb_false in Hn. now rewrite Hn.
  - rewrite F in H. inversion H; subst d'; clear H. cbn in UL, A, Cov. rewrite ukey_eqb_refl in UL.
    assert (Cov' : forall tn k, touched imgs tn k -> S tn k).
    { intros tn k T. apply Cov. unfold branch_touched. cbn. rewrite ukey_eqb_refl. exact T. }
    destruct (run_stmts_undo _ (c_validation cfg) _ _ _ _ W R S (d_tabs u) Cov' A) as [u' [U [A' F']]].
    destruct (rollback_clean_normal cfg u x _ imgs u' UL eq_refl eq_refl U) as [E1 [E2 _]].
    cbn zeta. rewrite E1, E2. cbn.
    split; [reflexivity|]. split; [exact A'|]. split; [|split].
    + intros tn k NS. apply F'. intro T. apply NS, Cov', T.
    + unfold no_normal. cbn. rewrite ulookup_uremove, ukey_eqb_refl. exact I.
    + intros y Hn. rewrite ulookup_uremove. apply ukey_eqb_false in Hn. now rewrite Hn.
Qed.

(* ================= a global transaction ================= *)
From Coq Require Import ZifyN.

Lemma rollback_all_app cfg l1 l2 u :
  rollback_all cfg (l1 ++ l2) u =
  let '(u1, s1) := rollback_all cfg l1 u in
  let '(u2, s2) := rollback_all cfg l2 u1 in (u2, s1 ++ s2).
Proof.
  revert u; induction l1 as [|x l1 IH]; intro u; cbn.
  - destruct (rollback_all cfg l2 u); reflexivity.
  - rewrite IH. destruct (rollback_all cfg l1 (r_db (rollback_branch cfg None u x))) as [u1 s1].
    destruct (rollback_all cfg l2 u1); reflexivity.
Qed.

Lemma phase1_bs_range cfg xid prog : forall b d d1 bs, phase1 cfg xid b prog d = (d1, bs) ->
  forall y, In y bs -> fst y = xid /\ (b <= snd y)%N.
Proof.
  induction prog as [|ss prog IH]; intros b d d1 bs H y Hy; cbn in H.
  - inversion H; subst. destruct Hy.
  - destruct (phase1_branch cfg (xid, b) ss d) as [dA ok] eqn:PB.
    destruct (phase1 cfg xid (N.succ b) prog dA) as [d2 bs'] eqn:P.
    inversion H; subst; clear H.
    assert (R : In y bs' -> fst y = xid /\ (b <= snd y)%N).
    { intro Hin. destruct (IH _ _ _ _ P y Hin) as [E L]. split; [assumption | lia]. }
    destruct ok; [|auto]. destruct Hy as [<-|Hy]; [cbn; split; [reflexivity | lia] | auto].
Qed.

Lemma phase1_other cfg xid prog : forall b d d1 bs, phase1 cfg xid b prog d = (d1, bs) ->
  forall y, (fst y <> xid \/ (snd y < b)%N) -> ulookup y (d_undo d1) = ulookup y (d_undo d).
Proof.
  induction prog as [|ss prog IH]; intros b d d1 bs H y Hy; cbn in H.
  - inversion H; subst. reflexivity.
  - destruct (phase1_branch cfg (xid, b) ss d) as [dA ok] eqn:PB.
    destruct (phase1 cfg xid (N.succ b) prog dA) as [d2 bs'] eqn:P.
    inversion H; subst; clear H.
    rewrite (IH _ _ _ _ P y) by (destruct Hy; [now left | right; lia]).
    eapply phase1_branch_other; [eassumption|].
    intro E. subst y. cbn in Hy. destruct Hy; [congruence | lia].
Qed.

Definition inS (L : list (tablename * key)) : tablename -> key -> Prop := fun tn k => In (tn, k) L.

Lemma phase1_rollback cfg xid prog : forall b d0 d1 bs,
  db_wf (d_tabs d0) -> (forall b', (b <= b')%N -> ulookup (xid, b') (d_undo d0) = None) ->
  phase1 cfg xid b prog d0 = (d1, bs) ->
  forall (S : tablename -> key -> Prop) (u : dbs),
    (forall x, In x bs -> forall tn k, branch_touched d1 x tn k -> S tn k) ->
    dagree S (d_tabs u) (d_tabs d1) ->
    (forall x, In x bs -> ulookup x (d_undo u) = ulookup x (d_undo d1)) ->
    exists u' sts, rollback_all cfg (rev bs) u = (u', sts) /\ Forall (eq status_ok) sts /\
      dagree S (d_tabs u') (d_tabs d0) /\
      (forall tn k, ~ S tn k -> lookup k (db_get tn (d_tabs u')) = lookup k (db_get tn (d_tabs u))) /\
      (forall x, In x bs -> no_normal x u') /\
      (forall y, ~ In y bs -> ulookup y (d_undo u') = ulookup y (d_undo u)).
Proof.
  induction prog as [|ss prog IH]; intros b d0 d1 bs W Fr H S u Cov A UL; cbn in H.
  - inversion H; subst. exists u, []. cbn. repeat split; auto. intros x [].
  - destruct (phase1_branch cfg (xid, b) ss d0) as [dA ok] eqn:PB.
    destruct (phase1 cfg xid (N.succ b) prog dA) as [d2 bs'] eqn:P.
    inversion H; subst d2; clear H.
    assert (WA : db_wf (d_tabs dA)) by (eapply phase1_branch_wf; eassumption).
    assert (FrA : forall b', (N.succ b <= b')%N -> ulookup (xid, b') (d_undo dA) = None).
    { intros b' Hb. rewrite (phase1_branch_other _ _ _ _ _ _ (xid, b') PB).
      - apply Fr. lia.
      - intro E. inversion E. lia. }
    assert (Sub : forall x, In x bs' -> In x bs) by (intros x Hx; subst bs; destruct ok; [now right | assumption]).
    destruct (IH _ _ _ _ WA FrA P S u) as [u1 [s1 [R1 [F1 [A1 [O1 [N1 U1]]]]]]].
    { intros x Hx. apply Cov, Sub, Hx. }
    { exact A. }
    { intros x Hx. apply UL, Sub, Hx. }
    assert (Xout : ~ In (xid, b) bs').
    { intro Hin. destruct (phase1_bs_range _ _ _ _ _ _ _ P _ Hin) as [_ L]. cbn in L. lia. }
    destruct ok.
    + subst bs. cbn [rev]. rewrite rollback_all_app, R1. cbn [rollback_all].
      set (x := (xid, b)) in *.
      assert (Xrow : ulookup x (d_undo d1) = ulookup x (d_undo dA)).
      { apply (phase1_other _ _ _ _ _ _ _ P x). right. cbn. lia. }
      destruct (branch_roundtrip cfg x ss d0 dA W (Fr b (N.le_refl b)) PB S u1) as [E1 [A2 [O2 [N2 U2]]]].
      { intros tn k T. apply (Cov x (or_introl eq_refl)). unfold branch_touched in *. now rewrite Xrow. }
      { exact A1. }
      { rewrite (U1 x Xout), (UL x (or_introl eq_refl)). exact Xrow. }
      set (r := rollback_branch cfg None u1 x) in *.
      exists (r_db r), (s1 ++ [r_out r]). split; [reflexivity|].
      split; [apply Forall_app; split; [assumption | constructor; [now rewrite E1 | constructor]]|].
      split; [exact A2|]. split; [|split].
      * intros tn k NS. rewrite (O2 _ _ NS). apply O1, NS.
      * intros y [<-|Hy]; [exact N2|].
        assert (Hn : y <> x) by (intro E; subst y; contradiction).
        unfold no_normal. rewrite (U2 y Hn). apply N1, Hy.
      * intros y Hy.
        assert (Hn : y <> x) by (intro E; subst y; apply Hy; now left).
        rewrite (U2 y Hn). apply U1. intro Hin. apply Hy. now right.
    + subst bs. apply phase1_branch_failed in PB. subst dA.
      exists u1, s1. repeat split; auto.
Qed.

Lemma phase1_frame cfg xid prog : forall b d0 d1 bs,
  (forall b', (b <= b')%N -> ulookup (xid, b') (d_undo d0) = None) ->
  phase1 cfg xid b prog d0 = (d1, bs) ->
  forall tn k, (forall x, In x bs -> ~ branch_touched d1 x tn k) ->
  lookup k (db_get tn (d_tabs d1)) = lookup k (db_get tn (d_tabs d0)).
Proof.
  induction prog as [|ss prog IH]; intros b d0 d1 bs Fr H tn k NT; cbn in H.
  - inversion H; subst. reflexivity.
  - destruct (phase1_branch cfg (xid, b) ss d0) as [dA ok] eqn:PB.
    destruct (phase1 cfg xid (N.succ b) prog dA) as [d2 bs'] eqn:P.
    inversion H; subst d2; clear H.
    assert (FrA : forall b', (N.succ b <= b')%N -> ulookup (xid, b') (d_undo dA) = None).
    { intros b' Hb. rewrite (phase1_branch_other _ _ _ _ _ _ (xid, b') PB).
      - apply Fr. lia.
      - intro E. inversion E. lia. }
    rewrite (IH _ _ _ _ FrA P tn k).
    2:{ intros x Hx. apply NT. subst bs. destruct ok; [now right | assumption]. }
    destruct ok.
    + eapply phase1_branch_frame; [apply (Fr b (N.le_refl b)) | eassumption |].
      assert (Xrow : ulookup (xid, b) (d_undo d1) = ulookup (xid, b) (d_undo dA)).
      { apply (phase1_other _ _ _ _ _ _ _ P (xid, b)). right. cbn. lia. }
      intro T. apply (NT (xid, b)); [subst bs; now left|].
      unfold branch_touched in *. now rewrite Xrow.
    + apply phase1_branch_failed in PB. now subst dA.
Qed.

(* ---- foreign committed writes ---- *)
Lemma lookup_apply_fwrite_other w d tn k : (fwrite_tn w, fwrite_key w) <> (tn, k) ->
  lookup k (db_get tn (apply_fwrite w d)) = lookup k (db_get tn d).
Proof.
  intro Hn. destruct w as [tn' k' r|tn' k']; cbn in *; rewrite db_get_set;
    destruct (bytes_eqb tn tn') eqn:E; try reflexivity;
    apply bytes_eqb_eq in E; subst tn'.
  - rewrite lookup_insert. keq k k'; [subst; congruence | reflexivity].
  - rewrite lookup_remove. keq k k'; [subst; congruence | reflexivity].
Qed.

Lemma lookup_apply_fwrite_cong w d1 d2 tn k :
  lookup k (db_get tn d1) = lookup k (db_get tn d2) ->
  lookup k (db_get tn (apply_fwrite w d1)) = lookup k (db_get tn (apply_fwrite w d2)).
Proof.
  intro H. destruct w as [tn' k' r|tn' k']; cbn in *; rewrite !db_get_set;
    destruct (bytes_eqb tn tn') eqn:E; try assumption;
    apply bytes_eqb_eq in E; subst tn'.
  - rewrite !lookup_insert. now destruct (key_eqb k k').
  - rewrite !lookup_remove. now destruct (key_eqb k k').
Qed.

Lemma lookup_apply_foreign_other ws d tn k :
  (forall w, In w ws -> (fwrite_tn w, fwrite_key w) <> (tn, k)) ->
  lookup k (db_get tn (apply_foreign ws d)) = lookup k (db_get tn d).
Proof.
  unfold apply_foreign. revert d; induction ws as [|w ws IH]; intros d H; cbn; [reflexivity|].
  rewrite IH by (intros w' Hw; apply H; now right).
  apply lookup_apply_fwrite_other, H. now left.
Qed.

Lemma lookup_apply_foreign_cong ws d1 d2 tn k :
  lookup k (db_get tn d1) = lookup k (db_get tn d2) ->
  lookup k (db_get tn (apply_foreign ws d1)) = lookup k (db_get tn (apply_foreign ws d2)).
Proof.
  unfold apply_foreign. revert d1 d2; induction ws as [|w ws IH]; intros d1 d2 H; cbn; [assumption|].
  apply IH. now apply lookup_apply_fwrite_cong.
Qed.

Definition tnk_eq_dec : forall a b : tablename * key, {a = b} + {a <> b}.
Proof. decide equality; [apply key_eq_dec | apply bytes_eq_dec]. Defined.

(* C01: all branches of a global transaction rolled back in reverse order, after
   committed foreign writes that respect the row locks L *)
Theorem restores cfg xid b prog d0 d1 bs ws (L : list (tablename * key)) :
  db_wf (d_tabs d0) ->
  (forall b', (b <= b')%N -> ulookup (xid, b') (d_undo d0) = None) ->
  phase1 cfg xid b prog d0 = (d1, bs) ->
  (forall x, In x bs -> forall tn k, branch_touched d1 x tn k -> In (tn, k) L) ->
  (forall w, In w ws -> ~ In (fwrite_tn w, fwrite_key w) L) ->
  exists d2 sts,
    rollback_all cfg (rev bs) (with_tabs d1 (apply_foreign ws (d_tabs d1))) = (d2, sts) /\
    Forall (eq status_ok) sts /\
    db_equiv (d_tabs d2) (apply_foreign ws (d_tabs d0)) /\
    forall x, In x bs -> no_normal x d2.
Proof.
  intros W Fr P Cov Frn.
  assert (NotL : forall tn k, In (tn, k) L -> forall w, In w ws -> (fwrite_tn w, fwrite_key w) <> (tn, k)).
  { intros tn k HL w Hw E. apply (Frn w Hw). now rewrite E. }
  destruct (phase1_rollback cfg xid prog b d0 d1 bs W Fr P (inS L)
              (with_tabs d1 (apply_foreign ws (d_tabs d1)))) as [d2 [sts [R [F [A [O [N _]]]]]]].
  - exact Cov.
  - intros tn k HS. cbn. apply lookup_apply_foreign_other. now apply NotL.
  - intros x Hx. reflexivity.
  - exists d2, sts. split; [exact R|]. split; [exact F|]. split; [|exact N].
    intros tn k. destruct (in_dec tnk_eq_dec (tn, k) L) as [HL|HL].
    + rewrite (A _ _ HL). symmetry. apply lookup_apply_foreign_other. now apply NotL.
    + rewrite (O _ _ HL). cbn. apply lookup_apply_foreign_cong.
      eapply phase1_frame; [exact Fr | exact P|].
      intros x Hx T. apply HL. eapply Cov; eassumption.
Qed.

(* ================= truthfulness, failures, faults ================= *)
Lemma plain_error_not_ok : status_plain_error <> status_ok.
Proof. discriminate. Qed.
Lemma error_status_plain : error_status = status_plain_error.
Proof. reflexivity. Qed.

(* a delivery whose fault fired changed nothing, reported a failure and cleaned
   up; one whose fault did not fire is the clean delivery *)
Lemma fired_or_clean cfg f d x :
  let r := rollback_branch cfg f d x in
  (r_fired r = true /\ r_db r = d /\ r_out r <> status_ok /\ r_tx_open r = false /\ r_conn_released r = true) \/
  (r_fired r = false /\ r_db r = r_db (rollback_branch cfg None d x) /\
   r_out r = r_out (rollback_branch cfg None d x) /\ r_tx_open r = r_tx_open (rollback_branch cfg None d x)).
Proof.
  unfold rollback_branch. destruct (undo_plan cfg d x) as [[plan ok] ops].
  destruct (fires f ops) eqn:F.
  - left. cbn. repeat split; auto.
    + destruct f as [k|]; [|discriminate F].
      change undo_commit_error_returned with true. cbn [negb]. rewrite andb_false_r. discriminate.
    + destruct f as [[|k]|]; reflexivity.
  - right. cbn. auto.
Qed.

Lemma clean_cases cfg d x :
  let r := rollback_branch cfg None d x in
  (r_out r = status_ok /\ no_normal x (r_db r) /\ r_tx_open r = false /\
   (forall y, y <> x -> ulookup y (d_undo (r_db r)) = ulookup y (d_undo d))) \/
  (r_out r = status_plain_error /\ r_db r = d /\ r_tx_open r = false).
Proof.
  destruct (ulookup x (d_undo d)) as [row|] eqn:U.
  - destruct (u_normal row) eqn:N.
    + destruct (u_body row) as [imgs|] eqn:B.
      * destruct (undo_images (c_validation cfg) (rev imgs) (d_tabs d)) as [tabs'|] eqn:UI.
        -- destruct (rollback_clean_normal cfg d x row imgs tabs' U N B UI) as [E1 [E2 [E3 E4]]].
           left. cbn zeta. rewrite E1, E2, E4. repeat split; auto.
           ++ unfold no_normal. cbn. rewrite ulookup_uremove, ukey_eqb_refl. exact I.
           ++ intros y Hn. cbn. rewrite ulookup_uremove. apply ukey_eqb_false in Hn. now rewrite Hn.
        -- destruct (rollback_clean_failed cfg d x row imgs U N B UI) as [E1 [E2 [E3 E4]]].
           right. cbn zeta. rewrite E1, E2, E4. auto.
      * right. unfold rollback_branch, undo_plan. rewrite U, N, B. cbn. auto.
    + left. rewrite (rollback_clean_finished cfg d x row U N). cbn. repeat split; auto.
      unfold no_normal. now rewrite U.
  - left. rewrite (rollback_clean_marker cfg d x U). cbn. repeat split; auto.
    + unfold no_normal. cbn. now rewrite ukey_eqb_refl.
    + intros y Hn. apply ukey_eqb_false in Hn. now rewrite Hn.
Qed.

(* C01: 'rollbacked' is only answered when the clean undo really happened *)
Theorem truthful cfg f d x :
  let r := rollback_branch cfg f d x in
  r_out r = status_ok ->
  r_fired r = false /\ r_db r = r_db (rollback_branch cfg None d x) /\
  no_normal x (r_db r) /\ r_tx_open r = false.
Proof.
  cbn zeta. intro H.
  destruct (fired_or_clean cfg f d x) as [[_ [_ [Hn _]]]|[F [E1 [E2 E3]]]]; [contradiction|].
  rewrite E1, E3. rewrite E2 in H.
  destruct (clean_cases cfg d x) as [[_ [N [T _]]]|[O _]].
  - auto.
  - rewrite O in H. discriminate.
Qed.

(* C01: every way the undo can fail is reported, and nothing is changed *)
Theorem failure_reported cfg f d x :
  let r := rollback_branch cfg f d x in
  (r_fired r = true -> r_out r <> status_ok /\ r_db r = d) /\
  (forall row, ulookup x (d_undo d) = Some row -> u_normal row = true ->
     (u_body row = None \/
      exists imgs, u_body row = Some imgs /\ undo_images (c_validation cfg) (rev imgs) (d_tabs d) = None) ->
     r_out r <> status_ok /\ r_db r = d).
Proof.
  cbn zeta. split.
  - intro F. destruct (fired_or_clean cfg f d x) as [[_ [E [Hn _]]]|[F' _]]; [auto | congruence].
  - intros row U N Bad.
    assert (C : r_out (rollback_branch cfg None d x) = status_plain_error /\ r_db (rollback_branch cfg None d x) = d).
    { destruct Bad as [B|[imgs [B I]]].
      - unfold rollback_branch, undo_plan. rewrite U, N, B. cbn. auto.
      - destruct (rollback_clean_failed cfg d x row imgs U N B I) as [E1 [E2 _]]. auto. }
    destruct C as [C1 C2].
    destruct (fired_or_clean cfg f d x) as [[_ [E [Hn _]]]|[_ [E1 [E2 _]]]]; [auto|].
    rewrite E1, E2, C1, C2. split; [discriminate | reflexivity].
Qed.

Lemma undo_plan_ops_ge3 cfg d x : (3 <= snd (undo_plan cfg d x))%nat.
Proof.
  unfold undo_plan. destruct (ulookup x (d_undo d)) as [row|]; [|cbn; lia].
  destruct (negb (u_normal row)); [cbn; lia|].
  destruct (u_body row) as [imgs|]; [|cbn; lia].
  destruct (is_nil imgs && undo_empty_log_returns_early); [cbn; lia|].
  destruct (undo_images (c_validation cfg) (order_log imgs) (d_tabs d)); cbn; lia.
Qed.

Lemma fault_zero_fires cfg d x : r_fired (rollback_branch cfg (Some 0%nat) d x) = true.
Proof.
  unfold rollback_branch. pose proof (undo_plan_ops_ge3 cfg d x) as H.
  destruct (undo_plan cfg d x) as [[plan ok] ops]. cbn in H.
  destruct ops as [|ops]; [lia|]. reflexivity.
Qed.

Lemma status_mapping : status_plain_error <> status_ok /\ status_unretriable <> status_ok /\ status_other_seata_error <> status_ok.
Proof. repeat split; discriminate. Qed.

(* ================= phase one interleaved with foreign commits ================= *)
Lemma apply_fwrite_wf w d : db_wf d -> db_wf (apply_fwrite w d).
Proof.
  intro W. destruct w as [tn k r|tn k]; cbn; apply db_set_wf; auto; [apply insert_wf | apply remove_wf]; apply W.
Qed.

Lemma apply_foreign_wf ws d : db_wf d -> db_wf (apply_foreign ws d).
Proof.
  unfold apply_foreign. revert d; induction ws as [|w ws IH]; intros d W; cbn; [assumption|].
  apply IH, apply_fwrite_wf, W.
Qed.

Lemma apply_foreign_app ws1 ws2 d : apply_foreign (ws1 ++ ws2) d = apply_foreign ws2 (apply_foreign ws1 d).
Proof. unfold apply_foreign. apply fold_left_app. Qed.

Lemma phase1i_bs_range cfg xid prog : forall b d d1 bs, phase1i cfg xid b prog d = (d1, bs) ->
  forall y, In y bs -> fst y = xid /\ (b <= snd y)%N.
Proof.
  induction prog as [|[ss|ws] prog IH]; intros b d d1 bs H y Hy; cbn in H.
  - inversion H; subst. destruct Hy.
  - destruct (phase1_branch cfg (xid, b) ss d) as [dA ok] eqn:PB.
    destruct (phase1i cfg xid (N.succ b) prog dA) as [d2 bs'] eqn:P.
    inversion H; subst; clear H.
    assert (R : In y bs' -> fst y = xid /\ (b <= snd y)%N).
    { intro Hin. destruct (IH _ _ _ _ P y Hin) as [E L]. split; [assumption | lia]. }
    destruct ok; [|auto]. destruct Hy as [<-|Hy]; [cbn; split; [reflexivity | lia] | auto].
  - eapply IH; eassumption.
Qed.

Lemma phase1i_other cfg xid prog : forall b d d1 bs, phase1i cfg xid b prog d = (d1, bs) ->
  forall y, (fst y <> xid \/ (snd y < b)%N) -> ulookup y (d_undo d1) = ulookup y (d_undo d).
Proof.
  induction prog as [|[ss|ws] prog IH]; intros b d d1 bs H y Hy; cbn in H.
  - inversion H; subst. reflexivity.
  - destruct (phase1_branch cfg (xid, b) ss d) as [dA ok] eqn:PB.
    destruct (phase1i cfg xid (N.succ b) prog dA) as [d2 bs'] eqn:P.
    inversion H; subst; clear H.
    rewrite (IH _ _ _ _ P y) by (destruct Hy; [now left | right; lia]).
    eapply phase1_branch_other; [eassumption|].
    intro E. subst y. cbn in Hy. destruct Hy; [congruence | lia].
  - rewrite (IH _ _ _ _ H y Hy). reflexivity.
Qed.

Lemma phase1i_rollback cfg xid prog : forall b d0 d1 bs,
  db_wf (d_tabs d0) -> (forall b', (b <= b')%N -> ulookup (xid, b') (d_undo d0) = None) ->
  phase1i cfg xid b prog d0 = (d1, bs) ->
  forall (S : tablename -> key -> Prop) (u : dbs),
    (forall x, In x bs -> forall tn k, branch_touched d1 x tn k -> S tn k) ->
    (forall w, In w (foreign_of prog) -> ~ S (fwrite_tn w) (fwrite_key w)) ->
    dagree S (d_tabs u) (d_tabs d1) ->
    (forall x, In x bs -> ulookup x (d_undo u) = ulookup x (d_undo d1)) ->
    exists u' sts, rollback_all cfg (rev bs) u = (u', sts) /\ Forall (eq status_ok) sts /\
      dagree S (d_tabs u') (d_tabs d0) /\
      (forall tn k, ~ S tn k -> lookup k (db_get tn (d_tabs u')) = lookup k (db_get tn (d_tabs u))) /\
      (forall x, In x bs -> no_normal x u') /\
      (forall y, ~ In y bs -> ulookup y (d_undo u') = ulookup y (d_undo u)).
Proof.
  induction prog as [|[ss|ws] prog IH]; intros b d0 d1 bs W Fr H S u Cov FS A UL; cbn in H.
  - inversion H; subst. exists u, []. cbn. repeat split; auto. intros x [].
  - destruct (phase1_branch cfg (xid, b) ss d0) as [dA ok] eqn:PB.
    destruct (phase1i cfg xid (N.succ b) prog dA) as [d2 bs'] eqn:P.
    inversion H; subst d2; clear H.
    assert (WA : db_wf (d_tabs dA)) by (eapply phase1_branch_wf; eassumption).
    assert (FrA : forall b', (N.succ b <= b')%N -> ulookup (xid, b') (d_undo dA) = None).
    { intros b' Hb. rewrite (phase1_branch_other _ _ _ _ _ _ (xid, b') PB).
      - apply Fr. lia.
      - intro E. inversion E. lia. }
    assert (Sub : forall x, In x bs' -> In x bs) by (intros x Hx; subst bs; destruct ok; [now right | assumption]).
    destruct (IH _ _ _ _ WA FrA P S u) as [u1 [s1 [R1 [F1 [A1 [O1 [N1 U1]]]]]]].
    { intros x Hx. apply Cov, Sub, Hx. }
    { exact FS. }
    { exact A. }
    { intros x Hx. apply UL, Sub, Hx. }
    assert (Xout : ~ In (xid, b) bs').
    { intro Hin. destruct (phase1i_bs_range _ _ _ _ _ _ _ P _ Hin) as [_ L]. cbn in L. lia. }
    destruct ok.
    + subst bs. cbn [rev]. rewrite rollback_all_app, R1. cbn [rollback_all].
      set (x := (xid, b)) in *.
      assert (Xrow : ulookup x (d_undo d1) = ulookup x (d_undo dA)).
      { apply (phase1i_other _ _ _ _ _ _ _ P x). right. cbn. lia. }
      destruct (branch_roundtrip cfg x ss d0 dA W (Fr b (N.le_refl b)) PB S u1) as [E1 [A2 [O2 [N2 U2]]]].
      { intros tn k T. apply (Cov x (or_introl eq_refl)). unfold branch_touched in *. now rewrite Xrow. }
      { exact A1. }
      { rewrite (U1 x Xout), (UL x (or_introl eq_refl)). exact Xrow. }
      set (r := rollback_branch cfg None u1 x) in *.
      exists (r_db r), (s1 ++ [r_out r]). split; [reflexivity|].
      split; [apply Forall_app; split; [assumption | constructor; [now rewrite E1 | constructor]]|].
      split; [exact A2|]. split; [|split].
      * intros tn k NS. rewrite (O2 _ _ NS). apply O1, NS.
      * intros y [<-|Hy]; [exact N2|].
        assert (Hn : y <> x) by (intro E; subst y; contradiction).
        unfold no_normal. rewrite (U2 y Hn). apply N1, Hy.
      * intros y Hy.
        assert (Hn : y <> x) by (intro E; subst y; apply Hy; now left).
        rewrite (U2 y Hn). apply U1. intro Hin. apply Hy. now right.
    + subst bs. apply phase1_branch_failed in PB. subst dA.
      exists u1, s1. repeat split; auto.
  - (* committed foreign writes between two branches: they touch nothing of S *)
    set (dA := with_tabs d0 (apply_foreign ws (d_tabs d0))) in *.
    destruct (IH b dA d1 bs) with (S := S) (u := u) as [u1 [s1 [R1 [F1 [A1 [O1 [N1 U1]]]]]]]; auto.
    { cbn. now apply apply_foreign_wf. }
    { intros w Hw. apply FS. cbn. apply in_or_app. now right. }
    exists u1, s1. repeat split; auto.
    intros tn k HS. rewrite (A1 _ _ HS). cbn.
    apply lookup_apply_foreign_other. intros w Hw E.
    apply (FS w); [cbn; apply in_or_app; now left|].
    inversion E as [[E1 E2]]. rewrite E1, E2. exact HS.
Qed.

Lemma phase1i_frame cfg xid prog : forall b d0 d1 bs,
  (forall b', (b <= b')%N -> ulookup (xid, b') (d_undo d0) = None) ->
  phase1i cfg xid b prog d0 = (d1, bs) ->
  forall tn k, (forall x, In x bs -> ~ branch_touched d1 x tn k) ->
  lookup k (db_get tn (d_tabs d1)) = lookup k (db_get tn (apply_foreign (foreign_of prog) (d_tabs d0))).
Proof.
  induction prog as [|[ss|ws] prog IH]; intros b d0 d1 bs Fr H tn k NT; cbn in H.
  - inversion H; subst. reflexivity.
  - destruct (phase1_branch cfg (xid, b) ss d0) as [dA ok] eqn:PB.
    destruct (phase1i cfg xid (N.succ b) prog dA) as [d2 bs'] eqn:P.
    inversion H; subst d2; clear H.
    assert (FrA : forall b', (N.succ b <= b')%N -> ulookup (xid, b') (d_undo dA) = None).
    { intros b' Hb. rewrite (phase1_branch_other _ _ _ _ _ _ (xid, b') PB).
      - apply Fr. lia.
      - intro E. inversion E. lia. }
    rewrite (IH _ _ _ _ FrA P tn k).
    2:{ intros x Hx. apply NT. subst bs. destruct ok; [now right | assumption]. }
    cbn [foreign_of]. apply lookup_apply_foreign_cong.
    destruct ok.
    + eapply phase1_branch_frame; [apply (Fr b (N.le_refl b)) | eassumption |].
      assert (Xrow : ulookup (xid, b) (d_undo d1) = ulookup (xid, b) (d_undo dA)).
      { apply (phase1i_other _ _ _ _ _ _ _ P (xid, b)). right. cbn. lia. }
      intro T. apply (NT (xid, b)); [subst bs; now left|].
      unfold branch_touched in *. now rewrite Xrow.
    + apply phase1_branch_failed in PB. now subst dA.
  - rewrite (IH b (with_tabs d0 (apply_foreign ws (d_tabs d0))) d1 bs Fr H tn k NT).
    cbn [foreign_of d_tabs with_tabs]. now rewrite apply_foreign_app.
Qed.

(* C01 with foreign commits during phase one (between the branches) and before phase two *)
Theorem restores_interleaved cfg xid b prog d0 d1 bs ws (L : list (tablename * key)) :
  db_wf (d_tabs d0) ->
  (forall b', (b <= b')%N -> ulookup (xid, b') (d_undo d0) = None) ->
  phase1i cfg xid b prog d0 = (d1, bs) ->
  (forall x, In x bs -> forall tn k, branch_touched d1 x tn k -> In (tn, k) L) ->
  (forall w, In w (foreign_of prog ++ ws) -> ~ In (fwrite_tn w, fwrite_key w) L) ->
  exists d2 sts,
    rollback_all cfg (rev bs) (with_tabs d1 (apply_foreign ws (d_tabs d1))) = (d2, sts) /\
    Forall (eq status_ok) sts /\
    db_equiv (d_tabs d2) (apply_foreign (foreign_of prog ++ ws) (d_tabs d0)) /\
    forall x, In x bs -> no_normal x d2.
Proof.
  intros W Fr P Cov Frn.
  assert (NotL : forall tn k, In (tn, k) L -> forall w, In w (foreign_of prog ++ ws) -> (fwrite_tn w, fwrite_key w) <> (tn, k)).
  { intros tn k HL w Hw E. apply (Frn w Hw). now rewrite E. }
  destruct (phase1i_rollback cfg xid prog b d0 d1 bs W Fr P (inS L)
              (with_tabs d1 (apply_foreign ws (d_tabs d1)))) as [d2 [sts [R [F [A [O [N _]]]]]]].
  - exact Cov.
  - intros w Hw. apply Frn. apply in_or_app. now left.
  - intros tn k HS. cbn. apply lookup_apply_foreign_other. intros w Hw. apply (NotL _ _ HS). apply in_or_app. now right.
  - intros x Hx. reflexivity.
  - exists d2, sts. split; [exact R|]. split; [exact F|]. split; [|exact N].
    intros tn k. destruct (in_dec tnk_eq_dec (tn, k) L) as [HL|HL].
    + rewrite (A _ _ HL). symmetry. apply lookup_apply_foreign_other. now apply NotL.
    + rewrite (O _ _ HL). cbn. rewrite apply_foreign_app. apply lookup_apply_foreign_cong.
      eapply phase1i_frame; [exact Fr | exact P|].
      intros x Hx T. apply HL. eapply Cov; eassumption.
Qed.

(* a query of the rollback whose result set breaks off counts as a failed call: the validation read
   checks rows.Err() after its loop (regenerated from executor.go queryCurrentRecords) *)
Lemma read_errors_checked : exec_read_errors_checked = true.
Proof. reflexivity. Qed.
