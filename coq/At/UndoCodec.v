(* C08 — model of the undo-log encoding: ColumnImage.MarshalJSON/UnmarshalJSON
   (pkg/datasource/sql/types/image.go) over the JDBC-type table regenerated from the
   source, the json and protobuf serializers (undo/parser), the context codec
   (pkg/util/collection), compressor selection and the flush / read-back
   composition of undo/base/undo.go.  Definitions only. *)
From Coq Require Import List NArith ZArith Bool String.
From SeataV Require Import Base.Bytes At.Values.
Import ListNotations.
Open Scope Z_scope.

(* ---------------------------------------------------------------- results *)
Inductive res (A : Type) := Ok (a : A) | Err | Panic.
Arguments Ok {A} a. Arguments Err {A}. Arguments Panic {A}.
Definition rbind {A B} (r : res A) (f : A -> res B) : res B :=
  match r with Ok a => f a | Err => Err | Panic => Panic end.
Fixpoint mapM {A B} (f : A -> res B) (l : list A) : res (list B) :=
  match l with
  | [] => Ok []
  | x :: r => rbind (f x) (fun y => rbind (mapM f r) (fun ys => Ok (y :: ys)))
  end.
Fixpoint mapO {A B} (f : A -> option B) (l : list A) : option (list B) :=
  match l with
  | [] => Some []
  | x :: r => match f x, mapO f r with Some y, Some ys => Some (y :: ys) | _, _ => None end
  end.

(* ---------------------------------------------------------------- JSON documents
   A number is what json.Number exposes: the results of strconv.ParseInt(lit,10,64)
   and strconv.ParseFloat(lit,64) (None = error). *)
Record jnum := mkNum { n_int : option Z; n_flt : option N }.
Inductive json :=
| JNull | JBool (b : bool) | JNum (n : jnum) | JStr (s : bytes)
| JArr (l : list json) | JObj (l : list (bytes * json)).

Definition opt_eqb {A} (e : A -> A -> bool) (a b : option A) : bool :=
  match a, b with Some x, Some y => e x y | None, None => true | _, _ => false end.
Definition jnum_eqb (a b : jnum) : bool :=
  opt_eqb Z.eqb (n_int a) (n_int b) && opt_eqb N.eqb (n_flt a) (n_flt b).

Fixpoint json_eqb (a b : json) : bool :=
  match a, b with
  | JNull, JNull => true
  | JBool x, JBool y => Bool.eqb x y
  | JNum x, JNum y => jnum_eqb x y
  | JStr x, JStr y => bytes_eqb x y
  | JArr l, JArr l' =>
      (fix go (l l' : list json) : bool :=
         match l, l' with
         | [], [] => true
         | x :: r, y :: r' => json_eqb x y && go r r'
         | _, _ => false
         end) l l'
  | JObj l, JObj l' =>
      (fix go (l l' : list (bytes * json)) : bool :=
         match l, l' with
         | [], [] => true
         | (k, x) :: r, (k', y) :: r' => bytes_eqb k k' && json_eqb x y && go r r'
         | _, _ => false
         end) l l'
  | _, _ => false
  end.

(* every string of the document is valid UTF-8: the domain on which encoding/json's
   text layer is the identity (invalid bytes become U+FFFD) *)
Fixpoint json_clean (j : json) : bool :=
  match j with
  | JStr s => valid_utf8 s
  | JArr l => forallb json_clean l
  | JObj l => forallb (fun kv => let '(k, v) := kv in valid_utf8 k && json_clean v) l
  | _ => true
  end.

(* a Go map filled from a JSON object: the last occurrence of a key wins *)
Fixpoint jobj_get (k : bytes) (l : list (bytes * json)) : option json :=
  match l with
  | [] => None
  | (k', v) :: r =>
      match jobj_get k r with
      | Some x => Some x
      | None => if bytes_eqb k k' then Some v else None
      end
  end.

Definition bs (s : string) : bytes := bytes_of_string s.
Definition k_keyType := Eval vm_compute in bs "keyType".
Definition k_name := Eval vm_compute in bs "name".
Definition k_type := Eval vm_compute in bs "type".
Definition k_value := Eval vm_compute in bs "value".
Definition k_fields := Eval vm_compute in bs "fields".
Definition k_tableName := Eval vm_compute in bs "tableName".
Definition k_sqlType := Eval vm_compute in bs "sqlType".
Definition k_rows := Eval vm_compute in bs "rows".
Definition k_beforeImage := Eval vm_compute in bs "beforeImage".
Definition k_afterImage := Eval vm_compute in bs "afterImage".
Definition k_xid := Eval vm_compute in bs "xid".
Definition k_branchId := Eval vm_compute in bs "branchId".
Definition k_sqlUndoLogs := Eval vm_compute in bs "sqlUndoLogs".
Definition s_PRIMARY_KEY := Eval vm_compute in bs "PRIMARY_KEY".
Definition s_NULL := Eval vm_compute in bs "NULL".
Definition s_INVALID := Eval vm_compute in bs "INVALID_SQLTYPE".
Definition s_json := Eval vm_compute in bs "json".
Definition s_protobuf := Eval vm_compute in bs "protobuf".
Definition s_None := Eval vm_compute in bs "None".
Definition k_serializer := Eval vm_compute in bs "serializerKey".
Definition k_compressor := Eval vm_compute in bs "compressorTypeKey".

(* ---------------------------------------------------------------- the table regenerated from the source
   (tools/xlate undo -> Gen/UndoSwitch.v) *)
Inductive group :=
| GrFloat                 (* json.Number -> Float64() *)
| GrInt (w : width)       (* integer literal -> intN when it fits, int64 otherwise *)
| GrTime                  (* string -> time.Parse(RFC3339Nano) *)
| GrChar                  (* string -> base64 decoded (raw on failure) -> string *)
| GrUnknown (src : string).  (* a case body the translator does not recognise *)

Record gotable := mkTable {
  tb_cases : list (Z * group);        (* decodeColumnValue: JDBC code -> case *)
  tb_generic : bool;                  (* nil head, generic tail and decodeInteger are the recognised ones *)
  tb_str_b64 : bool;                  (* MarshalJSON: `case string: value = []byte(v)` present *)
  tb_time_rfc : bool;                 (* MarshalJSON: `case time.Time: value = v.Format(time.RFC3339Nano)` *)
  tb_use_number : bool;               (* UnmarshalJSON decodes with UseNumber *)
  tb_sql_text : list (Z * bytes);     (* SQLType.MarshalText *)
  tb_sql_parse : list (bytes * Z);    (* SQLType.UnmarshalText *)
  tb_compress : list (bytes * string) (* CompressorType.GetCompressor: spelling -> compressor struct *)
}.

Fixpoint lookupZ {A} (k : Z) (l : list (Z * A)) : option A :=
  match l with [] => None | (k', v) :: r => if k =? k' then Some v else lookupZ k r end.
Fixpoint lookupB {A} (k : bytes) (l : list (bytes * A)) : option A :=
  match l with [] => None | (k', v) :: r => if bytes_eqb k k' then Some v else lookupB k r end.

(* ---------------------------------------------------------------- the log *)
Record col := mkCol { c_pk : bool; c_name : bytes; c_type : Z; c_val : gval }.
Record image := mkImage { i_table : bytes; i_sqltype : Z; i_rows : list (list col) }.
Record item := mkItem { l_sqltype : Z; l_table : bytes; l_before : option image; l_after : option image }.
Record ulog := mkLog { u_xid : bytes; u_branch : Z; u_items : list item }.

(* ---------------------------------------------------------------- writer: ColumnImage.MarshalJSON *)
Definition in_int64 (z : Z) : bool := fits W64 z.
Definition num_of_int (z : Z) : jnum :=
  mkNum (if in_int64 z then Some z else None) (Some (f64_of_Z z)).
Definition num_of_f64 (b : N) : jnum :=
  (* encoding/json prints the shortest digits that round-trip: the literal is the exact integer
     only up to 2^53 (beyond, ParseInt of the zero-padded digits is some other integer or fails) *)
  mkNum (match f64_to_Z b with
         | Some z => if Z.abs z <=? 9007199254740992 then Some z else None
         | None => None
         end) (Some b).

Section WithTable.
Variable T : gotable.
(* the text layer of time.Time (Format / Parse with RFC3339Nano) *)
Variable fmt_time : tm -> bytes.
Variable parse_time : bytes -> option tm.

Definition marshal_value (v : gval) : option json :=
  match v with
  | GNil => Some JNull
  | GInt _ z => Some (JNum (num_of_int z))
  | GF64 b => if f64_finite b then Some (JNum (num_of_f64 b)) else None
  | GStr s => Some (JStr (if tb_str_b64 T then b64_encode s else s))
  | GBytes b => Some (JStr (b64_encode b))
  | GTime t => if between 0 (t_year t) 9999 then Some (JStr (fmt_time t)) else None
  | GBool b => Some (JBool b)
  | GOpaque => None
  end.

Definition marshal_col (c : col) : option json :=
  match marshal_value (c_val c) with
  | Some v => Some (JObj [(k_keyType, JStr (if c_pk c then s_PRIMARY_KEY else s_NULL));
                          (k_name, JStr (c_name c));
                          (k_type, JNum (num_of_int (c_type c)));
                          (k_value, v)])
  | None => None
  end.

(* ---------------------------------------------------------------- reader: ColumnImage.UnmarshalJSON *)
Definition generic_value (j : json) : res gval :=
  match j with
  | JNull => Ok GNil
  | JStr s => match b64_decode s with Some b => Ok (GBytes b) | None => Ok (GStr s) end
  | JNum n => match n_int n with
              | Some z => Ok (GInt W64 z)
              | None => match n_flt n with Some b => Ok (GF64 b) | None => Err end
              end
  | JBool b => Ok (GBool b)
  | _ => Ok GOpaque
  end.

(* without UseNumber every JSON number reaches the switch as a float64 *)
Definition as_number (n : jnum) : jnum := if tb_use_number T then n else mkNum None (n_flt n).

Definition unmarshal_value (ty : Z) (j : json) : res gval :=
  match j with
  | JNull => Ok GNil
  | _ =>
    match lookupZ ty (tb_cases T), j with
    | Some GrFloat, JNum n => match n_flt n with Some b => Ok (GF64 b) | None => Err end
    | Some (GrInt w), JNum n =>
        match n_int (as_number n) with
        | Some z => Ok (GInt (if fits w z then w else W64) z)
        | None => generic_value (JNum (as_number n))
        end
    | Some GrTime, JStr s => match parse_time s with Some t => Ok (GTime t) | None => Err end
    | Some GrChar, JStr s => Ok (GStr (match b64_decode s with Some b => b | None => s end))
    | _, JNum n => generic_value (JNum (as_number n))
    | _, _ => generic_value j
    end
  end.

Definition unmarshal_col (j : json) : res col :=
  match j with
  | JObj l =>
      match jobj_get k_keyType l, jobj_get k_name l, jobj_get k_type l with
      | Some (JStr kt), Some (JStr nm), Some (JNum n) =>
          match n_int n with
          | Some ty =>
              if fits W16 ty then
                rbind (unmarshal_value ty (match jobj_get k_value l with Some v => v | None => JNull end))
                      (fun v => Ok (mkCol (bytes_eqb kt s_PRIMARY_KEY) nm ty v))
              else Err
          | None => Err
          end
      | _, _, _ => Err
      end
  | _ => Err
  end.

(* ---------------------------------------------------------------- json serializer: the struct layers *)
Definition sql_text (s : Z) : bytes :=
  match lookupZ s (tb_sql_text T) with Some t => t | None => s_INVALID end.
Definition sql_parse (t : bytes) : Z :=
  match lookupB t (tb_sql_parse T) with Some s => s | None => 0 end.

Definition marshal_row (r : list col) : option json :=
  match mapO marshal_col r with Some cs => Some (JObj [(k_fields, JArr cs)]) | None => None end.
Definition marshal_image (i : image) : option json :=
  match mapO marshal_row (i_rows i) with
  | Some rs => Some (JObj [(k_tableName, JStr (i_table i)); (k_sqlType, JStr (sql_text (i_sqltype i)));
                           (k_rows, JArr rs)])
  | None => None
  end.
Definition marshal_oimage (o : option image) : option json :=
  match o with None => Some JNull | Some i => marshal_image i end.
Definition marshal_item (it : item) : option json :=
  match marshal_oimage (l_before it), marshal_oimage (l_after it) with
  | Some b, Some a => Some (JObj [(k_sqlType, JStr (sql_text (l_sqltype it))); (k_tableName, JStr (l_table it));
                                  (k_beforeImage, b); (k_afterImage, a)])
  | _, _ => None
  end.
Definition marshal_log (u : ulog) : option json :=
  match mapO marshal_item (u_items u) with
  | Some its => Some (JObj [(k_xid, JStr (u_xid u)); (k_branchId, JNum (num_of_int (u_branch u)));
                            (k_sqlUndoLogs, JArr its)])
  | None => None
  end.

(* typed decoding of the struct layers: strict about shapes (an absent or null
   member is the zero value; any other shape is an error) *)
Definition get_str (k : bytes) (l : list (bytes * json)) : res bytes :=
  match jobj_get k l with None | Some JNull => Ok [] | Some (JStr s) => Ok s | _ => Err end.
Definition get_arr (k : bytes) (l : list (bytes * json)) : res (list json) :=
  match jobj_get k l with None | Some JNull => Ok [] | Some (JArr a) => Ok a | _ => Err end.

Definition unmarshal_row (j : json) : res (list col) :=
  match j with
  | JObj l => rbind (get_arr k_fields l) (mapM unmarshal_col)
  | _ => Err
  end.
Definition unmarshal_image (j : json) : res (option image) :=
  match j with
  | JNull => Ok None
  | JObj l =>
      rbind (get_str k_tableName l) (fun tn =>
      rbind (get_str k_sqlType l) (fun st =>
      rbind (get_arr k_rows l) (fun rs =>
      rbind (mapM unmarshal_row rs) (fun rows => Ok (Some (mkImage tn (sql_parse st) rows))))))
  | _ => Err
  end.
Definition unmarshal_item (j : json) : res item :=
  match j with
  | JObj l =>
      rbind (get_str k_sqlType l) (fun st =>
      rbind (get_str k_tableName l) (fun tn =>
      rbind (unmarshal_image (match jobj_get k_beforeImage l with Some x => x | None => JNull end)) (fun b =>
      rbind (unmarshal_image (match jobj_get k_afterImage l with Some x => x | None => JNull end)) (fun a =>
        Ok (mkItem (sql_parse st) tn b a)))))
  | _ => Err
  end.
Definition unmarshal_log (j : json) : res ulog :=
  match j with
  | JObj l =>
      rbind (get_str k_xid l) (fun xid =>
      rbind (match jobj_get k_branchId l with
             | None | Some JNull => Ok 0
             | Some (JNum n) => match n_int n with
                                | Some z => if (0 <=? z) then Ok z else Err
                                | None => Err
                                end
             | _ => Err
             end) (fun br =>
      rbind (get_arr k_sqlUndoLogs l) (fun its =>
      rbind (mapM unmarshal_item its) (fun items => Ok (mkLog xid br items)))))
  | JNull => Err   (* a nil *BranchUndoLog: refused by deserializeBranchUndoLog *)
  | _ => Err
  end.

(* ---------------------------------------------------------------- protobuf serializer
   every column value travels as JSON text inside an Any(BytesValue): written by
   json.Marshal of the bare Go value, read by json.Unmarshal into interface{};
   a value that fails either way drops its column *)
Definition pb_marshal_value (v : gval) : option json :=
  match v with
  | GNil => Some JNull
  | GInt _ z => Some (JNum (num_of_int z))
  | GF64 b => if f64_finite b then Some (JNum (num_of_f64 b)) else None
  | GStr s => Some (JStr (utf8_sanitize s))
  | GBytes b => Some (JStr (b64_encode b))
  | GTime t => if between 0 (t_year t) 9999 then Some (JStr (fmt_time t)) else None
  | GBool b => Some (JBool b)
  | GOpaque => None
  end.
Definition pb_unmarshal_value (j : json) : option gval :=
  match j with
  | JNull => Some GNil
  | JBool b => Some (GBool b)
  | JNum n => match n_flt n with Some b => Some (GF64 b) | None => None end
  | JStr s => Some (GStr s)
  | _ => Some GOpaque
  end.
End WithTable.

(* the protobuf message: the log with every value replaced by its JSON text *)
Record pcol := mkPcol { p_pk : bool; p_name : bytes; p_type : Z; p_val : bytes }.
Record pimage := mkPimage { pi_table : bytes; pi_sqltype : Z; pi_rows : list (list pcol) }.
Record pitem := mkPitem { pl_sqltype : Z; pl_table : bytes; pl_before : option pimage; pl_after : option pimage }.
Record plog := mkPlog { pu_xid : bytes; pu_branch : Z; pu_items : list pitem }.

(* ---------------------------------------------------------------- context codec: collection.EncodeMap / DecodeMap *)
Definition c_amp : byte := Byte.x26.
Definition c_eq : byte := Byte.x3d.

Fixpoint encode_ctx (m : list (bytes * bytes)) : bytes :=
  match m with
  | [] => []
  | [(k, v)] => k ++ [c_eq] ++ v
  | (k, v) :: r => k ++ [c_eq] ++ v ++ [c_amp] ++ encode_ctx r
  end.

(* strings.Split on a one-byte separator *)
Fixpoint split_on (sep : byte) (l : bytes) : list bytes :=
  match l with
  | [] => [[]]
  | c :: r =>
      if byte_eqb c sep then [] :: split_on sep r
      else match split_on sep r with
           | h :: t => (c :: h) :: t
           | [] => [[c]]
           end
  end.

Definition decode_pair (p : bytes) : option (bytes * bytes) :=
  match p with
  | [] => None
  | _ => match split_on c_eq p with [k; v] => Some (k, v) | _ => None end
  end.
Fixpoint filter_map {A B} (f : A -> option B) (l : list A) : list B :=
  match l with
  | [] => []
  | x :: r => match f x with Some y => y :: filter_map f r | None => filter_map f r end
  end.
(* the pairs in text order; a Go map keeps the last value of a key *)
Definition decode_ctx (data : bytes) : list (bytes * bytes) :=
  match data with [] => [] | _ => filter_map decode_pair (split_on c_amp data) end.
Fixpoint ctx_get (k : bytes) (m : list (bytes * bytes)) : option bytes :=
  match m with
  | [] => None
  | (k', v) :: r => match ctx_get k r with
                    | Some x => Some x
                    | None => if bytes_eqb k k' then Some v else None
                    end
  end.
Definition clean_text (s : bytes) : bool :=
  forallb (fun c => negb (byte_eqb c c_amp) && negb (byte_eqb c c_eq)) s.

(* ---------------------------------------------------------------- compressor selection *)
Inductive ckind := CNone | CGzip | CZip | CBzip2 | CLz4 | CZstd | CDeflate.
Definition ckind_eqb (a b : ckind) : bool :=
  match a, b with
  | CNone, CNone | CGzip, CGzip | CZip, CZip | CBzip2, CBzip2 | CLz4, CLz4 | CZstd, CZstd | CDeflate, CDeflate => true
  | _, _ => false
  end.
Definition ckind_of_struct (s : string) : ckind :=
  if String.eqb s "Gzip" then CGzip else if String.eqb s "Zip" then CZip
  else if String.eqb s "Bzip2" then CBzip2 else if String.eqb s "Lz4" then CLz4
  else if String.eqb s "Zstd" then CZstd else if String.eqb s "DeflateCompress" then CDeflate
  else CNone.
(* CompressorType(v).GetCompressor(): exact spelling, anything else is the None compressor *)
Definition select (T : gotable) (v : bytes) : ckind :=
  match lookupB v (tb_compress T) with Some s => ckind_of_struct s | None => CNone end.

(* ---------------------------------------------------------------- configuration and composition *)
Record cfg := mkCfg { cf_ser : bytes; cf_enable : bool; cf_ctype : bytes; cf_threshold : bytes }.

Inductive payload := PJson (t : json) | PPb (p : plog).

Section Compose.
Variable T : gotable.
Variable fmt_time : tm -> bytes.
Variable parse_time : bytes -> option tm.
(* external: the third-party compressors, the text layer of encoding/json, the protobuf wire format *)
Variable compress : ckind -> bytes -> bytes.
Variable decompress : ckind -> bytes -> option bytes.
Variable json_print : json -> bytes.
Variable json_parse : bytes -> option json.
Variable pb_print : plog -> bytes.
Variable pb_parse : bytes -> option plog.

Definition compress_by (k : ckind) (x : bytes) : bytes :=
  match k with CNone => x | _ => compress k x end.
Definition decompress_by (k : ckind) (x : bytes) : option bytes :=
  match k with CNone => Some x | _ => decompress k x end.

(* protobuf conversion (ConvertToProto / ConvertToIntree) *)
Definition to_pcol (c : col) : option pcol :=
  match pb_marshal_value fmt_time (c_val c) with
  | Some j => Some (mkPcol (c_pk c) (c_name c) (c_type c) (json_print j))
  | None => None     (* json.Marshal failed: bytes are empty, the reader drops the column *)
  end.
Definition to_pimage (i : image) : pimage :=
  mkPimage (i_table i) (i_sqltype i) (map (filter_map to_pcol) (i_rows i)).
Definition to_plog (u : ulog) : plog :=
  mkPlog (u_xid u) (u_branch u)
         (map (fun it => mkPitem (l_sqltype it) (l_table it) (option_map to_pimage (l_before it))
                                 (option_map to_pimage (l_after it))) (u_items u)).
Definition of_pcol (p : pcol) : option col :=
  match json_parse (p_val p) with
  | Some j => match pb_unmarshal_value j with
              | Some v => Some (mkCol (p_pk p) (p_name p) (p_type p) v)
              | None => None
              end
  | None => None
  end.
Definition of_pimage (i : pimage) : image :=
  mkImage (pi_table i) (pi_sqltype i) (map (filter_map of_pcol) (pi_rows i)).
Definition of_plog (p : plog) : ulog :=
  mkLog (pu_xid p) (pu_branch p)
        (map (fun it => mkItem (pl_sqltype it) (pl_table it) (option_map of_pimage (pl_before it))
                               (option_map of_pimage (pl_after it))) (pu_items p)).

(* FlushUndoLog: serialize, compress as configured, declare it in the context *)
Definition serialize (ser : bytes) (u : ulog) : option bytes :=
  if bytes_eqb ser s_json then option_map json_print (marshal_log T fmt_time u)
  else if bytes_eqb ser s_protobuf then Some (pb_print (to_plog u))
  else None.
Definition declared (c : cfg) : bytes := if cf_enable c then cf_ctype c else s_None.
Definition flush (c : cfg) (u : ulog) : option (bytes * bytes) :=
  match serialize (cf_ser c) u with
  | Some info =>
      Some (encode_ctx [(k_serializer, cf_ser c); (k_compressor, declared c)],
            if cf_enable c then compress_by (select T (cf_ctype c)) info else info)
  | None => None
  end.

(* Undo: decode the context, decompress by it, deserialize by it *)
Definition read_back (ctx info : bytes) : res ulog :=
  match ctx with
  | [] => Err
  | _ =>
    let m := decode_ctx ctx in
    match (match ctx_get k_compressor m with
           | Some v => decompress_by (select T v) info
           | None => Some info
           end) with
    | None => Err
    | Some plain =>
        let ser := match ctx_get k_serializer m with Some s => s | None => [] end in
        if bytes_eqb ser s_json then
          match json_parse plain with Some t => unmarshal_log T parse_time t | None => Err end
        else if bytes_eqb ser s_protobuf then
          match pb_parse plain with Some p => Ok (of_plog p) | None => Err end
        else Err
    end
  end.
(* Undo under the configuration in force at rollback time (after a restart, on another instance): the
   reader's configuration is not an input of the decoding, only the two stored columns are *)
Definition undo_read (reader : cfg) (ctx info : bytes) : res ulog := read_back ctx info.
End Compose.

(* ---------------------------------------------------------------- equivalence of logs *)
Fixpoint all2 {A} (f : A -> A -> bool) (a b : list A) : bool :=
  match a, b with
  | [], [] => true
  | x :: r, y :: r' => f x y && all2 f r r'
  | _, _ => false
  end.
Definition col_equiv (veq : gval -> gval -> bool) (a b : col) : bool :=
  Bool.eqb (c_pk a) (c_pk b) && bytes_eqb (c_name a) (c_name b) && (c_type a =? c_type b)
  && veq (c_val a) (c_val b).
Definition image_equiv veq (a b : image) : bool :=
  bytes_eqb (i_table a) (i_table b) && (i_sqltype a =? i_sqltype b)
  && all2 (all2 (col_equiv veq)) (i_rows a) (i_rows b).
Definition item_equiv veq (a b : item) : bool :=
  (l_sqltype a =? l_sqltype b) && bytes_eqb (l_table a) (l_table b)
  && opt_eqb (image_equiv veq) (l_before a) (l_before b)
  && opt_eqb (image_equiv veq) (l_after a) (l_after b).
(* rows, key flags, column names and types equal; values related by veq *)
Definition log_equiv veq (a b : ulog) : bool :=
  bytes_eqb (u_xid a) (u_xid b) && (u_branch a =? u_branch b) && all2 (item_equiv veq) (u_items a) (u_items b).

(* ---------------------------------------------------------------- the domain of the theorems *)
(* (JDBC code, Go kind) pairs the image builder can emit: MySQLStrToJavaType of the
   column's DATA_TYPE x the scan target GetScanSlice picks for it *)
Definition emit_pairs : list (Z * kind) :=
  [(-7, KInt); (-6, KInt); (5, KInt); (4, KInt); (-5, KInt); (91, KInt) (* YEAR *);
   (3, KFloat); (8, KFloat); (7, KFloat);
   (91, KTime); (92, KTime); (93, KTime);
   (12, KStr); (1, KStr); (-1, KStr);
   (-1, KBytes); (1, KBytes); (-2, KBytes); (-3, KBytes); (-4, KBytes); (1111, KBytes)].
Definition emitted_sqltypes : list Z := [1; 2; 3; 102].  (* INSERT UPDATE DELETE INSERT_ON_UPDATE *)

Definition val_wf (v : gval) : bool :=
  match v with
  | GNil => true
  | GInt w z => width_eqb w W64 && in_int64 z
  | GF64 b => f64_finite b
  | GStr _ | GBytes _ => true
  | GTime t => tm_wf t
  | _ => false
  end.
Definition col_ok (c : col) : bool :=
  valid_utf8 (c_name c) && val_wf (c_val c) && fits W16 (c_type c)
  && (kind_eqb (kind_of (c_val c)) KNil
      || existsb (fun p => (fst p =? c_type c) && kind_eqb (snd p) (kind_of (c_val c))) emit_pairs).
Definition image_ok (i : image) : bool :=
  valid_utf8 (i_table i) && existsb (Z.eqb (i_sqltype i)) emitted_sqltypes && forallb (forallb col_ok) (i_rows i).
Definition oimage_ok (o : option image) : bool := match o with Some i => image_ok i | None => true end.
Definition item_ok (it : item) : bool :=
  existsb (Z.eqb (l_sqltype it)) emitted_sqltypes && valid_utf8 (l_table it)
  && oimage_ok (l_before it) && oimage_ok (l_after it).
Definition log_ok (u : ulog) : bool :=
  valid_utf8 (u_xid u) && (0 <=? u_branch u) && (u_branch u <=? 9223372036854775807)
  && forallb item_ok (u_items u).
(* the value shapes the protobuf serializer preserves (every value travels as generic JSON and comes
   back as nil / float64 / string / bool): nil, finite float64, valid UTF-8 strings, and exactly those
   integers whose float64 image denotes the same integer (|z| <= 2^53 and the representable ones beyond) *)
Definition pb_val_ok (v : gval) : bool :=
  match v with
  | GNil => true
  | GF64 b => f64_finite b
  | GStr s => valid_utf8 s
  | GInt w z => in_int64 z && executor_eq (GInt w z) (GF64 (f64_of_Z z))
  | _ => false
  end.
Definition log_all_vals (p : gval -> bool) (u : ulog) : bool :=
  forallb (fun it => let oi o := match o with
                                 | Some i => forallb (forallb (fun c => p (c_val c))) (i_rows i)
                                 | None => true end in
                     oi (l_before it) && oi (l_after it)) (u_items u).

Definition pcol_ok (c : col) : bool := valid_utf8 (c_name c) && pb_val_ok (c_val c).
Definition pimage_ok (o : option image) : bool :=
  match o with Some i => valid_utf8 (i_table i) && forallb (forallb pcol_ok) (i_rows i) | None => true end.
Definition log_pb_ok (u : ulog) : bool :=
  valid_utf8 (u_xid u)
  && forallb (fun it => valid_utf8 (l_table it) && pimage_ok (l_before it) && pimage_ok (l_after it)) (u_items u).
(* the strings of a protobuf message are valid UTF-8 (proto3 refuses anything else) *)
Definition plog_clean (p : plog) : bool :=
  let oi o := match o with
              | Some i => valid_utf8 (pi_table i) && forallb (forallb (fun c => valid_utf8 (p_name c))) (pi_rows i)
              | None => true end in
  valid_utf8 (pu_xid p) && forallb (fun it => valid_utf8 (pl_table it) && oi (pl_before it) && oi (pl_after it)) (pu_items p).

(* well-formedness of a regenerated table: what the proofs need of it *)
Definition adequate (k : kind) (g : option group) : bool :=
  match k, g with
  | KNil, _ => true
  | _, Some (GrUnknown _) => false
  | KInt, Some GrFloat => false
  | KInt, _ => true
  | KFloat, Some GrFloat => true
  | KFloat, _ => false
  | KStr, Some GrTime | KBytes, Some GrTime => false
  | KStr, _ | KBytes, _ => true
  | KTime, Some GrTime => true
  | KTime, _ => false
  | KOther, _ => false
  end.
Definition no_unknown (T : gotable) : bool :=
  forallb (fun p => match snd p with GrUnknown _ => false | _ => true end) (tb_cases T).
Definition wf_table (T : gotable) : bool :=
  tb_generic T && tb_str_b64 T && tb_use_number T && no_unknown T
  && forallb (fun p => adequate (snd p) (lookupZ (fst p) (tb_cases T))) emit_pairs
  && forallb (fun s => sql_parse T (sql_text T s) =? s) emitted_sqltypes
  && forallb (fun s => valid_utf8 (sql_text T s)) emitted_sqltypes
  && ckind_eqb (select T s_None) CNone.
