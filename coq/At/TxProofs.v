(* Theorems about the transaction / lock layer of Tx.v, over ALL schedules
   (operation lists tagged with connection ids).  `Theorem` = listed in
   docs/STMT.md, `Lemma` = auxiliary. *)
From Coq Require Import List NArith ZArith Lia Bool Permutation Sorted.
From SeataV Require Import Base.Bytes At.Db At.DbProofs At.Stmt At.StmtProofs At.Tx.
Import ListNotations.
Local Open Scope Z_scope.

(* ================================================================ statements and locks *)
Lemma free_prefix_free bl ks k : In k (free_prefix bl ks) -> bl k = false.
Proof.
  induction ks as [|k0 ks IH]; cbn; [tauto|].
  destruct (bl k0) eqn:B; cbn; [tauto|]. intros [<-|I]; auto.
Qed.

Lemma existsb_false_all bl (ks : list key) k : existsb bl ks = false -> In k ks -> bl k = false.
Proof.
  intros E I. destruct (bl k) eqn:B; auto.
  assert (existsb bl ks = true) by (apply existsb_exists; eauto). congruence.
Qed.

Definition locks_free (bl : blocker) (l : list key) : Prop := forall k, In k l -> bl k = false.

Lemma locks_free_app bl a b : locks_free bl a -> locks_free bl b -> locks_free bl (a ++ b).
Proof. intros A B k I. apply in_app_or in I. destruct I; auto. Qed.

Lemma locks_free_prefix bl ks : locks_free bl (free_prefix bl ks).
Proof. intros k I. eapply free_prefix_free; eauto. Qed.

Lemma locks_free_all bl ks : existsb bl ks = false -> locks_free bl ks.
Proof. intros E k I. eapply existsb_false_all; eauto. Qed.

Lemma update_row_locks bl sch en sets inc s kr :
  locks_free bl (w_locks s) ->
  match update_row bl sch en sets inc s kr with
  | WOk s' => locks_free bl (w_locks s')
  | WFail _ l _ => locks_free bl l
  end.
Proof.
  intro F. unfold update_row. destruct kr as [k old].
  destruct (apply_sets en sets old) as [vals|]; auto.
  destruct (row_eqb vals old); auto.
  destruct (existsb bl (row_locks sch vals)) eqn:B.
  - apply locks_free_app; auto. apply locks_free_prefix.
  - pose proof (locks_free_app _ _ _ F (locks_free_all _ _ B)) as F'.
    destruct (_ || _); cbn; auto.
Qed.

Lemma insert_row_locks bl sch en mode idx ondup s es :
  locks_free bl (w_locks s) ->
  match insert_row bl sch en mode idx ondup s es with
  | WOk s' => locks_free bl (w_locks s')
  | WFail _ l _ => locks_free bl l
  end.
Proof.
  intro F. unfold insert_row.
  destruct (do g <- given_values en (s_cols sch) idx es (map (fun _ => None) (s_cols sch));
            fill_defaults (s_cols sch) g) as [vals0|]; auto.
  destruct (gen_auto (s_cols sch) vals0 (w_auto s) (w_last s)) as [[vals1 auto1] last1].
  destruct (store_all (s_cols sch) vals1 auto1) as [auto2 [vals|]]; auto.
  destruct (existsb bl (row_locks sch vals)) eqn:B.
  - apply locks_free_app; auto. apply locks_free_prefix.
  - pose proof (locks_free_app _ _ _ F (locks_free_all _ _ B)) as F'.
    fold (in_the_way sch vals (w_t s)).
    destruct (in_the_way sch vals (w_t s)) as [|[ko old] more]; [cbn; auto|].
    destruct ondup as [|x ondup].
    + destruct mode; cbn [w_locks]; auto.
      destruct (existsb bl (keys ((ko, old) :: more))) eqn:B2.
      * apply locks_free_app; auto. apply locks_free_prefix.
      * cbn [w_locks]. apply locks_free_app; auto. now apply locks_free_all.
    + destruct (bl ko) eqn:B3; auto.
      apply update_row_locks. cbn [w_locks]. apply locks_free_app; auto.
      intros k0 [<-|[]]; auto.
Qed.

Lemma wfold_locks {A} bl (f : wstate -> A -> wres) l :
  (forall s x, locks_free bl (w_locks s) ->
     match f s x with WOk s' => locks_free bl (w_locks s') | WFail _ l _ => locks_free bl l end) ->
  forall s, locks_free bl (w_locks s) ->
     match wfold f l s with WOk s' => locks_free bl (w_locks s') | WFail _ l _ => locks_free bl l end.
Proof.
  intro Hf. induction l as [|x l IH]; cbn [wfold]; intros s F; auto.
  specialize (Hf s x F). destruct (f s x) as [s1|]; auto. now apply IH.
Qed.

(* a statement only ever gets locks nobody else holds *)
Theorem statement_locks_are_free bl sch st s args k :
  In k (r_locks (exec_l bl sch st s args)) -> bl k = false.
Proof.
  destruct s as [f w o lim fu|mode names rows ondup|sets w o lim|w o lim]; cbn.
  - unfold exec_select_l. destruct (fu && select_static_ok sch f w o); cbn; [|tauto].
    destruct (select_rows (mk_env sch args) w o lim (ts_rows st)) as [sel|]; cbn; [|tauto].
    destruct (existsb bl (keys sel)) eqn:E; cbn.
    + apply free_prefix_free.
    + now apply existsb_false_all.
  - unfold exec_insert.
    destruct (match names with Some ns => resolve_cols (s_cols sch) ns [] | None => Ok _ end) as [idx|];
      cbn; [|tauto].
    destruct (negb (arity_ok _ _ rows)); cbn; [tauto|].
    destruct (negb _); cbn; [tauto|].
    match goal with |- context [wfold ?f ?l ?s0] =>
      pose proof (wfold_locks bl f l (fun s x => insert_row_locks bl sch _ mode idx ondup s x) s0) as W;
      destruct (wfold f l s0) as [s1|] end; cbn in *; intro I; apply W; auto; intros ? [].
  - unfold exec_update. destruct (negb _); cbn; [tauto|].
    destruct (select_rows (mk_env sch args) w o lim (ts_rows st)) as [sel|]; cbn; [|tauto].
    destruct (existsb bl (keys sel)) eqn:E; cbn; [apply free_prefix_free|].
    match goal with |- context [wfold ?f ?l ?s0] =>
      pose proof (wfold_locks bl f l (fun s x => update_row_locks bl sch _ sets 1 s x) s0) as W;
      destruct (wfold f l s0) as [s1|] end; cbn in *; intro I; apply W; auto;
      intros k0 I0; now apply (existsb_false_all bl (keys sel)).
  - unfold exec_delete. destruct (negb _); cbn; [tauto|].
    destruct (select_rows (mk_env sch args) w o lim (ts_rows st)) as [sel|]; cbn; [|tauto].
    destruct (existsb bl (keys sel)) eqn:E; cbn; [apply free_prefix_free|].
    now apply existsb_false_all.
Qed.

(* every binding a statement changes is under a lock it took *)
Definition changes_locked (t0 : tbl) (s : wstate) : Prop :=
  forall k, lookup k (w_t s) <> lookup k t0 -> In k (w_locks s).

Lemma put_remove_changes k k' v t key :
  lookup k' (remove k t) = None ->
  lookup key (put k' v (remove k t)) <> lookup key t -> key = k \/ key = k'.
Proof.
  intros L H. rewrite lookup_put in H by auto.
  keq key k'; auto. keq key k; auto.
  exfalso. apply H. apply lookup_remove_neq; congruence.
Qed.

Lemma update_row_changes bl sch en sets inc t0 s k old s' :
  In k (w_locks s) -> changes_locked t0 s ->
  update_row bl sch en sets inc s (k, old) = WOk s' -> changes_locked t0 s'.
Proof.
  intros Ik C H. apply update_row_ok in H. destruct H as [->|[vals [_ [_ [_ [D [_ ->]]]]]]]; auto.
  intros key N. cbn in N. cbn [w_locks]. apply in_or_app.
  destruct (key_eq_dec key k) as [->|NK]; [now left|].
  destruct (key_eq_dec key (key_of sch vals)) as [->|NK']; [right; now left|].
  left. apply C. intro E. apply N. rewrite <- E.
  rewrite lookup_put by auto. keq key (key_of sch vals); [congruence|].
  apply lookup_remove_neq; congruence.
Qed.

Lemma changes_locked_more t0 s (l : list key) t a f g :
  changes_locked t0 s -> w_t s = t ->
  changes_locked t0 {| w_t := t; w_auto := a; w_aff := f; w_last := g; w_locks := w_locks s ++ l |}.
Proof. intros C <- k N. cbn in *. apply in_or_app. left. now apply C. Qed.

Lemma insert_row_changes bl sch en mode idx ondup t0 s es s' :
  changes_locked t0 s ->
  insert_row bl sch en mode idx ondup s es = WOk s' -> changes_locked t0 s'.
Proof.
  intro C. unfold insert_row.
  destruct (do g <- given_values en (s_cols sch) idx es (map (fun _ => None) (s_cols sch));
            fill_defaults (s_cols sch) g) as [vals0|]; [|discriminate].
  destruct (gen_auto (s_cols sch) vals0 (w_auto s) (w_last s)) as [[vals1 auto1] last1].
  destruct (store_all (s_cols sch) vals1 auto1) as [auto2 [vals|]]; [|discriminate].
  destruct (existsb bl (row_locks sch vals)); [discriminate|].
  fold (in_the_way sch vals (w_t s)).
  pose proof (replace_target_free sch vals (w_t s)) as RF.
  pose proof (in_the_way_nil sch vals (w_t s)) as NF.
  set (k := key_of sch vals) in *.
  assert (Kreq : In k (row_locks sch vals)) by (now left).
  destruct (in_the_way sch vals (w_t s)) as [|[ko old] more].
  - intro H; inversion H; subst. clear H.
    intros key N. cbn in *. apply in_or_app.
    destruct (key_eq_dec key k) as [->|NK]; [right; auto|]. left. apply C.
    intro E. apply N. rewrite <- E. rewrite lookup_put by auto. keq key k; [congruence|auto].
  - destruct ondup as [|x ondup].
    + destruct mode; try discriminate.
      * intro H; inversion H; subst. now apply changes_locked_more.
      * destruct (existsb bl (keys ((ko, old) :: more))); [discriminate|].
        intro H; inversion H; subst. clear H.
        intros key N. cbn [w_t w_locks] in *. apply in_or_app.
        destruct (key_eq_dec key k) as [->|NK]; [left; apply in_or_app; now right|].
        destruct (existsb (key_eqb key) (keys ((ko, old) :: more))) eqn:EK.
        -- right. apply existsb_exists in EK. destruct EK as [k1 [I1 E1]].
           apply key_eqb_eq in E1. now subst.
        -- left. apply in_or_app. left. apply C. intro E. apply N. rewrite <- E.
           rewrite lookup_put by exact RF. keq key k; [congruence|].
           unfold remove_keys.
           rewrite (lookup_filter_key (fun k0 => negb (existsb (key_eqb k0) (keys ((ko, old) :: more))))).
           now rewrite EK.
    + destruct (bl ko); [discriminate|].
      apply update_row_changes.
      * cbn. apply in_or_app. right. now left.
      * apply (changes_locked_more t0
                 {| w_t := w_t s; w_auto := w_auto s; w_aff := w_aff s; w_last := w_last s;
                    w_locks := w_locks s ++ row_locks sch vals |} [ko]); auto.
        now apply (changes_locked_more t0 s (row_locks sch vals)).
Qed.

Lemma update_row_locks_grow bl sch en sets inc s kr s' k :
  update_row bl sch en sets inc s kr = WOk s' -> In k (w_locks s) -> In k (w_locks s').
Proof.
  destruct kr as [k0 old]. intro H. apply update_row_ok in H.
  destruct H as [->|[vals [_ [_ [_ [_ [_ ->]]]]]]]; auto.
  cbn. intro I. apply in_or_app. now left.
Qed.

Theorem statement_changes_only_locked_rows bl sch st s args k :
  lookup k (ts_rows (r_state (exec_l bl sch st s args))) <> lookup k (ts_rows st) ->
  In k (r_locks (exec_l bl sch st s args)).
Proof.
  destruct s as [f w o lim fu|mode names rows ondup|sets w o lim|w o lim]; cbn.
  - destruct (exec_select_l bl sch (ts_rows st) f w o lim fu args). cbn. congruence.
  - unfold exec_insert.
    destruct (match names with Some ns => resolve_cols (s_cols sch) ns [] | None => Ok _ end) as [idx|];
      cbn; [|congruence].
    destruct (negb (arity_ok _ _ rows)); cbn; [congruence|].
    destruct (negb _); cbn; [congruence|].
    match goal with |- context [wfold ?f ?l ?s0] => destruct (wfold f l s0) as [s1|] eqn:W end; cbn;
      [|congruence].
    apply (wfold_inv (changes_locked (ts_rows st))) in W; auto.
    + intros s x s' C H. eapply insert_row_changes; eauto.
    + intros key N. cbn in N. congruence.
  - unfold exec_update. destruct (negb _); cbn; [congruence|].
    destruct (select_rows (mk_env sch args) w o lim (ts_rows st)) as [sel|]; cbn; [|congruence].
    destruct (existsb bl (keys sel)); cbn; [congruence|].
    match goal with |- context [wfold ?f ?l ?s0] => destruct (wfold f l s0) as [s1|] eqn:W end; cbn;
      [|congruence].
    apply (wfold_inv_in (fun s => changes_locked (ts_rows st) s /\ forall k, In k (keys sel) -> In k (w_locks s)))
      in W; [apply W| |].
    + intros s [k0 old] s' I [C G] H. split.
      * eapply update_row_changes; eauto. apply G. apply in_map_iff. exists (k0, old). auto.
      * intros k1 I1. eapply update_row_locks_grow; eauto.
    + split; [intros key N; cbn in N; congruence | cbn; auto].
  - unfold exec_delete. destruct (negb _); cbn; [congruence|].
    destruct (select_rows (mk_env sch args) w o lim (ts_rows st)) as [sel|]; cbn; [|congruence].
    destruct (existsb bl (keys sel)); cbn; [congruence|].
    unfold remove_keys.
    rewrite (lookup_filter_key (fun k => negb (existsb (key_eqb k) (keys sel)))).
    destruct (existsb (key_eqb k) (keys sel)) eqn:E; cbn; [|congruence].
    intros _. apply existsb_exists in E. destruct E as [k' [I E]]. apply key_eqb_eq in E. now subst.
Qed.

(* (b) a statement never changes a row that somebody else has locked *)
Theorem statement_respects_foreign_locks bl sch st s args k :
  bl k = true ->
  lookup k (ts_rows (r_state (exec_l bl sch st s args))) = lookup k (ts_rows st).
Proof.
  intro B.
  assert (D : forall a b : option row, {a = b} + {a <> b}) by (decide equality; apply row_eq_dec).
  destruct (D (lookup k (ts_rows (r_state (exec_l bl sch st s args)))) (lookup k (ts_rows st))) as [E|N]; auto.
  apply statement_changes_only_locked_rows, statement_locks_are_free in N. congruence.
Qed.

(* ================================================================ the transaction table *)
Lemma tx_get_del_eq c l : tx_get c (tx_del c l) = None.
Proof.
  induction l as [|[c' x] l IH]; cbn; auto.
  destruct (Nat.eqb c c') eqn:E; cbn; auto. now rewrite E.
Qed.

Lemma tx_get_del_neq c c' l : c <> c' -> tx_get c (tx_del c' l) = tx_get c l.
Proof.
  intro N. induction l as [|[c0 x] l IH]; cbn; auto.
  destruct (Nat.eqb c' c0) eqn:E; cbn.
  - apply Nat.eqb_eq in E. subst. rewrite IH.
    destruct (Nat.eqb c c0) eqn:E'; auto. apply Nat.eqb_eq in E'. congruence.
  - now rewrite IH.
Qed.

Lemma tx_get_set_eq c x l : tx_get c (tx_set c x l) = Some x.
Proof. unfold tx_set. cbn. now rewrite Nat.eqb_refl. Qed.

Lemma tx_get_set_neq c c' x l : c <> c' -> tx_get c (tx_set c' x l) = tx_get c l.
Proof.
  intro N. unfold tx_set. cbn.
  destruct (Nat.eqb c c') eqn:E; [apply Nat.eqb_eq in E; congruence|]. now apply tx_get_del_neq.
Qed.

Lemma tx_get_In c x l : tx_get c l = Some x -> In (c, x) l.
Proof.
  induction l as [|[c' x'] l IH]; cbn; [discriminate|].
  destruct (Nat.eqb c c') eqn:E; intro H.
  - apply Nat.eqb_eq in E. inversion H; subst. now left.
  - right. auto.
Qed.

Lemma holds_In x k : holds x k = true <-> In k (x_locks x).
Proof.
  unfold holds. rewrite existsb_exists. split.
  - intros [k' [I E]]. apply key_eqb_eq in E. now subst.
  - intro I. exists k. split; auto. apply key_eqb_refl.
Qed.

Lemma add_locks_ext own new : exists suf, add_locks own new = own ++ suf /\ forall k, In k suf -> In k new.
Proof.
  unfold add_locks. revert own. induction new as [|k new IH]; intro own; cbn.
  - exists []. split; [now rewrite app_nil_r | intros ? []].
  - destruct (existsb (key_eqb k) own).
    + destruct (IH own) as [suf [E S]]. exists suf. split; auto.
    + destruct (IH (own ++ [k])) as [suf [E S]]. exists (k :: suf). split.
      * now rewrite E, <- app_assoc.
      * intros k0 [<-|I]; auto.
Qed.

Local Arguments tx_set : simpl never.
Local Arguments commit_conn : simpl never.

(* ================================================================ one step: who is touched *)
Definition tx_of (d : dbst) (c : nat) : option txst := tx_get c (d_txs d).

Lemma commit_conn_other d c c' : c' <> c -> tx_of (commit_conn d c) c' = tx_of d c'.
Proof.
  intro N. unfold commit_conn, tx_of. destruct (tx_get c (d_txs d)); cbn; auto.
  now apply tx_get_del_neq.
Qed.

(* an operation of connection c leaves every other connection's transaction
   (overlay, locks, savepoints) exactly as it was *)
Theorem step_leaves_other_transactions sch d c o c' :
  c' <> c -> tx_of (fst (step sch d c o)) c' = tx_of d c'.
Proof.
  intro N. unfold tx_of. destruct o; cbn.
  - rewrite tx_get_set_neq by auto. apply commit_conn_other; auto.
  - apply commit_conn_other; auto.
  - now apply tx_get_del_neq.
  - unfold run_stmt. destruct (tx_get c (d_txs d)); cbn; auto. now apply tx_get_set_neq.
  - destruct (tx_get c (d_txs d)); cbn; auto. now apply tx_get_set_neq.
  - destruct (tx_get c (d_txs d)) as [x|]; cbn; auto.
    destruct (find_save name (x_saves x)) as [[sp older]|]; cbn; auto. now apply tx_get_set_neq.
  - destruct (tx_get c (d_txs d)) as [x|]; cbn; auto.
    destruct (find_save name (x_saves x)) as [[sp older]|]; cbn; auto. now apply tx_get_set_neq.
  - now apply tx_get_del_neq.
Qed.

(* ================================================================ (a) atomicity *)
(* COMMIT installs exactly what the connection saw (its working copy) and ends the transaction *)
Theorem commit_installs_working_copy sch d c :
  d_rows (fst (step sch d c OCommit)) = view d c /\ tx_of (fst (step sch d c OCommit)) c = None.
Proof.
  cbn. unfold commit_conn, view, tx_of. destruct (tx_get c (d_txs d)) as [x|] eqn:E; cbn.
  - split; auto. apply tx_get_del_eq.
  - split; auto.
Qed.

(* ROLLBACK, and a connection that closes or dies with an open transaction:
   committed rows untouched, transaction (overlay, locks, savepoints) gone *)
Theorem rollback_discards sch d c o :
  o = ORollback \/ o = OClose ->
  d_rows (fst (step sch d c o)) = d_rows d /\ tx_of (fst (step sch d c o)) c = None.
Proof.
  intros [->| ->]; cbn; split; auto; apply tx_get_del_eq.
Qed.

(* what a transaction may do before it ends *)
Definition inner (o : op) : bool :=
  match o with OStmt _ _ | OSave _ | ORollbackTo _ | ORelease _ => true | _ => false end.

(* inside an open transaction nothing reaches the committed rows *)
Theorem open_transaction_leaves_committed sch d c o x :
  tx_of d c = Some x -> inner o = true ->
  d_rows (fst (step sch d c o)) = d_rows d /\ exists x', tx_of (fst (step sch d c o)) c = Some x'.
Proof.
  unfold tx_of. intros T I. destruct o; try discriminate; cbn.
  - unfold run_stmt. rewrite T. cbn. split; auto. rewrite tx_get_set_eq. eauto.
  - rewrite T. cbn. split; auto. rewrite tx_get_set_eq. eauto.
  - rewrite T. destruct (find_save name (x_saves x)) as [[sp older]|]; cbn; split; auto.
    + rewrite tx_get_set_eq. eauto.
    + eauto.
  - rewrite T. destruct (find_save name (x_saves x)) as [[sp older]|]; cbn; split; auto.
    + rewrite tx_get_set_eq. eauto.
    + eauto.
Qed.

Lemma run_app sch d l1 l2 : run sch d (l1 ++ l2) = run sch (run sch d l1) l2.
Proof. revert d; induction l1 as [|[c o] l1 IH]; intro d; cbn; auto. Qed.

Lemma inner_run sch c ops : forall d x,
  tx_of d c = Some x -> forallb inner ops = true ->
  d_rows (run sch d (map (fun o => (c, o)) ops)) = d_rows d /\
  exists x', tx_of (run sch d (map (fun o => (c, o)) ops)) c = Some x'.
Proof.
  induction ops as [|o ops IH]; intros d x T I; cbn [map run].
  - eauto.
  - cbn in I. apply andb_true_iff in I. destruct I as [I1 I2].
    destruct (open_transaction_leaves_committed sch d c o x T I1) as [R [x1 T1]].
    destruct (IH _ x1 T1 I2) as [R' T']. rewrite R'. auto.
Qed.

(* BEGIN; anything but COMMIT/BEGIN/ROLLBACK/CLOSE; ROLLBACK (or the connection
   goes away): the committed rows are those before BEGIN *)
Theorem rolled_back_transaction_leaves_no_trace sch d c ops fin :
  tx_of d c = None -> forallb inner ops = true -> fin = ORollback \/ fin = OClose ->
  let d' := run sch d ((c, OBegin) :: map (fun o => (c, o)) ops ++ [(c, fin)]) in
  d_rows d' = d_rows d /\ tx_of d' c = None.
Proof.
  intros T I F. cbn [run].
  assert (B : d_rows (fst (step sch d c OBegin)) = d_rows d /\
              exists x, tx_of (fst (step sch d c OBegin)) c = Some x).
  { cbn. unfold commit_conn, tx_of in *. rewrite T. cbn. split; auto. rewrite tx_get_set_eq. eauto. }
  destruct B as [B1 [x0 B2]]. rewrite run_app.
  destruct (inner_run sch c ops _ x0 B2 I) as [R _]. cbn [run].
  destruct (rollback_discards sch (run sch (fst (step sch d c OBegin)) (map (fun o => (c, o)) ops)) c fin F)
    as [R1 R2].
  split; [congruence|exact R2].
Qed.

(* ================================================================ (b) isolation *)
(* no dirty read: what a plain SELECT of c returns is determined by the
   committed rows and c's own transaction; other connections' uncommitted writes
   and locks play no part *)
Theorem no_dirty_read sch d1 d2 c f w o lim args :
  d_rows d1 = d_rows d2 -> tx_of d1 c = tx_of d2 c ->
  snd (step sch d1 c (OStmt (SSelect f w o lim false) args)) =
  snd (step sch d2 c (OStmt (SSelect f w o lim false) args)).
Proof.
  unfold tx_of. intros R T. cbn. unfold run_stmt, view. rewrite <- T, <- R.
  destruct (tx_get c (d_txs d1)); cbn; unfold exec_select_l; cbn; reflexivity.
Qed.

(* a statement of c never changes, in what c sees, a row that another connection has locked *)
Theorem foreign_locked_rows_untouched sch d c s args k :
  others_hold (d_txs d) c k = true ->
  lookup k (view (fst (step sch d c (OStmt s args))) c) = lookup k (view d c) \/
  tx_of d c <> None.
Proof.
  intro H. destruct (tx_get c (d_txs d)) as [x|] eqn:T; [right; unfold tx_of; congruence|left].
  cbn. unfold run_stmt, view. rewrite T. cbn. rewrite T.
  apply (statement_respects_foreign_locks (others_hold (d_txs d) c) sch
           {| ts_rows := d_rows d; ts_auto := d_auto d |} s args k H).
Qed.

(* the committed rows under a foreign lock survive any operation of c that is
   not a COMMIT of writes made earlier (those were made under c's own locks) *)
Theorem autocommit_respects_foreign_locks sch d c s args k :
  tx_of d c = None -> others_hold (d_txs d) c k = true ->
  lookup k (d_rows (fst (step sch d c (OStmt s args)))) = lookup k (d_rows d).
Proof.
  unfold tx_of. intros T H. cbn. unfold run_stmt, view. rewrite T. cbn.
  apply (statement_respects_foreign_locks (others_hold (d_txs d) c) sch
           {| ts_rows := d_rows d; ts_auto := d_auto d |} s args k H).
Qed.

(* two open transactions never hold a lock on the same row *)
Definition locks_disjoint (d : dbst) : Prop :=
  forall c1 c2 x1 x2 k, c1 <> c2 -> tx_of d c1 = Some x1 -> tx_of d c2 = Some x2 ->
                        In k (x_locks x1) -> ~ In k (x_locks x2).

Lemma others_hold_false txs c c2 x2 k :
  others_hold txs c k = false -> c2 <> c -> tx_get c2 txs = Some x2 -> ~ In k (x_locks x2).
Proof.
  intros H N T I. apply tx_get_In in T.
  assert (others_hold txs c k = true); [|congruence].
  apply existsb_exists. exists (c2, x2). split; auto. cbn.
  apply andb_true_iff. split.
  - destruct (Nat.eqb c2 c) eqn:E; auto. apply Nat.eqb_eq in E. congruence.
  - now apply holds_In.
Qed.

(* the locks c holds after a step: old ones, or ones nobody else held *)
Lemma step_locks_origin sch d c o x' k :
  tx_of (fst (step sch d c o)) c = Some x' -> In k (x_locks x') ->
  (exists x, tx_of d c = Some x /\ In k (x_locks x)) \/ others_hold (d_txs d) c k = false.
Proof.
  unfold tx_of. destruct o; cbn.
  - rewrite tx_get_set_eq. intro H; inversion H; subst. intros [].
  - unfold commit_conn. destruct (tx_get c (d_txs d)) eqn:T; cbn; [rewrite tx_get_del_eq|rewrite T]; discriminate.
  - rewrite tx_get_del_eq. discriminate.
  - unfold run_stmt. destruct (tx_get c (d_txs d)) as [x|] eqn:T; cbn.
    + rewrite tx_get_set_eq. intro H; inversion H; subst; cbn. intro I.
      destruct (add_locks_ext (x_locks x) (r_locks (exec_l (others_hold (d_txs d) c) sch
                  {| ts_rows := view d c; ts_auto := d_auto d |} s args))) as [suf [E S]].
      rewrite E in I. apply in_app_or in I. destruct I as [I|I]; [left; eauto|right].
      apply S in I. now apply statement_locks_are_free in I.
    + rewrite T. discriminate.
  - destruct (tx_get c (d_txs d)) as [x|] eqn:T; cbn.
    + rewrite tx_get_set_eq. intro H; inversion H; subst; cbn. eauto.
    + rewrite T. discriminate.
  - destruct (tx_get c (d_txs d)) as [x|] eqn:T; cbn; [|rewrite T; discriminate].
    destruct (find_save name (x_saves x)) as [[sp older]|]; cbn.
    + rewrite tx_get_set_eq. intro H; inversion H; subst; cbn. intro I.
      left. exists x. split; auto. rewrite <- (firstn_skipn (sp_nlocks sp) (x_locks x)). apply in_or_app. now left.
    + rewrite T. intro H; inversion H; subst. eauto.
  - destruct (tx_get c (d_txs d)) as [x|] eqn:T; cbn; [|rewrite T; discriminate].
    destruct (find_save name (x_saves x)) as [[sp older]|]; cbn.
    + rewrite tx_get_set_eq. intro H; inversion H; subst; cbn. eauto.
    + rewrite T. intro H; inversion H; subst. eauto.
  - rewrite tx_get_del_eq. discriminate.
Qed.

Lemma step_disjoint sch d c o : locks_disjoint d -> locks_disjoint (fst (step sch d c o)).
Proof.
  intros D c1 c2 x1 x2 k N T1 T2 I1 I2.
  destruct (Nat.eq_dec c1 c) as [->|N1].
  - rewrite step_leaves_other_transactions in T2 by auto.
    destruct (step_locks_origin sch d c o x1 k T1 I1) as [[x [T I]]|H].
    + exact (D c c2 x x2 k N T T2 I I2).
    + exact (others_hold_false _ _ _ _ _ H (not_eq_sym N) T2 I2).
  - rewrite step_leaves_other_transactions in T1 by auto.
    destruct (Nat.eq_dec c2 c) as [->|N2].
    + destruct (step_locks_origin sch d c o x2 k T2 I2) as [[x [T I]]|H].
      * exact (D c1 c x1 x k N T1 T I1 I).
      * exact (others_hold_false _ _ _ _ _ H N1 T1 I1).
    + rewrite step_leaves_other_transactions in T2 by auto.
      exact (D c1 c2 x1 x2 k N T1 T2 I1 I2).
Qed.

(* (b) over ALL schedules: two open transactions never hold a lock on the same row *)
Theorem locks_always_disjoint sch rows auto l :
  locks_disjoint (run sch {| d_rows := rows; d_auto := auto; d_txs := [] |} l).
Proof.
  assert (G : forall l d, locks_disjoint d -> locks_disjoint (run sch d l)).
  { clear. induction l as [|[c o] l IH]; intros d D; cbn; auto. apply IH, step_disjoint, D. }
  apply G. intros c1 c2 x1 x2 k _ T. discriminate.
Qed.

(* (d) after COMMIT / ROLLBACK / close the connection holds no lock: it has no
   transaction, and only transactions hold locks *)
Theorem finished_transaction_holds_no_lock sch d c o :
  o = OCommit \/ o = ORollback \/ o = OClose -> tx_of (fst (step sch d c o)) c = None.
Proof.
  intros [->|[->| ->]].
  - apply commit_installs_working_copy.
  - apply (rollback_discards sch d c ORollback); auto.
  - apply (rollback_discards sch d c OClose); auto.
Qed.

(* ================================================================ (c) savepoints *)
Definition stmts_of (c : nat) (l : list (nat * op)) : Prop :=
  forall c' o, In (c', o) l -> c' = c -> exists s a, o = OStmt s a.

(* SAVEPOINT n; any schedule in which c itself only runs statements (the other
   connections do whatever they like); ROLLBACK TO n: c's writes and c's lock
   set are exactly those at the SAVEPOINT *)
Theorem rollback_to_restores_savepoint sch d0 c x0 n l :
  tx_of d0 c = Some x0 -> stmts_of c l ->
  let d2 := run sch (fst (step sch d0 c (OSave n))) l in
  exists x, tx_of (fst (step sch d2 c (ORollbackTo n))) c = Some x /\
            x_ov x = x_ov x0 /\ x_locks x = x_locks x0 /\
            snd (step sch d2 c (ORollbackTo n)) = ok_out.
Proof.
  intros T0 S.
  set (sp := {| sp_name := n; sp_ov := x_ov x0; sp_nlocks := length (x_locks x0) |}).
  set (J := fun d => exists x older suf, tx_of d c = Some x /\ x_saves x = sp :: older /\
                                       x_locks x = x_locks x0 ++ suf).
  assert (J1 : J (fst (step sch d0 c (OSave n)))).
  { unfold J, tx_of in *. cbn. rewrite T0. cbn. rewrite tx_get_set_eq.
    do 3 eexists. split; [reflexivity|]. cbn. split; [reflexivity|]. symmetry. apply app_nil_r. }
  assert (G : forall l d, stmts_of c l -> J d -> J (run sch d l)).
  { clear - sp. induction l as [|[c' o] l IH]; intros d S Jd; cbn; auto.
    apply IH; [intros c1 o1 I; apply S; now right|].
    destruct (Nat.eq_dec c' c) as [->|N].
    - destruct (S c o (or_introl eq_refl) eq_refl) as [s [a ->]].
      destruct Jd as [x [older [suf [T [Sv L]]]]]. unfold J, tx_of in *. cbn. unfold run_stmt.
      rewrite T. cbn. rewrite tx_get_set_eq.
      destruct (add_locks_ext (x_locks x) (r_locks (exec_l (others_hold (d_txs d) c) sch
                  {| ts_rows := view d c; ts_auto := d_auto d |} s a))) as [suf' [E _]].
      do 3 eexists. split; [reflexivity|]. cbn. split; [exact Sv|].
      rewrite E, L, <- app_assoc. reflexivity.
    - destruct Jd as [x [older [suf [T H]]]]. exists x, older, suf. split; auto.
      rewrite step_leaves_other_transactions; auto. }
  destruct (G l _ S J1) as [x [older [suf [T [Sv L]]]]].
  cbv zeta. remember (run sch (fst (step sch d0 c (OSave n))) l) as d2 eqn:E2. clear E2 J1 G.
  unfold tx_of in *. cbn. rewrite T, Sv. cbn. rewrite bytes_eqb_refl. cbn. rewrite tx_get_set_eq.
  eexists. split; [reflexivity|]. cbn. repeat split; auto.
  rewrite L, firstn_app, firstn_all, Nat.sub_diag. cbn. apply app_nil_r.
Qed.

(* ================================================================ (e) commit order *)
(* PARTIAL.  What holds for every schedule: the committed rows change only
   when a transaction commits (then by exactly its overlay) or an autocommit
   statement runs; with locks_always_disjoint and statement_changes_only_locked_rows
   the overlays of transactions that are open at the same time touch disjoint keys. *)
Theorem committed_rows_change_only_at_commit sch d c o :
  d_rows (fst (step sch d c o)) = d_rows d
  \/ (exists x, tx_of d c = Some x /\ (o = OCommit \/ o = OBegin) /\
                d_rows (fst (step sch d c o)) = apply_ov (x_ov x) (d_rows d))
  \/ (tx_of d c = None /\ exists s a, o = OStmt s a /\
        d_rows (fst (step sch d c o)) =
        ts_rows (r_state (exec_l (others_hold (d_txs d) c) sch
                                 {| ts_rows := d_rows d; ts_auto := d_auto d |} s a))).
Proof.
  unfold tx_of. destruct o; cbn; auto.
  - unfold commit_conn. destruct (tx_get c (d_txs d)) as [x|] eqn:T; cbn; auto.
    right; left. exists x. auto.
  - unfold commit_conn. destruct (tx_get c (d_txs d)) as [x|] eqn:T; cbn; auto.
    right; left. exists x. auto.
  - unfold run_stmt, view. destruct (tx_get c (d_txs d)) as [x|] eqn:T; cbn; auto.
    right; right. split; auto. eauto.
  - destruct (tx_get c (d_txs d)); cbn; auto.
  - destruct (tx_get c (d_txs d)) as [x|]; cbn; auto.
    destruct (find_save name (x_saves x)) as [[sp older]|]; cbn; auto.
  - destruct (tx_get c (d_txs d)) as [x|]; cbn; auto.
    destruct (find_save name (x_saves x)) as [[sp older]|]; cbn; auto.
Qed.

(* REFUTED as stated: "no statement got 1205 => the final committed rows are
   those of running the committed transactions one after another in COMMIT order".
   READ COMMITTED reads rows it does not lock: T1 = UPDATE t SET a = 1 WHERE b = 0,
   T2 = UPDATE t SET b = 0 WHERE a = 0 on rows (1, a=5, b=0), (2, a=0, b=5) lock
   different rows, nobody waits, T2 commits first - and the result is the serial
   order T1;T2, not the commit order T2;T1 (InnoDB READ COMMITTED behaves the same). *)
Module CommitOrder.
Import Coq.Strings.Byte.
Definition cid := [x69; x64].
Definition ca := [x61].
Definition cb := [x62].
Definition icol n := {| c_name := n; c_ty := TInt MIN_I64 MAX_I64; c_notnull := true;
                        c_default := None; c_auto := false |}.
Definition sch : schema := {| s_cols := [icol cid; icol ca; icol cb]; s_pk := [0%nat]; s_uniq := [] |}.
Definition d0 : dbst :=
  {| d_rows := [([VInt 1], [VInt 1; VInt 5; VInt 0]); ([VInt 2], [VInt 2; VInt 0; VInt 5])];
     d_auto := 1; d_txs := [] |}.
Definition t1 := OStmt (SUpdate [(ca, ELit (VInt 1))] (Some (ECmp CEq (ECol cb) (ELit (VInt 0)))) [] None) [].
Definition t2 := OStmt (SUpdate [(cb, ELit (VInt 0))] (Some (ECmp CEq (ECol ca) (ELit (VInt 0)))) [] None) [].
Definition interleaved := [(1, OBegin); (2, OBegin); (1, t1); (2, t2); (2, OCommit); (1, OCommit)]%nat.
Definition commit_order := [(2, OBegin); (2, t2); (2, OCommit); (1, OBegin); (1, t1); (1, OCommit)]%nat.
Definition other_order := [(1, OBegin); (1, t1); (1, OCommit); (2, OBegin); (2, t2); (2, OCommit)]%nat.

Fixpoint outcomes (d : dbst) (l : list (nat * op)) : list outcome :=
  match l with
  | [] => []
  | (c, o) :: l' => snd (step sch d c o) :: outcomes (fst (step sch d c o)) l'
  end.

Example commit_order_equivalence_refuted :
  outcomes d0 interleaved = [ok_out; ok_out; OkMod 1 0; OkMod 1 0; ok_out; ok_out] /\
  d_rows (run sch d0 interleaved) <> d_rows (run sch d0 commit_order) /\
  d_rows (run sch d0 interleaved) = d_rows (run sch d0 other_order).
Proof. repeat split; vm_compute; congruence. Qed.

(* non-vacuity of the lock theorems: the second writer of the same row gets 1205,
   changes nothing, and after the first one's ROLLBACK the row is free again *)
Definition w1 := OStmt (SUpdate [(ca, ELit (VInt 7))] (Some (ECmp CEq (ECol cid) (ELit (VInt 1)))) [] None) [].
Example lock_conflict_nonvacuous :
  outcomes d0 [(1, OBegin); (1, w1); (2, w1); (1, ORollback); (2, w1)]%nat =
    [ok_out; OkMod 1 0; Fail (EErr E_LOCKWAIT); ok_out; OkMod 1 0] /\
  d_rows (run sch d0 [(1, OBegin); (1, w1); (2, w1); (1, ORollback)]%nat) = d_rows d0 /\
  all_locks (run sch d0 [(1, OBegin); (1, w1); (2, w1)]%nat) = [[VInt 1]].
Proof. repeat split; vm_compute; reflexivity. Qed.

(* savepoint: the write and the lock taken after SAVEPOINT are undone by ROLLBACK TO *)
Definition w2 := OStmt (SUpdate [(ca, ELit (VInt 9))] (Some (ECmp CEq (ECol cid) (ELit (VInt 2)))) [] None) [].
Example savepoint_nonvacuous :
  let l := [(1, OBegin); (1, w1); (1, OSave [x73]); (1, w2)]%nat in
  all_locks (run sch d0 l) = [[VInt 1]; [VInt 2]] /\
  all_locks (run sch d0 (l ++ [(1%nat, ORollbackTo [x73])])) = [[VInt 1]] /\
  d_rows (run sch d0 (l ++ [(1%nat, ORollbackTo [x73]); (1%nat, OCommit)])) =
    [([VInt 1], [VInt 1; VInt 7; VInt 0]); ([VInt 2], [VInt 2; VInt 0; VInt 5])].
Proof. repeat split; vm_compute; reflexivity. Qed.
End CommitOrder.
