(* Theorems about the transaction / lock layer of Tx.v, over ALL schedules
   (operation lists tagged with connection ids).  `Theorem` = listed in
   docs/STMT.md, `Lemma` = auxiliary. *)
From Coq Require Import List NArith ZArith Lia Bool Permutation Sorted.
From SeataV Require Import Base.Bytes At.Db At.DbProofs At.Stmt At.StmtProofs At.Tx.
Import ListNotations.
Local Open Scope Z_scope.

(* ================================================================ statements and locks *)
Lemma free_prefix_free bl ks k : In k (free_prefix bl ks) -> bl k = false.
Proof.
  induction ks as [|k0 ks IH]; cbn; [tauto|].
  destruct (bl k0) eqn:B; cbn; [tauto|]. intros [<-|I]; auto.
Qed.

Lemma existsb_false_all bl (ks : list key) k : existsb bl ks = false -> In k ks -> bl k = false.
Proof.
  intros E I. destruct (bl k) eqn:B; auto.
  assert (existsb bl ks = true) by (apply existsb_exists; eauto). congruence.
Qed.

Definition locks_free (bl : blocker) (l : list key) : Prop := forall k, In k l -> bl k = false.

Lemma update_row_locks bl sch en sets inc s kr :
  locks_free bl (w_locks s) ->
  match update_row bl sch en sets inc s kr with
  | WOk s' => locks_free bl (w_locks s')
  | WFail _ l _ => locks_free bl l
  end.
Proof.
  intro F. unfold update_row. destruct kr as [k old].
  destruct (apply_sets en sets old) as [vals|]; auto.
  destruct (row_eqb vals old); auto.
  destruct (bl (key_of sch vals)) eqn:B; auto.
  assert (F' : locks_free bl (w_locks s ++ [key_of sch vals])).
  { intros k0 I. apply in_app_or in I. destruct I as [I|[<-|[]]]; auto. }
  destruct (negb _ && _); cbn; auto.
Qed.

Lemma insert_row_locks bl sch en mode idx ondup s es :
  locks_free bl (w_locks s) ->
  match insert_row bl sch en mode idx ondup s es with
  | WOk s' => locks_free bl (w_locks s')
  | WFail _ l _ => locks_free bl l
  end.
Proof.
  intro F. unfold insert_row.
  destruct (do g <- given_values en (s_cols sch) idx es (map (fun _ => None) (s_cols sch));
            fill_defaults (s_cols sch) g) as [vals0|]; auto.
  destruct (gen_auto (s_cols sch) vals0 (w_auto s) (w_last s)) as [[vals1 auto1] last1].
  destruct (store_all (s_cols sch) vals1 auto1) as [auto2 [vals|]]; auto.
  destruct (bl (key_of sch vals)) eqn:B; auto.
  assert (F' : locks_free bl (w_locks s ++ [key_of sch vals])).
  { intros k0 I. apply in_app_or in I. destruct I as [I|[<-|[]]]; auto. }
  destruct (lookup (key_of sch vals) (w_t s)) as [old|]; [|cbn; auto].
  destruct ondup as [|x ondup].
  - destruct mode; cbn; auto.
  - apply update_row_locks. exact F'.
Qed.

Lemma wfold_locks {A} bl (f : wstate -> A -> wres) l :
  (forall s x, locks_free bl (w_locks s) ->
     match f s x with WOk s' => locks_free bl (w_locks s') | WFail _ l _ => locks_free bl l end) ->
  forall s, locks_free bl (w_locks s) ->
     match wfold f l s with WOk s' => locks_free bl (w_locks s') | WFail _ l _ => locks_free bl l end.
Proof.
  intro Hf. induction l as [|x l IH]; cbn [wfold]; intros s F; auto.
  specialize (Hf s x F). destruct (f s x) as [s1|]; auto. now apply IH.
Qed.

(* a statement only ever gets locks nobody else holds *)
Theorem statement_locks_are_free bl sch st s args k :
  In k (r_locks (exec_l bl sch st s args)) -> bl k = false.
Proof.
  destruct s as [f w o lim fu|mode names rows ondup|sets w o lim|w o lim]; cbn.
  - unfold exec_select_l. destruct (fu && select_static_ok sch f w o); cbn; [|tauto].
    destruct (select_rows (mk_env sch args) w o lim (ts_rows st)) as [sel|]; cbn; [|tauto].
    destruct (existsb bl (keys sel)) eqn:E; cbn.
    + apply free_prefix_free.
    + now apply existsb_false_all.
  - unfold exec_insert.
    destruct (match names with Some ns => resolve_cols (s_cols sch) ns [] | None => Ok _ end) as [idx|];
      cbn; [|tauto].
    destruct (negb (arity_ok _ _ rows)); cbn; [tauto|].
    destruct (negb _); cbn; [tauto|].
    match goal with |- context [wfold ?f ?l ?s0] =>
      pose proof (wfold_locks bl f l (fun s x => insert_row_locks bl sch _ mode idx ondup s x) s0) as W;
      destruct (wfold f l s0) as [s1|] end; cbn in *; intro I; apply W; auto; intros ? [].
  - unfold exec_update. destruct (negb _); cbn; [tauto|].
    destruct (select_rows (mk_env sch args) w o lim (ts_rows st)) as [sel|]; cbn; [|tauto].
    destruct (existsb bl (keys sel)) eqn:E; cbn; [apply free_prefix_free|].
    match goal with |- context [wfold ?f ?l ?s0] =>
      pose proof (wfold_locks bl f l (fun s x => update_row_locks bl sch _ sets 1 s x) s0) as W;
      destruct (wfold f l s0) as [s1|] end; cbn in *; intro I; apply W; auto;
      intros k0 I0; now apply (existsb_false_all bl (keys sel)).
  - unfold exec_delete. destruct (negb _); cbn; [tauto|].
    destruct (select_rows (mk_env sch args) w o lim (ts_rows st)) as [sel|]; cbn; [|tauto].
    destruct (existsb bl (keys sel)) eqn:E; cbn; [apply free_prefix_free|].
    now apply existsb_false_all.
Qed.

(* every binding a statement changes is under a lock it took *)
Definition changes_locked (t0 : tbl) (s : wstate) : Prop :=
  forall k, lookup k (w_t s) <> lookup k t0 -> In k (w_locks s).

Lemma put_remove_changes k k' v t key :
  lookup k' (remove k t) = None ->
  lookup key (put k' v (remove k t)) <> lookup key t -> key = k \/ key = k'.
Proof.
  intros L H. rewrite lookup_put in H by auto.
  keq key k'; auto. keq key k; auto.
  exfalso. apply H. apply lookup_remove_neq; congruence.
Qed.

Lemma update_row_changes bl sch en sets inc t0 s k old s' :
  In k (w_locks s) -> changes_locked t0 s ->
  update_row bl sch en sets inc s (k, old) = WOk s' -> changes_locked t0 s'.
Proof.
  intros Ik C. unfold update_row.
  destruct (apply_sets en sets old) as [vals|]; [|discriminate].
  destruct (row_eqb vals old); [intro H; inversion H; now subst|].
  destruct (bl (key_of sch vals)); [discriminate|].
  destruct (negb (key_eqb (key_of sch vals) k) && mem (key_of sch vals) (w_t s)) eqn:D; [discriminate|].
  apply free_after_remove in D. intro H; inversion H; subst; cbn. clear H.
  intros key N. cbn in N. apply in_or_app.
  destruct (key_eq_dec key k) as [->|NK]; [now left|].
  destruct (key_eq_dec key (key_of sch vals)) as [->|NK']; [right; now left|].
  left. apply C. intro E. apply N. rewrite <- E.
  rewrite lookup_put by auto. keq key (key_of sch vals); [congruence|].
  apply lookup_remove_neq; congruence.
Qed.

Lemma changes_locked_more t0 s (l : list key) t a f g :
  changes_locked t0 s -> w_t s = t ->
  changes_locked t0 {| w_t := t; w_auto := a; w_aff := f; w_last := g; w_locks := w_locks s ++ l |}.
Proof. intros C <- k N. cbn in *. apply in_or_app. left. now apply C. Qed.

Lemma insert_row_changes bl sch en mode idx ondup t0 s es s' :
  changes_locked t0 s ->
  insert_row bl sch en mode idx ondup s es = WOk s' -> changes_locked t0 s'.
Proof.
  intro C. unfold insert_row.
  destruct (do g <- given_values en (s_cols sch) idx es (map (fun _ => None) (s_cols sch));
            fill_defaults (s_cols sch) g) as [vals0|]; [|discriminate].
  destruct (gen_auto (s_cols sch) vals0 (w_auto s) (w_last s)) as [[vals1 auto1] last1].
  destruct (store_all (s_cols sch) vals1 auto1) as [auto2 [vals|]]; [|discriminate].
  destruct (bl (key_of sch vals)); [discriminate|].
  set (k := key_of sch vals).
  assert (C1 : changes_locked t0 {| w_t := w_t s; w_auto := auto2; w_aff := w_aff s; w_last := last1;
                                    w_locks := w_locks s ++ [k] |})
    by (now apply changes_locked_more).
  destruct (lookup k (w_t s)) as [old|] eqn:L.
  - destruct ondup as [|x ondup].
    + destruct mode; intro H; inversion H; subst; auto. clear H.
      intros key N. cbn in *. apply in_or_app.
      destruct (key_eq_dec key k) as [->|NK]; [right; now left|]. left. apply C.
      intro E. apply N. rewrite <- E. rewrite lookup_put by apply lookup_remove_eq.
      keq key k; [congruence|]. apply lookup_remove_neq; congruence.
    + apply update_row_changes; auto. cbn. apply in_or_app. right. now left.
  - intro H; inversion H; subst. clear H.
    intros key N. cbn in *. apply in_or_app.
    destruct (key_eq_dec key k) as [->|NK]; [right; now left|]. left. apply C.
    intro E. apply N. rewrite <- E. rewrite lookup_put by auto. keq key k; [congruence|auto].
Qed.

Lemma update_row_locks_grow bl sch en sets inc s kr s' k :
  update_row bl sch en sets inc s kr = WOk s' -> In k (w_locks s) -> In k (w_locks s').
Proof.
  unfold update_row. destruct kr as [k0 old].
  destruct (apply_sets en sets old) as [vals|]; [|discriminate].
  destruct (row_eqb vals old); [intro H; inversion H; now subst|].
  destruct (bl (key_of sch vals)); [discriminate|].
  destruct (negb _ && _); [discriminate|].
  intro H; inversion H; subst; cbn. intro I. apply in_or_app. now left.
Qed.

Theorem statement_changes_only_locked_rows bl sch st s args k :
  lookup k (ts_rows (r_state (exec_l bl sch st s args))) <> lookup k (ts_rows st) ->
  In k (r_locks (exec_l bl sch st s args)).
Proof.
  destruct s as [f w o lim fu|mode names rows ondup|sets w o lim|w o lim]; cbn.
  - destruct (exec_select_l bl sch (ts_rows st) f w o lim fu args). cbn. congruence.
  - unfold exec_insert.
    destruct (match names with Some ns => resolve_cols (s_cols sch) ns [] | None => Ok _ end) as [idx|];
      cbn; [|congruence].
    destruct (negb (arity_ok _ _ rows)); cbn; [congruence|].
    destruct (negb _); cbn; [congruence|].
    match goal with |- context [wfold ?f ?l ?s0] => destruct (wfold f l s0) as [s1|] eqn:W end; cbn;
      [|congruence].
    apply (wfold_inv (changes_locked (ts_rows st))) in W; auto.
    + intros s x s' C H. eapply insert_row_changes; eauto.
    + intros key N. cbn in N. congruence.
  - unfold exec_update. destruct (negb _); cbn; [congruence|].
    destruct (select_rows (mk_env sch args) w o lim (ts_rows st)) as [sel|]; cbn; [|congruence].
    destruct (existsb bl (keys sel)); cbn; [congruence|].
    match goal with |- context [wfold ?f ?l ?s0] => destruct (wfold f l s0) as [s1|] eqn:W end; cbn;
      [|congruence].
    apply (wfold_inv_in (fun s => changes_locked (ts_rows st) s /\ forall k, In k (keys sel) -> In k (w_locks s)))
      in W; [apply W| |].
    + intros s [k0 old] s' I [C G] H. split.
      * eapply update_row_changes; eauto. apply G. apply in_map_iff. exists (k0, old). auto.
      * intros k1 I1. eapply update_row_locks_grow; eauto.
    + split; [intros key N; cbn in N; congruence | cbn; auto].
  - unfold exec_delete. destruct (negb _); cbn; [congruence|].
    destruct (select_rows (mk_env sch args) w o lim (ts_rows st)) as [sel|]; cbn; [|congruence].
    destruct (existsb bl (keys sel)); cbn; [congruence|].
    unfold remove_keys.
    rewrite (lookup_filter_key (fun k => negb (existsb (key_eqb k) (keys sel)))).
    destruct (existsb (key_eqb k) (keys sel)) eqn:E; cbn; [|congruence].
    intros _. apply existsb_exists in E. destruct E as [k' [I E]]. apply key_eqb_eq in E. now subst.
Qed.

(* (b) a statement never changes a row that somebody else has locked *)
Theorem statement_respects_foreign_locks bl sch st s args k :
  bl k = true ->
  lookup k (ts_rows (r_state (exec_l bl sch st s args))) = lookup k (ts_rows st).
Proof.
  intro B.
  assert (D : forall a b : option row, {a = b} + {a <> b}) by (decide equality; apply row_eq_dec).
  destruct (D (lookup k (ts_rows (r_state (exec_l bl sch st s args)))) (lookup k (ts_rows st))) as [E|N]; auto.
  apply statement_changes_only_locked_rows, statement_locks_are_free in N. congruence.
Qed.
