(* C08 — proofs about the undo-log codec model. *)
From Coq Require Import List NArith ZArith Bool Lia String.
From Coq Require Import ZifyN ZifyNat ZifyBool.
From SeataV Require Import Base.Bytes At.Values At.UndoCodec.
Import ListNotations.
Open Scope N_scope.

(* ================================================================ base64 *)
Definition b64_chk (n : N) : bool :=
  match b64_val (b64_char n) with Some m => m =? n | None => false end
  && negb (is_pad (b64_char n)) && not_crlf (b64_char n) && (b2n (b64_char n) <? 128).

Lemma b64_chk_all : forallb b64_chk (map N.of_nat (seq 0 64)) = true.
Proof. vm_compute. reflexivity. Qed.

Lemma b64_chk_lt n : n < 64 -> b64_chk n = true.
Proof.
  intro H. pose proof b64_chk_all as A. rewrite forallb_forall in A. apply A.
  rewrite <- (N2Nat.id n). apply in_map. apply in_seq. lia.
Qed.

Lemma b64_val_char n : n < 64 -> b64_val (b64_char n) = Some n.
Proof.
  intro H. apply b64_chk_lt in H. unfold b64_chk in H.
  destruct (b64_val (b64_char n)) as [m|]; cbn in H; [|discriminate].
  destruct (m =? n) eqn:E; cbn in H; [|discriminate]. apply N.eqb_eq in E. now subst.
Qed.
Lemma b64_char_nopad n : n < 64 -> is_pad (b64_char n) = false.
Proof.
  intro H. apply b64_chk_lt in H. unfold b64_chk in H.
  destruct (is_pad (b64_char n)); [|reflexivity].
  rewrite andb_false_r in H. cbn in H. discriminate.
Qed.
Definition plain_char (c : byte) : Prop := not_crlf c = true /\ b2n c < 128.
Lemma b64_char_plain n : n < 64 -> plain_char (b64_char n).
Proof.
  intro H. apply b64_chk_lt in H. unfold b64_chk in H.
  repeat rewrite andb_true_iff in H. destruct H as [[_ H1] H2]. split; [exact H1|lia].
Qed.
Lemma pad_plain : plain_char b64_pad.
Proof. split; [reflexivity|vm_compute; reflexivity]. Qed.

Lemma strict_unfold c1 c2 c3 c4 c r :
  b64_strict (c1 :: c2 :: c3 :: c4 :: c :: r) =
  match b64_val c1, b64_val c2 with
  | Some v1, Some v2 =>
      match b64_val c3, b64_val c4, b64_strict (c :: r) with
      | Some v3, Some v4, Some out =>
          Some (n2b (v1 * 4 + v2 / 16) :: n2b ((v2 mod 16) * 16 + v3 / 4) :: n2b ((v3 mod 4) * 64 + v4) :: out)
      | _, _, _ => None
      end
  | _, _ => None
  end.
Proof. reflexivity. Qed.

Lemma strict_group v1 v2 v3 v4 rest out :
  v1 < 64 -> v2 < 64 -> v3 < 64 -> v4 < 64 -> b64_strict rest = Some out ->
  b64_strict (b64_char v1 :: b64_char v2 :: b64_char v3 :: b64_char v4 :: rest)
  = Some (n2b (v1 * 4 + v2 / 16) :: n2b ((v2 mod 16) * 16 + v3 / 4) :: n2b ((v3 mod 4) * 64 + v4) :: out).
Proof.
  intros H1 H2 H3 H4 Hr.
  destruct rest as [|c rest'].
  - cbn in Hr. inversion Hr; subst. cbn [b64_strict].
    rewrite !b64_val_char, !b64_char_nopad by assumption. reflexivity.
  - rewrite strict_unfold. rewrite !b64_val_char by assumption. rewrite Hr. reflexivity.
Qed.

Lemma list_ind3 (P : bytes -> Prop) :
  P [] -> (forall a, P [a]) -> (forall a b, P [a; b]) ->
  (forall a b c r, P r -> P (a :: b :: c :: r)) -> forall l, P l.
Proof.
  intros H0 H1 H2 H3. fix IH 1. intros [|a [|b [|c r]]]; [apply H0|apply H1|apply H2|apply H3; apply IH].
Qed.

Lemma b64_strict_encode l : b64_strict (b64_encode l) = Some l.
Proof.
  induction l as [|a|a b|a b c r IH] using list_ind3.
  - reflexivity.
  - cbn [b64_encode]. pose proof (b2n_lt a) as Ha. set (x := b2n a) in *.
    cbn [b64_strict].
    rewrite !b64_val_char by lia.
    replace (is_pad b64_pad) with true by reflexivity.
    f_equal. f_equal. rewrite <- (n2b_b2n a). fold x. f_equal. lia.
  - cbn [b64_encode]. pose proof (b2n_lt a) as Ha. pose proof (b2n_lt b) as Hb.
    set (x := b2n a) in *. set (y := b2n b) in *. set (n := x * 256 + y).
    cbn [b64_strict].
    rewrite !b64_val_char by lia.
    rewrite (b64_char_nopad ((n mod 16) * 4)) by lia.
    replace (is_pad b64_pad) with true by reflexivity.
    f_equal. rewrite <- (n2b_b2n a), <- (n2b_b2n b). fold x y.
    f_equal; [f_equal; lia|]. f_equal. f_equal. lia.
  - cbn [b64_encode]. pose proof (b2n_lt a) as Ha. pose proof (b2n_lt b) as Hb. pose proof (b2n_lt c) as Hc.
    set (x := b2n a) in *. set (y := b2n b) in *. set (z := b2n c) in *.
    set (n := x * 65536 + y * 256 + z).
    rewrite (strict_group _ _ _ _ _ r) by (try lia; exact IH).
    f_equal. rewrite <- (n2b_b2n a), <- (n2b_b2n b), <- (n2b_b2n c). fold x y z.
    f_equal; [f_equal; lia|]. f_equal; [f_equal; lia|]. f_equal. f_equal. lia.
Qed.

Lemma b64_encode_plain l : Forall plain_char (b64_encode l).
Proof.
  induction l as [|a|a b|a b c r IH] using list_ind3; cbn [b64_encode].
  - constructor.
  - pose proof (b2n_lt a). repeat constructor; try apply pad_plain; apply b64_char_plain; lia.
  - pose proof (b2n_lt a). pose proof (b2n_lt b).
    repeat constructor; try apply pad_plain; apply b64_char_plain; lia.
  - pose proof (b2n_lt a). pose proof (b2n_lt b). pose proof (b2n_lt c).
    repeat (constructor; [apply b64_char_plain; lia|]). exact IH.
Qed.

Lemma filter_plain l : Forall plain_char l -> filter not_crlf l = l.
Proof.
  induction 1 as [|c l [Hc _] _ IH]; cbn; [reflexivity|]. rewrite Hc, IH. reflexivity.
Qed.

Theorem b64_roundtrip l : b64_decode (b64_encode l) = Some l.
Proof. unfold b64_decode. rewrite filter_plain by apply b64_encode_plain. apply b64_strict_encode. Qed.

Lemma ascii_valid l : Forall plain_char l -> valid_utf8 l = true.
Proof.
  induction 1 as [|c l [_ Hc] _ IH]; [reflexivity|].
  cbn [valid_utf8]. replace (b2n c <? 128) with true by lia. exact IH.
Qed.
Lemma b64_valid l : valid_utf8 (b64_encode l) = true.
Proof. apply ascii_valid, b64_encode_plain. Qed.

(* ================================================================ small facts *)
Open Scope Z_scope.
Lemma tm_eqb_refl t : tm_eqb t t = true.
Proof. unfold tm_eqb. rewrite !Z.eqb_refl. reflexivity. Qed.

Lemma finite_not_nan b : f64_finite b = true -> f64_nan b = false.
Proof.
  unfold f64_finite, f64_nan. intro H. apply andb_true_iff in H. destruct H as [_ H].
  destruct (f64_exp b =? 2047)%N; [discriminate|reflexivity].
Qed.
Lemma f64_eq_refl b : f64_finite b = true -> f64_eq b b = true.
Proof. intro H. unfold f64_eq. rewrite (finite_not_nan _ H), N.eqb_refl. reflexivity. Qed.

Lemma fits16_64 z : fits W16 z = true -> in_int64 z = true.
Proof. unfold in_int64, fits. lia. Qed.

Lemma executor_eq_refl v : val_wf v = true -> executor_eq v v = true.
Proof.
  destruct v; cbn; intro H; try discriminate; auto.
  - rewrite N.eqb_refl, Z.eqb_refl. reflexivity.
  - now apply f64_eq_refl.
  - apply bytes_eqb_refl.
  - apply bytes_eqb_refl.
  - apply tm_eqb_refl.
Qed.

(* ================================================================ one value *)
Section Value.
Variable T : gotable.
Variable fmt_time : tm -> bytes.
Variable parse_time : bytes -> option tm.
Hypothesis time_rt : forall t, tm_wf t = true -> parse_time (fmt_time t) = Some t.
Hypothesis time_ascii : forall t, tm_wf t = true -> valid_utf8 (fmt_time t) = true.
Hypothesis Hb64 : tb_str_b64 T = true.
Hypothesis Hnum : tb_use_number T = true.

Lemma value_roundtrip ty v :
  val_wf v = true -> adequate (kind_of v) (lookupZ ty (tb_cases T)) = true ->
  exists j, marshal_value T fmt_time v = Some j /\ json_clean j = true /\
  exists v', unmarshal_value T parse_time ty j = Ok v' /\ executor_eq v v' = true.
Proof.
  intros Hwf Had. destruct v as [|w z|b|s|b|t|b|]; cbn in Hwf; try discriminate.
  - exists JNull. repeat split. exists GNil. split; reflexivity.
  - apply andb_true_iff in Hwf. destruct Hwf as [_ Hz].
    exists (JNum (num_of_int z)). split; [reflexivity|]. split; [reflexivity|].
    assert (Hn : n_int (num_of_int z) = Some z) by (unfold num_of_int; cbn; now rewrite Hz).
    assert (Hg : generic_value (JNum (num_of_int z)) = Ok (GInt W64 z)) by (cbn [generic_value]; now rewrite Hn).
    assert (He : forall w', executor_eq (GInt w z) (GInt w' z) = true)
      by (intro; cbn; now rewrite N.eqb_refl, Z.eqb_refl).
    cbn in Had. unfold unmarshal_value, as_number. rewrite Hnum.
    destruct (lookupZ ty (tb_cases T)) as [[| w' | | | src]|]; try discriminate;
      try (rewrite Hg; eexists; split; [reflexivity|apply He]).
    rewrite Hn. eexists; split; [reflexivity|apply He].
  - exists (JNum (num_of_f64 b)). cbn [marshal_value]. rewrite Hwf. split; [reflexivity|]. split; [reflexivity|].
    cbn in Had. destruct (lookupZ ty (tb_cases T)) as [[| w' | | | src]|] eqn:E; try discriminate.
    unfold unmarshal_value. rewrite E. cbn. exists (GF64 b). split; [reflexivity|]. cbn. now apply f64_eq_refl.
  - exists (JStr (b64_encode s)). cbn [marshal_value]. rewrite Hb64. split; [reflexivity|].
    split; [cbn; apply b64_valid|].
    cbn in Had. unfold unmarshal_value.
    destruct (lookupZ ty (tb_cases T)) as [[| w' | | | src]|]; try discriminate;
      cbn [generic_value]; rewrite b64_roundtrip; eexists; (split; [reflexivity|cbn; apply bytes_eqb_refl]).
  - exists (JStr (b64_encode b)). split; [reflexivity|]. split; [cbn; apply b64_valid|].
    cbn in Had. unfold unmarshal_value.
    destruct (lookupZ ty (tb_cases T)) as [[| w' | | | src]|]; try discriminate;
      cbn [generic_value]; rewrite b64_roundtrip; eexists; (split; [reflexivity|cbn; apply bytes_eqb_refl]).
  - assert (Hy : between 0 (t_year t) 9999 = true).
    { pose proof Hwf as Hy0. unfold tm_wf in Hy0. do 8 (apply andb_true_iff in Hy0; destruct Hy0 as [Hy0 _]). exact Hy0. }
    exists (JStr (fmt_time t)). cbn [marshal_value]. rewrite Hy. split; [reflexivity|].
    split; [cbn; now apply time_ascii|].
    cbn in Had. destruct (lookupZ ty (tb_cases T)) as [[| w' | | | src]|] eqn:E; try discriminate.
    unfold unmarshal_value. rewrite E. rewrite (time_rt _ Hwf). exists (GTime t). split; [reflexivity|].
    cbn. apply tm_eqb_refl.
Qed.
End Value.

(* ================================================================ lists *)
Lemma map_roundtrip {A J} (ok : A -> bool) (f : A -> option J) (g : J -> res A)
      (cl : J -> bool) (R : A -> A -> bool) :
  (forall a, ok a = true -> exists j, f a = Some j /\ cl j = true /\ exists b, g j = Ok b /\ R a b = true) ->
  forall l, forallb ok l = true ->
  exists js, mapO f l = Some js /\ forallb cl js = true /\ exists bs, mapM g js = Ok bs /\ all2 R l bs = true.
Proof.
  intros H l. induction l as [|a l IH]; intro Hl.
  - exists []. repeat split. exists []. split; reflexivity.
  - cbn in Hl. apply andb_true_iff in Hl. destruct Hl as [Ha Hl].
    destruct (H a Ha) as (j & Hf & Hc & b & Hg & Hr).
    destruct (IH Hl) as (js & Hfs & Hcs & bs & Hgs & Hrs).
    exists (j :: js). cbn. rewrite Hf, Hfs, Hc, Hcs. repeat split.
    exists (b :: bs). rewrite Hg. cbn. rewrite Hgs. cbn. rewrite Hr, Hrs. split; reflexivity.
Qed.

(* ================================================================ json serializer *)
Lemma col_obj_get a b c d :
  let l := [(k_keyType, a); (k_name, b); (k_type, c); (k_value, d)] in
  jobj_get k_keyType l = Some a /\ jobj_get k_name l = Some b /\ jobj_get k_type l = Some c
  /\ jobj_get k_value l = Some d.
Proof. vm_compute. repeat split. Qed.

Lemma row_obj_get a : jobj_get k_fields [(k_fields, a)] = Some a.
Proof. vm_compute. reflexivity. Qed.

Lemma image_obj_get a b c :
  let l := [(k_tableName, a); (k_sqlType, b); (k_rows, c)] in
  jobj_get k_tableName l = Some a /\ jobj_get k_sqlType l = Some b /\ jobj_get k_rows l = Some c.
Proof. vm_compute. repeat split. Qed.

Lemma item_obj_get a b c d :
  let l := [(k_sqlType, a); (k_tableName, b); (k_beforeImage, c); (k_afterImage, d)] in
  jobj_get k_sqlType l = Some a /\ jobj_get k_tableName l = Some b /\ jobj_get k_beforeImage l = Some c
  /\ jobj_get k_afterImage l = Some d.
Proof. vm_compute. repeat split. Qed.

Lemma log_obj_get a b c :
  let l := [(k_xid, a); (k_branchId, b); (k_sqlUndoLogs, c)] in
  jobj_get k_xid l = Some a /\ jobj_get k_branchId l = Some b /\ jobj_get k_sqlUndoLogs l = Some c.
Proof. vm_compute. repeat split. Qed.

Section Json.
Variable T : gotable.
Variable fmt_time : tm -> bytes.
Variable parse_time : bytes -> option tm.
Hypothesis time_rt : forall t, tm_wf t = true -> parse_time (fmt_time t) = Some t.
Hypothesis time_ascii : forall t, tm_wf t = true -> valid_utf8 (fmt_time t) = true.
Hypothesis Hwf : wf_table T = true.

Lemma wf_parts :
  tb_str_b64 T = true /\ tb_use_number T = true
  /\ (forall p, In p emit_pairs -> adequate (snd p) (lookupZ (fst p) (tb_cases T)) = true)
  /\ (forall s, In s emitted_sqltypes -> sql_parse T (sql_text T s) = s /\ valid_utf8 (sql_text T s) = true)
  /\ select T s_None = CNone.
Proof.
  pose proof Hwf as W. unfold wf_table in W. repeat rewrite andb_true_iff in W.
  destruct W as [[[[[[[G B] U] NU] AD] SQ] SV] CN].
  split; [exact B|]. split; [exact U|]. split; [|split].
  - intros p Hp. rewrite forallb_forall in AD. now apply AD.
  - intros s Hs. rewrite forallb_forall in SQ, SV. split; [apply Z.eqb_eq; now apply SQ|now apply SV].
  - destruct (select T s_None); try discriminate; reflexivity.
Qed.

Lemma sqltype_ok s : existsb (Z.eqb s) emitted_sqltypes = true ->
  sql_parse T (sql_text T s) = s /\ valid_utf8 (sql_text T s) = true.
Proof.
  intro H. apply existsb_exists in H. destruct H as (x & Hin & Hx). apply Z.eqb_eq in Hx. subst x.
  now apply wf_parts.
Qed.

Lemma col_roundtrip c : col_ok c = true ->
  exists j, marshal_col T fmt_time c = Some j /\ json_clean j = true /\
  exists c', unmarshal_col T parse_time j = Ok c' /\ col_equiv executor_eq c c' = true.
Proof.
  intro H. unfold col_ok in H.
  apply andb_true_iff in H. destruct H as [H Hk].
  apply andb_true_iff in H. destruct H as [H H16].
  apply andb_true_iff in H. destruct H as [Hn Hv].
  destruct wf_parts as (Hb & Hu & Had & _).
  assert (A : adequate (kind_of (c_val c)) (lookupZ (c_type c) (tb_cases T)) = true).
  { apply orb_true_iff in Hk. destruct Hk as [Hk|Hk].
    - destruct (kind_of (c_val c)); try discriminate. reflexivity.
    - apply existsb_exists in Hk. destruct Hk as (p & Hin & Hp).
      apply andb_true_iff in Hp. destruct Hp as [Hp1 Hp2]. apply Z.eqb_eq in Hp1.
      specialize (Had p Hin). rewrite Hp1 in Had.
      destruct (snd p), (kind_of (c_val c)); try discriminate; exact Had. }
  destruct (value_roundtrip T fmt_time parse_time time_rt time_ascii Hb Hu (c_type c) (c_val c) Hv A)
    as (jv & Hm & Hc & v' & Hum & He).
  unfold marshal_col. rewrite Hm. eexists. split; [reflexivity|]. split.
  - cbn [json_clean forallb]. rewrite Hc, Hn.
    destruct (c_pk c); reflexivity.
  - unfold unmarshal_col.
    destruct (col_obj_get (JStr (if c_pk c then s_PRIMARY_KEY else s_NULL)) (JStr (c_name c))
                          (JNum (num_of_int (c_type c))) jv) as (G1 & G2 & G3 & G4).
    cbn zeta in G1, G2, G3, G4. rewrite G1, G2, G3, G4.
    unfold num_of_int at 1. cbn [n_int]. rewrite (fits16_64 _ H16), H16, Hum. cbn [rbind].
    eexists. split; [reflexivity|].
    unfold col_equiv. cbn [c_pk c_name c_type c_val]. rewrite bytes_eqb_refl, Z.eqb_refl, He.
    destruct (c_pk c); reflexivity.
Qed.
End Json.
