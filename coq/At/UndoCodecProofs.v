(* C08 — proofs about the undo-log codec model. *)
From Coq Require Import List NArith ZArith Bool Lia String.
From Coq Require Import ZifyN ZifyNat ZifyBool.
From SeataV Require Import Base.Bytes At.Values At.UndoCodec.
Import ListNotations.
Open Scope N_scope.

(* ================================================================ base64 *)
Definition b64_chk (n : N) : bool :=
  match b64_val (b64_char n) with Some m => m =? n | None => false end
  && negb (is_pad (b64_char n)) && not_crlf (b64_char n) && (b2n (b64_char n) <? 128).

Lemma b64_chk_all : forallb b64_chk (map N.of_nat (seq 0 64)) = true.
Proof. vm_compute. reflexivity. Qed.

Lemma b64_chk_lt n : n < 64 -> b64_chk n = true.
Proof.
  intro H. pose proof b64_chk_all as A. rewrite forallb_forall in A. apply A.
  rewrite <- (N2Nat.id n). apply in_map. apply in_seq. lia.
Qed.

Lemma b64_val_char n : n < 64 -> b64_val (b64_char n) = Some n.
Proof.
  intro H. apply b64_chk_lt in H. unfold b64_chk in H.
  destruct (b64_val (b64_char n)) as [m|]; cbn in H; [|discriminate].
  destruct (m =? n) eqn:E; cbn in H; [|discriminate]. apply N.eqb_eq in E. now subst.
Qed.
Lemma b64_char_nopad n : n < 64 -> is_pad (b64_char n) = false.
Proof.
  intro H. apply b64_chk_lt in H. unfold b64_chk in H.
  destruct (is_pad (b64_char n)); [|reflexivity].
  rewrite andb_false_r in H. cbn in H. discriminate.
Qed.
Definition plain_char (c : byte) : Prop := not_crlf c = true /\ b2n c < 128.
Lemma b64_char_plain n : n < 64 -> plain_char (b64_char n).
Proof.
  intro H. apply b64_chk_lt in H. unfold b64_chk in H.
  repeat rewrite andb_true_iff in H. destruct H as [[_ H1] H2]. split; [exact H1|lia].
Qed.
Lemma pad_plain : plain_char b64_pad.
Proof. split; [reflexivity|vm_compute; reflexivity]. Qed.

Lemma strict_unfold c1 c2 c3 c4 c r :
  b64_strict (c1 :: c2 :: c3 :: c4 :: c :: r) =
  match b64_val c1, b64_val c2 with
  | Some v1, Some v2 =>
      match b64_val c3, b64_val c4, b64_strict (c :: r) with
      | Some v3, Some v4, Some out =>
          Some (n2b (v1 * 4 + v2 / 16) :: n2b ((v2 mod 16) * 16 + v3 / 4) :: n2b ((v3 mod 4) * 64 + v4) :: out)
      | _, _, _ => None
      end
  | _, _ => None
  end.
Proof. reflexivity. Qed.

Lemma strict_group v1 v2 v3 v4 rest out :
  v1 < 64 -> v2 < 64 -> v3 < 64 -> v4 < 64 -> b64_strict rest = Some out ->
  b64_strict (b64_char v1 :: b64_char v2 :: b64_char v3 :: b64_char v4 :: rest)
  = Some (n2b (v1 * 4 + v2 / 16) :: n2b ((v2 mod 16) * 16 + v3 / 4) :: n2b ((v3 mod 4) * 64 + v4) :: out).
Proof.
  intros H1 H2 H3 H4 Hr.
  destruct rest as [|c rest'].
  - cbn in Hr. inversion Hr; subst. cbn [b64_strict].
    rewrite !b64_val_char, !b64_char_nopad by assumption. reflexivity.
  - rewrite strict_unfold. rewrite !b64_val_char by assumption. rewrite Hr. reflexivity.
Qed.

Lemma list_ind3 (P : bytes -> Prop) :
  P [] -> (forall a, P [a]) -> (forall a b, P [a; b]) ->
  (forall a b c r, P r -> P (a :: b :: c :: r)) -> forall l, P l.
Proof.
  intros H0 H1 H2 H3. fix IH 1. intros [|a [|b [|c r]]]; [apply H0|apply H1|apply H2|apply H3; apply IH].
Qed.

Lemma b64_strict_encode l : b64_strict (b64_encode l) = Some l.
Proof.
  induction l as [|a|a b|a b c r IH] using list_ind3.
  - reflexivity.
  - cbn [b64_encode]. pose proof (b2n_lt a) as Ha. set (x := b2n a) in *.
    cbn [b64_strict].
    rewrite !b64_val_char by lia.
    replace (is_pad b64_pad) with true by reflexivity.
    f_equal. f_equal. rewrite <- (n2b_b2n a). fold x. f_equal. lia.
  - cbn [b64_encode]. pose proof (b2n_lt a) as Ha. pose proof (b2n_lt b) as Hb.
    set (x := b2n a) in *. set (y := b2n b) in *. set (n := x * 256 + y).
    cbn [b64_strict].
    rewrite !b64_val_char by lia.
    rewrite (b64_char_nopad ((n mod 16) * 4)) by lia.
    replace (is_pad b64_pad) with true by reflexivity.
    f_equal. rewrite <- (n2b_b2n a), <- (n2b_b2n b). fold x y.
    f_equal; [f_equal; lia|]. f_equal. f_equal. lia.
  - cbn [b64_encode]. pose proof (b2n_lt a) as Ha. pose proof (b2n_lt b) as Hb. pose proof (b2n_lt c) as Hc.
    set (x := b2n a) in *. set (y := b2n b) in *. set (z := b2n c) in *.
    set (n := x * 65536 + y * 256 + z).
    rewrite (strict_group _ _ _ _ _ r) by (try lia; exact IH).
    f_equal. rewrite <- (n2b_b2n a), <- (n2b_b2n b), <- (n2b_b2n c). fold x y z.
    f_equal; [f_equal; lia|]. f_equal; [f_equal; lia|]. f_equal. f_equal. lia.
Qed.

Lemma b64_encode_plain l : Forall plain_char (b64_encode l).
Proof.
  induction l as [|a|a b|a b c r IH] using list_ind3; cbn [b64_encode].
  - constructor.
  - pose proof (b2n_lt a). repeat constructor; try apply pad_plain; apply b64_char_plain; lia.
  - pose proof (b2n_lt a). pose proof (b2n_lt b).
    repeat constructor; try apply pad_plain; apply b64_char_plain; lia.
  - pose proof (b2n_lt a). pose proof (b2n_lt b). pose proof (b2n_lt c).
    repeat (constructor; [apply b64_char_plain; lia|]). exact IH.
Qed.

Lemma filter_plain l : Forall plain_char l -> filter not_crlf l = l.
Proof.
  induction 1 as [|c l [Hc _] _ IH]; cbn; [reflexivity|]. rewrite Hc, IH. reflexivity.
Qed.

Theorem b64_roundtrip l : b64_decode (b64_encode l) = Some l.
Proof. unfold b64_decode. rewrite filter_plain by apply b64_encode_plain. apply b64_strict_encode. Qed.

Lemma ascii_valid l : Forall plain_char l -> valid_utf8 l = true.
Proof.
  induction 1 as [|c l [_ Hc] _ IH]; [reflexivity|].
  cbn [valid_utf8]. replace (b2n c <? 128) with true by lia. exact IH.
Qed.
Lemma b64_valid l : valid_utf8 (b64_encode l) = true.
Proof. apply ascii_valid, b64_encode_plain. Qed.

(* ================================================================ small facts *)
Open Scope Z_scope.
Lemma tm_eqb_refl t : tm_eqb t t = true.
Proof. unfold tm_eqb. rewrite !Z.eqb_refl. reflexivity. Qed.

Lemma finite_not_nan b : f64_finite b = true -> f64_nan b = false.
Proof.
  unfold f64_finite, f64_nan. intro H. apply andb_true_iff in H. destruct H as [_ H].
  destruct (f64_exp b =? 2047)%N; [discriminate|reflexivity].
Qed.
Lemma f64_eq_refl b : f64_finite b = true -> f64_eq b b = true.
Proof. intro H. unfold f64_eq. rewrite (finite_not_nan _ H), N.eqb_refl. reflexivity. Qed.

Lemma fits16_64 z : fits W16 z = true -> in_int64 z = true.
Proof. unfold in_int64, fits. lia. Qed.

Lemma executor_eq_refl v : val_wf v = true -> executor_eq v v = true.
Proof.
  destruct v; cbn; intro H; try discriminate; auto.
  - rewrite N.eqb_refl, Z.eqb_refl. reflexivity.
  - now apply f64_eq_refl.
  - apply bytes_eqb_refl.
  - apply bytes_eqb_refl.
  - apply tm_eqb_refl.
Qed.

(* ================================================================ one value *)
Section Value.
Variable T : gotable.
Variable fmt_time : tm -> bytes.
Variable parse_time : bytes -> option tm.
Hypothesis time_rt : forall t, tm_wf t = true -> parse_time (fmt_time t) = Some t.
Hypothesis time_ascii : forall t, tm_wf t = true -> valid_utf8 (fmt_time t) = true.
Hypothesis Hb64 : tb_str_b64 T = true.
Hypothesis Hnum : tb_use_number T = true.

Lemma value_roundtrip ty v :
  val_wf v = true -> adequate (kind_of v) (lookupZ ty (tb_cases T)) = true ->
  exists j, marshal_value T fmt_time v = Some j /\ json_clean j = true /\
  exists v', unmarshal_value T parse_time ty j = Ok v' /\ executor_eq v v' = true.
Proof.
  intros Hwf Had. destruct v as [|w z|b|s|b|t|b|]; cbn in Hwf; try discriminate.
  - exists JNull. repeat split. exists GNil. split; reflexivity.
  - apply andb_true_iff in Hwf. destruct Hwf as [_ Hz].
    exists (JNum (num_of_int z)). split; [reflexivity|]. split; [reflexivity|].
    assert (Hn : n_int (num_of_int z) = Some z) by (unfold num_of_int; cbn; now rewrite Hz).
    assert (Hg : generic_value (JNum (num_of_int z)) = Ok (GInt W64 z)) by (cbn [generic_value]; now rewrite Hn).
    assert (He : forall w', executor_eq (GInt w z) (GInt w' z) = true)
      by (intro; cbn; now rewrite N.eqb_refl, Z.eqb_refl).
    cbn in Had. unfold unmarshal_value, as_number. rewrite Hnum.
    destruct (lookupZ ty (tb_cases T)) as [[| w' | | | src]|]; try discriminate;
      try (rewrite Hg; eexists; split; [reflexivity|apply He]).
    rewrite Hn. eexists; split; [reflexivity|apply He].
  - exists (JNum (num_of_f64 b)). cbn [marshal_value]. rewrite Hwf. split; [reflexivity|]. split; [reflexivity|].
    cbn in Had. destruct (lookupZ ty (tb_cases T)) as [[| w' | | | src]|] eqn:E; try discriminate.
    unfold unmarshal_value. rewrite E. cbn. exists (GF64 b). split; [reflexivity|]. cbn. now apply f64_eq_refl.
  - exists (JStr (b64_encode s)). cbn [marshal_value]. rewrite Hb64. split; [reflexivity|].
    split; [cbn; apply b64_valid|].
    cbn in Had. unfold unmarshal_value.
    destruct (lookupZ ty (tb_cases T)) as [[| w' | | | src]|]; try discriminate;
      cbn [generic_value]; rewrite b64_roundtrip; eexists; (split; [reflexivity|cbn; apply bytes_eqb_refl]).
  - exists (JStr (b64_encode b)). split; [reflexivity|]. split; [cbn; apply b64_valid|].
    cbn in Had. unfold unmarshal_value.
    destruct (lookupZ ty (tb_cases T)) as [[| w' | | | src]|]; try discriminate;
      cbn [generic_value]; rewrite b64_roundtrip; eexists; (split; [reflexivity|cbn; apply bytes_eqb_refl]).
  - assert (Hy : between 0 (t_year t) 9999 = true).
    { pose proof Hwf as Hy0. unfold tm_wf in Hy0. do 8 (apply andb_true_iff in Hy0; destruct Hy0 as [Hy0 _]). exact Hy0. }
    exists (JStr (fmt_time t)). cbn [marshal_value]. rewrite Hy. split; [reflexivity|].
    split; [cbn; now apply time_ascii|].
    cbn in Had. destruct (lookupZ ty (tb_cases T)) as [[| w' | | | src]|] eqn:E; try discriminate.
    unfold unmarshal_value. rewrite E. rewrite (time_rt _ Hwf). exists (GTime t). split; [reflexivity|].
    cbn. apply tm_eqb_refl.
Qed.
End Value.

(* ================================================================ lists *)
Lemma map_roundtrip {A J} (ok : A -> bool) (f : A -> option J) (g : J -> res A)
      (cl : J -> bool) (R : A -> A -> bool) :
  (forall a, ok a = true -> exists j, f a = Some j /\ cl j = true /\ exists b, g j = Ok b /\ R a b = true) ->
  forall l, forallb ok l = true ->
  exists js, mapO f l = Some js /\ forallb cl js = true /\ exists bs, mapM g js = Ok bs /\ all2 R l bs = true.
Proof.
  intros H l. induction l as [|a l IH]; intro Hl.
  - exists []. repeat split. exists []. split; reflexivity.
  - cbn in Hl. apply andb_true_iff in Hl. destruct Hl as [Ha Hl].
    destruct (H a Ha) as (j & Hf & Hc & b & Hg & Hr).
    destruct (IH Hl) as (js & Hfs & Hcs & bs & Hgs & Hrs).
    exists (j :: js). cbn. rewrite Hf, Hfs, Hc, Hcs. repeat split.
    exists (b :: bs). rewrite Hg. cbn. rewrite Hgs. cbn. rewrite Hr, Hrs. split; reflexivity.
Qed.

(* ================================================================ json serializer *)
Lemma col_obj_get a b c d :
  let l := [(k_keyType, a); (k_name, b); (k_type, c); (k_value, d)] in
  jobj_get k_keyType l = Some a /\ jobj_get k_name l = Some b /\ jobj_get k_type l = Some c
  /\ jobj_get k_value l = Some d.
Proof. vm_compute. repeat split. Qed.

Lemma row_obj_get a : jobj_get k_fields [(k_fields, a)] = Some a.
Proof. vm_compute. reflexivity. Qed.

Lemma image_obj_get a b c :
  let l := [(k_tableName, a); (k_sqlType, b); (k_rows, c)] in
  jobj_get k_tableName l = Some a /\ jobj_get k_sqlType l = Some b /\ jobj_get k_rows l = Some c.
Proof. vm_compute. repeat split. Qed.

Lemma item_obj_get a b c d :
  let l := [(k_sqlType, a); (k_tableName, b); (k_beforeImage, c); (k_afterImage, d)] in
  jobj_get k_sqlType l = Some a /\ jobj_get k_tableName l = Some b /\ jobj_get k_beforeImage l = Some c
  /\ jobj_get k_afterImage l = Some d.
Proof. vm_compute. repeat split. Qed.

Lemma log_obj_get a b c :
  let l := [(k_xid, a); (k_branchId, b); (k_sqlUndoLogs, c)] in
  jobj_get k_xid l = Some a /\ jobj_get k_branchId l = Some b /\ jobj_get k_sqlUndoLogs l = Some c.
Proof. vm_compute. repeat split. Qed.

Section Json.
Variable T : gotable.
Variable fmt_time : tm -> bytes.
Variable parse_time : bytes -> option tm.
Hypothesis time_rt : forall t, tm_wf t = true -> parse_time (fmt_time t) = Some t.
Hypothesis time_ascii : forall t, tm_wf t = true -> valid_utf8 (fmt_time t) = true.
Hypothesis Hwf : wf_table T = true.

Lemma wf_parts :
  tb_str_b64 T = true /\ tb_use_number T = true
  /\ (forall p, In p emit_pairs -> adequate (snd p) (lookupZ (fst p) (tb_cases T)) = true)
  /\ (forall s, In s emitted_sqltypes -> sql_parse T (sql_text T s) = s /\ valid_utf8 (sql_text T s) = true)
  /\ select T s_None = CNone.
Proof.
  pose proof Hwf as W. unfold wf_table in W. repeat rewrite andb_true_iff in W.
  destruct W as [[[[[[[G B] U] NU] AD] SQ] SV] CN].
  split; [exact B|]. split; [exact U|]. split; [|split].
  - intros p Hp. rewrite forallb_forall in AD. now apply AD.
  - intros s Hs. rewrite forallb_forall in SQ, SV. split; [apply Z.eqb_eq; now apply SQ|now apply SV].
  - destruct (select T s_None); try discriminate; reflexivity.
Qed.

Lemma sqltype_ok s : existsb (Z.eqb s) emitted_sqltypes = true ->
  sql_parse T (sql_text T s) = s /\ valid_utf8 (sql_text T s) = true.
Proof.
  intro H. apply existsb_exists in H. destruct H as (x & Hin & Hx). apply Z.eqb_eq in Hx. subst x.
  now apply wf_parts.
Qed.

Lemma col_roundtrip c : col_ok c = true ->
  exists j, marshal_col T fmt_time c = Some j /\ json_clean j = true /\
  exists c', unmarshal_col T parse_time j = Ok c' /\ col_equiv executor_eq c c' = true.
Proof.
  intro H. unfold col_ok in H.
  apply andb_true_iff in H. destruct H as [H Hk].
  apply andb_true_iff in H. destruct H as [H H16].
  apply andb_true_iff in H. destruct H as [Hn Hv].
  destruct wf_parts as (Hb & Hu & Had & _).
  assert (A : adequate (kind_of (c_val c)) (lookupZ (c_type c) (tb_cases T)) = true).
  { apply orb_true_iff in Hk. destruct Hk as [Hk|Hk].
    - destruct (kind_of (c_val c)); try discriminate. reflexivity.
    - apply existsb_exists in Hk. destruct Hk as (p & Hin & Hp).
      apply andb_true_iff in Hp. destruct Hp as [Hp1 Hp2]. apply Z.eqb_eq in Hp1.
      specialize (Had p Hin). rewrite Hp1 in Had.
      destruct (snd p), (kind_of (c_val c)); try discriminate; exact Had. }
  destruct (value_roundtrip T fmt_time parse_time time_rt time_ascii Hb Hu (c_type c) (c_val c) Hv A)
    as (jv & Hm & Hc & v' & Hum & He).
  unfold marshal_col. rewrite Hm. eexists. split; [reflexivity|]. split.
  - cbn [json_clean forallb]. rewrite Hc, Hn.
    destruct (c_pk c); reflexivity.
  - unfold unmarshal_col.
    destruct (col_obj_get (JStr (if c_pk c then s_PRIMARY_KEY else s_NULL)) (JStr (c_name c))
                          (JNum (num_of_int (c_type c))) jv) as (G1 & G2 & G3 & G4).
    cbn zeta in G1, G2, G3, G4. rewrite G1, G2, G3, G4.
    unfold num_of_int at 1. cbn [n_int]. rewrite (fits16_64 _ H16), H16, Hum. cbn [rbind].
    eexists. split; [reflexivity|].
    unfold col_equiv. cbn [c_pk c_name c_type c_val]. rewrite bytes_eqb_refl, Z.eqb_refl, He.
    destruct (c_pk c); reflexivity.
Qed.

Lemma row_roundtrip r : forallb col_ok r = true ->
  exists j, marshal_row T fmt_time r = Some j /\ json_clean j = true /\
  exists r', unmarshal_row T parse_time j = Ok r' /\ all2 (col_equiv executor_eq) r r' = true.
Proof.
  intro H.
  destruct (map_roundtrip col_ok (marshal_col T fmt_time) (unmarshal_col T parse_time) json_clean
                          (col_equiv executor_eq) col_roundtrip r H) as (js & Hm & Hc & bs & Hu & Hr).
  unfold marshal_row. rewrite Hm. eexists. split; [reflexivity|]. split.
  - cbn [json_clean forallb]. rewrite Hc. reflexivity.
  - unfold unmarshal_row, get_arr. rewrite row_obj_get. cbn [rbind]. rewrite Hu. eauto.
Qed.

Lemma image_roundtrip i : image_ok i = true ->
  exists j, marshal_image T fmt_time i = Some j /\ json_clean j = true /\
  exists i', unmarshal_image T parse_time j = Ok (Some i') /\ image_equiv executor_eq i i' = true.
Proof.
  intro H. unfold image_ok in H. repeat rewrite andb_true_iff in H. destruct H as [[Ht Hs] Hr].
  destruct (sqltype_ok _ Hs) as [Hs1 Hs2].
  destruct (map_roundtrip (forallb col_ok) (marshal_row T fmt_time) (unmarshal_row T parse_time) json_clean
                          (all2 (col_equiv executor_eq)) row_roundtrip _ Hr) as (js & Hm & Hc & bs & Hu & Hrr).
  unfold marshal_image. rewrite Hm. eexists. split; [reflexivity|]. split.
  - cbn [json_clean forallb]. rewrite Hc, Ht, Hs2. reflexivity.
  - unfold unmarshal_image, get_str, get_arr.
    destruct (image_obj_get (JStr (i_table i)) (JStr (sql_text T (i_sqltype i))) (JArr js)) as (G1 & G2 & G3).
    cbn zeta in G1, G2, G3. rewrite G1, G2, G3. cbn [rbind]. rewrite Hu. cbn [rbind].
    eexists. split; [reflexivity|].
    unfold image_equiv. cbn [i_table i_sqltype i_rows]. rewrite bytes_eqb_refl, Hs1, Z.eqb_refl, Hrr. reflexivity.
Qed.

Lemma oimage_roundtrip o : oimage_ok o = true ->
  exists j, marshal_oimage T fmt_time o = Some j /\ json_clean j = true /\
  exists o', unmarshal_image T parse_time j = Ok o' /\ opt_eqb (image_equiv executor_eq) o o' = true.
Proof.
  destruct o as [i|]; cbn [oimage_ok marshal_oimage]; intro H.
  - destruct (image_roundtrip i H) as (j & A & B & i' & C & D). exists j. repeat split; auto.
    exists (Some i'). split; auto.
  - exists JNull. repeat split. exists None. split; reflexivity.
Qed.

Lemma item_roundtrip it : item_ok it = true ->
  exists j, marshal_item T fmt_time it = Some j /\ json_clean j = true /\
  exists it', unmarshal_item T parse_time j = Ok it' /\ item_equiv executor_eq it it' = true.
Proof.
  intro H. unfold item_ok in H. repeat rewrite andb_true_iff in H. destruct H as [[[Hs Ht] Hb] Ha].
  destruct (sqltype_ok _ Hs) as [Hs1 Hs2].
  destruct (oimage_roundtrip _ Hb) as (jb & B1 & B2 & ob & B3 & B4).
  destruct (oimage_roundtrip _ Ha) as (ja & A1 & A2 & oa & A3 & A4).
  unfold marshal_item. rewrite B1, A1. eexists. split; [reflexivity|]. split.
  - cbn [json_clean forallb]. rewrite B2, A2, Ht, Hs2. reflexivity.
  - unfold unmarshal_item, get_str.
    destruct (item_obj_get (JStr (sql_text T (l_sqltype it))) (JStr (l_table it)) jb ja) as (G1 & G2 & G3 & G4).
    cbn zeta in G1, G2, G3, G4. rewrite G1, G2, G3, G4. cbn [rbind]. rewrite B3. cbn [rbind]. rewrite A3. cbn [rbind].
    eexists. split; [reflexivity|].
    unfold item_equiv. cbn [l_sqltype l_table l_before l_after].
    rewrite Hs1, Z.eqb_refl, bytes_eqb_refl, B4, A4. reflexivity.
Qed.

Theorem json_log_roundtrip u : log_ok u = true ->
  exists j, marshal_log T fmt_time u = Some j /\ json_clean j = true /\
  exists u', unmarshal_log T parse_time j = Ok u' /\ log_equiv executor_eq u u' = true.
Proof.
  intro H. unfold log_ok in H. repeat rewrite andb_true_iff in H. destruct H as [[[Hx Hb0] Hb1] Hi].
  destruct (map_roundtrip item_ok (marshal_item T fmt_time) (unmarshal_item T parse_time) json_clean
                          (item_equiv executor_eq) item_roundtrip _ Hi) as (js & Hm & Hc & bs & Hu & Hr).
  unfold marshal_log. rewrite Hm. eexists. split; [reflexivity|]. split.
  - cbn [json_clean forallb]. rewrite Hc, Hx. reflexivity.
  - unfold unmarshal_log, get_str, get_arr.
    destruct (log_obj_get (JStr (u_xid u)) (JNum (num_of_int (u_branch u))) (JArr js)) as (G1 & G2 & G3).
    cbn zeta in G1, G2, G3. rewrite G1, G2, G3. cbn [rbind].
    assert (Hin : in_int64 (u_branch u) = true) by (unfold in_int64, fits; lia).
    unfold num_of_int. cbn [n_int]. rewrite Hin, Hb0. cbn [rbind]. rewrite Hu. cbn [rbind].
    eexists. split; [reflexivity|].
    unfold log_equiv. cbn [u_xid u_branch u_items]. rewrite bytes_eqb_refl, Z.eqb_refl, Hr. reflexivity.
Qed.
End Json.

(* ================================================================ context codec *)
Definition no_sep (sep : byte) (s : bytes) : bool := forallb (fun c => negb (byte_eqb c sep)) s.

Lemma byte_eqb_refl c : byte_eqb c c = true.
Proof. now apply byte_eqb_eq. Qed.

Lemma split_clean sep s : no_sep sep s = true -> split_on sep s = [s].
Proof.
  induction s as [|c r IH]; cbn; [reflexivity|]. intro H. apply andb_true_iff in H. destruct H as [Hc Hr].
  apply negb_true_iff in Hc. rewrite Hc, (IH Hr). reflexivity.
Qed.
Lemma split_app sep a b : no_sep sep a = true -> split_on sep (a ++ sep :: b) = a :: split_on sep b.
Proof.
  induction a as [|c r IH]; cbn [app split_on no_sep forallb].
  - intros _. rewrite byte_eqb_refl. reflexivity.
  - intro H. apply andb_true_iff in H. destruct H as [Hc Hr]. apply negb_true_iff in Hc.
    rewrite Hc. unfold no_sep in IH. rewrite (IH Hr). reflexivity.
Qed.
Lemma clean_no_sep s : clean_text s = true -> no_sep c_amp s = true /\ no_sep c_eq s = true.
Proof.
  unfold clean_text, no_sep. intro H. rewrite forallb_forall in H.
  split; apply forallb_forall; intros x Hx; specialize (H x Hx); apply andb_true_iff in H; tauto.
Qed.
Lemma no_sep_app sep a b : no_sep sep a = true -> no_sep sep b = true -> no_sep sep (a ++ b) = true.
Proof. unfold no_sep. intros. rewrite forallb_app. now rewrite H, H0. Qed.

Lemma decode_pair_kv k v : no_sep c_eq k = true -> no_sep c_eq v = true ->
  decode_pair (k ++ c_eq :: v) = Some (k, v).
Proof.
  intros Hk Hv. unfold decode_pair. rewrite (split_app _ _ _ Hk), (split_clean _ _ Hv).
  destruct k; reflexivity.
Qed.

Theorem ctx_two_roundtrip k1 v1 k2 v2 :
  clean_text k1 = true -> clean_text v1 = true -> clean_text k2 = true -> clean_text v2 = true ->
  decode_ctx (encode_ctx [(k1, v1); (k2, v2)]) = [(k1, v1); (k2, v2)].
Proof.
  intros A B C D.
  destruct (clean_no_sep _ A) as [A1 A2]. destruct (clean_no_sep _ B) as [B1 B2].
  destruct (clean_no_sep _ C) as [C1 C2]. destruct (clean_no_sep _ D) as [D1 D2].
  cbn [encode_ctx app].
  rewrite app_comm_cons, app_assoc.
  assert (P1 : no_sep c_amp (k1 ++ c_eq :: v1) = true).
  { apply no_sep_app; [exact A1|]. unfold no_sep in *. cbn [forallb]. rewrite B1. reflexivity. }
  assert (P2 : no_sep c_amp (k2 ++ c_eq :: v2) = true).
  { apply no_sep_app; [exact C1|]. unfold no_sep in *. cbn [forallb]. rewrite D1. reflexivity. }
  unfold decode_ctx. rewrite (split_app _ _ _ P1), (split_clean _ _ P2).
  cbn [filter_map]. rewrite !decode_pair_kv by assumption.
  destruct k1; reflexivity.
Qed.

Lemma ctx_get_two (ks kc a b : bytes) : ks = k_serializer -> kc = k_compressor ->
  ctx_get ks [(ks, a); (kc, b)] = Some a /\ ctx_get kc [(ks, a); (kc, b)] = Some b.
Proof. intros -> ->. vm_compute. split; reflexivity. Qed.

Lemma enc_nonempty a b : encode_ctx [(k_serializer, a); (k_compressor, b)] <> [].
Proof. unfold k_serializer. cbn. discriminate. Qed.

(* a '&' in a value breaks the context *)
Lemma ctx_refuted : exists v,
  ctx_get k_compressor (decode_ctx (encode_ctx [(k_serializer, s_json); (k_compressor, v)])) <> Some v.
Proof. exists (bs "Gzip&x"). vm_compute. discriminate. Qed.

(* ================================================================ composition *)
Section Main.
Variable T : gotable.
Variable fmt_time : tm -> bytes.
Variable parse_time : bytes -> option tm.
Variable compress : ckind -> bytes -> bytes.
Variable decompress : ckind -> bytes -> option bytes.
Variable json_print : json -> bytes.
Variable json_parse : bytes -> option json.
Variable pb_print : plog -> bytes.
Variable pb_parse : bytes -> option plog.
Hypothesis time_rt : forall t, tm_wf t = true -> parse_time (fmt_time t) = Some t.
Hypothesis time_ascii : forall t, tm_wf t = true -> valid_utf8 (fmt_time t) = true.
Hypothesis comp_rt : forall k x, decompress k (compress k x) = Some x.
Hypothesis json_rt : forall j, json_clean j = true -> json_parse (json_print j) = Some j.

Notation Flush := (flush T fmt_time compress json_print pb_print).
Notation ReadBack := (read_back T parse_time decompress json_parse pb_parse).

Lemma decomp_comp k x : decompress_by decompress k (compress_by compress k x) = Some x.
Proof. destruct k; cbn; auto. Qed.

Lemma read_after_flush ser d k x :
  clean_text ser = true -> clean_text d = true -> select T d = k ->
  ReadBack (encode_ctx [(k_serializer, ser); (k_compressor, d)]) (compress_by compress k x)
  = if bytes_eqb ser s_json then
      match json_parse x with Some t => unmarshal_log T parse_time t | None => Err end
    else if bytes_eqb ser s_protobuf then
      match pb_parse x with Some p => Ok (of_plog json_parse p) | None => Err end
    else Err.
Proof.
  intros Hs Hd Hk. unfold read_back. cbv zeta.
  destruct (encode_ctx [(k_serializer, ser); (k_compressor, d)]) as [|c0 l0] eqn:E.
  { exfalso. revert E. apply enc_nonempty. }
  rewrite <- E. rewrite ctx_two_roundtrip by (try assumption; reflexivity).
  destruct (ctx_get_two k_serializer k_compressor ser d eq_refl eq_refl) as [G1 G2]. rewrite G2, Hk, decomp_comp. cbv beta iota. rewrite G1. reflexivity.
Qed.

Theorem lossless_json c u :
  wf_table T = true -> bytes_eqb (cf_ser c) s_json = true -> clean_text (cf_ctype c) = true ->
  log_ok u = true ->
  exists ctx info, Flush c u = Some (ctx, info) /\
  exists u', ReadBack ctx info = Ok u' /\ log_equiv executor_eq u u' = true.
Proof.
  intros Hwf Hser Hct Hok.
  destruct (json_log_roundtrip T fmt_time parse_time time_rt time_ascii Hwf u Hok)
    as (j & Hm & Hc & u' & Hu & He).
  destruct (wf_parts T Hwf) as (_ & _ & _ & _ & HN).
  apply bytes_eqb_eq in Hser.
  unfold flush, serialize. rewrite Hser, bytes_eqb_refl, Hm. cbn [option_map].
  eexists. eexists. split; [reflexivity|]. exists u'. split; [|exact He].
  unfold declared. destruct (cf_enable c).
  - rewrite (read_after_flush s_json (cf_ctype c) (select T (cf_ctype c))) by (auto; reflexivity).
    rewrite bytes_eqb_refl, (json_rt _ Hc). exact Hu.
  - change (json_print j) with (compress_by compress CNone (json_print j)).
    rewrite (read_after_flush s_json s_None CNone) by (auto; reflexivity).
    rewrite bytes_eqb_refl, (json_rt _ Hc). exact Hu.
Qed.
End Main.

(* ================================================================ totality: reading back never panics *)
Notation np r := (r <> Panic).
Lemma rbind_np {A B} (r : res A) (f : A -> res B) : np r -> (forall a, np (f a)) -> np (rbind r f).
Proof. destruct r; cbn; intros H1 H2; [apply H2|discriminate|exfalso; now apply H1]. Qed.
Lemma mapM_np {A B} (f : A -> res B) l : (forall a, np (f a)) -> np (mapM f l).
Proof.
  intro H. induction l; cbn; [discriminate|]. apply rbind_np; [apply H|]. intro.
  apply rbind_np; [exact IHl|]. intro. discriminate.
Qed.

Ltac split_matches :=
  repeat (first [ discriminate
                | match goal with |- context [match ?x with _ => _ end] => destruct x eqn:? end ]).

Section Total.
Variable T : gotable.
Variable parse_time : bytes -> option tm.

Lemma generic_np j : np (generic_value j).
Proof. unfold generic_value. split_matches. Qed.

Lemma value_np ty j : np (unmarshal_value T parse_time ty j).
Proof.
  unfold unmarshal_value.
  destruct j; try discriminate;
    destruct (lookupZ ty (tb_cases T)) as [[| w | | | src]|]; try apply generic_np;
    split_matches; try apply generic_np.
Qed.

Lemma col_np j : np (unmarshal_col T parse_time j).
Proof.
  unfold unmarshal_col.
  destruct j; try discriminate.
  destruct (jobj_get k_keyType l) as [[]|]; try discriminate.
  destruct (jobj_get k_name l) as [[]|]; try discriminate.
  destruct (jobj_get k_type l) as [[]|]; try discriminate.
  destruct (n_int n); try discriminate. destruct (fits W16 z); try discriminate.
  apply rbind_np; [apply value_np|]. intro. discriminate.
Qed.

Lemma get_str_np k l : np (get_str k l).
Proof. unfold get_str. split_matches. Qed.
Lemma get_arr_np k l : np (get_arr k l).
Proof. unfold get_arr. split_matches. Qed.

Lemma row_np j : np (unmarshal_row T parse_time j).
Proof.
  unfold unmarshal_row. destruct j; try discriminate.
  apply rbind_np; [apply get_arr_np|]. intro. apply mapM_np. apply col_np.
Qed.
Lemma image_np j : np (unmarshal_image T parse_time j).
Proof.
  unfold unmarshal_image. destruct j; try discriminate.
  apply rbind_np; [apply get_str_np|]. intro. apply rbind_np; [apply get_str_np|]. intro.
  apply rbind_np; [apply get_arr_np|]. intro. apply rbind_np; [apply mapM_np, row_np|]. intro. discriminate.
Qed.
Lemma item_np j : np (unmarshal_item T parse_time j).
Proof.
  unfold unmarshal_item. destruct j; try discriminate.
  apply rbind_np; [apply get_str_np|]. intro. apply rbind_np; [apply get_str_np|]. intro.
  apply rbind_np; [apply image_np|]. intro. apply rbind_np; [apply image_np|]. intro. discriminate.
Qed.
Lemma log_np j : np (unmarshal_log T parse_time j).
Proof.
  unfold unmarshal_log. destruct j; try discriminate.
  apply rbind_np; [apply get_str_np|]. intro. apply rbind_np.
  { split_matches. }
  intro. apply rbind_np; [apply get_arr_np|]. intro. apply rbind_np; [apply mapM_np, item_np|]. intro. discriminate.
Qed.

Theorem read_back_total decompress json_parse pb_parse ctx info :
  read_back T parse_time decompress json_parse pb_parse ctx info <> Panic.
Proof.
  unfold read_back. cbv zeta. destruct ctx; [discriminate|].
  match goal with |- context [match ?x with Some _ => _ | None => _ end] => destruct x end; [|discriminate].
  match goal with |- context [if ?x then _ else _] => destruct x end.
  - destruct (json_parse b0); [apply log_np|discriminate].
  - match goal with |- context [if ?x then _ else _] => destruct x end; [|discriminate].
    destruct (pb_parse b0); discriminate.
Qed.
End Total.

(* ================================================================ protobuf serializer: the preserved value shapes *)
Lemma all2_map {A} (R : A -> A -> bool) (okb : A -> bool) (f : A -> A) l :
  (forall x, okb x = true -> R x (f x) = true) -> forallb okb l = true -> all2 R l (map f l) = true.
Proof.
  intros H. induction l as [|x l IH]; cbn; [reflexivity|]. intro Hl.
  apply andb_true_iff in Hl. destruct Hl as [Hx Hl]. now rewrite (H x Hx), (IH Hl).
Qed.
Lemma forallb_map {A B} (p : B -> bool) (okb : A -> bool) (f : A -> B) l :
  (forall x, okb x = true -> p (f x) = true) -> forallb okb l = true -> forallb p (map f l) = true.
Proof.
  intros H. induction l as [|x l IH]; cbn; [reflexivity|]. intro Hl.
  apply andb_true_iff in Hl. destruct Hl as [Hx Hl]. now rewrite (H x Hx), (IH Hl).
Qed.

Section Pb.
Variable T : gotable.
Variable fmt_time : tm -> bytes.
Variable parse_time : bytes -> option tm.
Variable compress : ckind -> bytes -> bytes.
Variable decompress : ckind -> bytes -> option bytes.
Variable json_print : json -> bytes.
Variable json_parse : bytes -> option json.
Variable pb_print : plog -> bytes.
Variable pb_parse : bytes -> option plog.
Hypothesis comp_rt : forall k x, decompress k (compress k x) = Some x.
Hypothesis json_rt : forall j, json_clean j = true -> json_parse (json_print j) = Some j.
Hypothesis pb_rt : forall p, plog_clean p = true -> pb_parse (pb_print p) = Some p.

Lemma pb_value_rt v : pb_val_ok v = true ->
  exists j, pb_marshal_value fmt_time v = Some j /\ json_clean j = true /\
  exists v', pb_unmarshal_value j = Some v' /\ executor_eq v v' = true.
Proof.
  destruct v as [|w z|b|s|b|t|b|]; cbn [pb_val_ok]; intro H; try discriminate.
  - exists JNull. repeat split. exists GNil. split; reflexivity.
  - apply andb_true_iff in H. destruct H as [_ H].
    exists (JNum (num_of_int z)). repeat split. exists (GF64 (f64_of_Z z)). split; [reflexivity|exact H].
  - exists (JNum (num_of_f64 b)). cbn [pb_marshal_value]. rewrite H. repeat split.
    exists (GF64 b). split; [reflexivity|]. cbn. now apply f64_eq_refl.
  - exists (JStr s). cbn [pb_marshal_value]. unfold utf8_sanitize. rewrite H. split; [reflexivity|].
    split; [exact H|]. exists (GStr s). split; [reflexivity|]. cbn. apply bytes_eqb_refl.
Qed.

Notation ToCol := (to_pcol fmt_time json_print).
Notation OfCol := (of_pcol json_parse).

Lemma pcol_rt c : pcol_ok c = true ->
  exists p, ToCol c = Some p /\ valid_utf8 (p_name p) = true /\
  exists c', OfCol p = Some c' /\ col_equiv executor_eq c c' = true.
Proof.
  intro H. apply andb_true_iff in H. destruct H as [Hn Hv].
  destruct (pb_value_rt _ Hv) as (j & Hm & Hc & v' & Hu & He).
  unfold to_pcol. rewrite Hm. eexists. split; [reflexivity|]. split; [exact Hn|].
  unfold of_pcol. cbn [p_val p_pk p_name p_type]. rewrite (json_rt _ Hc), Hu.
  eexists. split; [reflexivity|]. unfold col_equiv. cbn [c_pk c_name c_type c_val].
  rewrite bytes_eqb_refl, Z.eqb_refl, He. destruct (c_pk c); reflexivity.
Qed.

Lemma prow_rt r : forallb pcol_ok r = true ->
  forallb (fun c => valid_utf8 (p_name c)) (filter_map ToCol r) = true
  /\ all2 (col_equiv executor_eq) r (filter_map OfCol (filter_map ToCol r)) = true.
Proof.
  induction r as [|c r IH]; cbn [forallb filter_map]; [split; reflexivity|]. intro H.
  apply andb_true_iff in H. destruct H as [Hc Hr].
  destruct (pcol_rt c Hc) as (p & Hp & Hn & c' & Hc' & He). destruct (IH Hr) as [I1 I2].
  rewrite Hp. cbn [forallb filter_map]. rewrite Hc'. cbn [all2]. rewrite Hn, I1, He, I2. split; reflexivity.
Qed.

Lemma pimage_rt o : pimage_ok o = true ->
  match option_map (to_pimage fmt_time json_print) o with
  | Some i => valid_utf8 (pi_table i) && forallb (forallb (fun c => valid_utf8 (p_name c))) (pi_rows i)
  | None => true
  end = true
  /\ opt_eqb (image_equiv executor_eq) o
       (option_map (of_pimage json_parse) (option_map (to_pimage fmt_time json_print) o)) = true.
Proof.
  destruct o as [i|]; cbn [pimage_ok option_map opt_eqb]; [|split; reflexivity]. intro H.
  apply andb_true_iff in H. destruct H as [Ht Hr].
  unfold to_pimage, of_pimage, image_equiv. cbn [pi_table pi_sqltype pi_rows i_table i_sqltype i_rows].
  rewrite Ht, bytes_eqb_refl, Z.eqb_refl, map_map. split.
  - cbn. apply (forallb_map _ (forallb pcol_ok)); [|exact Hr]. intros r Hrr. now apply prow_rt.
  - cbn. apply (all2_map _ (forallb pcol_ok)); [|exact Hr]. intros r Hrr. now apply prow_rt.
Qed.

Lemma plog_rt u : log_pb_ok u = true ->
  plog_clean (to_plog fmt_time json_print u) = true
  /\ log_equiv executor_eq u (of_plog json_parse (to_plog fmt_time json_print u)) = true.
Proof.
  intro H. unfold log_pb_ok in H. apply andb_true_iff in H. destruct H as [Hx Hi].
  unfold plog_clean, to_plog, of_plog, log_equiv. cbn [pu_xid pu_branch pu_items u_xid u_branch u_items].
  rewrite Hx, bytes_eqb_refl, Z.eqb_refl, map_map. cbn [andb]. split.
  - apply (forallb_map _ (fun it => valid_utf8 (l_table it) && pimage_ok (l_before it) && pimage_ok (l_after it)));
      [|exact Hi].
    intros it Hit. repeat rewrite andb_true_iff in Hit. destruct Hit as [[Ht Hb] Ha].
    cbn [pl_table pl_before pl_after]. rewrite Ht.
    destruct (pimage_rt _ Hb) as [B _]. destruct (pimage_rt _ Ha) as [A _].
    unfold option_map in *. destruct (l_before it), (l_after it); cbn in *; rewrite ?B, ?A; reflexivity.
  - apply (all2_map _ (fun it => valid_utf8 (l_table it) && pimage_ok (l_before it) && pimage_ok (l_after it)));
      [|exact Hi].
    intros it Hit. repeat rewrite andb_true_iff in Hit. destruct Hit as [[Ht Hb] Ha].
    unfold item_equiv. cbn [l_sqltype l_table l_before l_after pl_sqltype pl_table pl_before pl_after].
    rewrite Z.eqb_refl, bytes_eqb_refl.
    destruct (pimage_rt _ Hb) as [_ B]. destruct (pimage_rt _ Ha) as [_ A]. rewrite B, A. reflexivity.
Qed.

Theorem lossless_protobuf_partial c u :
  select T s_None = CNone -> bytes_eqb (cf_ser c) s_protobuf = true -> clean_text (cf_ctype c) = true ->
  log_pb_ok u = true ->
  exists ctx info, flush T fmt_time compress json_print pb_print c u = Some (ctx, info) /\
  exists u', read_back T parse_time decompress json_parse pb_parse ctx info = Ok u'
             /\ log_equiv executor_eq u u' = true.
Proof.
  intros HN Hser Hct Hok. destruct (plog_rt u Hok) as [Hclean Heq].
  apply bytes_eqb_eq in Hser.
  unfold flush, serialize. rewrite Hser.
  change (bytes_eqb s_protobuf s_json) with false. rewrite bytes_eqb_refl. cbv beta iota.
  eexists. eexists. split; [reflexivity|].
  exists (of_plog json_parse (to_plog fmt_time json_print u)). split; [|exact Heq].
  unfold declared. destruct (cf_enable c).
  - rewrite (read_after_flush T parse_time compress decompress json_parse pb_parse comp_rt
               s_protobuf (cf_ctype c) (select T (cf_ctype c))) by (auto; reflexivity).
    change (bytes_eqb s_protobuf s_json) with false. rewrite bytes_eqb_refl. cbv beta iota.
    now rewrite (pb_rt _ Hclean).
  - change (pb_print (to_plog fmt_time json_print u))
      with (compress_by compress CNone (pb_print (to_plog fmt_time json_print u))).
    rewrite (read_after_flush T parse_time compress decompress json_parse pb_parse comp_rt
               s_protobuf s_None CNone) by (auto; reflexivity).
    change (bytes_eqb s_protobuf s_json) with false. rewrite bytes_eqb_refl. cbv beta iota.
    now rewrite (pb_rt _ Hclean).
Qed.
End Pb.

(* outside the predicate the protobuf serializer loses the value: integer beyond 2^53, bytes, time *)
Definition pb_through (v : gval) : option gval :=
  match pb_marshal_value fmt_time_ref v with Some j => pb_unmarshal_value j | None => None end.
Lemma pb_refuted_int :
  pb_through (GInt W64 9007199254740993) = Some (GF64 4845873199050653696%N)
  /\ executor_eq (GInt W64 9007199254740993) (GF64 4845873199050653696%N) = false.
Proof. vm_compute. split; reflexivity. Qed.
Lemma pb_refuted_bytes : exists v', pb_through (GBytes [Byte.x00; Byte.xff]) = Some v'
  /\ executor_eq (GBytes [Byte.x00; Byte.xff]) v' = false.
Proof. eexists. vm_compute. split; reflexivity. Qed.
Lemma pb_refuted_time : exists v', pb_through (GTime (mkTm 2024 2 29 23 59 58 120000000 0)) = Some v'
  /\ executor_eq (GTime (mkTm 2024 2 29 23 59 58 120000000 0)) v' = false.
Proof. eexists. vm_compute. split; reflexivity. Qed.
Lemma pb_int_boundary :
  pb_val_ok (GInt W64 9007199254740992) = true /\ pb_val_ok (GInt W64 9007199254740993) = false
  /\ pb_val_ok (GInt W64 (-9223372036854775808)) = true.
Proof. vm_compute. repeat split. Qed.

(* ================================================================ context codec, arbitrary maps *)
Definition ctx_clean (m : list (bytes * bytes)) : bool :=
  forallb (fun kv => clean_text (fst kv) && clean_text (snd kv)) m.

Lemma enc_cons k v r : exists b l, encode_ctx ((k, v) :: r) = b :: l.
Proof. destruct r as [|[k2 v2] r]; cbn [encode_ctx]; destruct k; cbn; eauto. Qed.

Lemma pair_text_no_amp k v : clean_text k = true -> clean_text v = true -> no_sep c_amp (k ++ c_eq :: v) = true.
Proof.
  intros A B. destruct (clean_no_sep _ A) as [A1 _]. destruct (clean_no_sep _ B) as [B1 _].
  apply no_sep_app; [exact A1|]. unfold no_sep in *. cbn [forallb]. rewrite B1. reflexivity.
Qed.

Lemma decode_pairs_encode m : ctx_clean m = true -> m <> [] ->
  filter_map decode_pair (split_on c_amp (encode_ctx m)) = m.
Proof.
  induction m as [|[k v] r IH]; [congruence|]. intros H _.
  cbn [ctx_clean forallb fst snd] in H. repeat rewrite andb_true_iff in H. destruct H as [[Hk Hv] Hr].
  destruct (clean_no_sep _ Hk) as [_ K2]. destruct (clean_no_sep _ Hv) as [_ V2].
  pose proof (pair_text_no_amp k v Hk Hv) as P.
  destruct r as [|p2 r'].
  - cbn [encode_ctx app]. rewrite (split_clean _ _ P). cbn [filter_map]. now rewrite decode_pair_kv.
  - assert (E : encode_ctx ((k, v) :: p2 :: r') = (k ++ c_eq :: v) ++ c_amp :: encode_ctx (p2 :: r')).
    { destruct p2. cbn [encode_ctx app]. now rewrite app_comm_cons, app_assoc. }
    rewrite E, (split_app _ _ _ P). cbn [filter_map]. rewrite decode_pair_kv by assumption.
    f_equal. apply IH; [exact Hr|discriminate].
Qed.

Theorem ctx_roundtrip m : ctx_clean m = true -> decode_ctx (encode_ctx m) = m.
Proof.
  intro H. destruct m as [|[k v] r]; [reflexivity|].
  unfold decode_ctx. destruct (enc_cons k v r) as (b & l & E). rewrite E. rewrite <- E.
  apply decode_pairs_encode; [exact H|discriminate].
Qed.

(* with distinct keys (a Go map) every entry is found again *)
Fixpoint assoc (k : bytes) (m : list (bytes * bytes)) : option bytes :=
  match m with [] => None | (k', v) :: r => if bytes_eqb k k' then Some v else assoc k r end.
Lemma ctx_get_assoc k m : NoDup (map fst m) -> ctx_get k m = assoc k m.
Proof.
  induction m as [|[k' v] r IH]; [reflexivity|]. intro H. inversion H as [|? ? Hn Hd]; subst.
  cbn [ctx_get assoc]. rewrite (IH Hd). destruct (bytes_eqb k k') eqn:E.
  - apply bytes_eqb_eq in E. subst k'. destruct (assoc k r) eqn:A; [|reflexivity].
    exfalso. apply Hn. clear - A. induction r as [|[k2 v2] r IH]; [discriminate|].
    cbn in A |- *. destruct (bytes_eqb k k2) eqn:E2; [left; symmetry; now apply bytes_eqb_eq|right; auto].
  - destruct (assoc k r); reflexivity.
Qed.
Theorem ctx_map_roundtrip m k : ctx_clean m = true -> NoDup (map fst m) ->
  ctx_get k (decode_ctx (encode_ctx m)) = assoc k m.
Proof. intros H D. rewrite (ctx_roundtrip m H). now apply ctx_get_assoc. Qed.

(* a '=' or '&' inside a key or value loses the entry or changes another *)
Lemma ctx_map_refuted_eq : exists m, NoDup (map fst m) /\
  ctx_get (bs "k") (decode_ctx (encode_ctx m)) <> assoc (bs "k") m.
Proof. exists [(bs "k", bs "a=b")]. split; [repeat constructor; intros []|]. vm_compute. discriminate. Qed.
Lemma ctx_map_refuted_amp : exists m, NoDup (map fst m) /\
  ctx_get (bs "x") (decode_ctx (encode_ctx m)) <> assoc (bs "x") m.
Proof. exists [(bs "k", bs "a&x=1")]. split; [repeat constructor; intros []|]. vm_compute. discriminate. Qed.

(* ================================================================ the reader's configuration is irrelevant *)
Lemma undo_read_config_independent T parse_time decompress json_parse pb_parse (r1 r2 : cfg) ctx info :
  undo_read T parse_time decompress json_parse pb_parse r1 ctx info
  = undo_read T parse_time decompress json_parse pb_parse r2 ctx info.
Proof. reflexivity. Qed.
