(* C18: the recorded images are exactly the matched rows (before: as of before the statement,
   after: the same keys as of after), untouched rows are absent and unchanged, a statement that
   changes a primary key is rejected, recovered insert keys are the keys of the inserted rows. *)
From Coq Require Import List NArith ZArith Bool Lia.
From SeataV Require Import Base.Bytes At.Db At.DbProofs At.Image.
Import ListNotations.
Open Scope nat_scope.

(* ---- img_of ---- *)
Lemma img_of_In : forall trk t ks k r,
  In (k, r) (img_of trk t ks) <-> In k ks /\ exists r0, lookup k t = Some r0 /\ r = proj trk r0.
Proof.
  intros trk t ks k r. unfold img_of. rewrite in_flat_map. split.
  - intros [k0 [Hin H]]. destruct (lookup k0 t) as [r0 |] eqn:E; [| contradiction].
    destruct H as [H | []]. inversion H; subst. split; [exact Hin | exists r0; split; [exact E | reflexivity]].
  - intros [Hin [r0 [E Hr]]]. exists k. split; [exact Hin |]. rewrite E. left. subst. reflexivity.
Qed.

Lemma img_of_present : forall trk t ks,
  (forall k, In k ks -> lookup k t <> None) -> map fst (img_of trk t ks) = ks.
Proof.
  intros trk t ks. induction ks as [| k ks IH]; intro H; [reflexivity |].
  cbn. destruct (lookup k t) eqn:E.
  - cbn. f_equal. apply IH. intros k' Hk'. apply H. right. exact Hk'.
  - exfalso. apply (H k); [left; reflexivity | exact E].
Qed.

Lemma img_of_length_le : forall trk t ks, length (img_of trk t ks) <= length ks.
Proof.
  intros trk t ks. unfold img_of. induction ks as [| k ks IH]; [apply le_n |].
  cbn. destruct (lookup k t); cbn; lia.
Qed.

Lemma img_of_length_full : forall trk t ks,
  length (img_of trk t ks) = length ks -> forall k, In k ks -> lookup k t <> None.
Proof.
  intros trk t ks. induction ks as [| k ks IH]; intros H k' Hk'; [contradiction |].
  pose proof (img_of_length_le trk t ks) as Hle. unfold img_of in *.
  cbn in H. destruct (lookup k t) eqn:E; cbn in H.
  - destruct Hk' as [<- | Hk']; [rewrite E; discriminate |]. apply IH; [lia | exact Hk'].
  - exfalso. lia.
Qed.

(* ---- the UPDATE ---- *)
Definition inplaceb (pk : list nat) (u : row -> row) (m : list key) (t : tbl) : bool :=
  forallb (fun k => match lookup k t with Some r => key_eqb (key_of pk (u r)) k | None => true end) m.

Lemma inplaceb_spec : forall pk u m t,
  inplaceb pk u m t = true <-> (forall k r, In k m -> lookup k t = Some r -> key_of pk (u r) = k).
Proof.
  intros pk u m t. unfold inplaceb. rewrite forallb_forall. split.
  - intros H k r Hin E. specialize (H k Hin). rewrite E in H. apply key_eqb_eq. exact H.
  - intros H k Hin. destruct (lookup k t) as [r |] eqn:E; [| reflexivity]. apply key_eqb_eq. apply H; assumption.
Qed.

(* when every matched row keeps its key: keys outside m untouched, keys in m get u(row) *)
Lemma apply_upd_inplace : forall pk u m t t',
  NoDup m -> inplaceb pk u m t = true -> apply_upd pk u m t = Some t' ->
  (forall x, ~ In x m -> lookup x t' = lookup x t)
  /\ (forall k r, In k m -> lookup k t = Some r -> lookup k t' = Some (u r))
  /\ (forall k, In k m -> lookup k t = None -> lookup k t' = None).
Proof.
  intros pk u m. induction m as [| k m IH]; intros t t' Hnd Hip Ha.
  - cbn in Ha. inversion Ha; subst. repeat split; intros; try contradiction; reflexivity.
  - inversion Hnd as [| ? ? Hk Hnd']; subst.
    cbn [inplaceb forallb] in Hip. apply andb_true_iff in Hip. destruct Hip as [Hk0 Hip].
    fold (inplaceb pk u m t) in Hip.
    cbn [apply_upd] in Ha. destruct (lookup k t) as [r |] eqn:E.
    + cbn zeta in Ha. rewrite Hk0 in Ha.
      assert (Hip' : inplaceb pk u m (insert k (u r) t) = true).
      { apply inplaceb_spec. intros k2 r2 Hin E2.
        assert (k <> k2) by (intro; subst; contradiction).
        rewrite lookup_insert_neq in E2 by assumption.
        rewrite inplaceb_spec in Hip. eapply Hip; eassumption. }
      destruct (IH _ _ Hnd' Hip' Ha) as [H1 [H2 H3]]. repeat split.
      * intros x Hx. rewrite H1 by (intro; apply Hx; right; assumption).
        apply lookup_insert_neq. intro; subst. apply Hx. left. reflexivity.
      * intros k2 r2 [-> | Hin] E2.
        -- rewrite E in E2. inversion E2; subst. rewrite (H1 k2 Hk). apply lookup_insert_eq.
        -- assert (k <> k2) by (intro; subst; contradiction).
           apply H2; [exact Hin | rewrite lookup_insert_neq by assumption; exact E2].
      * intros k2 [-> | Hin] E2; [rewrite E in E2; discriminate |].
        assert (k <> k2) by (intro; subst; contradiction).
        apply H3; [exact Hin | rewrite lookup_insert_neq by assumption; exact E2].
    + destruct (IH _ _ Hnd' Hip Ha) as [H1 [H2 H3]]. repeat split.
      * intros x Hx. apply H1. intro; apply Hx; right; assumption.
      * intros k2 r2 [-> | Hin] E2; [rewrite E in E2; discriminate | apply H2; assumption].
      * intros k2 [-> | Hin] E2; [rewrite (H1 k2 Hk); exact E | apply H3; assumption].
Qed.

Lemma forallb_ext_in' : forall {A} (f g : A -> bool) l,
  (forall x, In x l -> f x = g x) -> forallb f l = forallb g l.
Proof.
  intros A f g l. induction l as [| x l IH]; intro H; [reflexivity |].
  cbn. rewrite (H x (or_introl eq_refl)), IH; [reflexivity |]. intros y Hy. apply H. right. exact Hy.
Qed.

(* a row that moves leaves its old key vacant at the end *)
Lemma apply_upd_moved : forall pk u m t t',
  NoDup m -> (forall k, In k m -> lookup k t <> None) ->
  apply_upd pk u m t = Some t' -> inplaceb pk u m t = false ->
  exists k0, In k0 m /\ lookup k0 t' = None.
Proof.
  intros pk u m. induction m as [| k m IH]; intros t t' Hnd Hpres Ha Hip; [discriminate |].
  inversion Hnd as [| ? ? Hk Hnd']; subst.
  cbn [apply_upd] in Ha. destruct (lookup k t) as [r |] eqn:E.
  2: { exfalso. apply (Hpres k); [left; reflexivity | exact E]. }
  cbn zeta in Ha. cbn [inplaceb forallb] in Hip. rewrite E in Hip. fold (inplaceb pk u m t) in Hip.
  destruct (key_eqb (key_of pk (u r)) k) eqn:Ek.
  - cbn [andb] in Hip.
    assert (Hpres' : forall k2, In k2 m -> lookup k2 (insert k (u r) t) <> None).
    { intros k2 Hin. assert (k <> k2) by (intro; subst; contradiction).
      rewrite lookup_insert_neq by assumption. apply Hpres. right. exact Hin. }
    assert (Hip' : inplaceb pk u m (insert k (u r) t) = false).
    { rewrite <- Hip. unfold inplaceb. apply forallb_ext_in'. intros k2 Hin.
      assert (k <> k2) by (intro; subst; contradiction).
      rewrite lookup_insert_neq by assumption. reflexivity. }
    destruct (IH _ _ Hnd' Hpres' Ha Hip') as [k0 [Hin H0]]. exists k0. split; [right; exact Hin | exact H0].
  - destruct (mem (key_of pk (u r)) t) eqn:Em; [discriminate |].
    set (k' := key_of pk (u r)) in *. set (t1 := insert k' (u r) (remove k t)) in *.
    assert (Hkk' : k' <> k) by (apply key_eqb_false; exact Ek).
    assert (Hk'abs : lookup k' t = None) by (unfold mem in Em; destruct (lookup k' t); [discriminate | reflexivity]).
    assert (Hk'm : ~ In k' m) by (intro Hin; apply (Hpres k'); [right; exact Hin | exact Hk'abs]).
    assert (Hsame : forall k2, In k2 m -> lookup k2 t1 = lookup k2 t).
    { intros k2 Hin. unfold t1. assert (k <> k2) by (intro; subst; contradiction).
      assert (k' <> k2) by (intro; subst; contradiction).
      rewrite lookup_insert_neq by assumption. apply lookup_remove_neq. assumption. }
    assert (Hpres' : forall k2, In k2 m -> lookup k2 t1 <> None).
    { intros k2 Hin. rewrite Hsame by assumption. apply Hpres. right. exact Hin. }
    destruct (inplaceb pk u m t1) eqn:Hip1.
    + destruct (apply_upd_inplace _ _ _ _ _ Hnd' Hip1 Ha) as [H1 _].
      exists k. split; [left; reflexivity |]. rewrite (H1 k Hk). unfold t1.
      rewrite lookup_insert_neq by assumption. apply lookup_remove_eq.
    + destruct (IH _ _ Hnd' Hpres' Ha Hip1) as [k0 [Hin H0]]. exists k0. split; [right; exact Hin | exact H0].
Qed.

(* C18_exact for UPDATE *)
Theorem at_update_exact : forall pk trk m u t t' b a,
  NoDup m -> (forall k, In k m -> lookup k t <> None) ->
  at_update pk trk m u t = Ok t' b a ->
  (* the statement did not change any primary key *)
  (forall k r, In k m -> lookup k t = Some r -> key_of pk (u r) = k)
  (* before image: exactly the matched rows, as of before, tracked columns *)
  /\ b = img_of trk t m
  /\ (forall k r, In (k, r) b <-> In k m /\ exists r0, lookup k t = Some r0 /\ r = proj trk r0)
  (* after image: the same keys, as of after *)
  /\ a = img_of trk t' m /\ map fst a = map fst b
  /\ (forall k r, In (k, r) a <-> In k m /\ exists r0, lookup k t = Some r0 /\ r = proj trk (u r0))
  (* every matched row now holds u(row); rows that were not matched are unchanged (and, by the two
     characterisations above, absent from both images) *)
  /\ (forall k r, In k m -> lookup k t = Some r -> lookup k t' = Some (u r))
  /\ (forall k, ~ In k m -> lookup k t' = lookup k t).
Proof.
  intros pk trk m u t t' b a Hnd Hpres H. unfold at_update in H.
  destruct (apply_upd pk u m t) as [t1 |] eqn:Ha; [| discriminate].
  rewrite (img_of_present trk t m Hpres) in H.
  destruct (Nat.eqb (length (img_of trk t1 m)) (length (img_of trk t m))) eqn:El; [| discriminate].
  inversion H; subst; clear H. apply Nat.eqb_eq in El.
  assert (Hlen : length (img_of trk t m) = length m).
  { rewrite <- (map_length fst). rewrite img_of_present by assumption. reflexivity. }
  assert (Hfull : forall k, In k m -> lookup k t' <> None).
  { apply (img_of_length_full trk). lia. }
  assert (Hip : inplaceb pk u m t = true).
  { destruct (inplaceb pk u m t) eqn:Hip; [reflexivity |].
    destruct (apply_upd_moved _ _ _ _ _ Hnd Hpres Ha Hip) as [k0 [Hin H0]].
    exfalso. apply (Hfull k0 Hin H0). }
  destruct (apply_upd_inplace _ _ _ _ _ Hnd Hip Ha) as [H1 [H2 H3]].
  split; [apply inplaceb_spec; exact Hip |].
  split; [reflexivity |]. split; [apply img_of_In |]. split; [reflexivity |].
  split; [rewrite !img_of_present by assumption; reflexivity |].
  split.
  - intros k r. rewrite img_of_In. split.
    + intros [Hin [r1 [E1 Hr]]]. split; [exact Hin |].
      destruct (lookup k t) as [r0 |] eqn:E0; [| exfalso; apply (Hpres k Hin E0)].
      exists r0. split; [reflexivity |]. rewrite (H2 k r0 Hin E0) in E1. inversion E1; subst. reflexivity.
    + intros [Hin [r0 [E0 Hr]]]. split; [exact Hin |]. exists (u r0). split; [apply H2; assumption | exact Hr].
  - split; [exact H2 | exact H1].
Qed.

(* C18_pk_reject *)
Theorem at_update_pk_reject : forall pk trk m u t,
  NoDup m -> (forall k, In k m -> lookup k t <> None) ->
  (exists k r, In k m /\ lookup k t = Some r /\ key_of pk (u r) <> k) ->
  exists e, at_update pk trk m u t = Err e.
Proof.
  intros pk trk m u t Hnd Hpres [k [r [Hin [E Hne]]]].
  destruct (at_update pk trk m u t) as [t' b a | e] eqn:H; [| exists e; reflexivity].
  exfalso. destruct (at_update_exact _ _ _ _ _ _ _ _ Hnd Hpres H) as [Hip _].
  apply Hne. eapply Hip; eassumption.
Qed.

(* ---- DELETE ---- *)
Lemma remove_all_lookup : forall m t k,
  lookup k (remove_all m t) = if in_dec key_eq_dec k m then None else lookup k t.
Proof.
  induction m as [| k0 m IH]; intros t k; [reflexivity |].
  cbn [remove_all]. rewrite IH. destruct (in_dec key_eq_dec k m) as [Hin | Hnin].
  - destruct (in_dec key_eq_dec k (k0 :: m)) as [_ | Hn]; [reflexivity | exfalso; apply Hn; right; exact Hin].
  - destruct (key_eq_dec k0 k) as [-> | Hne].
    + destruct (in_dec key_eq_dec k (k :: m)) as [_ | Hn]; [apply lookup_remove_eq | exfalso; apply Hn; left; reflexivity].
    + destruct (in_dec key_eq_dec k (k0 :: m)) as [[Heq | Hin] | _]; [contradiction | contradiction |].
      apply lookup_remove_neq. exact Hne.
Qed.

Theorem at_delete_exact : forall all m t t' b a,
  at_delete all m t = Ok t' b a ->
  a = [] /\ b = img_of all t m
  /\ (forall k r, In (k, r) b <-> In k m /\ exists r0, lookup k t = Some r0 /\ r = proj all r0)
  /\ (forall k, In k m -> lookup k t' = None)
  /\ (forall k, ~ In k m -> lookup k t' = lookup k t).
Proof.
  intros all m t t' b a H. unfold at_delete in H. inversion H; subst; clear H.
  split; [reflexivity |]. split; [reflexivity |]. split; [apply img_of_In |]. split.
  - intros k Hin. rewrite remove_all_lookup. destruct (in_dec key_eq_dec k m); [reflexivity | contradiction].
  - intros k Hnin. rewrite remove_all_lookup. destruct (in_dec key_eq_dec k m); [contradiction | reflexivity].
Qed.

(* ---- INSERT ---- *)
Lemma insert_rows_spec : forall krs t t',
  insert_rows krs t = Some t' ->
  NoDup (map fst krs)
  /\ (forall k, In k (map fst krs) -> lookup k t = None)
  /\ (forall k r, In (k, r) krs -> lookup k t' = Some r)
  /\ (forall k, ~ In k (map fst krs) -> lookup k t' = lookup k t).
Proof.
  induction krs as [| [k r] krs IH]; intros t t' H.
  - cbn in H. inversion H; subst. repeat split; try constructor; intros; try contradiction; reflexivity.
  - cbn [insert_rows] in H. destruct (mem k t) eqn:Em; [discriminate |].
    assert (Ek : lookup k t = None) by (unfold mem in Em; destruct (lookup k t); [discriminate | reflexivity]).
    destruct (IH _ _ H) as [Hnd [Habs [Hin Hout]]].
    assert (Hk : ~ In k (map fst krs)).
    { intro Hi. specialize (Habs k Hi). rewrite lookup_insert_eq in Habs. discriminate. }
    repeat split.
    + cbn. constructor; assumption.
    + intros k2 [<- | Hi]; [exact Ek |].
      specialize (Habs k2 Hi). destruct (key_eq_dec k k2) as [<- | Hne]; [exact Ek |].
      rewrite lookup_insert_neq in Habs by assumption. exact Habs.
    + intros k2 r2 [Heq | Hi]; [| apply Hin; exact Hi].
      inversion Heq; subst. rewrite (Hout k2 Hk). apply lookup_insert_eq.
    + intros k2 Hn. cbn in Hn. rewrite Hout by (intro; apply Hn; right; assumption).
      apply lookup_insert_neq. intro; subst. apply Hn. left. reflexivity.
Qed.

(* C18_insert_pk: when the database assigned the keys the way MySQL does (listed non-null non-zero value taken as is;
   omitted auto-increment column: LastInsertId for the single row), the recovered keys are the keys of the inserted rows *)
Theorem recover_exact : forall listed last_id nrows,
  insert_supported listed nrows = true ->
  recover listed last_id nrows = Some (assigned_keys listed last_id nrows).
Proof.
  intros [ks |] last_id nrows H; cbn in *; [| reflexivity].
  apply andb_true_iff in H. destruct H as [H _].
  destruct (all_explicit ks); [reflexivity |]. cbn in H. rewrite H. reflexivity.
Qed.

Theorem at_insert_exact : forall trk krs listed last_id t,
  insert_supported listed (length krs) = true ->
  map fst krs = assigned_keys listed last_id (length krs) ->
  forall r0, at_insert trk krs listed last_id t = r0 ->
  r0 = Err EDupKey
  \/ exists t', r0 = Ok t' [] (img_of trk t' (map fst krs))
       /\ map fst (img_of trk t' (map fst krs)) = map fst krs
       /\ (forall k r, In (k, r) (img_of trk t' (map fst krs)) <-> exists r1, In (k, r1) krs /\ r = proj trk r1)
       /\ (forall k r, In (k, r) krs -> lookup k t = None /\ lookup k t' = Some r)
       /\ (forall k, ~ In k (map fst krs) -> lookup k t' = lookup k t).
Proof.
  intros trk krs listed last_id t Hs Hk r0 H. unfold at_insert in H.
  destruct (insert_rows krs t) as [t' |] eqn:Hi; [| left; symmetry; exact H].
  right. exists t'. rewrite (recover_exact _ last_id _ Hs), <- Hk in H.
  destruct (insert_rows_spec _ _ _ Hi) as [Hnd [Habs [Hin Hout]]].
  assert (Hpres : forall k, In k (map fst krs) -> lookup k t' <> None).
  { intros k Hkin. apply in_map_iff in Hkin. destruct Hkin as [[k1 r1] [<- Hkr]]. cbn. rewrite (Hin _ _ Hkr). discriminate. }
  split; [symmetry; exact H |]. split; [apply img_of_present; exact Hpres |]. split.
  - intros k r. rewrite img_of_In. split.
    + intros [Hkin [r1 [E Hr]]]. exists r1. split; [| exact Hr].
      apply in_map_iff in Hkin. destruct Hkin as [[k1 r2] [Hfst Hkr]]. cbn in Hfst. subst k1.
      rewrite (Hin _ _ Hkr) in E. inversion E; subst. exact Hkr.
    + intros [r1 [Hkr Hr]]. split; [apply in_map_iff; exists (k, r1); split; [reflexivity | exact Hkr] |].
      exists r1. split; [apply Hin; exact Hkr | exact Hr].
  - split; [| exact Hout]. intros k r Hkr. split; [| apply Hin; exact Hkr].
    apply Habs. apply in_map_iff. exists (k, r). split; [reflexivity | exact Hkr].
Qed.

(* ---- INSERT ... ON DUPLICATE KEY UPDATE ---- *)
Theorem at_upsert_exact : forall pk all m u krs t t' b a,
  NoDup m -> (forall k, In k m -> lookup k t <> None) ->
  (forall k r, lookup k t = Some r -> key_of pk r = k) ->          (* rows are stored under their own key *)
  (forall r, key_of pk (u r) = key_of pk r) ->                      (* the assignments leave the key columns alone *)
  at_upsert pk all false m u krs t = Ok t' b a ->
  b = img_of all t m
  /\ a = img_of all t' (m ++ map fst krs)
  /\ (forall k r, In k m -> lookup k t = Some r -> lookup k t' = Some (u r))
  /\ (forall k r, In (k, r) krs -> lookup k t = None /\ ~ In k m /\ lookup k t' = Some r)
  /\ (forall k, ~ In k m -> ~ In k (map fst krs) -> lookup k t' = lookup k t).
Proof.
  intros pk all m u krs t t' b a Hnd Hpres Hkeyed Hu H. unfold at_upsert in H.
  destruct (apply_upd pk u m t) as [t1 |] eqn:Ha; [| discriminate].
  destruct (insert_rows krs t1) as [t2 |] eqn:Hi; [| discriminate].
  rewrite (img_of_present all t m Hpres) in H. inversion H; subst; clear H.
  assert (Hip : inplaceb pk u m t = true).
  { apply inplaceb_spec. intros k r Hin E. rewrite Hu. apply Hkeyed. exact E. }
  destruct (apply_upd_inplace _ _ _ _ _ Hnd Hip Ha) as [H1 [H2 H3]].
  destruct (insert_rows_spec _ _ _ Hi) as [Hnd2 [Habs [Hin Hout]]].
  assert (Hdisj : forall k, In k m -> ~ In k (map fst krs)).
  { intros k Hk Hkk. specialize (Habs k Hkk).
    destruct (lookup k t) as [r |] eqn:E; [| apply (Hpres k Hk E)].
    rewrite (H2 k r Hk E) in Habs. discriminate. }
  split; [reflexivity |]. split; [reflexivity |]. split; [| split].
  - intros k r Hk E. rewrite Hout by (apply Hdisj; exact Hk). apply H2; assumption.
  - intros k r Hkr.
    assert (Hkk : In k (map fst krs)) by (apply in_map_iff; exists (k, r); split; [reflexivity | exact Hkr]).
    assert (Hnm : ~ In k m) by (intro Hk; apply (Hdisj k Hk Hkk)).
    split; [| split; [exact Hnm | apply Hin; exact Hkr]].
    rewrite <- (H1 k Hnm). apply Habs. exact Hkk.
  - intros k Hnm Hnk. rewrite (Hout k Hnk). apply H1. exact Hnm.
Qed.

Theorem at_upsert_pk_reject : forall pk all m u krs t, exists e, at_upsert pk all true m u krs t = Err e.
Proof. intros. exists EPkChanged. reflexivity. Qed.

(* without the up-front refusal an assignment that changes a key is recorded as an update whose after image holds
   another key than its before image: why checkDuplicateKeyUpdate must not miss a key column *)
Theorem at_upsert_needs_pk_check :
  exists pk all m u t t' b a, at_upsert pk all false m u [] t = Ok t' b a /\ map fst b <> [] /\ a = [].
Proof.
  exists [0], [0; 1], [[VInt 1%Z]], (fun r => match r with [VInt i; x] => [VInt (i + 100)%Z; x] | _ => r end),
         [([VInt 1%Z], [VInt 1%Z; VNull])].
  eexists. eexists. eexists. split; [vm_compute; reflexivity |]. split; [discriminate | reflexivity].
Qed.

(* no AUTO_INCREMENT column: the listed values (0 included) are the keys of the inserted rows *)
Theorem at_insert_plain_exact : forall trk krs t r0,
  at_insert_plain trk krs (Some (map fst krs)) t = r0 ->
  r0 = Err EDupKey
  \/ exists t', r0 = Ok t' [] (img_of trk t' (map fst krs))
       /\ map fst (img_of trk t' (map fst krs)) = map fst krs
       /\ (forall k r, In (k, r) krs -> lookup k t = None /\ lookup k t' = Some r)
       /\ (forall k, ~ In k (map fst krs) -> lookup k t' = lookup k t).
Proof.
  intros trk krs t r0 H. unfold at_insert_plain in H.
  destruct (insert_rows krs t) as [t' |] eqn:Hi; [| left; symmetry; exact H].
  right. exists t'. destruct (insert_rows_spec _ _ _ Hi) as [_ [Habs [Hin Hout]]].
  split; [symmetry; exact H |]. split.
  - apply img_of_present. intros k Hk. apply in_map_iff in Hk. destruct Hk as [[k1 r1] [<- Hkr]]. cbn. rewrite (Hin _ _ Hkr). discriminate.
  - split; [| exact Hout]. intros k r Hkr. split; [| apply Hin; exact Hkr].
    apply Habs. apply in_map_iff. exists (k, r). split; [reflexivity | exact Hkr].
Qed.

(* a statement that mixes explicit and generated key values is refused: its generated keys cannot be identified *)
Theorem recover_mixed_refused : forall ks last_id nrows,
  all_explicit ks = false -> all_generated ks = false -> recover (Some ks) last_id nrows = None.
Proof. intros ks last_id nrows H1 H2. cbn. rewrite H1, H2. reflexivity. Qed.

(* before the repairs (kept for the record): a listed NULL was taken as the key, a batch was not recovered *)
Definition recover_prefix (listed : option (list key)) (last_id : Z * Z) (nrows : nat) : option (list key) :=
  match listed with
  | Some ks => Some ks
  | None => if Nat.eqb nrows 1 then Some [[VInt (fst last_id)]] else None
  end.

Theorem recover_prefix_refuted :
  recover_prefix (Some [[VNull]]) (4, 1)%Z 1 = Some [[VNull]] /\ assigned_keys (Some [[VNull]]) (4, 1)%Z 1 = [[VInt 4%Z]]
  /\ recover_prefix None (4, 1)%Z 2 = None.
Proof. repeat split; reflexivity. Qed.

(* ---- the argument index of a key placeholder ---- *)
Lemma count_firstn_split : forall (row : list bool) n,
  (count_true (firstn n row) + count_false (firstn n row) = Z.of_nat (length (firstn n row)))%Z.
Proof.
  intros row n. unfold count_true, count_false. induction (firstn n row) as [| b l IH]; [reflexivity |].
  cbn [filter length]. destruct b; cbn [negb filter length]; lia.
Qed.

Lemma nth_true_lt : forall (row : list bool) n, nth n row false = true -> n < length row.
Proof.
  intros row n H. destruct (Nat.lt_ge_cases n (length row)) as [Hl | Hg]; [exact Hl |].
  rewrite nth_overflow in H by exact Hg. discriminate.
Qed.

Theorem go_pk_idx_from_spec : forall rows pkidx before,
  go_pk_idx_from (before - 1) rows pkidx = spec_pk_idx_from before rows pkidx.
Proof.
  induction rows as [| row rows IH]; intros pkidx before; [reflexivity |].
  cbn [go_pk_idx_from spec_pk_idx_from]. f_equal.
  - destruct (nth pkidx row false) eqn:E; [| reflexivity]. f_equal.
    pose proof (count_firstn_split row pkidx) as Hs.
    rewrite firstn_length_le in Hs by (apply Nat.lt_le_incl; apply nth_true_lt; exact E). lia.
  - replace (before - 1 + count_true row)%Z with ((before + count_true row) - 1)%Z by lia. apply IH.
Qed.

Theorem go_pk_idx_spec : forall rows pkidx, go_pk_idx rows pkidx = spec_pk_idx rows pkidx.
Proof. intros. unfold go_pk_idx, spec_pk_idx. apply (go_pk_idx_from_spec rows pkidx 0%Z). Qed.
