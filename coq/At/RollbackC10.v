(* C10: repeated deliveries, faults at any call of the rollback transaction,
   the GlobalFinished marker against a late phase one. *)
From Coq Require Import List NArith ZArith Bool Arith Lia.
From SeataV Require Import Base.Bytes At.Db At.DbProofs At.RollbackKinds Gen.UndoFlow At.Rollback At.RollbackProofs.
Import ListNotations.

(* n deliveries of the rollback of branch x, faults per delivery *)
Fixpoint deliver (cfg : config) (fs : list fault) (d : dbs) (x : ukey) : dbs * list (option N) :=
  match fs with
  | [] => (d, [])
  | f :: fs' => let r := rollback_branch cfg f d x in
                let '(d', sts) := deliver cfg fs' (r_db r) x in (d', r_out r :: sts)
  end.

(* once no normal undo row is left, a delivery answers 'rollbacked', keeps the
   tables, and at most adds / keeps the marker *)
Lemma deliver_after_done cfg d x : no_normal x d ->
  let r := rollback_branch cfg None d x in
  r_out r = status_ok /\ d_tabs (r_db r) = d_tabs d /\ no_normal x (r_db r) /\
  (forall y, y <> x -> ulookup y (d_undo (r_db r)) = ulookup y (d_undo d)).
Proof.
  unfold no_normal. intro H. destruct (ulookup x (d_undo d)) as [row|] eqn:U.
  - rewrite (rollback_clean_finished cfg d x row U H). cbn. repeat split; auto. now rewrite U.
  - rewrite (rollback_clean_marker cfg d x U). cbn. repeat split; auto.
    + now rewrite ukey_eqb_refl.
    + intros y Hn. apply ukey_eqb_false in Hn. now rewrite Hn.
Qed.

Lemma deliver_done_n cfg n : forall d x, no_normal x d ->
  let '(d', sts) := deliver cfg (repeat None n) d x in
  Forall (eq status_ok) sts /\ d_tabs d' = d_tabs d /\ no_normal x d' /\
  (forall y, y <> x -> ulookup y (d_undo d') = ulookup y (d_undo d)).
Proof.
  induction n as [|n IH]; intros d x H; cbn.
  - repeat split; auto.
  - destruct (deliver_after_done cfg d x H) as [E1 [E2 [E3 E4]]].
    specialize (IH (r_db (rollback_branch cfg None d x)) x E3).
    destruct (deliver cfg (repeat None n) (r_db (rollback_branch cfg None d x)) x) as [d' sts].
    destruct IH as [F [T [N O]]]. repeat split.
    + constructor; [now rewrite E1 | assumption].
    + congruence.
    + assumption.
    + intros y Hn. rewrite (O y Hn). apply E4, Hn.
Qed.

(* C10_idem: n >= 1 clean deliveries end like one successful delivery: same
   tables, same undo rows of every other branch, no normal undo row of this
   branch (a GlobalFinished marker may have been added), every answer 'rollbacked' *)
Theorem idem cfg d x n :
  let r1 := rollback_branch cfg None d x in
  r_out r1 = status_ok ->
  let '(dn, sts) := deliver cfg (repeat None (S n)) d x in
  Forall (eq status_ok) sts /\ length sts = S n /\ d_tabs dn = d_tabs (r_db r1) /\ no_normal x dn /\
  (forall y, y <> x -> ulookup y (d_undo dn) = ulookup y (d_undo (r_db r1))).
Proof.
  cbn zeta. intro H. cbn [repeat deliver].
  assert (N1 : no_normal x (r_db (rollback_branch cfg None d x))).
  { destruct (truthful cfg None d x H) as [_ [_ [N _]]]. exact N. }
  pose proof (deliver_done_n cfg n _ x N1) as D.
  assert (L : forall fs d0, length (snd (deliver cfg fs d0 x)) = length fs).
  { induction fs as [|f fs IHf]; intro d0; cbn; [reflexivity|].
    specialize (IHf (r_db (rollback_branch cfg f d0 x))).
    destruct (deliver cfg fs (r_db (rollback_branch cfg f d0 x)) x). cbn in *. now rewrite IHf. }
  specialize (L (repeat None n) (r_db (rollback_branch cfg None d x))).
  destruct (deliver cfg (repeat None n) (r_db (rollback_branch cfg None d x)) x) as [dn sts].
  destruct D as [F [T [N O]]]. cbn in L. rewrite repeat_length in L.
  repeat split; auto. cbn. now rewrite L.
Qed.

(* C10_no_partial: a fault at any call of the rollback transaction leaves the
   durable state as it was, answers no 'rollbacked', ends the local transaction
   and releases the connection; the clean retry is then the single clean rollback *)
Theorem no_partial cfg k d x :
  let r := rollback_branch cfg (Some k) d x in
  r_fired r = true ->
  r_db r = d /\ r_out r <> status_ok /\ r_tx_open r = false /\ r_conn_released r = true /\
  rollback_branch cfg None (r_db r) x = rollback_branch cfg None d x.
Proof.
  cbn zeta. intro F.
  destruct (fired_or_clean cfg (Some k) d x) as [[_ [E [Hn [T C]]]]|[F' _]]; [|congruence].
  rewrite E. auto.
Qed.

(* ... and a fault that did not fire is no fault *)
Theorem no_fault_clean cfg f d x :
  let r := rollback_branch cfg f d x in
  r_fired r = false -> r_db r = r_db (rollback_branch cfg None d x) /\ r_out r = r_out (rollback_branch cfg None d x).
Proof.
  cbn zeta. intro F.
  destruct (fired_or_clean cfg f d x) as [[F' _]|[_ [E1 [E2 _]]]]; [congruence | auto].
Qed.

(* C10_marker: a rollback that finds no undo log leaves the marker; the late
   phase one of that branch then commits nothing *)
Theorem marker_blocks cfg d x ss :
  ulookup x (d_undo d) = None ->
  let r := rollback_branch cfg None d x in
  r_out r = status_ok /\ d_tabs (r_db r) = d_tabs d /\ ulookup x (d_undo (r_db r)) = Some marker /\
  let '(d2, committed) := phase1_branch cfg x ss (r_db r) in
  d_undo d2 = d_undo (r_db r) /\ db_equiv (d_tabs d2) (d_tabs (r_db r)) /\
  (committed = true ->
   exists imgs, run_stmts (c_only_care cfg) ss (d_tabs d) = Some (d_tabs d2, imgs) /\ forallb image_empty imgs = true).
Proof.
  intro U. rewrite (rollback_clean_marker cfg d x U). cbn zeta. cbn [r_out r_db d_tabs d_undo].
  split; [reflexivity|]. split; [reflexivity|]. split; [cbn; now rewrite ukey_eqb_refl|].
  unfold phase1_branch. cbn [d_tabs d_undo].
  destruct (run_stmts (c_only_care cfg) ss (d_tabs d)) as [[tabs' imgs]|] eqn:R.
  - destruct (forallb image_empty imgs) eqn:EI.
    + cbn. split; [reflexivity|]. split.
      * intros tn k. eapply run_stmts_frame; [eassumption|]. now apply image_empty_untouched.
      * intros _. exists imgs. auto.
    + cbn [ulookup]. rewrite ukey_eqb_refl. cbn. split; [reflexivity|]. split; [apply db_equiv_refl | discriminate].
  - cbn. split; [reflexivity|]. split; [apply db_equiv_refl | discriminate].
Qed.

(* two deliveries racing: the one that finds the undo row (or a business row) locked fails at that
   call; whatever is delivered afterwards behaves as if the loser had never run *)
Theorem race_loser cfg k d x fs :
  let r := rollback_branch cfg (Some k) d x in
  r_fired r = true ->
  r_db r = d /\ r_out r <> status_ok /\ r_tx_open r = false /\
  deliver cfg fs (r_db r) x = deliver cfg fs d x.
Proof.
  cbn zeta. intro F. destruct (no_partial cfg k d x F) as [E [O [T _]]]. rewrite E. auto.
Qed.
