(* Correspondence check of the rollback model against observed runs of the real
   AT proxy (harness/atroll): evaluated with vm_compute by lib/atroll_util.py. *)
From Coq Require Import List NArith ZArith Bool Arith.
From SeataV Require Import Base.Bytes At.Db At.RollbackKinds Gen.UndoFlow At.Rollback.
Import ListNotations.

Inductive event :=
| EBranch (b : N) (ss : list stmt) (ok : bool) (imgs : list image)      (* observed: committed?, decoded undo images *)
| EForeign (ws : list fwrite)
| ECorrupt (b : N)                                                    (* rollback_info overwritten with garbage *)
| ERollback (b : N) (f : fault) (out : option N) (fired : bool) (tabs : db) (ops : nat).

Record rcase := {
  k_dv : bool; k_oc : bool; k_xid : N;
  k_init : db;
  k_events : list event;
  k_final : db;
  k_undo : list (N * bool) }.    (* final undo_log rows: branch id, normal? *)

Definition mask_list (m : mask) (w : nat) : list bool :=
  match m with
  | None => repeat true w
  | Some l => firstn w (l ++ repeat false w)
  end.

Fixpoint bools_eqb (a b : list bool) : bool :=
  match a, b with
  | [], [] => true
  | x :: a', y :: b' => Bool.eqb x y && bools_eqb a' b'
  | _, _ => false
  end.

Definition obs_width (img : image) : nat :=
  match i_mask img with Some l => length l | None => 0 end.

(* model image vs observed image (the observed mask is always explicit) *)
Definition image_matches (m o : image) : bool :=
  bytes_eqb (i_tn m) (i_tn o) && kind_eqb (i_kind m) (i_kind o) &&
  (is_nil (i_before o) && is_nil (i_after o) ||
   bools_eqb (mask_list (i_mask m) (obs_width o)) (mask_list (i_mask o) (obs_width o))) &&
  recs_eqb (i_mask o) (i_before m) (i_before o) && recs_eqb (i_mask o) (i_before o) (i_before m) &&
  recs_eqb (i_mask o) (i_after m) (i_after o) && recs_eqb (i_mask o) (i_after o) (i_after m).

Fixpoint images_match (ms os : list image) : bool :=
  match ms, os with
  | [], [] => true
  | m :: ms', o :: os' => image_matches m o && images_match ms' os'
  | _, _ => false
  end.

Definition tabs_match (obs : db) (model : db) : bool :=
  forallb (fun nt => tbl_eqb_ext (snd nt) (db_get (fst nt) model)) obs.

Definition opt_N_eqb (a b : option N) : bool :=
  match a, b with
  | Some x, Some y => N.eqb x y
  | None, None => true
  | _, _ => false
  end.

Definition corrupt (x : ukey) (l : ulog) : ulog :=
  map (fun yu => if ukey_eqb x (fst yu) then (fst yu, {| u_normal := u_normal (snd yu); u_body := None |}) else yu) l.

(* disagreement codes:
   1 phase one: commit outcome differs      2 phase one: decoded images differ from the model's
   3 rollback: response status differs      4 rollback: whether the injected fault hit a call differs
   5 rollback: tables afterwards differ     6 final tables differ       7 final undo_log rows differ
   8 rollback: number of database calls of a successful delivery differs *)
Fixpoint run_events (cfg : config) (xid : N) (evs : list event) (d : dbs) : dbs * list N :=
  match evs with
  | [] => (d, [])
  | ev :: evs' =>
      let '(d1, errs) :=
        match ev with
        | EBranch b ss ok imgs =>
            let '(d', ok') := phase1_branch cfg (xid, b) ss d in
            let model_imgs := if ok' then
                                match ulookup (xid, b) (d_undo d') with
                                | Some u => if u_normal u then match u_body u with Some l => l | None => [] end else []
                                | None => []
                                end
                              else [] in
            (d', (if Bool.eqb ok ok' then [] else [1%N]) ++
                 (if negb ok' || images_match model_imgs imgs then [] else [2%N]))
        | EForeign ws => (with_tabs d (apply_foreign ws (d_tabs d)), [])
        | ECorrupt b => ({| d_tabs := d_tabs d; d_undo := corrupt (xid, b) (d_undo d) |}, [])
        | ERollback b f out fired tabs ops =>
            let r := rollback_branch cfg f d (xid, b) in
            (r_db r,
             (if opt_N_eqb (r_out r) out then [] else [3%N]) ++
             (if Bool.eqb (r_fired r) fired then [] else [4%N]) ++
             (if tabs_match tabs (d_tabs (r_db r)) then [] else [5%N]) ++
             (if r_fired r || negb (opt_N_eqb (r_out r) status_ok) || Nat.eqb (r_ops r) ops then [] else [8%N]))
        end in
      let '(d2, errs2) := run_events cfg xid evs' d1 in
      (d2, errs ++ errs2)
  end.

Definition undo_rows_match (obs : list (N * bool)) (xid : N) (l : ulog) : bool :=
  Nat.eqb (length obs) (length l) &&
  forallb (fun bn => match ulookup (xid, fst bn) l with
                     | Some u => Bool.eqb (u_normal u) (snd bn)
                     | None => false
                     end) obs.

Definition check_case (c : rcase) : list N :=
  let cfg := {| c_validation := k_dv c; c_only_care := k_oc c |} in
  let '(d, errs) := run_events cfg (k_xid c) (k_events c) {| d_tabs := k_init c; d_undo := [] |} in
  errs ++ (if tabs_match (k_final c) (d_tabs d) then [] else [6%N])
       ++ (if undo_rows_match (k_undo c) (k_xid c) (d_undo d) then [] else [7%N]).

Fixpoint mismatches_from (i : nat) (cs : list rcase) : list (nat * N) :=
  match cs with
  | [] => []
  | c :: cs' => map (fun e => (i, e)) (check_case c) ++ mismatches_from (S i) cs'
  end.

Definition mismatches (cs : list rcase) : list (nat * N) := mismatches_from 0 cs.
