(* C11 — the tie: what the driver evaluates with vm_compute on every observed run of the real
   AsyncWorker.  Two things are compared:
   (a) the observed trace (submissions, registrations, Connect attempts, DELETEs with the rows
       they removed) is replayed against the specification state of the model
       (pending multiset, table, registered resources): every DELETE must be one the model can
       perform (single (xid, branch) pair of a pending request on a registered resource, removing
       exactly the rows equal to it);
   (b) the final table and the set of requests still pending must equal those the model
       (At/Worker.v [step], driven by a deterministic scheduler with the same fault script) ends with. *)
From Coq Require Import List NArith Bool Arith.
From SeataV Require Import At.Worker.
Import ListNotations.

Inductive obs :=
| OSubmit (it : item)
| ORefused (it : item)            (* the call returned a failure status with an error: not queued *)
| OAppear (r : N)
| OConn (r : N) (ok : bool)
| ODelete (r x b : N) (single ok : bool) (rmd : list item)
| OPrepFail (r : N)
| OUnknownStmt (r : N).

Inductive sitem := SAcc (it : item) | SRef (it : item) | SApp (r : N) | SAuto (n : nat).

Record wcase := mkCase {
  wc_cfg : cfg;
  wc_t0 : list item;
  wc_k0 : list N;
  wc_cf : list (N * list bool);      (* per resource: outcomes of successive Connects, true = fails *)
  wc_df : list (N * list bool);      (* per resource: outcomes of successive DELETEs, true = fails *)
  wc_script : list sitem;
  wc_cmp_sim : bool;                 (* compare with the model's final state *)
  wc_trace : list obs;
  wc_final : list item;
  wc_status : list (N * bool)        (* every BranchCommit call that returned: status, error present *)
}.

(* ---- multiset equality of item lists *)
Definition msub (l1 l2 : list item) : bool := forallb (fun x => cnt x l1 <=? cnt x l2) l1.
Definition meq (l1 l2 : list item) : bool := msub l1 l2 && msub l2 l1.

Fixpoint remove1 (it : item) (l : list item) : list item :=
  match l with
  | [] => []
  | x :: l' => if item_eqb it x then l' else x :: remove1 it l'
  end.

(* ---- (a) replay of the observed trace *)
Record ast := mkA { a_pend : list item; a_tab : list item; a_known : list N; a_err : list N }.

Definition err (n : N) (a : ast) : ast := mkA (a_pend a) (a_tab a) (a_known a) (n :: a_err a).

Definition has_pending_on (r : N) (a : ast) : bool := existsb (fun it => N.eqb (ir it) r) (a_pend a).

Definition astep (a : ast) (o : obs) : ast :=
  match o with
  | OSubmit it => mkA (it :: a_pend a) (a_tab a) (a_known a) (a_err a)
  | ORefused it =>
      if existsb (item_eqb it) (a_pend a)
      then mkA (remove1 it (a_pend a)) (a_tab a) (a_known a) (a_err a) else err 11 a
  | OAppear r => mkA (a_pend a) (a_tab a) (r :: a_known a) (a_err a)
  | OConn r _ | OPrepFail r =>
      if memN r (a_known a) && has_pending_on r a then a else err 5 a
  | OUnknownStmt _ => err 9 a
  | ODelete r x b single ok rmd =>
      let it := mkItem x b r in
      if negb single then err 7 a
      else if negb (memN r (a_known a)) then err 5 a
      else if negb (existsb (item_eqb it) (a_pend a)) then err 2 a
      else if negb ok then a
      else
        let a' := mkA (remove1 it (a_pend a)) (rm it (a_tab a)) (a_known a) (a_err a) in
        if meq rmd (filter (item_eqb it) (a_tab a)) then a' else err 6 a'
  end.

(* ---- (b) the model under a deterministic scheduler with the same fault script *)
Record simst := mkSim { ss : state; scf : list (N * list bool); sdf : list (N * list bool) }.

Fixpoint pop (r : N) (l : list (N * list bool)) : bool * list (N * list bool) :=
  match l with
  | [] => (false, [])
  | (r', p) :: l' =>
      if N.eqb r r'
      then match p with
           | [] => (false, l)
           | f :: p' => (f, (r', p') :: l')
           end
      else let (f, l'') := pop r l' in (f, (r', p) :: l'')
  end.

Definition auto_step (c : cfg) (st : simst) : simst :=
  let s := ss st in
  match flight s with
  | (JGroup its :: _) :: _ =>
      if memN (gres its) (known s)
      then let (f, cf') := pop (gres its) (scf st) in
           mkSim (step c (WStep 0 (if f then ConnFail else Ok)) s) cf' (sdf st)
      else mkSim (step c (WStep 0 Ok) s) (scf st) (sdf st)
  | (JDelete it :: _) :: _ =>
      let (f, df') := pop (ir it) (sdf st) in
      mkSim (step c (WStep 0 (if f then DelFail else Ok)) s) (scf st) df'
  | _ =>
      match sched s with
      | Some e => mkSim (step c e s) (scf st) (sdf st)
      | None => st
      end
  end.

Fixpoint auto (c : cfg) (n : nat) (st : simst) : simst :=
  match n with 0 => st | S n' => auto c n' (auto_step c st) end.

Fixpoint accept_wait (c : cfg) (fuel : nat) (it : item) (st : simst) : simst :=
  if room c (ss st) then mkSim (step c (Accept it) (ss st)) (scf st) (sdf st)
  else match fuel with
       | 0 => st
       | S f => accept_wait c f it (auto_step c st)
       end.

Definition sim_item (c : cfg) (st : simst) (x : sitem) : simst :=
  match x with
  | SAcc it => accept_wait c 200 it st
  | SRef it => mkSim (step c (Refuse it) (ss st)) (scf st) (sdf st)
  | SApp r => mkSim (step c (Appear r) (ss st)) (scf st) (sdf st)
  | SAuto n => auto c n st
  end.

Definition simulate (w : wcase) : state :=
  ss (fold_left (sim_item (wc_cfg w)) (wc_script w)
                (mkSim (init (wc_t0 w) (wc_k0 w)) (wc_cf w) (wc_df w))).

(* ---- disagreement codes
   1 an answer is neither Committed-without-error nor a refusal (other status with an error)
   11 a refusal of a request that was not submitted
   (1 was: a call was not answered PhasetwoCommitted)       2 DELETE of a pair no pending request has
   3 final table differs from the model's              4 requests still pending differ from the model's
   5 Connect/DELETE on an unregistered resource or without a pending request for it
   6 a DELETE removed other rows than those equal to its pair
   7 a DELETE that is not a single (xid, branch) pair  8 final table differs from the replayed trace
   9 a statement the undo-log manager does not have   10 the model's answers differ (Committed = queued; one answer per returned call) *)
Definition check_case (w : wcase) : list N :=
  let a := fold_left astep (wc_trace w) (mkA [] (wc_t0 w) (wc_k0 w) []) in
  let m := simulate w in
  rev (a_err a)
  ++ (if forallb (fun p : N * bool => if snd p then negb (N.eqb (fst p) st_committed) else N.eqb (fst p) st_committed)
                 (wc_status w) then [] else [1%N])
  ++ (if meq (wc_final w) (a_tab a) then [] else [8%N])
  ++ (if wc_cmp_sim w
      then (if meq (wc_final w) (table m) then [] else [3%N])
           ++ (if meq (a_pend a) (pend m ++ dropped m) then [] else [4%N])
           ++ (if meq (committed_of (answers m)) (accepted m)
                  && (length (answers m) =? length (wc_status w)) then [] else [10%N])
      else []).

Fixpoint mism_from (i : nat) (ws : list wcase) : list (nat * N) :=
  match ws with
  | [] => []
  | w :: ws' => map (fun e => (i, e)) (check_case w) ++ mism_from (S i) ws'
  end.

Definition mismatches (ws : list wcase) : list (nat * N) := mism_from 0 ws.
