(* Global lock key text of the AT mode (property C03).
   Model of
     pkg/datasource/sql/exec/at/base_executor.go  buildLockKey
     pkg/datasource/sql/tx.go                     register (lockKey join)
   and of the coordinator-side parser of the lock key text
   (split on ';', first ':', ',' and '_').
   Executable definitions only; the lemmas live in LockKeyProofs.v. *)
From Coq Require Import List NArith ZArith Bool Decimal.
From Coq.Strings Require Byte.
From SeataV Require Import Base.Bytes At.Db.
Import ListNotations.

(* ---- the separator bytes ---- *)
Definition c_comma : byte := Byte.x2c.   (* , *)
Definition c_us    : byte := Byte.x5f.   (* _ *)
Definition c_semi  : byte := Byte.x3b.   (* ; *)
Definition c_colon : byte := Byte.x3a.   (* : *)
Definition c_minus : byte := Byte.x2d.   (* - *)

(* ---- fmt.Sprintf("%v", v) ---- *)
(* decimal digits, most significant first *)
Fixpoint uint_bytes (u : Decimal.uint) : bytes :=
  match u with
  | Decimal.Nil => []
  | Decimal.D0 u' => Byte.x30 :: uint_bytes u'
  | Decimal.D1 u' => Byte.x31 :: uint_bytes u'
  | Decimal.D2 u' => Byte.x32 :: uint_bytes u'
  | Decimal.D3 u' => Byte.x33 :: uint_bytes u'
  | Decimal.D4 u' => Byte.x34 :: uint_bytes u'
  | Decimal.D5 u' => Byte.x35 :: uint_bytes u'
  | Decimal.D6 u' => Byte.x36 :: uint_bytes u'
  | Decimal.D7 u' => Byte.x37 :: uint_bytes u'
  | Decimal.D8 u' => Byte.x38 :: uint_bytes u'
  | Decimal.D9 u' => Byte.x39 :: uint_bytes u'
  end.

Definition int_bytes (i : Decimal.signed_int) : bytes :=
  match i with
  | Decimal.Pos u => uint_bytes u
  | Decimal.Neg u => c_minus :: uint_bytes u
  end.

(* "0" for zero, "-" prefix when negative, no leading zeros *)
Definition z_dec (z : Z) : bytes := int_bytes (Z.to_int z).

Definition nil_text : bytes :=
  [Byte.x3c; Byte.x6e; Byte.x69; Byte.x6c; Byte.x3e].   (* <nil> *)

(* int64 -> decimal, string -> its bytes, nil -> "<nil>".  The other
   constructors do not occur as primary-key values in the cases; they get a
   fixed rendering (payload bytes, or the decimal of the payload). *)
Definition fmt_value (v : value) : bytes :=
  match v with
  | VNull => nil_text
  | VInt z => z_dec z
  | VStr s => s
  | VBytes b => b
  | VFloat bits => z_dec (Z.of_N bits)
  | VTime n => z_dec n
  | VDec s => s
  end.

(* ---- image rows ---- *)
Definition icol := (nat * value)%type.   (* column index in the table, value *)
Definition irow := list icol.

Definition mem_nat (n : nat) (l : list nat) : bool := existsb (Nat.eqb n) l.

(* the cells of a row that belong to a primary-key column, in cell order *)
Definition key_cells (pk : list nat) (r : irow) : irow :=
  filter (fun c => mem_nat (fst c) pk) r.

(* the values buildLockKey prints for one row: for every cell, in cell
   order, one copy of the value per primary-key name equal to the cell's
   column (the inner `for _, key := range keys` loop).  With a duplicate-free
   pk this is exactly the values of [key_cells pk r]. *)
Definition key_vals (pk : list nat) (r : irow) : list value :=
  flat_map (fun c => map (fun _ => snd c) (filter (Nat.eqb (fst c)) pk)) r.

Fixpoint join (sep : byte) (l : list bytes) : bytes :=
  match l with
  | [] => []
  | x :: rest =>
      match rest with
      | [] => x
      | _ :: _ => x ++ sep :: join sep rest
      end
  end.

Definition row_key_text (pk : list nat) (r : irow) : bytes :=
  join c_us (map fmt_value (key_vals pk r)).

(* hasKeyColumn for some cell of the row *)
Definition has_key (pk : list nat) (r : irow) : bool :=
  existsb (fun c => mem_nat (fst c) pk) r.

(* the row loop; [seen] is `filedSequence > 0`.  A comma is written before a
   row as soon as an EARLIER row had a key cell, so key-less rows in front
   contribute nothing at all, while a key-less row after a keyed one still
   contributes its comma (and an empty text). *)
Fixpoint rows_text (pk : list nat) (seen : bool) (rows : list irow) : bytes :=
  match rows with
  | [] => []
  | r :: rs =>
      (if seen then [c_comma] else []) ++ row_key_text pk r
        ++ rows_text pk (seen || has_key pk r) rs
  end.

Definition build_lock_key (table : bytes) (pk : list nat) (rows : list irow) : bytes :=
  table ++ c_colon :: rows_text pk false rows.

(* tx.go register: every statement text followed by ';' *)
Definition join_lock_keys (ks : list bytes) : bytes :=
  concat (map (fun k => k ++ [c_semi]) ks).

(* ---- the coordinator side ---- *)
(* "a,,b" -> ["a";"";"b"], "" -> [""] *)
Fixpoint split_on (sep : byte) (s : bytes) : list bytes :=
  match s with
  | [] => [[]]
  | b :: s' =>
      if byte_eqb b sep then [] :: split_on sep s'
      else match split_on sep s' with
           | [] => [[b]]
           | p :: ps => (b :: p) :: ps
           end
  end.

(* cut at the first occurrence of sep; no occurrence: (s, []) *)
Fixpoint cut_first (sep : byte) (s : bytes) : bytes * bytes :=
  match s with
  | [] => ([], [])
  | b :: s' =>
      if byte_eqb b sep then ([], s')
      else let (h, t) := cut_first sep s' in (b :: h, t)
  end.

Definition is_nil (s : bytes) : bool :=
  match s with [] => true | _ :: _ => false end.

Definition parse_piece (p : bytes) : bytes * list (list bytes) :=
  let (t, rs) := cut_first c_colon p in
  (t, if is_nil rs then [] else map (split_on c_us) (split_on c_comma rs)).

Definition parse_lock_keys (s : bytes) : list (bytes * list (list bytes)) :=
  map parse_piece (filter (fun p => negb (is_nil p)) (split_on c_semi s)).

(* ---- keys ---- *)
Definition key_texts (k : key) : list bytes := map fmt_value k.

Definition is_sep (b : byte) : bool :=
  byte_eqb b c_comma || byte_eqb b c_us || byte_eqb b c_semi || byte_eqb b c_colon.

Definition sep_free (s : bytes) : bool := forallb (fun b => negb (is_sep b)) s.

(* s does not contain the byte c *)
Definition no_byte (c : byte) (s : bytes) : bool :=
  forallb (fun b => negb (byte_eqb b c)) s.

(* the canonical image row of a key: pk columns in pk order, once each *)
Definition canon_row (pk : list nat) (k : key) : irow := combine pk k.
