(* C18 tie: observed statements (tables from the dumps around the statement, matched keys from an
   independent evaluation of the WHERE text, decoded images from the undo row, arguments of the
   before-image query from the journal) against the model, evaluated with vm_compute. *)
From Coq Require Import List String NArith ZArith Bool.
From SeataV Require Import Base.Bytes At.Db At.Image At.SelectArgs Gen.Traverse.
Import ListNotations.
Open Scope nat_scope.

(* SET clause: column := constant | column := column + z *)
Inductive assign := AConst (v : value) | AAdd (z : Z).

Fixpoint set_nth (i : nat) (v : value) (r : row) : row :=
  match i, r with
  | O, _ :: r' => v :: r'
  | S i', x :: r' => x :: set_nth i' v r'
  | _, [] => []
  end.

Definition apply_sets (sets : list (nat * assign)) (r : row) : row :=
  fold_left (fun r ca =>
    match snd ca with
    | AConst v => set_nth (fst ca) v r
    | AAdd z => match nth (fst ca) r VNull with
                | VInt x => set_nth (fst ca) (VInt (x + z)) r
                | _ => r
                end
    end) sets r.

Record icase := {
  i_kind : nat;                       (* 0 update, 1 delete, 2 insert, 3 insert on duplicate key update *)
  i_only_care : bool;
  i_ncols : nat;
  i_pk : list nat;
  i_cols : list nat;                  (* SET columns / INSERT column list *)
  i_sets : list (nat * assign);
  i_tb : tbl;                         (* table before the statement *)
  i_m : list key;                     (* keys matched by WHERE/ORDER/LIMIT, scan order *)
  i_krs : tbl;                        (* insert: rows as stored *)
  i_listed : option (list key);
  i_last_id : Z;
  i_step : Z;
  i_auto : bool;                      (* the table has an AUTO_INCREMENT key column *)                         (* auto_increment_increment of the session *)
  i_ok : bool;                        (* observed *)
  i_before : image;
  i_after : image;
  i_ta : tbl                          (* table after *)
}.

Definition image_eqb (a b : image) : bool :=
  list_eqb (fun x y => key_eqb (fst x) (fst y) && row_eqb (snd x) (snd y)) (sort_tbl a) (sort_tbl b).

Definition model_res (c : icase) : res :=
  let all := seq 0 (i_ncols c) in
  match i_kind c with
  | 0 => at_update (i_pk c) (tracked (i_only_care c) (i_ncols c) (i_pk c) (i_cols c)) (i_m c) (apply_sets (i_sets c)) (i_tb c)
  | 1 => at_delete all (i_m c) (i_tb c)
  | 3 => (* upsert: i_cols = columns assigned by ON DUPLICATE KEY UPDATE; the effect on a colliding row is read off the observed table *)
      at_upsert (i_pk c) all (existsb (fun col => mem_nat col (i_pk c)) (i_cols c)) (i_m c)
                (fun r => match lookup (key_of (i_pk c) r) (i_ta c) with Some r' => r' | None => r end) (i_krs c) (i_tb c)
  | _ =>
      let trk := tracked (i_only_care c) (i_ncols c) (i_pk c) (i_cols c) in
      if i_auto c then at_insert trk (i_krs c) (i_listed c) (i_last_id c, i_step c) (i_tb c)
      else at_insert_plain trk (i_krs c) (i_listed c) (i_tb c)
  end.

Definition check_icase (c : icase) : list N :=
  match model_res c with
  | Ok t' b a =>
      (if i_ok c then [] else [1%N])
      ++ (if i_ok c && negb (image_eqb b (i_before c)) then [2%N] else [])
      ++ (if i_ok c && negb (image_eqb a (i_after c)) then [3%N] else [])
      ++ (if i_ok c && negb (tbl_eqb_ext t' (i_ta c)) then [4%N] else [])
  | Err _ => if i_ok c then [1%N] else (if tbl_eqb_ext (i_tb c) (i_ta c) then [] else [5%N])
  end.

Fixpoint number {A} (n : nat) (l : list A) : list (nat * A) :=
  match l with [] => [] | x :: l' => (n, x) :: number (S n) l' end.

Definition mismatches (cs : list icase) : list (nat * N) :=
  flat_map (fun ic => map (fun e => (fst ic, e)) (check_icase (snd ic))) (number 0 cs).

(* which theorem hypotheses hold of a case (measured domain coverage) *)
Definition in_domain (c : icase) : bool :=
  match i_kind c with
  | 2 => negb (i_auto c) || insert_supported (i_listed c) (List.length (i_krs c))
  | _ => forallb (fun k => mem k (i_tb c)) (i_m c)
  end.
Definition domain_count (cs : list icase) : nat := List.length (filter in_domain cs).

(* ---- argument selection ---- *)
Record acase := {
  a_roots : list (string * expr);
  a_args : list value;
  a_obs : option (list value)         (* arguments of the before-image query as journalled *)
}.

Definition opt_vals_eqb (a b : option (list value)) : bool :=
  match a, b with
  | Some x, Some y => list_eqb value_eqb x y
  | None, None => true
  | _, _ => false
  end.

Definition check_acase (c : acase) : list N :=
  if opt_vals_eqb (select_args traverse_table select_roots select_sorted (a_roots c) (a_args c)) (a_obs c)
  then [] else [21%N].

Definition amismatches (cs : list acase) : list (nat * N) :=
  flat_map (fun ic => map (fun e => (fst ic, e)) (check_acase (snd ic))) (number 0 cs).

Definition acovered (c : acase) : bool :=
  roots_covered grammar (a_roots c) && roots_in grammar_roots (a_roots c).
Definition acovered_count (cs : list acase) : nat := List.length (filter acovered cs).
