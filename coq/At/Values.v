(* C08 — Go value kinds of undo-log column values, the equality the undo
   executors use on them, float64 <-> integer conversions, base64 (std, padded),
   UTF-8 validity, RFC3339Nano time text.  Definitions only (executable). *)
From Coq Require Import List NArith ZArith Bool Lia.
From SeataV Require Import Base.Bytes.
Import ListNotations.
Open Scope Z_scope.

(* ---------------------------------------------------------------- values *)
Inductive width := W8 | W16 | W32 | W64.

(* a time.Time as its civil fields in its own zone + zone offset (seconds east) *)
Record tm := mkTm { t_year : Z; t_mon : Z; t_day : Z; t_hour : Z; t_min : Z; t_sec : Z;
                    t_nsec : Z; t_off : Z }.

(* what the row scanner yields (nil, int64, float64, string, []byte, time.Time)
   and what the decoders produce in addition (int8/16/32, bool, other interface{} shapes) *)
Inductive gval :=
| GNil | GInt (w : width) (z : Z) | GF64 (bits : N) | GStr (s : bytes) | GBytes (b : bytes)
| GTime (t : tm) | GBool (b : bool) | GOpaque.

Inductive kind := KNil | KInt | KFloat | KStr | KBytes | KTime | KOther.
Definition kind_of (v : gval) : kind :=
  match v with
  | GNil => KNil | GInt _ _ => KInt | GF64 _ => KFloat | GStr _ => KStr | GBytes _ => KBytes
  | GTime _ => KTime | _ => KOther
  end.
Definition kind_eqb (a b : kind) : bool :=
  match a, b with
  | KNil, KNil | KInt, KInt | KFloat, KFloat | KStr, KStr | KBytes, KBytes | KTime, KTime | KOther, KOther => true
  | _, _ => false
  end.

Definition width_eqb (a b : width) : bool :=
  match a, b with W8, W8 | W16, W16 | W32, W32 | W64, W64 => true | _, _ => false end.

Definition fits (w : width) (z : Z) : bool :=
  match w with
  | W8 => (-128 <=? z) && (z <=? 127)
  | W16 => (-32768 <=? z) && (z <=? 32767)
  | W32 => (-2147483648 <=? z) && (z <=? 2147483647)
  | W64 => (-9223372036854775808 <=? z) && (z <=? 9223372036854775807)
  end.

(* ---------------------------------------------------------------- float64 *)
Open Scope N_scope.
Definition f64_exp (b : N) : N := (b / 4503599627370496) mod 2048.
Definition f64_man (b : N) : N := b mod 4503599627370496.
Definition f64_neg (b : N) : bool := 9223372036854775808 <=? b.
Definition f64_finite (b : N) : bool := (b <? 18446744073709551616) && negb (f64_exp b =? 2047).
Definition f64_nan (b : N) : bool := (f64_exp b =? 2047) && negb (f64_man b =? 0).
Definition f64_zero (b : N) : bool := b mod 9223372036854775808 =? 0.
(* Go's == on float64 *)
Definition f64_eq (a b : N) : bool :=
  negb (f64_nan a) && negb (f64_nan b) && ((a =? b) || (f64_zero a && f64_zero b)).

(* float64(int64): round to nearest, ties to even (a > 0) *)
Definition f64_of_Nabs (a : N) : N :=
  let l := N.log2 a in
  if l <=? 52 then (l + 1023) * 4503599627370496 + (a * 2 ^ (52 - l) - 4503599627370496)
  else
    let sh := l - 52 in
    let q := a / 2 ^ sh in
    let r := a mod 2 ^ sh in
    let half := 2 ^ (sh - 1) in
    let q' := if (half <? r) || ((half =? r) && N.odd q) then q + 1 else q in
    (l + 1023) * 4503599627370496 + (q' - 4503599627370496).
Definition f64_of_Z (z : Z) : N :=
  match z with
  | Z0 => 0
  | Zpos p => f64_of_Nabs (Npos p)
  | Zneg p => 9223372036854775808 + f64_of_Nabs (Npos p)
  end.

(* the integer a finite float64 denotes, when it denotes one (-0 gives 0) *)
Definition f64_to_Z (b : N) : option Z :=
  if negb (f64_finite b) then None else
  let e := f64_exp b in let m := f64_man b in
  let sgn := if f64_neg b then (-1)%Z else 1%Z in
  if e =? 0 then (if m =? 0 then Some 0%Z else None) else
  let M := 4503599627370496 + m in
  if 1075 <=? e then Some (sgn * Z.of_N (M * 2 ^ (e - 1075)))%Z
  else let s := 1075 - e in
       if (s <=? 52) && (M mod 2 ^ s =? 0) then Some (sgn * Z.of_N (M / 2 ^ s))%Z else None.
Open Scope Z_scope.

(* ---------------------------------------------------------------- time *)
Definition leap (y : Z) : bool :=
  ((y mod 4 =? 0) && negb (y mod 100 =? 0)) || (y mod 400 =? 0).
Definition days_in (y m : Z) : Z :=
  if (m =? 2) then (if leap y then 29 else 28)
  else if (m =? 4) || (m =? 6) || (m =? 9) || (m =? 11) then 30 else 31.
Definition between (lo x hi : Z) : bool := (lo <=? x) && (x <=? hi).
Definition tm_wf (t : tm) : bool :=
  between 0 (t_year t) 9999 && between 1 (t_mon t) 12 && between 1 (t_day t) (days_in (t_year t) (t_mon t))
  && between 0 (t_hour t) 23 && between 0 (t_min t) 59 && between 0 (t_sec t) 59
  && between 0 (t_nsec t) 999999999 && between (-86399) (t_off t) 86399 && (t_off t mod 60 =? 0).
Definition tm_eqb (a b : tm) : bool :=
  (t_year a =? t_year b) && (t_mon a =? t_mon b) && (t_day a =? t_day b) && (t_hour a =? t_hour b)
  && (t_min a =? t_min b) && (t_sec a =? t_sec b) && (t_nsec a =? t_nsec b) && (t_off a =? t_off b).

(* ---------------------------------------------------------------- the equality of the undo executors
   datasource.DeepEqual folds every numeric kind through float64 and compares the
   rest structurally; the values are then bound as parameters of the compensating
   SQL, where integers count by value, and a string and a []byte of the same
   content are the same parameter (the current-image scanner yields string for
   both).  executor_eq = DeepEqual's folding agrees AND the bound parameter is the same. *)
Definition executor_eq (a b : gval) : bool :=
  match a, b with
  | GNil, GNil => true
  | GInt _ x, GInt _ y => N.eqb (f64_of_Z x) (f64_of_Z y) && (x =? y)
  | GF64 x, GF64 y => f64_eq x y
  | GInt _ x, GF64 y | GF64 y, GInt _ x =>
      f64_eq (f64_of_Z x) y && match f64_to_Z y with Some z => z =? x | None => false end
  | GStr x, GStr y | GStr x, GBytes y | GBytes x, GStr y | GBytes x, GBytes y => bytes_eqb x y
  | GTime x, GTime y => tm_eqb x y
  | GBool x, GBool y => Bool.eqb x y
  | _, _ => false
  end.

(* exact equality (kind, width and content): used by the tie to compare the decoded value *)
Definition gval_eqb (a b : gval) : bool :=
  match a, b with
  | GNil, GNil => true
  | GInt w x, GInt w' y => width_eqb w w' && (x =? y)
  | GF64 x, GF64 y => N.eqb x y
  | GStr x, GStr y => bytes_eqb x y
  | GBytes x, GBytes y => bytes_eqb x y
  | GTime x, GTime y => tm_eqb x y
  | GBool x, GBool y => Bool.eqb x y
  | GOpaque, GOpaque => true
  | _, _ => false
  end.

(* ---------------------------------------------------------------- base64 (StdEncoding) *)
Open Scope N_scope.
Definition b64_char (n : N) : byte :=
  if n <? 26 then n2b (65 + n) else if n <? 52 then n2b (97 + (n - 26))
  else if n <? 62 then n2b (48 + (n - 52)) else if n =? 62 then n2b 43 else n2b 47.
Definition b64_val (c : byte) : option N :=
  let n := b2n c in
  if (65 <=? n) && (n <=? 90) then Some (n - 65)
  else if (97 <=? n) && (n <=? 122) then Some (n - 97 + 26)
  else if (48 <=? n) && (n <=? 57) then Some (n - 48 + 52)
  else if n =? 43 then Some 62 else if n =? 47 then Some 63 else None.
Definition b64_pad : byte := n2b 61.

Fixpoint b64_encode (l : bytes) : bytes :=
  match l with
  | [] => []
  | [a] => let n := b2n a in [b64_char (n / 4); b64_char ((n mod 4) * 16); b64_pad; b64_pad]
  | [a; b] => let n := b2n a * 256 + b2n b in
              [b64_char (n / 1024); b64_char ((n / 16) mod 64); b64_char ((n mod 16) * 4); b64_pad]
  | a :: b :: c :: r =>
      let n := b2n a * 65536 + b2n b * 256 + b2n c in
      b64_char (n / 262144) :: b64_char ((n / 4096) mod 64) :: b64_char ((n / 64) mod 64)
        :: b64_char (n mod 64) :: b64_encode r
  end.

Definition is_pad (c : byte) : bool := b2n c =? 61.

(* input without CR/LF: groups of four, padding only in the last group *)
Fixpoint b64_strict (l : bytes) : option bytes :=
  match l with
  | [] => Some []
  | c1 :: c2 :: c3 :: c4 :: r =>
      match b64_val c1, b64_val c2 with
      | Some v1, Some v2 =>
          match r with
          | [] =>
              if is_pad c3 then
                (if is_pad c4 then Some [n2b (v1 * 4 + v2 / 16)] else None)
              else match b64_val c3 with
                   | None => None
                   | Some v3 =>
                       if is_pad c4 then
                         Some [n2b (v1 * 4 + v2 / 16); n2b ((v2 mod 16) * 16 + v3 / 4)]
                       else match b64_val c4 with
                            | None => None
                            | Some v4 => Some [n2b (v1 * 4 + v2 / 16); n2b ((v2 mod 16) * 16 + v3 / 4);
                                               n2b ((v3 mod 4) * 64 + v4)]
                            end
                   end
          | _ =>
              match b64_val c3, b64_val c4, b64_strict r with
              | Some v3, Some v4, Some out =>
                  Some (n2b (v1 * 4 + v2 / 16) :: n2b ((v2 mod 16) * 16 + v3 / 4)
                          :: n2b ((v3 mod 4) * 64 + v4) :: out)
              | _, _, _ => None
              end
          end
      | _, _ => None
      end
  | _ => None
  end.

Definition not_crlf (c : byte) : bool := negb ((b2n c =? 10) || (b2n c =? 13)).
(* base64.StdEncoding.DecodeString: CR and LF are skipped wherever they stand *)
Definition b64_decode (l : bytes) : option bytes := b64_strict (filter not_crlf l).

(* ---------------------------------------------------------------- UTF-8 validity (utf8.Valid) *)
Definition cont (c : byte) : bool := (128 <=? b2n c) && (b2n c <=? 191).
Fixpoint valid_utf8 (l : bytes) : bool :=
  match l with
  | [] => true
  | a :: r =>
      let x := b2n a in
      if x <? 128 then valid_utf8 r
      else if (194 <=? x) && (x <=? 223) then
        match r with c1 :: r1 => cont c1 && valid_utf8 r1 | _ => false end
      else if (224 <=? x) && (x <=? 239) then
        match r with
        | c1 :: c2 :: r2 =>
            let y := b2n c1 in
            ((if x =? 224 then (160 <=? y) && (y <=? 191)
              else if x =? 237 then (128 <=? y) && (y <=? 159) else cont c1))
            && cont c2 && valid_utf8 r2
        | _ => false
        end
      else if (240 <=? x) && (x <=? 244) then
        match r with
        | c1 :: c2 :: c3 :: r3 =>
            let y := b2n c1 in
            ((if x =? 240 then (144 <=? y) && (y <=? 191)
              else if x =? 244 then (128 <=? y) && (y <=? 143) else cont c1))
            && cont c2 && cont c3 && valid_utf8 r3
        | _ => false
        end
      else false
  end.

(* what encoding/json writes for a Go string: every byte that does not start a valid UTF-8
   sequence becomes U+FFFD (EF BF BD) and is skipped alone *)
Definition repl : bytes := [n2b 239; n2b 191; n2b 189].
Fixpoint sanitize_slow (l : bytes) : bytes :=
  match l with
  | [] => []
  | a :: r =>
      let x := b2n a in
      if x <? 128 then a :: sanitize_slow r
      else if (194 <=? x) && (x <=? 223) then
        match r with
        | c1 :: r1 => if cont c1 then a :: c1 :: sanitize_slow r1 else repl ++ sanitize_slow r
        | _ => repl ++ sanitize_slow r
        end
      else if (224 <=? x) && (x <=? 239) then
        match r with
        | c1 :: c2 :: r2 =>
            let y := b2n c1 in
            if ((if x =? 224 then (160 <=? y) && (y <=? 191)
                 else if x =? 237 then (128 <=? y) && (y <=? 159) else cont c1)) && cont c2
            then a :: c1 :: c2 :: sanitize_slow r2 else repl ++ sanitize_slow r
        | _ => repl ++ sanitize_slow r
        end
      else if (240 <=? x) && (x <=? 244) then
        match r with
        | c1 :: c2 :: c3 :: r3 =>
            let y := b2n c1 in
            if ((if x =? 240 then (144 <=? y) && (y <=? 191)
                 else if x =? 244 then (128 <=? y) && (y <=? 143) else cont c1)) && cont c2 && cont c3
            then a :: c1 :: c2 :: c3 :: sanitize_slow r3 else repl ++ sanitize_slow r
        | _ => repl ++ sanitize_slow r
        end
      else repl ++ sanitize_slow r
  end.
Definition utf8_sanitize (l : bytes) : bytes := if valid_utf8 l then l else sanitize_slow l.

(* ---------------------------------------------------------------- RFC3339Nano text of a time
   (reference instance of the time text layer; the tie validates it against
   time.Format / time.Parse on every run) *)
Definition digit (n : N) : byte := n2b (48 + n mod 10).
Fixpoint dec_w (w : nat) (n : N) : bytes :=
  match w with O => [] | S w' => dec_w w' (n / 10) ++ [digit n] end.
Definition digit_val (c : byte) : option N :=
  let n := b2n c in if (48 <=? n) && (n <=? 57) then Some (n - 48) else None.
Fixpoint undec_acc (acc : N) (l : bytes) : option N :=
  match l with
  | [] => Some acc
  | c :: r => match digit_val c with Some d => undec_acc (acc * 10 + d) r | None => None end
  end.
Definition undec (l : bytes) : option N := match l with [] => None | _ => undec_acc 0 l end.

Fixpoint strip0 (l : bytes) : bytes :=  (* drop leading '0's of a reversed digit string *)
  match l with c :: r => if b2n c =? 48 then strip0 r else l | [] => [] end.
Definition frac_text (ns : N) : bytes :=
  if ns =? 0 then [] else n2b 46 :: rev (strip0 (rev (dec_w 9 ns))).

Definition fmt_time_ref (t : tm) : bytes :=
  let zn := Z.to_N in
  dec_w 4 (zn (t_year t)) ++ [n2b 45] ++ dec_w 2 (zn (t_mon t)) ++ [n2b 45] ++ dec_w 2 (zn (t_day t))
  ++ [n2b 84] ++ dec_w 2 (zn (t_hour t)) ++ [n2b 58] ++ dec_w 2 (zn (t_min t)) ++ [n2b 58]
  ++ dec_w 2 (zn (t_sec t)) ++ frac_text (zn (t_nsec t))
  ++ (if (t_off t =? 0)%Z then [n2b 90]
      else let a := zn (Z.abs (t_off t)) / 60 in
           [n2b (if (t_off t <? 0)%Z then 45 else 43)] ++ dec_w 2 (a / 60) ++ [n2b 58] ++ dec_w 2 (a mod 60)).

Fixpoint take_digits (l : bytes) : bytes * bytes :=
  match l with
  | c :: r => match digit_val c with
              | Some _ => let '(d, rest) := take_digits r in (c :: d, rest)
              | None => ([], l)
              end
  | [] => ([], [])
  end.

Definition expect (c : N) (l : bytes) : option bytes :=
  match l with x :: r => if b2n x =? c then Some r else None | [] => None end.
Definition num2 (l : bytes) : option (N * bytes) :=
  match l with
  | a :: b :: r => match digit_val a, digit_val b with Some x, Some y => Some (x * 10 + y, r) | _, _ => None end
  | _ => None
  end.
Definition num4 (l : bytes) : option (N * bytes) :=
  match num2 l with
  | Some (hi, r) => match num2 r with Some (lo, r') => Some (hi * 100 + lo, r') | None => None end
  | None => None
  end.

Definition obind {A B} (o : option A) (f : A -> option B) : option B :=
  match o with Some a => f a | None => None end.

(* time.Parse(time.RFC3339Nano, s) on the strings the undo log can hold: strict
   field widths, optional fraction of 1..9 digits (more digits are accepted by Go
   and truncated; the reference instance refuses them), Z or +hh:mm / -hh:mm *)
Definition parse_time_ref (s : bytes) : option tm :=
  obind (num4 s) (fun '(y, s) => obind (expect 45 s) (fun s =>
  obind (num2 s) (fun '(mo, s) => obind (expect 45 s) (fun s =>
  obind (num2 s) (fun '(d, s) => obind (expect 84 s) (fun s =>
  obind (num2 s) (fun '(h, s) => obind (expect 58 s) (fun s =>
  obind (num2 s) (fun '(mi, s) => obind (expect 58 s) (fun s =>
  obind (num2 s) (fun '(se, s) =>
  obind (match s with
         | c :: r => if b2n c =? 46 then
                       let '(ds, rest) := take_digits r in
                       let n := length ds in
                       if (Nat.leb 1 n && Nat.leb n 9)%bool then
                         obind (undec ds) (fun v => Some (v * 10 ^ N.of_nat (9 - n), rest))
                       else None
                     else Some (0, s)
         | [] => Some (0, s)
         end) (fun '(ns, s) =>
  obind (match s with
         | [c] => if b2n c =? 90 then Some 0%Z else None
         | c :: r =>
             let sg := b2n c in
             if (sg =? 43) || (sg =? 45) then
               obind (num2 r) (fun '(oh, r) => obind (expect 58 r) (fun r =>
               obind (num2 r) (fun '(om, r) =>
                 match r with
                 | [] => if (oh <=? 24) && (om <=? 60)
                         then Some (Z.mul (if sg =? 45 then (-1)%Z else 1%Z) (Z.of_N ((oh * 60 + om) * 60)))
                         else None
                 | _ => None
                 end)))
             else None
         | [] => None
         end) (fun off =>
    let t := mkTm (Z.of_N y) (Z.of_N mo) (Z.of_N d) (Z.of_N h) (Z.of_N mi) (Z.of_N se) (Z.of_N ns) off in
    if between 1 (t_mon t) 12 && between 1 (t_day t) (days_in (t_year t) (t_mon t))
       && between 0 (t_hour t) 23 && between 0 (t_min t) 59 && between 0 (t_sec t) 59
    then Some t else None))))))))))))).
