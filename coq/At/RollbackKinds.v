(* Statement kinds of an undo image (types.SQLTypeInsert / Update / Delete are
   the only ones undo/factor.GetUndoExecutor accepts).  Separate file so that
   the translator-generated table Gen/UndoFlow.v can name them. *)
Inductive kind := KInsert | KUpdate | KDelete.

Definition kind_eqb (a b : kind) : bool :=
  match a, b with
  | KInsert, KInsert | KUpdate, KUpdate | KDelete, KDelete => true
  | _, _ => false
  end.
