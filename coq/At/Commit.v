(* C02 — executable model of phase one of ONE AT-mode local transaction of seata-go
   inside a global transaction.

   Client:  pkg/datasource/sql/conn_at.go (createNewTxOnExecIfNeed: the autocommit wrapper),
            tx_at.go (commitOnAT: register, undo-log flush, COMMIT, report),
            tx.go (register, report with MaxRetries = 5).
   Database: abstract.  The durable state is the list of business statements whose effect is
            committed and the list of branch ids whose undo row is committed; an open
            transaction has a working copy; a failed call has no effect.

   Every call the proxy makes consumes one outcome of a fault script, in issue order.  The
   journal is the sequence of calls that reached the database / the coordinator together
   with their outcome.  The database is a separate machine: its state is a function
   (`replay`) of the journal, so the durable state after a crash at any point is the replay
   of the corresponding prefix. *)
From Coq Require Import List NArith Bool Arith.
Import ListNotations.

(* ---------------------------------------------------------------- data *)

Record durable := { d_biz : list nat ; d_undo : list N }.

Record script := { s_db : list bool ; s_reg : list (option N) ; s_rep : list bool }.

Inductive skind := KUpdate | KDelete | KInsert.
Record stmt := { st_id : nat ; st_kind : skind ; st_rows : bool }.
Inductive use := Auto (s : stmt) | Explicit (ss : list stmt) (commit : bool).

Inductive dbop := OBegin | OQuery | OStmt (id : nat) | OUndo | OCommit | ORollback.
Inductive event :=
| EDb (op : dbop) (ok : bool)
| EReg (granted : option N)
| ERep (done : bool) (ok : bool).

Record outcome := {
  o_journal : list event ;
  o_results : list bool ;
  o_durable : durable ;
  o_open : bool
}.

(* ---------------------------------------------------------------- fault script *)

(* next outcome of a database call / a report attempt; an exhausted list answers ok *)
Definition pop (l : list bool) : bool * list bool :=
  match l with [] => (true, []) | b :: r => (b, r) end.

(* outcome of THE BranchRegister of the run (one transaction registers at most once):
   exhausted => the default fresh id 1; a "grant" of id 0 is not a grant (the client
   treats branch id 0 as "no branch") *)
Definition pop_reg (l : list (option N)) : option N :=
  match l with
  | [] => Some 1%N
  | Some b :: _ => if N.eqb b 0 then None else Some b
  | None :: _ => None
  end.

(* ---------------------------------------------------------------- statements *)

(* database calls of one DML statement, in issue order *)
Definition calls (s : stmt) : list dbop :=
  match st_kind s with
  | KUpdate => OQuery :: OStmt (st_id s) :: (if st_rows s then [OQuery] else [])
  | KDelete => [OQuery; OStmt (st_id s)]
  | KInsert => [OStmt (st_id s); OQuery]
  end.

(* run the calls in order, stop at the first failure: journal, all ok?, rest of the script *)
Fixpoint exec_calls (ops : list dbop) (db : list bool) : list event * bool * list bool :=
  match ops with
  | [] => ([], true, db)
  | o :: r =>
      let (b, db1) := pop db in
      if b then let '(j, ok, db2) := exec_calls r db1 in (EDb o true :: j, ok, db2)
      else ([EDb o false], false, db1)
  end.

(* the statements of the transaction one after the other; a failing statement returns an
   error to ITS caller, the transaction stays open.  oks: per statement "all calls
   succeeded" = the statement returned Ok = it recorded an image *)
Fixpoint exec_stmts (ss : list stmt) (db : list bool) : list event * list bool * list bool :=
  match ss with
  | [] => ([], [], db)
  | s :: r =>
      let '(j, ok, db1) := exec_calls (calls s) db in
      let '(j', oks, db2) := exec_stmts r db1 in
      (j ++ j', ok :: oks, db2)
  end.

(* some recorded image has >= 1 row *)
Fixpoint rows_of (ss : list stmt) (oks : list bool) : bool :=
  match ss, oks with
  | s :: ss', ok :: oks' => (ok && st_rows s) || rows_of ss' oks'
  | _, _ => false
  end.

(* ---------------------------------------------------------------- commitOnAT *)

(* report loop: at most k attempts, stops at the first success *)
Fixpoint reports_n (k : nat) (done : bool) (rep : list bool) : list event :=
  match k with
  | O => []
  | S k' => let (b, rep') := pop rep in
            ERep done b :: (if b then [] else reports_n k' done rep')
  end.
Definition max_retries : nat := 5.
Definition reports (done : bool) (rep : list bool) : list event := reports_n max_retries done rep.

(* ROLLBACK after a failure; its own failure is only logged *)
Definition rb (db : list bool) : list event := [EDb ORollback (fst (pop db))].

(* recd: some image was recorded; rows: some recorded image has rows.
   Result: journal of the commit, and Ok/Err for the caller *)
Definition commit_tail (recd rows : bool) (db : list bool) (reg : list (option N)) (rep : list bool)
  : list event * bool :=
  if recd then
    match pop_reg reg with
    | None => (EReg None :: rb db, false)
    | Some b =>
        let commit_step (db1 : list bool) : list event * bool :=
          let (c, db2) := pop db1 in
          if c then (EDb OCommit true :: reports true rep, true)
          else (EDb OCommit false :: rb db2 ++ reports false rep, false) in
        if rows then
          let (u, db1) := pop db in
          if u then let (j, ok) := commit_step db1 in (EReg (Some b) :: EDb OUndo true :: j, ok)
          else (EReg (Some b) :: EDb OUndo false :: rb db1 ++ reports false rep, false)
        else let (j, ok) := commit_step db in (EReg (Some b) :: j, ok)
    end
  else
    (* nothing recorded: no register, no undo insert, branch id 0 => no report *)
    let (c, db1) := pop db in
    if c then ([EDb OCommit true], true) else (EDb OCommit false :: rb db1, false).

(* ---------------------------------------------------------------- one use *)

Definition stmts_of (u : use) : list stmt :=
  match u with Auto s => [s] | Explicit ss _ => ss end.

(* after the statements: the autocommit wrapper rolls back when the statement failed;
   the explicit user rolls back when he says so *)
Definition wants_rollback (u : use) (oks : list bool) : bool :=
  match u with Auto _ => negb (forallb (fun b => b) oks) | Explicit _ c => negb c end.

(* user-visible results *)
Definition results_of (u : use) (oks : list bool) (last : bool) : list bool :=
  match u with Auto _ => [last] | Explicit _ _ => true :: oks ++ [last] end.

(* journal, user-visible results, per-statement "recorded an image" *)
Definition run_parts (u : use) (sc : script) : list event * list bool * list bool :=
  let (b, db0) := pop (s_db sc) in
  if b then
    let '(jb, oks, db1) := exec_stmts (stmts_of u) db0 in
    if wants_rollback u oks then
      let r := fst (pop db1) in
      (EDb OBegin true :: jb ++ [EDb ORollback r],
       results_of u oks (match u with Auto _ => false | Explicit _ _ => r end), oks)
    else
      let (jt, okc) := commit_tail (existsb (fun b => b) oks) (rows_of (stmts_of u) oks)
                                   db1 (s_reg sc) (s_rep sc) in
      (EDb OBegin true :: jb ++ jt, results_of u oks okc, oks)
  else ([EDb OBegin false], [false], []).

Definition journal (u : use) (sc : script) : list event := fst (fst (run_parts u sc)).
Definition stmt_oks (u : use) (sc : script) : list bool := snd (run_parts u sc).

(* ---------------------------------------------------------------- database: replay of a journal *)

Record dbstate := {
  db_dur : durable ;
  db_wc : option (list nat * option N) ;   (* working copy of the open transaction *)
  db_bid : N                               (* branch id of the last granted register (what the undo row carries) *)
}.

Definition commit_wc (d : durable) (w : list nat) (u : option N) : durable :=
  {| d_biz := d_biz d ++ w ; d_undo := d_undo d ++ match u with Some b => [b] | None => [] end |}.

Definition step (st : dbstate) (e : event) : dbstate :=
  match e with
  | EReg (Some b) => {| db_dur := db_dur st ; db_wc := db_wc st ; db_bid := b |}
  | EDb op true =>
      match op, db_wc st with
      | OBegin, _ => {| db_dur := db_dur st ; db_wc := Some ([], None) ; db_bid := db_bid st |}
      | OStmt id, Some (w, u) => {| db_dur := db_dur st ; db_wc := Some (w ++ [id], u) ; db_bid := db_bid st |}
      | OStmt id, None => (* outside a transaction the server autocommits *)
          {| db_dur := commit_wc (db_dur st) [id] None ; db_wc := None ; db_bid := db_bid st |}
      | OUndo, Some (w, u) => {| db_dur := db_dur st ; db_wc := Some (w, Some (db_bid st)) ; db_bid := db_bid st |}
      | OUndo, None => {| db_dur := commit_wc (db_dur st) [] (Some (db_bid st)) ; db_wc := None ; db_bid := db_bid st |}
      | OCommit, Some (w, u) => {| db_dur := commit_wc (db_dur st) w u ; db_wc := None ; db_bid := db_bid st |}
      | ORollback, Some _ => {| db_dur := db_dur st ; db_wc := None ; db_bid := db_bid st |}
      | _, _ => st
      end
  | _ => st        (* a failed call has no effect; reports do not touch the database *)
  end.

Definition init_db (d0 : durable) : dbstate := {| db_dur := d0 ; db_wc := None ; db_bid := 0 |}.
Definition replay_st (d0 : durable) (j : list event) : dbstate := fold_left step j (init_db d0).

(* durable state and working copy after the events of j *)
Definition replay (d0 : durable) (j : list event) : durable * option (list nat * option N) :=
  (db_dur (replay_st d0 j), db_wc (replay_st d0 j)).

Definition is_open (st : dbstate) : bool := match db_wc st with Some _ => true | None => false end.

Definition run (d0 : durable) (u : use) (sc : script) : outcome :=
  let st := replay_st d0 (journal u sc) in
  {| o_journal := journal u sc ;
     o_results := snd (fst (run_parts u sc)) ;
     o_durable := db_dur st ;
     o_open := is_open st |}.

(* the process dies after the first n journal events: the open transaction is discarded *)
Definition crash_durable (d0 : durable) (u : use) (sc : script) (n : nat) : durable :=
  fst (replay d0 (firstn n (journal u sc))).

(* ---------------------------------------------------------------- observations on a journal *)

Definition is_commit_ok (e : event) : bool := match e with EDb OCommit true => true | _ => false end.
Definition is_undo_ok (e : event) : bool := match e with EDb OUndo true => true | _ => false end.
Definition is_rb_failed (e : event) : bool := match e with EDb ORollback false => true | _ => false end.
Definition is_rep (e : event) : bool := match e with ERep _ _ => true | _ => false end.
Definition is_rep_of (d : bool) (e : event) : bool := match e with ERep d' _ => Bool.eqb d d' | _ => false end.
(* the events of a transaction that neither open nor close it and are not reports *)
Definition inside (e : event) : bool :=
  match e with
  | EDb OBegin _ | EDb OCommit true | EDb ORollback _ | ERep _ _ => false
  | _ => true
  end.
Definition is_close (e : event) : bool :=
  match e with EDb OCommit true | EDb ORollback _ => true | _ => false end.
(* a call of the bracket other than the compensating ROLLBACK failed *)
Definition is_call_failed (e : event) : bool :=
  match e with
  | EDb ORollback _ => false
  | EDb _ false => true
  | EReg None => true
  | _ => false
  end.
(* register refused / undo insert failed / COMMIT failed *)
Definition is_tail_failed (e : event) : bool :=
  match e with EReg None | EDb OUndo false | EDb OCommit false => true | _ => false end.

Definition committed (j : list event) : bool := existsb is_commit_ok j.
Definition undo_ok (j : list event) : bool := existsb is_undo_ok j.
Definition rollback_failed (j : list event) : bool := existsb is_rb_failed j.
Definition call_failed (j : list event) : bool := existsb is_call_failed j.
Definition tail_failed (j : list event) : bool := existsb is_tail_failed j.
Definition count (p : event -> bool) (j : list event) : nat := length (filter p j).

(* ids of the business statements that were applied, in order *)
Definition stmts_ok (j : list event) : list nat :=
  flat_map (fun e => match e with EDb (OStmt id) true => [id] | _ => [] end) j.

(* the granted branch id *)
Fixpoint granted (j : list event) : option N :=
  match j with
  | [] => None
  | EReg (Some b) :: _ => Some b
  | _ :: r => granted r
  end.

(* last database call of a journal *)
Definition last_db (j : list event) : option event :=
  fold_left (fun acc e => match e with EDb _ _ => Some e | _ => acc end) j None.

(* the "all" state: d0 extended with exactly the applied statements and, iff the undo
   insert succeeded, the undo row of the granted branch *)
Definition all_state (d0 : durable) (j : list event) : durable :=
  commit_wc d0 (stmts_ok j) (if undo_ok j then granted j else None).
