(* C03 tie: lock key texts as received by the coordinator against the model, evaluated with vm_compute. *)
From Coq Require Import List NArith ZArith Bool.
From SeataV Require Import Base.Bytes At.Db At.Image At.LockKey At.Lock.
Import ListNotations.
Open Scope nat_scope.

Record lcase := {
  l_table : bytes;
  l_pk : list nat;
  l_rows : list irow;          (* the image the executor built the key from: cells (column index, value) in image order *)
  l_changed : list key;        (* keys of the rows whose content differs across the local COMMIT (row diff of the dumps) *)
  l_obs : bytes                (* LockKey of the BranchRegisterRequest / GlobalLockQueryRequest as received *)
}.

Definition texts_eqb (a b : list bytes) : bool := list_eqb bytes_eqb a b.

Definition check_lcase (c : lcase) : list N :=
  let model := lock_key_text (l_table c) (l_pk c) (l_rows c) in
  (if bytes_eqb (join_lock_keys [model]) (l_obs c) || bytes_eqb model (l_obs c) then [] else [31%N])
  ++ (let parsed := flat_map snd (parse_lock_keys (l_obs c)) in
      if forallb (fun k => existsb (texts_eqb (key_texts k)) parsed) (l_changed c) then [] else [32%N]).

Fixpoint number {A} (n : nat) (l : list A) : list (nat * A) :=
  match l with [] => [] | x :: l' => (n, x) :: number (S n) l' end.

Definition mismatches (cs : list lcase) : list (nat * N) :=
  flat_map (fun ic => map (fun e => (fst ic, e)) (check_lcase (snd ic))) (number 0 cs).

(* select for update *)
Record scase := { s_matched : list key; s_lockable : bool; s_journal : list sev; s_rows : option (list key);
                  s_table : bytes; s_pk : list nat; s_text : option bytes (* LockKey of the GlobalLockQueryRequest, key-query row order = s_matched *) }.

Definition sev_eqb (a b : sev) : bool :=
  match a, b with
  | SSavepoint, SSavepoint | SBusiness, SBusiness | SRollbackTo, SRollbackTo => true
  | SKeyQuery x, SKeyQuery y => list_eqb key_eqb x y
  | SLockQuery x p, SLockQuery y q => list_eqb key_eqb x y && Bool.eqb p q
  | _, _ => false
  end.

Definition check_scase (c : scase) : list N :=
  let '(j, r) := sfu (s_matched c) (s_lockable c) in
  (if list_eqb sev_eqb j (s_journal c) then [] else [33%N])
  ++ (match r, s_rows c with
      | Some x, Some y => if list_eqb key_eqb x y then [] else [34%N]
      | None, None => []
      | _, _ => [34%N]
      end)
  ++ (match s_text c with
      | Some t => if bytes_eqb t (sfu_key_text (s_table c) (s_pk c) (s_matched c)) then [] else [36%N]
      | None => []
      end).

Definition smismatches (cs : list scase) : list (nat * N) :=
  flat_map (fun ic => map (fun e => (fst ic, e)) (check_scase (snd ic))) (number 0 cs).

(* a local transaction of several statements: the register text is the ';'-join of the statements' texts in
   unspecified order (Go map), duplicates merged *)
Record tcase := {
  t_table : bytes;
  t_pk : list nat;
  t_images : list (list irow);   (* per recorded statement: the image its key was built from *)
  t_changed : list key;          (* row diff of the dumps across the local transaction *)
  t_obs : bytes
}.

Definition is_nilb (b : bytes) : bool := match b with [] => true | _ => false end.

Definition check_tcase (c : tcase) : list N :=
  let models := map (lock_key_text (t_table c) (t_pk c)) (t_images c) in
  let pieces := filter (fun p => negb (is_nilb p)) (split_on c_semi (t_obs c)) in
  (if forallb (fun m => existsb (bytes_eqb m) pieces) models && forallb (fun p => existsb (bytes_eqb p) models) pieces
   then [] else [35%N])
  ++ (let parsed := flat_map snd (parse_lock_keys (t_obs c)) in
      if forallb (fun k => existsb (texts_eqb (key_texts k)) parsed) (t_changed c) then [] else [32%N]).

Definition tmismatches (cs : list tcase) : list (nat * N) :=
  flat_map (fun ic => map (fun e => (fst ic, e)) (check_tcase (snd ic))) (number 0 cs).
