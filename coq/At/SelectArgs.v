(* C18: which bound arguments of a DML statement are handed to the before-image
   query.  Mirrors baseExecutor.buildSelectArgs / traversalArgs
   (pkg/datasource/sql/exec/at/base_executor.go): the WHERE / ORDER BY / LIMIT
   parts are walked, the indexes of the parameter markers met are collected,
   sorted, and the arguments at those indexes are picked.  WHICH node kinds and
   fields the walk descends into is a table (Gen/Traverse.v, regenerated from
   the Go source on every run).  Definitions only. *)
From Coq Require Import List String NArith Bool.
Import ListNotations.
Open Scope string_scope.
Open Scope list_scope.

(* A generic syntax tree: a node is the Go type name of the parser node and its
   child-bearing fields in textual order (a slice field repeats its name once
   per element); a parameter marker carries its 0-based textual index. *)
Inductive expr :=
| EParam (order : N)
| ENode (kind : string) (children : list (string * expr)).

Definition table := list (string * list string).

Fixpoint mem_str (s : string) (l : list string) : bool :=
  match l with [] => false | x :: l' => String.eqb s x || mem_str s l' end.

Fixpoint fields_of (t : table) (k : string) : option (list string) :=
  match t with
  | [] => None
  | (k', fs) :: t' => if String.eqb k k' then Some fs else fields_of t' k
  end.

Definition field_ok (t : table) (k f : string) : bool :=
  match fields_of t k with Some fs => mem_str f fs | None => false end.

Definition param_ok (t : table) : bool := field_ok t "ParamMarkerExpr" "@Order".

(* every marker of the tree, in textual order *)
Fixpoint markers (e : expr) : list N :=
  match e with
  | EParam n => [n]
  | ENode _ cs =>
      (fix go (l : list (string * expr)) : list N :=
         match l with [] => [] | (_, c) :: l' => markers c ++ go l' end) cs
  end.

(* the walk of traversalArgs under table t *)
Fixpoint traverse (t : table) (e : expr) : list N :=
  match e with
  | EParam n => if param_ok t then [n] else []
  | ENode k cs =>
      (fix go (l : list (string * expr)) : list N :=
         match l with
         | [] => []
         | (f, c) :: l' => (if field_ok t k f then traverse t c else []) ++ go l'
         end) cs
  end.

Definition nilb {A} (l : list A) : bool := match l with [] => true | _ => false end.

(* every path from the root to a marker goes through fields the table descends into *)
Fixpoint covered (t : table) (e : expr) : bool :=
  match e with
  | EParam _ => param_ok t
  | ENode k cs =>
      (fix go (l : list (string * expr)) : bool :=
         match l with
         | [] => true
         | (f, c) :: l' => (nilb (markers c) || (field_ok t k f && covered t c)) && go l'
         end) cs
  end.

(* g <= t : t descends wherever g does *)
Definition table_leb (g t : table) : bool :=
  forallb (fun kf => forallb (fun f => field_ok t (fst kf) f) (snd kf)) g.

(* insertion sort on N (gxsort.Int32) *)
Fixpoint ins (x : N) (l : list N) : list N :=
  match l with
  | [] => [x]
  | y :: l' => if N.leb x y then x :: l else y :: ins x l'
  end.
Definition sortN (l : list N) : list N := fold_right ins [] l.

(* buildSelectArgs: roots = the parts of the statement, by name *)
Definition walk_roots (t : table) (walked : list string) (roots : list (string * expr)) : list N :=
  flat_map (fun re => if mem_str (fst re) walked then traverse t (snd re) else []) roots.

Definition select_idx (t : table) (walked : list string) (sorted : bool) (roots : list (string * expr)) : list N :=
  let raw := walk_roots t walked roots in if sorted then sortN raw else raw.

Definition all_markers (roots : list (string * expr)) : list N :=
  flat_map (fun re => markers (snd re)) roots.

(* args[index]; an index past the arguments is a run-time panic in Go: None *)
Fixpoint pick {A} (args : list A) (idx : list N) : option (list A) :=
  match idx with
  | [] => Some []
  | i :: idx' =>
      match nth_error args (N.to_nat i), pick args idx' with
      | Some a, Some r => Some (a :: r)
      | _, _ => None
      end
  end.

Definition select_args {A} (t : table) (walked : list string) (sorted : bool)
           (roots : list (string * expr)) (args : list A) : option (list A) :=
  pick args (select_idx t walked sorted roots).

(* ---- the grammar the property quantifies over: comparison, AND/OR (binary
   operations), IN, BETWEEN, parentheses, NOT / unary minus, IS NULL, LIKE,
   ORDER BY items; for each kind the fields that can hold a parameter.  Written
   from the parser's node structs (github.com/arana-db/parser/ast), NOT from
   the code under check. *)
Definition grammar : table :=
  [("BinaryOperationExpr", ["L"; "R"]);
   ("BetweenExpr", ["Expr"; "Left"; "Right"]);
   ("PatternInExpr", ["Expr"; "List"]);
   ("ParenthesesExpr", ["Expr"]);
   ("UnaryOperationExpr", ["V"]);
   ("IsNullExpr", ["Expr"]);
   ("PatternLikeExpr", ["Expr"; "Pattern"]);
   ("ByItem", ["Expr"]);
   ("ParamMarkerExpr", ["@Order"])].

Definition grammar_roots : list string := ["Where"; "OrderBy.Items"; "Limit.Offset"; "Limit.Count"].

Definition roots_in (walked : list string) (roots : list (string * expr)) : bool :=
  forallb (fun re => nilb (markers (snd re)) || mem_str (fst re) walked) roots.

Definition roots_covered (t : table) (roots : list (string * expr)) : bool :=
  forallb (fun re => covered t (snd re)) roots.
