(* C08 — the theorems at the table regenerated from the Go source (Gen/UndoSwitch.v).
   go_table_wf is the B1 obligation: it is re-checked by vm_compute on every run. *)
From Coq Require Import List NArith ZArith Bool String.
From SeataV Require Import Base.Bytes At.Values At.UndoCodec At.UndoCodecProofs Gen.UndoSwitch.
Import ListNotations.
Open Scope Z_scope.

Lemma go_table_wf : wf_table go_undo_table = true.
Proof. vm_compute. reflexivity. Qed.

Section AtGo.
Variable fmt_time : tm -> bytes.
Variable parse_time : bytes -> option tm.
Variable compress : ckind -> bytes -> bytes.
Variable decompress : ckind -> bytes -> option bytes.
Variable json_print : json -> bytes.
Variable json_parse : bytes -> option json.
Variable pb_print : plog -> bytes.
Variable pb_parse : bytes -> option plog.

Lemma go_lossless_json :
  (forall t, tm_wf t = true -> parse_time (fmt_time t) = Some t) ->
  (forall t, tm_wf t = true -> valid_utf8 (fmt_time t) = true) ->
  (forall k x, decompress k (compress k x) = Some x) ->
  (forall j, json_clean j = true -> json_parse (json_print j) = Some j) ->
  forall c u,
  bytes_eqb (cf_ser c) s_json = true -> clean_text (cf_ctype c) = true -> log_ok u = true ->
  exists ctx info, flush go_undo_table fmt_time compress json_print pb_print c u = Some (ctx, info) /\
  exists u', read_back go_undo_table parse_time decompress json_parse pb_parse ctx info = Ok u'
             /\ log_equiv executor_eq u u' = true.
Proof.
  intros H1 H2 H3 H4 c u.
  exact (lossless_json go_undo_table _ _ _ _ _ _ _ _ H1 H2 H3 H4 c u go_table_wf).
Qed.
End AtGo.

Lemma go_select_none : select go_undo_table s_None = CNone.
Proof. vm_compute. reflexivity. Qed.

Definition sample_pb_log : ulog :=
  mkLog (bs "xid-1") 7
    [mkItem 2 (bs "t_user")
       (Some (mkImage (bs "t_user") 2
          [[mkCol true (bs "id") (-5) (GInt W64 9007199254740992);
            mkCol false (bs "name") 12 (GStr (bs "test"));
            mkCol false (bs "price") 8 (GF64 4609434218613702656%N);
            mkCol false (bs "note") (-1) GNil]]))
       None].
Lemma sample_pb_log_ok : log_pb_ok sample_pb_log = true.
Proof. vm_compute. reflexivity. Qed.

(* a non-trivial log inside the domain of the theorem: every kind, boundary values *)
Definition sample_log : ulog :=
  mkLog (bs "192.168.0.1:8091:123") 42
    [mkItem 2 (bs "t_user")
       (Some (mkImage (bs "t_user") 2
          [[mkCol true (bs "id") (-5) (GInt W64 9007199254740993);
            mkCol false (bs "name") 12 (GStr (bs "test"));
            mkCol false (bs "tiny") (-6) (GInt W64 200);
            mkCol false (bs "price") 7 (GF64 4609434218613702656%N);
            mkCol false (bs "blob") (-3) (GBytes [Byte.x00; Byte.xff; Byte.x80]);
            mkCol false (bs "at") 93 (GTime (mkTm 2024 2 29 23 59 58 120000000 19800));
            mkCol false (bs "note") (-1) GNil]]))
       (Some (mkImage (bs "t_user") 2 [[mkCol true (bs "id") (-5) (GInt W64 (-9223372036854775808))]]))].

Lemma sample_log_ok : log_ok sample_log = true.
Proof. vm_compute. reflexivity. Qed.

(* the reference time text round-trips on a sample, and the old defect is visible in the model:
   a raw "test" is valid base64 and decodes to three other bytes *)
Lemma sample_time_rt :
  let t := mkTm 2024 2 29 23 59 58 120000000 19800 in
  tm_wf t = true /\ parse_time_ref (fmt_time_ref t) = Some t.
Proof. vm_compute. split; reflexivity. Qed.

Lemma raw_string_refuted : b64_decode (bs "test") = Some [Byte.xb5; Byte.xeb; Byte.x2d].
Proof. vm_compute. reflexivity. Qed.

(* without the base64 writer case the same table loses the string *)
Lemma unfixed_writer_refuted :
  let T := mkTable (tb_cases go_undo_table) true false true true (tb_sql_text go_undo_table)
                   (tb_sql_parse go_undo_table) (tb_compress go_undo_table) in
  match marshal_value T fmt_time_ref (GStr (bs "test")) with
  | Some j => match unmarshal_value T parse_time_ref 12 j with
              | Ok v => executor_eq (GStr (bs "test")) v
              | _ => false
              end
  | None => false
  end = false.
Proof. vm_compute. reflexivity. Qed.
