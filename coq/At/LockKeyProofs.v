(* Lemmas about the AT lock key text (property C03).  See LockKey.v. *)
From Coq Require Import String.
From Coq Require Import List NArith ZArith Bool Lia Decimal DecimalZ DecimalPos.
From Coq.Strings Require Byte.
From SeataV Require Import Base.Bytes At.Db At.LockKey.
Import ListNotations.

(* ================================================================== *)
(* refuted properties: concrete witnesses                              *)
(* ================================================================== *)

(* "The lock key text of a row is a function of its key."  It is not: the
   text follows the order (and multiplicity) of the cells in the image.
   Both rows below carry exactly the (column, value) pairs of the key k on
   the pk columns. *)
Definition same_key_cells (pk : list nat) (k : key) (r : irow) : Prop :=
  forall c, In c (key_cells pk r) <-> In c (canon_row pk k).

Lemma C03_canonical_refuted_l :
  (* composite key, cells in a different order *)
  (exists pk k r1 r2,
      NoDup pk /\ length k = length pk /\ NoDup r1 /\ NoDup r2 /\
      same_key_cells pk k r1 /\ same_key_cells pk k r2 /\
      row_key_text pk r1 <> row_key_text pk r2) /\
  (* a key cell occurring twice (UPDATE t SET id = id) *)
  (exists pk k r1 r2,
      NoDup pk /\ length k = length pk /\
      same_key_cells pk k r1 /\ same_key_cells pk k r2 /\
      row_key_text pk r1 <> row_key_text pk r2).
Proof.
  split.
  - exists [0; 1]%nat, [VInt 1; VInt 2],
      [(0%nat, VInt 1); (1%nat, VInt 2)], [(1%nat, VInt 2); (0%nat, VInt 1)].
    repeat split.
    + repeat constructor; cbn; intuition discriminate.
    + repeat constructor; cbn; intuition discriminate.
    + repeat constructor; cbn; intuition discriminate.
    + vm_compute; tauto.
    + vm_compute; tauto.
    + vm_compute; tauto.
    + vm_compute; tauto.
    + vm_compute. discriminate.
  - exists [0%nat], [VInt 1], [(0%nat, VInt 1); (0%nat, VInt 1)], [(0%nat, VInt 1)].
    repeat split.
    + repeat constructor; cbn; intuition discriminate.
    + vm_compute; tauto.
    + vm_compute; tauto.
    + vm_compute; tauto.
    + vm_compute; tauto.
    + vm_compute. discriminate.
Qed.

(* "The coordinator recovers the keys from the text."  It does not when a
   string key value contains a separator. *)
Definition pk_shaped (pk : list nat) (ks : list key) : Prop :=
  forall k, In k ks -> length k = length pk.

Lemma C03_parse_refuted_l :
  (* composite key ("a_b","c") vs ("a","b_c") *)
  (exists t pk ks1 ks2,
      NoDup pk /\ pk_shaped pk ks1 /\ pk_shaped pk ks2 /\ ks1 <> ks2 /\
      build_lock_key t pk (map (canon_row pk) ks1)
      = build_lock_key t pk (map (canon_row pk) ks2)) /\
  (* one key "1,2" vs the two keys "1" and "2" *)
  (exists t pk ks1 ks2,
      NoDup pk /\ pk_shaped pk ks1 /\ pk_shaped pk ks2 /\ ks1 <> ks2 /\
      build_lock_key t pk (map (canon_row pk) ks1)
      = build_lock_key t pk (map (canon_row pk) ks2)).
Proof.
  split.
  - exists (bytes_of_string "t"), [0; 1]%nat,
      [[VStr (bytes_of_string "a_b"); VStr (bytes_of_string "c")]],
      [[VStr (bytes_of_string "a"); VStr (bytes_of_string "b_c")]].
    repeat split.
    + repeat constructor; cbn; intuition discriminate.
    + intros k [<-|[]]; reflexivity.
    + intros k [<-|[]]; reflexivity.
    + intro H. vm_compute in H. discriminate H.
  - exists (bytes_of_string "t"), [0%nat],
      [[VStr (bytes_of_string "1,2")]],
      [[VStr (bytes_of_string "1")]; [VStr (bytes_of_string "2")]].
    repeat split.
    + repeat constructor; cbn; intuition discriminate.
    + intros k [<-|[]]; reflexivity.
    + intros k [<-|[<-|[]]]; reflexivity.
    + intro H. vm_compute in H. discriminate H.
Qed.

(* the same two witnesses, seen from the coordinator: the parsed row keys
   coincide although the key lists differ *)
Lemma C03_parse_refuted_texts :
  parse_lock_keys (join_lock_keys [build_lock_key (bytes_of_string "t") [0; 1]%nat
     [canon_row [0; 1]%nat [VStr (bytes_of_string "a_b"); VStr (bytes_of_string "c")]]])
  = [(bytes_of_string "t",
      [[bytes_of_string "a"; bytes_of_string "b"; bytes_of_string "c"]])]
  /\
  parse_lock_keys (join_lock_keys [build_lock_key (bytes_of_string "t") [0%nat]
     [canon_row [0%nat] [VStr (bytes_of_string "1,2")]]])
  = [(bytes_of_string "t", [[bytes_of_string "1"]; [bytes_of_string "2"]])].
Proof. split; vm_compute; reflexivity. Qed.

(* ================================================================== *)
(* the row text                                                        *)
(* ================================================================== *)

Lemma mem_nat_false_filter p pk :
  mem_nat p pk = false -> filter (Nat.eqb p) pk = [].
Proof.
  unfold mem_nat. induction pk as [|q pk IH]; cbn; auto.
  destruct (Nat.eqb p q); cbn; [discriminate|auto].
Qed.

Lemma mem_nat_In p pk : mem_nat p pk = true <-> In p pk.
Proof.
  unfold mem_nat. rewrite existsb_exists. split.
  - intros (x & Hx & E). apply Nat.eqb_eq in E. now subst.
  - intro H. exists p. split; auto. apply Nat.eqb_refl.
Qed.

Lemma key_vals_key_cells pk r : key_vals pk r = key_vals pk (key_cells pk r).
Proof.
  unfold key_vals, key_cells. induction r as [|c r IH]; cbn; auto.
  destruct (mem_nat (fst c) pk) eqn:E; cbn.
  - now rewrite IH.
  - rewrite (mem_nat_false_filter _ _ E). cbn. exact IH.
Qed.

Lemma row_key_text_perm pk r :
  row_key_text pk r = row_key_text pk (filter (fun c => mem_nat (fst c) pk) r).
Proof.
  unfold row_key_text. now rewrite key_vals_key_cells.
Qed.

Lemma has_key_key_cells pk r : has_key pk r = has_key pk (key_cells pk r).
Proof.
  unfold has_key, key_cells. induction r as [|c r IH]; cbn; auto.
  destruct (mem_nat (fst c) pk) eqn:E; cbn; rewrite ?E; cbn; auto.
Qed.

Lemma rows_text_key_cells pk rows : forall seen,
  rows_text pk seen rows = rows_text pk seen (map (key_cells pk) rows).
Proof.
  induction rows as [|r rows IH]; intro seen; cbn; auto.
  fold (key_cells pk r).
  rewrite <- (row_key_text_perm pk r) at 1.
  now rewrite <- has_key_key_cells, <- IH.
Qed.

Lemma C03_canonical_l :
  (forall pk r1 r2,
      key_cells pk r1 = key_cells pk r2 -> row_key_text pk r1 = row_key_text pk r2) /\
  (forall t pk rows1 rows2,
      map (key_cells pk) rows1 = map (key_cells pk) rows2 ->
      build_lock_key t pk rows1 = build_lock_key t pk rows2).
Proof.
  split.
  - intros pk r1 r2 H. rewrite (row_key_text_perm pk r1), (row_key_text_perm pk r2).
    fold (key_cells pk r1) (key_cells pk r2). now rewrite H.
  - intros t pk rows1 rows2 H. unfold build_lock_key.
    rewrite (rows_text_key_cells pk rows1), (rows_text_key_cells pk rows2).
    now rewrite H.
Qed.

(* with a duplicate-free pk every key cell is printed exactly once *)
Lemma filter_eqb_NoDup p pk :
  NoDup pk -> In p pk -> filter (Nat.eqb p) pk = [p].
Proof.
  induction 1 as [|q pk Hq Hnd IH]; cbn; [tauto|].
  intros [->|Hin].
  - rewrite Nat.eqb_refl. f_equal. apply mem_nat_false_filter.
    destruct (mem_nat p pk) eqn:E; auto. apply mem_nat_In in E. contradiction.
  - destruct (Nat.eqb p q) eqn:E.
    + apply Nat.eqb_eq in E. subst. contradiction.
    + auto.
Qed.

Lemma key_vals_NoDup pk r :
  NoDup pk -> key_vals pk r = map snd (key_cells pk r).
Proof.
  intro Hnd. unfold key_vals, key_cells. induction r as [|c r IH]; cbn; auto.
  destruct (mem_nat (fst c) pk) eqn:E.
  - apply mem_nat_In in E. rewrite (filter_eqb_NoDup _ _ Hnd E). cbn. now rewrite IH.
  - rewrite (mem_nat_false_filter _ _ E). cbn. exact IH.
Qed.

Lemma key_cells_combine pk' pk k :
  incl pk pk' -> key_cells pk' (combine pk k) = combine pk k.
Proof.
  revert k. induction pk as [|p pk IH]; intros k Hi; cbn; auto.
  destruct k as [|v k]; cbn; auto.
  assert (E : mem_nat p pk' = true) by (apply mem_nat_In, Hi; now left).
  rewrite E. f_equal. apply IH. intros x Hx. apply Hi. now right.
Qed.

Lemma map_snd_combine {A B} (l : list A) (k : list B) :
  length k = length l -> map snd (combine l k) = k.
Proof.
  revert k. induction l as [|a l IH]; intros [|b k]; cbn; intro H; try discriminate; auto.
  f_equal. apply IH. lia.
Qed.

Lemma key_vals_canon pk k :
  length k = length pk -> NoDup pk -> key_vals pk (canon_row pk k) = k.
Proof.
  intros Hl Hnd. unfold canon_row. rewrite (key_vals_NoDup _ _ Hnd).
  rewrite key_cells_combine by apply incl_refl. now apply map_snd_combine.
Qed.

Lemma row_key_text_canon pk k :
  length k = length pk -> NoDup pk ->
  row_key_text pk (canon_row pk k) = join c_us (key_texts k).
Proof.
  intros Hl Hnd. unfold row_key_text, key_texts. now rewrite key_vals_canon.
Qed.

(* ================================================================== *)
(* split / join                                                        *)
(* ================================================================== *)

Lemma no_byte_app c a b : no_byte c (a ++ b) = no_byte c a && no_byte c b.
Proof. unfold no_byte. apply forallb_app. Qed.

Lemma no_byte_cons c x s :
  no_byte c (x :: s) = negb (byte_eqb x c) && no_byte c s.
Proof. reflexivity. Qed.

Lemma split_on_free c p : no_byte c p = true -> split_on c p = [p].
Proof.
  induction p as [|b p IH]; cbn; auto.
  intro H. apply andb_true_iff in H as [Hb Hp].
  apply negb_true_iff in Hb. rewrite Hb, (IH Hp). reflexivity.
Qed.

Lemma split_on_app c p rest :
  no_byte c p = true -> split_on c (p ++ c :: rest) = p :: split_on c rest.
Proof.
  induction p as [|b p IH]; cbn.
  - intros _. assert (E : byte_eqb c c = true) by now apply byte_eqb_eq.
    now rewrite E.
  - intro H. apply andb_true_iff in H as [Hb Hp].
    apply negb_true_iff in Hb. rewrite Hb, (IH Hp). reflexivity.
Qed.

Lemma join_cons2 c x y l : join c (x :: y :: l) = x ++ c :: join c (y :: l).
Proof. reflexivity. Qed.

(* splitting a joined text gives the pieces back, provided no piece contains
   the separator and there is at least one piece (join c [] = join c [[]]) *)
Lemma split_join c pieces :
  pieces <> [] ->
  (forall p, In p pieces -> no_byte c p = true) ->
  split_on c (join c pieces) = pieces.
Proof.
  induction pieces as [|x l IH]; [congruence|].
  intros _ H. destruct l as [|y l].
  - cbn. apply split_on_free, H. now left.
  - rewrite join_cons2, split_on_app by (apply H; now left).
    f_equal. apply IH; [discriminate|]. intros p Hp. apply H. now right.
Qed.

Lemma no_byte_join c d pieces :
  byte_eqb d c = false ->
  (forall p, In p pieces -> no_byte c p = true) ->
  no_byte c (join d pieces) = true.
Proof.
  intros Hd. induction pieces as [|x l IH]; intro H; [reflexivity|].
  destruct l as [|y l].
  - cbn. apply H. now left.
  - rewrite join_cons2, no_byte_app, no_byte_cons, Hd.
    rewrite (H x) by now left. cbn. apply IH. intros p Hp. apply H. now right.
Qed.

Lemma cut_first_app c t rest :
  no_byte c t = true -> cut_first c (t ++ c :: rest) = (t, rest).
Proof.
  induction t as [|b t IH]; cbn.
  - intros _. assert (E : byte_eqb c c = true) by now apply byte_eqb_eq.
    now rewrite E.
  - intro H. apply andb_true_iff in H as [Hb Hp].
    apply negb_true_iff in Hb. rewrite Hb, (IH Hp). reflexivity.
Qed.

(* sep_free excludes each of the four separators *)
Lemma sep_free_no_byte s :
  sep_free s = true ->
  no_byte c_comma s = true /\ no_byte c_us s = true /\
  no_byte c_semi s = true /\ no_byte c_colon s = true.
Proof.
  unfold sep_free, no_byte, is_sep. induction s as [|b s IH]; cbn; auto.
  intro H. apply andb_true_iff in H as [Hb Hs].
  destruct (IH Hs) as (H1 & H2 & H3 & H4). rewrite H1, H2, H3, H4.
  rewrite negb_true_iff in Hb. 
  apply orb_false_iff in Hb as [Hb Hd]. apply orb_false_iff in Hb as [Hb Hc].
  apply orb_false_iff in Hb as [Ha Hb].
  rewrite Ha, Hb, Hc, Hd. auto.
Qed.

(* ================================================================== *)
(* the coordinator recovers the keys when no value contains a separator *)
(* ================================================================== *)

Lemma join_concat c x l : join c (x :: l) = x ++ concat (map (cons c) l).
Proof.
  revert x. induction l as [|y l IH]; intro x.
  - cbn. now rewrite app_nil_r.
  - rewrite join_cons2, IH. reflexivity.
Qed.

(* when every row has a key cell the row loop is a plain join with "," *)
Lemma rows_text_seen pk rows :
  (forall r, In r rows -> has_key pk r = true) ->
  rows_text pk true rows = concat (map (cons c_comma) (map (row_key_text pk) rows)).
Proof.
  induction rows as [|r rows IH]; intro H; cbn; auto.
  rewrite IH by (intros x Hx; apply H; now right). reflexivity.
Qed.

Lemma rows_text_all_keyed pk rows :
  (forall r, In r rows -> has_key pk r = true) ->
  rows_text pk false rows = join c_comma (map (row_key_text pk) rows).
Proof.
  destruct rows as [|r rows]; intro H; [reflexivity|].
  cbn [rows_text map]. rewrite join_concat.
  rewrite (H r) by now left. cbn [orb app].
  rewrite rows_text_seen by (intros x Hx; apply H; now right). reflexivity.
Qed.

Lemma has_key_canon pk k :
  pk <> [] -> length k = length pk -> has_key pk (canon_row pk k) = true.
Proof.
  destruct pk as [|p pk]; [congruence|]. destruct k as [|v k]; [discriminate|].
  intros _ _. unfold has_key, canon_row. cbn [combine existsb fst].
  assert (E : mem_nat p (p :: pk) = true) by (apply mem_nat_In; now left).
  now rewrite E.
Qed.

(* hypotheses of the round trip *)
Definition key_ok (pk : list nat) (k : key) : Prop :=
  length k = length pk /\
  forall v, In v k -> sep_free (fmt_value v) = true /\ fmt_value v <> [].

Definition item_ok (pk : list nat) (it : bytes * list key) : Prop :=
  sep_free (fst it) = true /\ forall k, In k (snd it) -> key_ok pk k.

Definition row_text_of_key (k : key) : bytes := join c_us (key_texts k).

Lemma rows_text_canon pk ks :
  pk <> [] -> NoDup pk -> (forall k, In k ks -> length k = length pk) ->
  rows_text pk false (map (canon_row pk) ks) = join c_comma (map row_text_of_key ks).
Proof.
  intros Hne Hnd Hl. rewrite rows_text_all_keyed.
  - f_equal. rewrite map_map. apply map_ext_in. intros k Hk.
    apply row_key_text_canon; auto.
  - intros r Hr. apply in_map_iff in Hr as (k & <- & Hk). apply has_key_canon; auto.
Qed.

Lemma is_nil_join c x l : x <> [] -> is_nil (join c (x :: l)) = false.
Proof.
  intro H. destruct x as [|b x]; [congruence|]. destruct l; reflexivity.
Qed.

Lemma is_nil_app_cons (a : bytes) c b : is_nil (a ++ c :: b) = false.
Proof. destruct a; reflexivity. Qed.

Lemma key_texts_nonnil pk k : pk <> [] -> key_ok pk k -> key_texts k <> [].
Proof.
  intros Hne [Hl _]. destruct k; [|discriminate].
  destruct pk; [congruence|discriminate].
Qed.

Lemma row_text_of_key_nonnil pk k : pk <> [] -> key_ok pk k -> row_text_of_key k <> [].
Proof.
  intros Hne [Hl Hv]. destruct k as [|v k].
  - destruct pk; [congruence|discriminate].
  - unfold row_text_of_key, key_texts. cbn [map]. intro E.
    assert (N : is_nil (join c_us (fmt_value v :: map fmt_value k)) = false).
    { apply is_nil_join. apply Hv. now left. }
    rewrite E in N. discriminate.
Qed.

Lemma row_text_of_key_no_byte c pk k :
  byte_eqb c_us c = false ->
  (forall s, sep_free s = true -> no_byte c s = true) ->
  key_ok pk k -> no_byte c (row_text_of_key k) = true.
Proof.
  intros Hc Hs [_ Hv]. apply no_byte_join; auto.
  intros p Hp. apply in_map_iff in Hp as (v & <- & Hin). apply Hs, Hv, Hin.
Qed.

Lemma split_row_text pk k :
  pk <> [] -> key_ok pk k -> split_on c_us (row_text_of_key k) = key_texts k.
Proof.
  intros Hne Hk. apply split_join.
  - eapply key_texts_nonnil; eauto.
  - intros p Hp. apply in_map_iff in Hp as (v & <- & Hin).
    destruct Hk as [_ Hv]. apply sep_free_no_byte, Hv, Hin.
Qed.

(* one table: the text of one statement *)
Lemma C03_parse_piece pk t ks :
  pk <> [] -> NoDup pk -> item_ok pk (t, ks) ->
  parse_piece (build_lock_key t pk (map (canon_row pk) ks)) = (t, map key_texts ks).
Proof.
  intros Hne Hnd [Ht Hks]. cbn [fst snd] in *.
  unfold build_lock_key, parse_piece.
  rewrite rows_text_canon by (auto; intros k Hk; apply Hks, Hk).
  rewrite cut_first_app by (apply sep_free_no_byte, Ht).
  destruct ks as [|k ks].
  - (* "T:" parses to (T, []) *) reflexivity.
  - cbn [map]. rewrite is_nil_join
      by (eapply row_text_of_key_nonnil; eauto; apply Hks; now left).
    f_equal. change (row_text_of_key k :: map row_text_of_key ks)
      with (map row_text_of_key (k :: ks)).
    rewrite split_join.
    + rewrite map_map.
      change (key_texts k :: map key_texts ks) with (map key_texts (k :: ks)).
      apply map_ext_in. intros k' Hk'.
      eapply split_row_text; eauto.
    + discriminate.
    + intros p Hp. apply in_map_iff in Hp as (k' & <- & Hk').
      eapply row_text_of_key_no_byte; [reflexivity| |apply Hks, Hk'].
      intros s Hs. apply sep_free_no_byte, Hs.
Qed.

Lemma split_join_lock_keys texts :
  (forall x, In x texts -> no_byte c_semi x = true) ->
  split_on c_semi (join_lock_keys texts) = texts ++ [[]].
Proof.
  unfold join_lock_keys. induction texts as [|x l IH]; intro H; [reflexivity|].
  cbn [map concat].
  replace ((x ++ [c_semi]) ++ concat (map (fun k : list byte => k ++ [c_semi]) l))
    with (x ++ c_semi :: concat (map (fun k : list byte => k ++ [c_semi]) l))
    by (now rewrite <- app_assoc).
  rewrite split_on_app by (apply H; now left).
  rewrite IH by (intros y Hy; apply H; now right). reflexivity.
Qed.

Lemma filter_nonnil_app texts :
  (forall x, In x texts -> is_nil x = false) ->
  filter (fun p => negb (is_nil p)) (texts ++ [[]]) = texts.
Proof.
  induction texts as [|x l IH]; intro H; [reflexivity|].
  cbn. rewrite (H x) by now left. cbn. f_equal. apply IH.
  intros y Hy. apply H. now right.
Qed.

Lemma lock_key_no_semi pk t ks :
  pk <> [] -> NoDup pk -> item_ok pk (t, ks) ->
  no_byte c_semi (build_lock_key t pk (map (canon_row pk) ks)) = true.
Proof.
  intros Hne Hnd [Ht Hks]. cbn [fst snd] in *. unfold build_lock_key.
  rewrite rows_text_canon by (auto; intros k Hk; apply Hks, Hk).
  rewrite no_byte_app, no_byte_cons.
  assert (E : no_byte c_semi t = true) by (apply sep_free_no_byte, Ht).
  rewrite E. cbn [andb]. change (byte_eqb c_colon c_semi) with false. cbn [negb andb].
  apply no_byte_join; [reflexivity|].
  intros p Hp. apply in_map_iff in Hp as (k & <- & Hk).
  eapply row_text_of_key_no_byte; [reflexivity| |apply Hks, Hk].
  intros s Hs. apply sep_free_no_byte, Hs.
Qed.

Definition item_text (pk : list nat) (it : bytes * list key) : bytes :=
  let '(t, ks) := it in build_lock_key t pk (map (canon_row pk) ks).

Definition item_parsed (it : bytes * list key) : bytes * list (list bytes) :=
  let '(t, ks) := it in (t, map key_texts ks).

(* one statement *)
Lemma C03_parse_one pk t ks :
  pk <> [] -> NoDup pk -> item_ok pk (t, ks) ->
  parse_lock_keys (join_lock_keys [build_lock_key t pk (map (canon_row pk) ks)])
  = [(t, map key_texts ks)].
Proof.
  intros Hne Hnd Hok. unfold parse_lock_keys.
  rewrite split_join_lock_keys.
  - rewrite filter_nonnil_app.
    + cbn [map]. now rewrite C03_parse_piece.
    + intros x [<-|[]]. apply is_nil_app_cons.
  - intros x [<-|[]]. now apply lock_key_no_semi.
Qed.

(* any number of statements, in the order the texts were concatenated *)
Lemma C03_parse_l pk (items : list (bytes * list key)) :
  pk <> [] -> NoDup pk ->
  (forall it, In it items -> item_ok pk it) ->
  parse_lock_keys
    (join_lock_keys
       (map (fun '(t, ks) => build_lock_key t pk (map (canon_row pk) ks)) items))
  = map (fun '(t, ks) => (t, map key_texts ks)) items.
Proof.
  intros Hne Hnd Hok. unfold parse_lock_keys.
  rewrite split_join_lock_keys.
  - rewrite filter_nonnil_app.
    + rewrite map_map. apply map_ext_in. intros [t ks] Hin.
      apply C03_parse_piece; auto.
    + intros x Hx. apply in_map_iff in Hx as ([t ks] & <- & _). apply is_nil_app_cons.
  - intros x Hx. apply in_map_iff in Hx as ([t ks] & <- & Hin).
    apply lock_key_no_semi; auto.
Qed.

(* ================================================================== *)
(* decimal rendering of integers                                       *)
(* ================================================================== *)

Lemma sep_free_cons b s : sep_free (b :: s) = negb (is_sep b) && sep_free s.
Proof. reflexivity. Qed.

Lemma uint_bytes_sep_free u : sep_free (uint_bytes u) = true.
Proof.
  induction u; cbn [uint_bytes]; try reflexivity;
    rewrite sep_free_cons, IHu; reflexivity.
Qed.

Lemma z_dec_sep_free z : sep_free (z_dec z) = true.
Proof.
  unfold z_dec, int_bytes. destruct (Z.to_int z) as [u|u].
  - apply uint_bytes_sep_free.
  - rewrite sep_free_cons, uint_bytes_sep_free. reflexivity.
Qed.

(* a digit string never starts with '-' *)
Lemma uint_bytes_no_minus u s : uint_bytes u <> c_minus :: s.
Proof. destruct u; cbn; discriminate. Qed.

Lemma uint_bytes_inj u v : uint_bytes u = uint_bytes v -> u = v.
Proof.
  revert v. induction u; intros v H; destruct v; cbn in H;
    try discriminate H; try reflexivity;
    injection H as H; f_equal; now apply IHu.
Qed.

Lemma int_bytes_inj i j : int_bytes i = int_bytes j -> i = j.
Proof.
  destruct i as [u|u], j as [v|v]; cbn; intro H.
  - f_equal. now apply uint_bytes_inj.
  - exfalso. eapply uint_bytes_no_minus; eauto.
  - exfalso. eapply uint_bytes_no_minus; eauto.
  - injection H as H. f_equal. now apply uint_bytes_inj.
Qed.

Lemma z_dec_inj a b : z_dec a = z_dec b -> a = b.
Proof.
  unfold z_dec. intro H. apply int_bytes_inj in H.
  rewrite <- (DecimalZ.of_to a), <- (DecimalZ.of_to b). now rewrite H.
Qed.

Lemma uint_bytes_nonnil u : u <> Decimal.Nil -> uint_bytes u <> [].
Proof. destruct u; cbn; congruence. Qed.

Lemma z_dec_nonnil z : z_dec z <> [].
Proof.
  unfold z_dec. destruct z as [|p|p]; cbn [Z.to_int int_bytes].
  - discriminate.
  - apply uint_bytes_nonnil, Unsigned.to_uint_nonnil.
  - discriminate.
Qed.

Lemma fmt_value_int_sep_free z :
  sep_free (fmt_value (VInt z)) = true /\ fmt_value (VInt z) <> [].
Proof. split; [apply z_dec_sep_free|apply z_dec_nonnil]. Qed.

(* sanity: the rendering on a few numbers *)
Lemma z_dec_examples :
  z_dec 0 = bytes_of_string "0" /\
  z_dec 1205 = bytes_of_string "1205" /\
  z_dec (-9223372036854775808) = bytes_of_string "-9223372036854775808".
Proof. repeat split; vm_compute; reflexivity. Qed.

(* integer keys: the hypotheses of C03_parse_l on the values hold for free *)
Lemma key_ok_ints pk (k : key) :
  length k = length pk -> (forall v, In v k -> exists z, v = VInt z) -> key_ok pk k.
Proof.
  intros Hl Hv. split; auto. intros v Hin. destruct (Hv v Hin) as [z ->].
  apply fmt_value_int_sep_free.
Qed.

(* ================================================================== *)
(* the row loop around key-less rows (filedSequence)                   *)
(* ================================================================== *)

Lemma row_key_text_keyless pk r : has_key pk r = false -> row_key_text pk r = [].
Proof.
  unfold row_key_text, key_vals, has_key. induction r as [|c r IH]; cbn; auto.
  intro H. apply orb_false_iff in H as [Hc Hr].
  rewrite (mem_nat_false_filter _ _ Hc). cbn. apply IH, Hr.
Qed.

(* key-less rows in front contribute nothing *)
Lemma build_lock_key_keyless_front t pk r rows :
  has_key pk r = false -> build_lock_key t pk (r :: rows) = build_lock_key t pk rows.
Proof.
  intro H. unfold build_lock_key. cbn [rows_text].
  now rewrite (row_key_text_keyless _ _ H), H.
Qed.

(* ... but a key-less row after a keyed one still writes its comma *)
Lemma build_lock_key_keyless_after :
  build_lock_key (bytes_of_string "t") [0%nat]
    [[(0%nat, VInt 1)]; [(1%nat, VInt 7)]; [(0%nat, VInt 2)]]
  = bytes_of_string "t:1,,2".
Proof. vm_compute. reflexivity. Qed.
