(* Lemmas about the AT lock key text (property C03).  See LockKey.v. *)
From Coq Require Import String.
From Coq Require Import List NArith ZArith Bool Lia Decimal DecimalZ DecimalPos.
From Coq.Strings Require Byte.
From SeataV Require Import Base.Bytes At.Db At.LockKey.
Import ListNotations.

(* ================================================================== *)
(* refuted properties: concrete witnesses                              *)
(* ================================================================== *)

(* "The lock key text of a row is a function of its key."  It is not: the
   text follows the order (and multiplicity) of the cells in the image.
   Both rows below carry exactly the (column, value) pairs of the key k on
   the pk columns. *)
Definition same_key_cells (pk : list nat) (k : key) (r : irow) : Prop :=
  forall c, In c (key_cells pk r) <-> In c (canon_row pk k).

Lemma C03_canonical_refuted_l :
  (* composite key, cells in a different order *)
  (exists pk k r1 r2,
      NoDup pk /\ length k = length pk /\ NoDup r1 /\ NoDup r2 /\
      same_key_cells pk k r1 /\ same_key_cells pk k r2 /\
      row_key_text pk r1 <> row_key_text pk r2) /\
  (* a key cell occurring twice (UPDATE t SET id = id) *)
  (exists pk k r1 r2,
      NoDup pk /\ length k = length pk /\
      same_key_cells pk k r1 /\ same_key_cells pk k r2 /\
      row_key_text pk r1 <> row_key_text pk r2).
Proof.
  split.
  - exists [0; 1]%nat, [VInt 1; VInt 2],
      [(0%nat, VInt 1); (1%nat, VInt 2)], [(1%nat, VInt 2); (0%nat, VInt 1)].
    repeat split.
    + repeat constructor; cbn; intuition discriminate.
    + repeat constructor; cbn; intuition discriminate.
    + repeat constructor; cbn; intuition discriminate.
    + vm_compute; tauto.
    + vm_compute; tauto.
    + vm_compute; tauto.
    + vm_compute; tauto.
    + vm_compute. discriminate.
  - exists [0%nat], [VInt 1], [(0%nat, VInt 1); (0%nat, VInt 1)], [(0%nat, VInt 1)].
    repeat split.
    + repeat constructor; cbn; intuition discriminate.
    + vm_compute; tauto.
    + vm_compute; tauto.
    + vm_compute; tauto.
    + vm_compute; tauto.
    + vm_compute. discriminate.
Qed.

(* "The coordinator recovers the keys from the text."  It does not when a
   string key value contains a separator. *)
Definition pk_shaped (pk : list nat) (ks : list key) : Prop :=
  forall k, In k ks -> length k = length pk.

Lemma C03_parse_refuted_l :
  (* composite key ("a_b","c") vs ("a","b_c") *)
  (exists t pk ks1 ks2,
      NoDup pk /\ pk_shaped pk ks1 /\ pk_shaped pk ks2 /\ ks1 <> ks2 /\
      build_lock_key t pk (map (canon_row pk) ks1)
      = build_lock_key t pk (map (canon_row pk) ks2)) /\
  (* one key "1,2" vs the two keys "1" and "2" *)
  (exists t pk ks1 ks2,
      NoDup pk /\ pk_shaped pk ks1 /\ pk_shaped pk ks2 /\ ks1 <> ks2 /\
      build_lock_key t pk (map (canon_row pk) ks1)
      = build_lock_key t pk (map (canon_row pk) ks2)).
Proof.
  split.
  - exists (bytes_of_string "t"), [0; 1]%nat,
      [[VStr (bytes_of_string "a_b"); VStr (bytes_of_string "c")]],
      [[VStr (bytes_of_string "a"); VStr (bytes_of_string "b_c")]].
    repeat split.
    + repeat constructor; cbn; intuition discriminate.
    + intros k [<-|[]]; reflexivity.
    + intros k [<-|[]]; reflexivity.
    + intro H. vm_compute in H. discriminate H.
  - exists (bytes_of_string "t"), [0%nat],
      [[VStr (bytes_of_string "1,2")]],
      [[VStr (bytes_of_string "1")]; [VStr (bytes_of_string "2")]].
    repeat split.
    + repeat constructor; cbn; intuition discriminate.
    + intros k [<-|[]]; reflexivity.
    + intros k [<-|[<-|[]]]; reflexivity.
    + intro H. vm_compute in H. discriminate H.
Qed.

(* the same two witnesses, seen from the coordinator: the parsed row keys
   coincide although the key lists differ *)
Lemma C03_parse_refuted_texts :
  parse_lock_keys (join_lock_keys [build_lock_key (bytes_of_string "t") [0; 1]%nat
     [canon_row [0; 1]%nat [VStr (bytes_of_string "a_b"); VStr (bytes_of_string "c")]]])
  = [(bytes_of_string "t",
      [[bytes_of_string "a"; bytes_of_string "b"; bytes_of_string "c"]])]
  /\
  parse_lock_keys (join_lock_keys [build_lock_key (bytes_of_string "t") [0%nat]
     [canon_row [0%nat] [VStr (bytes_of_string "1,2")]]])
  = [(bytes_of_string "t", [[bytes_of_string "1"]; [bytes_of_string "2"]])].
Proof. split; vm_compute; reflexivity. Qed.

(* ================================================================== *)
(* the row text                                                        *)
(* ================================================================== *)

Lemma mem_nat_false_filter p pk :
  mem_nat p pk = false -> filter (Nat.eqb p) pk = [].
Proof.
  unfold mem_nat. induction pk as [|q pk IH]; cbn; auto.
  destruct (Nat.eqb p q); cbn; [discriminate|auto].
Qed.

Lemma mem_nat_In p pk : mem_nat p pk = true <-> In p pk.
Proof.
  unfold mem_nat. rewrite existsb_exists. split.
  - intros (x & Hx & E). apply Nat.eqb_eq in E. now subst.
  - intro H. exists p. split; auto. apply Nat.eqb_refl.
Qed.

Lemma key_vals_key_cells pk r : key_vals pk r = key_vals pk (key_cells pk r).
Proof.
  unfold key_vals, key_cells. induction r as [|c r IH]; cbn; auto.
  destruct (mem_nat (fst c) pk) eqn:E; cbn.
  - now rewrite IH.
  - rewrite (mem_nat_false_filter _ _ E). cbn. exact IH.
Qed.

Lemma row_key_text_perm pk r :
  row_key_text pk r = row_key_text pk (filter (fun c => mem_nat (fst c) pk) r).
Proof.
  unfold row_key_text. now rewrite key_vals_key_cells.
Qed.

Lemma has_key_key_cells pk r : has_key pk r = has_key pk (key_cells pk r).
Proof.
  unfold has_key, key_cells. induction r as [|c r IH]; cbn; auto.
  destruct (mem_nat (fst c) pk) eqn:E; cbn; rewrite ?E; cbn; auto.
Qed.

Lemma rows_text_key_cells pk rows : forall seen,
  rows_text pk seen rows = rows_text pk seen (map (key_cells pk) rows).
Proof.
  induction rows as [|r rows IH]; intro seen; cbn; auto.
  fold (key_cells pk r).
  rewrite <- (row_key_text_perm pk r) at 1.
  now rewrite <- has_key_key_cells, <- IH.
Qed.

Lemma C03_canonical_l :
  (forall pk r1 r2,
      key_cells pk r1 = key_cells pk r2 -> row_key_text pk r1 = row_key_text pk r2) /\
  (forall t pk rows1 rows2,
      map (key_cells pk) rows1 = map (key_cells pk) rows2 ->
      build_lock_key t pk rows1 = build_lock_key t pk rows2).
Proof.
  split.
  - intros pk r1 r2 H. rewrite (row_key_text_perm pk r1), (row_key_text_perm pk r2).
    fold (key_cells pk r1) (key_cells pk r2). now rewrite H.
  - intros t pk rows1 rows2 H. unfold build_lock_key.
    rewrite (rows_text_key_cells pk rows1), (rows_text_key_cells pk rows2).
    now rewrite H.
Qed.

(* with a duplicate-free pk every key cell is printed exactly once *)
Lemma filter_eqb_NoDup p pk :
  NoDup pk -> In p pk -> filter (Nat.eqb p) pk = [p].
Proof.
  induction 1 as [|q pk Hq Hnd IH]; cbn; [tauto|].
  intros [->|Hin].
  - rewrite Nat.eqb_refl. f_equal. apply mem_nat_false_filter.
    destruct (mem_nat p pk) eqn:E; auto. apply mem_nat_In in E. contradiction.
  - destruct (Nat.eqb p q) eqn:E.
    + apply Nat.eqb_eq in E. subst. contradiction.
    + auto.
Qed.

Lemma key_vals_NoDup pk r :
  NoDup pk -> key_vals pk r = map snd (key_cells pk r).
Proof.
  intro Hnd. unfold key_vals, key_cells. induction r as [|c r IH]; cbn; auto.
  destruct (mem_nat (fst c) pk) eqn:E.
  - apply mem_nat_In in E. rewrite (filter_eqb_NoDup _ _ Hnd E). cbn. now rewrite IH.
  - rewrite (mem_nat_false_filter _ _ E). cbn. exact IH.
Qed.

Lemma key_cells_combine pk' pk k :
  incl pk pk' -> key_cells pk' (combine pk k) = combine pk k.
Proof.
  revert k. induction pk as [|p pk IH]; intros k Hi; cbn; auto.
  destruct k as [|v k]; cbn; auto.
  assert (E : mem_nat p pk' = true) by (apply mem_nat_In, Hi; now left).
  rewrite E. f_equal. apply IH. intros x Hx. apply Hi. now right.
Qed.

Lemma map_snd_combine {A B} (l : list A) (k : list B) :
  length k = length l -> map snd (combine l k) = k.
Proof.
  revert k. induction l as [|a l IH]; intros [|b k]; cbn; intro H; try discriminate; auto.
  f_equal. apply IH. lia.
Qed.

Lemma key_vals_canon pk k :
  length k = length pk -> NoDup pk -> key_vals pk (canon_row pk k) = k.
Proof.
  intros Hl Hnd. unfold canon_row. rewrite (key_vals_NoDup _ _ Hnd).
  rewrite key_cells_combine by apply incl_refl. now apply map_snd_combine.
Qed.

Lemma row_key_text_canon pk k :
  length k = length pk -> NoDup pk ->
  row_key_text pk (canon_row pk k) = join c_us (key_texts k).
Proof.
  intros Hl Hnd. unfold row_key_text, key_texts. now rewrite key_vals_canon.
Qed.
