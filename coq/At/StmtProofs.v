(* Theorems about the statement semantics of Stmt.v, for ALL schemas, tables,
   statements and arguments.  `Theorem` = the listed results (docs/STMT.md),
   `Lemma` = auxiliary. *)
From Coq Require Import List NArith ZArith Lia Bool Permutation Sorted.
From SeataV Require Import Base.Bytes At.Db At.DbProofs At.Stmt.
Import ListNotations.
Local Open Scope Z_scope.

(* ================================================================ three-valued logic *)
Theorem and3_comm a b : and3 a b = and3 b a.
Proof. destruct a, b; reflexivity. Qed.
Theorem or3_comm a b : or3 a b = or3 b a.
Proof. destruct a, b; reflexivity. Qed.
Theorem and3_assoc a b c : and3 a (and3 b c) = and3 (and3 a b) c.
Proof. destruct a, b, c; reflexivity. Qed.
Theorem or3_assoc a b c : or3 a (or3 b c) = or3 (or3 a b) c.
Proof. destruct a, b, c; reflexivity. Qed.
Theorem not3_involutive a : not3 (not3 a) = a.
Proof. destruct a; reflexivity. Qed.
Theorem de_morgan_and3 a b : not3 (and3 a b) = or3 (not3 a) (not3 b).
Proof. destruct a, b; reflexivity. Qed.
Theorem de_morgan_or3 a b : not3 (or3 a b) = and3 (not3 a) (not3 b).
Proof. destruct a, b; reflexivity. Qed.
(* a row is selected only when the condition is TRUE: UNKNOWN behaves as FALSE
   under AND / OR, but NOT does not turn it into TRUE *)
Theorem is_true_and3 a b : is_true (and3 a b) = is_true a && is_true b.
Proof. destruct a, b; reflexivity. Qed.
Theorem is_true_or3 a b : is_true (or3 a b) = is_true a || is_true b.
Proof. destruct a, b; reflexivity. Qed.
Theorem is_true_not3 a : is_true (not3 a) = true <-> a = TF.
Proof. destruct a; cbn; split; congruence. Qed.
Theorem unknown_never_selected_by_not : is_true TU = false /\ is_true (not3 TU) = false.
Proof. split; reflexivity. Qed.

(* ================================================================ primary-key order *)
Lemma b2n_inj a b : b2n a = b2n b -> a = b.
Proof. intro H. rewrite <- (n2b_b2n a), <- (n2b_b2n b). now rewrite H. Qed.

Lemma bytes_compare_eq a b : bytes_compare a b = Eq -> a = b.
Proof.
  revert b; induction a as [|x a IH]; intros [|y b]; cbn; try discriminate; auto.
  destruct (N.compare (Byte.to_N x) (Byte.to_N y)) eqn:E; try discriminate.
  intro H. apply N.compare_eq in E. apply (b2n_inj x y) in E. subst. f_equal. auto.
Qed.

Lemma bytes_compare_antisym a b : bytes_compare b a = CompOpp (bytes_compare a b).
Proof.
  revert b; induction a as [|x a IH]; intros [|y b]; cbn; auto.
  rewrite (N.compare_antisym (Byte.to_N x) (Byte.to_N y)).
  destruct (N.compare (Byte.to_N x) (Byte.to_N y)); cbn; auto.
Qed.

Lemma bytes_compare_trans a b c :
  bytes_compare a b = Lt -> bytes_compare b c = Lt -> bytes_compare a c = Lt.
Proof.
  revert b c; induction a as [|x a IH]; intros [|y b] [|z c]; cbn; try discriminate; auto.
  destruct (N.compare (Byte.to_N x) (Byte.to_N y)) eqn:E1; try discriminate;
  destruct (N.compare (Byte.to_N y) (Byte.to_N z)) eqn:E2; try discriminate; intros H1 H2.
  - apply N.compare_eq in E1, E2. rewrite E1, E2, N.compare_refl. eauto.
  - apply N.compare_eq in E1. rewrite E1, E2. reflexivity.
  - apply N.compare_eq in E2. rewrite <- E2, E1. reflexivity.
  - rewrite N.compare_lt_iff in *. replace (Byte.to_N x ?= Byte.to_N z)%N with Lt; auto.
    symmetry. apply N.compare_lt_iff. lia.
Qed.

Lemma value_compare_eq a b : value_compare a b = Eq -> a = b.
Proof.
  destruct a, b; cbn; try discriminate; intro H; f_equal;
    auto using bytes_compare_eq, Z.compare_eq, N.compare_eq.
Qed.

Lemma value_compare_antisym a b : value_compare b a = CompOpp (value_compare a b).
Proof.
  destruct a, b; cbn; auto using bytes_compare_antisym;
    try apply Z.compare_antisym; try apply N.compare_antisym.
Qed.

Lemma value_compare_trans a b c :
  value_compare a b = Lt -> value_compare b c = Lt -> value_compare a c = Lt.
Proof.
  destruct a, b, c; cbn; try discriminate; auto;
    try (apply bytes_compare_trans);
    try (rewrite !Z.compare_lt_iff; lia);
    try (rewrite !N.compare_lt_iff; lia).
Qed.

Lemma key_compare_eq a b : key_compare a b = Eq -> a = b.
Proof.
  revert b; induction a as [|x a IH]; intros [|y b]; cbn; try discriminate; auto.
  destruct (value_compare x y) eqn:E; try discriminate.
  intro H. apply value_compare_eq in E. subst. f_equal. auto.
Qed.

Lemma key_compare_refl a : key_compare a a = Eq.
Proof.
  induction a as [|x a IH]; cbn; auto.
  replace (value_compare x x) with Eq; auto.
  pose proof (value_compare_antisym x x) as H. destruct (value_compare x x); cbn in H; congruence.
Qed.

Lemma key_compare_antisym a b : key_compare b a = CompOpp (key_compare a b).
Proof.
  revert b; induction a as [|x a IH]; intros [|y b]; cbn; auto.
  rewrite (value_compare_antisym x y). destruct (value_compare x y); cbn; auto.
Qed.

Lemma key_compare_trans a b c :
  key_compare a b = Lt -> key_compare b c = Lt -> key_compare a c = Lt.
Proof.
  revert b c; induction a as [|x a IH]; intros [|y b] [|z c]; cbn; try discriminate; auto.
  destruct (value_compare x y) eqn:E1; try discriminate;
  destruct (value_compare y z) eqn:E2; try discriminate; intros H1 H2.
  - apply value_compare_eq in E1, E2. subst.
    replace (value_compare z z) with Eq; eauto.
    pose proof (value_compare_antisym z z) as H. destruct (value_compare z z); cbn in H; congruence.
  - apply value_compare_eq in E1. subst. now rewrite E2.
  - apply value_compare_eq in E2. subst. now rewrite E1.
  - now rewrite (value_compare_trans _ _ _ E1 E2).
Qed.

Definition klt (a b : key * row) : Prop := key_compare (fst a) (fst b) = Lt.

(* rows strictly ascending in primary-key order *)
Definition sorted (t : tbl) : Prop := StronglySorted klt t.

Lemma sorted_wf t : sorted t -> tbl_wf t.
Proof.
  unfold tbl_wf. induction 1 as [|kr t S IH F]; cbn; constructor; auto.
  intro I. apply in_map_iff in I. destruct I as [kr' [E I]].
  rewrite Forall_forall in F. specialize (F _ I). unfold klt in F.
  rewrite E, key_compare_refl in F. discriminate.
Qed.

Lemma sorted_filter f t : sorted t -> sorted (filter f t).
Proof.
  induction 1 as [|kr t S IH F]; cbn; [constructor|].
  destruct (f kr); auto. constructor; auto.
  rewrite Forall_forall in *. intros x I. apply filter_In in I. apply F, I.
Qed.

Lemma remove_as_filter k t :
  remove k t = filter (fun kr => negb (key_eqb k (fst kr))) t.
Proof.
  induction t as [|[k' r'] t IH]; cbn; auto.
  destruct (key_eqb k k'); cbn; now rewrite IH.
Qed.

Lemma sorted_remove k t : sorted t -> sorted (remove k t).
Proof. rewrite remove_as_filter. apply sorted_filter. Qed.

Lemma sorted_put k r t : sorted t -> lookup k t = None -> sorted (put k r t).
Proof.
  unfold put. induction 1 as [|[k' r'] t S IH F]; cbn; intro L.
  - repeat constructor.
  - keq k k'; [discriminate|].
    destruct (key_compare k k') eqn:C.
    + apply key_compare_eq in C. congruence.
    + constructor; [constructor; auto|].
      constructor; [exact C|].
      rewrite Forall_forall in *. intros x I. unfold klt in *. cbn in *.
      eapply key_compare_trans; [exact C|]. apply (F x I).
    + constructor; [apply IH; auto|].
      rewrite Forall_forall in *. intros x I.
      apply (Permutation_in _ (ins_sorted_perm _ _)) in I. destruct I as [<-|I]; auto.
      unfold klt; cbn. rewrite key_compare_antisym, C. reflexivity.
Qed.

Lemma lookup_put k k' r t :
  lookup k' t = None ->
  lookup k (put k' r t) = if key_eqb k k' then Some r else lookup k t.
Proof.
  unfold put. induction t as [|[k0 r0] t IH]; cbn; intro L; auto.
  keq k' k0; [discriminate|].
  destruct (key_compare k' k0); cbn; auto.
  rewrite IH by auto. keq k k0; auto.
  keq k k'; auto. congruence.
Qed.

Lemma put_wf k r t : tbl_wf t -> lookup k t = None -> tbl_wf (put k r t).
Proof.
  intros W L. unfold put.
  eapply perm_wf; [apply Permutation_sym, ins_sorted_perm|].
  unfold tbl_wf in *. cbn. constructor; auto. now apply lookup_None.
Qed.

Lemma length_put k r t : length (put k r t) = S (length t).
Proof. unfold put. now rewrite (Permutation_length (ins_sorted_perm (k, r) t)). Qed.

Lemma filter_wf f t : tbl_wf t -> tbl_wf (filter f t).
Proof.
  unfold tbl_wf. induction t as [|kr t IH]; cbn; auto.
  intro W. inversion W as [|? ? N W']; subst.
  destruct (f kr); cbn; auto. constructor; auto.
  intro I. apply N. apply in_map_iff in I. destruct I as [x [E I]].
  apply filter_In in I. apply in_map_iff. exists x. tauto.
Qed.

Lemma lookup_filter_key (p : key -> bool) t k :
  lookup k (filter (fun kr => p (fst kr)) t) = if p k then lookup k t else None.
Proof.
  induction t as [|[k0 r0] t IH]; cbn; [now destruct (p k)|].
  destruct (p k0) eqn:P0; cbn; rewrite IH; keq k k0; auto.
  - subst. now rewrite P0.
  - subst. now rewrite P0.
Qed.

(* ================================================================ row selection *)
Definition matchesb (en : env) (w : option expr) (r : row) : bool :=
  match matches en w r with Ok true => true | _ => false end.

Lemma filter_rows_spec en w t sel :
  filter_rows en w t = Ok sel -> sel = filter (fun kr => matchesb en w (snd kr)) t.
Proof.
  revert sel; induction t as [|[k r] t IH]; cbn; intros sel H.
  - now inversion H.
  - unfold matchesb at 1. cbn. destruct (matches en w r) as [keep|]; cbn in H; [|discriminate].
    destruct (filter_rows en w t) as [rest|]; cbn in H; [|discriminate].
    inversion H. rewrite (IH rest eq_refl). now destruct keep.
Qed.

Lemma oins_perm d x l : Permutation (oins d x l) (x :: l).
Proof.
  induction l as [|y l IH]; cbn; auto.
  destruct (kcmp d (fst x) (fst y)); auto.
  eapply perm_trans; [apply perm_skip, IH | apply perm_swap].
Qed.

Lemma osort_perm d l : Permutation (osort d l) l.
Proof.
  induction l as [|x l IH]; cbn; auto.
  eapply perm_trans; [apply oins_perm | now apply perm_skip].
Qed.

Lemma key_rows_snd en es t ks : key_rows en es t = Ok ks -> map snd ks = t.
Proof.
  revert ks; induction t as [|[k r] t IH]; cbn; intros ks H.
  - now inversion H.
  - destruct (eval_list _ es); cbn in H; [|discriminate].
    destruct (key_rows en es t); cbn in H; [|discriminate].
    inversion H. cbn. f_equal. auto.
Qed.

Lemma order_rows_perm en o t t' : order_rows en o t = Ok t' -> Permutation t t'.
Proof.
  unfold order_rows. destruct o as [|x o]; intro H; [inversion H; auto|].
  destruct (key_rows en (map fst (x :: o)) t) as [ks|] eqn:K; cbn [bind] in H; [|discriminate].
  destruct (all_homogeneous _ ks); [|discriminate].
  inversion H. rewrite <- (key_rows_snd _ _ _ _ K).
  apply Permutation_map, Permutation_sym, osort_perm.
Qed.

(* LIMIT keeps a contiguous segment *)
Lemma limit_rows_segment {A} en lim (l l' : list A) :
  limit_rows en lim l = Ok l' -> exists a b, l' = firstn b (skipn a l).
Proof.
  unfold limit_rows. destruct lim as [[cnt off]|]; intro H.
  - destruct (match off with Some a => limit_num en a | None => Ok 0 end); cbn in H; [|discriminate].
    destruct (limit_num en cnt); cbn in H; [|discriminate].
    inversion H. eauto.
  - inversion H. exists O, (length l'). cbn. now rewrite firstn_all.
Qed.

Lemma segment_incl {A} a b (l : list A) x : In x (firstn b (skipn a l)) -> In x l.
Proof.
  intro I.
  assert (I' : In x (skipn a l)).
  { rewrite <- (firstn_skipn b (skipn a l)). apply in_or_app. now left. }
  rewrite <- (firstn_skipn a l). apply in_or_app. now right.
Qed.

Lemma NoDup_app_l {A} (a b : list A) : NoDup (a ++ b) -> NoDup a.
Proof.
  induction a as [|x a IH]; cbn; intro N; [constructor|].
  inversion N; subst. constructor; auto. intro I. apply H1, in_or_app. now left.
Qed.

Lemma NoDup_app_r {A} (a b : list A) : NoDup (a ++ b) -> NoDup b.
Proof. induction a as [|x a IH]; cbn; intro N; auto. inversion N; auto. Qed.

Lemma NoDup_firstn {A} n (l : list A) : NoDup l -> NoDup (firstn n l).
Proof. intro N. rewrite <- (firstn_skipn n l) in N. now apply NoDup_app_l in N. Qed.

Lemma NoDup_skipn {A} n (l : list A) : NoDup l -> NoDup (skipn n l).
Proof. intro N. rewrite <- (firstn_skipn n l) in N. now apply NoDup_app_r in N. Qed.

Lemma map_firstn_skipn {A B} (f : A -> B) a b l :
  map f (firstn b (skipn a l)) = firstn b (skipn a (map f l)).
Proof. now rewrite skipn_map, firstn_map. Qed.

(* what UPDATE / DELETE / SELECT work on: existing rows whose WHERE is TRUE,
   each at most once *)
Lemma select_rows_sound en w o lim t sel :
  select_rows en w o lim t = Ok sel ->
  (forall kr, In kr sel -> In kr t /\ matchesb en w (snd kr) = true) /\
  (tbl_wf t -> tbl_wf sel).
Proof.
  unfold select_rows. intro H.
  destruct (filter_rows en w t) as [s1|] eqn:F; cbn in H; [|discriminate].
  destruct (order_rows en o s1) as [s2|] eqn:O; cbn in H; [|discriminate].
  apply filter_rows_spec in F. apply order_rows_perm in O.
  apply limit_rows_segment in H. destruct H as [a [b ->]]. split.
  - intros kr I. apply segment_incl in I.
    apply (Permutation_in _ (Permutation_sym O)) in I. subst s1.
    apply filter_In in I. exact I.
  - intro W. unfold tbl_wf. rewrite map_firstn_skipn.
    apply NoDup_firstn, NoDup_skipn.
    apply (perm_wf s1 s2 O). subst s1. now apply filter_wf.
Qed.

Lemma select_rows_all en w t sel :
  select_rows en w [] None t = Ok sel -> sel = filter (fun kr => matchesb en w (snd kr)) t.
Proof.
  unfold select_rows. intro H.
  destruct (filter_rows en w t) as [s1|] eqn:F; cbn in H; [|discriminate].
  inversion H; subst. now apply filter_rows_spec.
Qed.

(* ================================================================ the shape of one write step *)
(* every row-level step either leaves the table alone or replaces the binding
   of one key by a binding under a key that is free after the removal *)
Definition step_shape (sch : schema) (t t' : tbl) : Prop :=
  t' = t \/ exists (f : key * row -> bool) k' v,
              t' = put k' v (filter f t) /\ lookup k' (filter f t) = None /\ k' = key_of sch v.

Lemma step_shape_wf sch t t' : step_shape sch t t' -> tbl_wf t -> tbl_wf t'.
Proof.
  intros [->|[f [k' [v [-> [L _]]]]]] W; auto.
  apply put_wf; auto. now apply filter_wf.
Qed.

Lemma step_shape_sorted sch t t' : step_shape sch t t' -> sorted t -> sorted t'.
Proof.
  intros [->|[f [k' [v [-> [L _]]]]]] S; auto.
  apply sorted_put; auto. now apply sorted_filter.
Qed.

Lemma free_after_remove k k' t :
  negb (key_eqb k' k) && mem k' t = false -> lookup k' (remove k t) = None.
Proof.
  intro H. rewrite lookup_remove. keq k' k; auto.
  cbn in H. unfold mem in H. destruct (lookup k' t); [discriminate|auto].
Qed.

Lemma filter_true {A} (l : list A) : filter (fun _ => true) l = l.
Proof. induction l; cbn; congruence. Qed.

Lemma update_row_shape bl sch en sets inc s kr s' :
  update_row bl sch en sets inc s kr = WOk s' -> step_shape sch (w_t s) (w_t s').
Proof.
  unfold update_row. destruct kr as [k old].
  destruct (apply_sets en sets old) as [vals|]; [|discriminate].
  destruct (row_eqb vals old); [intro H; inversion H; now left|].
  destruct (existsb bl (row_locks sch vals)); [discriminate|].
  destruct (negb (key_eqb (key_of sch vals) k) && mem (key_of sch vals) (w_t s)) eqn:C;
    cbn [orb]; [discriminate|].
  destruct (sec_conflicts (s_uniq sch) vals [k; key_of sch vals] (w_t s)); [|discriminate].
  intro H; inversion H; cbn. right. rewrite remove_as_filter. do 3 eexists. split; [reflexivity|].
  split; [rewrite <- remove_as_filter; now apply free_after_remove|reflexivity].
Qed.

(* what a successful update_row did *)
Lemma update_row_ok bl sch en sets inc s k old s' :
  update_row bl sch en sets inc s (k, old) = WOk s' ->
  s' = s \/ exists vals,
    apply_sets en sets old = Ok vals /\ row_eqb vals old = false /\
    existsb bl (row_locks sch vals) = false /\
    lookup (key_of sch vals) (remove k (w_t s)) = None /\
    sec_conflicts (s_uniq sch) vals [k; key_of sch vals] (w_t s) = [] /\
    s' = {| w_t := put (key_of sch vals) vals (remove k (w_t s));
            w_auto := bump_auto (s_cols sch) vals (w_auto s);
            w_aff := w_aff s + inc; w_last := w_last s;
            w_locks := w_locks s ++ row_locks sch vals |}.
Proof.
  unfold update_row.
  destruct (apply_sets en sets old) as [vals|]; [|discriminate].
  destruct (row_eqb vals old) eqn:RE; [intro H; inversion H; now left|].
  destruct (existsb bl (row_locks sch vals)) eqn:B; [discriminate|].
  destruct (negb (key_eqb (key_of sch vals) k) && mem (key_of sch vals) (w_t s)) eqn:C;
    cbn [orb]; [discriminate|].
  destruct (sec_conflicts (s_uniq sch) vals [k; key_of sch vals] (w_t s)) eqn:SC; [|discriminate].
  intro H; inversion H. right. exists vals. repeat split; auto. now apply free_after_remove.
Qed.

Definition in_the_way (sch : schema) (vals : row) (t : tbl) : tbl :=
  match lookup (key_of sch vals) t with Some old => [(key_of sch vals, old)] | None => [] end
  ++ sec_conflicts (s_uniq sch) vals [key_of sch vals] t.

Lemma replace_target_free sch vals t :
  lookup (key_of sch vals) (remove_keys (keys (in_the_way sch vals t)) t) = None.
Proof.
  unfold remove_keys, in_the_way.
  rewrite (lookup_filter_key (fun k0 => negb (existsb (key_eqb k0) (keys
     (match lookup (key_of sch vals) t with Some old => [(key_of sch vals, old)] | None => [] end
      ++ sec_conflicts (s_uniq sch) vals [key_of sch vals] t))))).
  destruct (lookup (key_of sch vals) t) eqn:L; cbn.
  - now rewrite key_eqb_refl.
  - now destruct (negb _).
Qed.

Lemma in_the_way_nil sch vals t : in_the_way sch vals t = [] -> lookup (key_of sch vals) t = None.
Proof. unfold in_the_way. destruct (lookup (key_of sch vals) t); [discriminate|auto]. Qed.

Lemma insert_row_shape bl sch en mode idx ondup s es s' :
  insert_row bl sch en mode idx ondup s es = WOk s' -> step_shape sch (w_t s) (w_t s').
Proof.
  unfold insert_row.
  destruct (do g <- given_values en (s_cols sch) idx es (map (fun _ => None) (s_cols sch));
            fill_defaults (s_cols sch) g) as [vals0|]; [|discriminate].
  destruct (gen_auto (s_cols sch) vals0 (w_auto s) (w_last s)) as [[vals1 auto1] last1].
  destruct (store_all (s_cols sch) vals1 auto1) as [auto2 [vals|]]; [|discriminate].
  destruct (existsb bl (row_locks sch vals)); [discriminate|].
  fold (in_the_way sch vals (w_t s)).
  pose proof (replace_target_free sch vals (w_t s)) as RF.
  pose proof (in_the_way_nil sch vals (w_t s)) as NF.
  destruct (in_the_way sch vals (w_t s)) as [|[ko old] more].
  - intro H; inversion H; cbn. right. exists (fun _ => true), (key_of sch vals), vals.
    rewrite filter_true. auto.
  - destruct ondup as [|x ondup].
    + destruct mode; try discriminate.
      * intro H; inversion H; now left.
      * destruct (existsb bl (keys ((ko, old) :: more))); [discriminate|].
        intro H; inversion H; cbn. right. do 3 eexists. split; [reflexivity|]. split; [exact RF|reflexivity].
    + destruct (bl ko); [discriminate|]. intro H. apply update_row_shape in H. exact H.
Qed.

Lemma wfold_inv {A} (P : wstate -> Prop) (f : wstate -> A -> wres) l :
  (forall s x s', P s -> f s x = WOk s' -> P s') ->
  forall s s', P s -> wfold f l s = WOk s' -> P s'.
Proof.
  intro Hf. induction l as [|x l IH]; cbn; intros s s' Ps H.
  - inversion H. now subst.
  - destruct (f s x) as [s1|] eqn:E; [|discriminate]. eauto.
Qed.

(* ================================================================ exec: the table invariants *)
Lemma remove_keys_wf ks t : tbl_wf t -> tbl_wf (remove_keys ks t).
Proof. apply filter_wf. Qed.

Lemma exec_rows_cases bl sch st s args :
  let r := exec_l bl sch st s args in
  ts_rows (r_state r) = ts_rows st
  \/ (exists ks, ts_rows (r_state r) = remove_keys ks (ts_rows st))
  \/ (exists A (f : wstate -> A -> wres) l s0 s1,
        (forall s x s', f s x = WOk s' -> step_shape sch (w_t s) (w_t s')) /\
        w_t s0 = ts_rows st /\ wfold f l s0 = WOk s1 /\ ts_rows (r_state r) = w_t s1).
Proof.
  destruct s as [f w o lim fu|mode names rows ondup|sets w o lim|w o lim]; cbn.
  - destruct (exec_select_l bl sch (ts_rows st) f w o lim fu args). now left.
  - unfold exec_insert.
    destruct (match names with Some ns => resolve_cols (s_cols sch) ns [] | None => Ok _ end) as [idx|];
      [|now left].
    destruct (negb (arity_ok _ _ rows)); [now left|].
    destruct (negb _); [now left|].
    match goal with |- context [wfold ?f ?l ?s0] => destruct (wfold f l s0) as [s1|] eqn:W end; cbn.
    + right; right. do 5 eexists. split; [|split; [|split; [exact W|reflexivity]]].
      * intros; eapply insert_row_shape; eauto.
      * reflexivity.
    + now left.
  - unfold exec_update. destruct (negb _); [now left|].
    destruct (select_rows _ w o lim (ts_rows st)) as [sel|]; [|now left].
    destruct (existsb bl (keys sel)); [now left|].
    match goal with |- context [wfold ?f ?l ?s0] => destruct (wfold f l s0) as [s1|] eqn:W end; cbn.
    + right; right. do 5 eexists. split; [|split; [|split; [exact W|reflexivity]]].
      * intros; eapply update_row_shape; eauto.
      * reflexivity.
    + now left.
  - unfold exec_delete. destruct (negb _); [now left|].
    destruct (select_rows _ w o lim (ts_rows st)) as [sel|]; [|now left].
    destruct (existsb bl (keys sel)); [now left|].
    cbn. right; left. eauto.
Qed.

(* exec preserves key uniqueness (whatever other transactions have locked) *)
Theorem exec_l_preserves_wf bl sch st s args :
  tbl_wf (ts_rows st) -> tbl_wf (ts_rows (r_state (exec_l bl sch st s args))).
Proof.
  intro W. destruct (exec_rows_cases bl sch st s args) as [E|[[ks E]|[A [f [l [s0 [s1 [Hf [E0 [Wf E]]]]]]]]]];
    rewrite E.
  - exact W.
  - now apply remove_keys_wf.
  - apply (wfold_inv (fun s => tbl_wf (w_t s)) f l) with (s := s0); auto.
    + intros. eapply step_shape_wf; eauto.
    + now rewrite E0.
Qed.

Theorem exec_preserves_wf sch st s args :
  tbl_wf (ts_rows st) -> tbl_wf (ts_rows (r_state (exec sch st s args))).
Proof. apply exec_l_preserves_wf. Qed.

(* exec keeps the rows in primary-key order *)
Theorem exec_l_preserves_sorted bl sch st s args :
  sorted (ts_rows st) -> sorted (ts_rows (r_state (exec_l bl sch st s args))).
Proof.
  intro W. destruct (exec_rows_cases bl sch st s args) as [E|[[ks E]|[A [f [l [s0 [s1 [Hf [E0 [Wf E]]]]]]]]]];
    rewrite E.
  - exact W.
  - now apply sorted_filter.
  - apply (wfold_inv (fun s => sorted (w_t s)) f l) with (s := s0); auto.
    + intros. eapply step_shape_sorted; eauto.
    + now rewrite E0.
Qed.

Theorem exec_preserves_sorted sch st s args :
  sorted (ts_rows st) -> sorted (ts_rows (r_state (exec sch st s args))).
Proof. apply exec_l_preserves_sorted. Qed.

(* SELECT (also FOR UPDATE) leaves table and counter alone *)
Theorem select_leaves_state bl sch st f w o lim fu args :
  r_state (exec_l bl sch st (SSelect f w o lim fu) args) = st.
Proof. cbn. now destruct (exec_select_l bl sch (ts_rows st) f w o lim fu args). Qed.

(* a refused statement (1205 included) leaves no trace in the rows (the
   AUTO_INCREMENT counter may have advanced: it is not transactional) *)
Theorem failed_statement_leaves_rows bl sch st s args e :
  r_out (exec_l bl sch st s args) = Fail e -> ts_rows (r_state (exec_l bl sch st s args)) = ts_rows st.
Proof.
  destruct s as [f w o lim fu|mode names rows ondup|sets w o lim|w o lim]; cbn; auto.
  - now destruct (exec_select_l bl sch (ts_rows st) f w o lim fu args).
  - unfold exec_insert.
    destruct (match names with Some ns => resolve_cols (s_cols sch) ns [] | None => Ok _ end) as [idx|]; auto.
    destruct (negb (arity_ok _ _ rows)); auto.
    destruct (negb _); auto.
    match goal with |- context [wfold ?f ?l ?s0] => destruct (wfold f l s0) as [s1|] end; cbn; auto.
    discriminate.
  - unfold exec_update. destruct (negb _); auto.
    destruct (select_rows _ w o lim (ts_rows st)) as [sel|]; auto.
    destruct (existsb bl (keys sel)); auto.
    match goal with |- context [wfold ?f ?l ?s0] => destruct (wfold f l s0) as [s1|] end; cbn; auto.
    discriminate.
  - unfold exec_delete. destruct (negb _); auto.
    destruct (select_rows _ w o lim (ts_rows st)) as [sel|]; cbn; auto.
    destruct (existsb bl (keys sel)); cbn; auto.
    discriminate.
Qed.

Lemma existsb_no_block ks : existsb no_block ks = false.
Proof. induction ks; cbn; auto. Qed.

(* ================================================================ DELETE *)
(* DELETE removes exactly the selected rows: those are existing rows whose
   WHERE is TRUE (all of them without ORDER BY / LIMIT, see
   delete_all_matching), the count is their number, every other binding stays *)
Theorem delete_removes_exactly sch st w o lim args n l :
  r_out (exec sch st (SDelete w o lim) args) = OkMod n l ->
  exists sel,
    select_rows (mk_env sch args) w o lim (ts_rows st) = Ok sel /\
    n = Z.of_nat (length sel) /\
    (forall kr, In kr sel ->
       In kr (ts_rows st) /\ matchesb (mk_env sch args) w (snd kr) = true) /\
    (tbl_wf (ts_rows st) -> tbl_wf sel) /\
    forall k, lookup k (ts_rows (r_state (exec sch st (SDelete w o lim) args))) =
              if existsb (key_eqb k) (keys sel) then None else lookup k (ts_rows st).
Proof.
  unfold exec. cbn. unfold exec_delete. destruct (negb _); cbn; [discriminate|].
  destruct (select_rows (mk_env sch args) w o lim (ts_rows st)) as [sel|] eqn:S; cbn; [|discriminate].
  rewrite existsb_no_block; cbn.
  intro H; inversion H; subst. exists sel.
  destruct (select_rows_sound _ _ _ _ _ _ S) as [A B].
  repeat split; auto; try apply A; auto.
  intro k. unfold remove_keys.
  rewrite (lookup_filter_key (fun k => negb (existsb (key_eqb k) (keys sel)))).
  now destruct (existsb (key_eqb k) (keys sel)).
Qed.

Lemma existsb_keys_filter (f : row -> bool) t k :
  tbl_wf t ->
  existsb (key_eqb k) (keys (filter (fun kr => f (snd kr)) t)) =
  match lookup k t with Some r => f r | None => false end.
Proof.
  unfold tbl_wf, keys. revert k. induction t as [|[k0 r0] t IH]; intro k; cbn; auto.
  intro W. inversion W as [|? ? N W']; subst.
  assert (L0 : lookup k0 t = None) by (apply lookup_None; exact N).
  destruct (f r0) eqn:F0; cbn; keq k k0; cbn; auto.
  subst. rewrite IH, L0, F0 by auto. reflexivity.
Qed.

(* without ORDER BY / LIMIT: a row disappears iff its WHERE is TRUE *)
Theorem delete_all_matching sch st w args n l :
  tbl_wf (ts_rows st) ->
  r_out (exec sch st (SDelete w [] None) args) = OkMod n l ->
  forall k, lookup k (ts_rows (r_state (exec sch st (SDelete w [] None) args))) =
            match lookup k (ts_rows st) with
            | Some r => if matchesb (mk_env sch args) w r then None else Some r
            | None => None
            end.
Proof.
  intros W H k. destruct (delete_removes_exactly _ _ _ _ _ _ _ _ H) as [sel [S [_ [_ [_ L]]]]].
  rewrite L. apply select_rows_all in S. subst sel.
  rewrite (existsb_keys_filter (matchesb (mk_env sch args) w)) by auto.
  destruct (lookup k (ts_rows st)); auto.
Qed.

Lemma wf_NoDup t : tbl_wf t -> NoDup t.
Proof. apply NoDup_map_inv. Qed.

Lemma filter_partition_length {A} (f : A -> bool) l :
  (length (filter f l) + length (filter (fun x => negb (f x)) l) = length l)%nat.
Proof. induction l as [|x l IH]; cbn; auto. destruct (f x); cbn; lia. Qed.

Lemma selected_count t sel :
  tbl_wf t -> tbl_wf sel -> (forall kr, In kr sel -> In kr t) ->
  length (filter (fun kr => existsb (key_eqb (fst kr)) (keys sel)) t) = length sel.
Proof.
  intros W Ws Incl. apply Permutation_length, NoDup_Permutation.
  - apply NoDup_filter, wf_NoDup, W.
  - apply wf_NoDup, Ws.
  - intros [k r]. rewrite filter_In, existsb_exists. cbn. split.
    + intros [I [k' [Ik E]]]. apply key_eqb_eq in E. subst k'.
      apply in_map_iff in Ik. destruct Ik as [[k1 r1] [E1 I1]]. cbn in E1. subst k1.
      pose proof (In_lookup _ _ _ W (Incl _ I1)) as L1.
      pose proof (In_lookup _ _ _ W I) as L. rewrite L in L1. inversion L1; subst. exact I1.
    + intro I. split; [now apply Incl|]. exists k. split; [|apply key_eqb_refl].
      apply in_map_iff. exists (k, r). auto.
Qed.

(* the affected-row count of a DELETE is the number of rows that disappeared *)
Theorem delete_count sch st w o lim args n l :
  tbl_wf (ts_rows st) ->
  r_out (exec sch st (SDelete w o lim) args) = OkMod n l ->
  Z.of_nat (length (ts_rows (r_state (exec sch st (SDelete w o lim) args)))) =
  Z.of_nat (length (ts_rows st)) - n.
Proof.
  intros W H. destruct (delete_removes_exactly _ _ _ _ _ _ _ _ H) as [sel [S [N [A [Ws _]]]]].
  revert H. unfold exec. cbn. unfold exec_delete. destruct (negb _); cbn; [discriminate|].
  rewrite S. cbn. rewrite existsb_no_block; cbn. intros _. subst n. unfold remove_keys.
  pose proof (filter_partition_length (fun kr => existsb (key_eqb (fst kr)) (keys sel)) (ts_rows st)) as P.
  rewrite (selected_count _ _ W (Ws W) (fun kr I => proj1 (A kr I))) in P. lia.
Qed.

(* ================================================================ LIMIT *)
Lemma firstn_clamp {A} (n : Z) (l : list A) :
  0 <= n -> firstn (clampn n l) l = firstn (Z.to_nat n) l.
Proof.
  intro Hn. unfold clampn. destruct (Z.le_ge_cases n (Z.of_nat (length l))) as [C|C].
  - now rewrite Z.min_l.
  - rewrite Z.min_r, Nat2Z.id by auto. rewrite firstn_all. symmetry. apply firstn_all2. lia.
Qed.

Lemma limit_lit_prefix {A} en (n : Z) (l : list A) :
  0 <= n <= MAX_I64 ->
  limit_rows en (Some (LimLit n, None)) l = Ok (firstn (Z.to_nat n) l).
Proof.
  intros [H0 H1]. unfold limit_rows, limit_num. cbn [bind].
  replace ((0 <=? n) && (n <=? MAX_I64)) with true
    by (symmetry; apply andb_true_iff; split; now apply Z.leb_le).
  cbn [bind].
  replace (clampn 0 l) with O by (unfold clampn; lia). cbn [skipn].
  now rewrite firstn_clamp.
Qed.

Lemma select_rows_limit_prefix en w o t (n : Z) sel :
  0 <= n <= MAX_I64 ->
  select_rows en w o None t = Ok sel ->
  select_rows en w o (Some (LimLit n, None)) t = Ok (firstn (Z.to_nat n) sel).
Proof.
  intros Hn. unfold select_rows.
  destruct (filter_rows en w t) as [s1|]; cbn [bind]; [|discriminate].
  destruct (order_rows en o s1) as [s2|]; cbn [bind]; [|discriminate].
  intro H. inversion H; subst. now apply limit_lit_prefix.
Qed.

Lemma project_firstn en es sel rows n :
  project en es sel = Ok rows -> project en es (firstn n sel) = Ok (firstn n rows).
Proof.
  revert rows n; induction sel as [|[k r] sel IH]; intros rows n H.
  - cbn in H. inversion H. now destruct n.
  - cbn in H. destruct (eval_list (with_row en r) es) as [vs|] eqn:E; cbn [bind] in H; [|discriminate].
    destruct (project en es sel) as [rest|] eqn:P; cbn [bind] in H; [|discriminate].
    inversion H; subst. destruct n; cbn; auto.
    rewrite E. cbn [bind]. rewrite (IH rest n eq_refl). reflexivity.
Qed.

(* LIMIT n returns a prefix of the unlimited result *)
Theorem limit_returns_prefix sch t f w o args (n : Z) rows :
  0 <= n <= MAX_I64 -> f <> FCount ->
  exec_select sch t f w o None args = Ok rows ->
  exec_select sch t f w o (Some (LimLit n, None)) args = Ok (firstn (Z.to_nat n) rows).
Proof.
  intros Hn Hf. unfold exec_select. destruct (negb _); [discriminate|].
  destruct (select_rows (mk_env sch args) w o None t) as [sel|] eqn:S; cbn [bind]; [|discriminate].
  rewrite (select_rows_limit_prefix _ _ _ _ _ _ Hn S). cbn [bind].
  destruct f; try congruence.
  - intro H; inversion H. now rewrite firstn_map.
  - apply project_firstn.
Qed.

(* and the rows an UPDATE / DELETE with LIMIT n works on are the first n of
   those it would work on without the LIMIT, in the same order *)
Theorem limited_write_selects_prefix sch st w o args (n : Z) sel :
  0 <= n <= MAX_I64 ->
  select_rows (mk_env sch args) w o None (ts_rows st) = Ok sel ->
  select_rows (mk_env sch args) w o (Some (LimLit n, None)) (ts_rows st) = Ok (firstn (Z.to_nat n) sel).
Proof. apply select_rows_limit_prefix. Qed.

(* ================================================================ UPDATE *)
Lemma wfold_inv_in {A} (P : wstate -> Prop) (f : wstate -> A -> wres) l :
  (forall s x s', In x l -> P s -> f s x = WOk s' -> P s') ->
  forall s s', P s -> wfold f l s = WOk s' -> P s'.
Proof.
  induction l as [|x l IH]; cbn; intros Hf s s' Ps H.
  - inversion H. now subst.
  - destruct (f s x) as [s1|] eqn:E; [|discriminate].
    apply (IH (fun s x s' I => Hf s x s' (or_intror I)) s1 s'); auto.
    apply (Hf s x s1); auto.
Qed.

(* frame: an UPDATE changes no row whose WHERE is not TRUE *)
Theorem update_frame sch st sets w o lim args n l :
  tbl_wf (ts_rows st) ->
  r_out (exec sch st (SUpdate sets w o lim) args) = OkMod n l ->
  forall k r, lookup k (ts_rows st) = Some r ->
              matchesb (mk_env sch args) w r = false ->
              lookup k (ts_rows (r_state (exec sch st (SUpdate sets w o lim) args))) = Some r.
Proof.
  intro W. unfold exec. cbn. unfold exec_update. destruct (negb _); cbn; [discriminate|].
  destruct (select_rows (mk_env sch args) w o lim (ts_rows st)) as [sel|] eqn:S; cbn; [|discriminate].
  rewrite existsb_no_block; cbn.
  destruct (select_rows_sound _ _ _ _ _ _ S) as [A _].
  match goal with |- context [wfold ?f ?l ?s0] => destruct (wfold f l s0) as [s1|] eqn:F end; cbn;
    [|discriminate].
  intros _ k r L M.
  assert (NI : ~ In k (keys sel)).
  { intro I. apply in_map_iff in I. destruct I as [[k1 r1] [E I]]. cbn in E. subst k1.
    destruct (A _ I) as [It Mt]. apply (In_lookup _ _ _ W) in It.
    rewrite L in It. inversion It; subst. cbn in Mt. congruence. }
  refine (wfold_inv_in
            (fun s => forall k r, lookup k (ts_rows st) = Some r -> ~ In k (keys sel) ->
                                  lookup k (w_t s) = Some r)
            _ sel _ _ s1 _ F k r L NI); [|cbn; auto].
  clear. intros s [k0 old] s' I P H k r L NI.
  specialize (P k r L NI).
  apply update_row_ok in H. destruct H as [->|[vals [_ [_ [_ [C [_ ->]]]]]]]; auto. cbn.
  assert (K0 : k <> k0).
  { intro; subst. apply NI. apply in_map_iff. exists (k0, old). auto. }
  rewrite lookup_put by auto. rewrite (lookup_remove_neq k0 k) by congruence.
  keq k (key_of sch vals); auto.
  subst. rewrite (lookup_remove_neq k0) in C by congruence. congruence.
Qed.

(* ================================================================ INSERT *)
Lemma insert_row_plain_step sch en idx s es s' :
  insert_row no_block sch en InsPlain idx [] s es = WOk s' ->
  exists k vals, lookup k (w_t s) = None /\ w_t s' = put k vals (w_t s) /\
                 w_aff s' = w_aff s + 1.
Proof.
  unfold insert_row.
  destruct (do g <- given_values en (s_cols sch) idx es (map (fun _ => None) (s_cols sch));
            fill_defaults (s_cols sch) g) as [vals0|]; [|discriminate].
  destruct (gen_auto (s_cols sch) vals0 (w_auto s) (w_last s)) as [[vals1 auto1] last1].
  destruct (store_all (s_cols sch) vals1 auto1) as [auto2 [vals|]]; [|discriminate].
  rewrite existsb_no_block. fold (in_the_way sch vals (w_t s)).
  pose proof (in_the_way_nil sch vals (w_t s)) as NF.
  destruct (in_the_way sch vals (w_t s)) as [|[ko old] more]; [|discriminate].
  intro H; inversion H; cbn. exists (key_of sch vals), vals. split; [now apply NF|auto].
Qed.

Lemma insert_plain_fold sch en idx rows : forall s s',
  wfold (insert_row no_block sch en InsPlain idx []) rows s = WOk s' ->
  w_aff s' = w_aff s + Z.of_nat (length rows) /\
  length (w_t s') = (length (w_t s) + length rows)%nat /\
  forall k r, lookup k (w_t s) = Some r -> lookup k (w_t s') = Some r.
Proof.
  induction rows as [|es rows IH]; cbn [wfold]; intros s s' H.
  - inversion H; subst. cbn. repeat split; auto; lia.
  - destruct (insert_row no_block sch en InsPlain idx [] s es) as [s1|] eqn:E; [|discriminate].
    apply insert_row_plain_step in E. destruct E as [k [vals [L [T A]]]].
    destruct (IH _ _ H) as [A' [Len Keep]]. repeat split.
    + rewrite A', A. cbn [length]. lia.
    + rewrite Len, T, length_put. cbn [length]. lia.
    + intros k0 r0 L0. apply Keep. rewrite T, lookup_put by auto.
      keq k0 k; auto. congruence.
Qed.

(* INSERT adds exactly one new key per listed row and keeps every existing
   binding, or fails (1062, ...) leaving the rows unchanged *)
Theorem insert_adds_exactly sch st names rows args :
  let r := exec sch st (SInsert InsPlain names rows []) args in
  match r_out r with
  | OkMod n _ =>
      n = Z.of_nat (length rows) /\
      length (ts_rows (r_state r)) = (length (ts_rows st) + length rows)%nat /\
      forall k row, lookup k (ts_rows st) = Some row -> lookup k (ts_rows (r_state r)) = Some row
  | Fail _ => ts_rows (r_state r) = ts_rows st
  | OkRows _ => False
  end.
Proof.
  unfold exec. cbn. unfold exec_insert.
  destruct (match names with Some ns => resolve_cols (s_cols sch) ns [] | None => Ok _ end) as [idx|];
    cbn; auto.
  destruct (negb (arity_ok _ _ rows)); cbn; auto.
  destruct (negb _); cbn; auto.
  match goal with |- context [wfold ?f ?l ?s0] => destruct (wfold f l s0) as [s1|] eqn:F end; cbn; auto.
  apply insert_plain_fold in F. cbn in F. destruct F as [A [B C]]. repeat split; auto.
Qed.

(* a row in the way - on the primary key or on any secondary unique index -
   refuses the whole plain INSERT with 1062 *)
Theorem insert_duplicate_key_1062 sch en idx s es :
  forall vals0 vals1 auto1 last1 auto2 vals,
  (do g <- given_values en (s_cols sch) idx es (map (fun _ => None) (s_cols sch));
   fill_defaults (s_cols sch) g) = Ok vals0 ->
  gen_auto (s_cols sch) vals0 (w_auto s) (w_last s) = (vals1, auto1, last1) ->
  store_all (s_cols sch) vals1 auto1 = (auto2, Ok vals) ->
  in_the_way sch vals (w_t s) <> [] ->
  insert_row no_block sch en InsPlain idx [] s es =
  WFail auto2 (w_locks s ++ row_locks sch vals) (EErr E_DUP).
Proof.
  intros * H1 H2 H3 H4. unfold insert_row. rewrite H1, H2, H3, existsb_no_block.
  fold (in_the_way sch vals (w_t s)).
  destruct (in_the_way sch vals (w_t s)) as [|[ko old] more]; [congruence|reflexivity].
Qed.

(* ================================================================ upsert *)
(* INSERT ... ON DUPLICATE KEY UPDATE is, row by row, an insert when the key
   is free and otherwise an update of the row that holds the key, with
   VALUES(col) reading the row that would have been inserted *)
Theorem upsert_is_insert_or_update sch en mode idx x ondup s es s' :
  insert_row no_block sch en mode idx (x :: ondup) s es = WOk s' ->
  (exists k vals, lookup k (w_t s) = None /\ in_the_way sch vals (w_t s) = [] /\
                  w_t s' = put k vals (w_t s) /\ w_aff s' = w_aff s + 1)
  \/
  (* the row updated is the FIRST one in the way: the holder of the primary key
     if there is one, else the first holder of a secondary unique value *)
  (exists ko old more vals s1,
      in_the_way sch vals (w_t s) = (ko, old) :: more /\
      w_t s1 = w_t s /\ w_aff s1 = w_aff s /\
      update_row no_block sch {| e_cols := s_cols sch; e_row := []; e_args := e_args en; e_ins := Some vals |}
                 (x :: ondup) 2 s1 (ko, old) = WOk s').
Proof.
  unfold insert_row.
  destruct (do g <- given_values en (s_cols sch) idx es (map (fun _ => None) (s_cols sch));
            fill_defaults (s_cols sch) g) as [vals0|]; [|discriminate].
  destruct (gen_auto (s_cols sch) vals0 (w_auto s) (w_last s)) as [[vals1 auto1] last1].
  destruct (store_all (s_cols sch) vals1 auto1) as [auto2 [vals|]]; [|discriminate].
  rewrite existsb_no_block. fold (in_the_way sch vals (w_t s)).
  pose proof (in_the_way_nil sch vals (w_t s)) as NF.
  destruct (in_the_way sch vals (w_t s)) as [|[ko old] more] eqn:W.
  - intro H; inversion H; cbn. left. exists (key_of sch vals), vals. repeat split; auto.
  - cbn [no_block]. intro H. right.
    exists ko, old, more, vals,
      {| w_t := w_t s; w_auto := auto2; w_aff := w_aff s; w_last := last1;
         w_locks := (w_locks s ++ row_locks sch vals) ++ [ko] |}.
    cbn. repeat split; auto.
Qed.

Lemma insert_row_plain_any sch en mode idx ondup s es s' :
  insert_row no_block sch en InsPlain idx [] s es = WOk s' ->
  insert_row no_block sch en mode idx ondup s es = WOk s'.
Proof.
  unfold insert_row.
  destruct (do g <- given_values en (s_cols sch) idx es (map (fun _ => None) (s_cols sch));
            fill_defaults (s_cols sch) g) as [vals0|]; [|discriminate].
  destruct (gen_auto (s_cols sch) vals0 (w_auto s) (w_last s)) as [[vals1 auto1] last1].
  destruct (store_all (s_cols sch) vals1 auto1) as [auto2 [vals|]]; [|discriminate].
  rewrite existsb_no_block.
  destruct (_ ++ sec_conflicts (s_uniq sch) vals [key_of sch vals] (w_t s)) as [|[ko old] more];
    [auto|discriminate].
Qed.

(* when no listed key collides, the upsert / IGNORE / REPLACE forms are the plain INSERT *)
Theorem upsert_without_conflict_is_insert sch st mode names rows ondup args n l :
  sets_ok (s_cols sch) ondup && all_cols_ok (s_cols sch) (map snd ondup) = true ->
  r_out (exec sch st (SInsert InsPlain names rows []) args) = OkMod n l ->
  exec sch st (SInsert mode names rows ondup) args = exec sch st (SInsert InsPlain names rows []) args.
Proof.
  intro OK. unfold exec. cbn. unfold exec_insert.
  destruct (match names with Some ns => resolve_cols (s_cols sch) ns [] | None => Ok _ end) as [idx|];
    cbn; auto.
  destruct (negb (arity_ok _ _ rows)); cbn; auto.
  apply andb_true_iff in OK. destruct OK as [O1 O2]. rewrite O1, O2.
  cbn [sets_ok all_cols_ok map forallb]. rewrite !andb_true_r.
  destruct (negb (forallb (all_cols_ok (s_cols sch)) rows)); cbn; auto.
  match goal with |- context [wfold (insert_row ?z ?a ?b InsPlain ?c []) ?l ?s0] =>
    destruct (wfold (insert_row z a b InsPlain c []) l s0) as [s1|] eqn:F end; cbn; [|discriminate].
  intros _.
  assert (G : forall rows s0 s1,
             wfold (insert_row no_block sch (mk_env sch args) InsPlain idx []) rows s0 = WOk s1 ->
             wfold (insert_row no_block sch (mk_env sch args) mode idx ondup) rows s0 = WOk s1).
  { clear. induction rows as [|es rows IH]; cbn; auto. intros s0 s1.
    destruct (insert_row no_block sch (mk_env sch args) InsPlain idx [] s0 es) as [s2|] eqn:E; [|discriminate].
    rewrite (insert_row_plain_any _ _ mode _ ondup _ _ _ E). apply IH. }
  now rewrite (G _ _ _ F).
Qed.

(* ================================================================ non-vacuity *)
Module Examples.
Import Coq.Strings.Byte.

Definition c_id := [x69; x64].
Definition c_name_ := [x6e; x61; x6d; x65].
Definition c_age := [x61; x67; x65].

Definition sch : schema :=
  {| s_cols := [ {| c_name := c_id; c_ty := TInt MIN_I64 MAX_I64; c_notnull := true;
                    c_default := None; c_auto := true |};
                 {| c_name := c_name_; c_ty := TStr SVarchar 8; c_notnull := false;
                    c_default := Some VNull; c_auto := false |};
                 {| c_name := c_age; c_ty := TInt (-128) 127; c_notnull := true;
                    c_default := Some (VInt 7); c_auto := false |} ];
     s_pk := [0%nat]; s_uniq := [] |}.

Definition row1 := [VInt 1; VStr [x61]; VInt 5].
Definition row2 := [VInt 2; VNull; VInt 9].
Definition row4 := [VInt 4; VStr [x62]; VInt 5].
Definition st0 : tstate :=
  {| ts_rows := [([VInt 1], row1); ([VInt 2], row2); ([VInt 4], row4)]; ts_auto := 5 |}.

(* the hypotheses of the invariants hold of a real table *)
Example st0_sorted_nonvacuous : sorted (ts_rows st0) /\ tbl_wf (ts_rows st0).
Proof.
  assert (S : sorted (ts_rows st0)) by (repeat constructor).
  split; [exact S | now apply sorted_wf].
Qed.

(* UPDATE t SET age = age + 1 WHERE name = 'a': one row changes, the row
   whose name is NULL (condition UNKNOWN) and the non-matching row stay *)
Definition upd := SUpdate [(c_age, EArith APlus (ECol c_age) (ELit (VInt 1)))]
                          (Some (ECmp CEq (ECol c_name_) (ELit (VStr [x61])))) [] None.
Example update_frame_nonvacuous :
  r_out (exec sch st0 upd []) = OkMod 1 0 /\
  ts_rows (r_state (exec sch st0 upd [])) =
    [([VInt 1], [VInt 1; VStr [x61]; VInt 6]); ([VInt 2], row2); ([VInt 4], row4)] /\
  matchesb (mk_env sch []) (Some (ECmp CEq (ECol c_name_) (ELit (VStr [x61])))) row2 = false.
Proof. repeat split; vm_compute; reflexivity. Qed.

(* DELETE FROM t WHERE age = 5 ORDER BY id DESC LIMIT 1 removes only id 4 *)
Definition del := SDelete (Some (ECmp CEq (ECol c_age) (ELit (VInt 5))))
                          [(ECol c_id, true)] (Some (LimLit 1, None)).
Example delete_nonvacuous :
  r_out (exec sch st0 del []) = OkMod 1 0 /\
  ts_rows (r_state (exec sch st0 del [])) = [([VInt 1], row1); ([VInt 2], row2)].
Proof. split; vm_compute; reflexivity. Qed.

(* INSERT INTO t (id) VALUES (2): duplicate key, nothing changes *)
Example insert_duplicate_nonvacuous :
  exec sch st0 (SInsert InsPlain (Some [c_id]) [[ELit (VInt 2)]] []) [] =
  {| r_state := st0; r_out := Fail (EErr E_DUP); r_locks := [[VInt 2]] |}.
Proof. vm_compute; reflexivity. Qed.

(* INSERT INTO t (name) VALUES ('z'), (?): two generated keys, LAST_INSERT_ID = the first *)
Example insert_auto_nonvacuous :
  exec sch st0 (SInsert InsPlain (Some [c_name_]) [[ELit (VStr [x7a])]; [EParam 0]] []) [VStr [x79]] =
  {| r_state := {| ts_rows := ts_rows st0 ++ [([VInt 5], [VInt 5; VStr [x7a]; VInt 7]);
                                               ([VInt 6], [VInt 6; VStr [x79]; VInt 7])];
                   ts_auto := 7 |};
     r_out := OkMod 2 5; r_locks := [[VInt 5]; [VInt 6]] |}.
Proof. vm_compute; reflexivity. Qed.

(* INSERT INTO t (id, age) VALUES (2, 1) ON DUPLICATE KEY UPDATE age = VALUES(age) + age *)
Example upsert_nonvacuous :
  let q := SInsert InsPlain (Some [c_id; c_age]) [[ELit (VInt 2); ELit (VInt 1)]]
                   [(c_age, EArith APlus (EValues c_age) (ECol c_age))] in
  r_out (exec sch st0 q []) = OkMod 2 0 /\
  lookup [VInt 2] (ts_rows (r_state (exec sch st0 q []))) = Some [VInt 2; VNull; VInt 10].
Proof. split; vm_compute; reflexivity. Qed.

(* SELECT name FROM t ORDER BY age DESC, id LIMIT 2 is a prefix of the unlimited result *)
Example limit_nonvacuous :
  let o := [(ECol c_age, true); (ECol c_id, false)] in
  exec_select sch (ts_rows st0) (FList [ECol c_name_]) None o None [] =
    Ok [[VNull]; [VStr [x61]]; [VStr [x62]]] /\
  exec_select sch (ts_rows st0) (FList [ECol c_name_]) None o (Some (LimLit 2, None)) [] =
    Ok [[VNull]; [VStr [x61]]].
Proof. split; vm_compute; reflexivity. Qed.

(* MySQL's coercion: id = '2' compares numerically, name = 0 reads 'a' as 0,
   '10' < '9' as strings but 10 > '9x' as numbers *)
Example coercion_nonvacuous :
  exec_select sch (ts_rows st0) FCount (Some (ECmp CEq (ECol c_id) (ELit (VStr [x32])))) [] None [] = Ok [[VInt 1]] /\
  exec_select sch (ts_rows st0) FCount (Some (ECmp CEq (ECol c_name_) (ELit (VInt 0)))) [] None [] = Ok [[VInt 2]] /\
  eval (mk_env sch []) (ECmp CLt (ELit (VStr [x31; x30])) (ELit (VStr [x39]))) = Ok (VInt 1) /\
  eval (mk_env sch []) (ECmp CGt (ELit (VInt 10)) (ELit (VStr [x39; x78]))) = Ok (VInt 1).
Proof. repeat split; vm_compute; reflexivity. Qed.

End Examples.

(* ================================================================ UPDATE: the affected-row count *)
Definition changedb (t' : tbl) (kr : key * row) : bool :=
  negb (match lookup (fst kr) t' with Some r' => row_eqb r' (snd kr) | None => false end).

(* the SET list does not move rows to another key (e.g. it assigns no
   primary-key column; the AT executors refuse such updates anyway) *)
Definition keeps_key (sch : schema) (sets : list (bytes * expr)) : Prop :=
  forall en old vals, e_cols en = s_cols sch ->
    apply_sets en sets old = Ok vals -> key_of sch vals = key_of sch old.

(* every row is filed under its own primary key *)
Definition keyed (sch : schema) (t : tbl) : Prop := forall k r, In (k, r) t -> k = key_of sch r.

Lemma upd_fold sch en sets : e_cols en = s_cols sch -> keeps_key sch sets -> forall sel s s',
  wfold (update_row no_block sch en sets 1) sel s = WOk s' ->
  NoDup (keys sel) ->
  (forall k old, In (k, old) sel -> lookup k (w_t s) = Some old /\ k = key_of sch old) ->
  (forall k, ~ In k (keys sel) -> lookup k (w_t s') = lookup k (w_t s)) /\
  w_aff s' = w_aff s + Z.of_nat (length (filter (changedb (w_t s')) sel)).
Proof.
  intros EC KK. induction sel as [|[k0 old] rest IH]; cbn [wfold]; intros s s' H ND Hsel.
  - inversion H; subst. cbn. split; auto. lia.
  - destruct (update_row no_block sch en sets 1 s (k0, old)) as [s1|] eqn:E; [|discriminate].
    cbn in ND. inversion ND as [|? ? N0 ND']; subst.
    destruct (Hsel k0 old (or_introl eq_refl)) as [L0 K0].
    assert (Step : (w_t s1 = w_t s /\ w_aff s1 = w_aff s /\ lookup k0 (w_t s1) = Some old) \/
                   (exists vals, row_eqb vals old = false /\ w_aff s1 = w_aff s + 1 /\
                       forall k, lookup k (w_t s1) = if key_eqb k k0 then Some vals else lookup k (w_t s))).
    { apply update_row_ok in E. destruct E as [E|[vals [AS [RE [_ [_ [_ E]]]]]]].
      - rewrite E. left. auto.
      - rewrite E. cbn. rewrite (KK _ _ _ EC AS), <- K0.
        right. exists vals. repeat split; auto. intro k.
        rewrite lookup_put by apply lookup_remove_eq.
        keq k k0; auto. apply lookup_remove_neq; congruence. }
    assert (Hrest : forall k o, In (k, o) rest -> lookup k (w_t s1) = Some o /\ k = key_of sch o).
    { intros k o I. destruct (Hsel k o (or_intror I)) as [L K]. split; auto.
      assert (k <> k0). { intro EQ. apply N0. rewrite <- EQ. apply in_map_iff. exists (k, o). auto. }
      destruct Step as [[T _]|[vals [_ [_ T]]]].
      - now rewrite T.
      - rewrite T. keq k k0; congruence. }
    destruct (IH s1 s' H ND' Hrest) as [I1 I2]. split.
    + intros k NI. rewrite I1 by (intro; apply NI; now right).
      assert (k <> k0) by (intro EQ; apply NI; cbn; left; congruence).
      destruct Step as [[T _]|[vals [_ [_ T]]]]; [now rewrite T|].
      rewrite T. keq k k0; congruence.
    + cbn [filter]. unfold changedb at 1. cbn [fst snd]. rewrite (I1 k0 N0).
      destruct Step as [[T [A L]]|[vals [RE [A T]]]].
      * rewrite L, row_eqb_refl. cbn [negb]. lia.
      * rewrite T, key_eqb_refl, RE. cbn [negb length]. lia.
Qed.

(* the affected-row count of an UPDATE is the number of rows whose content
   actually changed (an assignment of the value a row already has does not count) *)
Theorem update_count sch st sets w o lim args n l :
  tbl_wf (ts_rows st) -> keyed sch (ts_rows st) -> keeps_key sch sets ->
  r_out (exec sch st (SUpdate sets w o lim) args) = OkMod n l ->
  n = Z.of_nat (length (filter (changedb (ts_rows (r_state (exec sch st (SUpdate sets w o lim) args))))
                               (ts_rows st))).
Proof.
  intros W KD KK. unfold exec. cbn. unfold exec_update. destruct (negb _); cbn; [discriminate|].
  destruct (select_rows (mk_env sch args) w o lim (ts_rows st)) as [sel|] eqn:S; cbn; [|discriminate].
  rewrite existsb_no_block; cbn.
  destruct (select_rows_sound _ _ _ _ _ _ S) as [A B]. specialize (B W).
  match goal with |- context [wfold ?f ?l ?s0] => destruct (wfold f l s0) as [s1|] eqn:F end; cbn;
    [|discriminate].
  intro H; inversion H; subst. clear H.
  apply (upd_fold sch (mk_env sch args) sets eq_refl KK) in F; [|exact B|].
  2:{ intros k old I. destruct (A _ I) as [It _]. cbn. split; [now apply In_lookup | now apply KD]. }
  cbn in F. destruct F as [I1 I2]. rewrite I2. f_equal. cbn.
  apply Permutation_length, NoDup_Permutation.
  - apply NoDup_filter, wf_NoDup, B.
  - apply NoDup_filter, wf_NoDup, W.
  - intros [k r]. rewrite !filter_In. split.
    + intros [I P]. split; auto. apply A, I.
    + intros [I P]. split; auto.
      destruct (in_dec key_eq_dec k (keys sel)) as [Ik|NI].
      * apply in_map_iff in Ik. destruct Ik as [[k1 r1] [E1 I1']]. cbn in E1. subst k1.
        pose proof (In_lookup _ _ _ W (proj1 (A _ I1'))) as L1.
        rewrite (In_lookup _ _ _ W I) in L1. inversion L1; subst. exact I1'.
      * exfalso. unfold changedb in P. cbn [fst snd] in P.
        rewrite (I1 k NI), (In_lookup _ _ _ W I), row_eqb_refl in P. discriminate.
Qed.

(* assigning only columns outside the primary key keeps the key *)
Lemma nth_set_nth_neq {A} (i j : nat) (v d : A) l : i <> j -> nth j (set_nth i v l) d = nth j l d.
Proof.
  revert i j; induction l as [|x l IH]; intros [|i] [|j] H; cbn; auto; try congruence.
Qed.

Theorem non_key_assignments_keep_key sch sets :
  (forall c e i col, In (c, e) sets -> find_col c (s_cols sch) = Some (i, col) -> ~ In i (s_pk sch)) ->
  keeps_key sch sets.
Proof.
  intros H en old vals EC. revert old vals.
  induction sets as [|[c e] sets IH]; cbn [apply_sets]; intros old vals A.
  - now inversion A.
  - rewrite EC in A.
    destruct (find_col c (s_cols sch)) as [[i col]|] eqn:F; [|discriminate].
    destruct (match e with EDefault => default_of col | _ => eval (with_row en old) e end) as [v|];
      cbn [bind] in A; [|discriminate].
    destruct (store col v) as [v'|]; cbn [bind] in A; [|discriminate].
    rewrite (IH (fun c0 e0 i0 col0 I => H c0 e0 i0 col0 (or_intror I)) _ _ A).
    unfold key_of. apply map_ext_in. intros j Ij.
    apply nth_set_nth_neq. intro; subst j.
    exact (H c e i col (or_introl eq_refl) F Ij).
Qed.

(* ================================================================ rows stay filed under their own key *)
Lemma step_shape_keyed sch t t' : step_shape sch t t' -> keyed sch t -> keyed sch t'.
Proof.
  intros [->|[f [k' [v [-> [L ->]]]]]] K; auto.
  intros k1 r1 I. unfold put in I. apply (Permutation_in _ (ins_sorted_perm _ _)) in I.
  destruct I as [E|I]; [inversion E; auto|].
  apply filter_In in I. apply K, I.
Qed.

(* exec keeps every row under the key computed from its own columns *)
Theorem exec_preserves_keyed bl sch st s args :
  keyed sch (ts_rows st) -> keyed sch (ts_rows (r_state (exec_l bl sch st s args))).
Proof.
  intro W. destruct (exec_rows_cases bl sch st s args) as [E|[[ks E]|[A [f [l [s0 [s1 [Hf [E0 [Wf E]]]]]]]]]];
    rewrite E.
  - exact W.
  - intros k r I. apply filter_In in I. apply W, I.
  - apply (wfold_inv (fun s => keyed sch (w_t s)) f l) with (s := s0); auto.
    + intros. eapply step_shape_keyed; eauto.
    + now rewrite E0.
Qed.

(* ================================================================ secondary unique indexes *)
(* no two different rows agree, without NULLs, on the columns of a unique index *)
Definition uniq_ok (sch : schema) (t : tbl) : Prop :=
  forall ix, In ix (s_uniq sch) ->
  forall k1 r1 k2 r2, In (k1, r1) t -> In (k2, r2) t -> collides ix r1 r2 = true -> k1 = k2.

Lemma collides_sym ix a b : collides ix a b = true -> collides ix b a = true.
Proof.
  unfold collides. intro H. apply andb_true_iff in H. destruct H as [N E].
  apply key_eqb_eq in E. rewrite <- E, N. cbn. apply key_eqb_refl.
Qed.

Lemma sec_conflicts_nil ixs vals : forall skip t,
  sec_conflicts ixs vals skip t = [] ->
  forall ix kr, In ix ixs -> In kr t -> existsb (key_eqb (fst kr)) skip = false ->
                collides ix vals (snd kr) = false.
Proof.
  induction ixs as [|ix0 ixs IH]; cbn; intros skip t H ix kr I; [destruct I|].
  apply app_eq_nil in H. destruct H as [H1 H2]. rewrite H1 in H2. cbn in H2. rewrite app_nil_r in H2.
  intros It S. destruct I as [<-|I]; [|eapply IH; eauto].
  destruct (collides ix0 vals (snd kr)) eqn:C; auto.
  assert (In kr []); [|contradiction]. rewrite <- H1. apply filter_In. split; auto. now rewrite S, C.
Qed.

Lemma sec_conflicts_complete ixs vals : forall skip t ix kr,
  In ix ixs -> In kr t -> collides ix vals (snd kr) = true ->
  existsb (key_eqb (fst kr)) skip = true \/ In (fst kr) (keys (sec_conflicts ixs vals skip t)).
Proof.
  induction ixs as [|ix0 ixs IH]; cbn; intros skip t ix kr I It C; [destruct I|].
  unfold keys. rewrite map_app.
  destruct (existsb (key_eqb (fst kr)) skip) eqn:S; auto. right. apply in_or_app.
  destruct I as [<-|I].
  - left. apply in_map. apply filter_In. split; auto. now rewrite S, C.
  - destruct (IH (skip ++ map fst (filter (fun kr0 => negb (existsb (key_eqb (fst kr0)) skip) && collides ix0 vals (snd kr0)) t))
                 t ix kr I It C) as [E|E]; auto.
    rewrite existsb_app, S in E. cbn in E. left.
    apply existsb_exists in E. destruct E as [k1 [I1 E1]]. apply key_eqb_eq in E1. now subst.
Qed.

(* a write step puts a row that collides with none of the rows that stay *)
Definition clean_step (sch : schema) (t t' : tbl) : Prop :=
  t' = t \/ exists (f : key * row -> bool) k' v,
              t' = put k' v (filter f t) /\
              forall ix kr, In ix (s_uniq sch) -> In kr (filter f t) -> collides ix v (snd kr) = false.

Lemma clean_step_uniq sch t t' : clean_step sch t t' -> uniq_ok sch t -> uniq_ok sch t'.
Proof.
  intros [->|[f [k' [v [-> Cl]]]]] U; auto.
  intros ix Iix k1 r1 k2 r2 I1 I2 C. unfold put in I1, I2.
  apply (Permutation_in _ (ins_sorted_perm _ _)) in I1, I2.
  destruct I1 as [E1|I1], I2 as [E2|I2].
  - congruence.
  - inversion E1; subst. pose proof (Cl ix (k2, r2) Iix I2) as X. cbn in X. congruence.
  - inversion E2; subst. apply collides_sym in C. pose proof (Cl ix (k1, r1) Iix I1) as X. cbn in X. congruence.
  - apply filter_In in I1, I2. eapply U; eauto; tauto.
Qed.

Lemma In_lookup_some k r t : In (k, r) t -> lookup k t <> None.
Proof. intros I L. apply lookup_None in L. apply L. apply in_map_iff. exists (k, r). auto. Qed.

Lemma update_row_clean bl sch en sets inc s kr s' :
  update_row bl sch en sets inc s kr = WOk s' -> clean_step sch (w_t s) (w_t s').
Proof.
  destruct kr as [k old]. intro H. apply update_row_ok in H.
  destruct H as [->|[vals [_ [_ [_ [L [SC ->]]]]]]]; [now left|]. cbn. right.
  rewrite remove_as_filter in *. do 3 eexists. split; [reflexivity|].
  intros ix [k2 r2] Iix I2. apply (sec_conflicts_nil _ _ _ _ SC ix (k2, r2) Iix).
  - apply filter_In in I2. tauto.
  - cbn. rewrite orb_false_r. apply orb_false_iff. split.
    + apply filter_In in I2. destruct I2 as [_ N]. cbn in N. rewrite key_eqb_sym. now destruct (key_eqb k k2).
    + apply key_eqb_false. intro; subst. now apply In_lookup_some in I2.
Qed.

Lemma insert_row_clean bl sch en mode idx ondup s es s' :
  insert_row bl sch en mode idx ondup s es = WOk s' -> clean_step sch (w_t s) (w_t s').
Proof.
  unfold insert_row.
  destruct (do g <- given_values en (s_cols sch) idx es (map (fun _ => None) (s_cols sch));
            fill_defaults (s_cols sch) g) as [vals0|]; [|discriminate].
  destruct (gen_auto (s_cols sch) vals0 (w_auto s) (w_last s)) as [[vals1 auto1] last1].
  destruct (store_all (s_cols sch) vals1 auto1) as [auto2 [vals|]]; [|discriminate].
  destruct (existsb bl (row_locks sch vals)); [discriminate|].
  fold (in_the_way sch vals (w_t s)).
  destruct (in_the_way sch vals (w_t s)) as [|[ko old] more] eqn:W.
  - intro H; inversion H; cbn. right. exists (fun _ => true), (key_of sch vals), vals.
    rewrite filter_true. split; auto. intros ix [k2 r2] Iix I2.
    unfold in_the_way in W. apply app_eq_nil in W. destruct W as [W1 W2].
    apply (sec_conflicts_nil _ _ _ _ W2 ix (k2, r2) Iix I2). cbn. rewrite orb_false_r.
    apply key_eqb_false. intro; subst. apply In_lookup_some in I2.
    destruct (lookup (key_of sch vals) (w_t s)); [discriminate|congruence].
  - destruct ondup as [|x ondup].
    + destruct mode; try discriminate.
      * intro H; inversion H; now left.
      * destruct (existsb bl (keys ((ko, old) :: more))); [discriminate|].
        intro H; inversion H; cbn. right. do 3 eexists. split; [reflexivity|].
        intros ix [k2 r2] Iix I2. apply filter_In in I2. destruct I2 as [It N].
        change (fst (k2, r2)) with k2 in N. cbn [snd].
        destruct (collides ix vals r2) eqn:C; auto. exfalso.
        destruct (sec_conflicts_complete (s_uniq sch) vals [key_of sch vals] (w_t s) ix (k2, r2) Iix It C)
          as [E|E]; cbn in E.
        -- rewrite orb_false_r in E. apply key_eqb_eq in E. subst k2.
           assert (X : existsb (key_eqb (key_of sch vals)) (ko :: keys more) = true);
             [|rewrite X in N; discriminate].
           change (ko :: keys more) with (keys ((ko, old) :: more)). rewrite <- W. unfold in_the_way. apply In_lookup_some in It.
           destruct (lookup (key_of sch vals) (w_t s)); [|congruence]. cbn. now rewrite key_eqb_refl.
        -- assert (X : existsb (key_eqb k2) (ko :: keys more) = true);
             [|rewrite X in N; discriminate].
           change (ko :: keys more) with (keys ((ko, old) :: more)). rewrite <- W. unfold in_the_way, keys. rewrite map_app, existsb_app.
           apply orb_true_iff. right. apply existsb_exists. exists k2. split; auto. apply key_eqb_refl.
    + destruct (bl ko); [discriminate|]. intro H. apply update_row_clean in H. exact H.
Qed.

(* every secondary unique index stays unique under exec (any statement, any
   outcome, whatever other transactions have locked) *)
Theorem exec_preserves_unique_indexes bl sch st s args :
  uniq_ok sch (ts_rows st) -> uniq_ok sch (ts_rows (r_state (exec_l bl sch st s args))).
Proof.
  intro U.
  assert (G : forall A (f : wstate -> A -> wres) l s0 s1,
             (forall s x s', f s x = WOk s' -> clean_step sch (w_t s) (w_t s')) ->
             uniq_ok sch (w_t s0) -> wfold f l s0 = WOk s1 -> uniq_ok sch (w_t s1)).
  { intros A f l s0 s1 Hf U0 W.
    apply (wfold_inv (fun s => uniq_ok sch (w_t s)) f l) with (s := s0); auto.
    intros. eapply clean_step_uniq; eauto. }
  destruct s as [f w o lim fu|mode names rows ondup|sets w o lim|w o lim]; cbn.
  - now destruct (exec_select_l bl sch (ts_rows st) f w o lim fu args).
  - unfold exec_insert.
    destruct (match names with Some ns => resolve_cols (s_cols sch) ns [] | None => Ok _ end) as [idx|]; auto.
    destruct (negb (arity_ok _ _ rows)); auto.
    destruct (negb _); auto.
    match goal with |- context [wfold ?f ?l ?s0] => destruct (wfold f l s0) as [s1|] eqn:W end; cbn; auto.
    refine (G _ _ _ _ _ _ _ W); [intros; eapply insert_row_clean; eauto|exact U].
  - unfold exec_update. destruct (negb _); auto.
    destruct (select_rows _ w o lim (ts_rows st)) as [sel|]; auto.
    destruct (existsb bl (keys sel)); auto.
    match goal with |- context [wfold ?f ?l ?s0] => destruct (wfold f l s0) as [s1|] eqn:W end; cbn; auto.
    refine (G _ _ _ _ _ _ _ W); [intros s2 [k0 o0] s3 H; eapply update_row_clean; eauto|exact U].
  - unfold exec_delete. destruct (negb _); auto.
    destruct (select_rows _ w o lim (ts_rows st)) as [sel|]; cbn; auto.
    destruct (existsb bl (keys sel)); cbn; auto.
    intros ix Iix k1 r1 k2 r2 I1 I2. apply filter_In in I1, I2. eapply U; eauto; tauto.
Qed.

Module UniqueExamples.
Import Coq.Strings.Byte Examples.
(* the table of Examples with UNIQUE KEY (name) *)
Definition schu : schema := {| s_cols := s_cols sch; s_pk := s_pk sch; s_uniq := [[1%nat]] |}.

(* INSERT (id, name, age) VALUES (9, 'a', 1) collides with row 1 on the unique name:
   plain => 1062 and nothing changes; ON DUPLICATE KEY UPDATE age = age + 10 updates ROW 1
   (affected 2) and takes its row lock; a NULL name never collides *)
Definition ins od := SInsert InsPlain (Some [c_id; c_name_; c_age])
                             [[ELit (VInt 9); ELit (VStr [x61]); ELit (VInt 1)]] od.
Example unique_index_nonvacuous :
  uniq_ok schu (ts_rows st0) /\
  r_out (exec schu st0 (ins []) []) = Fail (EErr E_DUP) /\
  r_out (exec schu st0 (ins [(c_age, EArith APlus (ECol c_age) (ELit (VInt 10)))]) []) = OkMod 2 0 /\
  lookup [VInt 1] (ts_rows (r_state (exec schu st0 (ins [(c_age, EArith APlus (ECol c_age) (ELit (VInt 10)))]) [])))
    = Some [VInt 1; VStr [x61]; VInt 15] /\
  r_locks (exec schu st0 (ins [(c_age, EArith APlus (ECol c_age) (ELit (VInt 10)))]) [])
    = [[VInt 9]; [VNull; VInt 0; VStr [x61]]; [VInt 1]; [VInt 1]; [VNull; VInt 0; VStr [x61]]] /\
  r_out (exec schu st0 (SInsert InsPlain (Some [c_id; c_name_]) [[ELit (VInt 9); ELit VNull]] []) []) = OkMod 1 0.
Proof.
  split.
  - intros ix [<-|[]] k1 r1 k2 r2 I1 I2 C. cbn in I1, I2.
    destruct I1 as [E1|[E1|[E1|[]]]], I2 as [E2|[E2|[E2|[]]]]; inversion E1; inversion E2; subst;
      auto; vm_compute in C; discriminate.
  - repeat split; vm_compute; reflexivity.
Qed.
End UniqueExamples.
