(* Differential tie fakedb <-> Stmt.exec: a case is a schema, the initial rows
   (fakedb's dump after the setup), and a program of statements each with what
   the bare fakedb answered and its dump afterwards.  The model runs the same
   program; after every statement its outcome and table are compared with the
   observation, then the model continues FROM THE OBSERVED TABLE (so one
   disagreement is reported once and later statements are still checked).
   No proofs here: this file must stay evaluable when a proof breaks. *)
From Coq Require Import List NArith ZArith Bool.
From SeataV Require Import Base.Bytes At.Db At.Stmt.
Import ListNotations.
Local Open Scope Z_scope.

(* a result cell as database/sql hands it over: text protocol = bytes,
   binary protocol = int64 for integer columns *)
Inductive oval := ONull | OInt (z : Z) | OText (s : bytes).

Inductive observed :=
| ObsRows (rows : list (list oval))
| ObsMod (affected lastid : Z)
| ObsErr (n : N).

Record step := {
  st_stmt : option stmt;        (* None: the translator does not cover the statement *)
  st_args : list value;
  st_obs : observed;
  st_dump : list row;           (* primary-key order, as fakedb scans *)
  st_auto : Z
}.

Record scase := {
  sc_schema : schema;
  sc_init : list row;
  sc_auto : Z;
  sc_steps : list step
}.

Definition oval_matches (o : oval) (v : value) : bool :=
  match o, v with
  | ONull, VNull => true
  | OInt z, VInt z' => z =? z'
  | OText s, VNull => false
  | OText s, _ => match text_of v with Ok s' => bytes_eqb s s' | Er _ => false end
  | _, _ => false
  end.

Fixpoint list_all2 {A B} (f : A -> B -> bool) (a : list A) (b : list B) : bool :=
  match a, b with
  | [], [] => true
  | x :: a', y :: b' => f x y && list_all2 f a' b'
  | _, _ => false
  end.

Definition rows_eqb (a b : list row) : bool := list_all2 row_eqb a b.

Definition load (sch : schema) (rows : list row) : tbl :=
  map (fun r => (key_of sch r, r)) rows.

Fixpoint sortedb (t : tbl) : bool :=
  match t with
  | [] => true
  | (k, _) :: t' =>
      match t' with
      | [] => true
      | (k', _) :: _ => key_ltb k k' && sortedb t'
      end
  end.

(* kinds: 1 outcome class, 2 error number, 3 affected rows, 4 last insert id,
   5 result rows, 6 table contents, 7 AUTO_INCREMENT counter,
   8 the initial dump is not in primary-key order, 15 not modelled (skip) *)
Definition check_step (sch : schema) (st : tstate) (s : step) : list N :=
  match st_stmt s with
  | None => []
  | Some q =>
    let r := exec sch st q (st_args s) in
    match r_out r with
    | Fail EUnsup => [15%N]
    | out =>
      let o := match out, st_obs s with
               | OkRows rows, ObsRows obs =>
                   if list_all2 (list_all2 oval_matches) obs rows then [] else [5%N]
               | OkMod a l, ObsMod a' l' =>
                   (if a =? a' then [] else [3%N]) ++ (if l =? l' then [] else [4%N])
               | Fail (EErr n), ObsErr n' => if (n =? n')%N then [] else [2%N]
               | _, _ => [1%N]
               end in
      o ++ (if rows_eqb (map snd (ts_rows (r_state r))) (st_dump s) then [] else [6%N])
        ++ (if ts_auto (r_state r) =? st_auto s then [] else [7%N])
    end
  end.

Fixpoint run_steps (sch : schema) (st : tstate) (i : N) (l : list step) : list N :=
  match l with
  | [] => []
  | s :: l' =>
      map (fun c => (i * 16 + c)%N) (check_step sch st s)
      ++ run_steps sch {| ts_rows := load sch (st_dump s); ts_auto := st_auto s |} (i + 1)%N l'
  end.

Definition check_case (c : scase) : list N :=
  let t := load (sc_schema c) (sc_init c) in
  (if sortedb t then [] else [8%N])
  ++ run_steps (sc_schema c) {| ts_rows := t; ts_auto := sc_auto c |} 1%N (sc_steps c).

Fixpoint number {A} (i : nat) (l : list A) : list (nat * A) :=
  match l with [] => [] | x :: l' => (i, x) :: number (S i) l' end.

Definition mismatches (cs : list scase) : list (nat * N) :=
  flat_map (fun ic => map (fun c => (fst ic, c)) (check_case (snd ic))) (number O cs).
