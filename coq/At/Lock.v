(* C03 kernel on top of Image.v (what a statement records) and LockKey.v (the key text):
   - lock_key_text: buildLockKey AFTER the repair (key columns in primary-key order, first occurrence of each,
     whatever the column order of the image) = the legacy builder of LockKey.v applied to the canonicalised rows;
   - run_tx: a local transaction = a list of row-level statements; collects, per statement, the keys its lock key names
     (update/delete: before image, insert: after image) as the executors do;
   - sfu: SELECT ... FOR UPDATE inside a global transaction (savepoint, key query, business query, lock query,
     rollback-to on conflict);
   - the coordinator's lock table and a schedule of local commits of several global transactions.
   Definitions only. *)
From Coq Require Import List NArith ZArith Bool.
From SeataV Require Import Base.Bytes At.Db At.Image At.LockKey.
Import ListNotations.
Open Scope nat_scope.

(* ---- key text ---- *)
Definition first_val (c : nat) (r : irow) : option value :=
  option_map snd (find (fun cell => Nat.eqb (fst cell) c) r).

Definition pk_vals (pk : list nat) (r : irow) : list value :=
  flat_map (fun c => match first_val c r with Some v => [v] | None => [] end) pk.

Definition canon_of (pk : list nat) (r : irow) : irow := combine pk (pk_vals pk r).

Definition lock_key_text (table : bytes) (pk : list nat) (rows : list irow) : bytes :=
  build_lock_key table pk (map (canon_of pk) rows).

(* the select-for-update executor has its OWN builder (selectForUpdateExecutor.buildLockKey): it reads the rows of
   `SELECT <pk columns> ... FOR UPDATE`, i.e. exactly the key values in primary-key order *)
Definition sfu_key_text (table : bytes) (pk : list nat) (ks : list key) : bytes :=
  build_lock_key table pk (map (canon_row pk) ks).

(* the image row r carries key k: for every key column, the first cell of that column holds k's value *)
Definition has_key_for (pk : list nat) (k : key) (r : irow) : Prop :=
  Forall2 (fun c v => first_val c r = Some v) pk k.

(* ---- a local transaction over one table ---- *)
Inductive rstmt :=
| RUpd (m : list key) (u : row -> row) (trk : list nat)
| RDel (m : list key)
| RIns (krs : tbl) (listed : option (list key)) (last_id : Z * Z) (trk : list nat).

Definition stmt_res (pk all : list nat) (s : rstmt) (t : tbl) : res :=
  match s with
  | RUpd m u trk => at_update pk trk m u t
  | RDel m => at_delete all m t
  | RIns krs listed last_id trk => at_insert trk krs listed last_id t
  end.

(* keys named by the statement's lock key: update/delete from the before image, insert from the after image *)
Definition stmt_lock_keys (s : rstmt) (b a : image) : list key :=
  match s with RIns _ _ _ _ => map fst a | _ => map fst b end.

Fixpoint run_tx (pk all : list nat) (ss : list rstmt) (t : tbl) : option (tbl * list (list key)) :=
  match ss with
  | [] => Some (t, [])
  | s :: ss' =>
      match stmt_res pk all s t with
      | Err _ => None                      (* the statement fails: the local transaction does not commit (C02) *)
      | Ok t1 b a =>
          match run_tx pk all ss' t1 with
          | None => None
          | Some (t2, lks) => Some (t2, stmt_lock_keys s b a :: lks)
          end
      end
  end.

(* hypotheses of the per-statement exactness theorems, as a predicate on the statement and the table it meets *)
Definition stmt_wf (s : rstmt) (t : tbl) : Prop :=
  match s with
  | RUpd m _ _ => NoDup m /\ (forall k, In k m -> lookup k t <> None)
  | RDel _ => True
  | RIns krs listed last_id _ =>
      insert_supported listed (length krs) = true /\ map fst krs = assigned_keys listed last_id (length krs)
  end.

Fixpoint tx_wf (pk all : list nat) (ss : list rstmt) (t : tbl) : Prop :=
  match ss with
  | [] => True
  | s :: ss' => stmt_wf s t /\ match stmt_res pk all s t with Ok t1 _ _ => tx_wf pk all ss' t1 | Err _ => True end
  end.

(* ---- SELECT ... FOR UPDATE inside a global transaction (doExecContext + the conflict handling of ExecContext) ---- *)
Inductive sev :=
| SSavepoint
| SKeyQuery (ks : list key)              (* SELECT <pk> ... FOR UPDATE: local row locks taken *)
| SBusiness                              (* the user's query *)
| SLockQuery (ks : list key) (lockable : bool)
| SRollbackTo.                           (* releases the local row locks taken since the savepoint *)

Definition sfu (matched : list key) (lockable : bool) : list sev * option (list key) :=
  if lockable then ([SSavepoint; SKeyQuery matched; SBusiness; SLockQuery matched true], Some matched)
  else ([SSavepoint; SKeyQuery matched; SBusiness; SLockQuery matched false; SRollbackTo], None).

(* ---- the coordinator's lock table; a schedule of local commits ---- *)
Definition xid := N.
Definition locks := list (key * xid).

Fixpoint owner (k : key) (l : locks) : option xid :=
  match l with
  | [] => None
  | (k', x) :: l' => if key_eqb k k' then Some x else owner k l'
  end.

(* BranchRegister is granted iff no key is owned by another global transaction *)
Definition grantable (x : xid) (ks : list key) (l : locks) : bool :=
  forallb (fun k => match owner k l with Some y => N.eqb x y | None => true end) ks.

Definition acquire (x : xid) (ks : list key) (l : locks) : locks := map (fun k => (k, x)) ks ++ l.

Record item := { it_x : xid; it_keys : list key; it_written : list key }.

(* run the local commits in schedule order: a refused registration commits nothing (C02_failure) *)
Fixpoint run_sched (s : list item) (l : locks) (w : list (key * xid)) : locks * list (key * xid) :=
  match s with
  | [] => (l, w)
  | it :: s' =>
      if grantable (it_x it) (it_keys it) l
      then run_sched s' (acquire (it_x it) (it_keys it) l) (map (fun k => (k, it_x it)) (it_written it) ++ w)
      else run_sched s' l w
  end.

Definition covered_item (it : item) : bool :=
  forallb (fun k => existsb (key_eqb k) (it_keys it)) (it_written it).
