(* C11 — proofs about the worker model (At/Worker.v). *)
From Coq Require Import List NArith Bool Arith Lia.
From SeataV Require Import At.Worker.
Import ListNotations.

(* ------------------------------------------------------------------ basics *)
Lemma item_eqb_eq : forall a b, item_eqb a b = true <-> a = b.
Proof.
  intros [x1 b1 r1] [x2 b2 r2]; unfold item_eqb; simpl.
  rewrite !andb_true_iff, !N.eqb_eq. split.
  - intros [[-> ->] ->]; reflexivity.
  - intros H; inversion H; auto.
Qed.

Lemma item_eqb_refl : forall a, item_eqb a a = true.
Proof. intros; apply item_eqb_eq; reflexivity. Qed.

Lemma cnt_nil : forall it, cnt it [] = 0.
Proof. reflexivity. Qed.

Lemma cnt_app : forall it l1 l2, cnt it (l1 ++ l2) = cnt it l1 + cnt it l2.
Proof. intros; unfold cnt; rewrite filter_app, app_length; reflexivity. Qed.

Lemma cnt_cons : forall it x l, cnt it (x :: l) = (if item_eqb it x then 1 else 0) + cnt it l.
Proof. intros; unfold cnt; simpl; destruct (item_eqb it x); reflexivity. Qed.

Lemma cnt_pos_in : forall it l, 0 < cnt it l <-> In it l.
Proof.
  intros it l; induction l as [|x l IH].
  - simpl; split; [inversion 1|tauto].
  - rewrite cnt_cons; simpl. destruct (item_eqb it x) eqn:E.
    + apply item_eqb_eq in E; subst. split; [auto|lia].
    + split.
      * intros H; right; apply IH; lia.
      * intros [->|H]; [rewrite item_eqb_refl in E; discriminate|].
        apply IH in H; lia.
Qed.

Lemma cnt_zero_notin : forall it l, cnt it l = 0 <-> ~ In it l.
Proof.
  intros; rewrite <- cnt_pos_in; lia.
Qed.

Lemma cnt_concat_app : forall it (a b : list (list item)),
  cnt it (concat (a ++ b)) = cnt it (concat a) + cnt it (concat b).
Proof. intros; rewrite concat_app, cnt_app; reflexivity. Qed.

Lemma cnt_filter_split : forall it (p : item -> bool) l,
  cnt it (filter p l) + cnt it (filter (fun x => negb (p x)) l) = cnt it l.
Proof.
  intros it p l; induction l as [|x l IH]; [reflexivity|].
  simpl; destruct (p x); simpl; rewrite !cnt_cons; lia.
Qed.

Lemma in_rm : forall x it l, In x (rm it l) <-> In x l /\ x <> it.
Proof.
  intros; unfold rm; rewrite filter_In. split; intros [H1 H2]; split; auto.
  - intros ->; rewrite item_eqb_refl in H2; discriminate.
  - destruct (item_eqb it x) eqn:E; [apply item_eqb_eq in E; congruence|reflexivity].
Qed.

Lemma pick_spec : forall A n (l : list A) a y b, pick n l = Some (a, y, b) -> l = a ++ y :: b.
Proof.
  intros A n; induction n as [|n IH]; intros [|x l] a y b H; simpl in H; try discriminate.
  - inversion H; reflexivity.
  - destruct (pick n l) as [[[a' y'] b']|] eqn:E; [|discriminate].
    inversion H; subst. simpl; f_equal; apply IH; assumption.
Qed.

(* ------------------------------------------------------------------ grouping *)
Arguments cnt : simpl never.

Lemma cnt_ginsert : forall it x gs,
  cnt it (concat (ginsert x gs)) = cnt it (concat gs) + cnt it [x].
Proof.
  intros it x gs; induction gs as [|g gs IH].
  - cbn [ginsert concat]. rewrite app_nil_r; rewrite cnt_nil; lia.
  - destruct g as [|h g'].
    + cbn [ginsert]. rewrite !concat_cons, !cnt_app, IH; lia.
    + cbn [ginsert]. destruct (N.eqb (ir h) (ir x)).
      * rewrite !concat_cons, !cnt_app; lia.
      * rewrite !concat_cons, !cnt_app, IH; lia.
Qed.

Lemma cnt_group_acc : forall it l acc,
  cnt it (concat (fold_left (fun gs x => if valid x then ginsert x gs else gs) l acc))
  = cnt it (concat acc) + cnt it (filter valid l).
Proof.
  intros it l; induction l as [|x l IH]; intros acc.
  - cbn [fold_left filter]. rewrite cnt_nil; lia.
  - cbn [fold_left filter]. rewrite IH. destruct (valid x).
    + rewrite cnt_ginsert, (cnt_cons it x (filter valid l)), (cnt_cons it x []), cnt_nil; lia.
    + reflexivity.
Qed.

Lemma cnt_group : forall it l, cnt it (concat (group l)) = cnt it (filter valid l).
Proof. intros; unfold group; rewrite cnt_group_acc; reflexivity. Qed.

Lemma cnt_rotate : forall it n (gs : list (list item)),
  cnt it (concat (rotate n gs)) = cnt it (concat gs).
Proof.
  intros; unfold rotate. rewrite cnt_concat_app.
  rewrite <- (firstn_skipn n gs) at 3. rewrite cnt_concat_app; lia.
Qed.

Lemma jitems_groups : forall gs, jitems (map JGroup gs) = concat gs.
Proof. induction gs as [|g gs IH]; simpl; [reflexivity|]. unfold jitems in *; simpl; rewrite IH; reflexivity. Qed.

Lemma jitems_app : forall a b, jitems (a ++ b) = jitems a ++ jitems b.
Proof. intros; unfold jitems; apply flat_map_app. Qed.

Lemma jitems_deletes : forall its, jitems (map JDelete its) = its.
Proof. induction its as [|x l IH]; simpl; [reflexivity|]. unfold jitems in *; simpl; rewrite IH; reflexivity. Qed.

Lemma jitems_requeues : forall its, jitems (map JRequeue its) = its.
Proof. induction its as [|x l IH]; simpl; [reflexivity|]. unfold jitems in *; simpl; rewrite IH; reflexivity. Qed.

(* size of a started job: #groups + #items <= 2 * batch *)
Lemma len_ginsert : forall x gs,
  length (ginsert x gs) + length (concat (ginsert x gs)) <= length gs + length (concat gs) + 2.
Proof.
  intros x gs; induction gs as [|g gs IH]; simpl; [lia|].
  destruct g as [|h g'].
  - simpl; lia.
  - destruct (N.eqb (ir h) (ir x)); simpl; rewrite ?app_length in *; simpl; rewrite ?app_length; simpl; lia.
Qed.

Lemma len_group_acc : forall l acc,
  let gs := fold_left (fun gs x => if valid x then ginsert x gs else gs) l acc in
  length gs + length (concat gs) <= length acc + length (concat acc) + 2 * length l.
Proof.
  induction l as [|x l IH]; intros acc; simpl; [lia|].
  specialize (IH (if valid x then ginsert x acc else acc)); simpl in IH.
  destruct (valid x); [pose proof (len_ginsert x acc)|]; lia.
Qed.

Lemma len_group : forall l, length (group l) + length (concat (group l)) <= 2 * length l.
Proof. intros; pose proof (len_group_acc l []) as H; simpl in H; unfold group; lia. Qed.

Lemma sum_groups : forall gs, list_sum (map wt_task (map JGroup gs)) = length gs + length (concat gs).
Proof.
  induction gs as [|g gs IH]; simpl; [reflexivity|]. rewrite IH, app_length; lia.
Qed.

Lemma len_rotate : forall A n (l : list A), length (rotate n l) = length l.
Proof.
  intros; unfold rotate; rewrite app_length, Nat.add_comm, <- app_length, firstn_skipn; reflexivity.
Qed.

Lemma len_concat_rotate : forall n (gs : list (list item)),
  length (concat (rotate n gs)) = length (concat gs).
Proof.
  intros; unfold rotate. rewrite concat_app, app_length.
  rewrite <- (firstn_skipn n gs) at 3. rewrite concat_app, app_length; lia.
Qed.

(* ------------------------------------------------------------------ the invariant *)
Record inv (t0 : list item) (s : state) : Prop := mkInv {
  inv_count : forall it, cnt it (accepted s) = cnt it (deleted s) + cnt it (pend s) + cnt it (dropped s);
  inv_dropped : forall it, In it (dropped s) -> valid it = false;
  inv_gone : forall it, In it (deleted s) -> ~ In it (table s);
  inv_rows : forall row, In row t0 -> In row (table s) \/ In row (removed s);
  inv_sub : forall row, In row (table s) -> In row t0;
  inv_removed : forall row, In row (removed s) -> In row (deleted s);
  inv_answers : committed_of (answers s) = accepted s /\
                forall p, In p (answers s) -> snd p = st_committed \/ snd p = st_retryable
}.

Lemma cnt_pend : forall it s,
  cnt it (pend s) = cnt it (queue s) + cnt it (buf s) + cnt it (blk s)
                    + cnt it (concat (fan s)) + cnt it (flat_map jitems (flight s)).
Proof. intros; unfold pend; rewrite !cnt_app; lia. Qed.

Lemma cnt_flight_split : forall it a j b,
  cnt it (flat_map jitems (a ++ j :: b))
  = cnt it (flat_map jitems a) + cnt it (jitems j) + cnt it (flat_map jitems b).
Proof. intros; rewrite flat_map_app; cbn [flat_map]; rewrite !cnt_app; lia. Qed.

Lemma cnt_flight_app : forall it a b,
  cnt it (flat_map jitems (a ++ b)) = cnt it (flat_map jitems a) + cnt it (flat_map jitems b).
Proof. intros; rewrite flat_map_app, cnt_app; reflexivity. Qed.

Lemma cnt_jitems_cons : forall it t j, cnt it (jitems (t :: j)) = cnt it (titems t) + cnt it (jitems j).
Proof. intros; unfold jitems; cbn [flat_map]; rewrite cnt_app; reflexivity. Qed.

Lemma inv_init : forall t0 k0, inv t0 (init t0 k0).
Proof.
  intros; constructor; simpl; intros; try tauto; try reflexivity.
Qed.

Ltac proj := unfold blk; cbn [queue buf blocked fan flight table known accepted answers deleted removed dropped
                  set_flight set_run].

Lemma cnt_single : forall it x, cnt it [x] = if item_eqb it x then 1 else 0.
Proof. intros; rewrite cnt_cons, cnt_nil; lia. Qed.

Lemma cnt_titems_del : forall it x, cnt it (titems (JDelete x)) = cnt it [x].
Proof. reflexivity. Qed.
Lemma cnt_titems_req : forall it x, cnt it (titems (JRequeue x)) = cnt it [x].
Proof. reflexivity. Qed.
Lemma cnt_titems_grp : forall it x, cnt it (titems (JGroup x)) = cnt it x.
Proof. reflexivity. Qed.

Lemma inv_wstep : forall c t0 o a job b s,
  inv t0 s -> flight s = a ++ job :: b -> inv t0 (wstep c o a job b s).
Proof.
  intros c t0 o a job b s [I1 I2 T1 T2 T2' T3 A] F.
  assert (P : forall it, cnt it (pend s) = cnt it (queue s) + cnt it (buf s) + cnt it (blk s)
                    + cnt it (concat (fan s)) + (cnt it (flat_map jitems a) + cnt it (jitems job) + cnt it (flat_map jitems b))).
  { intros; rewrite cnt_pend, F, cnt_flight_split; reflexivity. }
  unfold wstep. destruct job as [|[its|x|x] rest].
  - (* idle again *)
    constructor; proj; auto. intros it; rewrite I1, P, cnt_pend; proj.
    rewrite cnt_flight_app. change (jitems []) with (@nil item); rewrite cnt_nil; lia.
  - (* group *)
    destruct (memN (gres its) (known s) && match o with ConnFail => false | _ => true end)%bool;
      constructor; proj; auto; intros it; rewrite I1, P, cnt_pend; proj;
      rewrite cnt_flight_split, cnt_jitems_cons, jitems_app, cnt_app, cnt_titems_grp;
      rewrite ?jitems_deletes, ?jitems_requeues; lia.
  - (* delete *)
    assert (Keep : inv t0 (set_flight (a ++ (JRequeue x :: rest) :: b) s)).
    { constructor; proj; auto; intros it; rewrite I1, P, cnt_pend; proj;
        rewrite cnt_flight_split, !cnt_jitems_cons, cnt_titems_del, cnt_titems_req; lia. }
    assert (Del : inv t0 (mkState (queue s) (buf s) (blocked s) (fan s) (a ++ rest :: b)
                     (rm x (table s)) (known s) (accepted s) (answers s)
                     (x :: deleted s) (filter (item_eqb x) (table s) ++ removed s) (dropped s))).
    { constructor; proj; auto.
      - intros it; rewrite I1, P, cnt_pend; proj.
        rewrite cnt_flight_split, !cnt_jitems_cons, cnt_titems_del, (cnt_cons it x (deleted s)), cnt_single; lia.
      - intros it [<-|H] Hin; apply in_rm in Hin; destruct Hin as [Hin Hne];
          [congruence | exact (T1 it H Hin)].
      - intros row Hr; destruct (T2 row Hr) as [H|H].
        + destruct (item_eqb x row) eqn:E.
          * right; apply in_or_app; left; apply filter_In; auto.
          * left; apply in_rm; split; auto; intros ->; rewrite item_eqb_refl in E; discriminate.
        + right; apply in_or_app; auto.
      - intros row Hr; apply in_rm in Hr; apply T2'; tauto.
      - intros row Hr; apply in_app_or in Hr; destruct Hr as [Hr|Hr].
        + apply filter_In in Hr; destruct Hr as [_ Hr]; apply item_eqb_eq in Hr; left; auto.
        + right; auto. }
    destruct o; assumption.
  - (* requeue *)
    destruct (room c s); [|constructor; auto].
    constructor; proj; auto. intros it; rewrite I1, P, cnt_pend; proj.
    rewrite cnt_flight_split, cnt_jitems_cons, cnt_app, cnt_titems_req; lia.
Qed.

Lemma inv_flush : forall t0 s, blocked s = None -> inv t0 s -> inv t0 (flush s).
Proof.
  intros t0 s B [I1 I2 T1 T2 T2' T3 A]. unfold flush. destruct (buf s) as [|x l] eqn:E.
  - constructor; auto.
  - constructor; proj; auto. intros it; rewrite I1, !cnt_pend; proj. rewrite B, E, !cnt_nil; lia.
Qed.

Lemma inv_step : forall c t0 e s, inv t0 s -> inv t0 (step c e s).
Proof.
  intros c t0 e s I. destruct e as [it|it| | | |rot|w o|r]; cbn [step].
  - (* Accept *)
    destruct (room c s); [|assumption]. destruct I as [I1 I2 T1 T2 T2' T3 A].
    constructor; proj; auto.
    + intros x; rewrite !cnt_pend; proj. rewrite !cnt_app, I1, cnt_pend; proj; lia.
    + destruct A as [A1 A2]. split.
      * unfold committed_of in *. rewrite filter_app, map_app, A1. reflexivity.
      * intros p Hp. apply in_app_or in Hp. destruct Hp as [Hp|[<-|[]]]; [auto|left; reflexivity].
  - (* Refuse *)
    destruct I as [I1 I2 T1 T2 T2' T3 A]. constructor; proj; auto.
    destruct A as [A1 A2]. split.
    + unfold committed_of in *. rewrite filter_app, map_app, A1. cbn. apply app_nil_r.
    + intros p Hp. apply in_app_or in Hp. destruct Hp as [Hp|[<-|[]]]; [auto|right; reflexivity].
  - (* Recv *)
    destruct (blocked s) eqn:B; [assumption|]. destruct (queue s) as [|it q] eqn:Q; [assumption|].
    assert (I' : inv t0 (set_run q (buf s ++ [it]) None s)).
    { destruct I as [I1 I2 T1 T2 T2' T3 A]. constructor; proj; auto.
      intros x; rewrite I1, !cnt_pend; proj. rewrite B, Q, cnt_cons, cnt_app, cnt_single; lia. }
    destruct (threshold c <=? length (buf (set_run q (buf s ++ [it]) None s))); [|assumption].
    apply inv_flush; [reflexivity|assumption].
  - (* Tick *)
    destruct (blocked s) eqn:B; [assumption|]. apply inv_flush; assumption.
  - (* Submit *)
    destruct (blocked s) as [b|] eqn:B; [|assumption].
    destruct (length (fan s) + length (flight s) <? fcap c + nwork c); [|assumption].
    destruct I as [I1 I2 T1 T2 T2' T3 A]. constructor; proj; auto.
    intros x; rewrite I1, !cnt_pend; proj. rewrite B, cnt_concat_app; cbn [concat].
    rewrite app_nil_r, cnt_nil; lia.
  - (* Start *)
    destruct (fan s) as [|b f'] eqn:F; [assumption|].
    destruct (length (flight s) <? nwork c); [|assumption].
    destruct I as [I1 I2 T1 T2 T2' T3 A]. constructor; proj; auto.
    + intros x; rewrite I1, !cnt_pend; proj. rewrite F, concat_cons, !cnt_app, cnt_flight_app.
      cbn [flat_map]. rewrite app_nil_r, jitems_groups, cnt_rotate, cnt_group.
      pose proof (cnt_filter_split x valid b). lia.
    + intros x Hx; apply in_app_or in Hx; destruct Hx as [Hx|Hx]; [|auto].
      apply filter_In in Hx; destruct Hx as [_ Hx]; destruct (valid x); [discriminate|reflexivity].
  - (* WStep *)
    destruct (pick w (flight s)) as [[[a job] b]|] eqn:P; [|assumption].
    apply inv_wstep; [assumption|]. eapply pick_spec; eassumption.
  - (* Appear *)
    destruct I as [I1 I2 T1 T2 T2' T3 A]. constructor; proj; auto.
Qed.

Lemma inv_run : forall c t0 evs s, inv t0 s -> inv t0 (run c evs s).
Proof.
  intros c t0 evs; induction evs as [|e evs IH]; intros s I; [assumption|].
  cbn [run fold_left]. apply IH, inv_step, I.
Qed.

Lemma inv_reach : forall c t0 k0 evs, inv t0 (run c evs (init t0 k0)).
Proof. intros; apply inv_run, inv_init. Qed.

(* ------------------------------------------------------------------ safety theorems *)
Theorem answer_committed : forall c t0 k0 evs,
  let s := run c evs (init t0 k0) in
  committed_of (answers s) = accepted s /\
  forall p, In p (answers s) -> snd p = st_committed \/ snd p = st_retryable.
Proof. intros; apply (inv_answers t0), inv_reach. Qed.

Lemma deleted_accepted : forall t0 s it, inv t0 s -> In it (deleted s) -> In it (accepted s).
Proof.
  intros t0 s it I H. apply cnt_pos_in. apply cnt_pos_in in H.
  rewrite (inv_count _ _ I). lia.
Qed.

Lemma pend_accepted : forall t0 s it, inv t0 s -> In it (pend s) -> In it (accepted s).
Proof.
  intros t0 s it I H. apply cnt_pos_in. apply cnt_pos_in in H.
  rewrite (inv_count _ _ I). lia.
Qed.

Theorem precise : forall c t0 k0 evs row,
  let s := run c evs (init t0 k0) in
  (In row (removed s) -> In row (accepted s)) /\
  (In row t0 -> ~ In row (table s) -> In row (accepted s)) /\
  (In row (table s) -> In row t0).
Proof.
  intros c t0 k0 evs row s. pose proof (inv_reach c t0 k0 evs) as I. fold s in I.
  repeat split.
  - intros H. eapply deleted_accepted; [eassumption|]. apply (inv_removed _ _ I), H.
  - intros H N. destruct (inv_rows _ _ I row H) as [H1|H1]; [tauto|].
    eapply deleted_accepted; [eassumption|]. apply (inv_removed _ _ I), H1.
  - apply (inv_sub _ _ I).
Qed.

Theorem no_loss : forall c t0 k0 evs,
  let s := run c evs (init t0 k0) in
  (forall it, cnt it (accepted s) = cnt it (deleted s) + cnt it (pend s) + cnt it (dropped s)) /\
  (forall it, In it (dropped s) -> valid it = false) /\
  (forall it, In it (deleted s) -> ~ In it (table s)).
Proof.
  intros c t0 k0 evs s. pose proof (inv_reach c t0 k0 evs) as I. fold s in I.
  destruct I; auto.
Qed.

(* a valid accepted item is, at every moment, either still in the worker or its rows are gone *)
Corollary no_loss_valid : forall c t0 k0 evs it,
  let s := run c evs (init t0 k0) in
  In it (accepted s) -> valid it = true -> In it (pend s) \/ ~ In it (table s).
Proof.
  intros c t0 k0 evs it s Ha Hv. pose proof (inv_reach c t0 k0 evs) as I. fold s in I.
  destruct (Nat.eq_dec (cnt it (pend s)) 0) as [Z|NZ].
  - right. apply (inv_gone _ _ I). apply cnt_pos_in. apply cnt_pos_in in Ha.
    rewrite (inv_count _ _ I) in Ha.
    assert (cnt it (dropped s) = 0).
    { apply cnt_zero_notin. intros D. apply (inv_dropped _ _ I) in D. congruence. }
    lia.
  - left. apply cnt_pos_in; lia.
Qed.

(* ------------------------------------------------------------------ liveness: the fault-free scheduler drains *)
Definition all_known (s : state) : Prop :=
  forall it, In it (pend s) -> memN (ir it) (known s) = true.

Definition drainable (c : cfg) (s : state) : Prop :=
  1 <= nwork c /\ length (pend s) <= qcap c /\ all_known s.

Lemma len_pend : forall s,
  length (pend s) = length (queue s) + length (buf s) + length (blk s)
                    + length (concat (fan s)) + length (flat_map jitems (flight s)).
Proof. intros; unfold pend; rewrite !app_length; lia. Qed.

Lemma in_pend : forall it s,
  In it (pend s) <-> In it (queue s) \/ In it (buf s) \/ In it (blk s)
                     \/ In it (concat (fan s)) \/ In it (flat_map jitems (flight s)).
Proof. intros; unfold pend; rewrite !in_app_iff; tauto. Qed.

Lemma sum_deletes : forall its, list_sum (map wt_task (map JDelete its)) = length its.
Proof. induction its as [|x l IH]; simpl; [reflexivity|]. rewrite IH; reflexivity. Qed.

Lemma len_concat_ginsert : forall x gs, length (concat (ginsert x gs)) = length (concat gs) + 1.
Proof.
  intros x gs; induction gs as [|g gs IH]; [reflexivity|].
  destruct g as [|h g']; cbn [ginsert].
  - rewrite !concat_cons, !app_length, IH; lia.
  - destruct (N.eqb (ir h) (ir x)); rewrite !concat_cons, !app_length, ?IH; simpl; lia.
Qed.

Lemma len_concat_group_acc : forall l acc,
  length (concat (fold_left (fun gs x => if valid x then ginsert x gs else gs) l acc))
  <= length (concat acc) + length l.
Proof.
  induction l as [|x l IH]; intros acc; cbn [fold_left]; [simpl; lia|].
  specialize (IH (if valid x then ginsert x acc else acc)).
  destruct (valid x); [rewrite len_concat_ginsert in IH|]; simpl; lia.
Qed.

Lemma len_concat_group : forall l, length (concat (group l)) <= length l.
Proof. intros; pose proof (len_concat_group_acc l []); simpl in *; assumption. Qed.

Lemma in_group : forall it n l, In it (concat (rotate n (group l))) -> In it l.
Proof.
  intros it n l H. apply cnt_pos_in in H. rewrite cnt_rotate, cnt_group in H.
  apply cnt_pos_in in H. apply filter_In in H; tauto.
Qed.

Lemma wt_buf_snoc : forall l x, wt_buf (l ++ [x]) = 4 + 2 * length (l ++ [x]).
Proof. intros [|y l] x; reflexivity. Qed.

Lemma wt_buf_le : forall l, wt_buf l <= 4 + 2 * length l.
Proof. intros [|y l]; simpl; lia. Qed.

Lemma wt_buf_snoc_le : forall l x, wt_buf (l ++ [x]) <= wt_buf l + 6.
Proof. intros [|y l] x; simpl; rewrite ?app_length; simpl; lia. Qed.

Lemma flush_nonempty : forall s, buf s <> [] -> flush s = set_run (queue s) [] (Some (buf s)) s.
Proof. intros s H; unfold flush; destruct (buf s); [congruence|reflexivity]. Qed.

Definition progress (c : cfg) (s s' : state) : Prop :=
  work s' < work s /\ length (pend s') <= length (pend s)
  /\ (forall it, In it (pend s') -> In it (pend s)) /\ known s' = known s
  /\ accepted s' = accepted s.

Lemma list_sum_cons : forall x l, list_sum (x :: l) = x + list_sum l.
Proof. reflexivity. Qed.
Ltac lsum := rewrite ?list_sum_cons; change (list_sum (@nil nat)) with 0.

Lemma sched_progress : forall c s e,
  drainable c s -> sched s = Some e -> progress c s (step c e s).
Proof.
  intros c s e (W & L & K) S. unfold sched in S. unfold progress.
  destruct (flight s) as [|j fl] eqn:F.
  2:{ (* a worker has something to do *)
    inversion S; subst e; clear S. cbn [step]. rewrite F. cbn [pick]. unfold wstep.
    destruct j as [|[its|x|x] rest].
    - cbn [app]. unfold work. rewrite !len_pend. proj. rewrite F. cbn [map flat_map]. lsum.
      change (jitems []) with (@nil item). unfold wt_job. cbn [app map]. lsum.
      repeat split; try lia. intros it; rewrite !in_pend; proj; rewrite F; cbn [flat_map].
      change (jitems []) with (@nil item); cbn [app]; tauto.
    - assert (G : (memN (gres its) (known s) && true)%bool = true \/ its = []).
      { destruct its as [|h its']; [right; reflexivity|left]. rewrite andb_true_r. apply K.
        apply in_pend; right; right; right; right. rewrite F; cbn [flat_map jitems titems].
        apply in_or_app; left. cbn [flat_map titems]. apply in_or_app; left; left; reflexivity. }
      assert (Same : forall j', jitems j' = jitems (JGroup its :: rest) ->
                list_sum (map wt_task j') < list_sum (map wt_task (JGroup its :: rest)) ->
                let s' := set_flight ([] ++ j' :: fl) s in
                work s' < work s /\ length (pend s') <= length (pend s)
                /\ (forall it, In it (pend s') -> In it (pend s)) /\ known s' = known s
                /\ accepted s' = accepted s).
      { intros j' Ej Wj s'. unfold s', work. rewrite !len_pend. proj. rewrite F. cbn [app map flat_map]. lsum.
        rewrite Ej. unfold wt_job. repeat split; try lia.
        intros it; rewrite !in_pend; proj; rewrite F; cbn [app flat_map]; rewrite Ej; tauto. }
      destruct G as [G| ->].
      + rewrite G. apply Same.
        * rewrite jitems_app, jitems_deletes. reflexivity.
        * rewrite map_app, list_sum_app, sum_deletes. change (map wt_task (JGroup its :: rest)) with (wt_task (JGroup its) :: map wt_task rest). lsum. cbn [wt_task]. lia.
      + destruct (memN (gres []) (known s) && true)%bool; apply Same; try reflexivity;
          cbn [map app]; lsum; cbn [wt_task length]; lia.
    - (* delete succeeds *)
      unfold work. rewrite !len_pend. proj. rewrite F. cbn [app map flat_map]. lsum.
      unfold wt_job. cbn [map wt_task]. lsum. rewrite !app_length.
      change (jitems (JDelete x :: rest)) with ([x] ++ jitems rest). rewrite app_length. cbn [length].
      repeat split; try lia.
      intros it; rewrite !in_pend; proj; rewrite F; cbn [app flat_map].
      change (jitems (JDelete x :: rest)) with ([x] ++ jitems rest). rewrite !in_app_iff. tauto.
    - (* requeue: there is room *)
      assert (R : room c s = true).
      { unfold room. apply Nat.ltb_lt. rewrite len_pend, F in L. cbn [flat_map] in L.
        change (jitems (JRequeue x :: rest)) with ([x] ++ jitems rest) in L.
        rewrite !app_length in L. cbn [length] in L. lia. }
      rewrite R. unfold work. rewrite !len_pend. proj. rewrite F. cbn [app map flat_map]. lsum.
      unfold wt_job. cbn [map wt_task]. lsum. rewrite !app_length.
      change (jitems (JRequeue x :: rest)) with ([x] ++ jitems rest). rewrite !app_length. cbn [length].
      repeat split; try lia.
      intros it; rewrite !in_pend; proj; rewrite F; cbn [app flat_map].
      change (jitems (JRequeue x :: rest)) with ([x] ++ jitems rest). rewrite !in_app_iff. tauto. }
  destruct (fan s) as [|b f'] eqn:FA.
  2:{ (* an idle worker takes a batch *)
    inversion S; subst e; clear S. cbn [step]. rewrite FA, F. cbn [length].
    assert (Hw : (0 <? nwork c) = true) by (apply Nat.ltb_lt; lia). rewrite Hw.
    unfold work. rewrite !len_pend. proj. rewrite FA, F. cbn [app map flat_map]. lsum.
    rewrite app_nil_r, jitems_groups, concat_cons, app_length, len_concat_rotate.
    unfold wt_job, wt_batch. rewrite sum_groups, len_rotate, len_concat_rotate.
    pose proof (len_group b). pose proof (len_concat_group b).
    repeat split; try lia.
    intros it; rewrite !in_pend; proj; rewrite FA, F; cbn [app flat_map].
    rewrite app_nil_r, jitems_groups, concat_cons, in_app_iff.
    intros [H1|[H1|[H1|[H1|H1]]]]; [auto|auto|auto|right;right;right;left;right;exact H1|right;right;right;left;left; eapply in_group; exact H1]. }
  destruct (blocked s) as [b|] eqn:B.
  { (* the batch goes into the (empty) fanout channel *)
    inversion S; subst e; clear S. cbn [step]. rewrite B, FA, F. cbn [length].
    assert (Hw : (0 + 0 <? fcap c + nwork c) = true) by (apply Nat.ltb_lt; lia). rewrite Hw.
    unfold work. rewrite !len_pend. proj. rewrite B, FA, F. cbn [app map flat_map concat wt_blocked]. lsum.
    unfold wt_batch. rewrite app_nil_r. cbn [length]. repeat split; try lia.
    intros it; rewrite !in_pend; proj; rewrite B, FA, F; cbn [app flat_map concat]; rewrite app_nil_r; tauto. }
  destruct (queue s) as [|x q] eqn:Q.
  2:{ (* run receives *)
    inversion S; subst e; clear S. cbn [step]. rewrite B, Q.
    assert (NE : buf s ++ [x] <> []) by (destruct (buf s); discriminate).
    proj.
    destruct (threshold c <=? length (buf s ++ [x])).
    - rewrite flush_nonempty by (proj; exact NE). proj.
      unfold work. rewrite !len_pend. proj. rewrite B, Q, FA, F.
      cbn [map wt_blocked wt_buf length flat_map concat app]. lsum.
      assert (2 * length (buf s) <= wt_buf (buf s)) by (destruct (buf s); simpl; lia). rewrite !app_length. cbn [length].
      repeat split; try lia.
      intros it; rewrite !in_pend; proj; rewrite B, Q, FA, F. rewrite in_app_iff. simpl. tauto.
    - unfold work. rewrite !len_pend. proj. rewrite B, Q, FA, F.
      cbn [map wt_blocked length flat_map concat app]. lsum.
      pose proof (wt_buf_snoc_le (buf s) x). rewrite !app_length. cbn [length].
      repeat split; try lia.
      intros it; rewrite !in_pend; proj; rewrite B, Q, FA, F. rewrite in_app_iff. simpl. tauto. }
  destruct (buf s) as [|x l] eqn:BU; [discriminate|].
  (* the ticker fires *)
  inversion S; subst e; clear S. cbn [step]. rewrite B. unfold flush. rewrite BU.
  unfold work. rewrite !len_pend. proj. rewrite B, Q, BU, FA, F.
  cbn [map wt_blocked wt_buf length flat_map concat app]. lsum.
  repeat split; try lia.
  intros it; rewrite !in_pend; proj; rewrite B, Q, BU, FA, F. simpl. tauto.
Qed.

Lemma sched_none : forall s, sched s = None -> pend s = [].
Proof.
  intros s H. unfold sched in H.
  destruct (flight s) eqn:F; [|discriminate]. destruct (fan s) eqn:FA; [|discriminate].
  destruct (blocked s) eqn:B; [discriminate|]. destruct (queue s) eqn:Q; [|discriminate].
  destruct (buf s) eqn:BU; [|discriminate].
  unfold pend, blk. rewrite F, FA, B, Q, BU. reflexivity.
Qed.

Lemma drainable_step : forall c s e,
  drainable c s -> sched s = Some e -> drainable c (step c e s).
Proof.
  intros c s e D S. destruct (sched_progress c s e D S) as (_ & L & I & K & _).
  destruct D as (W & L0 & K0). repeat split; [assumption|lia|].
  intros it H. rewrite K. apply K0, I, H.
Qed.

Lemma drain_done : forall c n s, drainable c s -> work s <= n -> pend (drain c n s) = [].
Proof.
  intros c n; induction n as [|n IH]; intros s D Wk; cbn [drain].
  - destruct (sched s) as [e|] eqn:S; [|apply sched_none, S].
    destruct (sched_progress c s e D S) as (Lt & _). lia.
  - destruct (sched s) as [e|] eqn:S; [|apply sched_none, S].
    apply IH; [eapply drainable_step; eassumption|].
    destruct (sched_progress c s e D S) as (Lt & _). lia.
Qed.

Lemma drain_is_run : forall c n s, drain c n s = run c (drain_evs c n s) s.
Proof.
  intros c n; induction n as [|n IH]; intros s; cbn [drain drain_evs]; [reflexivity|].
  destruct (sched s) as [e|]; [|reflexivity]. cbn [run fold_left]. apply IH.
Qed.

Lemma drain_evs_fault_free : forall c n s e, In e (drain_evs c n s) ->
  e = WStep 0 Ok \/ e = Start 0 \/ e = Submit \/ e = Recv \/ e = Tick.
Proof.
  intros c n; induction n as [|n IH]; intros s e H; cbn [drain_evs] in H; [destruct H|].
  destruct (sched s) as [e0|] eqn:S; [|destruct H].
  destruct H as [<-|H]; [|eapply IH; eassumption].
  unfold sched in S.
  destruct (flight s); [|inversion S; auto]. destruct (fan s); [|inversion S; auto].
  destruct (blocked s); [inversion S; auto|]. destruct (queue s); [|inversion S; auto].
  destruct (buf s); [discriminate|inversion S; auto].
Qed.

Lemma drain_accepted : forall c n s, drainable c s -> accepted (drain c n s) = accepted s.
Proof.
  intros c n; induction n as [|n IH]; intros s D; cbn [drain]; [reflexivity|].
  destruct (sched s) as [e|] eqn:S; [|reflexivity].
  rewrite IH by (eapply drainable_step; eassumption).
  destruct (sched_progress c s e D S) as (_ & _ & _ & _ & A). exact A.
Qed.

Lemma run_app : forall c e1 e2 s, run c (e1 ++ e2) s = run c e2 (run c e1 s).
Proof. intros; unfold run; apply fold_left_app. Qed.

(* C11_eventual: from every reachable state in which the items still in the worker fit the
   receive queue and address registered resources, [work s] fault-free scheduler steps empty the
   worker, and then no accepted (non-empty-resource) request has a row left. *)
Theorem eventual : forall c t0 k0 evs,
  let s := run c evs (init t0 k0) in
  drainable c s ->
  let s' := drain c (work s) s in
  s' = run c (evs ++ drain_evs c (work s) s) (init t0 k0) /\
  pend s' = [] /\ accepted s' = accepted s /\
  (forall it, In it (accepted s) -> valid it = true -> ~ In it (table s')).
Proof.
  intros c t0 k0 evs s D s'.
  assert (E : s' = run c (evs ++ drain_evs c (work s) s) (init t0 k0)).
  { unfold s'. rewrite drain_is_run, run_app. reflexivity. }
  assert (P : pend s' = []) by (apply drain_done; [assumption|lia]).
  assert (A : accepted s' = accepted s) by (apply drain_accepted; assumption).
  repeat split; try assumption.
  intros it Ha Hv.
  pose proof (no_loss_valid c t0 k0 (evs ++ drain_evs c (work s) s) it) as NL.
  cbn zeta in NL. rewrite <- E in NL. rewrite A, P in NL.
  destruct (NL Ha Hv) as [[]|H]; exact H.
Qed.

(* the capacity hypothesis holds in particular whenever the queue is at least as large as the
   number of requests ever accepted *)
Lemma pend_le_accepted : forall c t0 k0 evs,
  let s := run c evs (init t0 k0) in length (pend s) <= length (accepted s).
Proof.
  intros c t0 k0 evs s. pose proof (inv_reach c t0 k0 evs) as I. fold s in I.
  assert (G : forall l1 l2 : list item, (forall it, cnt it l1 <= cnt it l2) -> length l1 <= length l2).
  { induction l1 as [|x l1 IH]; intros l2 H; [simpl; lia|].
    assert (In x l2) by (apply cnt_pos_in; specialize (H x); rewrite cnt_cons, item_eqb_refl in H; lia).
    apply in_split in H0. destruct H0 as (a & b & ->).
    rewrite app_length. cbn [length]. specialize (IH (a ++ b)). rewrite app_length in IH.
    enough (length l1 <= length a + length b) by lia. apply IH.
    intros it. specialize (H it). rewrite cnt_cons, !cnt_app, cnt_cons in H. rewrite cnt_app. lia. }
  apply G. intros it. rewrite (inv_count _ _ I). lia.
Qed.

Corollary eventual_big_queue : forall c t0 k0 evs,
  let s := run c evs (init t0 k0) in
  1 <= nwork c -> length (accepted s) <= qcap c -> all_known s ->
  let s' := drain c (work s) s in
  pend s' = [] /\ (forall it, In it (accepted s) -> valid it = true -> ~ In it (table s')).
Proof.
  intros c t0 k0 evs s W Q K s'.
  assert (D : drainable c s).
  { repeat split; try assumption. pose proof (pend_le_accepted c t0 k0 evs) as H. cbn zeta in H. unfold s in *. lia. }
  destruct (eventual c t0 k0 evs D) as (_ & P & _ & T). split; assumption.
Qed.

(* ------------------------------------------------------------------ without the capacity hypothesis: circular wait *)
Module Stuck.
  Definition c0 := mkCfg 1 1 0 1.
  Definition a := mkItem 1 1 1.
  Definition b := mkItem 2 1 1.
  Definition d := mkItem 3 1 1.
  Definition t0 := [a; b; d].
  Definition evs0 := [Accept a; Recv; Submit; Start 0; WStep 0 Ok; Accept b; Recv; Accept d].
  Definition stuck (k : list N) (ans : list (item * N)) : state :=
    mkState [d] [] (Some [b]) [] [[JRequeue a]] t0 k [a; b; d] ans [] [] [].

  Lemma reach : run c0 evs0 (init t0 []) =
                stuck [] [(a, st_committed); (b, st_committed); (d, st_committed)].
  Proof. vm_compute. reflexivity. Qed.

  Lemma stuck_step : forall e k ans, exists k' ans', step c0 e (stuck k ans) = stuck k' ans'.
  Proof.
    intros e k ans. destruct e as [it|it| | | |rot|w o|r]; try (exists k, ans; reflexivity).
    - exists k, (ans ++ [(it, st_retryable)]); reflexivity.
    - destruct w as [|[|w]]; [destruct o; exists k, ans; reflexivity|exists k, ans; reflexivity|exists k, ans; reflexivity].
    - exists (r :: k), ans; reflexivity.
  Qed.

  Lemma stuck_run : forall evs k ans, exists k' ans', run c0 evs (stuck k ans) = stuck k' ans'.
  Proof.
    induction evs as [|e evs IH]; intros k ans; [exists k, ans; reflexivity|].
    cbn [run fold_left]. destruct (stuck_step e k ans) as (k1 & a1 & ->). apply IH.
  Qed.
End Stuck.

(* for queue size 1, one worker and an unbuffered fan-out there is a reachable state from which
   NO continuation whatsoever (any events, any outcomes, the resource appearing) ever deletes the
   rows of three requests that were all answered Committed: run waits in commitWorker.Do for the
   worker, the worker waits in `aw.commitQueue <- ctx` for run. *)
Theorem circular_wait_small_buffers :
  exists c t0 evs0, forall evs,
    let s := run c (evs0 ++ evs) (init t0 []) in
    length (accepted s) = 3 /\
    committed_of (answers s) = accepted s /\
    (forall it, In it (accepted s) -> In it (table s) /\ In it (pend s)).
Proof.
  exists Stuck.c0, Stuck.t0, Stuck.evs0. intros evs s.
  split; [|split; [apply (answer_committed Stuck.c0 Stuck.t0 [] (Stuck.evs0 ++ evs))|]];
    unfold s; rewrite run_app, Stuck.reach;
    destruct (Stuck.stuck_run evs [] [(Stuck.a, st_committed); (Stuck.b, st_committed); (Stuck.d, st_committed)]) as (k & ans & ->).
  - reflexivity.
  - simpl; intuition (subst; auto).
Qed.

(* ------------------------------------------------------------------ a concrete run used by the non-vacuity examples of Props/P_C11.v *)
Definition nv_cfg := mkCfg 8 3 1 2.
Definition nv_a := mkItem 1 7 1.      (* xid 1, branch 7, resource 1 *)
Definition nv_b := mkItem 2 7 1.      (* same branch id under another xid: never committed *)
Definition nv_c := mkItem 1 8 2.      (* same xid, another branch, another resource *)
Definition nv_evs :=
  [Accept nv_a; Accept nv_c; Recv; Recv; Submit; Start 1;
   WStep 0 ConnFail; WStep 0 Ok; WStep 0 Ok; WStep 0 DelFail].
Definition nv_s := run nv_cfg nv_evs (init [nv_a; nv_b; nv_c] [1%N; 2%N]).

