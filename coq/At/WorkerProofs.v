(* C11 — proofs about the worker model (At/Worker.v). *)
From Coq Require Import List NArith Bool Arith Lia.
From SeataV Require Import At.Worker.
Import ListNotations.

(* ------------------------------------------------------------------ basics *)
Lemma item_eqb_eq : forall a b, item_eqb a b = true <-> a = b.
Proof.
  intros [x1 b1 r1] [x2 b2 r2]; unfold item_eqb; simpl.
  rewrite !andb_true_iff, !N.eqb_eq. split.
  - intros [[-> ->] ->]; reflexivity.
  - intros H; inversion H; auto.
Qed.

Lemma item_eqb_refl : forall a, item_eqb a a = true.
Proof. intros; apply item_eqb_eq; reflexivity. Qed.

Lemma cnt_nil : forall it, cnt it [] = 0.
Proof. reflexivity. Qed.

Lemma cnt_app : forall it l1 l2, cnt it (l1 ++ l2) = cnt it l1 + cnt it l2.
Proof. intros; unfold cnt; rewrite filter_app, app_length; reflexivity. Qed.

Lemma cnt_cons : forall it x l, cnt it (x :: l) = (if item_eqb it x then 1 else 0) + cnt it l.
Proof. intros; unfold cnt; simpl; destruct (item_eqb it x); reflexivity. Qed.

Lemma cnt_pos_in : forall it l, 0 < cnt it l <-> In it l.
Proof.
  intros it l; induction l as [|x l IH].
  - simpl; split; [inversion 1|tauto].
  - rewrite cnt_cons; simpl. destruct (item_eqb it x) eqn:E.
    + apply item_eqb_eq in E; subst. split; [auto|lia].
    + split.
      * intros H; right; apply IH; lia.
      * intros [->|H]; [rewrite item_eqb_refl in E; discriminate|].
        apply IH in H; lia.
Qed.

Lemma cnt_zero_notin : forall it l, cnt it l = 0 <-> ~ In it l.
Proof.
  intros; rewrite <- cnt_pos_in; lia.
Qed.

Lemma cnt_concat_app : forall it (a b : list (list item)),
  cnt it (concat (a ++ b)) = cnt it (concat a) + cnt it (concat b).
Proof. intros; rewrite concat_app, cnt_app; reflexivity. Qed.

Lemma cnt_filter_split : forall it (p : item -> bool) l,
  cnt it (filter p l) + cnt it (filter (fun x => negb (p x)) l) = cnt it l.
Proof.
  intros it p l; induction l as [|x l IH]; [reflexivity|].
  simpl; destruct (p x); simpl; rewrite !cnt_cons; lia.
Qed.

Lemma in_rm : forall x it l, In x (rm it l) <-> In x l /\ x <> it.
Proof.
  intros; unfold rm; rewrite filter_In. split; intros [H1 H2]; split; auto.
  - intros ->; rewrite item_eqb_refl in H2; discriminate.
  - destruct (item_eqb it x) eqn:E; [apply item_eqb_eq in E; congruence|reflexivity].
Qed.

Lemma pick_spec : forall A n (l : list A) a y b, pick n l = Some (a, y, b) -> l = a ++ y :: b.
Proof.
  intros A n; induction n as [|n IH]; intros [|x l] a y b H; simpl in H; try discriminate.
  - inversion H; reflexivity.
  - destruct (pick n l) as [[[a' y'] b']|] eqn:E; [|discriminate].
    inversion H; subst. simpl; f_equal; apply IH; assumption.
Qed.

(* ------------------------------------------------------------------ grouping *)
Arguments cnt : simpl never.

Lemma cnt_ginsert : forall it x gs,
  cnt it (concat (ginsert x gs)) = cnt it (concat gs) + cnt it [x].
Proof.
  intros it x gs; induction gs as [|g gs IH].
  - cbn [ginsert concat]. rewrite app_nil_r; rewrite cnt_nil; lia.
  - destruct g as [|h g'].
    + cbn [ginsert]. rewrite !concat_cons, !cnt_app, IH; lia.
    + cbn [ginsert]. destruct (N.eqb (ir h) (ir x)).
      * rewrite !concat_cons, !cnt_app; lia.
      * rewrite !concat_cons, !cnt_app, IH; lia.
Qed.

Lemma cnt_group_acc : forall it l acc,
  cnt it (concat (fold_left (fun gs x => if valid x then ginsert x gs else gs) l acc))
  = cnt it (concat acc) + cnt it (filter valid l).
Proof.
  intros it l; induction l as [|x l IH]; intros acc.
  - cbn [fold_left filter]. rewrite cnt_nil; lia.
  - cbn [fold_left filter]. rewrite IH. destruct (valid x).
    + rewrite cnt_ginsert, (cnt_cons it x (filter valid l)), (cnt_cons it x []), cnt_nil; lia.
    + reflexivity.
Qed.

Lemma cnt_group : forall it l, cnt it (concat (group l)) = cnt it (filter valid l).
Proof. intros; unfold group; rewrite cnt_group_acc; reflexivity. Qed.

Lemma cnt_rotate : forall it n (gs : list (list item)),
  cnt it (concat (rotate n gs)) = cnt it (concat gs).
Proof.
  intros; unfold rotate. rewrite cnt_concat_app.
  rewrite <- (firstn_skipn n gs) at 3. rewrite cnt_concat_app; lia.
Qed.

Lemma jitems_groups : forall gs, jitems (map JGroup gs) = concat gs.
Proof. induction gs as [|g gs IH]; simpl; [reflexivity|]. unfold jitems in *; simpl; rewrite IH; reflexivity. Qed.

Lemma jitems_app : forall a b, jitems (a ++ b) = jitems a ++ jitems b.
Proof. intros; unfold jitems; apply flat_map_app. Qed.

Lemma jitems_deletes : forall its, jitems (map JDelete its) = its.
Proof. induction its as [|x l IH]; simpl; [reflexivity|]. unfold jitems in *; simpl; rewrite IH; reflexivity. Qed.

Lemma jitems_requeues : forall its, jitems (map JRequeue its) = its.
Proof. induction its as [|x l IH]; simpl; [reflexivity|]. unfold jitems in *; simpl; rewrite IH; reflexivity. Qed.

(* size of a started job: #groups + #items <= 2 * batch *)
Lemma len_ginsert : forall x gs,
  length (ginsert x gs) + length (concat (ginsert x gs)) <= length gs + length (concat gs) + 2.
Proof.
  intros x gs; induction gs as [|g gs IH]; simpl; [lia|].
  destruct g as [|h g'].
  - simpl; lia.
  - destruct (N.eqb (ir h) (ir x)); simpl; rewrite ?app_length in *; simpl; rewrite ?app_length; simpl; lia.
Qed.

Lemma len_group_acc : forall l acc,
  let gs := fold_left (fun gs x => if valid x then ginsert x gs else gs) l acc in
  length gs + length (concat gs) <= length acc + length (concat acc) + 2 * length l.
Proof.
  induction l as [|x l IH]; intros acc; simpl; [lia|].
  specialize (IH (if valid x then ginsert x acc else acc)); simpl in IH.
  destruct (valid x); [pose proof (len_ginsert x acc)|]; lia.
Qed.

Lemma len_group : forall l, length (group l) + length (concat (group l)) <= 2 * length l.
Proof. intros; pose proof (len_group_acc l []) as H; simpl in H; unfold group; lia. Qed.

Lemma sum_groups : forall gs, list_sum (map wt_task (map JGroup gs)) = length gs + length (concat gs).
Proof.
  induction gs as [|g gs IH]; simpl; [reflexivity|]. rewrite IH, app_length; lia.
Qed.

Lemma len_rotate : forall A n (l : list A), length (rotate n l) = length l.
Proof.
  intros; unfold rotate; rewrite app_length, Nat.add_comm, <- app_length, firstn_skipn; reflexivity.
Qed.

Lemma len_concat_rotate : forall n (gs : list (list item)),
  length (concat (rotate n gs)) = length (concat gs).
Proof.
  intros; unfold rotate. rewrite concat_app, app_length.
  rewrite <- (firstn_skipn n gs) at 3. rewrite concat_app, app_length; lia.
Qed.

(* ------------------------------------------------------------------ the invariant *)
Record inv (t0 : list item) (s : state) : Prop := mkInv {
  inv_count : forall it, cnt it (accepted s) = cnt it (deleted s) + cnt it (pend s) + cnt it (dropped s);
  inv_dropped : forall it, In it (dropped s) -> valid it = false;
  inv_gone : forall it, In it (deleted s) -> ~ In it (table s);
  inv_rows : forall row, In row t0 -> In row (table s) \/ In row (removed s);
  inv_sub : forall row, In row (table s) -> In row t0;
  inv_removed : forall row, In row (removed s) -> In row (deleted s);
  inv_answers : answers s = map (fun it => (it, st_committed)) (accepted s)
}.

Lemma cnt_pend : forall it s,
  cnt it (pend s) = cnt it (queue s) + cnt it (buf s) + cnt it (blk s)
                    + cnt it (concat (fan s)) + cnt it (flat_map jitems (flight s)).
Proof. intros; unfold pend; rewrite !cnt_app; lia. Qed.

Lemma cnt_flight_split : forall it a j b,
  cnt it (flat_map jitems (a ++ j :: b))
  = cnt it (flat_map jitems a) + cnt it (jitems j) + cnt it (flat_map jitems b).
Proof. intros; rewrite flat_map_app; cbn [flat_map]; rewrite !cnt_app; lia. Qed.

Lemma cnt_flight_app : forall it a b,
  cnt it (flat_map jitems (a ++ b)) = cnt it (flat_map jitems a) + cnt it (flat_map jitems b).
Proof. intros; rewrite flat_map_app, cnt_app; reflexivity. Qed.

Lemma cnt_jitems_cons : forall it t j, cnt it (jitems (t :: j)) = cnt it (titems t) + cnt it (jitems j).
Proof. intros; unfold jitems; cbn [flat_map]; rewrite cnt_app; reflexivity. Qed.

Lemma inv_init : forall t0 k0, inv t0 (init t0 k0).
Proof.
  intros; constructor; simpl; intros; try tauto; try reflexivity.
Qed.

Ltac proj := unfold blk; cbn [queue buf blocked fan flight table known accepted answers deleted removed dropped
                  set_flight set_run].

Lemma cnt_single : forall it x, cnt it [x] = if item_eqb it x then 1 else 0.
Proof. intros; rewrite cnt_cons, cnt_nil; lia. Qed.

Lemma cnt_titems_del : forall it x, cnt it (titems (JDelete x)) = cnt it [x].
Proof. reflexivity. Qed.
Lemma cnt_titems_req : forall it x, cnt it (titems (JRequeue x)) = cnt it [x].
Proof. reflexivity. Qed.
Lemma cnt_titems_grp : forall it x, cnt it (titems (JGroup x)) = cnt it x.
Proof. reflexivity. Qed.

Lemma inv_wstep : forall c t0 o a job b s,
  inv t0 s -> flight s = a ++ job :: b -> inv t0 (wstep c o a job b s).
Proof.
  intros c t0 o a job b s [I1 I2 T1 T2 T2' T3 A] F.
  assert (P : forall it, cnt it (pend s) = cnt it (queue s) + cnt it (buf s) + cnt it (blk s)
                    + cnt it (concat (fan s)) + (cnt it (flat_map jitems a) + cnt it (jitems job) + cnt it (flat_map jitems b))).
  { intros; rewrite cnt_pend, F, cnt_flight_split; reflexivity. }
  unfold wstep. destruct job as [|[its|x|x] rest].
  - (* idle again *)
    constructor; proj; auto. intros it; rewrite I1, P, cnt_pend; proj.
    rewrite cnt_flight_app. change (jitems []) with (@nil item); rewrite cnt_nil; lia.
  - (* group *)
    destruct (memN (gres its) (known s) && match o with ConnFail => false | _ => true end)%bool;
      constructor; proj; auto; intros it; rewrite I1, P, cnt_pend; proj;
      rewrite cnt_flight_split, cnt_jitems_cons, jitems_app, cnt_app, cnt_titems_grp;
      rewrite ?jitems_deletes, ?jitems_requeues; lia.
  - (* delete *)
    assert (Keep : inv t0 (set_flight (a ++ (JRequeue x :: rest) :: b) s)).
    { constructor; proj; auto; intros it; rewrite I1, P, cnt_pend; proj;
        rewrite cnt_flight_split, !cnt_jitems_cons, cnt_titems_del, cnt_titems_req; lia. }
    assert (Del : inv t0 (mkState (queue s) (buf s) (blocked s) (fan s) (a ++ rest :: b)
                     (rm x (table s)) (known s) (accepted s) (answers s)
                     (x :: deleted s) (filter (item_eqb x) (table s) ++ removed s) (dropped s))).
    { constructor; proj; auto.
      - intros it; rewrite I1, P, cnt_pend; proj.
        rewrite cnt_flight_split, !cnt_jitems_cons, cnt_titems_del, (cnt_cons it x (deleted s)), cnt_single; lia.
      - intros it [<-|H] Hin; apply in_rm in Hin; destruct Hin as [Hin Hne];
          [congruence | exact (T1 it H Hin)].
      - intros row Hr; destruct (T2 row Hr) as [H|H].
        + destruct (item_eqb x row) eqn:E.
          * right; apply in_or_app; left; apply filter_In; auto.
          * left; apply in_rm; split; auto; intros ->; rewrite item_eqb_refl in E; discriminate.
        + right; apply in_or_app; auto.
      - intros row Hr; apply in_rm in Hr; apply T2'; tauto.
      - intros row Hr; apply in_app_or in Hr; destruct Hr as [Hr|Hr].
        + apply filter_In in Hr; destruct Hr as [_ Hr]; apply item_eqb_eq in Hr; left; auto.
        + right; auto. }
    destruct o; assumption.
  - (* requeue *)
    destruct (room c s); [|constructor; auto].
    constructor; proj; auto. intros it; rewrite I1, P, cnt_pend; proj.
    rewrite cnt_flight_split, cnt_jitems_cons, cnt_app, cnt_titems_req; lia.
Qed.

Lemma inv_flush : forall t0 s, blocked s = None -> inv t0 s -> inv t0 (flush s).
Proof.
  intros t0 s B [I1 I2 T1 T2 T2' T3 A]. unfold flush. destruct (buf s) as [|x l] eqn:E.
  - constructor; auto.
  - constructor; proj; auto. intros it; rewrite I1, !cnt_pend; proj. rewrite B, E, !cnt_nil; lia.
Qed.

Lemma inv_step : forall c t0 e s, inv t0 s -> inv t0 (step c e s).
Proof.
  intros c t0 e s I. destruct e as [it| | | |rot|w o|r]; cbn [step].
  - (* Accept *)
    destruct (room c s); [|assumption]. destruct I as [I1 I2 T1 T2 T2' T3 A].
    constructor; proj; auto.
    + intros x; rewrite !cnt_pend; proj. rewrite !cnt_app, I1, cnt_pend; proj; lia.
    + rewrite A, map_app; reflexivity.
  - (* Recv *)
    destruct (blocked s) eqn:B; [assumption|]. destruct (queue s) as [|it q] eqn:Q; [assumption|].
    assert (I' : inv t0 (set_run q (buf s ++ [it]) None s)).
    { destruct I as [I1 I2 T1 T2 T2' T3 A]. constructor; proj; auto.
      intros x; rewrite I1, !cnt_pend; proj. rewrite B, Q, cnt_cons, cnt_app, cnt_single; lia. }
    destruct (threshold c <=? length (buf (set_run q (buf s ++ [it]) None s))); [|assumption].
    apply inv_flush; [reflexivity|assumption].
  - (* Tick *)
    destruct (blocked s) eqn:B; [assumption|]. apply inv_flush; assumption.
  - (* Submit *)
    destruct (blocked s) as [b|] eqn:B; [|assumption].
    destruct (length (fan s) + length (flight s) <? fcap c + nwork c); [|assumption].
    destruct I as [I1 I2 T1 T2 T2' T3 A]. constructor; proj; auto.
    intros x; rewrite I1, !cnt_pend; proj. rewrite B, cnt_concat_app; cbn [concat].
    rewrite app_nil_r, cnt_nil; lia.
  - (* Start *)
    destruct (fan s) as [|b f'] eqn:F; [assumption|].
    destruct (length (flight s) <? nwork c); [|assumption].
    destruct I as [I1 I2 T1 T2 T2' T3 A]. constructor; proj; auto.
    + intros x; rewrite I1, !cnt_pend; proj. rewrite F, concat_cons, !cnt_app, cnt_flight_app.
      cbn [flat_map]. rewrite app_nil_r, jitems_groups, cnt_rotate, cnt_group.
      pose proof (cnt_filter_split x valid b). lia.
    + intros x Hx; apply in_app_or in Hx; destruct Hx as [Hx|Hx]; [|auto].
      apply filter_In in Hx; destruct Hx as [_ Hx]; destruct (valid x); [discriminate|reflexivity].
  - (* WStep *)
    destruct (pick w (flight s)) as [[[a job] b]|] eqn:P; [|assumption].
    apply inv_wstep; [assumption|]. eapply pick_spec; eassumption.
  - (* Appear *)
    destruct I as [I1 I2 T1 T2 T2' T3 A]. constructor; proj; auto.
Qed.

Lemma inv_run : forall c t0 evs s, inv t0 s -> inv t0 (run c evs s).
Proof.
  intros c t0 evs; induction evs as [|e evs IH]; intros s I; [assumption|].
  cbn [run fold_left]. apply IH, inv_step, I.
Qed.

Lemma inv_reach : forall c t0 k0 evs, inv t0 (run c evs (init t0 k0)).
Proof. intros; apply inv_run, inv_init. Qed.

(* ------------------------------------------------------------------ safety theorems *)
Theorem answer_committed : forall c t0 k0 evs,
  let s := run c evs (init t0 k0) in
  answers s = map (fun it => (it, st_committed)) (accepted s).
Proof. intros; apply (inv_answers t0), inv_reach. Qed.

Lemma deleted_accepted : forall t0 s it, inv t0 s -> In it (deleted s) -> In it (accepted s).
Proof.
  intros t0 s it I H. apply cnt_pos_in. apply cnt_pos_in in H.
  rewrite (inv_count _ _ I). lia.
Qed.

Lemma pend_accepted : forall t0 s it, inv t0 s -> In it (pend s) -> In it (accepted s).
Proof.
  intros t0 s it I H. apply cnt_pos_in. apply cnt_pos_in in H.
  rewrite (inv_count _ _ I). lia.
Qed.

Theorem precise : forall c t0 k0 evs row,
  let s := run c evs (init t0 k0) in
  (In row (removed s) -> In row (accepted s)) /\
  (In row t0 -> ~ In row (table s) -> In row (accepted s)) /\
  (In row (table s) -> In row t0).
Proof.
  intros c t0 k0 evs row s. pose proof (inv_reach c t0 k0 evs) as I. fold s in I.
  repeat split.
  - intros H. eapply deleted_accepted; [eassumption|]. apply (inv_removed _ _ I), H.
  - intros H N. destruct (inv_rows _ _ I row H) as [H1|H1]; [tauto|].
    eapply deleted_accepted; [eassumption|]. apply (inv_removed _ _ I), H1.
  - apply (inv_sub _ _ I).
Qed.

Theorem no_loss : forall c t0 k0 evs,
  let s := run c evs (init t0 k0) in
  (forall it, cnt it (accepted s) = cnt it (deleted s) + cnt it (pend s) + cnt it (dropped s)) /\
  (forall it, In it (dropped s) -> valid it = false) /\
  (forall it, In it (deleted s) -> ~ In it (table s)).
Proof.
  intros c t0 k0 evs s. pose proof (inv_reach c t0 k0 evs) as I. fold s in I.
  destruct I; auto.
Qed.

(* a valid accepted item is, at every moment, either still in the worker or its rows are gone *)
Corollary no_loss_valid : forall c t0 k0 evs it,
  let s := run c evs (init t0 k0) in
  In it (accepted s) -> valid it = true -> In it (pend s) \/ ~ In it (table s).
Proof.
  intros c t0 k0 evs it s Ha Hv. pose proof (inv_reach c t0 k0 evs) as I. fold s in I.
  destruct (Nat.eq_dec (cnt it (pend s)) 0) as [Z|NZ].
  - right. apply (inv_gone _ _ I). apply cnt_pos_in. apply cnt_pos_in in Ha.
    rewrite (inv_count _ _ I) in Ha.
    assert (cnt it (dropped s) = 0).
    { apply cnt_zero_notin. intros D. apply (inv_dropped _ _ I) in D. congruence. }
    lia.
  - left. apply cnt_pos_in; lia.
Qed.
