(* Differential tie fakedb <-> Tx.step: a case is a schema, the initial rows and
   a sequential schedule of operations of 2-3 connections with, per operation,
   what the bare fakedb answered, its COMMITTED rows, its AUTO_INCREMENT counter
   and the row locks it holds afterwards.  The model runs the same schedule and is
   compared after every operation; the first disagreement (or a statement the
   model does not cover) ends the case.  No proofs here. *)
From Coq Require Import List NArith ZArith Bool.
From SeataV Require Import Base.Bytes At.Db At.Stmt At.StmtCases At.Tx.
Import ListNotations.
Local Open Scope Z_scope.

Record tstep := {
  t_conn : nat;
  t_op : option op;             (* None: the translator does not cover the statement *)
  t_obs : observed;             (* control operations: ObsMod 0 0 *)
  t_dump : list row;            (* committed rows *)
  t_auto : Z;
  t_locks : list key            (* all row locks held, any order *)
}.

Record tcase := {
  tc_schema : schema;
  tc_init : list row;
  tc_auto : Z;
  tc_steps : list tstep
}.

Definition keys_subset (a b : list key) : bool :=
  forallb (fun k => existsb (key_eqb k) b) a.

(* kinds as in StmtCases (1 outcome class, 2 error number, 3 affected, 4 last id,
   5 result rows, 6 committed rows, 7 counter), 9 lock sets differ,
   14 translator skip, 15 not modelled *)
Definition check_tstep (sch : schema) (d : dbst) (s : tstep) : dbst * list N :=
  match t_op s with
  | None => (d, [14%N])
  | Some o =>
    let '(d', out) := step sch d (t_conn s) o in
    match out with
    | Fail EUnsup => (d', [15%N])
    | _ =>
      let e := match out, t_obs s with
               | OkRows rows, ObsRows obs =>
                   if list_all2 (list_all2 oval_matches) obs rows then [] else [5%N]
               | OkMod a l, ObsMod a' l' =>
                   (if a =? a' then [] else [3%N]) ++ (if l =? l' then [] else [4%N])
               | Fail (EErr n), ObsErr n' => if (n =? n')%N then [] else [2%N]
               | _, _ => [1%N]
               end in
      (d', e ++ (if rows_eqb (map snd (d_rows d')) (t_dump s) then [] else [6%N])
             ++ (if d_auto d' =? t_auto s then [] else [7%N])
             ++ (if keys_subset (all_locks d') (t_locks s) && keys_subset (t_locks s) (all_locks d')
                 then [] else [9%N]))
    end
  end.

Fixpoint run_tsteps (sch : schema) (d : dbst) (i : N) (l : list tstep) : list N :=
  match l with
  | [] => []
  | s :: l' =>
      let '(d', e) := check_tstep sch d s in
      match e with
      | [] => run_tsteps sch d' (i + 1)%N l'
      | _ => map (fun c => (i * 16 + c)%N) e
      end
  end.

Definition check_tcase (c : tcase) : list N :=
  run_tsteps (tc_schema c)
             {| d_rows := load (tc_schema c) (tc_init c); d_auto := tc_auto c; d_txs := [] |}
             1%N (tc_steps c).

Definition tmismatches (cs : list tcase) : list (nat * N) :=
  flat_map (fun ic => map (fun c => (fst ic, c)) (check_tcase (snd ic))) (number O cs).
