(* The transaction and lock layer of harness/fakedb (server.go, special.go,
   exec.go stmtTx) as a multi-connection model over Stmt.exec_l:
   committed rows + per connection an open transaction = write overlay over
   the committed rows (READ COMMITTED: every statement sees the latest
   committed rows plus its own transaction's writes), the row locks it holds
   in acquisition order, and its savepoint stack.  A lock conflict is an
   immediate 1205 and the statement changes nothing; a failing statement keeps
   the locks it took; COMMIT / ROLLBACK release everything; ROLLBACK TO
   releases the locks taken after the savepoint.  Definitions only. *)
From Coq Require Import List NArith ZArith Bool.
From SeataV Require Import Base.Bytes At.Db At.Stmt.
Import ListNotations.
Local Open Scope Z_scope.

Definition E_NOSAVEPOINT : N := 1305%N.

(* ---- write overlay: newest entry first; None = deleted ---- *)
Definition overlay := list (key * option row).

Definition apply_entry (e : key * option row) (t : tbl) : tbl :=
  match snd e with
  | Some r => put (fst e) r (remove (fst e) t)
  | None => remove (fst e) t
  end.

(* what the transaction sees: the committed rows with its writes on top *)
Definition apply_ov (ov : overlay) (t : tbl) : tbl := fold_right apply_entry t ov.

Definition opt_row_eqb (a b : option row) : bool :=
  match a, b with
  | Some x, Some y => row_eqb x y
  | None, None => true
  | _, _ => false
  end.

(* the bindings in which v' differs from v *)
Definition diff_ov (v v' : tbl) : overlay :=
  map (fun k => (k, lookup k v'))
      (filter (fun k => negb (opt_row_eqb (lookup k v) (lookup k v'))) (keys v ++ keys v')).

(* ---- transactions ---- *)
Record savept := { sp_name : bytes; sp_ov : overlay; sp_nlocks : nat }.

Record txst := {
  x_ov : overlay;
  x_locks : list key;          (* acquisition order, no duplicates *)
  x_saves : list savept        (* newest first *)
}.

Definition tx_empty : txst := {| x_ov := []; x_locks := []; x_saves := [] |}.

Record dbst := {
  d_rows : tbl;                (* committed *)
  d_auto : Z;                  (* AUTO_INCREMENT counter: not transactional *)
  d_txs : list (nat * txst)    (* open transactions by connection *)
}.

Fixpoint tx_get (c : nat) (l : list (nat * txst)) : option txst :=
  match l with
  | [] => None
  | (c', x) :: l' => if Nat.eqb c c' then Some x else tx_get c l'
  end.

Fixpoint tx_del (c : nat) (l : list (nat * txst)) : list (nat * txst) :=
  match l with
  | [] => []
  | (c', x) :: l' => if Nat.eqb c c' then tx_del c l' else (c', x) :: tx_del c l'
  end.

Definition tx_set (c : nat) (x : txst) (l : list (nat * txst)) : list (nat * txst) :=
  (c, x) :: tx_del c l.

Definition holds (x : txst) (k : key) : bool := existsb (key_eqb k) (x_locks x).

(* k is locked by a transaction of another connection *)
Definition others_hold (txs : list (nat * txst)) (c : nat) (k : key) : bool :=
  existsb (fun cx => negb (Nat.eqb (fst cx) c) && holds (snd cx) k) txs.

(* taking a lock one already has is a no-op *)
Definition add_locks (own new : list key) : list key :=
  fold_left (fun acc k => if existsb (key_eqb k) acc then acc else acc ++ [k]) new own.

(* ---- operations of one connection ---- *)
Inductive op :=
| OBegin
| OCommit
| ORollback
| OStmt (s : stmt) (args : list value)
| OSave (name : bytes)
| ORollbackTo (name : bytes)
| ORelease (name : bytes)
| OClose.                       (* the connection goes away (or dies) *)

Definition ok_out : outcome := OkMod 0 0.

Definition with_txs (d : dbst) (txs : list (nat * txst)) : dbst :=
  {| d_rows := d_rows d; d_auto := d_auto d; d_txs := txs |}.

(* COMMIT: the overlay goes into the committed rows, the locks go *)
Definition commit_conn (d : dbst) (c : nat) : dbst :=
  match tx_get c (d_txs d) with
  | None => d
  | Some x => {| d_rows := apply_ov (x_ov x) (d_rows d); d_auto := d_auto d;
                 d_txs := tx_del c (d_txs d) |}
  end.

(* ROLLBACK / the connection closes: overlay and locks are dropped *)
Definition rollback_conn (d : dbst) (c : nat) : dbst := with_txs d (tx_del c (d_txs d)).

(* the rows connection c sees *)
Definition view (d : dbst) (c : nat) : tbl :=
  match tx_get c (d_txs d) with
  | Some x => apply_ov (x_ov x) (d_rows d)
  | None => d_rows d
  end.

Definition run_stmt (sch : schema) (d : dbst) (c : nat) (s : stmt) (args : list value) : dbst * outcome :=
  let r := exec_l (others_hold (d_txs d) c) sch {| ts_rows := view d c; ts_auto := d_auto d |} s args in
  let v' := ts_rows (r_state r) in
  let a' := ts_auto (r_state r) in
  match tx_get c (d_txs d) with
  | Some x =>
      let x' := {| x_ov := diff_ov (view d c) v' ++ x_ov x;
                   x_locks := add_locks (x_locks x) (r_locks r);
                   x_saves := x_saves x |} in
      ({| d_rows := d_rows d; d_auto := a'; d_txs := tx_set c x' (d_txs d) |}, r_out r)
  | None =>
      (* autocommit: a statement-long transaction; its locks are gone at once *)
      ({| d_rows := v'; d_auto := a'; d_txs := d_txs d |}, r_out r)
  end.

(* the newest savepoint of that name and what is older *)
Fixpoint find_save (n : bytes) (l : list savept) : option (savept * list savept) :=
  match l with
  | [] => None
  | sp :: l' => if bytes_eqb n (sp_name sp) then Some (sp, l') else find_save n l'
  end.

Definition step (sch : schema) (d : dbst) (c : nat) (o : op) : dbst * outcome :=
  match o with
  | OBegin =>
      (* BEGIN inside a transaction commits it first *)
      let d1 := commit_conn d c in
      (with_txs d1 (tx_set c tx_empty (d_txs d1)), ok_out)
  | OCommit => (commit_conn d c, ok_out)
  | ORollback => (rollback_conn d c, ok_out)
  | OClose => (rollback_conn d c, ok_out)
  | OStmt s args => run_stmt sch d c s args
  | OSave n =>
      match tx_get c (d_txs d) with
      | None => (d, ok_out)      (* autocommit: the savepoint vanishes at once *)
      | Some x =>
          let kept := filter (fun sp => negb (bytes_eqb n (sp_name sp))) (x_saves x) in
          let sp := {| sp_name := n; sp_ov := x_ov x; sp_nlocks := length (x_locks x) |} in
          (with_txs d (tx_set c {| x_ov := x_ov x; x_locks := x_locks x; x_saves := sp :: kept |}
                              (d_txs d)), ok_out)
      end
  | ORollbackTo n =>
      match tx_get c (d_txs d) with
      | None => (d, Fail (EErr E_NOSAVEPOINT))
      | Some x =>
          match find_save n (x_saves x) with
          | None => (d, Fail (EErr E_NOSAVEPOINT))
          | Some (sp, older) =>
              (with_txs d (tx_set c {| x_ov := sp_ov sp; x_locks := firstn (sp_nlocks sp) (x_locks x);
                                       x_saves := sp :: older |} (d_txs d)), ok_out)
          end
      end
  | ORelease n =>
      match tx_get c (d_txs d) with
      | None => (d, Fail (EErr E_NOSAVEPOINT))
      | Some x =>
          match find_save n (x_saves x) with
          | None => (d, Fail (EErr E_NOSAVEPOINT))
          | Some (_, older) =>
              (with_txs d (tx_set c {| x_ov := x_ov x; x_locks := x_locks x; x_saves := older |}
                                  (d_txs d)), ok_out)
          end
      end
  end.

(* a schedule: operations tagged with the connection that issues them *)
Fixpoint run (sch : schema) (d : dbst) (l : list (nat * op)) : dbst :=
  match l with
  | [] => d
  | (c, o) :: l' => run sch (fst (step sch d c o)) l'
  end.

Definition all_locks (d : dbst) : list key := flat_map (fun cx => x_locks (snd cx)) (d_txs d).
