(* C18/C03 kernel: what the AT executors record for one statement, at row level.
   A statement is given by the rows it matched (keys, in scan order) and what it
   does to them; `at_update`, `at_delete`, `at_insert` follow update_executor.go,
   delete_executor.go, insert_executor.go step by step over values:
     before image  = SELECT <tracked columns> ... WHERE <same where> FOR UPDATE   = the matched rows as of before
     business statement                                                           = row-by-row, unique key checked per row (MySQL)
     after image   = SELECT <tracked columns> ... WHERE (pk) IN (<before keys>)   = lookups by the before image's keys
     update: len(before) <> len(after) => error ("probably because you updated the primary keys")
   Definitions only; proofs in ImageProofs.v. *)
From Coq Require Import List NArith ZArith Bool.
From SeataV Require Import Base.Bytes At.Db.
Import ListNotations.

Definition proj (cols : list nat) (r : row) : row := map (fun i => nth i r VNull) cols.
Definition key_of (pk : list nat) (r : row) : key := proj pk r.

Fixpoint mem_nat (x : nat) (l : list nat) : bool :=
  match l with [] => false | y :: l' => Nat.eqb x y || mem_nat x l' end.

(* tracked columns, canonical (ascending, once each):
   only-care-update-columns with a column list: the listed columns plus the primary key; else every column *)
Definition tracked (only_care : bool) (ncols : nat) (pk cols : list nat) : list nat :=
  match only_care, cols with
  | true, _ :: _ => filter (fun i => mem_nat i cols || mem_nat i pk) (seq 0 ncols)
  | _, _ => seq 0 ncols
  end.

Definition image := list (key * row).

(* rows found for a list of keys, in key-list order, projected *)
Definition img_of (trk : list nat) (t : tbl) (ks : list key) : image :=
  flat_map (fun k => match lookup k t with Some r => [(k, proj trk r)] | None => [] end) ks.

Inductive err := EDupKey | EPkChanged | ERecover.
Inductive res := Ok (t' : tbl) (before after : image) | Err (e : err).

(* the UPDATE itself: matched rows in scan order, each replaced by u(row); a row whose key changes moves,
   and moving onto an existing key is error 1062 *)
Fixpoint apply_upd (pk : list nat) (u : row -> row) (m : list key) (t : tbl) : option tbl :=
  match m with
  | [] => Some t
  | k :: m' =>
      match lookup k t with
      | None => apply_upd pk u m' t
      | Some r =>
          let r' := u r in
          let k' := key_of pk r' in
          if key_eqb k' k then apply_upd pk u m' (insert k r' t)
          else if mem k' t then None
          else apply_upd pk u m' (insert k' r' (remove k t))
      end
  end.

Definition at_update (pk trk : list nat) (m : list key) (u : row -> row) (t : tbl) : res :=
  let before := img_of trk t m in
  match apply_upd pk u m t with
  | None => Err EDupKey
  | Some t' =>
      let after := img_of trk t' (map fst before) in
      if Nat.eqb (length after) (length before) then Ok t' before after else Err EPkChanged
  end.

Fixpoint remove_all (m : list key) (t : tbl) : tbl :=
  match m with [] => t | k :: m' => remove_all m' (remove k t) end.

(* DELETE: before image = all columns of the matched rows; after image empty *)
Definition at_delete (all : list nat) (m : list key) (t : tbl) : res :=
  Ok (remove_all m t) (img_of all t m) [].

(* INSERT: the rows as the database stored them (key assigned by the database) *)
Fixpoint insert_rows (krs : list (key * row)) (t : tbl) : option tbl :=
  match krs with
  | [] => Some t
  | (k, r) :: krs' => if mem k t then None else insert_rows krs' (insert k r t)
  end.

(* a listed key value of NULL or 0 in an AUTO_INCREMENT column means "generate" *)
Definition valid_key_value (v : value) : bool :=
  match v with VNull => false | VInt 0 => false | _ => true end.

(* generated keys of one statement, ids = (LastInsertId, auto_increment_increment): LastInsertId is the first,
   the others follow with the step the session's SHOW VARIABLES answers (autoGeneratePks) *)
Fixpoint gen_keys (ids : Z * Z) (n : nat) : list key :=
  match n with O => [] | S n' => [VInt (fst ids)] :: gen_keys ((fst ids + snd ids)%Z, snd ids) n' end.

Definition all_explicit (ks : list key) : bool := forallb (forallb valid_key_value) ks.
Definition all_generated (ks : list key) : bool :=
  forallb (fun k => match k with [v] => negb (valid_key_value v) | _ => false end) ks.

(* key recovery (insert_executor.go getPkValues, after the repairs):
   key columns listed with explicit values: those values, one key per VALUES row;
   single key column listed with NULL / 0 in every row, or omitted: LastInsertId, LastInsertId + 1, ... one per row;
   explicit and generated values mixed in one statement: refused *)
Definition recover (listed : option (list key)) (last_id : Z * Z) (nrows : nat) : option (list key) :=
  match listed with
  | Some ks =>
      if all_explicit ks then Some ks
      else if all_generated ks then Some (gen_keys last_id (length ks))
      else None
  | None => Some (gen_keys last_id nrows)
  end.

Definition at_insert (trk : list nat) (krs : list (key * row)) (listed : option (list key)) (last_id : Z * Z) (t : tbl) : res :=
  match insert_rows krs t with
  | None => Err EDupKey
  | Some t' =>
      match recover listed last_id (length krs) with
      | None => Err ERecover
      | Some ks => Ok t' [] (img_of trk t' ks)
      end
  end.

(* INSERT into a table WITHOUT an AUTO_INCREMENT column: every listed key value, 0 included, is an ordinary value and is
   the key of its row; the key columns cannot be omitted *)
Definition at_insert_plain (trk : list nat) (krs : list (key * row)) (listed : option (list key)) (t : tbl) : res :=
  match insert_rows krs t with
  | None => Err EDupKey
  | Some t' =>
      match listed with
      | None => Err ERecover
      | Some ks => Ok t' [] (img_of trk t' ks)
      end
  end.

(* INSERT ... ON DUPLICATE KEY UPDATE (insert_on_update_executor.go): m = keys of the existing rows that collide with
   a VALUES row on some unique key (the before-image query: one arm per unique index and VALUES row), u = the ON
   DUPLICATE KEY UPDATE assignments, krs = the rows that do not collide and are inserted.  Both images carry all
   columns; after image = before-image arms OR (pk = before-image keys), i.e. the colliding rows by key and the new rows.
   Assigning a primary-key column is refused up front (checkDuplicateKeyUpdate): assigns_pk. *)
Definition at_upsert (pk all : list nat) (assigns_pk : bool) (m : list key) (u : row -> row) (krs : list (key * row)) (t : tbl) : res :=
  if assigns_pk then Err EPkChanged
  else
    match apply_upd pk u m t with
    | None => Err EDupKey
    | Some t1 =>
        match insert_rows krs t1 with
        | None => Err EDupKey
        | Some t2 =>
            let before := img_of all t m in
            Ok t2 before (img_of all t2 (map fst before ++ map fst krs))
        end
    end.

(* what the database does with the key column of an INSERT: a listed value that is not NULL/0 is taken,
   NULL / 0 / an omitted column get consecutive generated values starting at LastInsertId *)
Definition assigned_keys (listed : option (list key)) (last_id : Z * Z) (nrows : nat) : list key :=
  match listed with
  | Some ks => if all_explicit ks then ks else gen_keys last_id (length ks)
  | None => gen_keys last_id nrows
  end.

(* the statements whose keys are identified: everything but a mix of explicit and generated values (and generated
   values of a composite key) *)
Definition insert_supported (listed : option (list key)) (nrows : nat) : bool :=
  match listed with
  | Some ks => (all_explicit ks || all_generated ks) && Nat.eqb (length ks) nrows
  | None => true
  end.

(* ---- the primary-key argument index arithmetic of parsePkValuesFromStatement (after the repair):
   rows of VALUES as lists of cells, true = placeholder.  idx = totalPlaceholderNum - currentRowPlaceholderNum
   + pkIndex - (non-placeholders before pkIndex), both counters starting at -1 and the row's placeholders being
   added before the key is looked at. *)
Definition count_true (l : list bool) : Z := Z.of_nat (length (filter (fun b => b) l)).
Definition count_false (l : list bool) : Z := Z.of_nat (length (filter negb l)).

Fixpoint go_pk_idx_from (total : Z) (rows : list (list bool)) (pkidx : nat) : list (option Z) :=
  match rows with
  | [] => []
  | row :: rows' =>
      let total' := (total + count_true row)%Z in
      let current := (-1 + count_true row)%Z in
      (if nth pkidx row false
       then Some (total' - current + Z.of_nat pkidx - count_false (firstn pkidx row))%Z
       else None) :: go_pk_idx_from total' rows' pkidx
  end.
Definition go_pk_idx (rows : list (list bool)) (pkidx : nat) : list (option Z) := go_pk_idx_from (-1) rows pkidx.

(* specification: the number of placeholders that precede the cell in row-major (textual) order *)
Fixpoint spec_pk_idx_from (before : Z) (rows : list (list bool)) (pkidx : nat) : list (option Z) :=
  match rows with
  | [] => []
  | row :: rows' =>
      (if nth pkidx row false then Some (before + count_true (firstn pkidx row))%Z else None)
        :: spec_pk_idx_from (before + count_true row)%Z rows' pkidx
  end.
Definition spec_pk_idx (rows : list (list bool)) (pkidx : nat) : list (option Z) := spec_pk_idx_from 0 rows pkidx.
