(* C11 — executable model of the AT phase-two commit worker
   (pkg/datasource/sql/async_worker.go, at_resource_manager.go BranchCommit,
   pkg/util/fanout/fanout.go, undo/base/undo.go BatchDeleteUndoLog as the worker calls it:
   one DELETE per (xid, branch) pair).  Definitions only; proofs are in WorkerProofs.v.

   Channels are modelled as they are: bounded, every send blocks.
     commitQueue  : [queue], capacity [qcap] (+1 while [run] sits in its select: rendezvous)
     run's slice  : [buf]; flushed by the ticker or at len >= BufferLimit*2/3
     fanout.Do    : [blocked] = the batch [run] is trying to hand over (it does nothing else meanwhile)
     fanout chan  : [fan], capacity [fcap] (+ one per idle worker: rendezvous)
     fanout procs : [flight], at most [nwork] jobs; a job is the list of what is left to do
   An event that is not enabled in a state leaves the state unchanged (the goroutine waits). *)
From Coq Require Import List NArith Bool Arith.
Import ListNotations.

Record item := mkItem { ix : N; ib : N; ir : N }.   (* xid, branch id, resource id; ir = 0 is "" *)

Definition item_eqb (a b : item) : bool :=
  (N.eqb (ix a) (ix b) && N.eqb (ib a) (ib b) && N.eqb (ir a) (ir b))%bool.
Definition valid (it : item) : bool := negb (N.eqb (ir it) 0).

Inductive task :=
| JGroup (its : list item)    (* a resource group not yet looked at *)
| JDelete (it : item)         (* connection held, DELETE of this pair still to run *)
| JRequeue (it : item).       (* to be sent back to commitQueue (blocking send) *)

Record cfg := mkCfg { qcap : nat; blimit : nat; fcap : nat; nwork : nat }.

Inductive outcome := Ok | ConnFail | DelFail.

Inductive event :=
| Accept (it : item)          (* ATSourceManager.BranchCommit -> AsyncWorker.BranchCommit: the queue send completes *)
| Refuse (it : item)          (* the same call, but its context is done first: refused, NOT queued *)
| Recv                        (* run: case phaseCtx := <-aw.commitQueue *)
| Tick                        (* run: case <-ticker.C *)
| Submit                      (* run: commitWorker.Do completes its channel send *)
| Start (rot : nat)           (* a fanout proc takes a batch; rot = iteration order of the group map *)
| WStep (w : nat) (o : outcome)  (* worker w performs its next task; o = what the database does *)
| Appear (r : N).             (* a resource is registered in the resource cache *)

Definition st_committed : N := 5.    (* branch.BranchStatusPhasetwoCommitted *)
Definition st_retryable : N := 6.    (* branch.BranchStatusPhasetwoCommitFailedRetryable (+ ctx.Err()) *)
Definition committed_of (a : list (item * N)) : list item :=
  map fst (filter (fun p => N.eqb (snd p) st_committed) a).

Record state := mkState {
  queue : list item;
  buf : list item;
  blocked : option (list item);
  fan : list (list item);
  flight : list (list task);
  table : list item;            (* undo_log rows of all databases: (xid, branch_id, resource) *)
  known : list N;
  (* history (ghost) *)
  accepted : list item;
  answers : list (item * N);
  deleted : list item;          (* items whose DELETE succeeded *)
  removed : list item;          (* rows those DELETEs removed *)
  dropped : list item           (* items skipped by the grouping loop (empty resource id) *)
}.

Definition init (t0 : list item) (k0 : list N) : state :=
  mkState [] [] None [] [] t0 k0 [] [] [] [] [].

(* ---- grouping by resource id (doBranchCommit's closure) *)
Fixpoint ginsert (it : item) (gs : list (list item)) : list (list item) :=
  match gs with
  | [] => [[it]]
  | g :: gs' =>
      match g with
      | [] => g :: ginsert it gs'
      | h :: _ => if N.eqb (ir h) (ir it) then (g ++ [it]) :: gs' else g :: ginsert it gs'
      end
  end.

Definition group (l : list item) : list (list item) :=
  fold_left (fun gs it => if valid it then ginsert it gs else gs) l [].

Definition rotate {A} (n : nat) (l : list A) : list A := skipn n l ++ firstn n l.

(* ---- helpers *)
Definition memN (r : N) (l : list N) : bool := existsb (N.eqb r) l.
Definition gres (its : list item) : N := match its with h :: _ => ir h | [] => 0%N end.
Definition rm (it : item) (l : list item) : list item := filter (fun r => negb (item_eqb it r)) l.
Definition cnt (it : item) (l : list item) : nat := length (filter (item_eqb it) l).

Fixpoint pick {A} (n : nat) (l : list A) : option (list A * A * list A) :=
  match l with
  | [] => None
  | x :: l' =>
      match n with
      | 0 => Some ([], x, l')
      | S n' => match pick n' l' with
                | Some (a, y, b) => Some (x :: a, y, b)
                | None => None
                end
      end
  end.

Definition blk (s : state) : list item := match blocked s with Some b => b | None => [] end.

Definition room (c : cfg) (s : state) : bool :=
  length (queue s) <? qcap c + (match blocked s with None => 1 | Some _ => 0 end).

Definition threshold (c : cfg) : nat := blimit c * 2 / 3.

Definition titems (t : task) : list item :=
  match t with JGroup its => its | JDelete it => [it] | JRequeue it => [it] end.
Definition jitems (j : list task) : list item := flat_map titems j.

(* everything accepted that is still somewhere in the worker *)
Definition pend (s : state) : list item :=
  queue s ++ buf s ++ blk s ++ concat (fan s) ++ flat_map jitems (flight s).

(* ---- setters *)
Definition set_run (q bf : list item) (bl : option (list item)) (s : state) : state :=
  mkState q bf bl (fan s) (flight s) (table s) (known s)
          (accepted s) (answers s) (deleted s) (removed s) (dropped s).
Definition set_flight (fl : list (list task)) (s : state) : state :=
  mkState (queue s) (buf s) (blocked s) (fan s) fl (table s) (known s)
          (accepted s) (answers s) (deleted s) (removed s) (dropped s).

Definition flush (s : state) : state :=
  match buf s with
  | [] => s
  | _ :: _ => set_run (queue s) [] (Some (buf s)) s
  end.

(* ---- one worker task *)
Definition wstep (c : cfg) (o : outcome) (a : list (list task)) (job : list task)
           (b : list (list task)) (s : state) : state :=
  match job with
  | [] => set_flight (a ++ b) s                    (* closure returned: the proc is idle again *)
  | JGroup its :: rest =>
      let conn_ok := match o with ConnFail => false | _ => true end in
      if (memN (gres its) (known s) && conn_ok)%bool
      then set_flight (a ++ (map JDelete its ++ rest) :: b) s
      else set_flight (a ++ (map JRequeue its ++ rest) :: b) s
  | JDelete it :: rest =>
      match o with
      | DelFail => set_flight (a ++ (JRequeue it :: rest) :: b) s
      | _ => mkState (queue s) (buf s) (blocked s) (fan s) (a ++ rest :: b)
                     (rm it (table s)) (known s) (accepted s) (answers s)
                     (it :: deleted s) (filter (item_eqb it) (table s) ++ removed s) (dropped s)
      end
  | JRequeue it :: rest =>
      if room c s
      then mkState (queue s ++ [it]) (buf s) (blocked s) (fan s) (a ++ rest :: b)
                   (table s) (known s) (accepted s) (answers s)
                   (deleted s) (removed s) (dropped s)
      else s
  end.

Definition step (c : cfg) (e : event) (s : state) : state :=
  match e with
  | Accept it =>
      if room c s
      then mkState (queue s ++ [it]) (buf s) (blocked s) (fan s) (flight s) (table s) (known s)
                   (accepted s ++ [it]) (answers s ++ [(it, st_committed)])
                   (deleted s) (removed s) (dropped s)
      else s
  | Refuse it =>
      mkState (queue s) (buf s) (blocked s) (fan s) (flight s) (table s) (known s)
              (accepted s) (answers s ++ [(it, st_retryable)])
              (deleted s) (removed s) (dropped s)
  | Recv =>
      match blocked s, queue s with
      | None, it :: q =>
          let s1 := set_run q (buf s ++ [it]) None s in
          if threshold c <=? length (buf s1) then flush s1 else s1
      | _, _ => s
      end
  | Tick =>
      match blocked s with
      | None => flush s
      | Some _ => s
      end
  | Submit =>
      match blocked s with
      | Some b =>
          if length (fan s) + length (flight s) <? fcap c + nwork c
          then mkState (queue s) (buf s) None (fan s ++ [b]) (flight s) (table s) (known s)
                       (accepted s) (answers s) (deleted s) (removed s) (dropped s)
          else s
      | None => s
      end
  | Start rot =>
      match fan s with
      | b :: f' =>
          if length (flight s) <? nwork c
          then mkState (queue s) (buf s) (blocked s) f'
                       (flight s ++ [map JGroup (rotate rot (group b))])
                       (table s) (known s) (accepted s) (answers s) (deleted s) (removed s)
                       (filter (fun it => negb (valid it)) b ++ dropped s)
          else s
      | [] => s
      end
  | WStep w o =>
      match pick w (flight s) with
      | Some (a, job, b) => wstep c o a job b s
      | None => s
      end
  | Appear r =>
      mkState (queue s) (buf s) (blocked s) (fan s) (flight s) (table s) (r :: known s)
              (accepted s) (answers s) (deleted s) (removed s) (dropped s)
  end.

Definition run (c : cfg) (evs : list event) (s : state) : state :=
  fold_left (fun s e => step c e s) evs s.

(* ---- a fault-free scheduler: what happens once the database behaves *)
Definition sched (s : state) : option event :=
  match flight s with
  | _ :: _ => Some (WStep 0 Ok)
  | [] =>
      match fan s with
      | _ :: _ => Some (Start 0)
      | [] =>
          match blocked s with
          | Some _ => Some Submit
          | None =>
              match queue s with
              | _ :: _ => Some Recv
              | [] => match buf s with _ :: _ => Some Tick | [] => None end
              end
          end
      end
  end.

Fixpoint drain (c : cfg) (n : nat) (s : state) : state :=
  match n with
  | 0 => s
  | S n' => match sched s with
            | Some e => drain c n' (step c e s)
            | None => s
            end
  end.

Fixpoint drain_evs (c : cfg) (n : nat) (s : state) : list event :=
  match n with
  | 0 => []
  | S n' => match sched s with
            | Some e => e :: drain_evs c n' (step c e s)
            | None => []
            end
  end.

(* ---- the explicit bound: number of scheduler steps that certainly suffice *)
Definition wt_task (t : task) : nat :=
  match t with JGroup its => 1 + length its | JDelete _ => 1 | JRequeue _ => 8 end.
Definition wt_job (j : list task) : nat := 1 + list_sum (map wt_task j).
Definition wt_batch (b : list item) : nat := 2 + 2 * length b.
Definition wt_blocked (o : option (list item)) : nat :=
  match o with None => 0 | Some b => 3 + 2 * length b end.
Definition wt_buf (l : list item) : nat := match l with [] => 0 | _ :: _ => 4 + 2 * length l end.

Definition work (s : state) : nat :=
  7 * length (queue s) + wt_buf (buf s) + wt_blocked (blocked s)
  + list_sum (map wt_batch (fan s)) + list_sum (map wt_job (flight s)).

Definition is_accept (e : event) : bool := match e with Accept _ => true | _ => false end.
