(* Row-level model of AT phase one (image capture, undo-log flush) and of the
   phase-two branch rollback (undo/base/undo.go Undo, the three
   mysql_undo_*_executor.go ExecuteOn bodies, executor.go dataValidationAndGoOn,
   utils.go IsRecordsEquals, at_resource_manager.go BranchRollback).
   Definitions only; proofs in RollbackProofs.v / RollbackC10.v / RollbackC09.v.

   Tables hold the NON-key columns of a row under its primary key.  An image
   stores full-width rows plus the mask of the columns the Go image really
   carries (None = every column); comparisons and restores only look at masked
   columns, exactly the fields IsRecordsEquals / the undo UPDATE touch. *)
From Coq Require Import List NArith ZArith Bool Arith.
From SeataV Require Import Base.Bytes At.Db At.RollbackKinds Gen.UndoFlow.
Import ListNotations.

(* ---- masks ---- *)
Definition mask := option (list bool).

(* columns selected by the mask come from [n], the others stay as in [o];
   the result is as wide as [o] *)
Fixpoint merge_l (m : list bool) (n o : row) {struct o} : row :=
  match o with
  | [] => []
  | ov :: o' =>
      match m, n with
      | b :: m', nv :: n' => (if b then nv else ov) :: merge_l m' n' o'
      | _, _ => o
      end
  end.

Definition merge (m : mask) (n o : row) : row :=
  match m with None => n | Some l => merge_l l n o end.

(* equality on the masked columns *)
Fixpoint meq_l (m : list bool) (a b : row) {struct a} : bool :=
  match a, b with
  | [], [] => true
  | x :: a', y :: b' =>
      match m with
      | mb :: m' => (if mb then value_eqb x y else true) && meq_l m' a' b'
      | [] => true
      end
  | _, _ => false
  end.

Definition meq (m : mask) (a b : row) : bool :=
  match m with None => row_eqb a b | Some l => meq_l l a b end.

(* ---- images ---- *)
Record image := {
  i_tn : tablename;
  i_kind : kind;
  i_mask : mask;
  i_before : tbl;
  i_after : tbl }.

Definition img_keys (img : image) : list key := keys (i_before img) ++ keys (i_after img).

Definition image_empty (img : image) : bool :=
  match i_before img, i_after img with [], [] => true | _, _ => false end.

(* ---- statements: the row-level effect ---- *)
Inductive stmt :=
| SInsert (tn : tablename) (rows : tbl)              (* the rows as stored *)
| SUpdate (tn : tablename) (m : mask) (ups : tbl)    (* matched keys, new values of the SET columns [m] *)
| SDelete (tn : tablename) (ks : list key).

Definition stmt_tn (s : stmt) : tablename :=
  match s with SInsert tn _ | SUpdate tn _ _ | SDelete tn _ => tn end.

Definition memk (k : key) (ks : list key) : bool := existsb (key_eqb k) ks.

(* the rows of [t] whose key is in [ks], in table order *)
Definition matched (ks : list key) (t : tbl) : tbl :=
  filter (fun kr => memk (fst kr) ks) t.

Definition insert_all (rows : tbl) (t : tbl) : tbl :=
  fold_left (fun t kr => insert (fst kr) (snd kr) t) rows t.
Definition remove_all (ks : list key) (t : tbl) : tbl :=
  fold_left (fun t k => remove k t) ks t.
Definition update_all (m : mask) (ups : tbl) (t : tbl) : tbl :=
  fold_left (fun t kr => update (fst kr) (fun cur => merge m (snd kr) cur) t) ups t.

Definition fresh_rows (rows : tbl) (t : tbl) : bool :=
  forallb (fun kr => negb (mem (fst kr) t)) rows && tbl_wfb rows.

(* one business statement through the AT executor: new table and the image.
   [oc] = only-care-update-columns.  None = the statement fails (duplicate key;
   a malformed effect description). *)
Definition at_stmt (oc : bool) (s : stmt) (t : tbl) : option (tbl * image) :=
  match s with
  | SInsert tn rows =>
      if fresh_rows rows t
      then Some (insert_all rows t,
                 {| i_tn := tn; i_kind := KInsert; i_mask := None; i_before := []; i_after := rows |})
      else None
  | SUpdate tn m ups =>
      if tbl_wfb ups
      then let t' := update_all m ups t in
           Some (t', {| i_tn := tn; i_kind := KUpdate; i_mask := if oc then m else None;
                        i_before := matched (keys ups) t; i_after := matched (keys ups) t' |})
      else None
  | SDelete tn ks =>
      Some (remove_all ks t,
            {| i_tn := tn; i_kind := KDelete; i_mask := None; i_before := matched ks t; i_after := [] |})
  end.

(* the statements of one local transaction *)
Fixpoint run_stmts (oc : bool) (ss : list stmt) (d : db) : option (db * list image) :=
  match ss with
  | [] => Some (d, [])
  | s :: ss' =>
      match at_stmt oc s (db_get (stmt_tn s) d) with
      | None => None
      | Some (t', img) =>
          match run_stmts oc ss' (db_set (stmt_tn s) t' d) with
          | None => None
          | Some (d', imgs) => Some (d', img :: imgs)
          end
      end
  end.

(* ---- the undo log ---- *)
Record urow := { u_normal : bool; u_body : option (list image) }.   (* body None: rollback_info does not decode *)
Definition ukey := (N * N)%type.                                   (* (xid number, branch id) *)
Definition ulog := list (ukey * urow).

Definition ukey_eqb (a b : ukey) : bool := N.eqb (fst a) (fst b) && N.eqb (snd a) (snd b).

Fixpoint ulookup (x : ukey) (l : ulog) : option urow :=
  match l with
  | [] => None
  | (y, u) :: l' => if ukey_eqb x y then Some u else ulookup x l'
  end.

Fixpoint uremove (x : ukey) (l : ulog) : ulog :=
  match l with
  | [] => []
  | (y, u) :: l' => if ukey_eqb x y then uremove x l' else (y, u) :: uremove x l'
  end.

Definition marker : urow := {| u_normal := false; u_body := Some [] |}.

Record dbs := { d_tabs : db; d_undo : ulog }.

Record config := { c_validation : bool; c_only_care : bool }.

(* ---- phase one of a branch (conn_at / tx_at commitOnAT + FlushUndoLog) ----
   result: the durable state and whether the local transaction committed.
   Nothing is flushed when every image is empty; the flush fails on the unique
   (xid, branch_id) key when a row (the GlobalFinished marker) is already there. *)
Definition phase1_branch (cfg : config) (x : ukey) (ss : list stmt) (d : dbs) : dbs * bool :=
  match run_stmts (c_only_care cfg) ss (d_tabs d) with
  | None => (d, false)
  | Some (tabs', imgs) =>
      if forallb image_empty imgs
      then ({| d_tabs := tabs'; d_undo := d_undo d |}, true)
      else match ulookup x (d_undo d) with
           | Some _ => (d, false)
           | None => ({| d_tabs := tabs';
                         d_undo := (x, {| u_normal := true; u_body := Some imgs |}) :: d_undo d |}, true)
           end
  end.

(* ---- IsRecordsEquals / dataValidationAndGoOn ---- *)
Definition recs_eqb (m : mask) (a b : tbl) : bool :=
  Nat.eqb (length a) (length b) &&
  forallb (fun kr => match lookup (fst kr) b with
                     | Some r' => meq m (snd kr) r'
                     | None => false
                     end) a.

(* SELECT * FROM t WHERE pk IN (keys) FOR UPDATE *)
Fixpoint current_of (ks : list key) (t : tbl) : tbl :=
  match ks with
  | [] => []
  | k :: ks' => match lookup k t with
                | Some r => (k, r) :: current_of ks' t
                | None => current_of ks' t
                end
  end.

Inductive verdict := VGo | VStop | VDirty.

Definition check_keys (img : image) : list key :=
  if exec_current_by_before (i_kind img) then keys (i_before img) else keys (i_after img).

(* does the validation issue its query? *)
Definition validation_queries (dv : bool) (img : image) : bool :=
  dv && negb (recs_eqb (i_mask img) (i_before img) (i_after img)).

Definition validate (dv : bool) (img : image) (t : tbl) : verdict :=
  if negb dv then VGo
  else if recs_eqb (i_mask img) (i_before img) (i_after img) then VStop
  else let cur := current_of (check_keys img) t in
       if recs_eqb (i_mask img) (i_after img) cur then VGo
       else if recs_eqb (i_mask img) (i_before img) cur then VStop
       else VDirty.

(* ---- the compensation of one image (ExecuteOn after the validation) ---- *)
Definition reinsert_all (rows : tbl) (t : tbl) : option tbl :=
  fold_left (fun ot kr => match ot with
                          | Some t => if mem (fst kr) t then None        (* duplicate entry *)
                                      else Some (insert (fst kr) (snd kr) t)
                          | None => None
                          end) rows (Some t).

Definition compensate (img : image) (t : tbl) : option tbl :=
  match i_kind img with
  | KInsert => Some (remove_all (keys (i_after img)) t)
  | KUpdate => Some (update_all (i_mask img) (i_before img) t)
  | KDelete => reinsert_all (i_before img) t
  end.

Definition replayed_rows (img : image) : tbl :=
  if exec_replays_before (i_kind img) then i_before img else i_after img.

Definition is_nil {A} (l : list A) : bool := match l with [] => true | _ => false end.

(* one image: None = the executor returned an error *)
Definition undo_one (dv : bool) (img : image) (d : db) : option db :=
  let k := i_kind img in
  let t := db_get (i_tn img) d in
  if is_nil (replayed_rows img)
  then (if exec_skips_empty k then Some d else None)
  else match (if exec_validates k then validate dv img t else VGo) with
       | VDirty => None
       | VStop => Some d
       | VGo => match compensate img t with
                | Some t' => Some (db_set (i_tn img) t' d)
                | None => None
                end
       end.

Fixpoint undo_images (dv : bool) (imgs : list image) (d : db) : option db :=
  match imgs with
  | [] => Some d
  | img :: imgs' => match undo_one dv img d with
                    | Some d' => undo_images dv imgs' d'
                    | None => None
                    end
  end.

(* number of database calls one image costs when it succeeds: validation query,
   PREPARE of the compensating statement, one EXEC per replayed row *)
Definition ops_one (dv : bool) (img : image) (d : db) : nat :=
  let k := i_kind img in
  if is_nil (replayed_rows img) then 0%nat
  else let q := if exec_validates k && validation_queries dv img then 1%nat else 0%nat in
       match (if exec_validates k then validate dv img (db_get (i_tn img) d) else VGo) with
       | VGo => (q + 1 + length (replayed_rows img))%nat
       | _ => q
       end.

(* calls issued by the images until the first failing one (inclusive of the
   calls the failing image made before it failed is NOT needed: a failing image
   ends the run) *)
Fixpoint ops_images (dv : bool) (imgs : list image) (d : db) : nat :=
  match imgs with
  | [] => 0%nat
  | img :: imgs' => match undo_one dv img d with
                    | Some d' => (ops_one dv img d + ops_images dv imgs' d')%nat
                    | None => ops_one dv img d
                    end
  end.

(* ---- Undo + BranchRollback ---- *)
Record result := {
  r_db : dbs;                  (* durable state afterwards *)
  r_out : option N;            (* BranchStatus of the response; None = error returned, no response *)
  r_fired : bool;              (* the injected fault hit a call of this rollback *)
  r_tx_open : bool;            (* the local transaction was left open *)
  r_conn_released : bool;      (* the connection went back to the pool *)
  r_ops : nat }.               (* database calls issued (BEGIN .. COMMIT) *)

Definition order_log (imgs : list image) : list image :=
  if undo_reverses_log then rev imgs else imgs.

(* what the transaction would do without a fault: the new durable state, or
   None when it ends without a commit; the status; the calls issued *)
Definition undo_plan (cfg : config) (d : dbs) (x : ukey) : option dbs * bool * nat :=
  (* BEGIN, PREPARE + QUERY of the undo_log select *)
  match ulookup x (d_undo d) with
  | None =>
      (* no undo log: insert the GlobalFinished marker (PREPARE, EXEC), COMMIT *)
      (Some {| d_tabs := d_tabs d; d_undo := (x, marker) :: d_undo d |}, true, 6%nat)
  | Some u =>
      if negb (u_normal u) then (None, true, 3%nat)                   (* !CanUndo: return nil *)
      else match u_body u with
           | None => (None, false, 3%nat)                             (* context / decompress / decode error *)
           | Some imgs =>
               if is_nil imgs && undo_empty_log_returns_early then (None, true, 3%nat)
               else
               let n := ops_images (c_validation cfg) (order_log imgs) (d_tabs d) in
               match undo_images (c_validation cfg) (order_log imgs) (d_tabs d) with
               | None => (None, false, (3 + n)%nat)
               | Some tabs' =>
                   (* PREPARE + EXEC of the undo_log delete, COMMIT *)
                   (Some {| d_tabs := tabs'; d_undo := uremove x (d_undo d) |}, true, (3 + n + 3)%nat)
               end
           end
  end.

Definition is_some {A} (p : option A) : bool := match p with Some _ => true | None => false end.

Definition fault := option nat.          (* Some k: the call with index k (0 = BEGIN) fails, not applied *)

Definition fires (f : fault) (ops : nat) : bool :=
  match f with Some k => Nat.ltb k ops | None => false end.

Definition error_status : option N :=
  if undo_cleanup_assigns_result then status_ok else status_plain_error.

Definition rollback_branch (cfg : config) (f : fault) (d : dbs) (x : ukey) : result :=
  let '(plan, ok, ops) := undo_plan cfg d x in
  if fires f ops then
    (* a call failed: Undo returns the error; the deferred clean-up ends the transaction *)
    {| r_db := d;
       r_out := match f with
                | Some k => if Nat.eqb (S k) ops && is_some plan && negb undo_commit_error_returned
                            then status_ok else error_status
                | None => error_status
                end;
       r_fired := true;
       r_tx_open := match f with Some 0%nat => false | _ => negb undo_rollback_unless_committed end;
       r_conn_released := undo_closes_conn;
       r_ops := match f with Some k => S k | None => ops end |}
  else
    {| r_db := match plan with Some d' => d' | None => d end;
       r_out := if ok then status_ok else error_status;
       r_fired := false;
       r_tx_open := match plan with Some _ => false | None => negb undo_rollback_unless_committed end;
       r_conn_released := undo_closes_conn;
       r_ops := ops |}.

(* ---- a global transaction: branches in order; rollback of a list of branches ---- *)
Fixpoint phase1 (cfg : config) (xid : N) (b : N) (prog : list (list stmt)) (d : dbs) : dbs * list ukey :=
  match prog with
  | [] => (d, [])
  | ss :: prog' =>
      let '(d1, ok) := phase1_branch cfg (xid, b) ss d in
      let '(d2, bs) := phase1 cfg xid (N.succ b) prog' d1 in
      (d2, if ok then (xid, b) :: bs else bs)
  end.

Fixpoint rollback_all (cfg : config) (xs : list ukey) (d : dbs) : dbs * list (option N) :=
  match xs with
  | [] => (d, [])
  | x :: xs' =>
      let r := rollback_branch cfg None d x in
      let '(d', sts) := rollback_all cfg xs' (r_db r) in
      (d', r_out r :: sts)
  end.

(* committed writes of somebody else: set / delete single rows *)
Inductive fwrite := FSet (tn : tablename) (k : key) (r : row) | FDel (tn : tablename) (k : key).

Definition fwrite_tn (w : fwrite) := match w with FSet tn _ _ | FDel tn _ => tn end.
Definition fwrite_key (w : fwrite) := match w with FSet _ k _ | FDel _ k => k end.

Definition apply_fwrite (w : fwrite) (d : db) : db :=
  match w with
  | FSet tn k r => db_set tn (insert k r (db_get tn d)) d
  | FDel tn k => db_set tn (remove k (db_get tn d)) d
  end.

Definition apply_foreign (ws : list fwrite) (d : db) : db := fold_left (fun d w => apply_fwrite w d) ws d.

Definition with_tabs (d : dbs) (t : db) : dbs := {| d_tabs := t; d_undo := d_undo d |}.

(* ---- a global transaction whose phase one is interleaved with committed foreign writes ---- *)
Inductive item := IBranch (ss : list stmt) | IForeign (ws : list fwrite).

Fixpoint phase1i (cfg : config) (xid : N) (b : N) (prog : list item) (d : dbs) : dbs * list ukey :=
  match prog with
  | [] => (d, [])
  | IBranch ss :: prog' =>
      let '(d1, ok) := phase1_branch cfg (xid, b) ss d in
      let '(d2, bs) := phase1i cfg xid (N.succ b) prog' d1 in
      (d2, if ok then (xid, b) :: bs else bs)
  | IForeign ws :: prog' => phase1i cfg xid b prog' (with_tabs d (apply_foreign ws (d_tabs d)))
  end.

Fixpoint foreign_of (prog : list item) : list fwrite :=
  match prog with
  | [] => []
  | IBranch _ :: prog' => foreign_of prog'
  | IForeign ws :: prog' => ws ++ foreign_of prog'
  end.
