(* Shared row-level kernel for the AT (automatic transaction) properties:
   typed cell values, rows, primary keys, tables as key-unique association
   lists, and a database as a map from table name to table.
   Executable model only; the lemmas live in DbProofs.v. *)
From Coq Require Import List NArith ZArith Bool.
From Coq.Strings Require Byte.
From SeataV Require Import Base.Bytes.
Import ListNotations.

(* ---- values ---- *)
(* VFloat carries the IEEE-754 bits, VTime microseconds since the epoch,
   VDec the canonical decimal text. *)
Inductive value :=
| VNull
| VInt (z : Z)
| VStr (s : bytes)
| VBytes (b : bytes)
| VFloat (bits : N)
| VTime (n : Z)
| VDec (s : bytes).

Definition value_eqb (a b : value) : bool :=
  match a, b with
  | VNull, VNull => true
  | VInt x, VInt y => Z.eqb x y
  | VStr x, VStr y => bytes_eqb x y
  | VBytes x, VBytes y => bytes_eqb x y
  | VFloat x, VFloat y => N.eqb x y
  | VTime x, VTime y => Z.eqb x y
  | VDec x, VDec y => bytes_eqb x y
  | _, _ => false
  end.

Definition bytes_eq_dec : forall a b : bytes, {a = b} + {a <> b} :=
  list_eq_dec Byte.byte_eq_dec.

Definition value_eq_dec (a b : value) : {a = b} + {a <> b}.
Proof. decide equality; auto using bytes_eq_dec, Z.eq_dec, N.eq_dec. Defined.

(* ---- rows and keys ---- *)
Fixpoint list_eqb {A} (eqb : A -> A -> bool) (a b : list A) : bool :=
  match a, b with
  | [], [] => true
  | x :: a', y :: b' => eqb x y && list_eqb eqb a' b'
  | _, _ => false
  end.

Definition row := list value.
Definition key := list value.
Definition key_eqb : key -> key -> bool := list_eqb value_eqb.
Definition row_eqb : row -> row -> bool := list_eqb value_eqb.
Definition key_eq_dec : forall a b : key, {a = b} + {a <> b} := list_eq_dec value_eq_dec.
Definition row_eq_dec : forall a b : row, {a = b} + {a <> b} := list_eq_dec value_eq_dec.

(* ---- tables: association lists with pairwise distinct keys ---- *)
Definition tbl := list (key * row).
Definition keys (t : tbl) : list key := map fst t.
Definition tbl_wf (t : tbl) : Prop := NoDup (map fst t).

Fixpoint lookup (k : key) (t : tbl) : option row :=
  match t with
  | [] => None
  | (k', r) :: t' => if key_eqb k k' then Some r else lookup k t'
  end.

Definition mem (k : key) (t : tbl) : bool :=
  match lookup k t with Some _ => true | None => false end.

Fixpoint tbl_wfb (t : tbl) : bool :=
  match t with
  | [] => true
  | (k, _) :: t' => negb (mem k t') && tbl_wfb t'
  end.

(* replace in place when the key exists, else append at the end *)
Fixpoint insert (k : key) (r : row) (t : tbl) : tbl :=
  match t with
  | [] => [(k, r)]
  | (k', r') :: t' =>
      if key_eqb k k' then (k', r) :: t' else (k', r') :: insert k r t'
  end.

Fixpoint remove (k : key) (t : tbl) : tbl :=
  match t with
  | [] => []
  | (k', r') :: t' =>
      if key_eqb k k' then remove k t' else (k', r') :: remove k t'
  end.

(* no-op when the key is absent *)
Fixpoint update (k : key) (f : row -> row) (t : tbl) : tbl :=
  match t with
  | [] => []
  | (k', r') :: t' =>
      (k', if key_eqb k k' then f r' else r') :: update k f t'
  end.

(* extensional equality *)
Definition tbl_equiv (t1 t2 : tbl) : Prop := forall k, lookup k t1 = lookup k t2.

(* every binding of t1 is found, with an equal row, in t2 *)
Definition tbl_subb (t1 t2 : tbl) : bool :=
  forallb (fun kr => match lookup (fst kr) t2 with
                     | Some r => row_eqb (snd kr) r
                     | None => false
                     end) t1.

Definition tbl_eqb_ext (t1 t2 : tbl) : bool := tbl_subb t1 t2 && tbl_subb t2 t1.

(* ---- databases ---- *)
Definition tablename := bytes.
Definition db := list (tablename * tbl).

Fixpoint db_get (tn : tablename) (d : db) : tbl :=
  match d with
  | [] => []
  | (n, t) :: d' => if bytes_eqb tn n then t else db_get tn d'
  end.

Fixpoint db_set (tn : tablename) (t : tbl) (d : db) : db :=
  match d with
  | [] => [(tn, t)]
  | (n, t') :: d' =>
      if bytes_eqb tn n then (n, t) :: d' else (n, t') :: db_set tn t d'
  end.

Definition db_equiv (d1 d2 : db) : Prop :=
  forall tn, tbl_equiv (db_get tn d1) (db_get tn d2).

(* ---- primary-key order (only used for a canonical dump order) ---- *)
Fixpoint bytes_compare (a b : bytes) : comparison :=
  match a, b with
  | [], [] => Eq
  | [], _ :: _ => Lt
  | _ :: _, [] => Gt
  | x :: a', y :: b' =>
      match N.compare (Byte.to_N x) (Byte.to_N y) with
      | Eq => bytes_compare a' b'
      | c => c
      end
  end.

Definition value_rank (v : value) : N :=
  match v with
  | VNull => 0 | VInt _ => 1 | VStr _ => 2 | VBytes _ => 3
  | VFloat _ => 4 | VTime _ => 5 | VDec _ => 6
  end%N.

(* VNull smallest; same-constructor values by payload (ints and times
   numerically, strings/bytes/decimals bytewise, floats by bit pattern);
   different constructors by rank *)
Definition value_compare (a b : value) : comparison :=
  match a, b with
  | VInt x, VInt y => Z.compare x y
  | VStr x, VStr y => bytes_compare x y
  | VBytes x, VBytes y => bytes_compare x y
  | VFloat x, VFloat y => N.compare x y
  | VTime x, VTime y => Z.compare x y
  | VDec x, VDec y => bytes_compare x y
  | _, _ => N.compare (value_rank a) (value_rank b)
  end.

Definition value_ltb (a b : value) : bool :=
  match value_compare a b with Lt => true | _ => false end.

Fixpoint key_compare (a b : key) : comparison :=
  match a, b with
  | [], [] => Eq
  | [], _ :: _ => Lt
  | _ :: _, [] => Gt
  | x :: a', y :: b' =>
      match value_compare x y with
      | Eq => key_compare a' b'
      | c => c
      end
  end.

Definition key_ltb (a b : key) : bool :=
  match key_compare a b with Lt => true | _ => false end.

Fixpoint ins_sorted (kr : key * row) (t : tbl) : tbl :=
  match t with
  | [] => [kr]
  | kr' :: t' =>
      match key_compare (fst kr) (fst kr') with
      | Gt => kr' :: ins_sorted kr t'
      | _ => kr :: t
      end
  end.

Definition sort_tbl (t : tbl) : tbl := fold_right ins_sorted [] t.
