(* C08 — the tie: the model evaluated on what the real code was observed to do.
   mismatches returns (case index, code) pairs:
   1 flush outcome  2 context  3 rollback_info document  4 decode outcome  5 decoded log  6 (emit table / sql types) *)
From Coq Require Import List NArith ZArith Bool String.
From SeataV Require Import Base.Bytes At.Values At.UndoCodec Gen.UndoSwitch.
Import ListNotations.
Open Scope list_scope. Open Scope Z_scope.

Record ucase := mkCase {
  uc_valid : bool;                 (* valid stream: the flush side is compared too *)
  uc_cfg : cfg;
  uc_log : ulog;                   (* the log handed to FlushUndoLog (valid stream) *)
  uc_flush_ok : bool;
  uc_ctx : bytes;                  (* the stored context *)
  uc_trees : list (ckind * json);  (* for every compressor whose Decompress accepts the stored bytes: the JSON document *)
  uc_dec : N;                      (* 0 ok 1 error 2 panic/diverged *)
  uc_declog : ulog
}.

Definition tag (k : ckind) : byte :=
  match k with CNone => Byte.x00 | CGzip => Byte.x01 | CZip => Byte.x02 | CBzip2 => Byte.x03
             | CLz4 => Byte.x04 | CZstd => Byte.x05 | CDeflate => Byte.x06 end.
Definition all_kinds := [CNone; CGzip; CZip; CBzip2; CLz4; CZstd; CDeflate].
Fixpoint tree_of (k : ckind) (l : list (ckind * json)) : option json :=
  match l with [] => None | (k', t) :: r => if ckind_eqb k k' then Some t else tree_of k r end.

Definition T := go_undo_table.

(* read_back with the libraries replaced by what they were observed to return on this case *)
Definition read_model (c : ucase) : res ulog :=
  read_back T parse_time_ref
    (fun k _ => match tree_of k (uc_trees c) with Some _ => Some [tag k] | None => None end)
    (fun b => match b with
              | [t] => match filter (fun k => byte_eqb (tag k) t) all_kinds with
                       | k :: _ => tree_of k (uc_trees c)
                       | [] => None
                       end
              | _ => None
              end)
    (fun _ => None)
    (uc_ctx c) [tag CNone].

(* protobuf end to end: print/parse of the column JSON text and of the message are the identity *)
Definition pb_col (c : col) : option col :=
  match pb_marshal_value fmt_time_ref (c_val c) with
  | Some j => match pb_unmarshal_value j with
              | Some v => Some (mkCol (c_pk c) (c_name c) (c_type c) v)
              | None => None
              end
  | None => None
  end.
Definition pb_image (i : image) : image := mkImage (i_table i) (i_sqltype i) (map (filter_map pb_col) (i_rows i)).
Definition pb_log (u : ulog) : ulog :=
  mkLog (u_xid u) (u_branch u)
        (map (fun it => mkItem (l_sqltype it) (l_table it) (option_map pb_image (l_before it))
                               (option_map pb_image (l_after it))) (u_items u)).

(* documents are compared up to the integer reading of a float literal beyond 2^53 (see num_of_f64) *)
Definition jnum_tie (m o : jnum) : bool :=
  opt_eqb N.eqb (n_flt m) (n_flt o)
  && match n_int m, n_int o with
     | Some a, Some b => a =? b
     | None, None => true
     | None, Some b => 9007199254740992 <? Z.abs b
     | Some _, None => false
     end.
Fixpoint json_tie (a b : json) : bool :=
  match a, b with
  | JNull, JNull => true
  | JBool x, JBool y => Bool.eqb x y
  | JNum x, JNum y => jnum_tie x y
  | JStr x, JStr y => bytes_eqb x y
  | JArr l, JArr l' =>
      (fix go (l l' : list json) : bool :=
         match l, l' with
         | [], [] => true
         | x :: r, y :: r' => json_tie x y && go r r'
         | _, _ => false
         end) l l'
  | JObj l, JObj l' =>
      (fix go (l l' : list (bytes * json)) : bool :=
         match l, l' with
         | [], [] => true
         | (k, x) :: r, (k', y) :: r' => bytes_eqb k k' && json_tie x y && go r r'
         | _, _ => false
         end) l l'
  | _, _ => false
  end.

Definition res_class {A} (r : res A) : N := match r with Ok _ => 0%N | Err => 1%N | Panic => 2%N end.

Definition check_case (c : ucase) : list N :=
  let cf := uc_cfg c in
  let is_json := bytes_eqb (cf_ser cf) s_json in
  let is_pb := bytes_eqb (cf_ser cf) s_protobuf in
  let flush_side :=
    if negb (uc_valid c) then [] else
    let doc := marshal_log T fmt_time_ref (uc_log c) in
    let expect_ok := if is_json then match doc with Some _ => true | None => false end else is_pb in
    (if Bool.eqb expect_ok (uc_flush_ok c) then [] else [1%N]) ++
    (if negb (uc_flush_ok c && expect_ok) then [] else
     let m := decode_ctx (uc_ctx c) in
     (if opt_eqb bytes_eqb (ctx_get k_serializer m) (Some (cf_ser cf))
         && opt_eqb bytes_eqb (ctx_get k_compressor m) (Some (declared cf))
         && Nat.eqb (List.length m) 2 then [] else [2%N]) ++
     (if is_json then
        let k := if cf_enable cf then select T (cf_ctype cf) else CNone in
        match doc, tree_of k (uc_trees c) with
        | Some d, Some t => if json_tie d t then [] else [3%N]
        | _, _ => [3%N]
        end
      else []))
  in
  let read_side :=
    if uc_valid c && negb (uc_flush_ok c) then [] else
    let r := if uc_valid c && is_pb then Ok (pb_log (uc_log c)) else read_model c in
    if negb (N.eqb (res_class r) (uc_dec c)) then [4%N]
    else match r with
         | Ok u => if log_equiv gval_eqb u (uc_declog c) then [] else [5%N]
         | _ => []
         end
  in flush_side ++ read_side.

Fixpoint mismatches_from (i : nat) (l : list ucase) : list (nat * N) :=
  match l with
  | [] => []
  | c :: r => map (fun e => (i, e)) (check_case c) ++ mismatches_from (Datatypes.S i) r
  end.
Definition mismatches (l : list ucase) : list (nat * N) := mismatches_from 0 l.

(* the (JDBC code, kind) pairs and SQL types observed from the real mapping functions lie in the theorem's domain *)
Definition kind_code (k : kind) : N :=
  match k with KNil => 0 | KInt => 1 | KFloat => 2 | KStr => 3 | KBytes => 4 | KTime => 5 | KOther => 6 end%N.
Definition emit_covered (obs : list (Z * kind)) (sqls : list Z) : bool :=
  forallb (fun p => existsb (fun q => (fst q =? fst p) && kind_eqb (snd q) (snd p)) emit_pairs) obs
  && forallb (fun s => existsb (Z.eqb s) emitted_sqltypes) sqls.
