(* C09: the three-way comparison before / after / current decides, per image. *)
From Coq Require Import List NArith ZArith Bool Arith Lia.
From SeataV Require Import Base.Bytes At.Db At.DbProofs At.RollbackKinds Gen.UndoFlow At.Rollback At.RollbackProofs.
Import ListNotations.

Definition with_validation (cfg : config) : Prop := c_validation cfg = true.

(* the rows the validation reads for an image: by the after image's keys
   (insert, update), by the before image's keys (delete) *)
Definition current_rows (img : image) (tabs : db) : tbl :=
  current_of (check_keys img) (db_get (i_tn img) tabs).

Definition differs_from_both (img : image) (cur : tbl) : Prop :=
  recs_eqb (i_mask img) (i_before img) (i_after img) = false /\
  recs_eqb (i_mask img) (i_after img) cur = false /\
  recs_eqb (i_mask img) (i_before img) cur = false.

Definition equals_before (img : image) (cur : tbl) : Prop :=
  recs_eqb (i_mask img) (i_before img) (i_after img) = false /\
  recs_eqb (i_mask img) (i_after img) cur = false /\
  recs_eqb (i_mask img) (i_before img) cur = true.

Definition equals_after (img : image) (cur : tbl) : Prop :=
  recs_eqb (i_mask img) (i_before img) (i_after img) = false /\
  recs_eqb (i_mask img) (i_after img) cur = true.

Lemma validate_dirty img tabs : differs_from_both img (current_rows img tabs) ->
  validate true img (db_get (i_tn img) tabs) = VDirty.
Proof. intros [H1 [H2 H3]]. unfold validate, current_rows in *. cbn. now rewrite H1, H2, H3. Qed.

Lemma validate_before img tabs : equals_before img (current_rows img tabs) ->
  validate true img (db_get (i_tn img) tabs) = VStop.
Proof. intros [H1 [H2 H3]]. unfold validate, current_rows in *. cbn. now rewrite H1, H2, H3. Qed.

Lemma validate_after img tabs : equals_after img (current_rows img tabs) ->
  validate true img (db_get (i_tn img) tabs) = VGo.
Proof. intros [H1 H2]. unfold validate, current_rows in *. cbn. now rewrite H1, H2. Qed.

Lemma undo_one_dirty img tabs : is_nil (replayed_rows img) = false ->
  differs_from_both img (current_rows img tabs) -> undo_one true img tabs = None.
Proof.
  intros E D. unfold undo_one. rewrite E, exec_validates_all, (validate_dirty _ _ D). reflexivity.
Qed.

(* C09_dirty_refused, any position in the log: the images replayed before it
   (those recorded after it) went through, then this image finds rows that are
   neither what the branch wrote nor what it found: nothing at all is changed,
   the undo row stays, the answer is not 'rollbacked' *)
Theorem dirty_refused cfg d x row pre img post w :
  with_validation cfg ->
  ulookup x (d_undo d) = Some row -> u_normal row = true -> u_body row = Some (pre ++ img :: post) ->
  undo_images true (rev post) (d_tabs d) = Some w ->
  is_nil (replayed_rows img) = false ->
  differs_from_both img (current_rows img w) ->
  let r := rollback_branch cfg None d x in
  r_db r = d /\ r_out r <> status_ok /\ r_tx_open r = false.
Proof.
  intros V U N B P E D.
  assert (I : undo_images (c_validation cfg) (rev (pre ++ img :: post)) (d_tabs d) = None).
  { rewrite V, rev_app_distr. cbn [rev]. rewrite <- app_assoc, undo_images_app, P. cbn [app undo_images].
    now rewrite (undo_one_dirty _ _ E D). }
  destruct (rollback_clean_failed cfg d x row _ U N B I) as [E1 [E2 [_ E4]]].
  cbn zeta. rewrite E1, E2, E4. repeat split; auto. discriminate.
Qed.

(* one-statement branches: the verdict read off the durable state *)
Theorem dirty_refused_1 cfg d x row img :
  with_validation cfg ->
  ulookup x (d_undo d) = Some row -> u_normal row = true -> u_body row = Some [img] ->
  is_nil (replayed_rows img) = false ->
  differs_from_both img (current_rows img (d_tabs d)) ->
  let r := rollback_branch cfg None d x in
  r_db r = d /\ r_out r <> status_ok /\ r_tx_open r = false.
Proof.
  intros V U N B E D. apply (dirty_refused cfg d x row [] img [] (d_tabs d)); auto.
Qed.

(* C09_already_before: the rows already are what the branch found: success,
   no table is written, the undo row is deleted *)
Theorem already_before_1 cfg d x row img :
  with_validation cfg ->
  ulookup x (d_undo d) = Some row -> u_normal row = true -> u_body row = Some [img] ->
  is_nil (replayed_rows img) = false ->
  equals_before img (current_rows img (d_tabs d)) ->
  let r := rollback_branch cfg None d x in
  r_out r = status_ok /\ d_tabs (r_db r) = d_tabs d /\ ulookup x (d_undo (r_db r)) = None.
Proof.
  intros V U N B E D.
  assert (I : undo_images (c_validation cfg) (rev [img]) (d_tabs d) = Some (d_tabs d)).
  { rewrite V. cbn. unfold undo_one. rewrite E, exec_validates_all, (validate_before _ _ D). reflexivity. }
  destruct (rollback_clean_normal cfg d x row _ _ U N B I) as [E1 [E2 _]].
  cbn zeta. rewrite E1, E2. cbn. repeat split; auto. now rewrite ulookup_uremove, ukey_eqb_refl.
Qed.

(* C09_after: the rows still are what the branch wrote: they are compensated *)
Theorem after_restored_1 cfg d x row img t' :
  with_validation cfg ->
  ulookup x (d_undo d) = Some row -> u_normal row = true -> u_body row = Some [img] ->
  is_nil (replayed_rows img) = false ->
  equals_after img (current_rows img (d_tabs d)) ->
  compensate img (db_get (i_tn img) (d_tabs d)) = Some t' ->
  let r := rollback_branch cfg None d x in
  r_out r = status_ok /\ d_tabs (r_db r) = db_set (i_tn img) t' (d_tabs d) /\ ulookup x (d_undo (r_db r)) = None.
Proof.
  intros V U N B E D C.
  assert (I : undo_images (c_validation cfg) (rev [img]) (d_tabs d) = Some (db_set (i_tn img) t' (d_tabs d))).
  { rewrite V. cbn. unfold undo_one. rewrite E, exec_validates_all, (validate_after _ _ D), C. reflexivity. }
  destruct (rollback_clean_normal cfg d x row _ _ U N B I) as [E1 [E2 _]].
  cbn zeta. rewrite E1, E2. cbn. repeat split; auto. now rewrite ulookup_uremove, ukey_eqb_refl.
Qed.

(* what 'compensated' means row by row *)
Theorem compensate_rows img t t' : tbl_wf (i_before img) -> compensate img t = Some t' ->
  match i_kind img with
  | KInsert => forall k, lookup k t' = if memk k (keys (i_after img)) then None else lookup k t
  | KUpdate => forall k, lookup k t' = match lookup k (i_before img) with
                                       | Some r => option_map (merge (i_mask img) r) (lookup k t)
                                       | None => lookup k t end
  | KDelete => forall k, lookup k t' = match lookup k (i_before img) with Some r => Some r | None => lookup k t end
  end.
Proof.
  intros W C. unfold compensate in C. destruct (i_kind img).
  - inversion C; subst. intro k. apply lookup_remove_all.
  - inversion C; subst. intro k. now apply lookup_update_all.
  - assert (Free : forall k0, In k0 (keys (i_before img)) -> lookup k0 t = None).
    { intros k0 H0. destruct (lookup k0 t) eqn:L0; [|reflexivity].
      rewrite (reinsert_all_occupied _ t k0 H0) in C; [discriminate | congruence]. }
    destruct (reinsert_all_spec _ t W Free) as [t2 [R S]]. rewrite R in C. inversion C; subst. exact S.
Qed.

(* ---- the window between the validation read and the compensating statement ---- *)
(* the validation read is a locking read and a result set that breaks off is an error (regenerated) *)
Lemma validation_read_locks : exec_check_locks = true /\ exec_read_errors_checked = true.
Proof. split; reflexivity. Qed.

(* the verdict depends on nothing but the rows that read returned and locked: whatever other sessions
   write elsewhere between the validation and the compensation cannot change it (and writes to the
   rows it read wait for the rollback transaction) *)
Theorem validate_window dv img t u :
  (forall k, In k (check_keys img) -> lookup k t = lookup k u) ->
  validate dv img t = validate dv img u.
Proof.
  intro H. unfold validate. rewrite (current_of_ext (check_keys img) t u H). reflexivity.
Qed.
