(* Executable semantics of the SQL subset that the in-memory MySQL stand-in
   harness/fakedb implements (DESIGN 4.3): expressions with MySQL's
   three-valued logic and number/string coercion, and SELECT / INSERT
   [ON DUPLICATE KEY UPDATE | IGNORE | REPLACE] / UPDATE / DELETE over one
   table with a primary key, rows kept and scanned in primary-key order.
   Definitions only (the lemmas are in StmtProofs.v); everything is total and
   structurally recursive so that the tie can evaluate it with vm_compute.
   Where the semantics is not modelled (floats, temporal values, decimal
   arithmetic, exponent notation in numeric strings) the result is the error
   class EUnsup and the differential run counts the statement as skipped. *)
From Coq Require Import List NArith ZArith Bool.
From Coq.Strings Require Byte.
From SeataV Require Import Base.Bytes At.Db.
Import ListNotations.
Local Open Scope Z_scope.

(* ---------------------------------------------------------------- results *)
Inductive err :=
| EErr (n : N)      (* MySQL error number *)
| EUnsup.           (* outside the modelled subset *)

Inductive res (A : Type) : Type :=
| Ok (a : A)
| Er (e : err).
Arguments Ok {A} a.
Arguments Er {A} e.

Definition bind {A B} (r : res A) (f : A -> res B) : res B :=
  match r with Ok a => f a | Er e => Er e end.
Notation "'do' x <- a ; b" := (bind a (fun x => b))
  (at level 200, x name, a at level 100, b at level 200).

Definition E_DUP : N := 1062%N.
Definition E_PARSE : N := 1064%N.
Definition E_BADNULL : N := 1048%N.
Definition E_BADFIELD : N := 1054%N.
Definition E_UNKNOWN : N := 1105%N.
Definition E_FIELDTWICE : N := 1110%N.
Definition E_VALCOUNT : N := 1136%N.
Definition E_OPERAND : N := 1241%N.
Definition E_RANGE : N := 1264%N.
Definition E_TRUNC : N := 1265%N.
Definition E_NODEFAULT : N := 1364%N.
Definition E_WRONGVALUE : N := 1366%N.
Definition E_TOOLONG : N := 1406%N.
Definition E_BIGINT : N := 1690%N.
Definition E_LOCKWAIT : N := 1205%N.

(* ---------------------------------------------------------------- three-valued logic *)
Inductive tri := TT | TF | TU.

Definition and3 (a b : tri) : tri :=
  match a, b with
  | TF, _ | _, TF => TF
  | TT, TT => TT
  | _, _ => TU
  end.
Definition or3 (a b : tri) : tri :=
  match a, b with
  | TT, _ | _, TT => TT
  | TF, TF => TF
  | _, _ => TU
  end.
Definition not3 (a : tri) : tri :=
  match a with TT => TF | TF => TT | TU => TU end.
Definition xor3 (a b : tri) : tri :=
  match a, b with
  | TU, _ | _, TU => TU
  | TT, TF | TF, TT => TT
  | _, _ => TF
  end.
Definition tri_of_bool (b : bool) : tri := if b then TT else TF.
Definition is_true (t : tri) : bool := match t with TT => true | _ => false end.
Definition boolV (t : tri) : value :=
  match t with TT => VInt 1 | TF => VInt 0 | TU => VNull end.

(* ---------------------------------------------------------------- numbers in strings *)
Definition MIN_I64 : Z := -9223372036854775808.
Definition MAX_I64 : Z := 9223372036854775807.
Definition MAX_U64 : Z := 18446744073709551615.

Definition bn (b : byte) : N := Byte.to_N b.
Definition is_digit (b : byte) : bool := (48 <=? bn b)%N && (bn b <=? 57)%N.
(* Go strings.TrimSpace on ASCII: \t \n \v \f \r and space *)
Definition is_space (b : byte) : bool := ((9 <=? bn b)%N && (bn b <=? 13)%N) || (bn b =? 32)%N.
(* the cut set of numericPrefix: " \t\r\n" *)
Definition is_space4 (b : byte) : bool :=
  (bn b =? 32)%N || (bn b =? 9)%N || (bn b =? 13)%N || (bn b =? 10)%N.

Fixpoint trim_left (p : byte -> bool) (s : bytes) : bytes :=
  match s with
  | c :: s' => if p c then trim_left p s' else s
  | [] => []
  end.
Definition trim_right (p : byte -> bool) (s : bytes) : bytes := rev (trim_left p (rev s)).
Definition trim (p : byte -> bool) (s : bytes) : bytes := trim_right p (trim_left p s).

Fixpoint take_digits (s : bytes) : bytes * bytes :=
  match s with
  | c :: s' => if is_digit c then let (d, r) := take_digits s' in (c :: d, r) else ([], s)
  | [] => ([], [])
  end.

Definition digits_val (d : bytes) : Z :=
  fold_left (fun acc c => acc * 10 + Z.of_N (bn c - 48)) d 0.

Record scan := { sc_neg : bool; sc_ip : bytes; sc_fp : bytes; sc_rest : bytes }.

(* [sign] digits [. digits], and what follows *)
Definition scan_num (s : bytes) : scan :=
  let '(neg, s1) :=
    match s with
    | c :: s' => if (bn c =? 45)%N then (true, s') else if (bn c =? 43)%N then (false, s') else (false, s)
    | [] => (false, [])
    end in
  let '(ip, s2) := take_digits s1 in
  match s2 with
  | c :: s3 =>
      if (bn c =? 46)%N then let '(fp, s4) := take_digits s3 in
        {| sc_neg := neg; sc_ip := ip; sc_fp := fp; sc_rest := s4 |}
      else {| sc_neg := neg; sc_ip := ip; sc_fp := []; sc_rest := s2 |}
  | [] => {| sc_neg := neg; sc_ip := ip; sc_fp := []; sc_rest := [] |}
  end.

Definition scan_digits (c : scan) : bool :=
  match sc_ip c ++ sc_fp c with [] => false | _ => true end.
Definition scan_mant (c : scan) : Z :=
  let m := digits_val (sc_ip c ++ sc_fp c) in if sc_neg c then - m else m.
Definition scan_scale (c : scan) : nat := length (sc_fp c).
Definition scan_is_decimal (c : scan) : bool :=
  scan_digits c && match sc_rest c with [] => true | _ => false end.
Definition starts_exp (s : bytes) : bool :=
  match s with c :: _ => (bn c =? 101)%N || (bn c =? 69)%N | [] => false end.

(* a number: mantissa, decimal scale, "was read as a double by fakedb" *)
Record num := { n_m : Z; n_sc : nat; n_flt : bool }.

(* fakedb strAsNumber: the whole (space-trimmed) string is a plain decimal =>
   exact; otherwise the double of its numeric prefix.  Exponent notation is
   outside the model. *)
Definition strnum (s : bytes) : res num :=
  let c := scan_num (trim is_space s) in
  if scan_is_decimal c then Ok {| n_m := scan_mant c; n_sc := scan_scale c; n_flt := false |}
  else
    let c := scan_num (trim_left is_space4 s) in
    if negb (scan_digits c) then Ok {| n_m := 0; n_sc := O; n_flt := true |}
    else if starts_exp (sc_rest c) then Er EUnsup
    else Ok {| n_m := scan_mant c; n_sc := scan_scale c; n_flt := true |}.

(* the integer reading of a string in arithmetic / LIMIT: Some z when fakedb
   reads an IntV/UintV, None when it reads a decimal or a double *)
Definition strint (s : bytes) : res (option Z) :=
  let c := scan_num (trim is_space s) in
  if scan_is_decimal c then
    match sc_fp c with
    | [] => let z := scan_mant c in
            Ok (if (MIN_I64 <=? z) && (z <=? MAX_U64) then Some z else None)
    | _ => Ok None
    end
  else
    let c := scan_num (trim_left is_space4 s) in
    if scan_digits c && starts_exp (sc_rest c) then Er EUnsup else Ok None.

Definition is_strv (v : value) : bool :=
  match v with VStr _ | VBytes _ => true | _ => false end.
Definition str_of (v : value) : bytes :=
  match v with VStr s | VBytes s | VDec s => s | _ => [] end.

Definition tonum (v : value) : res num :=
  match v with
  | VInt z => Ok {| n_m := z; n_sc := O; n_flt := false |}
  | VDec s => let c := scan_num s in
              if scan_is_decimal c then Ok {| n_m := scan_mant c; n_sc := scan_scale c; n_flt := false |}
              else Er EUnsup
  | VStr s | VBytes s => strnum s
  | _ => Er EUnsup
  end.

Definition pow10 (n : nat) : Z := Z.pow 10 (Z.of_nat n).

(* exact comparison of m1/10^s1 with m2/10^s2 *)
Definition numcmp (a b : num) : comparison :=
  Z.compare (n_m a * pow10 (n_sc b)) (n_m b * pow10 (n_sc a)).

(* a decimal with at most 15 significant digits converts to a double
   injectively and monotonically: comparing the doubles = comparing exactly *)
Definition fsafe (a : num) : bool :=
  (Z.abs (n_m a) <? 1000000000000000) && (Nat.leb (n_sc a) 30).

(* fakedb Compare: None = UNKNOWN (a NULL operand) *)
Definition compare_v (a b : value) : res (option comparison) :=
  match a, b with
  | VNull, _ => Ok None
  | _, VNull => Ok None
  | _, _ =>
    if is_strv a && is_strv b then Ok (Some (bytes_compare (str_of a) (str_of b)))
    else
      do x <- tonum a;
      do y <- tonum b;
      if (n_flt x || n_flt y) && negb (fsafe x && fsafe y) then Er EUnsup
      else Ok (Some (numcmp x y))
  end.

Inductive cmpop := CEq | CNe | CLt | CLe | CGt | CGe | CNullEq.

Definition cmp_holds (op : cmpop) (c : comparison) : bool :=
  match op, c with
  | CEq, Eq | CNullEq, Eq => true
  | CNe, Lt | CNe, Gt => true
  | CLt, Lt => true
  | CLe, Lt | CLe, Eq => true
  | CGt, Gt => true
  | CGe, Gt | CGe, Eq => true
  | _, _ => false
  end.

Definition is_null (v : value) : bool := match v with VNull => true | _ => false end.

Definition cmp3 (op : cmpop) (a b : value) : res tri :=
  match op with
  | CNullEq =>
      if is_null a || is_null b then Ok (tri_of_bool (is_null a && is_null b))
      else do c <- compare_v a b;
           Ok (match c with Some c => tri_of_bool (cmp_holds CEq c) | None => TU end)
  | _ => do c <- compare_v a b;
         Ok (match c with Some c => tri_of_bool (cmp_holds op c) | None => TU end)
  end.

(* fakedb truth(): NULL unknown, integers by value, everything else through
   the double of its numeric prefix *)
Definition truth (v : value) : res tri :=
  match v with
  | VNull => Ok TU
  | VInt z => Ok (tri_of_bool (negb (z =? 0)))
  | VStr s | VBytes s | VDec s =>
      let c := scan_num (trim_left is_space4 s) in
      if negb (scan_digits c) then Ok TF
      else if starts_exp (sc_rest c) then Er EUnsup
      else if Nat.leb (scan_scale c) 300 then Ok (tri_of_bool (negb (scan_mant c =? 0)))
      else Er EUnsup
  | _ => Er EUnsup
  end.

(* ---------------------------------------------------------------- text of a value *)
Fixpoint uint_bytes (u : Decimal.uint) : bytes :=
  match u with
  | Decimal.Nil => []
  | Decimal.D0 u => Byte.x30 :: uint_bytes u
  | Decimal.D1 u => Byte.x31 :: uint_bytes u
  | Decimal.D2 u => Byte.x32 :: uint_bytes u
  | Decimal.D3 u => Byte.x33 :: uint_bytes u
  | Decimal.D4 u => Byte.x34 :: uint_bytes u
  | Decimal.D5 u => Byte.x35 :: uint_bytes u
  | Decimal.D6 u => Byte.x36 :: uint_bytes u
  | Decimal.D7 u => Byte.x37 :: uint_bytes u
  | Decimal.D8 u => Byte.x38 :: uint_bytes u
  | Decimal.D9 u => Byte.x39 :: uint_bytes u
  end.

Definition z_text (z : Z) : bytes :=
  match z with
  | Z0 => [Byte.x30]
  | Zpos p => uint_bytes (Pos.to_uint p)
  | Zneg p => Byte.x2d :: uint_bytes (Pos.to_uint p)
  end.

Definition text_of (v : value) : res bytes :=
  match v with
  | VInt z => Ok (z_text z)
  | VStr s | VBytes s | VDec s => Ok s
  | _ => Er EUnsup
  end.

(* LIKE, bytewise (binary collation), escape character backslash *)
Fixpoint like (p s : bytes) {struct p} : bool :=
  match p with
  | [] => match s with [] => true | _ => false end
  | c :: p' =>
    if (bn c =? 37)%N then
      (fix star (s : bytes) : bool :=
         like p' s || match s with [] => false | _ :: s' => star s' end) s
    else if (bn c =? 95)%N then
      match s with [] => false | _ :: s' => like p' s' end
    else if (bn c =? 92)%N then
      match p' with
      | d :: p'' => match s with x :: s' => byte_eqb x d && like p'' s' | [] => false end
      | [] => match s with [x] => byte_eqb x c | _ => false end
      end
    else match s with x :: s' => byte_eqb x c && like p' s' | [] => false end
  end.

(* ---------------------------------------------------------------- arithmetic *)
Inductive arop := APlus | AMinus | AMul.

Definition arith_operand (v : value) : res Z :=
  match v with
  | VInt z => Ok z
  | VStr s | VBytes s => do r <- strint s; match r with Some z => Ok z | None => Er EUnsup end
  | _ => Er EUnsup
  end.

(* exact integer arithmetic; the result must fit BIGINT, or BIGINT UNSIGNED
   when an operand is beyond the signed range *)
Definition arith (op : arop) (a b : value) : res value :=
  if is_null a || is_null b then Ok VNull
  else
    do x <- arith_operand a;
    do y <- arith_operand b;
    let z := match op with APlus => x + y | AMinus => x - y | AMul => x * y end in
    if (MIN_I64 <=? z) && (z <=? MAX_I64) then Ok (VInt z)
    else if (0 <=? z) && (z <=? MAX_U64) && ((MAX_I64 <? x) || (MAX_I64 <? y)) then Ok (VInt z)
    else Er (EErr E_BIGINT).

(* ---------------------------------------------------------------- schema *)
Inductive strkind := SVarchar | SChar | SText.
Inductive ctype :=
| TInt (lo hi : Z)
| TStr (k : strkind) (limit : Z).   (* characters (SVarchar, SChar) or bytes (SText) *)

Record column := {
  c_name : bytes;              (* lower case *)
  c_ty : ctype;
  c_notnull : bool;
  c_default : option value;    (* stored form *)
  c_auto : bool
}.

(* s_uniq: the secondary UNIQUE indexes (column lists), in the order fakedb keeps them *)
Record schema := { s_cols : list column; s_pk : list nat; s_uniq : list (list nat) }.

Fixpoint find_col_from (c : bytes) (cols : list column) (i : nat) : option (nat * column) :=
  match cols with
  | [] => None
  | col :: cols' => if bytes_eqb c (c_name col) then Some (i, col) else find_col_from c cols' (S i)
  end.
Definition find_col (c : bytes) (cols : list column) : option (nat * column) := find_col_from c cols O.

Definition key_of (sch : schema) (vals : row) : key :=
  map (fun i => nth i vals VNull) (s_pk sch).

(* the values of an index's columns *)
Definition uvals (ix : list nat) (vals : row) : list value := map (fun i => nth i vals VNull) ix.

(* two rows collide on a unique index: equal values, none of them NULL *)
Definition collides (ix : list nat) (a b : row) : bool :=
  negb (existsb (fun v => match v with VNull => true | _ => false end) (uvals ix a))
  && key_eqb (uvals ix a) (uvals ix b).

(* lock names: the row lock of a row is its primary key; the unique-value lock
   of secondary index number i is VNull :: VInt i :: values (a primary key never
   starts with NULL).  Values with a NULL take no unique-value lock. *)
Fixpoint ulocks_from (i : Z) (ixs : list (list nat)) (vals : row) : list key :=
  match ixs with
  | [] => []
  | ix :: r =>
      let u := uvals ix vals in
      (if existsb (fun v => match v with VNull => true | _ => false end) u then []
       else [VNull :: VInt i :: u]) ++ ulocks_from (i + 1) r vals
  end.

(* what writing a row asks for, in order: its row lock, then its unique-value locks *)
Definition row_locks (sch : schema) (vals : row) : list key :=
  key_of sch vals :: ulocks_from 0 (s_uniq sch) vals.

(* the rows that collide with vals on a secondary unique index: index order,
   then key order, each row once, the keys in `skip` left out *)
Fixpoint sec_conflicts (ixs : list (list nat)) (vals : row) (skip : list key) (t : tbl) : tbl :=
  match ixs with
  | [] => []
  | ix :: r =>
      let here := filter (fun kr => negb (existsb (key_eqb (fst kr)) skip) && collides ix vals (snd kr)) t in
      here ++ sec_conflicts r vals (skip ++ map fst here) t
  end.

Fixpoint set_nth {A} (i : nat) (v : A) (l : list A) : list A :=
  match l, i with
  | [], _ => []
  | _ :: l', O => v :: l'
  | x :: l', S i' => x :: set_nth i' v l'
  end.

Definition default_of (c : column) : res value :=
  match c_default c with
  | Some v => Ok v
  | None => if c_auto c then Ok VNull
            else if negb (c_notnull c) then Ok VNull
            else Er (EErr E_NODEFAULT)
  end.

(* valid UTF-8 assumed (the tie only sends such strings): characters = bytes
   that are not continuation bytes *)
Definition rune_count (s : bytes) : Z :=
  Z.of_nat (length (filter (fun b => negb ((128 <=? bn b)%N && (bn b <? 192)%N)) s)).

Definition is_sp (b : byte) : bool := (bn b =? 32)%N.

(* fakedb storeValue: strict and narrow *)
Definition store (c : column) (v : value) : res value :=
  match v with
  | VNull => if c_notnull c then Er (EErr E_BADNULL) else Ok VNull
  | _ =>
    match c_ty c with
    | TInt lo hi =>
        let range z := if (lo <=? z) && (z <=? hi) then Ok (VInt z) else Er (EErr E_RANGE) in
        let dec (sc : scan) :=
            let m := scan_mant sc in let p := pow10 (scan_scale sc) in
            if m mod p =? 0 then range (m / p) else Er (EErr E_TRUNC) in
        match v with
        | VInt z => range z
        | VStr s | VBytes s =>
            let sc := scan_num (trim is_space s) in
            if scan_is_decimal sc then dec sc else Er (EErr E_WRONGVALUE)
        | VDec s =>
            let sc := scan_num s in
            if scan_is_decimal sc then dec sc else Er EUnsup
        | _ => Er EUnsup
        end
    | TStr k limit =>
        do s <- text_of v;
        let n := match k with SText => Z.of_nat (length s) | _ => rune_count s end in
        if limit <? n then Er (EErr E_TOOLONG)
        else Ok (VStr (match k with SChar => trim_right is_sp s | _ => s end))
    end
  end.

(* ---------------------------------------------------------------- expressions *)
Inductive expr :=
| ECol (c : bytes)
| ELit (v : value)
| EParam (i : nat)
| EParen (e : expr)
| ECmp (op : cmpop) (a b : expr)
| EAnd (a b : expr)
| EOr (a b : expr)
| EXor (a b : expr)
| ENot (a : expr)
| EIn (neg : bool) (a : expr) (l : list expr)
| ERowIn (neg : bool) (a : list expr) (l : list (list expr))
| EBetween (neg : bool) (a lo hi : expr)
| EIsNull (neg : bool) (a : expr)
| ELike (neg : bool) (a p : expr)
| EArith (op : arop) (a b : expr)
| ENeg (a : expr)
| EValues (c : bytes)
| EDefault.

Record env := {
  e_cols : list column;
  e_row : row;                 (* [] = no current row: every column reads NULL *)
  e_args : list value;
  e_ins : option row           (* the row that would have been inserted *)
}.

Definition with_row (en : env) (r : row) : env :=
  {| e_cols := e_cols en; e_row := r; e_args := e_args en; e_ins := e_ins en |}.

Definition neg3 (neg : bool) (t : tri) : tri := if neg then not3 t else t.

Fixpoint eval (en : env) (e : expr) {struct e} : res value :=
  match e with
  | ECol c =>
      match find_col c (e_cols en) with
      | Some (i, _) => Ok (nth i (e_row en) VNull)
      | None => Er (EErr E_BADFIELD)
      end
  | ELit v => Ok v
  | EParam i =>
      match nth_error (e_args en) i with
      | Some v => Ok v
      | None => Er (EErr E_UNKNOWN)
      end
  | EParen a => eval en a
  | ECmp op a b =>
      do x <- eval en a; do y <- eval en b; do t <- cmp3 op x y; Ok (boolV t)
  | EAnd a b =>
      do x <- eval en a; do y <- eval en b;
      do tx <- truth x; do ty <- truth y; Ok (boolV (and3 tx ty))
  | EOr a b =>
      do x <- eval en a; do y <- eval en b;
      do tx <- truth x; do ty <- truth y; Ok (boolV (or3 tx ty))
  | EXor a b =>
      do x <- eval en a; do y <- eval en b;
      do tx <- truth x; do ty <- truth y; Ok (boolV (xor3 tx ty))
  | ENot a =>
      do x <- eval en a; do tx <- truth x; Ok (boolV (not3 tx))
  | EIn neg a l =>
      do x <- eval en a;
      do t <- (fix go (l : list expr) (acc : tri) {struct l} : res tri :=
                 match l with
                 | [] => Ok acc
                 | it :: l' =>
                     do y <- eval en it;
                     do t <- cmp3 CEq x y;
                     match or3 acc t with
                     | TT => Ok TT
                     | acc' => go l' acc'
                     end
                 end) l TF;
      Ok (boolV (neg3 neg t))
  | ERowIn neg a l =>
      (* the left row is evaluated once per item, before the item's values *)
      let va := (fix evl (l : list expr) : res (list value) :=
                   match l with
                   | [] => Ok []
                   | x :: l' => do v <- eval en x; do vs <- evl l'; Ok (v :: vs)
                   end) a in
      do t <- (fix items (l : list (list expr)) (acc : tri) {struct l} : res tri :=
                 match l with
                 | [] => Ok acc
                 | it :: l' =>
                     if negb (Nat.eqb (length a) (length it)) then Er (EErr E_OPERAND)
                     else
                       do vas <- va;
                       do t <- (fix pairs (ys : list expr) (vs : list value) (acc : tri) {struct ys} : res tri :=
                                  match ys, vs with
                                  | y :: ys', vx :: vs' =>
                                      do vy <- eval en y;
                                      do t <- cmp3 CEq vx vy;
                                      pairs ys' vs' (and3 acc t)
                                  | _, _ => Ok acc
                                  end) it vas TT;
                       match or3 acc t with
                       | TT => Ok TT
                       | acc' => items l' acc'
                       end
                 end) l TF;
      Ok (boolV (neg3 neg t))
  | EBetween neg a lo hi =>
      do x <- eval en a; do l <- eval en lo; do h <- eval en hi;
      do t1 <- cmp3 CGe x l; do t2 <- cmp3 CLe x h;
      Ok (boolV (neg3 neg (and3 t1 t2)))
  | EIsNull neg a =>
      do x <- eval en a; Ok (boolV (tri_of_bool (xorb (is_null x) neg)))
  | ELike neg a p =>
      do x <- eval en a; do y <- eval en p;
      if is_null x || is_null y then Ok VNull
      else do s <- text_of x; do pat <- text_of y;
           Ok (boolV (tri_of_bool (xorb (like pat s) neg)))
  | EArith op a b =>
      do x <- eval en a; do y <- eval en b; arith op x y
  | ENeg a =>
      do x <- eval en a; arith AMinus (VInt 0) x
  | EValues c =>
      match e_ins en with
      | None => Ok VNull
      | Some r =>
          match find_col c (e_cols en) with
          | Some (i, _) => Ok (nth i r VNull)
          | None => Er (EErr E_BADFIELD)
          end
      end
  | EDefault => Er EUnsup
  end.

(* name resolution, done before any row is looked at *)
Fixpoint cols_ok (cols : list column) (e : expr) {struct e} : bool :=
  let known c := match find_col c cols with Some _ => true | None => false end in
  match e with
  | ECol c => known c
  | EValues c => known c
  | ELit _ | EParam _ | EDefault => true
  | EParen a | ENot a | ENeg a | EIsNull _ a => cols_ok cols a
  | ECmp _ a b | EAnd a b | EOr a b | EXor a b | ELike _ a b | EArith _ a b =>
      cols_ok cols a && cols_ok cols b
  | EIn _ a l =>
      cols_ok cols a && (fix all (l : list expr) : bool :=
                            match l with [] => true | x :: l' => cols_ok cols x && all l' end) l
  | ERowIn _ a l =>
      (fix all (l : list expr) : bool :=
         match l with [] => true | x :: l' => cols_ok cols x && all l' end) a &&
      (fix rows (l : list (list expr)) : bool :=
         match l with
         | [] => true
         | r :: l' => (fix all (l : list expr) : bool :=
                         match l with [] => true | x :: l' => cols_ok cols x && all l' end) r && rows l'
         end) l
  | EBetween _ a lo hi => cols_ok cols a && cols_ok cols lo && cols_ok cols hi
  end.

(* ---------------------------------------------------------------- statements *)
Inductive limarg := LimLit (z : Z) | LimArg (i : nat).
Inductive fields := FStar | FList (l : list expr) | FCount.
Inductive insmode := InsPlain | InsIgnore | InsReplace.
Definition orderby := list (expr * bool).         (* expression, DESC *)
Definition limit := option (limarg * option limarg).   (* count, offset *)

Inductive stmt :=
| SSelect (f : fields) (w : option expr) (o : orderby) (lim : limit) (forupd : bool)
| SInsert (mode : insmode) (cols : option (list bytes)) (rows : list (list expr))
          (ondup : list (bytes * expr))
| SUpdate (sets : list (bytes * expr)) (w : option expr) (o : orderby) (lim : limit)
| SDelete (w : option expr) (o : orderby) (lim : limit).

Record tstate := { ts_rows : tbl; ts_auto : Z }.

Inductive outcome :=
| OkRows (rows : list row)
| OkMod (affected : Z) (lastid : Z)
| Fail (e : err).

(* r_locks: the row locks the statement asked for and got, in order (also when
   it failed afterwards: a failing statement keeps the locks it took) *)
Record result := { r_state : tstate; r_out : outcome; r_locks : list key }.

(* which keys are locked by somebody else: asking for one is an immediate 1205 *)
Definition blocker := key -> bool.
Definition no_block : blocker := fun _ => false.

Fixpoint free_prefix (bl : blocker) (ks : list key) : list key :=
  match ks with
  | [] => []
  | k :: ks' => if bl k then [] else k :: free_prefix bl ks'
  end.

(* ---- row selection: WHERE, ORDER BY, LIMIT ---- *)
Definition matches (en : env) (w : option expr) (r : row) : res bool :=
  match w with
  | None => Ok true
  | Some e => do v <- eval (with_row en r) e; do t <- truth v; Ok (is_true t)
  end.

Fixpoint filter_rows (en : env) (w : option expr) (t : tbl) : res tbl :=
  match t with
  | [] => Ok []
  | (k, r) :: t' =>
      do keep <- matches en w r;
      do rest <- filter_rows en w t';
      Ok (if keep then (k, r) :: rest else rest)
  end.

(* ORDER BY: NULL first, numbers numerically, strings bytewise; a sort key
   whose values mix numbers and strings is outside the model *)
Definition ocmp (a b : value) : comparison :=
  match a, b with
  | VNull, VNull => Eq
  | VNull, _ => Lt
  | _, VNull => Gt
  | _, _ => match compare_v a b with Ok (Some c) => c | _ => Eq end
  end.

Fixpoint kcmp (descs : list bool) (a b : list value) : comparison :=
  match descs, a, b with
  | d :: ds, x :: a', y :: b' =>
      match (if d then CompOpp (ocmp x y) else ocmp x y) with
      | Eq => kcmp ds a' b'
      | c => c
      end
  | _, _, _ => Eq
  end.

Definition keyed := (list value * (key * row))%type.

Fixpoint oins (descs : list bool) (x : keyed) (l : list keyed) : list keyed :=
  match l with
  | [] => [x]
  | y :: l' =>
      match kcmp descs (fst x) (fst y) with
      | Gt => y :: oins descs x l'
      | _ => x :: l
      end
  end.

Definition osort (descs : list bool) (l : list keyed) : list keyed :=
  fold_right (oins descs) [] l.

Fixpoint eval_list (en : env) (l : list expr) : res (list value) :=
  match l with
  | [] => Ok []
  | e :: l' => do v <- eval en e; do vs <- eval_list en l'; Ok (v :: vs)
  end.

Fixpoint key_rows (en : env) (es : list expr) (t : tbl) : res (list keyed) :=
  match t with
  | [] => Ok []
  | (k, r) :: t' =>
      do ks <- eval_list (with_row en r) es;
      do rest <- key_rows en es t';
      Ok ((ks, (k, r)) :: rest)
  end.

(* 0 NULL, 1 number, 2 string, 3 not modelled *)
Definition vclass (v : value) : N :=
  match v with
  | VNull => 0%N
  | VInt _ => 1%N
  | VDec s => if scan_is_decimal (scan_num s) then 1%N else 3%N
  | VStr _ | VBytes _ => 2%N
  | _ => 3%N
  end.

Fixpoint column_classes (i : nat) (l : list keyed) : list N :=
  match l with
  | [] => []
  | x :: l' => vclass (nth i (fst x) VNull) :: column_classes i l'
  end.

Definition homogeneous (cl : list N) : bool :=
  negb (existsb (N.eqb 3) cl) && negb (existsb (N.eqb 1) cl && existsb (N.eqb 2) cl).

Fixpoint all_homogeneous (n : nat) (l : list keyed) : bool :=
  match n with
  | O => true
  | S n' => homogeneous (column_classes n' l) && all_homogeneous n' l
  end.

Definition order_rows (en : env) (o : orderby) (t : tbl) : res tbl :=
  match o with
  | [] => Ok t
  | _ =>
      do ks <- key_rows en (map fst o) t;
      if all_homogeneous (length o) ks then Ok (map snd (osort (map snd o) ks))
      else Er EUnsup
  end.

Definition limit_num (en : env) (a : limarg) : res Z :=
  do v <- match a with
          | LimLit z => Ok (VInt z)
          | LimArg i => match nth_error (e_args en) i with
                        | Some v => Ok v
                        | None => Er (EErr E_UNKNOWN)
                        end
          end;
  do z <- match v with
          | VInt z => Ok (Some z)
          | VStr s | VBytes s => strint s
          | VNull | VDec _ => Ok None
          | _ => Er EUnsup
          end;
  match z with
  | Some z => if (0 <=? z) && (z <=? MAX_I64) then Ok z else Er (EErr E_PARSE)
  | None => Er (EErr E_PARSE)
  end.

Definition clampn {A} (z : Z) (l : list A) : nat := Z.to_nat (Z.min z (Z.of_nat (length l))).

Definition limit_rows {A} (en : env) (lim : limit) (l : list A) : res (list A) :=
  match lim with
  | None => Ok l
  | Some (cnt, off) =>
      do o <- match off with Some a => limit_num en a | None => Ok 0 end;
      do c <- limit_num en cnt;
      let l1 := skipn (clampn o l) l in
      Ok (firstn (clampn c l1) l1)
  end.

Definition select_rows (en : env) (w : option expr) (o : orderby) (lim : limit) (t : tbl) : res tbl :=
  do sel <- filter_rows en w t;
  do sel <- order_rows en o sel;
  limit_rows en lim sel.

Fixpoint project (en : env) (es : list expr) (sel : tbl) : res (list row) :=
  match sel with
  | [] => Ok []
  | (_, r) :: sel' =>
      do vs <- eval_list (with_row en r) es;
      do rest <- project en es sel';
      Ok (vs :: rest)
  end.

Definition all_cols_ok (cols : list column) (es : list expr) : bool := forallb (cols_ok cols) es.
Definition opt_cols_ok (cols : list column) (w : option expr) : bool :=
  match w with Some e => cols_ok cols e | None => true end.

Definition mk_env (sch : schema) (args : list value) : env :=
  {| e_cols := s_cols sch; e_row := []; e_args := args; e_ins := None |}.

Definition select_static_ok (sch : schema) (f : fields) (w : option expr) (o : orderby) : bool :=
  let cols := s_cols sch in
  let fl := match f with FList l => l | _ => [] end in
  all_cols_ok cols fl && opt_cols_ok cols w && all_cols_ok cols (map fst o).

Definition exec_select (sch : schema) (t : tbl) (f : fields) (w : option expr) (o : orderby)
           (lim : limit) (args : list value) : res (list row) :=
  let en := mk_env sch args in
  if negb (select_static_ok sch f w o)
  then Er (EErr E_BADFIELD)
  else
    do sel <- select_rows en w o lim t;
    match f with
    | FStar => Ok (map snd sel)
    | FList l => project en l sel
    | FCount => Ok [[VInt (Z.of_nat (length sel))]]
    end.

(* SELECT ... FOR UPDATE locks the selected rows (after LIMIT), in result order,
   before the select list is evaluated *)
Definition exec_select_l (bl : blocker) (sch : schema) (t : tbl) (f : fields) (w : option expr)
           (o : orderby) (lim : limit) (forupd : bool) (args : list value) : res (list row) * list key :=
  if forupd && select_static_ok sch f w o then
    match select_rows (mk_env sch args) w o lim t with
    | Ok sel =>
        if existsb bl (keys sel) then (Er (EErr E_LOCKWAIT), free_prefix bl (keys sel))
        else (exec_select sch t f w o lim args, keys sel)
    | Er _ => (exec_select sch t f w o lim args, [])
    end
  else (exec_select sch t f w o lim args, []).

(* ---- writes: a fold over the rows of the statement ---- *)
Record wstate := { w_t : tbl; w_auto : Z; w_aff : Z; w_last : Z; w_locks : list key }.

(* AUTO_INCREMENT is not transactional: a failing statement keeps the counter
   (and the locks it took) *)
Inductive wres := WOk (s : wstate) | WFail (auto : Z) (locks : list key) (e : err).

Fixpoint wfold {A} (f : wstate -> A -> wres) (l : list A) (s : wstate) : wres :=
  match l with
  | [] => WOk s
  | x :: l' => match f s x with WOk s' => wfold f l' s' | WFail a l e => WFail a l e end
  end.

Definition put (k : key) (r : row) (t : tbl) : tbl := ins_sorted (k, r) t.

Definition remove_keys (ks : list key) (t : tbl) : tbl :=
  filter (fun kr => negb (existsb (key_eqb (fst kr)) ks)) t.

Fixpoint bump_auto (cols : list column) (vals : row) (auto : Z) : Z :=
  match cols, vals with
  | c :: cols', v :: vals' =>
      let auto' := match v with
                   | VInt z => if c_auto c && (auto <=? z) && (z <=? MAX_I64) then z + 1 else auto
                   | _ => auto
                   end in
      bump_auto cols' vals' auto'
  | _, _ => auto
  end.

(* SET assignments left to right; later ones see the earlier ones *)
Fixpoint apply_sets (en : env) (sets : list (bytes * expr)) (vals : row) : res row :=
  match sets with
  | [] => Ok vals
  | (c, e) :: sets' =>
      match find_col c (e_cols en) with
      | None => Er (EErr E_BADFIELD)
      | Some (i, col) =>
          do v <- match e with
                  | EDefault => default_of col
                  | _ => eval (with_row en vals) e
                  end;
          do v' <- store col v;
          apply_sets en sets' (set_nth i v' vals)
      end
  end.

(* one row of an UPDATE / of ON DUPLICATE KEY UPDATE: `inc` is what a changed
   row adds to the affected count *)
Definition update_row (bl : blocker) (sch : schema) (en : env) (sets : list (bytes * expr)) (inc : Z)
           (s : wstate) (kr : key * row) : wres :=
  let '(k, old) := kr in
  match apply_sets en sets old with
  | Er e => WFail (w_auto s) (w_locks s) e
  | Ok vals =>
      if row_eqb vals old then WOk s
      else
        let auto' := bump_auto (s_cols sch) vals (w_auto s) in
        let k' := key_of sch vals in
        let req := row_locks sch vals in
        (* the row lock of the (possibly new) key and the unique-value locks are
           taken before the duplicate check, which looks at every unique index *)
        if existsb bl req then WFail auto' (w_locks s ++ free_prefix bl req) (EErr E_LOCKWAIT)
        else if (negb (key_eqb k' k) && mem k' (w_t s))
                || match sec_conflicts (s_uniq sch) vals [k; k'] (w_t s) with [] => false | _ => true end
        then WFail auto' (w_locks s ++ req) (EErr E_DUP)
        else WOk {| w_t := put k' vals (remove k (w_t s)); w_auto := auto';
                    w_aff := w_aff s + inc; w_last := w_last s; w_locks := w_locks s ++ req |}
  end.

Definition sets_ok (cols : list column) (sets : list (bytes * expr)) : bool :=
  forallb (fun ce => match find_col (fst ce) cols with Some _ => true | None => false end) sets.

Definition exec_update (bl : blocker) (sch : schema) (st : tstate) (sets : list (bytes * expr)) (w : option expr)
           (o : orderby) (lim : limit) (args : list value) : result :=
  let cols := s_cols sch in
  let en := mk_env sch args in
  let t := ts_rows st in
  if negb (sets_ok cols sets && all_cols_ok cols (map snd sets) && opt_cols_ok cols w
           && all_cols_ok cols (map fst o))
  then {| r_state := st; r_out := Fail (EErr E_BADFIELD); r_locks := [] |}
  else
    match select_rows en w o lim t with
    | Er e => {| r_state := st; r_out := Fail e; r_locks := [] |}
    | Ok sel =>
        (* every selected row is locked first, in selection order *)
        if existsb bl (keys sel)
        then {| r_state := st; r_out := Fail (EErr E_LOCKWAIT); r_locks := free_prefix bl (keys sel) |}
        else
        match wfold (update_row bl sch en sets 1) sel
                    {| w_t := t; w_auto := ts_auto st; w_aff := 0; w_last := 0; w_locks := keys sel |} with
        | WOk s => {| r_state := {| ts_rows := w_t s; ts_auto := w_auto s |};
                      r_out := OkMod (w_aff s) 0; r_locks := w_locks s |}
        | WFail a l e => {| r_state := {| ts_rows := t; ts_auto := a |}; r_out := Fail e; r_locks := l |}
        end
    end.

Definition exec_delete (bl : blocker) (sch : schema) (st : tstate) (w : option expr) (o : orderby) (lim : limit)
           (args : list value) : result :=
  let cols := s_cols sch in
  let en := mk_env sch args in
  let t := ts_rows st in
  if negb (opt_cols_ok cols w && all_cols_ok cols (map fst o))
  then {| r_state := st; r_out := Fail (EErr E_BADFIELD); r_locks := [] |}
  else
    match select_rows en w o lim t with
    | Er e => {| r_state := st; r_out := Fail e; r_locks := [] |}
    | Ok sel =>
        if existsb bl (keys sel)
        then {| r_state := st; r_out := Fail (EErr E_LOCKWAIT); r_locks := free_prefix bl (keys sel) |}
        else
        {| r_state := {| ts_rows := remove_keys (keys sel) t; ts_auto := ts_auto st |};
           r_out := OkMod (Z.of_nat (length sel)) 0; r_locks := keys sel |}
    end.

(* ---- INSERT ---- *)
Fixpoint resolve_cols (cols : list column) (names : list bytes) (seen : list nat) : res (list nat) :=
  match names with
  | [] => Ok []
  | c :: names' =>
      match find_col c cols with
      | None => Er (EErr E_BADFIELD)
      | Some (i, _) =>
          if existsb (Nat.eqb i) seen then Er (EErr E_FIELDTWICE)
          else do rest <- resolve_cols cols names' (i :: seen); Ok (i :: rest)
      end
  end.

(* the listed values, left to right *)
Fixpoint given_values (en : env) (cols : list column) (idx : list nat) (es : list expr)
         (vals : list (option value)) : res (list (option value)) :=
  match idx, es with
  | i :: idx', e :: es' =>
      do v <- match e with
              | EDefault => match nth_error cols i with
                            | Some col => default_of col
                            | None => Er EUnsup
                            end
              | _ => eval en e
              end;
      given_values en cols idx' es' (set_nth i (Some v) vals)
  | _, _ => Ok vals
  end.

(* defaults for the columns that were not listed *)
Fixpoint fill_defaults (cols : list column) (vals : list (option value)) : res row :=
  match cols, vals with
  | c :: cols', v :: vals' =>
      do x <- match v with Some x => Ok x | None => default_of c end;
      do rest <- fill_defaults cols' vals';
      Ok (x :: rest)
  | _, _ => Ok []
  end.

(* AUTO_INCREMENT columns that received NULL or 0 *)
Fixpoint gen_auto (cols : list column) (vals : row) (auto last : Z) : row * Z * Z :=
  match cols, vals with
  | c :: cols', v :: vals' =>
      let gen := c_auto c && match v with VNull => true | VInt 0 => true | _ => false end in
      let v1 := if gen then VInt auto else v in
      let last1 := if gen && (last =? 0) then auto else last in
      let auto1 := if gen then auto + 1 else auto in
      let '(rest, a, l) := gen_auto cols' vals' auto1 last1 in
      (v1 :: rest, a, l)
  | _, _ => ([], auto, last)
  end.

(* store column by column; the counter follows an explicit AUTO_INCREMENT value
   as soon as that column has been stored *)
Fixpoint store_all (cols : list column) (vals : row) (auto : Z) : Z * res row :=
  match cols, vals with
  | c :: cols', v :: vals' =>
      match store c v with
      | Er e => (auto, Er e)
      | Ok v' =>
          let auto1 := match v' with
                       | VInt z => if c_auto c && (auto <=? z) && (z <=? MAX_I64) then z + 1 else auto
                       | _ => auto
                       end in
          let '(a, r) := store_all cols' vals' auto1 in
          (a, match r with Ok rest => Ok (v' :: rest) | Er e => Er e end)
      end
  | _, _ => (auto, Ok [])
  end.

Definition insert_row (bl : blocker) (sch : schema) (en : env) (mode : insmode) (idx : list nat)
           (ondup : list (bytes * expr)) (s : wstate) (es : list expr) : wres :=
  let cols := s_cols sch in
  match (do g <- given_values en cols idx es (map (fun _ => None) cols); fill_defaults cols g) with
  | Er e => WFail (w_auto s) (w_locks s) e
  | Ok vals0 =>
      let '(vals1, auto1, last1) := gen_auto cols vals0 (w_auto s) (w_last s) in
      match store_all cols vals1 auto1 with
      | (auto2, Er e) => WFail auto2 (w_locks s) e
      | (auto2, Ok vals) =>
          let k := key_of sch vals in
          (* the row lock of the new key comes first: an uncommitted row (or an
             uncommitted delete) of another transaction under that key is a 1205 *)
          let req := row_locks sch vals in
          if existsb bl req then WFail auto2 (w_locks s ++ free_prefix bl req) (EErr E_LOCKWAIT) else
          let lk := w_locks s ++ req in
          let s1 := {| w_t := w_t s; w_auto := auto2; w_aff := w_aff s; w_last := last1; w_locks := lk |} in
          (* the rows in the way: the holder of the primary key first, then the
             holders of the secondary unique values in index order *)
          let confl := match lookup k (w_t s) with Some old => [(k, old)] | None => [] end
                       ++ sec_conflicts (s_uniq sch) vals [k] (w_t s) in
          match confl with
          | [] => WOk {| w_t := put k vals (w_t s); w_auto := auto2;
                         w_aff := w_aff s + 1; w_last := last1; w_locks := lk |}
          | (ko, old) :: _ =>
              match ondup with
              | _ :: _ =>
                  (* the FIRST row in the way is updated, under its row lock *)
                  if bl ko then WFail auto2 lk (EErr E_LOCKWAIT) else
                  update_row bl sch {| e_cols := cols; e_row := []; e_args := e_args en;
                                       e_ins := Some vals |} ondup 2
                             {| w_t := w_t s; w_auto := auto2; w_aff := w_aff s; w_last := last1;
                                w_locks := lk ++ [ko] |} (ko, old)
              | [] =>
                  match mode with
                  | InsReplace =>
                      (* every row in the way is deleted: 1 + their number *)
                      let ks := keys confl in
                      if existsb bl ks then WFail auto2 (lk ++ free_prefix bl ks) (EErr E_LOCKWAIT)
                      else WOk {| w_t := put k vals (remove_keys ks (w_t s)); w_auto := auto2;
                                  w_aff := w_aff s + 1 + Z.of_nat (length confl); w_last := last1;
                                  w_locks := lk ++ ks |}
                  | InsIgnore => WOk s1
                  | InsPlain => WFail auto2 lk (EErr E_DUP)
                  end
              end
          end
      end
  end.

Definition arity_ok (ncols : nat) (listed : bool) (rows : list (list expr)) : bool :=
  forallb (fun r => Nat.eqb (length r) ncols || (negb listed && Nat.eqb (length r) 0)) rows.

Definition exec_insert (bl : blocker) (sch : schema) (st : tstate) (mode : insmode) (names : option (list bytes))
           (rows : list (list expr)) (ondup : list (bytes * expr)) (args : list value) : result :=
  let cols := s_cols sch in
  let en := mk_env sch args in
  let t := ts_rows st in
  let fail e := {| r_state := st; r_out := Fail e; r_locks := [] |} in
  match (match names with
         | Some ns => resolve_cols cols ns []
         | None => Ok (seq 0 (length cols))
         end) with
  | Er e => fail e
  | Ok idx =>
      if negb (arity_ok (length idx) (match names with Some _ => true | None => false end) rows)
      then fail (EErr E_VALCOUNT)
      else if negb (forallb (all_cols_ok cols) rows && sets_ok cols ondup
                    && all_cols_ok cols (map snd ondup))
      then fail (EErr E_BADFIELD)
      else
        match wfold (insert_row bl sch en mode idx ondup) rows
                    {| w_t := t; w_auto := ts_auto st; w_aff := 0; w_last := 0; w_locks := [] |} with
        | WOk s => {| r_state := {| ts_rows := w_t s; ts_auto := w_auto s |};
                      r_out := OkMod (w_aff s) (w_last s); r_locks := w_locks s |}
        | WFail a l e => {| r_state := {| ts_rows := t; ts_auto := a |}; r_out := Fail e; r_locks := l |}
        end
  end.

(* ---------------------------------------------------------------- exec *)
(* exec_l: one statement on the rows its connection sees, `bl` telling which
   keys other transactions have locked *)
Definition exec_l (bl : blocker) (sch : schema) (st : tstate) (s : stmt) (args : list value) : result :=
  match s with
  | SSelect f w o lim fu =>
      let '(r, ks) := exec_select_l bl sch (ts_rows st) f w o lim fu args in
      {| r_state := st;
         r_out := match r with
                  | Ok rows => OkRows rows
                  | Er e => Fail e
                  end;
         r_locks := ks |}
  | SInsert mode names rows ondup => exec_insert bl sch st mode names rows ondup args
  | SUpdate sets w o lim => exec_update bl sch st sets w o lim args
  | SDelete w o lim => exec_delete bl sch st w o lim args
  end.

(* a single connection: nobody else holds a lock *)
Definition exec (sch : schema) (st : tstate) (s : stmt) (args : list value) : result :=
  exec_l no_block sch st s args.
