(* C02 — correspondence cases: what the real AT proxy did (journal of database and
   coordinator calls, user-visible results, durable state, open flag) under a fault script,
   against the model of At/Commit.v.  Evaluated with vm_compute by the driver. *)
From Coq Require Import List NArith Bool Arith.
From SeataV Require Import At.Commit.
Import ListNotations.

Record ccase := {
  c_use : use ;
  c_script : script ;
  c_journal : list event ;       (* observed *)
  c_results : list bool ;        (* observed *)
  c_durable_biz : list nat ;     (* observed *)
  c_durable_undo : list N ;      (* observed *)
  c_open : bool                  (* observed *)
}.

Definition dbop_eqb (a b : dbop) : bool :=
  match a, b with
  | OBegin, OBegin | OQuery, OQuery | OUndo, OUndo | OCommit, OCommit | ORollback, ORollback => true
  | OStmt x, OStmt y => Nat.eqb x y
  | _, _ => false
  end.

Definition optN_eqb (a b : option N) : bool :=
  match a, b with
  | Some x, Some y => N.eqb x y
  | None, None => true
  | _, _ => false
  end.

Definition event_eqb (a b : event) : bool :=
  match a, b with
  | EDb o r, EDb o' r' => dbop_eqb o o' && Bool.eqb r r'
  | EReg g, EReg g' => optN_eqb g g'
  | ERep d r, ERep d' r' => Bool.eqb d d' && Bool.eqb r r'
  | _, _ => false
  end.

Fixpoint list_eqb {A} (f : A -> A -> bool) (a b : list A) : bool :=
  match a, b with
  | [], [] => true
  | x :: a', y :: b' => f x y && list_eqb f a' b'
  | _, _ => false
  end.

Definition durable_eqb (d : durable) (biz : list nat) (undo : list N) : bool :=
  list_eqb Nat.eqb (d_biz d) biz && list_eqb N.eqb (d_undo d) undo.

Definition empty_db : durable := {| d_biz := [] ; d_undo := [] |}.

(* codes: 1 journal differs from the model's; 2 results differ; 3 durable state differs;
   4 open flag differs *)
Definition check_case (c : ccase) : list N :=
  let o := run empty_db (c_use c) (c_script c) in
  (if list_eqb event_eqb (o_journal o) (c_journal c) then [] else [1%N]) ++
  (if list_eqb Bool.eqb (o_results o) (c_results c) then [] else [2%N]) ++
  (if durable_eqb (o_durable o) (c_durable_biz c) (c_durable_undo c) then [] else [3%N]) ++
  (if Bool.eqb (o_open o) (c_open c) then [] else [4%N]).

Fixpoint mism_from (i : nat) (l : list ccase) : list (nat * N) :=
  match l with
  | [] => []
  | c :: l' => map (fun e => (i, e)) (check_case c) ++ mism_from (S i) l'
  end.
Definition mismatches (cs : list ccase) : list (nat * N) := mism_from 0 cs.

(* the equalities decide equality *)
Lemma dbop_eqb_eq : forall a b, dbop_eqb a b = true <-> a = b.
Proof.
  intros a b; split.
  - destruct a, b; simpl; intros H; try discriminate; try reflexivity.
    apply Nat.eqb_eq in H. now subst.
  - intros <-. destruct a; simpl; auto. apply Nat.eqb_refl.
Qed.

Lemma event_eqb_eq : forall a b, event_eqb a b = true <-> a = b.
Proof.
  intros a b; split.
  - destruct a as [o r|g|d r], b as [o' r'|g'|d' r']; simpl; intros H; try discriminate.
    + apply andb_true_iff in H as [H1 H2]. apply dbop_eqb_eq in H1. apply eqb_prop in H2. now subst.
    + destruct g, g'; simpl in H; try discriminate; auto. apply N.eqb_eq in H. now subst.
    + apply andb_true_iff in H as [H1 H2]. apply eqb_prop in H1. apply eqb_prop in H2. now subst.
  - intros <-. destruct a as [o r|g|d r]; simpl.
    + rewrite (proj2 (dbop_eqb_eq o o) eq_refl). now rewrite eqb_reflx.
    + destruct g; simpl; auto. apply N.eqb_refl.
    + now rewrite !eqb_reflx.
Qed.

Lemma list_eqb_eq : forall A (f : A -> A -> bool), (forall x y, f x y = true <-> x = y) ->
  forall a b, list_eqb f a b = true <-> a = b.
Proof.
  intros A f Hf. induction a as [|x a IH]; intros [|y b]; simpl; split; intros H; try discriminate; auto.
  - apply andb_true_iff in H as [H1 H2]. apply Hf in H1. apply IH in H2. now subst.
  - inversion H; subst. apply andb_true_iff. split; [now apply Hf|now apply IH].
Qed.

(* an empty list of codes means the observation IS the model's outcome *)
Lemma check_case_sound : forall c, check_case c = [] ->
  let o := run empty_db (c_use c) (c_script c) in
  o_journal o = c_journal c /\ o_results o = c_results c /\
  d_biz (o_durable o) = c_durable_biz c /\ d_undo (o_durable o) = c_durable_undo c /\
  o_open o = c_open c.
Proof.
  intros c H o. unfold check_case in H. fold o in H.
  destruct (list_eqb event_eqb (o_journal o) (c_journal c)) eqn:E1; [|discriminate].
  destruct (list_eqb Bool.eqb (o_results o) (c_results c)) eqn:E2; [|discriminate].
  destruct (durable_eqb (o_durable o) (c_durable_biz c) (c_durable_undo c)) eqn:E3; [|discriminate].
  destruct (Bool.eqb (o_open o) (c_open c)) eqn:E4; [|discriminate].
  apply (list_eqb_eq _ _ event_eqb_eq) in E1.
  apply (list_eqb_eq _ Bool.eqb) in E2; [|intros x y; split; [apply eqb_prop|intros <-; apply eqb_reflx]].
  unfold durable_eqb in E3. apply andb_true_iff in E3 as [E3 E3'].
  apply (list_eqb_eq _ _ Nat.eqb_eq) in E3. apply (list_eqb_eq _ _ N.eqb_eq) in E3'.
  apply eqb_prop in E4. auto.
Qed.

(* ---- self-test: the model's own outcomes, written out by hand *)
Definition upd (i : nat) : stmt := {| st_id := i ; st_kind := KUpdate ; st_rows := true |}.
Definition self_cases : list ccase :=
  [ (* clean autocommit update *)
    {| c_use := Auto (upd 7) ; c_script := {| s_db := [] ; s_reg := [Some 42%N] ; s_rep := [] |} ;
       c_journal := [EDb OBegin true; EDb OQuery true; EDb (OStmt 7) true; EDb OQuery true;
                     EReg (Some 42%N); EDb OUndo true; EDb OCommit true; ERep true true] ;
       c_results := [true] ; c_durable_biz := [7] ; c_durable_undo := [42%N] ; c_open := false |} ;
    (* undo insert fails: rollback, PhaseOne_Failed reported (second attempt succeeds) *)
    {| c_use := Auto (upd 7) ;
       c_script := {| s_db := [true; true; true; true; false] ; s_reg := [Some 42%N] ; s_rep := [false; true] |} ;
       c_journal := [EDb OBegin true; EDb OQuery true; EDb (OStmt 7) true; EDb OQuery true;
                     EReg (Some 42%N); EDb OUndo false; EDb ORollback true; ERep false false; ERep false true] ;
       c_results := [false] ; c_durable_biz := [] ; c_durable_undo := [] ; c_open := false |} ;
    (* register refused *)
    {| c_use := Auto (upd 7) ; c_script := {| s_db := [] ; s_reg := [None] ; s_rep := [] |} ;
       c_journal := [EDb OBegin true; EDb OQuery true; EDb (OStmt 7) true; EDb OQuery true;
                     EReg None; EDb ORollback true] ;
       c_results := [false] ; c_durable_biz := [] ; c_durable_undo := [] ; c_open := false |} ].

Example self_cases_agree : mismatches self_cases = [].
Proof. vm_compute. reflexivity. Qed.
