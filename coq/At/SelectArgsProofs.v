(* C18_args: the argument selection picks exactly the arguments whose markers
   occur in the walked parts, for every tree all of whose marker-bearing paths
   use node kinds / fields of the table. *)
From Coq Require Import List String NArith Bool Permutation.
From SeataV Require Import At.SelectArgs Gen.Traverse.
Import ListNotations.
Open Scope string_scope.
Open Scope list_scope.

(* nested induction principle *)
Section ExprInd.
  Variable P : expr -> Prop.
  Hypothesis Hp : forall n, P (EParam n).
  Hypothesis Hn : forall k cs, Forall (fun fc => P (snd fc)) cs -> P (ENode k cs).
  Fixpoint expr_ind' (e : expr) : P e :=
    match e with
    | EParam n => Hp n
    | ENode k cs =>
        Hn k cs ((fix go (l : list (string * expr)) : Forall (fun fc => P (snd fc)) l :=
                    match l with
                    | [] => Forall_nil _
                    | fc :: l' => Forall_cons fc (expr_ind' (snd fc)) (go l')
                    end) cs)
    end.
End ExprInd.

Lemma traverse_nil : forall t e, markers e = [] -> traverse t e = [].
Proof.
  intros t e. induction e as [n | k cs IH] using expr_ind'; intro H.
  - discriminate.
  - cbn [markers traverse] in *. induction cs as [| [f c] cs IHcs]; [reflexivity |].
    inversion IH as [| ? ? Hc Hcs]; subst.
    apply app_eq_nil in H. destruct H as [H1 H2].
    cbn [snd] in Hc. rewrite (IHcs Hcs H2).
    destruct (field_ok t k f); [rewrite (Hc H1) |]; reflexivity.
Qed.

Theorem traverse_covered : forall t e, covered t e = true -> traverse t e = markers e.
Proof.
  intros t e. induction e as [n | k cs IH] using expr_ind'; intro H.
  - cbn in *. rewrite H. reflexivity.
  - cbn [markers traverse covered] in *. induction cs as [| [f c] cs IHcs]; [reflexivity |].
    inversion IH as [| ? ? Hc Hcs]; subst. cbn [snd] in Hc.
    apply andb_true_iff in H. destruct H as [H1 H2].
    rewrite (IHcs Hcs H2). f_equal.
    apply orb_true_iff in H1. destruct H1 as [H1 | H1].
    + destruct (markers c) eqn:E; [| discriminate].
      destruct (field_ok t k f); [apply traverse_nil; exact E | reflexivity].
    + apply andb_true_iff in H1. destruct H1 as [Hf Hcov]. rewrite Hf. apply Hc. exact Hcov.
Qed.

(* monotone in the table *)
Lemma field_ok_le : forall g t k f, table_leb g t = true -> field_ok g k f = true -> field_ok t k f = true.
Proof.
  intros g t k f Hle Hf. unfold table_leb in Hle. rewrite forallb_forall in Hle.
  unfold field_ok in Hf. destruct (fields_of g k) as [fs |] eqn:E; [| discriminate].
  assert (Hin : exists k', In (k', fs) g /\ k = k').
  { clear Hle Hf. induction g as [| [k' fs'] g IHg]; [discriminate |].
    cbn in E. destruct (String.eqb k k') eqn:Ek.
    - inversion E; subst. exists k'. split; [left; reflexivity | apply String.eqb_eq; exact Ek].
    - destruct (IHg E) as [k2 [Hi He]]. exists k2. split; [right; exact Hi | exact He]. }
  destruct Hin as [k' [Hin Hk]]. subst k'.
  specialize (Hle _ Hin). cbn in Hle. rewrite forallb_forall in Hle.
  apply Hle. clear - Hf. induction fs as [| x fs IHfs]; [discriminate |].
  cbn in Hf. apply orb_true_iff in Hf. destruct Hf as [Hf | Hf].
  - left. symmetry. apply String.eqb_eq. exact Hf.
  - right. apply IHfs. exact Hf.
Qed.

Lemma covered_le : forall g t e, table_leb g t = true -> covered g e = true -> covered t e = true.
Proof.
  intros g t e Hle. induction e as [n | k cs IH] using expr_ind'; intro H.
  - cbn in *. unfold param_ok in *. eapply field_ok_le; eassumption.
  - cbn [covered] in *. induction cs as [| [f c] cs IHcs]; [reflexivity |].
    inversion IH as [| ? ? Hc Hcs]; subst. cbn [snd] in Hc.
    apply andb_true_iff in H. destruct H as [H1 H2].
    rewrite (IHcs Hcs H2). rewrite andb_true_r.
    apply orb_true_iff in H1. destruct H1 as [H1 | H1]; [rewrite H1; reflexivity |].
    apply andb_true_iff in H1. destruct H1 as [Hf Hcov].
    rewrite (field_ok_le _ _ _ _ Hle Hf), (Hc Hcov). apply orb_true_r.
Qed.

Lemma walk_roots_covered : forall t walked roots,
  roots_covered t roots = true -> roots_in walked roots = true ->
  walk_roots t walked roots = all_markers roots.
Proof.
  intros t walked roots. unfold walk_roots, all_markers, roots_covered, roots_in.
  induction roots as [| [r e] roots IH]; intros Hc Hi; [reflexivity |].
  cbn in *. apply andb_true_iff in Hc. destruct Hc as [Hc1 Hc2].
  apply andb_true_iff in Hi. destruct Hi as [Hi1 Hi2].
  rewrite (IH Hc2 Hi2). f_equal.
  apply orb_true_iff in Hi1. destruct Hi1 as [Hn | Hm].
  - destruct (markers e) eqn:E; [| discriminate].
    destruct (mem_str r walked); [apply traverse_nil; exact E | reflexivity].
  - rewrite Hm. apply traverse_covered. exact Hc1.
Qed.

(* the generated table is well formed and descends wherever the grammar needs it *)
Lemma gen_table_wf : traverse_unknown = [] /\ select_sorted = true /\ select_picks_by_index = true.
Proof. repeat split; vm_compute; reflexivity. Qed.

Lemma gen_table_covers_grammar :
  table_leb grammar traverse_table = true /\ forallb (fun r => mem_str r select_roots) grammar_roots = true.
Proof. split; vm_compute; reflexivity. Qed.

Theorem select_args_exact : forall (A : Type) (roots : list (string * expr)) (args : list A),
  roots_covered grammar roots = true -> roots_in grammar_roots roots = true ->
  select_idx traverse_table select_roots select_sorted roots = sortN (all_markers roots)
  /\ select_args traverse_table select_roots select_sorted roots args = pick args (sortN (all_markers roots)).
Proof.
  intros A roots args Hc Hi.
  destruct gen_table_covers_grammar as [Hle Hr].
  assert (Hc' : roots_covered traverse_table roots = true).
  { unfold roots_covered in *. rewrite forallb_forall in *. intros x Hx.
    eapply covered_le; [exact Hle | apply Hc; exact Hx]. }
  assert (Hi' : roots_in select_roots roots = true).
  { unfold roots_in in *. rewrite forallb_forall in *. intros x Hx. specialize (Hi x Hx).
    apply orb_true_iff in Hi. apply orb_true_iff. destruct Hi as [Hi | Hi]; [left; exact Hi | right].
    assert (Hin : In (fst x) grammar_roots).
    { clear - Hi. induction grammar_roots as [| y l IHl]; [discriminate |]. cbn in Hi.
      apply orb_true_iff in Hi. destruct Hi as [Hi | Hi]; [left; symmetry; apply String.eqb_eq; exact Hi | right; apply IHl; exact Hi]. }
    apply Hr. exact Hin. }
  assert (E : select_idx traverse_table select_roots select_sorted roots = sortN (all_markers roots)).
  { unfold select_idx. rewrite (walk_roots_covered _ _ _ Hc' Hi').
    destruct gen_table_wf as [_ [Hs _]]. rewrite Hs. reflexivity. }
  split; [exact E |]. unfold select_args. rewrite E. reflexivity.
Qed.

(* sortN is a sorted permutation: "in order" *)
Lemma ins_perm : forall x l, Permutation (x :: l) (ins x l).
Proof.
  intros x l. induction l as [| y l IH]; cbn; [apply Permutation_refl |].
  destruct (N.leb x y); [apply Permutation_refl |].
  eapply Permutation_trans; [apply perm_swap | apply perm_skip; exact IH].
Qed.

Lemma sortN_perm : forall l, Permutation l (sortN l).
Proof.
  induction l as [| x l IH]; cbn; [apply Permutation_refl |].
  eapply Permutation_trans; [apply perm_skip; exact IH | apply ins_perm].
Qed.

Fixpoint sortedb (l : list N) : bool :=
  match l with
  | x :: ((y :: _) as l') => N.leb x y && sortedb l'
  | _ => true
  end.

Lemma ins_sorted : forall x l, sortedb l = true -> sortedb (ins x l) = true.
Proof.
  intros x l. induction l as [| y l IH]; intro H; [reflexivity |].
  cbn [ins]. destruct (N.leb x y) eqn:E.
  - cbn [sortedb]. rewrite E. exact H.
  - assert (Hyx : N.leb y x = true) by (apply N.leb_le; apply N.leb_gt in E; apply N.lt_le_incl; exact E).
    destruct l as [| z l].
    + cbn. rewrite Hyx. reflexivity.
    + cbn [sortedb] in H. apply andb_true_iff in H. destruct H as [H1 H2].
      specialize (IH H2). cbn [ins] in *. destruct (N.leb x z) eqn:E2.
      * cbn [sortedb]. rewrite Hyx, E2. exact H2.
      * cbn [sortedb] in *. rewrite H1. exact IH.
Qed.

Lemma sortN_sorted : forall l, sortedb (sortN l) = true.
Proof. induction l as [| x l IH]; [reflexivity | cbn; apply ins_sorted; exact IH]. Qed.

(* a node kind outside the table: a marker below it is not selected *)
Definition func_witness : list (string * expr) :=
  [("Where", ENode "BinaryOperationExpr"
              [("L", ENode "ColumnNameExpr" []); ("R", ENode "FuncCallExpr" [("Args", EParam 0%N)])])].

Lemma select_args_refuted_func :
  roots_covered traverse_table func_witness = false
  /\ select_idx traverse_table select_roots select_sorted func_witness <> sortN (all_markers func_witness).
Proof. split; vm_compute; [reflexivity | discriminate]. Qed.

(* non-vacuity: (id = ? OR id IN (?, ?)) AND NOT (age BETWEEN ? AND ?) ORDER BY id LIMIT ? *)
Definition sample_roots : list (string * expr) :=
  let col := ENode "ColumnNameExpr" [("Name", ENode "ColumnName" [])] in
  [("Where", ENode "BinaryOperationExpr"
      [("L", ENode "ParenthesesExpr" [("Expr", ENode "BinaryOperationExpr"
              [("L", ENode "BinaryOperationExpr" [("L", col); ("R", EParam 1%N)]);
               ("R", ENode "PatternInExpr" [("Expr", col); ("List", EParam 2%N); ("List", EParam 3%N)])])]);
       ("R", ENode "UnaryOperationExpr" [("V", ENode "ParenthesesExpr"
              [("Expr", ENode "BetweenExpr" [("Expr", col); ("Left", EParam 4%N); ("Right", EParam 5%N)])])])]);
   ("OrderBy.Items", ENode "ByItem" [("Expr", col)]);
   ("Limit.Count", EParam 6%N)].

Lemma sample_roots_ok :
  roots_covered grammar sample_roots = true /\ roots_in grammar_roots sample_roots = true
  /\ select_args traverse_table select_roots select_sorted sample_roots [10; 11; 12; 13; 14; 15; 16]%N
     = Some [11; 12; 13; 14; 15; 16]%N.
Proof. repeat split; vm_compute; reflexivity. Qed.
