(* C03: cover (every changed row is named by the keys sent), canonical key text, select-for-update, isolation. *)
From Coq Require Import String List NArith ZArith Bool Lia.
From SeataV Require Import Base.Bytes At.Db At.DbProofs At.Image At.ImageProofs At.LockKey At.LockKeyProofs At.Lock.
Import ListNotations.
Open Scope nat_scope.

(* ---- canonical key text ---- *)
Lemma pk_vals_has_key : forall pk k r, has_key_for pk k r -> pk_vals pk r = k.
Proof.
  intros pk k r H. unfold pk_vals. induction H as [| c v pk k Hc _ IH]; [reflexivity |].
  cbn. rewrite Hc. cbn. f_equal. exact IH.
Qed.

Lemma canon_of_has_key : forall pk k r, has_key_for pk k r -> canon_of pk r = canon_row pk k.
Proof. intros pk k r H. unfold canon_of, canon_row. rewrite (pk_vals_has_key _ _ _ H). reflexivity. Qed.

Lemma map_canon_of : forall pk ks rows, Forall2 (has_key_for pk) ks rows -> map (canon_of pk) rows = map (canon_row pk) ks.
Proof.
  intros pk ks rows H. induction H as [| k r ks rows Hk _ IH]; [reflexivity |].
  cbn. rewrite (canon_of_has_key _ _ _ Hk), IH. reflexivity.
Qed.

(* the text is a function of the table name and the key values: whatever statement form produced the image
   (any column order, key columns repeated, other columns in between) *)
Theorem lock_key_text_canonical : forall table pk ks rows,
  Forall2 (has_key_for pk) ks rows ->
  lock_key_text table pk rows = build_lock_key table pk (map (canon_row pk) ks).
Proof. intros. unfold lock_key_text. rewrite (map_canon_of _ _ _ H). reflexivity. Qed.

Theorem lock_key_text_same : forall table pk ks rows1 rows2,
  Forall2 (has_key_for pk) ks rows1 -> Forall2 (has_key_for pk) ks rows2 ->
  lock_key_text table pk rows1 = lock_key_text table pk rows2.
Proof. intros. rewrite (lock_key_text_canonical _ _ _ _ H), (lock_key_text_canonical _ _ _ _ H0). reflexivity. Qed.

(* ... and it is the text the select-for-update builder asks the coordinator about for the same keys *)
Theorem lock_key_text_sfu : forall table pk ks rows,
  Forall2 (has_key_for pk) ks rows -> lock_key_text table pk rows = sfu_key_text table pk ks.
Proof. intros. unfold sfu_key_text. apply lock_key_text_canonical. exact H. Qed.

(* parse (join texts) = keys, for images carrying their keys *)
Theorem lock_key_text_parse : forall pk (items : list (bytes * list key * list irow)),
  pk <> [] -> NoDup pk ->
  (forall t ks rows, In (t, ks, rows) items -> item_ok pk (t, ks) /\ Forall2 (has_key_for pk) ks rows) ->
  parse_lock_keys (join_lock_keys (map (fun it => lock_key_text (fst (fst it)) pk (snd it)) items))
  = map (fun it => (fst (fst it), map key_texts (snd (fst it)))) items.
Proof.
  intros pk items Hne Hnd H.
  assert (E : map (fun it => lock_key_text (fst (fst it)) pk (snd it)) items
              = map (fun '(t, ks) => build_lock_key t pk (map (canon_row pk) ks)) (map fst items)).
  { rewrite map_map. apply map_ext_in. intros [[t ks] rows] Hin. cbn.
    destruct (H _ _ _ Hin) as [_ Hk]. apply lock_key_text_canonical. exact Hk. }
  rewrite E, C03_parse_l; [| exact Hne | exact Hnd |].
  - rewrite map_map. apply map_ext. intros [[t ks] rows]. reflexivity.
  - intros [t ks] Hin. apply in_map_iff in Hin. destruct Hin as [[[t' ks'] rows] [Heq Hin]]. cbn in Heq. inversion Heq; subst.
    destruct (H _ _ _ Hin) as [Hok _]. exact Hok.
Qed.

(* ---- cover ---- *)
Definition opt_row_dec (a b : option row) : {a = b} + {a <> b}.
Proof. decide equality. apply row_eq_dec. Defined.

Lemma stmt_cover : forall pk all s t t1 b a,
  stmt_wf s t -> stmt_res pk all s t = Ok t1 b a ->
  forall k, lookup k t1 <> lookup k t -> In k (stmt_lock_keys s b a).
Proof.
  intros pk all s t t1 b a Hwf Hr k Hch. destruct s as [m u trk | m | krs listed last_id trk]; cbn in *.
  - destruct Hwf as [Hnd Hpres].
    destruct (at_update_exact _ _ _ _ _ _ _ _ Hnd Hpres Hr) as [_ [Hb [_ [_ [_ [_ [_ Hout]]]]]]].
    destruct (in_dec key_eq_dec k m) as [Hin | Hnin]; [| exfalso; apply Hch; apply Hout; exact Hnin].
    subst b. rewrite img_of_present by exact Hpres. exact Hin.
  - destruct (at_delete_exact _ _ _ _ _ _ Hr) as [_ [Hb [_ [Hin Hout]]]].
    destruct (in_dec key_eq_dec k m) as [Him | Hnin]; [| exfalso; apply Hch; apply Hout; exact Hnin].
    destruct (lookup k t) as [r |] eqn:E; [| exfalso; apply Hch; rewrite (Hin k Him); reflexivity].
    subst b. apply in_map_iff. exists (k, proj all r). split; [reflexivity |].
    apply img_of_In. split; [exact Him | exists r; split; [exact E | reflexivity]].
  - destruct Hwf as [Hs Hk].
    destruct (at_insert_exact trk krs listed last_id t Hs Hk _ Hr) as [Hd | [t' [Heq [Hfst [_ [_ Hout]]]]]]; [discriminate |].
    inversion Heq; subst. rewrite Hfst.
    destruct (in_dec key_eq_dec k (map fst krs)) as [Hin | Hnin]; [exact Hin | exfalso; apply Hch; apply Hout; exact Hnin].
Qed.

(* C03_cover: for every local transaction, every row whose content differs between the start and the commit
   is named by the lock keys of one of its statements *)
Theorem tx_cover : forall pk all ss t t' lks,
  tx_wf pk all ss t -> run_tx pk all ss t = Some (t', lks) ->
  forall k, lookup k t' <> lookup k t -> exists ks, In ks lks /\ In k ks.
Proof.
  intros pk all ss. induction ss as [| s ss IH]; intros t t' lks Hwf Hr k Hch.
  - cbn in Hr. inversion Hr; subst. exfalso. apply Hch. reflexivity.
  - cbn [run_tx] in Hr. cbn [tx_wf] in Hwf. destruct Hwf as [Hs Hrest].
    destruct (stmt_res pk all s t) as [t1 b a | e] eqn:E; [| discriminate].
    destruct (run_tx pk all ss t1) as [[t2 lks2] |] eqn:E2; [| discriminate].
    inversion Hr; subst.
    destruct (opt_row_dec (lookup k t) (lookup k t1)) as [Hsame | Hdiff].
    + assert (Hch2 : lookup k t' <> lookup k t1) by (rewrite <- Hsame; exact Hch).
      destruct (IH _ _ _ Hrest E2 k Hch2) as [ks [Hin Hk]]. exists ks. split; [right; exact Hin | exact Hk].
    + exists (stmt_lock_keys s b a). split; [left; reflexivity |].
      eapply stmt_cover; [exact Hs | exact E |]. intro Heq. apply Hdiff. symmetry. exact Heq.
Qed.

(* ---- select for update ---- *)
Theorem sfu_spec : forall matched lockable j r,
  sfu matched lockable = (j, r) ->
  (* rows are handed out only after a lockable answer covering exactly their keys *)
  (forall ks, r = Some ks -> ks = matched /\ lockable = true /\ (exists pre, j = pre ++ [SLockQuery ks true]) /\ ~ In SRollbackTo j)
  (* conflict: error, and the local row locks taken since the savepoint are released *)
  /\ (r = None -> lockable = false /\ exists pre, j = pre ++ [SLockQuery matched false; SRollbackTo])
  (* the key query and the business query come before the lock query, after the savepoint *)
  /\ (exists rest, j = SSavepoint :: SKeyQuery matched :: SBusiness :: rest).
Proof.
  intros matched lockable j r H. unfold sfu in H. destruct lockable; inversion H; subst j r; clear H.
  - split; [| split].
    + intros ks Hk. inversion Hk; subst ks. split; [reflexivity |]. split; [reflexivity |]. split.
      * exists [SSavepoint; SKeyQuery matched; SBusiness]. reflexivity.
      * intros [Hx | [Hx | [Hx | [Hx | []]]]]; discriminate.
    + discriminate.
    + eexists. reflexivity.
  - split; [| split].
    + discriminate.
    + intros _. split; [reflexivity |]. exists [SSavepoint; SKeyQuery matched; SBusiness]. reflexivity.
    + eexists. reflexivity.
Qed.

(* ---- isolation ---- *)
Lemma owner_app_in : forall x ks l k, In k ks -> owner k (acquire x ks l) = Some x.
Proof.
  intros x ks l k. unfold acquire. induction ks as [| k0 ks IH]; intro Hin; [contradiction |].
  cbn. destruct (key_eqb k k0) eqn:E; [reflexivity |].
  destruct Hin as [-> | Hin]; [rewrite key_eqb_refl in E; discriminate | apply IH; exact Hin].
Qed.

Lemma owner_app_notin : forall x ks l k, ~ In k ks -> owner k (acquire x ks l) = owner k l.
Proof.
  intros x ks l k. unfold acquire. induction ks as [| k0 ks IH]; intro Hn; [reflexivity |].
  cbn. destruct (key_eqb k k0) eqn:E.
  - apply key_eqb_eq in E. subst. exfalso. apply Hn. left. reflexivity.
  - apply IH. intro Hin. apply Hn. right. exact Hin.
Qed.

Definition inv (l : locks) (w : list (key * xid)) : Prop := forall k x, In (k, x) w -> owner k l = Some x.

Lemma run_sched_inv : forall s l w l' w',
  (forall it, In it s -> covered_item it = true) ->
  inv l w -> run_sched s l w = (l', w') -> inv l' w'.
Proof.
  induction s as [| it s IH]; intros l w l' w' Hcov Hinv Hr.
  - cbn in Hr. inversion Hr; subst. exact Hinv.
  - cbn [run_sched] in Hr. destruct (grantable (it_x it) (it_keys it) l) eqn:Hg.
    + eapply IH; [intros i Hi; apply Hcov; right; exact Hi | | exact Hr].
      intros k x Hin. apply in_app_or in Hin. destruct Hin as [Hin | Hin].
      * apply in_map_iff in Hin. destruct Hin as [k0 [Heq Hk0]]. inversion Heq; subst.
        apply owner_app_in.
        specialize (Hcov it (or_introl eq_refl)). unfold covered_item in Hcov. rewrite forallb_forall in Hcov.
        specialize (Hcov k Hk0). apply existsb_exists in Hcov. destruct Hcov as [k1 [Hk1 He]].
        apply key_eqb_eq in He. subst. exact Hk1.
      * specialize (Hinv k x Hin).
        destruct (in_dec key_eq_dec k (it_keys it)) as [Hk | Hk].
        -- rewrite (owner_app_in _ _ _ _ Hk).
           unfold grantable in Hg. rewrite forallb_forall in Hg. specialize (Hg k Hk). rewrite Hinv in Hg.
           apply N.eqb_eq in Hg. subst. reflexivity.
        -- rewrite (owner_app_notin _ _ _ _ Hk). exact Hinv.
    + eapply IH; [intros i Hi; apply Hcov; right; exact Hi | exact Hinv | exact Hr].
Qed.

(* C03_isolation: any number of global transactions, ANY schedule of their local commits (hence every interleaving),
   a coordinator that grants a key to one global transaction at a time, lock keys covering the written rows (C03_cover):
   no row is written by locally committed branches of two different global transactions while the locks are held *)
Theorem sched_isolation : forall s l w,
  (forall it, In it s -> covered_item it = true) ->
  run_sched s [] [] = (l, w) ->
  forall k x y, In (k, x) w -> In (k, y) w -> x = y.
Proof.
  intros s l w Hcov Hr k x y Hx Hy.
  assert (Hinv : inv l w) by (eapply (run_sched_inv s [] []); [exact Hcov | intros k0 x0 Hf; destruct Hf | exact Hr]).
  pose proof (Hinv k x Hx) as H1. pose proof (Hinv k y Hy) as H2. rewrite H1 in H2. inversion H2. reflexivity.
Qed.

(* without cover the conclusion fails: a written row that is not named by the keys sent *)
Theorem sched_isolation_needs_cover :
  exists s l w, run_sched s [] [] = (l, w) /\ exists k, In (k, 1%N) w /\ In (k, 2%N) w.
Proof.
  exists [ {| it_x := 1%N; it_keys := []; it_written := [[VInt 8%Z]] |};
           {| it_x := 2%N; it_keys := [[VInt 8%Z]]; it_written := [[VInt 8%Z]] |} ].
  eexists. eexists. split; [vm_compute; reflexivity |]. exists [VInt 8%Z]. split; cbn; auto.
Qed.
