(* Lemmas about the row-level kernel of Db.v. *)
From Coq Require Import List NArith ZArith Lia Bool Permutation.
From SeataV Require Import Base.Bytes At.Db.
Import ListNotations.

(* ---- boolean equalities ---- *)
Lemma list_eqb_eq {A} (eqb : A -> A -> bool) :
  (forall a b, eqb a b = true <-> a = b) ->
  forall x y, list_eqb eqb x y = true <-> x = y.
Proof.
  intros H x; induction x as [|a x IH]; intros [|b y]; cbn; try (split; congruence).
  rewrite andb_true_iff, H, IH.
  split; [intros [-> ->]; reflexivity | intro E; inversion E; auto].
Qed.

Lemma value_eqb_eq a b : value_eqb a b = true <-> a = b.
Proof.
  destruct a, b; cbn; try (split; congruence);
    rewrite ?Z.eqb_eq, ?N.eqb_eq, ?bytes_eqb_eq; split; congruence.
Qed.

Lemma key_eqb_eq (a b : key) : key_eqb a b = true <-> a = b.
Proof. apply list_eqb_eq, value_eqb_eq. Qed.

Lemma row_eqb_eq (a b : row) : row_eqb a b = true <-> a = b.
Proof. apply list_eqb_eq, value_eqb_eq. Qed.

Lemma value_eqb_refl a : value_eqb a a = true.
Proof. now apply value_eqb_eq. Qed.
Lemma key_eqb_refl k : key_eqb k k = true.
Proof. now apply key_eqb_eq. Qed.
Lemma row_eqb_refl r : row_eqb r r = true.
Proof. now apply row_eqb_eq. Qed.

Lemma key_eqb_false k k' : key_eqb k k' = false <-> k <> k'.
Proof. rewrite <- key_eqb_eq. destruct (key_eqb k k'); split; congruence. Qed.

Lemma key_eqb_sym k k' : key_eqb k k' = key_eqb k' k.
Proof.
  destruct (key_eqb k' k) eqn:E.
  - apply key_eqb_eq in E. subst. apply key_eqb_refl.
  - apply key_eqb_false in E. apply key_eqb_false. congruence.
Qed.

Lemma bytes_eqb_false (a b : bytes) : bytes_eqb a b = false <-> a <> b.
Proof. rewrite <- bytes_eqb_eq. destruct (bytes_eqb a b); split; congruence. Qed.

(* case split on key_eqb k k', keeping both the boolean and the Prop fact *)
Ltac keq k k' :=
  let E := fresh "E" in
  let H := fresh "H" in
  destruct (key_eqb k k') eqn:E;
  [ assert (H : k = k') by (now apply key_eqb_eq)
  | assert (H : k <> k') by (now apply key_eqb_false) ].

(* ---- lookup after insert / remove / update ---- *)
Lemma lookup_insert k r t k' :
  lookup k' (insert k r t) = if key_eqb k' k then Some r else lookup k' t.
Proof.
  induction t as [|[k0 r0] t IH]; cbn; [reflexivity|].
  keq k k0; cbn.
  - subst k0. destruct (key_eqb k' k); reflexivity.
  - rewrite IH. keq k' k0; keq k' k; try reflexivity. congruence.
Qed.

Lemma lookup_remove k t k' :
  lookup k' (remove k t) = if key_eqb k' k then None else lookup k' t.
Proof.
  induction t as [|[k0 r0] t IH]; cbn; [now destruct (key_eqb k' k)|].
  keq k k0; cbn.
  - subst k0. rewrite IH. destruct (key_eqb k' k); reflexivity.
  - rewrite IH. keq k' k0; keq k' k; try reflexivity. congruence.
Qed.

Lemma lookup_update k f t k' :
  lookup k' (update k f t) =
  if key_eqb k' k then option_map f (lookup k' t) else lookup k' t.
Proof.
  induction t as [|[k0 r0] t IH]; cbn; [now destruct (key_eqb k' k)|].
  rewrite IH. keq k' k0; keq k' k; try reflexivity.
  - subst. now rewrite key_eqb_refl.
  - keq k k0; [congruence | reflexivity].
Qed.

Lemma lookup_insert_eq k r t : lookup k (insert k r t) = Some r.
Proof. now rewrite lookup_insert, key_eqb_refl. Qed.

Lemma lookup_insert_neq k k' r t : k <> k' -> lookup k' (insert k r t) = lookup k' t.
Proof.
  intro H. rewrite lookup_insert.
  replace (key_eqb k' k) with false; [reflexivity|].
  symmetry. apply key_eqb_false. congruence.
Qed.

Lemma lookup_remove_eq k t : lookup k (remove k t) = None.
Proof. now rewrite lookup_remove, key_eqb_refl. Qed.

Lemma lookup_remove_neq k k' t : k <> k' -> lookup k' (remove k t) = lookup k' t.
Proof.
  intro H. rewrite lookup_remove.
  replace (key_eqb k' k) with false; [reflexivity|].
  symmetry. apply key_eqb_false. congruence.
Qed.

Lemma lookup_update_eq k f t : lookup k (update k f t) = option_map f (lookup k t).
Proof. now rewrite lookup_update, key_eqb_refl. Qed.

Lemma lookup_update_neq k k' f t : k <> k' -> lookup k' (update k f t) = lookup k' t.
Proof.
  intro H. rewrite lookup_update.
  replace (key_eqb k' k) with false; [reflexivity|].
  symmetry. apply key_eqb_false. congruence.
Qed.

(* ---- membership ---- *)
Lemma lookup_None k t : lookup k t = None <-> ~ In k (keys t).
Proof.
  induction t as [|[k0 r0] t IH]; cbn; [tauto|].
  keq k k0.
  - split; [discriminate | intro N; exfalso; apply N; auto].
  - rewrite IH. split; [intros N [?|?]; [congruence | auto] | tauto].
Qed.

Lemma lookup_Some_In_keys k r t : lookup k t = Some r -> In k (keys t).
Proof.
  intro H. destruct (in_dec key_eq_dec k (keys t)) as [|N]; [assumption|].
  apply lookup_None in N. congruence.
Qed.

Lemma lookup_In k r t : lookup k t = Some r -> In (k, r) t.
Proof.
  induction t as [|[k0 r0] t IH]; cbn; [discriminate|].
  keq k k0; [intro E'; inversion E'; subst; auto | auto].
Qed.

Lemma In_lookup k r t : tbl_wf t -> In (k, r) t -> lookup k t = Some r.
Proof.
  unfold tbl_wf. induction t as [|[k0 r0] t IH]; cbn; [tauto|].
  intros W [E'|I]; inversion W as [|? ? N W']; subst.
  - inversion E'; subst. now rewrite key_eqb_refl.
  - keq k k0; [|auto].
    subst k0. exfalso. apply N. change k with (fst (k, r)). now apply in_map.
Qed.

Lemma lookup_In_iff k r t : tbl_wf t -> (lookup k t = Some r <-> In (k, r) t).
Proof. intro W. split; [apply lookup_In | now apply In_lookup]. Qed.

Lemma mem_In k t : mem k t = true <-> In k (keys t).
Proof.
  unfold mem. destruct (lookup k t) eqn:E.
  - split; [intros _; eapply lookup_Some_In_keys; eauto | reflexivity].
  - apply lookup_None in E. split; [discriminate | contradiction].
Qed.

Lemma tbl_wfb_correct t : tbl_wfb t = true <-> tbl_wf t.
Proof.
  unfold tbl_wf. induction t as [|[k r] t IH]; cbn.
  - split; [constructor | reflexivity].
  - rewrite andb_true_iff, negb_true_iff, IH. split.
    + intros [M W]. constructor; [|assumption].
      intro I. apply mem_In in I. congruence.
    + intro W. inversion W as [|? ? N W']; subst. split; [|assumption].
      destruct (mem k t) eqn:M; [|reflexivity]. apply mem_In in M. contradiction.
Qed.

(* ---- well-formedness is preserved ---- *)
Lemma insert_wf k r t : tbl_wf t -> tbl_wf (insert k r t).
Proof.
  unfold tbl_wf. induction t as [|[k0 r0] t IH]; cbn; intro W.
  - constructor; [tauto | constructor].
  - inversion W as [|? ? N W']; subst. keq k k0; cbn; [assumption|].
    constructor; [|auto]. apply lookup_None. rewrite lookup_insert.
    rewrite key_eqb_sym, E. now apply lookup_None.
Qed.

Lemma remove_wf k t : tbl_wf t -> tbl_wf (remove k t).
Proof.
  unfold tbl_wf. induction t as [|[k0 r0] t IH]; cbn; intro W; [assumption|].
  inversion W as [|? ? N W']; subst. keq k k0; cbn; [auto|].
  constructor; [|auto]. apply lookup_None. rewrite lookup_remove.
  rewrite key_eqb_sym, E. now apply lookup_None.
Qed.

Lemma keys_update k f t : keys (update k f t) = keys t.
Proof. induction t as [|[k0 r0] t IH]; cbn; [reflexivity | f_equal; exact IH]. Qed.

Lemma update_wf k f t : tbl_wf t -> tbl_wf (update k f t).
Proof. unfold tbl_wf. change (NoDup (keys t) -> NoDup (keys (update k f t))). now rewrite keys_update. Qed.

Lemma remove_absent k t : lookup k t = None -> remove k t = t.
Proof.
  induction t as [|[k0 r0] t IH]; cbn; [reflexivity|].
  keq k k0; [discriminate | intro L; now rewrite IH].
Qed.

(* ---- tbl_equiv ---- *)
Lemma tbl_equiv_refl t : tbl_equiv t t.
Proof. intro k; reflexivity. Qed.
Lemma tbl_equiv_sym t1 t2 : tbl_equiv t1 t2 -> tbl_equiv t2 t1.
Proof. intros H k; symmetry; apply H. Qed.
Lemma tbl_equiv_trans t1 t2 t3 : tbl_equiv t1 t2 -> tbl_equiv t2 t3 -> tbl_equiv t1 t3.
Proof. intros H1 H2 k; rewrite H1; apply H2. Qed.

Lemma insert_equiv k r t1 t2 : tbl_equiv t1 t2 -> tbl_equiv (insert k r t1) (insert k r t2).
Proof. intros H k'. now rewrite !lookup_insert, H. Qed.
Lemma remove_equiv k t1 t2 : tbl_equiv t1 t2 -> tbl_equiv (remove k t1) (remove k t2).
Proof. intros H k'. now rewrite !lookup_remove, H. Qed.
Lemma update_equiv k f t1 t2 : tbl_equiv t1 t2 -> tbl_equiv (update k f t1) (update k f t2).
Proof. intros H k'. now rewrite !lookup_update, H. Qed.

Lemma remove_insert_equiv k r t : tbl_equiv (remove k (insert k r t)) (remove k t).
Proof. intro k'. rewrite !lookup_remove, lookup_insert. now destruct (key_eqb k' k). Qed.

Lemma insert_present_equiv k r t : lookup k t = Some r -> tbl_equiv (insert k r t) t.
Proof. intros L k'. rewrite lookup_insert. keq k' k; [now subst | reflexivity]. Qed.

Lemma remove_insert_absent_equiv k r t :
  lookup k t = None -> tbl_equiv (remove k (insert k r t)) t.
Proof.
  intros L k'. rewrite lookup_remove, lookup_insert. keq k' k; [now subst | reflexivity].
Qed.

Lemma insert_remove_equiv k r t : tbl_equiv (insert k r (remove k t)) (insert k r t).
Proof. intro k'. rewrite !lookup_insert, lookup_remove. now destruct (key_eqb k' k). Qed.

Lemma insert_insert_equiv k r r' t : tbl_equiv (insert k r (insert k r' t)) (insert k r t).
Proof. intro k'. rewrite !lookup_insert. now destruct (key_eqb k' k). Qed.

Lemma insert_comm_equiv k1 r1 k2 r2 t :
  k1 <> k2 ->
  tbl_equiv (insert k1 r1 (insert k2 r2 t)) (insert k2 r2 (insert k1 r1 t)).
Proof.
  intros N k'. rewrite !lookup_insert. keq k' k1; keq k' k2; try reflexivity. congruence.
Qed.

Lemma update_as_insert k f r t :
  lookup k t = Some r -> tbl_equiv (update k f t) (insert k (f r) t).
Proof.
  intros L k'. rewrite lookup_update, lookup_insert.
  keq k' k; [subst; now rewrite L | reflexivity].
Qed.

Lemma update_absent_equiv k f t : lookup k t = None -> tbl_equiv (update k f t) t.
Proof.
  intros L k'. rewrite lookup_update. keq k' k; [subst; now rewrite L | reflexivity].
Qed.

(* two wf tables with the same bindings are extensionally equal *)
Lemma In_iff_equiv t1 t2 :
  tbl_wf t1 -> tbl_wf t2 ->
  (forall k r, In (k, r) t1 <-> In (k, r) t2) -> tbl_equiv t1 t2.
Proof.
  intros W1 W2 H k.
  destruct (lookup k t1) as [r|] eqn:L1.
  - symmetry. apply In_lookup; [assumption|]. apply H. now apply lookup_In.
  - destruct (lookup k t2) as [r|] eqn:L2; [|reflexivity].
    apply lookup_In, H, (In_lookup _ _ _ W1) in L2. congruence.
Qed.

Lemma equiv_In_iff t1 t2 :
  tbl_wf t1 -> tbl_wf t2 -> tbl_equiv t1 t2 ->
  forall k r, In (k, r) t1 <-> In (k, r) t2.
Proof.
  intros W1 W2 H k r.
  rewrite <- (lookup_In_iff k r t1 W1), <- (lookup_In_iff k r t2 W2), H. tauto.
Qed.

(* ---- the boolean extensional equality ---- *)
Lemma tbl_subb_correct t1 t2 :
  tbl_subb t1 t2 = true <-> (forall k r, In (k, r) t1 -> lookup k t2 = Some r).
Proof.
  unfold tbl_subb. rewrite forallb_forall. split.
  - intros H k r I. specialize (H _ I). cbn in H.
    destruct (lookup k t2) as [r'|]; [|discriminate].
    apply row_eqb_eq in H. now subst.
  - intros H [k r] I. cbn. rewrite (H _ _ I). apply row_eqb_refl.
Qed.

Lemma tbl_eqb_ext_correct t1 t2 :
  tbl_wf t1 -> tbl_wf t2 -> (tbl_eqb_ext t1 t2 = true <-> tbl_equiv t1 t2).
Proof.
  intros W1 W2. unfold tbl_eqb_ext. rewrite andb_true_iff, !tbl_subb_correct. split.
  - intros [H12 H21]. apply In_iff_equiv; try assumption.
    intros k r; split; intro I; apply lookup_In; auto.
  - intro H. split; intros k r I.
    + rewrite <- H. now apply In_lookup.
    + rewrite H. now apply In_lookup.
Qed.

(* ---- databases ---- *)
Lemma db_get_set_eq tn t d : db_get tn (db_set tn t d) = t.
Proof.
  induction d as [|[n t'] d IH]; cbn; [now rewrite bytes_eqb_refl|].
  destruct (bytes_eqb tn n) eqn:E; cbn; rewrite E; auto.
Qed.

Lemma db_get_set_neq tn tn' t d : tn <> tn' -> db_get tn' (db_set tn t d) = db_get tn' d.
Proof.
  intro N. assert (F : bytes_eqb tn' tn = false) by (apply bytes_eqb_false; congruence).
  induction d as [|[n t'] d IH]; cbn; [now rewrite F|].
  destruct (bytes_eqb tn n) eqn:E; cbn.
  - apply bytes_eqb_eq in E. subst n. now rewrite F.
  - now rewrite IH.
Qed.

Lemma db_equiv_refl d : db_equiv d d.
Proof. intro tn; apply tbl_equiv_refl. Qed.
Lemma db_equiv_sym d1 d2 : db_equiv d1 d2 -> db_equiv d2 d1.
Proof. intros H tn; apply tbl_equiv_sym, H. Qed.
Lemma db_equiv_trans d1 d2 d3 : db_equiv d1 d2 -> db_equiv d2 d3 -> db_equiv d1 d3.
Proof. intros H1 H2 tn; eapply tbl_equiv_trans; [apply H1 | apply H2]. Qed.

Lemma db_set_equiv tn t1 t2 d1 d2 :
  tbl_equiv t1 t2 -> db_equiv d1 d2 -> db_equiv (db_set tn t1 d1) (db_set tn t2 d2).
Proof.
  intros Ht Hd tn'. destruct (bytes_eq_dec tn tn') as [<-|N].
  - now rewrite !db_get_set_eq.
  - rewrite !db_get_set_neq by assumption. apply Hd.
Qed.

Lemma db_set_get_equiv tn d : db_equiv (db_set tn (db_get tn d) d) d.
Proof.
  intro tn'. destruct (bytes_eq_dec tn tn') as [<-|N].
  - rewrite db_get_set_eq. apply tbl_equiv_refl.
  - rewrite db_get_set_neq by assumption. apply tbl_equiv_refl.
Qed.

(* ---- canonical dump order ---- *)
Lemma ins_sorted_perm kr t : Permutation (ins_sorted kr t) (kr :: t).
Proof.
  induction t as [|kr' t IH]; cbn; [apply Permutation_refl|].
  destruct (key_compare (fst kr) (fst kr')); try apply Permutation_refl.
  eapply perm_trans; [apply perm_skip, IH | apply perm_swap].
Qed.

Lemma sort_tbl_perm t : Permutation (sort_tbl t) t.
Proof.
  induction t as [|kr t IH]; cbn; [constructor|].
  eapply perm_trans; [apply ins_sorted_perm | now apply perm_skip].
Qed.

Lemma perm_wf t1 t2 : Permutation t1 t2 -> tbl_wf t1 -> tbl_wf t2.
Proof. unfold tbl_wf. intros P. apply Permutation_NoDup, Permutation_map, P. Qed.

Lemma perm_equiv t1 t2 : tbl_wf t1 -> Permutation t1 t2 -> tbl_equiv t1 t2.
Proof.
  intros W P. apply In_iff_equiv; [assumption | eapply perm_wf; eauto |].
  intros k r; split; apply Permutation_in; [assumption | now apply Permutation_sym].
Qed.

Lemma sort_tbl_wf t : tbl_wf t -> tbl_wf (sort_tbl t).
Proof. apply perm_wf, Permutation_sym, sort_tbl_perm. Qed.

Lemma sort_tbl_equiv t : tbl_wf t -> tbl_equiv (sort_tbl t) t.
Proof.
  intro W. apply perm_equiv; [now apply sort_tbl_wf | apply sort_tbl_perm].
Qed.
