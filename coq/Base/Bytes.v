(* Byte strings, big-endian integers, zero-filled reads, hex literals.
   Model of pkg/util/bytes (ByteBuffer + helpers): every read copies what is
   available into a fresh zeroed slice, so a short read is zero-filled. *)
From Coq Require Import String Ascii.
From Coq Require Import List NArith ZArith Lia Bool.
From Coq Require Import ZifyN ZifyNat ZifyBool.
From Coq.Strings Require Byte.
Import ListNotations.
Open Scope N_scope.

Ltac Zify.zify_post_hook ::= Z.div_mod_to_equations.

Notation byte := Byte.byte.
Definition bytes := list byte.

Definition b2n (b : byte) : N := Byte.to_N b.
Definition n2b (n : N) : byte :=
  match Byte.of_N (n mod 256) with Some b => b | None => Byte.x00 end.

Lemma b2n_lt b : b2n b < 256.
Proof. unfold b2n. pose proof (Byte.to_N_bounded b). lia. Qed.

Lemma n2b_b2n b : n2b (b2n b) = b.
Proof.
  unfold n2b, b2n. rewrite N.mod_small by (pose proof (Byte.to_N_bounded b); lia).
  now rewrite Byte.of_to_N.
Qed.

Lemma b2n_n2b n : b2n (n2b n) = n mod 256.
Proof.
  unfold n2b, b2n.
  destruct (Byte.of_N (n mod 256)) as [b|] eqn:E.
  - now apply Byte.to_of_N.
  - apply Byte.of_N_None_iff in E. pose proof (N.mod_upper_bound n 256). lia.
Qed.

Definition byte_eqb (a b : byte) : bool := N.eqb (b2n a) (b2n b).
Lemma byte_eqb_eq a b : byte_eqb a b = true <-> a = b.
Proof.
  unfold byte_eqb. rewrite N.eqb_eq. split; [|congruence].
  intro H. rewrite <- (n2b_b2n a), <- (n2b_b2n b). now rewrite H.
Qed.

Fixpoint bytes_eqb (a b : bytes) : bool :=
  match a, b with
  | [], [] => true
  | x :: a', y :: b' => byte_eqb x y && bytes_eqb a' b'
  | _, _ => false
  end.
Lemma bytes_eqb_eq a b : bytes_eqb a b = true <-> a = b.
Proof.
  revert b; induction a as [|x a IH]; intros [|y b]; cbn; try (split; congruence).
  rewrite andb_true_iff, byte_eqb_eq, IH. split; [intros [-> ->]; reflexivity|].
  intro H; inversion H; auto.
Qed.
Lemma bytes_eqb_refl a : bytes_eqb a a = true.
Proof. now apply bytes_eqb_eq. Qed.

(* big-endian encoding of n in w bytes: the value is reduced mod 256^w,
   exactly what a Go conversion to uintN followed by the ToBytes helpers does *)
Fixpoint be (w : nat) (n : N) : bytes :=
  match w with
  | O => []
  | S w' => n2b (n / 256 ^ N.of_nat w') :: be w' n
  end.

Fixpoint unbe (l : bytes) : N :=
  match l with
  | [] => 0
  | b :: l' => b2n b * 256 ^ N.of_nat (length l') + unbe l'
  end.

Lemma be_length w n : length (be w n) = w.
Proof. induction w; cbn; auto. Qed.

Lemma pow256_pos k : 0 < 256 ^ k.
Proof. apply N.neq_0_lt_0, N.pow_nonzero; lia. Qed.

Lemma unbe_be w n : unbe (be w n) = n mod 256 ^ N.of_nat w.
Proof.
  induction w as [|w IH].
  - cbn. now rewrite N.mod_1_r.
  - cbn [be unbe]. rewrite be_length, IH, b2n_n2b.
    rewrite Nat2N.inj_succ, N.pow_succ_r'.
    pose proof (pow256_pos (N.of_nat w)) as Hp.
    set (p := 256 ^ N.of_nat w) in *.
    rewrite (N.mul_comm 256 p).
    rewrite N.mod_mul_r by lia. lia.
Qed.

Lemma unbe_be_small w n : n < 256 ^ N.of_nat w -> unbe (be w n) = n.
Proof. intro H. rewrite unbe_be. now apply N.mod_small. Qed.

Lemma unbe_lt l : unbe l < 256 ^ N.of_nat (length l).
Proof.
  induction l as [|b l IH]; cbn [unbe length].
  - cbn. lia.
  - rewrite Nat2N.inj_succ, N.pow_succ_r'. pose proof (b2n_lt b).
    set (p := 256 ^ N.of_nat (length l)) in *. nia.
Qed.

Lemma be_unbe l : be (length l) (unbe l) = l.
Proof.
  induction l as [|b l IH]; cbn [be unbe length]; auto.
  pose proof (unbe_lt l) as Hl. pose proof (b2n_lt b) as Hb.
  pose proof (pow256_pos (N.of_nat (length l))) as Hp.
  set (p := 256 ^ N.of_nat (length l)) in *.
  f_equal.
  - rewrite <- (n2b_b2n b) at 2. f_equal.
    rewrite N.div_add_l by lia. rewrite N.div_small by lia. lia.
  - (* be w only depends on n mod 256^w *)
    assert (Hgen : forall w a c, be w (a * 256 ^ N.of_nat w + c) = be w c).
    { induction w as [|w IHw]; intros a c; cbn [be]; auto.
      f_equal.
      - rewrite Nat2N.inj_succ, N.pow_succ_r'.
        pose proof (pow256_pos (N.of_nat w)) as Hq.
        set (q := 256 ^ N.of_nat w) in *.
        replace (a * (256 * q) + c) with ((a * 256) * q + c) by lia.
        rewrite N.div_add_l by lia.
        unfold n2b. rewrite N.add_comm, N.mod_add by lia. reflexivity.
      - rewrite Nat2N.inj_succ, N.pow_succ_r'.
        replace (a * (256 * 256 ^ N.of_nat w) + c) with ((a * 256) * 256 ^ N.of_nat w + c) by lia.
        apply IHw. }
    unfold p. rewrite Hgen. exact IH.
Qed.

(* read n bytes; a short buffer yields the available bytes followed by zeros *)
Definition take_pad (n : nat) (l : bytes) : bytes :=
  firstn n l ++ repeat Byte.x00 (n - length l).

Lemma take_pad_length n l : length (take_pad n l) = n.
Proof.
  unfold take_pad. rewrite app_length, firstn_length, repeat_length. lia.
Qed.

Lemma take_pad_app n l r : length l = n -> take_pad n (l ++ r) = l.
Proof.
  intros <-. unfold take_pad.
  rewrite firstn_app, Nat.sub_diag, firstn_all, firstn_O, app_nil_r.
  rewrite app_length.
  replace (length l - (length l + length r))%nat with 0%nat by lia.
  cbn. now rewrite app_nil_r.
Qed.

Lemma skipn_app_exact {A} (l r : list A) n : length l = n -> skipn n (l ++ r) = r.
Proof.
  intros <-. rewrite skipn_app, skipn_all, Nat.sub_diag. reflexivity.
Qed.

(* ---- hex literals (used by the generated case files) ---- *)
Definition hexval (c : ascii) : N :=
  let n := N_of_ascii c in
  if (48 <=? n) && (n <=? 57) then n - 48
  else if (97 <=? n) && (n <=? 102) then n - 87
  else if (65 <=? n) && (n <=? 70) then n - 55
  else 0.

Fixpoint hex (s : string) : bytes :=
  match s with
  | String a (String b s') => n2b (hexval a * 16 + hexval b) :: hex s'
  | _ => []
  end.

Definition bytes_of_string (s : string) : bytes :=
  List.map (fun c => n2b (N_of_ascii c)) (list_ascii_of_string s).
