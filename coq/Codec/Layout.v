(* Generic interpreter for the Seata body codecs.  A codec is a LAYOUT: the
   sequence of (field name, field kind) its Encode writes / its Decode reads.
   The layouts of the Go codecs are regenerated from pkg/protocol/codec by
   tools/xlate (Gen/GoLayouts.v); the reference layouts are SeataV1Spec.v. *)
From Coq Require Import String Ascii.
From Coq Require Import List NArith ZArith Lia Bool.
From Coq Require Import ZifyN ZifyNat ZifyBool.
From SeataV Require Import Base.Bytes.
Import ListNotations.
Open Scope N_scope.

Inductive fkind :=
| FStr (w : nat)               (* w-byte big-endian length, then the bytes        *)
| FInt (w : nat)               (* w-byte big-endian integer (value mod 256^w)     *)
| FBool (w : nat)              (* w-byte integer 0/1; reads true iff it equals 1  *)
| FDurMs                       (* uint32(ns / 1e6) ; reads back as ms * 1e6       *)
| FMsgIf (w : nat) (trunc : N) (* present iff the preceding byte field is 0
                                  (ResultCodeFailed); payload cut to trunc bytes  *)
| FUnknown (src : string).     (* syntax the translator did not understand        *)

Inductive fval := VS (s : bytes) | VI (n : N) | VB (b : bool).

Definition field := (string * fkind)%type.
Definition layout := list field.
Definition msg := list fval.

Definition pw (w : nat) : N := 256 ^ N.of_nat w.

Definition enc_str (w : nat) (s : bytes) : bytes := be w (N.of_nat (length s)) ++ s.

Definition enc_field (prev : N) (k : fkind) (v : fval) : option bytes :=
  match k, v with
  | FStr w, VS s => Some (enc_str w s)
  | FInt w, VI n => Some (be w n)
  | FBool w, VB b => Some (be w (if b then 1 else 0))
  | FDurMs, VI n => Some (be 4 (n / 1000000))
  | FMsgIf w t, VS s =>
      if prev =? 0 then Some (enc_str w (firstn (N.to_nat t) s)) else Some []
  | _, _ => None
  end.

Definition next_prev (k : fkind) (v : fval) : N :=
  match k, v with
  | FInt w, VI n => n mod pw w
  | _, _ => 1
  end.

Fixpoint encode_from (prev : N) (L : layout) (m : msg) : option bytes :=
  match L, m with
  | [], [] => Some []
  | (_, k) :: L', v :: m' =>
      match enc_field prev k v, encode_from (next_prev k v) L' m' with
      | Some a, Some b => Some (a ++ b)
      | _, _ => None
      end
  | _, _ => None
  end.

Definition encode (L : layout) (m : msg) : option bytes := encode_from 1 L m.

Definition dec_str (w : nat) (bs : bytes) : fval * bytes :=
  let n := N.to_nat (unbe (take_pad w bs)) in
  let r := skipn w bs in
  (VS (take_pad n r), skipn n r).

Definition dec_field (prev : N) (k : fkind) (bs : bytes) : fval * bytes :=
  match k with
  | FStr w => dec_str w bs
  | FInt w => (VI (unbe (take_pad w bs)), skipn w bs)
  | FBool w => (VB (unbe (take_pad w bs) =? 1), skipn w bs)
  | FDurMs => (VI (unbe (take_pad 4 bs) * 1000000), skipn 4 bs)
  | FMsgIf w _ => if prev =? 0 then dec_str w bs else (VS [], bs)
  | FUnknown _ => (VS [], bs)
  end.

Definition dec_prev (k : fkind) (v : fval) : N :=
  match k, v with
  | FInt _, VI n => n
  | _, _ => 1
  end.

Fixpoint decode_from (prev : N) (L : layout) (bs : bytes) : msg * bytes :=
  match L with
  | [] => ([], bs)
  | (_, k) :: L' =>
      let '(v, r) := dec_field prev k bs in
      let '(m, r') := decode_from (dec_prev k v) L' r in
      (v :: m, r')
  end.

Definition decode (L : layout) (bs : bytes) : msg * bytes := decode_from 1 L bs.

(* what a decoded message looks like for an arbitrary (possibly over-long) input *)
Definition canon_field (prev : N) (k : fkind) (v : fval) : fval :=
  match k, v with
  | FInt w, VI n => VI (n mod pw w)
  | FDurMs, VI n => VI ((n / 1000000) mod pw 4 * 1000000)
  | FMsgIf w t, VS s => if prev =? 0 then VS (firstn (N.to_nat t) s) else VS []
  | _, _ => v
  end.

Fixpoint canon_from (prev : N) (L : layout) (m : msg) : msg :=
  match L, m with
  | (_, k) :: L', v :: m' => canon_field prev k v :: canon_from (next_prev k v) L' m'
  | _, _ => []
  end.
Definition canon L m := canon_from 1 L m.

(* ---- well-formedness of a layout (boolean: evaluated on regenerated tables) ---- *)
Definition is_byte_int (k : fkind) : bool :=
  match k with FInt 1 => true | _ => false end.

Definition wf_kind (prevk : option fkind) (k : fkind) : bool :=
  match k with
  | FUnknown _ => false
  | FBool w => negb (Nat.eqb w 0)
  | FMsgIf w t =>
      (t <? pw w) && match prevk with Some p => is_byte_int p | None => false end
  | _ => true
  end.

Fixpoint wf_from (prevk : option fkind) (L : layout) : bool :=
  match L with
  | [] => true
  | (_, k) :: L' => wf_kind prevk k && wf_from (Some k) L'
  end.
Definition wf_layout (L : layout) : bool := wf_from None L.

(* ---- wire limits of the field values ---- *)
Definition lim_field (k : fkind) (v : fval) : bool :=
  match k, v with
  | FStr w, VS s => N.of_nat (length s) <? pw w
  | FInt w, VI n => n <? pw w
  | FBool _, VB _ => true
  | FDurMs, VI n => (n mod 1000000 =? 0) && (n / 1000000 <? pw 4)
  | FMsgIf _ _, VS _ => true      (* any length: it is truncated *)
  | _, _ => false
  end.

Fixpoint within_limits (L : layout) (m : msg) : bool :=
  match L, m with
  | [], [] => true
  | (_, k) :: L', v :: m' => lim_field k v && within_limits L' m'
  | _, _ => false
  end.

(* a message whose error text also fits (and is absent on a non-failed result):
   then decoding gives back exactly the message *)
Definition fits_field (prev : N) (k : fkind) (v : fval) : bool :=
  match k, v with
  | FMsgIf _ t, VS s =>
      if prev =? 0 then N.of_nat (length s) <=? t else Nat.eqb (length s) 0
  | _, _ => true
  end.
Fixpoint fits_from (prev : N) (L : layout) (m : msg) : bool :=
  match L, m with
  | (_, k) :: L', v :: m' => fits_field prev k v && fits_from (next_prev k v) L' m'
  | _, _ => true
  end.
Definition fits L m := fits_from 1 L m.
