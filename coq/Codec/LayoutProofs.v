(* Generic theorems about layouts: round trip, truncation, totality of encode. *)
From Coq Require Import String Ascii.
From Coq Require Import List NArith ZArith Lia Bool.
From Coq Require Import ZifyN ZifyNat ZifyBool.
From SeataV Require Import Base.Bytes Codec.Layout.
Import ListNotations.
Open Scope N_scope.
Local Opaque be unbe take_pad.

Lemma dec_str_enc_str w s rest :
  N.of_nat (length s) < pw w -> dec_str w (enc_str w s ++ rest) = (VS s, rest).
Proof.
  intro H. unfold dec_str, enc_str. rewrite <- app_assoc.
  rewrite take_pad_app by apply be_length.
  rewrite unbe_be_small by exact H.
  rewrite Nat2N.id.
  rewrite skipn_app_exact by apply be_length.
  rewrite take_pad_app by reflexivity.
  rewrite skipn_app_exact by reflexivity. reflexivity.
Qed.

Lemma firstn_len_le {A} n (l : list A) : (length (firstn n l) <= n)%nat.
Proof. rewrite firstn_length. lia. Qed.

Lemma field_roundtrip prevk prev k v a rest :
  wf_kind prevk k = true -> lim_field k v = true ->
  enc_field prev k v = Some a ->
  dec_field prev k (a ++ rest) = (canon_field prev k v, rest).
Proof.
  intros Hwf Hlim Henc.
  destruct k as [w|w|w| |w t|src]; destruct v as [s|n|b]; cbn [enc_field lim_field] in Henc, Hlim; try discriminate.
  - (* FStr *) injection Henc as <-. cbn. apply dec_str_enc_str. lia.
  - (* FInt *) injection Henc as <-. cbn [dec_field canon_field].
    rewrite take_pad_app by apply be_length.
    rewrite skipn_app_exact by apply be_length.
    now rewrite unbe_be.
  - (* FBool *) injection Henc as <-. cbn [dec_field canon_field].
    rewrite take_pad_app by apply be_length.
    rewrite skipn_app_exact by apply be_length.
    assert (Hw : 1 < pw w).
    { cbn in Hwf. destruct w; [discriminate|]. unfold pw.
      rewrite Nat2N.inj_succ, N.pow_succ_r'. pose proof (pow256_pos (N.of_nat w)). lia. }
    unfold pw in Hw. rewrite unbe_be_small by (destruct b; lia). destruct b; reflexivity.
  - (* FDurMs *) injection Henc as <-. cbn [dec_field canon_field].
    rewrite take_pad_app by apply be_length.
    rewrite skipn_app_exact by apply be_length.
    rewrite unbe_be. reflexivity.
  - (* FMsgIf *) cbn [dec_field canon_field].
    cbn in Hwf. apply andb_true_iff in Hwf as [Ht _].
    destruct (prev =? 0).
    + injection Henc as <-. apply dec_str_enc_str.
      pose proof (firstn_len_le (N.to_nat t) s). lia.
    + injection Henc as <-. reflexivity.
Qed.

Lemma prev_consistent prev k v :
  lim_field k v = true -> dec_prev k (canon_field prev k v) = next_prev k v.
Proof.
  destruct k, v; cbn; try discriminate; try reflexivity.
  all: intros _; destruct (prev =? 0); reflexivity.
Qed.

Lemma roundtrip_from L : forall prevk prev m bs rest,
  wf_from prevk L = true -> within_limits L m = true ->
  encode_from prev L m = Some bs ->
  decode_from prev L (bs ++ rest) = (canon_from prev L m, rest).
Proof.
  induction L as [|[nm k] L IH]; intros prevk prev m bs rest Hwf Hlim Henc.
  - destruct m; cbn in *; [|discriminate]. inversion Henc. reflexivity.
  - destruct m as [|v m]; cbn in Hlim, Henc; [discriminate|].
    cbn in Hwf. apply andb_true_iff in Hwf as [Hk HL].
    apply andb_true_iff in Hlim as [Hv Hm].
    destruct (enc_field prev k v) as [a|] eqn:Ea; [|discriminate].
    destruct (encode_from (next_prev k v) L m) as [b|] eqn:Eb; [|discriminate].
    inversion Henc; subst bs. cbn [decode_from canon_from].
    rewrite <- app_assoc.
    rewrite (field_roundtrip _ _ _ _ _ _ Hk Hv Ea).
    rewrite (prev_consistent _ _ _ Hv).
    rewrite (IH (Some k) _ _ _ rest HL Hm Eb). reflexivity.
Qed.

(* decode (encode m) = canon m, whole body consumed; over-long error text truncated *)
Theorem codec_roundtrip L m bs :
  wf_layout L = true -> within_limits L m = true -> encode L m = Some bs ->
  decode L bs = (canon L m, []).
Proof.
  intros Hwf Hlim Henc. unfold decode.
  rewrite <- (app_nil_r bs). eapply roundtrip_from; eauto.
Qed.

Lemma enc_field_total prev k v : lim_field k v = true -> exists a, enc_field prev k v = Some a.
Proof.
  destruct k, v; cbn; try discriminate; eauto.
  intros _. destruct (prev =? 0); eauto.
Qed.

Theorem encode_total L : forall prev m, within_limits L m = true -> exists bs, encode_from prev L m = Some bs.
Proof.
  induction L as [|[nm k] L IH]; intros prev [|v m] H; cbn in H; try discriminate.
  - cbn; eauto.
  - apply andb_true_iff in H as [Hv Hm]. cbn.
    destruct (enc_field_total prev k v Hv) as [a ->].
    destruct (IH (next_prev k v) m Hm) as [b ->]. eauto.
Qed.

Lemma canon_field_id prev k v :
  lim_field k v = true -> fits_field prev k v = true -> canon_field prev k v = v.
Proof.
  destruct k as [w|w|w| |w t|src], v as [s|n|b]; cbn; try discriminate; try reflexivity.
  - intros H _. f_equal. apply N.mod_small. lia.
  - intros H _. f_equal. apply andb_true_iff in H as [H1 H2].
    rewrite N.mod_small by lia. lia.
  - intros _. destruct (prev =? 0); intro H.
    + f_equal. apply firstn_all2. lia.
    + f_equal. destruct s; [reflexivity|discriminate].
Qed.

Theorem canon_id L : forall prev m,
  within_limits L m = true -> fits_from prev L m = true -> canon_from prev L m = m.
Proof.
  induction L as [|[nm k] L IH]; intros prev [|v m] H F; cbn in H; try discriminate.
  - reflexivity.
  - apply andb_true_iff in H as [Hv Hm]. cbn in F. apply andb_true_iff in F as [Fv Fm].
    cbn. rewrite canon_field_id by assumption. f_equal. now apply IH.
Qed.

(* the exact-message form of the round trip *)
Corollary codec_roundtrip_exact L m bs :
  wf_layout L = true -> within_limits L m = true -> fits L m = true ->
  encode L m = Some bs -> decode L bs = (m, []).
Proof.
  intros Hwf Hlim Hfit Henc.
  rewrite (codec_roundtrip L m bs Hwf Hlim Henc). unfold canon.
  now rewrite canon_id.
Qed.

(* truncation keeps the remaining fields decodable: the fields after an
   over-long error text decode to their own values *)
Lemma canon_length L : forall prev m, within_limits L m = true -> length (canon_from prev L m) = length m.
Proof.
  induction L as [|[nm k] L IH]; intros prev [|v m] H; cbn in H; try discriminate; cbn; auto.
  apply andb_true_iff in H as [_ Hm]. f_equal. now apply IH.
Qed.

Lemma canon_other_fields L : forall prev m i nm k v,
  within_limits L m = true ->
  nth_error L i = Some (nm, k) -> nth_error m i = Some v ->
  (forall w t, k <> FMsgIf w t) ->
  nth_error (canon_from prev L m) i = Some v.
Proof.
  induction L as [|[nm0 k0] L IH]; intros prev [|v0 m] i nm k v H HL Hm Hk; cbn in H; try discriminate.
  - destruct i; discriminate.
  - apply andb_true_iff in H as [Hv Hmm].
    destruct i as [|i]; cbn in HL, Hm |- *.
    + inversion HL; inversion Hm; subst. f_equal.
      destruct k, v; cbn in Hv |- *; try discriminate; try reflexivity.
      * f_equal. apply N.mod_small. lia.
      * f_equal. apply andb_true_iff in Hv as [H1 H2]. rewrite N.mod_small by lia. lia.
      * exfalso. eapply Hk. reflexivity.
    + eapply IH; eauto.
Qed.
