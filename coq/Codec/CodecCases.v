(* Executable comparison of observed codec behaviour (cases written by the
   harness run) with the model at the regenerated Go layout and with the
   Seata v1 reference layout.  No proofs here: this file must stay evaluable
   when a proof obligation breaks. *)
From Coq Require Import String Ascii.
From Coq Require Import List NArith Bool.
From SeataV Require Import Base.Bytes Codec.Layout Codec.Table Codec.SeataV1Spec.
From SeataV Require Import Gen.GoLayouts.
Import ListNotations.
Open Scope N_scope.
Open Scope list_scope.

Record ccase := {
  cc_code : N;
  cc_fields : list (string * fval);
  cc_enc : option bytes;                 (* CodecManager.Encode, type code included *)
  cc_dec : list (string * fval)          (* CodecManager.Decode of those bytes      *)
}.

Definition fval_eqb (a b : fval) : bool :=
  match a, b with
  | VS x, VS y => bytes_eqb x y
  | VI x, VI y => x =? y
  | VB x, VB y => Bool.eqb x y
  | _, _ => false
  end.

Fixpoint order (L : layout) (named : list (string * fval)) : option msg :=
  match L with
  | [] => Some []
  | (n, _) :: L' =>
      match lookupS named n, order L' named with
      | Some v, Some m => Some (v :: m)
      | _, _ => None
      end
  end.

Fixpoint msg_eqb (a b : msg) : bool :=
  match a, b with
  | [], [] => true
  | x :: a', y :: b' => fval_eqb x y && msg_eqb a' b'
  | _, _ => false
  end.

Fixpoint spec_layout (s : list spec_row) (code : N) : option layout :=
  match s with
  | [] => None
  | (c, _, L) :: s' => if c =? code then Some L else spec_layout s' code
  end.

Definition go_reg := registry_of go_codecs go_init_registered [].

(* error codes: 1 no v1 row for the code; 2 a wire field is missing from the case;
   3 bytes differ from the Seata v1 body (THE PROPERTY, on a concrete input);
   4 bytes differ from the model at the regenerated Go layout (correspondence);
   5 decoded value differs from the model's decode (correspondence);
   6 no codec registered in the model although the code encoded / vice versa *)
Definition check_case (c : ccase) : list N :=
  match spec_layout seata_v1 (cc_code c) with
  | None => [1]
  | Some L =>
    match order L (cc_fields c) with
    | None => [2]
    | Some m =>
      let v1 := match encode L m with Some b => Some (be 2 (cc_code c) ++ b) | None => None end in
      let e3 := match v1, cc_enc c with
                | Some a, Some b => if bytes_eqb a b then [] else [3]
                | _, _ => [3] end in
      match lookupN go_reg (cc_code c) with
      | None => e3 ++ match cc_enc c with None => [] | Some _ => [6] end
      | Some r =>
        let gm := match order (c_enc r) (cc_fields c) with
                  | Some m' => match encode (c_enc r) m' with
                               | Some b => Some (be 2 (c_type r) ++ b) | None => None end
                  | None => None end in
        let e4 := match gm, cc_enc c with
                  | Some a, Some b => if bytes_eqb a b then [] else [4]
                  | _, _ => [4] end in
        let e5 := match cc_enc c with
                  | Some b =>
                      let '(dm, _) := decode (c_dec r) (skipn 2 b) in
                      match order (c_dec r) (cc_dec c) with
                      | Some om => if msg_eqb dm om then [] else [5]
                      | None => [5] end
                  | None => [] end in
        e3 ++ e4 ++ e5
      end
    end
  end.

Fixpoint mismatches_from (i : nat) (cs : list ccase) : list (nat * list N) :=
  match cs with
  | [] => []
  | c :: cs' => match check_case c with
                | [] => mismatches_from (S i) cs'
                | e => (i, e) :: mismatches_from (S i) cs' end
  end.
Definition mismatches := mismatches_from 0.

(* diagnostics used when a proof obligation over the tables no longer checks *)
Definition failing_spec_rows : list N :=
  map (fun s => fst (fst s))
      (filter (fun s => negb (conforms go_codecs go_init_registered go_msg_typecode s)) seata_v1).
Definition failing_codec_rows : list string :=
  map c_name (filter (fun r => negb (row_ok r)) go_codecs).
