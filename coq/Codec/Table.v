(* Row type of the regenerated codec table (Gen/GoLayouts.v) and of the
   reference table (SeataV1Spec.v), with the boolean checks evaluated on them. *)
From Coq Require Import String Ascii.
From Coq Require Import List NArith Bool.
From SeataV Require Import Base.Bytes Codec.Layout.
Import ListNotations.
Open Scope N_scope.

Record codec_row := {
  c_name : string;   (* Go type of the codec                         *)
  c_msg  : string;   (* message struct its Encode asserts            *)
  c_type : N;        (* value returned by its GetMessageType         *)
  c_enc  : layout;   (* field sequence written by Encode             *)
  c_dec  : layout    (* field sequence read by Decode (trunc = 0)    *)
}.

Definition nat_eqb := Nat.eqb.

Definition kind_eqb (a b : fkind) : bool :=
  match a, b with
  | FStr x, FStr y | FInt x, FInt y | FBool x, FBool y => Nat.eqb x y
  | FDurMs, FDurMs => true
  | FMsgIf x t, FMsgIf y u => Nat.eqb x y && (t =? u)
  | _, _ => false
  end.

(* equality up to the truncation bound, which only the writer has *)
Definition kind_shape_eqb (a b : fkind) : bool :=
  match a, b with
  | FMsgIf x _, FMsgIf y _ => Nat.eqb x y
  | _, _ => kind_eqb a b
  end.

Fixpoint layout_eqb (A B : layout) : bool :=
  match A, B with
  | [], [] => true
  | (n, k) :: A', (m, j) :: B' => String.eqb n m && kind_eqb k j && layout_eqb A' B'
  | _, _ => false
  end.

Fixpoint same_shape (A B : layout) : bool :=
  match A, B with
  | [], [] => true
  | (n, k) :: A', (m, j) :: B' => String.eqb n m && kind_shape_eqb k j && same_shape A' B'
  | _, _ => false
  end.

Definition row_ok (r : codec_row) : bool :=
  wf_layout (c_enc r) && same_shape (c_enc r) (c_dec r).

Fixpoint find_row (rows : list codec_row) (name : string) : option codec_row :=
  match rows with
  | [] => None
  | r :: rs => if String.eqb (c_name r) name then Some r else find_row rs name
  end.

(* CodecManager.RegisterCodec stores under GetMessageType(); a later
   registration for the same type replaces an earlier one *)
Fixpoint registry_of (rows : list codec_row) (regs : list string) (acc : list (N * codec_row))
  : list (N * codec_row) :=
  match regs with
  | [] => acc
  | n :: regs' =>
      match find_row rows n with
      | Some r => registry_of rows regs' ((c_type r, r) :: acc)
      | None => registry_of rows regs' acc
      end
  end.

Fixpoint lookupN {A} (l : list (N * A)) (k : N) : option A :=
  match l with
  | [] => None
  | (k', v) :: l' => if k =? k' then Some v else lookupN l' k
  end.

Fixpoint lookupS {A} (l : list (string * A)) (k : string) : option A :=
  match l with
  | [] => None
  | (k', v) :: l' => if String.eqb k k' then Some v else lookupS l' k
  end.

Definition spec_row := (N * string * layout)%type.

Definition conforms (rows : list codec_row) (regs : list string)
           (msgcodes : list (string * N)) (s : spec_row) : bool :=
  let '(code, mname, L) := s in
  match lookupN (registry_of rows regs []) code with
  | Some r =>
      layout_eqb (c_enc r) L && String.eqb (c_msg r) mname && row_ok r &&
      match lookupS msgcodes mname with Some c => c =? code | None => false end
  | None => false
  end.
