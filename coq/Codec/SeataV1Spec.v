(* The Seata v1 body layouts, transcribed from the Java reference codecs
   (io.seata.serializer.seata.protocol.*, io.seata.core.protocol.MessageType),
   independently of the Go code (DESIGN.md Appendix A).  Field names are the
   Java property names with an upper-case initial (the Go spelling).  This table
   is the oracle "byte-for-byte the Seata v1 layout" refers to; it is trusted as
   a transcription. *)
From Coq Require Import String List NArith.
From SeataV Require Import Codec.Layout Codec.Table.
Import ListNotations.
Open Scope string_scope.
Open Scope N_scope.
Open Scope list_scope.

Definition S16 := FStr 2.
Definition S32 := FStr 4.
Definition U8 := FInt 1.
Definition I64 := FInt 8.
(* AbstractResultMessageCodec: resultCode byte; when Failed a short-prefixed
   message cut to Short.MAX_VALUE *)
Definition result : layout := [("ResultCode", U8); ("Msg", FMsgIf 2 32767)].
Definition txerr : layout := [("TransactionErrorCode", U8)].

Definition branch_end_req : layout :=
  [("Xid", S16); ("BranchId", I64); ("BranchType", U8); ("ResourceId", S16); ("ApplicationData", S32)].
Definition branch_end_resp : layout :=
  result ++ txerr ++ [("Xid", S16); ("BranchId", I64); ("BranchStatus", U8)].
Definition global_end_req : layout := [("Xid", S16); ("ExtraData", S16)].
Definition global_end_resp : layout := result ++ txerr ++ [("GlobalStatus", U8)].
Definition branch_reg_req : layout :=
  [("Xid", S16); ("BranchType", U8); ("ResourceId", S16); ("LockKey", S32); ("ApplicationData", S32)].
Definition identify_req : layout :=
  [("Version", S16); ("ApplicationId", S16); ("TransactionServiceGroup", S16); ("ExtraData", S16)].
Definition identify_resp : layout := [("Identified", FBool 1); ("Version", S16)].

Definition seata_v1 : list spec_row := [
  (1,   "GlobalBeginRequest",      [("Timeout", FDurMs); ("TransactionName", S16)]);
  (2,   "GlobalBeginResponse",     result ++ txerr ++ [("Xid", S16); ("ExtraData", S16)]);
  (3,   "BranchCommitRequest",     branch_end_req);
  (4,   "BranchCommitResponse",    branch_end_resp);
  (5,   "BranchRollbackRequest",   branch_end_req);
  (6,   "BranchRollbackResponse",  branch_end_resp);
  (7,   "GlobalCommitRequest",     global_end_req);
  (8,   "GlobalCommitResponse",    global_end_resp);
  (9,   "GlobalRollbackRequest",   global_end_req);
  (10,  "GlobalRollbackResponse",  global_end_resp);
  (11,  "BranchRegisterRequest",   branch_reg_req);
  (12,  "BranchRegisterResponse",  result ++ txerr ++ [("BranchId", I64)]);
  (13,  "BranchReportRequest",
        [("Xid", S16); ("BranchId", I64); ("Status", U8); ("ResourceId", S16);
         ("ApplicationData", S32); ("BranchType", U8)]);
  (14,  "BranchReportResponse",    result ++ txerr);
  (15,  "GlobalStatusRequest",     global_end_req);
  (16,  "GlobalStatusResponse",    global_end_resp);
  (17,  "GlobalReportRequest",     global_end_req ++ [("GlobalStatus", U8)]);
  (18,  "GlobalReportResponse",    global_end_resp);
  (21,  "GlobalLockQueryRequest",  branch_reg_req);
  (22,  "GlobalLockQueryResponse", result ++ txerr ++ [("Lockable", FBool 2)]);
  (101, "RegisterTMRequest",       identify_req);
  (102, "RegisterTMResponse",      identify_resp);
  (103, "RegisterRMRequest",       identify_req ++ [("ResourceIds", S32)]);
  (104, "RegisterRMResponse",      identify_resp)
].
