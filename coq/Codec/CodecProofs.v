(* C12 over the regenerated Go table: conformance with Seata v1, registration,
   and the round trip instantiated at every client message type. *)
From Coq Require Import String Ascii.
From Coq Require Import List NArith ZArith Lia Bool.
From SeataV Require Import Base.Bytes Codec.Layout Codec.LayoutProofs Codec.Table Codec.SeataV1Spec.
From SeataV Require Import Gen.GoLayouts.
Import ListNotations.
Open Scope N_scope.

Lemma kind_eqb_eq a b : kind_eqb a b = true -> a = b.
Proof.
  destruct a, b; cbn; try discriminate; intro H;
    try (apply Nat.eqb_eq in H; now subst); try reflexivity.
  apply andb_true_iff in H as [H1 H2]. apply Nat.eqb_eq in H1. apply N.eqb_eq in H2. now subst.
Qed.

Lemma layout_eqb_eq A : forall B, layout_eqb A B = true -> A = B.
Proof.
  induction A as [|[n k] A IH]; intros [|[m j] B]; cbn; try discriminate; auto.
  intro H. apply andb_true_iff in H as [H H3]. apply andb_true_iff in H as [H1 H2].
  apply String.eqb_eq in H1. apply kind_eqb_eq in H2. subst. f_equal. now apply IH.
Qed.

Lemma shape_dec_field a b prev bs : kind_shape_eqb a b = true -> dec_field prev a bs = dec_field prev b bs.
Proof.
  destruct a, b; cbn; try discriminate; intro H;
    try (apply Nat.eqb_eq in H; now subst); try reflexivity.
Qed.

Lemma shape_dec_prev a b v : kind_shape_eqb a b = true -> dec_prev a v = dec_prev b v.
Proof.
  destruct a, b; cbn; try discriminate; intro H; reflexivity.
Qed.

Lemma same_shape_decode A : forall B prev bs,
  same_shape A B = true -> decode_from prev A bs = decode_from prev B bs.
Proof.
  induction A as [|[n k] A IH]; intros [|[m j] B] prev bs; cbn [same_shape]; try discriminate; auto.
  intro H. apply andb_true_iff in H as [H H3]. apply andb_true_iff in H as [_ H2].
  cbn [decode_from]. rewrite (shape_dec_field _ _ _ _ H2).
  destruct (dec_field prev j bs) as [v r].
  rewrite (shape_dec_prev _ _ _ H2). now rewrite (IH B _ _ H3).
Qed.

Lemma registry_type rows regs : forall acc code r,
  (forall c x, lookupN acc c = Some x -> c_type x = c) ->
  lookupN (registry_of rows regs acc) code = Some r -> c_type r = code.
Proof.
  induction regs as [|n regs IH]; intros acc code r Hacc H; cbn in H.
  - eauto.
  - destruct (find_row rows n) as [r0|]; [|eauto].
    eapply IH; [|exact H]. intros c x Hc. cbn in Hc.
    destruct (c =? c_type r0) eqn:E; [|eauto].
    apply N.eqb_eq in E. inversion Hc; subst. reflexivity.
Qed.

(* ---- the finite part: evaluated on the table regenerated from the source ---- *)
Definition go_registry := registry_of go_codecs go_init_registered [].

Definition c12_conforms : bool :=
  forallb (conforms go_codecs go_init_registered go_msg_typecode) seata_v1.
Definition c12_rows_ok : bool := forallb row_ok go_codecs.
Definition c12_init_ok : bool := match go_init_unknown with [] => true | _ => false end.
Definition c12_failed_is_zero : bool := go_result_code_failed =? 0.

Lemma go_conforms : c12_conforms = true.
Proof. vm_compute. reflexivity. Qed.
Lemma go_wf : c12_rows_ok = true.
Proof. vm_compute. reflexivity. Qed.
Lemma go_init_understood : c12_init_ok = true.
Proof. vm_compute. reflexivity. Qed.
Lemma go_failed_is_zero : c12_failed_is_zero = true.
Proof. vm_compute. reflexivity. Qed.

(* ---- the property, for every one of the 24 client message types ---- *)
Theorem C12_wire_codec :
  forall code mname L, In (code, mname, L) seata_v1 ->
  exists r,
    lookupN go_registry code = Some r        (* a codec is registered for the type code *)
    /\ c_type r = code                       (* ... whose own type code is that code     *)
    /\ c_msg r = mname                       (* ... and which encodes that message type  *)
    /\ lookupS go_msg_typecode mname = Some code   (* the message's own type code agrees *)
    /\ c_enc r = L                           (* same fields, order, widths, prefixes as v1 *)
    /\ forall m, within_limits L m = true ->
         exists bs, encode (c_enc r) m = Some bs
           /\ encode L m = Some bs           (* byte-for-byte the v1 body *)
           /\ decode (c_dec r) bs = (canon L m, [])   (* whole body consumed; error text truncated *)
           /\ (fits L m = true -> decode (c_dec r) bs = (m, [])).
Proof.
  intros code mname L Hin.
  pose proof go_conforms as HC. unfold c12_conforms in HC.
  rewrite forallb_forall in HC. specialize (HC _ Hin).
  unfold conforms in HC. fold go_registry in HC.
  destruct (lookupN go_registry code) as [r|] eqn:Er; [|discriminate].
  apply andb_true_iff in HC as [HC H4]. apply andb_true_iff in HC as [HC H3].
  apply andb_true_iff in HC as [H1 H2].
  apply layout_eqb_eq in H1. apply String.eqb_eq in H2.
  unfold row_ok in H3. apply andb_true_iff in H3 as [Hwf Hshape].
  exists r. split; [reflexivity|]. split.
  { eapply registry_type; [|exact Er]. intros c x Hx; discriminate. }
  split; [exact H2|]. split.
  { destruct (lookupS go_msg_typecode mname) as [c|]; [|discriminate].
    apply N.eqb_eq in H4. now subst. }
  split; [exact H1|].
  intros m Hm. destruct (encode_total L 1 m Hm) as [bs Hbs].
  exists bs. rewrite H1. split; [exact Hbs|]. split; [exact Hbs|].
  assert (Hdec : decode (c_dec r) bs = decode L bs).
  { unfold decode. symmetry. rewrite <- H1. now apply same_shape_decode. }
  rewrite Hdec. rewrite H1 in Hwf.
  split.
  - now apply codec_roundtrip.
  - intro Hf. now apply codec_roundtrip_exact.
Qed.

(* non-vacuity: a failed BranchCommitResponse at the v1 layout, and the
   truncation clause on a layout with a small bound (the 32767 bound behaves
   the same way; evaluating it here would only cost stack) *)
Example C12_nonvacuous :
  let L := branch_end_resp in
  let m := [VI 0; VS (repeat Byte.x41 300); VI 7; VS (hex "6162"); VI 18446744073709551615; VI 255] in
  In (4, "BranchCommitResponse"%string, L) seata_v1 /\
  within_limits L m = true /\ fits L m = true /\
  match encode L m with
  | Some bs => Nat.eqb (length bs) (1 + 2 + 300 + 1 + 2 + 2 + 8 + 1) && bytes_eqb (firstn 3 bs) (hex "00012c")
  | None => false end = true.
Proof. cbn zeta. split; [cbn; tauto|]. vm_compute. auto. Qed.

Example C12_trunc_nonvacuous :
  let L := [("ResultCode"%string, FInt 1); ("Msg"%string, FMsgIf 1 100); ("BranchId"%string, FInt 8)] in
  let m := [VI 0; VS (repeat Byte.x41 300); VI 77] in
  wf_layout L = true /\ within_limits L m = true /\ fits L m = false /\
  match encode L m with
  | Some bs => match decode L bs with
               | ([VI 0; VS s; VI 77], []) => Nat.eqb (length s) 100
               | _ => false end
  | None => false end = true.
Proof. vm_compute. auto. Qed.
