(* Theorems about the frame model: head-map round trip, exact read of a written
   frame, "need more" on every strict prefix, totality on garbage, and the
   stream theorem over every partition into chunks. *)
From Coq Require Import String Ascii.
From Coq Require Import List NArith ZArith Lia Bool.
From Coq Require Import ZifyN ZifyNat ZifyBool.
From SeataV Require Import Base.Bytes Frame.FrameModel.
Import ListNotations.
Open Scope N_scope.
Local Opaque be unbe take_pad.

(* ------------------------------------------------------------ head map *)
Lemma len_app a b : len (a ++ b) = len a + len b.
Proof. unfold len. rewrite app_length. lia. Qed.

Lemma len_be w n : len (be w n) = N.of_nat w.
Proof. unfold len. now rewrite be_length. Qed.

Lemma read_str16_enc k rest :
  len k < 65536 -> read_str16 (be 2 (len k) ++ k ++ rest) = (k, rest).
Proof.
  intro H. unfold read_str16, read_u16.
  replace (length (be 2 (len k) ++ k ++ rest) <? 2)%nat with false
    by (symmetry; apply Nat.ltb_ge; rewrite app_length, be_length; lia).
  rewrite take_pad_app by apply be_length.
  rewrite unbe_be_small by (cbn; exact H).
  unfold len. rewrite Nat2N.id.
  rewrite skipn_app_exact by apply be_length.
  rewrite take_pad_app by reflexivity.
  rewrite skipn_app_exact by reflexivity. reflexivity.
Qed.

Lemma len_enc_entry e : len (enc_entry e) = 4 + len (fst e) + len (snd e).
Proof. unfold enc_entry. rewrite !len_app, !len_be. lia. Qed.

Definition set_all (h acc : headmap) : headmap :=
  fold_left (fun a e => map_set a (fst e) (snd e)) h acc.

Lemma decode_loop_encoded h : forall fuel readed acc,
  forallb wf_entry h = true -> (length h < fuel)%nat ->
  decode_headmap_loop fuel (encode_headmap h) readed (readed + len (encode_headmap h)) acc
  = Some (set_all h acc).
Proof.
  induction h as [|[k v] h IH]; intros fuel readed acc Hwf Hf.
  - cbn [encode_headmap flat_map]. replace (readed + len []) with readed by (cbn; lia).
    destruct fuel; cbn [decode_headmap_loop]; rewrite N.leb_refl; reflexivity.
  - cbn [forallb] in Hwf. apply andb_true_iff in Hwf as [He Hh].
    unfold wf_entry in He. cbn [fst snd] in He.
    destruct fuel as [|fuel]; [cbn in Hf; lia|].
    cbn [encode_headmap flat_map]. fold (encode_headmap h).
    cbn [decode_headmap_loop].
    rewrite len_app, len_enc_entry. cbn [fst snd].
    destruct (readed + (4 + len k + len v + len (encode_headmap h)) <=? readed) eqn:E; [lia|].
    unfold enc_entry. cbn [fst snd]. rewrite <- !app_assoc.
    rewrite read_str16_enc by lia.
    rewrite read_str16_enc by lia.
    replace (readed + (4 + len k + len v + len (encode_headmap h)))
      with ((readed + 4 + len k + len v) + len (encode_headmap h)) by lia.
    rewrite IH; [reflexivity|exact Hh|cbn in Hf; lia].
Qed.

Lemma map_set_fresh acc k v :
  existsb (fun e => bytes_eqb k (fst e)) acc = false -> map_set acc k v = acc ++ [(k, v)].
Proof.
  induction acc as [|[k' v'] acc IH]; cbn; auto.
  intro H. apply orb_false_iff in H as [H1 H2]. rewrite H1. now rewrite IH.
Qed.

Lemma existsb_app_false {A} f (a b : list A) :
  existsb f (a ++ b) = false <-> existsb f a = false /\ existsb f b = false.
Proof. rewrite existsb_app, orb_false_iff. tauto. Qed.

Lemma bytes_eqb_sym a b : bytes_eqb a b = bytes_eqb b a.
Proof.
  destruct (bytes_eqb a b) eqn:E1, (bytes_eqb b a) eqn:E2; auto.
  - apply bytes_eqb_eq in E1. subst. now rewrite bytes_eqb_refl in E2.
  - apply bytes_eqb_eq in E2. subst. now rewrite bytes_eqb_refl in E1.
Qed.

Lemma set_all_nodup h : forall acc,
  nodup_keys h = true ->
  (forall e, In e h -> existsb (fun a => bytes_eqb (fst e) (fst a)) acc = false) ->
  set_all h acc = acc ++ h.
Proof.
  induction h as [|[k v] h IH]; intros acc Hn Hd; cbn.
  - now rewrite app_nil_r.
  - cbn in Hn. apply andb_true_iff in Hn as [Hk Hn]. apply negb_true_iff in Hk.
    rewrite map_set_fresh by (apply (Hd (k, v)); now left).
    rewrite IH; [now rewrite <- app_assoc| exact Hn |].
    intros e He. apply existsb_app_false. split; [apply Hd; now right|].
    cbn. rewrite orb_false_r.
    destruct (bytes_eqb (fst e) k) eqn:E; auto.
    apply bytes_eqb_eq in E. subst k.
    assert (existsb (fun e0 => bytes_eqb (fst e) (fst e0)) h = true).
    { apply existsb_exists. exists e. split; auto. apply bytes_eqb_refl. }
    congruence.
Qed.

Lemma enc_headmap_len_ge h : 4 * N.of_nat (length h) <= len (encode_headmap h).
Proof.
  induction h as [|e h IH]; cbn [encode_headmap flat_map length]; [cbn; lia|].
  fold (encode_headmap h). rewrite len_app, len_enc_entry. lia.
Qed.

(* head-map entries, empty keys and values included, survive write/read *)
Theorem headmap_roundtrip h :
  forallb wf_entry h = true -> nodup_keys h = true ->
  decode_headmap (encode_headmap h) (len (encode_headmap h)) = Some h.
Proof.
  intros Hwf Hn. unfold decode_headmap.
  pose proof (decode_loop_encoded h (S (N.to_nat (len (encode_headmap h) / 4))) 0 [] Hwf) as H.
  rewrite N.add_0_l in H. rewrite H.
  - rewrite set_all_nodup; auto.
  - pose proof (enc_headmap_len_ge h). lia.
Qed.

(* the head-map loop always terminates within its fuel, whatever the bytes *)
Lemma decode_loop_total fuel : forall bs readed length acc,
  length < readed + 4 * N.of_nat fuel ->
  decode_headmap_loop fuel bs readed length acc <> None.
Proof.
  induction fuel as [|fuel IH]; intros bs readed length acc H; cbn [decode_headmap_loop].
  - destruct (length <=? readed) eqn:E; [discriminate|lia].
  - destruct (length <=? readed) eqn:E; [discriminate|].
    destruct (read_str16 bs) as [k r1]. destruct (read_str16 r1) as [v r2].
    apply IH. lia.
Qed.

Theorem decode_headmap_total bs length : decode_headmap bs length <> None.
Proof. unfold decode_headmap. apply decode_loop_total. lia. Qed.

(* ------------------------------------------------------------ frames *)
Definition hb_of (m : rpcmsg) : bytes := encode_headmap (r_head m).
Definition body_of (m : rpcmsg) : bytes := if is_heartbeat (r_type m) then [] else r_body m.
Definition headlen_of (m : rpcmsg) : N := 16 + len (hb_of m).
Definition total_of (m : rpcmsg) : N := headlen_of m + len (body_of m).

Definition hdr (m : rpcmsg) : bytes :=
  [xda; xda; n2b 1] ++ be 4 (total_of m) ++ be 2 (headlen_of m) ++
  [n2b (r_type m); n2b (r_codec m); n2b (r_compressor m)] ++ be 4 (r_id m).

Lemma frame_write_split m : frame_write m = hdr m ++ hb_of m ++ body_of m.
Proof.
  unfold frame_write, hdr, total_of, headlen_of, hb_of, body_of.
  assert (E : match r_head m with [] => [] | _ :: _ => encode_headmap (r_head m) end
              = encode_headmap (r_head m)) by (destruct (r_head m); reflexivity).
  rewrite E. cbn [app]. rewrite <- !app_assoc. cbn [app]. reflexivity.
Qed.

Lemma hdr_length m : length (hdr m) = 16%nat.
Proof. unfold hdr. rewrite !app_length, !be_length. reflexivity. Qed.

Lemma frame_length m : len (frame_write m) = total_of m.
Proof.
  rewrite frame_write_split, !len_app. unfold total_of, headlen_of, len at 1.
  rewrite hdr_length. lia.
Qed.

Lemma body_le m : len (body_of m) <= len (r_body m).
Proof. unfold body_of. destruct (is_heartbeat _); cbn; lia. Qed.

Lemma sub_in_prefix (p rest : bytes) from to :
  to <= len p -> sub (p ++ rest) from to = sub p from to.
Proof.
  intro H. unfold sub, len in *.
  destruct (N.le_gt_cases to from) as [Hle|Hgt].
  - replace (N.to_nat (to - from)) with 0%nat by lia. reflexivity.
  - rewrite skipn_app. rewrite firstn_app.
    rewrite skipn_length.
    replace (N.to_nat (to - from) - (length p - N.to_nat from))%nat with 0%nat by lia.
    cbn. now rewrite app_nil_r.
Qed.

Lemma sub_exact (a x b : bytes) from to :
  len a = from -> len x = to - from -> from <= to -> sub (a ++ x ++ b) from to = x.
Proof.
  intros Ha Hx Hle. unfold sub, len in *.
  rewrite skipn_app_exact by lia.
  rewrite firstn_app. replace (N.to_nat (to - from) - length x)%nat with 0%nat by lia.
  rewrite firstn_all2 by lia. cbn. now rewrite app_nil_r.
Qed.

Section Hdr.
  Variable m : rpcmsg.
  Hypothesis Hwf : wf_msg m = true.

  Lemma wf_parts :
    r_id m < 4294967296 /\ r_type m < 256 /\ r_codec m < 256 /\ r_compressor m < 256 /\
    forallb wf_entry (r_head m) = true /\ nodup_keys (r_head m) = true /\
    headlen_of m < 65536 /\ total_of m < 4294967296.
  Proof.
    unfold wf_msg in Hwf. repeat (apply andb_true_iff in Hwf as [Hwf ?]).
    unfold headlen_of, total_of, headlen_of, hb_of. pose proof (body_le m).
    repeat split; try lia; auto.
  Qed.

  Lemma hdr_total : unbe (sub (hdr m) 3 7) = total_of m.
  Proof.
    destruct wf_parts as (_&_&_&_&_&_&_&Ht).
    unfold hdr. change [xda; xda; n2b 1] with ([xda; xda; n2b 1] : bytes).
    rewrite sub_exact; [apply unbe_be_small; exact Ht|reflexivity|now rewrite len_be|lia].
  Qed.

  Lemma hdr_headlen : unbe (sub (hdr m) 7 9) = headlen_of m.
  Proof.
    destruct wf_parts as (_&_&_&_&_&_&Hh&_).
    unfold hdr. rewrite (app_assoc [xda; xda; n2b 1]).
    rewrite sub_exact; [apply unbe_be_small; exact Hh| |now rewrite len_be|lia].
    rewrite len_app, len_be. reflexivity.
  Qed.

  Lemma sub_single (a : bytes) (x : byte) (b : bytes) from :
    len a = from -> sub (a ++ x :: b) from (from + 1) = [x].
  Proof.
    intro H. change (x :: b) with ([x] ++ b). apply sub_exact; auto; cbn; lia.
  Qed.

  Lemma unbe_single n : n < 256 -> unbe [n2b n] = n.
  Proof.
    intro H. Local Transparent unbe. cbn [unbe length]. Local Opaque unbe.
    rewrite b2n_n2b, N.mod_small by lia. cbn. lia.
  Qed.

  Lemma hdr_fields :
    unbe (sub (hdr m) 9 10) = r_type m /\ unbe (sub (hdr m) 10 11) = r_codec m /\
    unbe (sub (hdr m) 11 12) = r_compressor m /\ unbe (sub (hdr m) 12 16) = r_id m.
  Proof.
    destruct wf_parts as (Hi&Ht&Hc&Hp&_).
    unfold hdr.
    set (P := [xda; xda; n2b 1]). set (T := be 4 (total_of m)). set (H := be 2 (headlen_of m)).
    assert (LP : len P = 3) by reflexivity.
    assert (LT : len T = 4) by (unfold T; now rewrite len_be).
    assert (LH : len H = 2) by (unfold H; now rewrite len_be).
    repeat split.
    - replace (P ++ T ++ H ++ [n2b (r_type m); n2b (r_codec m); n2b (r_compressor m)] ++ be 4 (r_id m))
        with ((P ++ T ++ H) ++ n2b (r_type m) :: ([n2b (r_codec m); n2b (r_compressor m)] ++ be 4 (r_id m)))
        by (rewrite <- !app_assoc; reflexivity).
      change 10 with (9 + 1). rewrite sub_single; [now apply unbe_single|].
      rewrite !len_app. lia.
    - replace (P ++ T ++ H ++ [n2b (r_type m); n2b (r_codec m); n2b (r_compressor m)] ++ be 4 (r_id m))
        with ((P ++ T ++ H ++ [n2b (r_type m)]) ++ n2b (r_codec m) :: ([n2b (r_compressor m)] ++ be 4 (r_id m)))
        by (rewrite <- !app_assoc; reflexivity).
      change 11 with (10 + 1). rewrite sub_single; [now apply unbe_single|].
      rewrite !len_app. unfold len in *. cbn [length]. lia.
    - replace (P ++ T ++ H ++ [n2b (r_type m); n2b (r_codec m); n2b (r_compressor m)] ++ be 4 (r_id m))
        with ((P ++ T ++ H ++ [n2b (r_type m); n2b (r_codec m)]) ++ n2b (r_compressor m) :: be 4 (r_id m))
        by (rewrite <- !app_assoc; reflexivity).
      change 12 with (11 + 1). rewrite sub_single; [now apply unbe_single|].
      rewrite !len_app. unfold len in *. cbn [length]. lia.
    - replace (P ++ T ++ H ++ [n2b (r_type m); n2b (r_codec m); n2b (r_compressor m)] ++ be 4 (r_id m))
        with ((P ++ T ++ H ++ [n2b (r_type m); n2b (r_codec m); n2b (r_compressor m)]) ++ be 4 (r_id m) ++ [])
        by (rewrite <- !app_assoc; now rewrite app_nil_r).
      rewrite sub_exact; [apply unbe_be_small; exact Hi| |now rewrite len_be|lia].
      rewrite !len_app. unfold len in *. cbn [length]. lia.
  Qed.

  Lemma hdr_magic rest : magic_prefix_ok (hdr m ++ rest) = true.
  Proof.
    unfold hdr. cbn [app magic_prefix_ok]. unfold byte_eqb. now rewrite !N.eqb_refl.
  Qed.
End Hdr.

(* a written frame followed by anything reads back as the message, consuming
   exactly the frame *)
Theorem frame_exact m rest :
  wf_msg m = true ->
  frame_read (frame_write m ++ rest) = RMsg (canon_msg m) (len (frame_write m)).
Proof.
  intro Hwf. destruct (wf_parts m Hwf) as (Hi&Ht&Hc&Hp&He&Hn&Hh&Htot).
  rewrite frame_length.
  rewrite frame_write_split. rewrite <- !app_assoc.
  unfold frame_read.
  assert (L16 : len (hdr m) = 16) by (unfold len; now rewrite hdr_length).
  rewrite len_app, L16.
  destruct (16 + len (hb_of m ++ body_of m ++ rest) <? 16) eqn:E; [lia|].
  rewrite (hdr_magic m). cbn [negb].
  rewrite (sub_in_prefix (hdr m) _ 3 7), (sub_in_prefix (hdr m) _ 7 9) by lia.
  try rewrite (sub_in_prefix (hdr m) _ 9 10) by lia.
  try rewrite (sub_in_prefix (hdr m) _ 10 11) by lia.
  try rewrite (sub_in_prefix (hdr m) _ 11 12) by lia.
  try rewrite (sub_in_prefix (hdr m) _ 12 16) by lia.
  rewrite (hdr_total m Hwf), (hdr_headlen m Hwf).
  destruct (hdr_fields m Hwf) as (F1&F2&F3&F4). rewrite F1, F2, F3, F4.
  assert (Hhl : 16 <= headlen_of m) by (unfold headlen_of; lia).
  assert (Htl : headlen_of m <= total_of m) by (unfold total_of; lia).
  destruct ((headlen_of m <? 16) || (total_of m <? headlen_of m)) eqn:E2; [lia|].
  rewrite !len_app.
  destruct (16 + (len (hb_of m) + (len (body_of m) + len rest)) <? total_of m) eqn:E3;
    [unfold total_of, headlen_of in E3; lia|].
  (* head map *)
  assert (Hsub1 : sub (hdr m ++ hb_of m ++ body_of m ++ rest) 16 (headlen_of m) = hb_of m).
  { apply sub_exact; auto; unfold headlen_of; lia. }
  rewrite Hsub1. replace (headlen_of m - 16) with (len (hb_of m)) by (unfold headlen_of; lia).
  unfold hb_of at 1 2. rewrite headmap_roundtrip by assumption.
  (* body *)
  assert (Hsub2 : sub (hdr m ++ hb_of m ++ body_of m ++ rest) (headlen_of m) (total_of m) = body_of m).
  { rewrite (app_assoc (hdr m)). apply sub_exact.
    - rewrite len_app. unfold headlen_of. lia.
    - unfold total_of. lia.
    - exact Htl. }
  rewrite Hsub2. unfold canon_msg, body_of.
  destruct (is_heartbeat (r_type m)); reflexivity.
Qed.

(* every strict prefix of a written frame: "need more data", nothing fabricated *)
Definition strict_prefix (p f : bytes) : Prop := exists q, q <> [] /\ f = p ++ q.

Lemma magic_prefix_of_prefix p q :
  magic_prefix_ok (p ++ q) = true -> (2 <= length (p ++ q))%nat -> magic_prefix_ok p = true.
Proof.
  destruct p as [|a [|b p]]; cbn; auto.
  destruct q as [|c q]; cbn; [lia|].
  intros H _. now apply andb_true_iff in H as [H _].
Qed.

Theorem frame_prefix m p :
  wf_msg m = true -> strict_prefix p (frame_write m) ->
  exists hint, frame_read p = RNeed hint.
Proof.
  intros Hwf (q & Hq & Hpq).
  destruct (wf_parts m Hwf) as (Hi&Ht&Hc&Hp&He&Hn&Hh&Htot).
  assert (Hlen : len p < total_of m).
  { rewrite <- frame_length, Hpq, len_app. destruct q; [congruence|]. unfold len. cbn. lia. }
  assert (L16 : len (hdr m) = 16) by (unfold len; now rewrite hdr_length).
  assert (Hmag : magic_prefix_ok p = true).
  { apply (magic_prefix_of_prefix p q).
    - rewrite <- Hpq, frame_write_split. apply hdr_magic.
    - rewrite <- Hpq, frame_write_split, app_length, hdr_length. lia. }
  unfold frame_read. rewrite Hmag. cbn [negb].
  destruct (len p <? 16) eqn:E; [eauto|].
  (* the fixed header is complete: p = hdr ++ p' *)
  assert (Hp16 : exists p', p = hdr m ++ p').
  { rewrite frame_write_split in Hpq.
    exists (skipn 16 p).
    assert (firstn 16 p = hdr m).
    { assert (H1 : firstn 16 (p ++ q) = firstn 16 p).
      { rewrite firstn_app. replace (16 - length p)%nat with 0%nat by (unfold len in E; lia).
        cbn. now rewrite app_nil_r. }
      rewrite <- H1, <- Hpq. rewrite firstn_app, hdr_length.
      replace (16 - 16)%nat with 0%nat by lia. rewrite firstn_O, app_nil_r.
      apply firstn_all2. rewrite hdr_length. lia. }
    rewrite <- H. symmetry. apply firstn_skipn. }
  destruct Hp16 as (p' & ->).
  rewrite (sub_in_prefix (hdr m) _ 3 7), (sub_in_prefix (hdr m) _ 7 9) by lia.
  try rewrite (sub_in_prefix (hdr m) _ 9 10) by lia.
  try rewrite (sub_in_prefix (hdr m) _ 10 11) by lia.
  try rewrite (sub_in_prefix (hdr m) _ 11 12) by lia.
  try rewrite (sub_in_prefix (hdr m) _ 12 16) by lia.
  rewrite (hdr_total m Hwf), (hdr_headlen m Hwf).
  assert (Hhl : 16 <= headlen_of m) by (unfold headlen_of; lia).
  assert (Htl : headlen_of m <= total_of m) by (unfold total_of; lia).
  destruct ((headlen_of m <? 16) || (total_of m <? headlen_of m)) eqn:E2; [lia|].
  destruct (len (hdr m ++ p') <? total_of m) eqn:E3; [eauto|lia].
Qed.

(* arbitrary bytes: Read terminates (no fuel exhaustion) and never reports a
   package of length 0 *)
Theorem frame_read_garbage data :
  frame_read data <> RFuel /\ forall m n, frame_read data = RMsg m n -> 16 <= n.
Proof.
  unfold frame_read. split.
  - destruct (len data <? 16); [destruct (magic_prefix_ok data); discriminate|].
    destruct (negb (magic_prefix_ok data)); [discriminate|].
    destruct (_ || _); [discriminate|].
    destruct (len data <? _); [discriminate|].
    destruct (decode_headmap _ _) eqn:E; [discriminate|].
    now apply decode_headmap_total in E.
  - intros m n.
    destruct (len data <? 16); [destruct (magic_prefix_ok data); discriminate|].
    destruct (negb (magic_prefix_ok data)); [discriminate|].
    destruct (_ || _) eqn:E; [discriminate|].
    destruct (len data <? _); [discriminate|].
    destruct (decode_headmap _ _); [|discriminate].
    intro H. inversion H; subst. lia.
Qed.

Lemma frame_read_msg_bound data m n : frame_read data = RMsg m n -> n <= len data.
Proof.
  unfold frame_read.
  destruct (len data <? 16); [destruct (magic_prefix_ok data); discriminate|].
  destruct (negb (magic_prefix_ok data)); [discriminate|].
  destruct (_ || _); [discriminate|].
  destruct (len data <? _) eqn:E; [discriminate|].
  destruct (decode_headmap _ _); [|discriminate].
  intro H. inversion H; subst. lia.
Qed.

(* ------------------------------------------------------------ the receive loop *)
Definition stream (ms : list rpcmsg) : bytes := flat_map frame_write ms.

Lemma pump_step fuel buf :
  buf <> [] ->
  pump (S fuel) buf =
    match frame_read buf with
    | RErr => ([Close], buf, false)
    | RFuel => ([OutOfFuel], buf, false)
    | RNeed _ => ([], buf, true)
    | RMsg m n =>
        if n =? 0 then ([Deliver m; Spin], buf, false)
        else let '(ev, b, o) := pump fuel (skipn (N.to_nat n) buf) in (Deliver m :: ev, b, o)
    end.
Proof. destruct buf; [congruence|reflexivity]. Qed.

Lemma frame_nonempty m : wf_msg m = true -> 16 <= len (frame_write m).
Proof. intro H. rewrite frame_length. unfold total_of, headlen_of. lia. Qed.

Definition partial (p : bytes) (ms : list rpcmsg) : Prop :=
  p = [] \/ exists m ms', ms = m :: ms' /\ strict_prefix p (frame_write m).

Lemma pump_frames ms : forall p fuel later,
  Forall (fun m => wf_msg m = true) (ms ++ later) -> partial p later ->
  (length (stream ms ++ p) < fuel)%nat ->
  pump fuel (stream ms ++ p) = (map Deliver (map canon_msg ms), p, true).
Proof.
  induction ms as [|m ms IH]; intros p fuel later Hwf Hp Hf.
  - cbn [stream flat_map app map]. cbn [app] in Hwf.
    destruct p as [|x p]; [destruct fuel; reflexivity|].
    destruct fuel as [|fuel]; [cbn in Hf; lia|].
    rewrite pump_step by discriminate.
    destruct Hp as [Hp|(m & ms' & -> & Hsp)]; [discriminate|].
    inversion Hwf as [|? ? Hm _]; subst.
    destruct (frame_prefix m (x :: p) Hm Hsp) as [hint ->]. reflexivity.
  - cbn [stream flat_map]. fold (stream ms). rewrite <- app_assoc.
    cbn [app] in Hwf. inversion Hwf as [|? ? Hm Hrest]; subst.
    pose proof (frame_nonempty m Hm) as Hne.
    destruct fuel as [|fuel]; [cbn in Hf; lia|].
    rewrite pump_step.
    2:{ intro E. apply (f_equal (@length _)) in E. rewrite app_length in E. unfold len in Hne. cbn in E. lia. }
    rewrite frame_exact by exact Hm.
    destruct (len (frame_write m) =? 0) eqn:E0; [lia|].
    unfold len. rewrite Nat2N.id. rewrite skipn_app_exact by reflexivity.
    rewrite (IH p fuel later Hrest Hp).
    + reflexivity.
    + cbn [stream flat_map] in Hf. fold (stream ms) in Hf. rewrite <- app_assoc, app_length in Hf.
      unfold len in Hne. lia.
Qed.

Lemma stream_app a b : stream (a ++ b) = stream a ++ stream b.
Proof. unfold stream. apply flat_map_app. Qed.

Lemma prefix_decomp ms : forall q r,
  Forall (fun m => wf_msg m = true) ms -> q ++ r = stream ms ->
  exists a b p, ms = a ++ b /\ q = stream a ++ p /\ partial p b.
Proof.
  induction ms as [|m ms IH]; intros q r Hwf H.
  - cbn in H. apply app_eq_nil in H as [-> _]. exists [], [], []. repeat split. now left.
  - cbn [stream flat_map] in H. fold (stream ms) in H.
    inversion Hwf as [|? ? Hm Hrest]; subst.
    apply app_eq_app in H as [l [[Hq Hs]|[Hf Hr]]].
    + symmetry in Hs. destruct (IH l r Hrest Hs) as (a & b & p & -> & -> & Hp).
      exists (m :: a), b, p. repeat split; auto.
      cbn [stream flat_map]. fold (stream a). now rewrite Hq, app_assoc.
    + destruct l as [|x l].
      * rewrite app_nil_r in Hf. subst q. cbn [app] in Hr. subst r.
        exists [m], ms, []. repeat split; [|now left].
        cbn. now rewrite !app_nil_r.
      * exists [], (m :: ms), q. repeat split. right. exists m, ms. split; auto.
        exists (x :: l). split; [discriminate|exact Hf].
Qed.

Lemma partial_end p ms :
  Forall (fun m => wf_msg m = true) ms -> partial p ms -> p = stream ms -> ms = [].
Proof.
  intros Hwf [->|(m & ms' & -> & (q & Hq & Hpq))] H.
  - destruct ms as [|m ms]; auto. inversion Hwf; subst.
    pose proof (frame_nonempty m H2) as Hne.
    cbn [stream flat_map] in H. apply (f_equal (@length _)) in H.
    rewrite app_length in H. unfold len in Hne. cbn in H. lia.
  - exfalso. cbn [stream flat_map] in H. rewrite Hpq in H.
    apply (f_equal (@length _)) in H. rewrite !app_length in H.
    destruct q; [congruence|]. cbn in H. lia.
Qed.

Theorem drive_from_stream chunks : forall ms p,
  Forall (fun m => wf_msg m = true) ms -> partial p ms ->
  p ++ concat chunks = stream ms ->
  drive_from p chunks = map Deliver (map canon_msg ms).
Proof.
  induction chunks as [|c cs IH]; intros ms p Hwf Hp H.
  - cbn in H. rewrite app_nil_r in H. rewrite (partial_end p ms Hwf Hp H). reflexivity.
  - cbn [concat] in H. cbn [drive_from].
    destruct c as [|x c]; [now apply IH|].
    rewrite app_assoc in H.
    destruct (prefix_decomp ms (p ++ x :: c) (concat cs) Hwf H) as (a & b & p' & -> & Hq & Hp').
    rewrite Hq.
    rewrite (pump_frames a p' _ b Hwf Hp') by lia.
    rewrite stream_app, Hq, <- app_assoc in H. apply app_inv_head in H.
    apply Forall_app in Hwf as [_ Hb].
    rewrite (IH b p' Hb Hp' H). now rewrite !map_app.
Qed.

(* THE stream theorem: whatever way the concatenated frames are cut into reads
   (every cut position, inside the header and the head map included, empty
   reads too), the loop delivers exactly the messages, in order *)
Theorem C13_stream_any_partition ms chunks :
  Forall (fun m => wf_msg m = true) ms -> concat chunks = stream ms ->
  drive chunks = map Deliver (map canon_msg ms).
Proof.
  intros Hwf H. unfold drive. apply drive_from_stream; auto. now left.
Qed.

(* arbitrary bytes in arbitrary chunks: the loop never spins and never runs out of fuel *)
Lemma pump_progress fuel : forall buf,
  (length buf < fuel)%nat ->
  let '(ev, _, _) := pump fuel buf in ~ In Spin ev /\ ~ In OutOfFuel ev.
Proof.
  induction fuel as [|fuel IH]; intros buf Hf; [lia|].
  destruct buf as [|x buf]; [cbn; tauto|].
  rewrite pump_step by discriminate.
  destruct (frame_read_garbage (x :: buf)) as [Hnf Hn].
  destruct (frame_read (x :: buf)) as [|hint|m n|] eqn:E; try (cbn; intuition discriminate).
  - specialize (Hn m n eq_refl). pose proof (frame_read_msg_bound _ _ _ E) as Hb.
    destruct (n =? 0) eqn:E0; [lia|].
    specialize (IH (skipn (N.to_nat n) (x :: buf))).
    rewrite skipn_length in IH. unfold len in Hb.
    destruct (pump fuel (skipn (N.to_nat n) (x :: buf))) as [[ev b] o].
    destruct IH as [I1 I2]; [lia|].
    split; intros [H|H]; try discriminate; auto.
Qed.

Theorem C13_no_spin chunks : forall buf,
  ~ In Spin (drive_from buf chunks) /\ ~ In OutOfFuel (drive_from buf chunks).
Proof.
  induction chunks as [|c cs IH]; intro buf; [cbn; tauto|].
  cbn [drive_from]. destruct c as [|x c]; [apply IH|].
  pose proof (pump_progress (S (length (buf ++ x :: c))) (buf ++ x :: c)) as H.
  destruct (pump (S (length (buf ++ x :: c))) (buf ++ x :: c)) as [[ev b] o].
  destruct H as [H1 H2]; [lia|].
  destruct o; [|tauto].
  destruct (IH b) as [I1 I2].
  split; intro Hin; apply in_app_or in Hin; tauto.
Qed.

(* ------------------------------------------------------------ need-more only when incomplete *)
(* a complete, well-delimited frame at the head of the buffer is ALWAYS delivered
   (whatever its body: the body is for the codec), consuming exactly its length *)
Theorem complete_frame_delivered data :
  complete_frame data = true ->
  exists m, frame_read data = RMsg m (unbe (sub data 3 7)).
Proof.
  unfold complete_frame, frame_read. intro H.
  repeat (apply andb_true_iff in H as [H ?]).
  replace (len data <? 16) with false by (symmetry; apply N.ltb_ge; lia).
  rewrite H3. cbn [negb].
  replace ((unbe (sub data 7 9) <? 16) || (unbe (sub data 3 7) <? unbe (sub data 7 9))) with false
    by (symmetry; apply orb_false_iff; split; apply N.ltb_ge; lia).
  replace (len data <? unbe (sub data 3 7)) with false by (symmetry; apply N.ltb_ge; lia).
  destruct (decode_headmap _ _) eqn:E; [eauto|]. now apply decode_headmap_total in E.
Qed.

(* "need more data" is answered ONLY when the frame is incomplete: never on a
   complete frame (the transport loop would wait for ever with the frame in its buffer) *)
Theorem need_only_incomplete data hint :
  frame_read data = RNeed hint -> complete_frame data = false.
Proof.
  intro H. destruct (complete_frame data) eqn:E; auto.
  destruct (complete_frame_delivered data E) as (m & Hm). congruence.
Qed.

(* ------------------------------------------------------------ one handler, several connections *)
Lemma drive_from_feed_all chunks : forall buf,
  drive_from buf chunks = feed_all (buf, true) chunks.
Proof.
  induction chunks as [|c cs IH]; intro buf; [reflexivity|].
  cbn [drive_from feed_all feed negb].
  destruct c as [|x c]; [cbn; apply IH|].
  destruct (pump (S (length (buf ++ x :: c))) (buf ++ x :: c)) as [[ev b'] o].
  destruct o.
  - now rewrite IH.
  - clear IH. assert (G : forall cs0, feed_all (b', false) cs0 = []).
    { induction cs0 as [|c0 cs0 IH0]; [reflexivity|]. cbn [feed_all feed negb]. exact IH0. }
    rewrite G. now rewrite app_nil_r.
Qed.

(* Read is a function of the bytes it is given — it keeps nothing from earlier calls —
   so whatever the interleaving of two connections on the one handler instance, each
   connection delivers exactly what it would deliver alone *)
Theorem drive2_independent sched : forall a b,
  drive2 a b sched = (feed_all a (chunks_of false sched), feed_all b (chunks_of true sched)).
Proof.
  induction sched as [|[side ch] s IH]; intros a b; [reflexivity|].
  destruct side; cbn [drive2 chunks_of filter map fst snd Bool.eqb].
  - fold (chunks_of true s). fold (chunks_of false s). cbn [feed_all].
    destruct (feed b ch) as [b' ev]. rewrite IH. reflexivity.
  - fold (chunks_of true s). fold (chunks_of false s). cbn [feed_all].
    destruct (feed a ch) as [a' ev]. rewrite IH. reflexivity.
Qed.

Corollary C13_interleaving sched :
  drive2 conn0 conn0 sched = (drive (chunks_of false sched), drive (chunks_of true sched)).
Proof. unfold drive. rewrite !drive_from_feed_all. apply drive2_independent. Qed.

(* ------------------------------------------------------------ a frame is read from its own bytes *)
Lemma magic_prefix_app f rest : (2 <= length f)%nat -> magic_prefix_ok (f ++ rest) = magic_prefix_ok f.
Proof. destruct f as [|a [|b f]]; cbn; intros; try lia; reflexivity. Qed.

(* whatever follows a complete frame in the buffer (the next frames, garbage, nothing):
   the message read, body included, and the consumed length are those of the frame alone *)
Theorem frame_bytes_only f rest :
  complete_frame f = true -> len f = unbe (sub f 3 7) ->
  frame_read (f ++ rest) = frame_read f.
Proof.
  unfold complete_frame. intros H Hlen.
  repeat (apply andb_true_iff in H as [H ?]).
  assert (H16 : 16 <= len f) by lia.
  assert (Hl2 : (2 <= length f)%nat) by (unfold len in H16; lia).
  unfold frame_read.
  rewrite len_app.
  replace (len f + len rest <? 16) with false by (symmetry; apply N.ltb_ge; lia).
  replace (len f <? 16) with false by (symmetry; apply N.ltb_ge; lia).
  rewrite magic_prefix_app by exact Hl2.
  rewrite !(sub_in_prefix f rest) by lia.
  destruct (negb (magic_prefix_ok f)); [reflexivity|].
  destruct ((unbe (sub f 7 9) <? 16) || (unbe (sub f 3 7) <? unbe (sub f 7 9))); [reflexivity|].
  replace (len f + len rest <? unbe (sub f 3 7)) with false by (symmetry; apply N.ltb_ge; lia).
  replace (len f <? unbe (sub f 3 7)) with false by (symmetry; apply N.ltb_ge; lia).
  reflexivity.
Qed.
