(* Model of pkg/remoting/getty/readwriter.go (RpcPackageHandler.Read / Write,
   encodeHeapMap / decodeHeapMap) and of the receive loop of getty v1.5.0
   (session.handleTCPPackage) that drives it.  Bodies are opaque byte strings
   here: their encoding is C12's model. *)
From Coq Require Import String Ascii.
From Coq Require Import List NArith ZArith Lia Bool.
From Coq Require Import ZifyN ZifyNat ZifyBool.
From SeataV Require Import Base.Bytes.
Import ListNotations.
Open Scope N_scope.

Definition headmap := list (bytes * bytes).

Record rpcmsg := {
  r_id : N;            (* request id, as the uint32 bit pattern *)
  r_type : N;          (* GettyRequestType byte *)
  r_codec : N;
  r_compressor : N;
  r_head : headmap;
  r_body : bytes       (* type code + codec body; empty for heartbeats *)
}.

Definition xda : byte := Byte.xda.
Definition is_heartbeat (t : N) : bool := (t =? 3) || (t =? 4).

Definition len (l : bytes) : N := N.of_nat (length l).

(* ---- head map ---- *)
Definition enc_entry (e : bytes * bytes) : bytes :=
  be 2 (len (fst e)) ++ fst e ++ be 2 (len (snd e)) ++ snd e.

Definition encode_headmap (h : headmap) : bytes := flat_map enc_entry h.

Fixpoint map_set (h : headmap) (k v : bytes) : headmap :=
  match h with
  | [] => [(k, v)]
  | (k', v') :: h' => if bytes_eqb k k' then (k, v) :: h' else (k', v') :: map_set h' k v
  end.

(* ByteBuffer.ReadUint16: two bytes are taken from the buffer; when fewer than
   two are left the value is 0 (io.ErrShortBuffer / EOF, ignored by the helper) *)
Definition read_u16 (bs : bytes) : N :=
  if (length bs <? 2)%nat then 0 else unbe (take_pad 2 bs).

(* reads one length-prefixed string with zero-filled short reads *)
Definition read_str16 (bs : bytes) : bytes * bytes :=
  let n := N.to_nat (read_u16 bs) in
  let r := skipn 2 bs in
  (take_pad n r, skipn n r).

(* decodeHeapMap: loop while readed < length; `fuel` bounds the iterations and
   None means it ran out (excluded by decode_headmap_fuel_ok) *)
Fixpoint decode_headmap_loop (fuel : nat) (bs : bytes) (readed length : N) (acc : headmap)
  : option headmap :=
  if length <=? readed then Some acc else
  match fuel with
  | O => None
  | S fuel' =>
      let '(k, r1) := read_str16 bs in
      let '(v, r2) := read_str16 r1 in
      decode_headmap_loop fuel' r2 (readed + 4 + len k + len v) length (map_set acc k v)
  end.

Definition decode_headmap (bs : bytes) (length : N) : option headmap :=
  decode_headmap_loop (S (N.to_nat (length / 4))) bs 0 length [].

(* ---- Write ---- *)
Definition frame_write (m : rpcmsg) : bytes :=
  let hb := match r_head m with [] => [] | _ => encode_headmap (r_head m) end in
  let body := if is_heartbeat (r_type m) then [] else r_body m in
  let headlen := 16 + len hb in
  let total := headlen + len body in
  [xda; xda; n2b 1] ++ be 4 total ++ be 2 headlen ++
  [n2b (r_type m); n2b (r_codec m); n2b (r_compressor m)] ++ be 4 (r_id m) ++ hb ++ body.

(* ---- Read ---- *)
Inductive rres :=
| RErr                          (* error: getty closes the session           *)
| RNeed (hint : N)              (* (nil, hint, nil): wait for more data      *)
| RMsg (m : rpcmsg) (consumed : N)
| RFuel.                        (* the model's head-map loop ran out of fuel *)

Definition sub (bs : bytes) (from to : N) : bytes :=
  firstn (N.to_nat (to - from)) (skipn (N.to_nat from) bs).

Definition magic_prefix_ok (bs : bytes) : bool :=
  match bs with
  | [] => true
  | [a] => byte_eqb a xda
  | a :: b :: _ => byte_eqb a xda && byte_eqb b xda
  end.

Definition frame_read (data : bytes) : rres :=
  if len data <? 16 then
    if magic_prefix_ok data then RNeed 0 else RErr
  else if negb (magic_prefix_ok data) then RErr
  else
    let total := unbe (sub data 3 7) in
    let headlen := unbe (sub data 7 9) in
    let ty := unbe (sub data 9 10) in
    let codec := unbe (sub data 10 11) in
    let comp := unbe (sub data 11 12) in
    let id := unbe (sub data 12 16) in
    if (headlen <? 16) || (total <? headlen) then RErr
    else if len data <? total then RNeed total
    else
      match decode_headmap (sub data 16 headlen) (headlen - 16) with
      | None => RFuel
      | Some h =>
          let body := if is_heartbeat ty then [] else sub data headlen total in
          RMsg {| r_id := id; r_type := ty; r_codec := codec; r_compressor := comp;
                  r_head := h; r_body := body |} total
      end.

(* ---- getty's receive loop ---- *)
Inductive event :=
| Deliver (m : rpcmsg)
| Close          (* Read returned an error: session closed *)
| Spin           (* a package with length 0: the loop would never advance *)
| OutOfFuel.

(* inner loop: while the buffer is non-empty, Read; error => close; nil => wait;
   package => deliver and drop pkgLen bytes *)
Fixpoint pump (fuel : nat) (buf : bytes) : list event * bytes * bool (* still open *) :=
  match buf with
  | [] => ([], buf, true)
  | _ =>
    match fuel with
    | O => ([OutOfFuel], buf, false)
    | S fuel' =>
      match frame_read buf with
      | RErr => ([Close], buf, false)
      | RFuel => ([OutOfFuel], buf, false)
      | RNeed _ => ([], buf, true)
      | RMsg m n =>
          if n =? 0 then ([Deliver m; Spin], buf, false)
          else let '(ev, b, o) := pump fuel' (skipn (N.to_nat n) buf) in (Deliver m :: ev, b, o)
      end
    end
  end.

Fixpoint drive_from (buf : bytes) (chunks : list bytes) : list event :=
  match chunks with
  | [] => []
  | c :: cs =>
      match c with
      | [] => drive_from buf cs                (* bufLen = 0: nothing to do *)
      | _ =>
        let b := buf ++ c in
        let '(ev, b', open) := pump (S (length b)) b in
        if open then ev ++ drive_from b' cs else ev
      end
  end.

Definition drive (chunks : list bytes) : list event := drive_from [] chunks.

(* ---- what Read gives back for a written message ---- *)
Definition canon_msg (m : rpcmsg) : rpcmsg :=
  {| r_id := r_id m; r_type := r_type m; r_codec := r_codec m; r_compressor := r_compressor m;
     r_head := r_head m;
     r_body := if is_heartbeat (r_type m) then [] else r_body m |}.

Fixpoint nodup_keys (h : headmap) : bool :=
  match h with
  | [] => true
  | (k, _) :: h' => negb (existsb (fun e => bytes_eqb k (fst e)) h') && nodup_keys h'
  end.

Definition wf_entry (e : bytes * bytes) : bool := (len (fst e) <? 65536) && (len (snd e) <? 65536).

Definition wf_msg (m : rpcmsg) : bool :=
  (r_id m <? 4294967296) && (r_type m <? 256) && (r_codec m <? 256) && (r_compressor m <? 256)
  && forallb wf_entry (r_head m) && nodup_keys (r_head m)
  && (16 + len (encode_headmap (r_head m)) <? 65536)
  && (16 + len (encode_headmap (r_head m)) + len (r_body m) <? 4294967296).

(* ---- a complete, well-delimited frame at the head of the buffer ---- *)
Definition complete_frame (data : bytes) : bool :=
  (16 <=? len data) && magic_prefix_ok data
  && (16 <=? unbe (sub data 7 9)) && (unbe (sub data 7 9) <=? unbe (sub data 3 7))
  && (unbe (sub data 3 7) <=? len data).

(* ---- several connections served by ONE handler instance ----
   (rpcPkgHandler is installed on every session).  A connection = its receive
   buffer and whether it is still open; `feed` is one receive on it. *)
Definition conn := (bytes * bool)%type.
Definition conn0 : conn := ([], true).

Definition feed (c : conn) (chunk : bytes) : conn * list event :=
  let '(buf, open) := c in
  if negb open then (c, []) else
  match chunk with
  | [] => (c, [])
  | _ => let b := buf ++ chunk in
         let '(ev, b', o) := pump (S (length b)) b in ((b', o), ev)
  end.

Fixpoint feed_all (c : conn) (chunks : list bytes) : list event :=
  match chunks with
  | [] => []
  | ch :: cs => let '(c', ev) := feed c ch in ev ++ feed_all c' cs
  end.

(* a schedule: which connection (false = A, true = B) receives which chunk, in
   arrival order; the two event lists are what each connection delivers *)
Fixpoint drive2 (a b : conn) (sched : list (bool * bytes)) : list event * list event :=
  match sched with
  | [] => ([], [])
  | (false, ch) :: s => let '(a', ev) := feed a ch in
                        let '(ea, eb) := drive2 a' b s in (ev ++ ea, eb)
  | (true, ch) :: s => let '(b', ev) := feed b ch in
                       let '(ea, eb) := drive2 a b' s in (ea, ev ++ eb)
  end.

Definition chunks_of (side : bool) (sched : list (bool * bytes)) : list bytes :=
  map snd (filter (fun x => Bool.eqb (fst x) side) sched).
