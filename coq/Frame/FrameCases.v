(* Executable comparison of what the real RpcPackageHandler.Read / Write and the
   getty-style receive loop did (cases written by the harness run) with the
   frame model.  No proofs here: this file must stay evaluable when a proof
   obligation breaks. *)
From Coq Require Import List NArith Bool.
From SeataV Require Import Base.Bytes Frame.FrameModel.
Import ListNotations.
Open Scope N_scope.

(* what one Read call gave back *)
Inductive ores :=
| OErr                             (* non-nil error                                *)
| ONeed (hint : N)                 (* (nil, hint, nil)                             *)
| OMsg (m : rpcmsg) (consumed : N) (* (RpcMessage, consumed, nil)                  *)
| OPanic | ODiverged.

(* what the receive loop saw *)
Inductive oev :=
| EDeliver (m : rpcmsg) | EClose | ESpin | EPanic | EDiverged.

Inductive fcase :=
(* Read(data) once *)
| CRead (data : bytes) (o : ores)
(* Read(firstn k data) for k = 0 .. length data; obs[k] indexes tbl *)
| CPrefixes (data : bytes) (tbl : list ores) (obs : list nat)
(* the receive loop over `data` cut into chunks of the given lengths (the last
   chunk is what remains); per partition the index of the observed event list *)
| CDrive (data : bytes) (tbl : list (list oev)) (parts : list (list nat * nat))
(* Write(m) = out; the head map of m in the harness' (sorted) order *)
| CWrite (m : rpcmsg) (out : bytes)
(* two connections on ONE handler instance: the bytes each receives (possibly cut off
   mid-frame), the arrival schedule (false = A, true = B; chunk length), what each delivered *)
| CInterleave (dataA dataB : bytes) (sched : list (bool * nat)) (evA evB : list oev).

(* ---- comparisons ---- *)
Fixpoint lookup_h (h : headmap) (k : bytes) : option bytes :=
  match h with
  | [] => None
  | (k', v) :: h' => if bytes_eqb k k' then Some v else lookup_h h' k
  end.

(* equality of head maps as finite maps *)
Definition head_eqb (a b : headmap) : bool :=
  Nat.eqb (length a) (length b) && nodup_keys a && nodup_keys b &&
  forallb (fun e => match lookup_h a (fst e) with
                    | Some v => bytes_eqb v (snd e) | None => false end) b.

Definition msg_eqb (a b : rpcmsg) : bool :=
  (r_id a =? r_id b) && (r_type a =? r_type b) && (r_codec a =? r_codec b)
  && (r_compressor a =? r_compressor b) && head_eqb (r_head a) (r_head b)
  && bytes_eqb (r_body a) (r_body b).

Definition res_eqb (model : rres) (o : ores) : bool :=
  match model, o with
  | RErr, OErr => true
  | RNeed a, ONeed b => a =? b
  | RMsg m n, OMsg m' n' => msg_eqb m m' && (n =? n')
  | _, _ => false
  end.

Definition ev_eqb (model : event) (o : oev) : bool :=
  match model, o with
  | Deliver m, EDeliver m' => msg_eqb m m'
  | Close, EClose => true
  | Spin, ESpin => true
  | _, _ => false
  end.

Fixpoint evs_eqb (a : list event) (b : list oev) : bool :=
  match a, b with
  | [], [] => true
  | x :: a', y :: b' => ev_eqb x y && evs_eqb a' b'
  | _, _ => false
  end.

Fixpoint cut (data : bytes) (lens : list nat) : list bytes :=
  match lens with
  | [] => [data]
  | n :: ls => firstn n data :: cut (skipn n data) ls
  end.

(* error codes:
   1 Read(data) differs from frame_read data                       (correspondence)
   2 Read on a prefix differs from frame_read on that prefix       (correspondence)
   3 deliveries of the receive loop differ from drive              (correspondence)
   4 Write differs from frame_write                                (correspondence)
   5 malformed case (table index out of range)
   6 per-connection deliveries of two interleaved connections differ from drive2   (correspondence)                                     *)
Fixpoint check_prefixes (data : bytes) (tbl : list ores) (k : nat) (obs : list nat) : list N :=
  match obs with
  | [] => []
  | i :: obs' =>
      match nth_error tbl i with
      | None => [5]
      | Some o => if res_eqb (frame_read (firstn k data)) o
                  then check_prefixes data tbl (S k) obs' else [2]
      end
  end.

Fixpoint check_parts (data : bytes) (tbl : list (list oev)) (parts : list (list nat * nat)) : list N :=
  match parts with
  | [] => []
  | (lens, i) :: ps =>
      match nth_error tbl i with
      | None => [5]
      | Some evs => if evs_eqb (drive (cut data lens)) evs then check_parts data tbl ps else [3]
      end
  end.

Definition check_write (m : rpcmsg) (out : bytes) : list N :=
  match frame_read out with
  | RMsg m' n =>
      (* the head map is written in Go's map iteration order: the model is asked
         for the bytes at the order found in the output, which must be a
         permutation of the message's head map *)
      let m2 := {| r_id := r_id m; r_type := r_type m; r_codec := r_codec m;
                   r_compressor := r_compressor m; r_head := r_head m'; r_body := r_body m |} in
      if head_eqb (r_head m) (r_head m') && bytes_eqb (frame_write m2) out && (n =? len out)
      then [] else [4]
  | _ => [4]
  end.

Fixpoint build_sched (a b : bytes) (sched : list (bool * nat)) : list (bool * bytes) :=
  match sched with
  | [] => []
  | (false, n) :: s => (false, firstn n a) :: build_sched (skipn n a) b s
  | (true, n) :: s => (true, firstn n b) :: build_sched a (skipn n b) s
  end.

Definition check_interleave (a b : bytes) (sched : list (bool * nat)) (evA evB : list oev) : list N :=
  let '(ma, mb) := drive2 conn0 conn0 (build_sched a b sched) in
  if evs_eqb ma evA && evs_eqb mb evB then [] else [6].

Definition check_case (c : fcase) : list N :=
  match c with
  | CRead data o => if res_eqb (frame_read data) o then [] else [1]
  | CPrefixes data tbl obs => check_prefixes data tbl 0 obs
  | CDrive data tbl parts => check_parts data tbl parts
  | CWrite m out => check_write m out
  | CInterleave a b sched evA evB => check_interleave a b sched evA evB
  end.

Fixpoint mismatches_from (i : nat) (cs : list fcase) : list (nat * N) :=
  match cs with
  | [] => []
  | c :: cs' => map (fun e => (i, e)) (check_case c) ++ mismatches_from (S i) cs'
  end.
Definition mismatches := mismatches_from 0.

(* diagnostics for the driver: what the model says for one input *)
Definition model_read (data : bytes) : rres := frame_read data.
Definition model_drive (data : bytes) (lens : list nat) : list event := drive (cut data lens).
