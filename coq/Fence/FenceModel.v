(* C06 — executable model of the TCC fence (pkg/rm/tcc/fence): one delivery of a
   phase for a branch is a small thread machine that issues the driver
   operations WithFence -> DoFence -> Prepare/Commit/RollbackFence -> DAO ->
   business callback issue, against one fence row (status), the committed
   business effects and a per-key row lock.  A sequential delivery is the
   machine run alone (with an optional injected failure of its n-th counted
   operation); a race is two machines stepped by an arbitrary schedule.
   Definitions only; proofs are in FenceProofs.v. *)
From Coq Require Import List NArith Bool Arith.
From SeataV Require Export Fence.FenceRulesDef.
From SeataV Require Import Gen.FenceRules.
Import ListNotations.

(* The decisions of PrepareFence / CommitFence / RollbackFence, the old status of the compare-and-set
   and the phase dispatch of DoFence are NOT written here: they are the tables gen_prepare,
   gen_commit, gen_rollback, gen_cas_old, gen_dispatch regenerated from the Go source. *)
Inductive errc := ENone | EFault | EDup | ERefused | ELocked.   (* ELocked: lock wait timeout (1205) *)
Inductive opk := OBegin | OPrepIns | OIns | OPrepSel | OSel | OPrepUpd | OUpd | OBiz | OCommit | ORollback.

Inductive pcT :=
| PcBegin | PcPrepIns (s : status) (then_skip : bool) | PcIns (s : status) (then_skip : bool) | PcPrepSel | PcSel
| PcPrepUpd (s : status) | PcUpd (s : status) | PcBiz | PcBiz2 | PcCommit | PcRollback | PcDone
| PcBeginB | PcCommitB.     (* proxy-driver mode only: the second (fence) transaction *)

Definition ostatus_eqb (a b : option status) : bool :=
  match a, b with
  | None, None => true
  | Some x, Some y => status_eqb x y
  | _, _ => false
  end.

Definition phase_eqb (a b : phase) : bool :=
  match a, b with
  | Prepare, Prepare | Commit, Commit | Rollback, Rollback | Invalid, Invalid => true
  | _, _ => false
  end.

Definition errc_eqb (a b : errc) : bool :=
  match a, b with
  | ENone, ENone | EFault, EFault | EDup, EDup | ERefused, ERefused | ELocked, ELocked => true
  | _, _ => false
  end.

Definition opk_code (k : opk) : N :=
  match k with
  | OBegin => 0 | OPrepIns => 1 | OIns => 2 | OPrepSel => 3 | OSel => 4
  | OPrepUpd => 5 | OUpd => 6 | OBiz => 7 | OCommit => 8 | ORollback => 9
  end%N.

(* ---- one delivery as a thread ------------------------------------------- *)
Record thread := mkT {
  t_ph : phase;
  t_pc : pcT;
  t_wrow : option status;     (* uncommitted write of the fence row *)
  t_weff : bool;              (* uncommitted business effect *)
  t_ran : nat;                (* executions of the business callback (not transactional) *)
  t_err : errc;
  t_nops : nat;               (* counted operations issued so far *)
  t_trace : list opk;         (* journal, newest first *)
  t_fault : option nat        (* index of the counted operation that fails *)
}.

Record shared := mkS {
  s_row : option status;      (* committed fence row of the key *)
  s_effs : list phase;        (* business effects committed, oldest first *)
  s_owner : option bool       (* thread holding the key's row lock *)
}.

Definition set_pc (t : thread) (pc : pcT) : thread :=
  mkT (t_ph t) pc (t_wrow t) (t_weff t) (t_ran t) (t_err t) (t_nops t) (t_trace t) (t_fault t).
Definition fail (t : thread) (e : errc) (pc : pcT) : thread :=
  mkT (t_ph t) pc (t_wrow t) (t_weff t) (t_ran t) e (t_nops t) (t_trace t) (t_fault t).
Definition set_wrow (t : thread) (s : status) : thread :=
  mkT (t_ph t) (t_pc t) (Some s) (t_weff t) (t_ran t) (t_err t) (t_nops t) (t_trace t) (t_fault t).
Definition set_weff (t : thread) : thread :=
  mkT (t_ph t) (t_pc t) (t_wrow t) true (t_ran t) (t_err t) (t_nops t) (t_trace t) (t_fault t).
Definition inc_ran (t : thread) : thread :=
  mkT (t_ph t) (t_pc t) (t_wrow t) (t_weff t) (S (t_ran t)) (t_err t) (t_nops t) (t_trace t) (t_fault t).
(* journal a counted operation *)
Definition tick (t : thread) (k : opk) : thread :=
  mkT (t_ph t) (t_pc t) (t_wrow t) (t_weff t) (t_ran t) (t_err t) (S (t_nops t)) (k :: t_trace t) (t_fault t).
(* journal the rollback (never counted, never failed) *)
Definition note (t : thread) (k : opk) : thread :=
  mkT (t_ph t) (t_pc t) (t_wrow t) (t_weff t) (t_ran t) (t_err t) (t_nops t) (k :: t_trace t) (t_fault t).

Definition faulted (t : thread) : bool :=
  match t_fault t with Some n => Nat.eqb n (t_nops t) | None => false end.

(* prep = are BEGIN / PREPARE operations visible (journalled, counted, failable)?
   The race runs with prep = false: only the operations that touch rows or locks
   are scheduling points. *)
Definition skip (prep : bool) (pc : pcT) : pcT :=
  if prep then pc else
  match pc with
  | PcPrepIns s k => PcIns s k | PcPrepSel => PcSel | PcPrepUpd s => PcUpd s | x => x
  end.

Definition handler_of (ph : phase) : option hname := lookup_handler gen_dispatch (phase_code ph).

Definition rules_of (h : hname) : list rule :=
  match h with HPrepare => gen_prepare | HCommit => gen_commit | HRollback => gen_rollback end.

(* does the handler read the record first? (PrepareFence does not) *)
Definition reads_first (h : hname) : bool := match h with HPrepare => false | _ => true end.

(* where a decision leads; drv: the proxy driver cannot skip the business *)
Definition goto_decision (drv : bool) (d : decision) : option pcT :=
  match d with
  | DRefuse | DUnknown _ => None
  | DSkip => Some (if drv then PcBiz else PcCommit)
  | DProceed => Some PcBiz
  | DUpdate s => Some (PcPrepUpd s)
  | DInsert s k => Some (PcPrepIns s k)
  end.

Definition first_pc (ph : phase) : pcT :=
  match handler_of ph with
  | None => PcRollback
  | Some h =>
      if reads_first h then PcPrepSel
      else match goto_decision false (decide (rules_of h) None) with
           | Some pc => pc
           | None => PcRollback
           end
  end.

Definition first_err (ph : phase) : bool :=      (* does the delivery fail before touching the database? *)
  match first_pc ph with PcRollback => true | _ => false end.

Definition init_thread (prep : bool) (ph : phase) (fault : option nat) : thread :=
  if prep then mkT ph PcBegin None false 0 ENone 0 [] fault
  else if first_err ph then mkT ph PcRollback None false 0 ERefused 0 [] fault
  else mkT ph (skip false (first_pc ph)) None false 0 ENone 0 [] fault.

Definition view (t : thread) (sh : shared) : option status :=
  match t_wrow t with Some s => Some s | None => s_row sh end.

Definition lock (tid : bool) (sh : shared) : shared := mkS (s_row sh) (s_effs sh) (Some tid).
Definition release (tid : bool) (sh : shared) : shared :=
  match s_owner sh with
  | Some o => if Bool.eqb o tid then mkS (s_row sh) (s_effs sh) None else sh
  | None => sh
  end.

Definition commit_tx (t : thread) (sh : shared) : shared :=
  mkS (match t_wrow t with Some s => Some s | None => s_row sh end)
      (if t_weff t then s_effs sh ++ [t_ph t] else s_effs sh)
      (s_owner sh).

(* what CommitFence / RollbackFence decide from the row SELECT ... FOR UPDATE returned: the table *)
Definition after_select (drv prep : bool) (t : thread) (v : option status) : thread :=
  match handler_of (t_ph t) with
  | None => fail t ERefused PcRollback
  | Some h =>
      match goto_decision drv (decide (rules_of h) v) with
      | Some pc => set_pc t (skip prep pc)
      | None => fail t ERefused PcRollback
      end
  end.

Definition commit_eff (t : thread) (sh : shared) : shared :=
  mkS (s_row sh) (if t_weff t then s_effs sh ++ [t_ph t] else s_effs sh) (s_owner sh).
Definition commit_row (t : thread) (sh : shared) : shared :=
  mkS (match t_wrow t with Some s => Some s | None => s_row sh end) (s_effs sh) (s_owner sh).

(* drv = the delivery goes through the seata-fence-mysql proxy driver (FenceConn.BeginTx runs the
   fence in a SECOND transaction B, the business runs on the target transaction A, FenceTx commits A
   then B) instead of calling WithFence with the business as callback *)
(* the key's lock is held by somebody else (the racing delivery, or a transaction that was leaked):
   in a race the scheduler never steps such a delivery (it waits); alone, the statement ends in MySQL's
   lock wait timeout *)
Definition blocked (tid : bool) (sh : shared) : bool :=
  match s_owner sh with Some o => negb (Bool.eqb o tid) | None => false end.

Definition step (drv prep : bool) (tid : bool) (t : thread) (sh : shared) : thread * shared :=
  match t_pc t with
  | PcDone => (t, sh)
  | PcBegin =>
      let f := faulted t in let t1 := tick t OBegin in
      if f then (fail t1 EFault PcDone, sh)
      else if drv then (set_pc t1 PcBeginB, sh)
      else if first_err (t_ph t) then (fail t1 ERefused PcRollback, sh)
      else (set_pc t1 (skip prep (first_pc (t_ph t))), sh)
  | PcBeginB =>
      let f := faulted t in let t1 := tick t OBegin in
      if f then (fail t1 EFault PcDone, sh)          (* the target transaction is leaked, it holds nothing *)
      else if first_err (t_ph t) then (fail t1 ERefused PcRollback, sh)
      else (set_pc t1 (skip prep (first_pc (t_ph t))), sh)
  | PcPrepIns s k =>
      let f := faulted t in let t1 := tick t OPrepIns in
      if f then (fail t1 EFault PcRollback, sh) else (set_pc t1 (PcIns s k), sh)
  | PcIns s k =>
      let f := faulted t in let t1 := tick t OIns in
      if f then (fail t1 EFault PcRollback, sh)
      else if blocked tid sh then (fail t1 ELocked PcRollback, sh)
      else let sh1 := lock tid sh in
           match view t sh with
           | Some _ => (fail t1 EDup PcRollback, sh1)
           | None => (set_pc (set_wrow t1 s)
                        (if k then (if drv then PcBiz else PcCommit) else PcBiz), sh1)
           end
  | PcPrepSel =>
      let f := faulted t in let t1 := tick t OPrepSel in
      if f then (fail t1 EFault PcRollback, sh) else (set_pc t1 PcSel, sh)
  | PcSel =>
      let f := faulted t in let t1 := tick t OSel in
      if f then (fail t1 EFault PcRollback, sh)
      else if blocked tid sh then (fail t1 ELocked PcRollback, sh)
      else let v := view t sh in
           (after_select drv prep t1 v, match v with Some _ => lock tid sh | None => sh end)
  | PcPrepUpd s =>
      let f := faulted t in let t1 := tick t OPrepUpd in
      if f then (fail t1 EFault PcRollback, sh) else (set_pc t1 (PcUpd s), sh)
  | PcUpd s =>
      let f := faulted t in let t1 := tick t OUpd in
      if f then (fail t1 EFault PcRollback, sh)
      else if blocked tid sh then (fail t1 ELocked PcRollback, sh)
      else let sh1 := lock tid sh in
           (* compare-and-set: the row must still have the status the UPDATE names *)
           match view t sh, gen_cas_old with
           | Some cur, Some old =>
               if status_eqb cur old then (set_pc (set_wrow t1 s) PcBiz, sh1)
               else (fail t1 ERefused PcRollback, sh1)
           | _, _ => (fail t1 ERefused PcRollback, sh1)
           end
  (* the business step is a LIST of statements (two counter rows that must move together); a failure of
     any of them - of whatever kind: generic, lock wait timeout 1205, deadlock 1213, bad connection - fails
     the delivery and nothing of it may become durable.  The callback is entered once.  (In the race,
     prep = false, the business step is one statement: the scheduling points stay the row / lock operations.) *)
  | PcBiz =>
      let f := faulted t in let t1 := tick (inc_ran t) OBiz in
      if f then (fail t1 EFault PcRollback, sh)
      else if prep then (set_pc t1 PcBiz2, sh)
      else (set_pc (set_weff t1) PcCommit, sh)
  | PcBiz2 =>
      let f := faulted t in let t1 := tick t OBiz in
      if f then (fail t1 EFault PcRollback, sh) else (set_pc (set_weff t1) PcCommit, sh)
  | PcCommit =>
      let f := faulted t in let t1 := tick t OCommit in
      if drv then
        if f then (fail t1 EFault PcDone, sh)                         (* B is never ended: its lock leaks *)
        else (set_pc t1 PcCommitB, commit_eff t sh)
      else
      if f then (fail t1 EFault PcDone, release tid sh)               (* failed COMMIT: nothing applied *)
      else (set_pc t1 PcDone, release tid (commit_tx t sh))
  | PcCommitB =>
      let f := faulted t in let t1 := tick t OCommit in
      if f then (fail t1 EFault PcDone, release tid sh)
      else (set_pc t1 PcDone, release tid (commit_row t sh))
  | PcRollback =>
      (set_pc (if drv then note (note t ORollback) ORollback else note t ORollback) PcDone, release tid sh)
  end.

Definition done (t : thread) : bool := match t_pc t with PcDone => true | _ => false end.

(* ---- sequential delivery -------------------------------------------------- *)
Fixpoint run1 (fuel : nat) (t : thread) (sh : shared) : thread * shared :=
  match fuel with
  | O => (t, sh)
  | S f => let '(t1, sh1) := step false true false t sh in run1 f t1 sh1
  end.

Definition seq_fuel : nat := 12.

Definition deliver1 (row : option status) (ph : phase) (fault : option nat) : thread * shared :=
  run1 seq_fuel (init_thread true ph fault) (mkS row [] None).

(* ---- delivery through the proxy driver ---------------------------------------- *)
Fixpoint run1d (fuel : nat) (t : thread) (sh : shared) : thread * shared :=
  match fuel with
  | O => (t, sh)
  | S f => let '(t1, sh1) := step true true false t sh in run1d f t1 sh1
  end.

Definition deliver_drv (row : option status) (ph : phase) (fault : option nat) : thread * shared :=
  run1d 14 (init_thread true ph fault) (mkS row [] None).

(* a delivery (through WithFence or through the proxy driver) for a branch whose fence row may be
   locked by a transaction that an earlier delivery leaked *)
Definition deliver_l (drv locked : bool) (row : option status) (ph : phase) (fault : option nat) : thread * shared :=
  (if drv then run1d 14 else run1 seq_fuel) (init_thread true ph fault)
    (mkS row [] (if locked then Some true else None)).

(* FenceTx.Commit commits the business transaction A and then, only if that succeeded, the fence
   transaction B.  A failure of A's COMMIT therefore leaves NEITHER the effect NOR the record (and
   leaks B with its row lock: later deliveries for the branch time out on it, changing nothing) -
   the property holds there.  The input predicates of the two known findings are narrower: *)
(* 1. the fence decides the delivery without the business (duplicate phase two / empty rollback)
      AND the caller's business transaction gets committed *)
Definition drv_decided (row : option status) (ph : phase) : bool :=
  match ph, row with
  | Commit, Some Committed => true
  | Rollback, None | Rollback, Some Rollbacked | Rollback, Some Suspended => true
  | _, _ => false
  end.
Definition drv_decided_applied (locked : bool) (row : option status) (ph : phase) (fault : option nat) : bool :=
  drv_decided row ph &&
  let '(_, sh) := deliver_l true locked row ph fault in
  match s_effs sh with [] => false | _ => true end.
(* 2. the injected failure hits the SECOND COMMIT (the fence transaction's), after the business
      transaction was committed *)
Definition drv_fault_at_fence_commit (locked : bool) (row : option status) (ph : phase) (fault : option nat) : bool :=
  let '(t, _) := deliver_l true locked row ph fault in
  match t_err t, t_trace t with
  | EFault, OCommit :: OCommit :: _ => true
  | _, _ => false
  end.
Definition drv_supported (locked : bool) (row : option status) (ph : phase) (fault : option nat) : bool :=
  negb (drv_decided_applied locked row ph fault) && negb (drv_fault_at_fence_commit locked row ph fault).

(* ---- race of two deliveries of the same branch ---------------------------- *)
Record rstate := mkR { r_t0 : thread; r_t1 : thread; r_sh : shared }.

Definition needs_lock (pc : pcT) : bool :=
  match pc with PcIns _ _ | PcSel | PcUpd _ => true | _ => false end.

Definition enabled (tid : bool) (t : thread) (sh : shared) : bool :=
  negb (done t) &&
  negb (needs_lock (t_pc t) &&
        match s_owner sh with Some o => negb (Bool.eqb o tid) | None => false end).

Definition rstep (b : bool) (r : rstate) : rstate :=
  let thr := fun tid : bool => if tid then r_t1 r else r_t0 r in
  let go := fun tid : bool =>
    let '(t', sh') := step false false tid (thr tid) (r_sh r) in
    if tid then mkR (r_t0 r) t' sh' else mkR t' (r_t1 r) sh' in
  if enabled b (thr b) (r_sh r) then go b
  else if enabled (negb b) (thr (negb b)) (r_sh r) then go (negb b)
  else r.

Fixpoint rrun (fuel : nat) (sched : list bool) (r : rstate) : rstate :=
  match fuel with
  | O => r
  | S f => match sched with
           | [] => rrun f [] (rstep false r)
           | b :: s => rrun f s (rstep b r)
           end
  end.

Definition race_fuel : nat := 8.

(* a fault position inside a racing delivery: one of its (at most four) row / lock operations *)
Inductive fidx := F0 | F1 | F2 | F3.
Definition fidx_nat (f : fidx) : nat := match f with F0 => 0 | F1 => 1 | F2 => 2 | F3 => 3 end.

Definition race (row : option status) (p1 p2 : phase) (f1 f2 : option fidx) (sched : list bool) : rstate :=
  rrun race_fuel sched (mkR (init_thread false p1 (option_map fidx_nat f1))
                            (init_thread false p2 (option_map fidx_nat f2)) (mkS row [] None)).

(* ---- the world: several branches sharing the fence table ------------------ *)
Definition counters := (N * N * N)%type.      (* try, confirm, cancel effects committed *)
Record cell := mkC { c_row : option status; c_cnt : counters }.
Definition empty_cell : cell := mkC None (0, 0, 0)%N.
Definition world := list (N * cell).

Fixpoint get (w : world) (k : N) : cell :=
  match w with
  | [] => empty_cell
  | (k', c) :: w' => if N.eqb k' k then c else get w' k
  end.

Definition set (w : world) (k : N) (c : cell) : world := (k, c) :: w.

Definition add_eff (c : counters) (e : phase) : counters :=
  let '(a, b, d) := c in
  match e with
  | Prepare => (a + 1, b, d) | Commit => (a, b + 1, d) | Rollback => (a, b, d + 1) | Invalid => c
  end%N.

Definition add_effs (c : counters) (es : list phase) : counters := fold_left add_eff es c.

Inductive hop :=
| HDeliver (k : N) (ph : phase) (fault : option nat)
| HRace (k : N) (p1 p2 : phase) (f1 f2 : option fidx) (sched : list bool).

Definition hop_key (o : hop) : N := match o with HDeliver k _ _ => k | HRace k _ _ _ _ _ => k end.

(* committed row and effects an operation leaves for a key whose row is [row] *)
Definition hop_result (o : hop) (row : option status) : option status * list phase :=
  match o with
  | HDeliver _ ph fault => let '(_, sh) := deliver1 row ph fault in (s_row sh, s_effs sh)
  | HRace _ p1 p2 f1 f2 sched => let sh := r_sh (race row p1 p2 f1 f2 sched) in (s_row sh, s_effs sh)
  end.

Definition apply_hop (w : world) (o : hop) : world :=
  let k := hop_key o in
  let c := get w k in
  let '(row', effs) := hop_result o (c_row c) in
  set w k (mkC row' (add_effs (c_cnt c) effs)).

Definition run_hist (w : world) (h : list hop) : world := fold_left apply_hop h w.

(* ---- what the property talks about ---------------------------------------- *)
Definition cnt_of (r : option status) : counters :=
  match r with
  | None | Some Suspended => (0, 0, 0)
  | Some Tried => (1, 0, 0)
  | Some Committed => (1, 1, 0)
  | Some Rollbacked => (1, 0, 1)
  end%N.

(* a committed change of the fence row together with the effects committed with it *)
Definition legal (r r' : option status) (effs : list phase) : bool :=
  match r, r', effs with
  | None, Some Tried, [Prepare] => true
  | Some Tried, Some Committed, [Commit] => true
  | Some Tried, Some Rollbacked, [Rollback] => true
  | None, Some Suspended, [] => true
  | _, _, [] => ostatus_eqb r r'
  | _, _, _ => false
  end.

(* two deliveries, one after the other *)
Definition legal2 (r r' : option status) (effs : list phase) : bool :=
  legal r r' effs ||
  match r, r', effs with
  | None, Some Committed, [Prepare; Commit] => true
  | None, Some Rollbacked, [Prepare; Rollback] => true
  | _, _, _ => false
  end.

Definition try_of (c : cell) : N := fst (fst (c_cnt c)).
Definition confirm_of (c : cell) : N := snd (fst (c_cnt c)).
Definition cancel_of (c : cell) : N := snd (c_cnt c).

(* ---- histories that also contain deliveries through the proxy driver -------------- *)
Inductive dop :=
| DApi (k : N) (ph : phase) (fault : option nat)     (* through WithFence with the business as callback *)
| DDrv (k : N) (ph : phase) (fault : option nat).    (* through the proxy driver *)

Definition dop_key (o : dop) : N := match o with DApi k _ _ => k | DDrv k _ _ => k end.

(* the world plus the branches whose fence row is locked by a leaked transaction *)
Definition dworld := (world * list N)%type.
Definition dinit : dworld := ([], []).
Definition is_locked (l : list N) (k : N) : bool := existsb (N.eqb k) l.

Definition dop_run (dw : dworld) (o : dop) : thread * shared :=
  match o with
  | DApi k ph fault => deliver_l false (is_locked (snd dw) k) (c_row (get (fst dw) k)) ph fault
  | DDrv k ph fault => deliver_l true (is_locked (snd dw) k) (c_row (get (fst dw) k)) ph fault
  end.

Definition apply_dop (dw : dworld) (o : dop) : dworld :=
  let k := dop_key o in
  let c := get (fst dw) k in
  let '(_, sh) := dop_run dw o in
  (set (fst dw) k (mkC (s_row sh) (add_effs (c_cnt c) (s_effs sh))),
   match s_owner sh with
   | Some _ => if is_locked (snd dw) k then snd dw else k :: snd dw
   | None => snd dw
   end).

Definition run_dhist (dw : dworld) (h : list dop) : dworld := fold_left apply_dop h dw.

(* is the operation, at the moment it is delivered, outside the two known findings? *)
Definition dop_supported (dw : dworld) (o : dop) : bool :=
  match o with
  | DApi _ _ _ => true
  | DDrv k ph fault => drv_supported (is_locked (snd dw) k) (c_row (get (fst dw) k)) ph fault
  end.

Fixpoint dhist_supported (dw : dworld) (h : list dop) : bool :=
  match h with
  | [] => true
  | o :: h' => dop_supported dw o && dhist_supported (apply_dop dw o) h'
  end.
