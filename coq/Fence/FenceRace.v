(* C06 — the race of two deliveries: every schedule and every fault position in either delivery, by
   reflection over the finite domain (5 initial rows x 4 x 4 phases x 5 x 5 fault positions x
   2^race_fuel schedule prefixes; a schedule longer than the fuel is equivalent to its prefix, a
   shorter one to its padding). *)
From Coq Require Import List NArith Bool Arith.
From SeataV Require Import Fence.FenceModel.
Import ListNotations.

Definition all_rows : list (option status) :=
  [None; Some Tried; Some Committed; Some Rollbacked; Some Suspended].
Definition all_phases : list phase := [Prepare; Commit; Rollback; Invalid].
Definition effs_nil (l : list phase) : bool := match l with [] => true | _ => false end.

(* ---------- the race: every schedule ---------------------------------------- *)
Fixpoint all_bools (n : nat) : list (list bool) :=
  match n with
  | O => [[]]
  | S m => map (cons false) (all_bools m) ++ map (cons true) (all_bools m)
  end.

Fixpoint pad (n : nat) (l : list bool) : list bool :=
  match n with
  | O => []
  | S m => match l with [] => false :: pad m [] | b :: l' => b :: pad m l' end
  end.

Lemma pad_in : forall n l, In (pad n l) (all_bools n).
Proof.
  induction n; intros l; simpl; [now left|].
  apply in_or_app. destruct l as [|[] l'].
  - left. apply in_map, IHn.
  - right. apply in_map, IHn.
  - left. apply in_map, IHn.
Qed.

Lemma rrun_pad : forall fuel sched r, rrun fuel sched r = rrun fuel (pad fuel sched) r.
Proof.
  induction fuel; intros sched r; simpl; [reflexivity|].
  destruct sched as [|b s]; simpl.
  - rewrite (IHfuel [] (rstep false r)). reflexivity.
  - apply IHfuel.
Qed.

Definition thread_ok (row : option status) (t : thread) : bool :=
  done t && Nat.leb (t_ran t) 1.

(* committed effects of the pair = the callbacks that ran in deliveries that succeeded *)
Definition succ_eff (t : thread) : list phase :=
  if errc_eqb (t_err t) ENone && Nat.eqb (t_ran t) 1 then [t_ph t] else [].

Definition perm2 (a b l : list phase) : bool :=
  let eq := fun x y : list phase =>
    Nat.eqb (length x) (length y) && forallb (fun p => phase_eqb (fst p) (snd p)) (combine x y) in
  eq (a ++ b) l || eq (b ++ a) l.

Definition race_ok_r (row : option status) (r : rstate) : bool :=
  thread_ok row (r_t0 r) && thread_ok row (r_t1 r)
  && match s_owner (r_sh r) with None => true | Some _ => false end
  && legal2 row (s_row (r_sh r)) (s_effs (r_sh r))
  && perm2 (succ_eff (r_t0 r)) (succ_eff (r_t1 r)) (s_effs (r_sh r))
  (* both failed => nothing changed *)
  && (errc_eqb (t_err (r_t0 r)) ENone || errc_eqb (t_err (r_t1 r)) ENone
      || (ostatus_eqb (s_row (r_sh r)) row && effs_nil (s_effs (r_sh r)))).

Definition race_ok (row : option status) (p1 p2 : phase) (f1 f2 : option fidx) (sched : list bool) : bool :=
  race_ok_r row (race row p1 p2 f1 f2 sched).

Definition all_faults : list (option fidx) := [None; Some F0; Some F1; Some F2; Some F3].

(* stated on the explicit term (not through a named constant): the kernel then matches it syntactically
   against forallb_forall instead of evaluating the table in its slow conversion machine *)
Lemma race_table_checked :
  forallb (fun row => forallb (fun p1 => forallb (fun p2 => forallb (fun f1 => forallb (fun f2 =>
    forallb (fun s => race_ok row p1 p2 f1 f2 s) (all_bools race_fuel)) all_faults) all_faults)
    all_phases) all_phases) all_rows = true.
Proof. vm_cast_no_check (eq_refl true). Qed.

Lemma in_all_rows : forall r, In r all_rows.
Proof. intros [[]|]; simpl; tauto. Qed.
Lemma in_all_phases : forall p, In p all_phases.
Proof. intros []; simpl; tauto. Qed.
Lemma in_all_faults : forall f, In f all_faults.
Proof. intros [[]|]; simpl; tauto. Qed.

Lemma race_pad : forall row p1 p2 f1 f2 sched,
  race row p1 p2 f1 f2 sched = race row p1 p2 f1 f2 (pad race_fuel sched).
Proof. intros. unfold race. apply rrun_pad. Qed.

Lemma race_ok_all : forall row p1 p2 f1 f2 sched, race_ok row p1 p2 f1 f2 sched = true.
Proof.
  intros row p1 p2 f1 f2 sched.
  unfold race_ok. rewrite race_pad. fold (race_ok row p1 p2 f1 f2 (pad race_fuel sched)).
  pose proof race_table_checked as H.
  pose proof (proj1 (forallb_forall _ _) H row (in_all_rows row)) as H1. clear H.
  pose proof (proj1 (forallb_forall _ _) H1 p1 (in_all_phases p1)) as H2. clear H1.
  pose proof (proj1 (forallb_forall _ _) H2 p2 (in_all_phases p2)) as H3. clear H2.
  pose proof (proj1 (forallb_forall _ _) H3 f1 (in_all_faults f1)) as H4. clear H3.
  pose proof (proj1 (forallb_forall _ _) H4 f2 (in_all_faults f2)) as H5. clear H4.
  exact (proj1 (forallb_forall _ _) H5 _ (pad_in race_fuel sched)).
Qed.
