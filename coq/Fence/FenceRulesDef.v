(* C06 — the vocabulary of the decision tables that tools/xlate/fence.go regenerates from
   pkg/rm/tcc/fence/handler/tcc_fence_wrapper_handler.go and fence_api.go on every run
   (coq/Gen/FenceRules.v).  Definitions only. *)
From Coq Require Import List NArith Bool String.
Import ListNotations.

Inductive status := Tried | Committed | Rollbacked | Suspended.
Inductive phase := Prepare | Commit | Rollback | Invalid.

(* condition of an `if` on the record the handler just read *)
Inductive cond :=
| CNil                          (* fenceDo == nil *)
| CStatus (l : list status)     (* fenceDo.Status == a || fenceDo.Status == b ... *)
| CAny.                         (* the statement that is reached when no `if` returned *)

(* what the handler does in that branch *)
Inductive decision :=
| DRefuse                                   (* return fmt.Errorf(...) *)
| DSkip                                     (* return ErrSkipBusiness: success, business must not run *)
| DProceed                                  (* return nil: business runs, record untouched *)
| DUpdate (s : status)                      (* return updateFenceStatus(.., s): compare-and-set, then business *)
| DInsert (s : status) (then_skip : bool)   (* insertTCCFenceLog(.., s); on error refuse; then ErrSkipBusiness / nil *)
| DUnknown (text : string).                 (* anything the translator does not recognise *)

Definition rule := (cond * decision)%type.

Inductive hname := HPrepare | HCommit | HRollback.

(* shape of WithFence: doFence, ErrSkipBusiness => nil without callback, other error => returned,
   then the callback whose error is returned *)
Inductive wfshape := WfStandard | WfUnknown (text : string).

Definition status_eqb (a b : status) : bool :=
  match a, b with
  | Tried, Tried | Committed, Committed | Rollbacked, Rollbacked | Suspended, Suspended => true
  | _, _ => false
  end.

Definition cond_matches (c : cond) (v : option status) : bool :=
  match c, v with
  | CNil, None => true
  | CStatus l, Some s => existsb (status_eqb s) l
  | CAny, _ => true
  | _, _ => false
  end.

Fixpoint decide (rs : list rule) (v : option status) : decision :=
  match rs with
  | [] => DUnknown "no rule applies"
  | (c, d) :: rs' => if cond_matches c v then d else decide rs' v
  end.

Definition decision_known (d : decision) : bool := match d with DUnknown _ => false | _ => true end.
Definition rules_known (rs : list rule) : bool := forallb (fun r => decision_known (snd r)) rs.

Definition phase_code (p : phase) : N :=
  match p with Prepare => 1 | Commit => 2 | Rollback => 3 | Invalid => 0 end%N.

Fixpoint lookup_handler (d : list (N * hname)) (c : N) : option hname :=
  match d with
  | [] => None
  | (c', h) :: d' => if N.eqb c' c then Some h else lookup_handler d' c
  end.
