(* C06 — the seata-fence-mysql proxy-driver mode (FenceConn.BeginTx / FenceTx): what holds outside
   the two known findings, and the refutations inside them. *)
From Coq Require Import List NArith Bool Arith Lia.
From SeataV Require Import Fence.FenceModel Fence.FenceRace Fence.FenceProofs.
Import ListNotations.

Definition drv_ok (row : option status) (ph : phase) (fault : option nat) : bool :=
  negb (drv_supported row ph fault) ||
  (let '(t, sh) := deliver_drv row ph fault in
   done t
   && match s_owner sh with None => true | Some _ => false end
   && legal row (s_row sh) (s_effs sh)
   && (errc_eqb (t_err t) ENone || (ostatus_eqb (s_row sh) row && effs_nil (s_effs sh)))
   && (match s_effs sh with
       | [] => negb (Nat.eqb (t_ran t) 1 && errc_eqb (t_err t) ENone)
       | [e] => phase_eqb e ph && Nat.eqb (t_ran t) 1 && errc_eqb (t_err t) ENone
       | _ => false
       end)
   && Nat.leb (t_ran t) 1).

Lemma drv_ok_all : forall row ph fault, drv_ok row ph fault = true.
Proof.
  intros row ph fault.
  destruct fault as [n|].
  - do 16 (destruct n as [|n]; [destruct row as [[]|], ph; vm_compute; reflexivity|]).
    destruct row as [[]|], ph; vm_compute; reflexivity.
  - destruct row as [[]|], ph; vm_compute; reflexivity.
Qed.

Lemma dop_result_legal2 : forall w o,
  dop_supported w o = true ->
  let '(row', effs) := dop_result o (c_row (get w (dop_key o))) in
  legal2 (c_row (get w (dop_key o))) row' effs = true.
Proof.
  intros w [o | k ph fault] Hs; simpl.
  - apply hop_result_legal2.
  - simpl in Hs. pose proof (drv_ok_all (c_row (get w k)) ph fault) as H. unfold drv_ok in H.
    rewrite Hs in H. simpl in H.
    destruct (deliver_drv (c_row (get w k)) ph fault) as [t sh].
    repeat rewrite andb_true_iff in H. destruct H as (((((_ & _) & L) & _) & _) & _).
    apply legal_legal2. exact L.
Qed.

Lemma winv_dstep : forall w o, dop_supported w o = true -> WInv w -> WInv (apply_dop w o).
Proof.
  intros w o Hs Hw k.
  destruct (N.eq_dec k (dop_key o)) as [->|Hne].
  - unfold apply_dop.
    pose proof (dop_result_legal2 w o Hs) as HL.
    destruct (dop_result o (c_row (get w (dop_key o)))) as [row' effs].
    rewrite get_set_same. simpl. rewrite (Hw (dop_key o)). symmetry. apply legal2_cnt. exact HL.
  - unfold apply_dop. destruct (dop_result o (c_row (get w (dop_key o)))) as [row' effs].
    rewrite get_set_other by congruence. apply Hw.
Qed.

Lemma winv_drun : forall h w, dhist_supported w h = true -> WInv w -> WInv (run_dhist w h).
Proof.
  induction h as [|o h IH]; intros w Hs Hw; simpl; [assumption|].
  simpl in Hs. apply andb_prop in Hs. destruct Hs as [H1 H2].
  apply IH; [assumption|]. apply winv_dstep; assumption.
Qed.

Open Scope N_scope.

(* mixed histories (WithFence deliveries, races, proxy-driver deliveries) in which every proxy-driver
   delivery is outside the two known findings: idempotence and exclusivity still hold *)
Theorem drv_partial : forall h k,
  dhist_supported [] h = true ->
  let c := get (run_dhist [] h) k in
  try_of c <= 1 /\ confirm_of c <= 1 /\ cancel_of c <= 1 /\ ~ (confirm_of c = 1 /\ cancel_of c = 1).
Proof.
  intros h k Hs. pose proof (winv_drun h [] Hs winv_empty k) as H. cbv zeta.
  unfold try_of, confirm_of, cancel_of. rewrite H.
  destruct (c_row (get (run_dhist [] h) k)) as [[]|]; simpl; repeat split; try lia; intros [A B]; discriminate.
Qed.

(* inside the findings the property fails in the model as it does on the code *)
Theorem drv_refuted :
  (* a duplicate commit through the proxy driver applies confirm twice *)
  (let h := [DDrv 1 Prepare None; DDrv 1 Commit None; DDrv 1 Commit None] in
   dhist_supported [] h = false /\ confirm_of (get (run_dhist [] h) 1) = 2) /\
  (* an empty rollback through the proxy driver records the suspension AND applies cancel *)
  (let h := [DDrv 1 Rollback None] in
   dhist_supported [] h = false /\ get (run_dhist [] h) 1 = mkC (Some Suspended) (0, 0, 1)) /\
  (* a failure of the second COMMIT leaves the effect without the record *)
  (let h := [DDrv 1 Prepare (Some 6%nat)] in
   dhist_supported [] h = false /\ get (run_dhist [] h) 1 = mkC None (1, 0, 0)).
Proof. vm_compute. repeat split. Qed.
