(* C06 — the seata-fence-mysql proxy-driver mode (FenceConn.BeginTx / FenceTx), including the lock a
   failed business COMMIT leaks: what holds outside the two known findings, and the refutations
   inside them. *)
From Coq Require Import List NArith Bool Arith Lia.
From SeataV Require Import Fence.FenceModel Fence.FenceRace Fence.FenceProofs.
Import ListNotations.

(* one delivery, through WithFence (drv = false) or through the proxy driver (drv = true), on a branch
   whose fence row is free or locked by a leaked transaction: outside the two findings it satisfies the
   step property; on a locked row it fails and changes nothing; the lock of a leaked transaction stays *)
Definition dl_ok (drv locked : bool) (row : option status) (ph : phase) (fault : option nat) : bool :=
  (drv && negb (drv_supported locked row ph fault)) ||
  (let '(t, sh) := deliver_l drv locked row ph fault in
   done t
   && legal row (s_row sh) (s_effs sh)
   && (errc_eqb (t_err t) ENone || (ostatus_eqb (s_row sh) row && effs_nil (s_effs sh)))
   && (match s_effs sh with
       | [] => negb (Nat.eqb (t_ran t) 1 && errc_eqb (t_err t) ENone)
       | [e] => phase_eqb e ph && Nat.eqb (t_ran t) 1 && errc_eqb (t_err t) ENone
       | _ => false
       end)
   && Nat.leb (t_ran t) 1
   && (negb locked || (negb (errc_eqb (t_err t) ENone)
                       && match s_owner sh with Some true => true | _ => false end))
   (* without the proxy driver no lock is ever leaked *)
   && (drv || locked || match s_owner sh with None => true | Some _ => false end)).

Lemma dl_ok_all : forall drv locked row ph fault, dl_ok drv locked row ph fault = true.
Proof.
  intros drv locked row ph fault.
  destruct fault as [n|].
  - do 16 (destruct n as [|n]; [destruct drv, locked, row as [[]|], ph; vm_compute; reflexivity|]).
    destruct drv, locked, row as [[]|], ph; vm_compute; reflexivity.
  - destruct drv, locked, row as [[]|], ph; vm_compute; reflexivity.
Qed.

(* ... and INSIDE the two regions every proxy-driver delivery breaks it: the committed record and the
   committed effects do not move together.  The regions are exactly as wide as the defect. *)
Definition region_fails (locked : bool) (row : option status) (ph : phase) (fault : option nat) : bool :=
  drv_supported locked row ph fault ||
  (let '(_, sh) := deliver_l true locked row ph fault in negb (legal row (s_row sh) (s_effs sh))).

Lemma region_fails_all : forall locked row ph fault, region_fails locked row ph fault = true.
Proof.
  intros locked row ph fault.
  destruct fault as [n|].
  - do 16 (destruct n as [|n]; [destruct locked, row as [[]|], ph; vm_compute; reflexivity|]).
    destruct locked, row as [[]|], ph; vm_compute; reflexivity.
  - destruct locked, row as [[]|], ph; vm_compute; reflexivity.
Qed.

Theorem regions_exact : forall locked row ph fault,
  drv_supported locked row ph fault = false ->
  let '(_, sh) := deliver_l true locked row ph fault in legal row (s_row sh) (s_effs sh) = false.
Proof.
  intros locked row ph fault H. pose proof (region_fails_all locked row ph fault) as R.
  unfold region_fails in R. rewrite H in R. rewrite orb_false_l in R.
  destruct (deliver_l true locked row ph fault) as [t sh]. apply negb_true_iff in R. exact R.
Qed.

Definition dop_drv (o : dop) : bool := match o with DApi _ _ _ => false | DDrv _ _ _ => true end.

Lemma dop_run_eq : forall dw o,
  dop_run dw o = deliver_l (dop_drv o) (is_locked (snd dw) (dop_key o)) (c_row (get (fst dw) (dop_key o)))
                           (match o with DApi _ p _ | DDrv _ p _ => p end)
                           (match o with DApi _ _ f | DDrv _ _ f => f end).
Proof. intros dw [k ph f|k ph f]; reflexivity. Qed.

Lemma dop_step_facts : forall dw o,
  dop_supported dw o = true ->
  let '(t, sh) := dop_run dw o in
  legal (c_row (get (fst dw) (dop_key o))) (s_row sh) (s_effs sh) = true /\
  (t_err t <> ENone -> s_row sh = c_row (get (fst dw) (dop_key o)) /\ s_effs sh = []).
Proof.
  intros dw o Hs. rewrite dop_run_eq.
  set (ph := match o with DApi _ p _ | DDrv _ p _ => p end).
  set (f := match o with DApi _ _ f | DDrv _ _ f => f end).
  pose proof (dl_ok_all (dop_drv o) (is_locked (snd dw) (dop_key o)) (c_row (get (fst dw) (dop_key o))) ph f) as H.
  unfold dl_ok in H.
  assert (Hsup : dop_drv o && negb (drv_supported (is_locked (snd dw) (dop_key o)) (c_row (get (fst dw) (dop_key o))) ph f) = false).
  { destruct o as [k p f0|k p f0]; simpl in *; [reflexivity|]. unfold ph, f. rewrite Hs. reflexivity. }
  rewrite Hsup in H. simpl in H.
  destruct (deliver_l (dop_drv o) (is_locked (snd dw) (dop_key o)) (c_row (get (fst dw) (dop_key o))) ph f) as [t sh].
  repeat rewrite andb_true_iff in H.
  destruct H as ((((((_ & L) & F) & _) & _) & _) & _).
  split; [exact L|].
  intros He. destruct (errc_eqb (t_err t) ENone) eqn:E.
  - destruct (t_err t); simpl in E; try discriminate. contradiction.
  - simpl in F. apply andb_prop in F. destruct F as [A B]. apply ostatus_eqb_eq in A.
    split; [exact A|]. destruct (s_effs sh); [reflexivity|discriminate].
Qed.

Definition DInv (dw : dworld) : Prop := WInv (fst dw).

Lemma dinv_step : forall dw o, dop_supported dw o = true -> DInv dw -> DInv (apply_dop dw o).
Proof.
  intros dw o Hs Hw k. unfold apply_dop.
  pose proof (dop_step_facts dw o Hs) as HF.
  destruct (dop_run dw o) as [t sh]. destruct HF as [L _]. simpl fst.
  destruct (N.eq_dec k (dop_key o)) as [->|Hne].
  - rewrite get_set_same. simpl. rewrite (Hw (dop_key o)). symmetry. apply legal2_cnt. apply legal_legal2. exact L.
  - rewrite get_set_other by congruence. apply Hw.
Qed.

Lemma dinv_run : forall h dw, dhist_supported dw h = true -> DInv dw -> DInv (run_dhist dw h).
Proof.
  induction h as [|o h IH]; intros dw Hs Hw; simpl; [assumption|].
  simpl in Hs. apply andb_prop in Hs. destruct Hs as [H1 H2].
  apply IH; [assumption|]. apply dinv_step; assumption.
Qed.

Open Scope N_scope.

(* mixed histories (WithFence deliveries and proxy-driver deliveries, any faults - including a failing
   business COMMIT and the lock it leaks) in which every proxy-driver delivery is outside the two
   known findings: idempotence and exclusivity still hold *)
Theorem drv_partial : forall h k,
  dhist_supported dinit h = true ->
  let c := get (fst (run_dhist dinit h)) k in
  try_of c <= 1 /\ confirm_of c <= 1 /\ cancel_of c <= 1 /\ ~ (confirm_of c = 1 /\ cancel_of c = 1).
Proof.
  intros h k Hs. pose proof (dinv_run h dinit Hs winv_empty k) as H. cbv zeta.
  unfold try_of, confirm_of, cancel_of. rewrite H.
  destruct (c_row (get (fst (run_dhist dinit h)) k)) as [[]|]; simpl; repeat split; try lia; intros [A B]; discriminate.
Qed.

(* ... and record and effect commit or roll back together: every such delivery moves the record along
   the status machine together with exactly the matching effect, and a delivery that reports a failure
   (an injected one at ANY operation but the fence COMMIT, a refusal, a lock wait timeout) leaves the
   branch exactly as it was *)
Theorem drv_atomic : forall dw o,
  dop_supported dw o = true ->
  let k := dop_key o in
  let '(t, sh) := dop_run dw o in
  let c := get (fst dw) k in
  let c' := get (fst (apply_dop dw o)) k in
  legal (c_row c) (c_row c') (s_effs sh) = true /\ c_cnt c' = add_effs (c_cnt c) (s_effs sh) /\
  (t_err t <> ENone -> c' = c).
Proof.
  intros dw o Hs. cbv zeta. pose proof (dop_step_facts dw o Hs) as HF. unfold apply_dop.
  destruct (dop_run dw o) as [t sh]. destruct HF as [L F]. simpl fst. rewrite get_set_same. simpl.
  split; [exact L|]. split; [reflexivity|].
  intros He. destruct (F He) as [-> ->]. simpl. destruct (get (fst dw) (dop_key o)); reflexivity.
Qed.

(* the business COMMIT fails: neither the effect nor the record, the fence transaction and its lock
   are leaked, and the next delivery for the branch times out on the lock without changing anything *)
Lemma business_commit_fault_example :
  let h := [DDrv 1 Prepare (Some 6%nat); DDrv 1 Prepare None; DApi 1 Rollback None] in
  dhist_supported dinit h = true /\
  run_dhist dinit [DDrv 1 Prepare (Some 6%nat)] = ([(1, mkC None (0, 0, 0))], [1]) /\
  get (fst (run_dhist dinit h)) 1 = mkC None (0, 0, 0) /\
  t_err (fst (dop_run (run_dhist dinit [DDrv 1 Prepare (Some 6%nat)]) (DDrv 1 Prepare None))) = ELocked.
Proof. vm_compute. repeat split. Qed.

(* inside the findings the property fails in the model as it does on the code *)
Theorem drv_refuted :
  (* a duplicate commit through the proxy driver applies confirm twice *)
  (let h := [DDrv 1 Prepare None; DDrv 1 Commit None; DDrv 1 Commit None] in
   dhist_supported dinit h = false /\ confirm_of (get (fst (run_dhist dinit h)) 1) = 2) /\
  (* an empty rollback through the proxy driver records the suspension AND applies cancel *)
  (let h := [DDrv 1 Rollback None] in
   dhist_supported dinit h = false /\ get (fst (run_dhist dinit h)) 1 = mkC (Some Suspended) (0, 0, 1)) /\
  (* a failure of the second COMMIT leaves the effect without the record *)
  (let h := [DDrv 1 Prepare (Some 7%nat)] in
   dhist_supported dinit h = false /\ get (fst (run_dhist dinit h)) 1 = mkC None (1, 0, 0)).
Proof. vm_compute. repeat split. Qed.
