(* C06 — executable comparison of what the real fence code did (cases written by
   the harness run) with the model.  No proofs here. *)
From Coq Require Import List NArith Bool Arith.
From SeataV Require Import Fence.FenceModel.
Import ListNotations.
Open Scope N_scope.

Record fobs := mkO {
  o_ops : list N;          (* driver operation journal (kinds), oldest first *)
  o_err : N;               (* 0 none, 1 injected fault, 2 duplicate key, 3 refused *)
  o_ran : N;               (* executions of the business callback *)
  o_status : N;            (* committed fence status of the key afterwards, 0 = no row *)
  o_biz : N * N * N;       (* committed try / confirm / cancel counters of the key afterwards (first row) *)
  o_biz2 : N * N * N       (* the second row each business step updates: must always equal the first *)
}.

Record fcase := mkFC {
  fc_hist : list (N * phase * option nat * bool); (* key, phase, fault, through the proxy driver? *)
  fc_obs : list fobs;
  fc_race : option (phase * phase * option fidx * option fidx * list bool);  (* on key 0, after the history *)
  fc_robs : list fobs
}.

Definition status_code (r : option status) : N :=
  match r with
  | None => 0 | Some Tried => 1 | Some Committed => 2 | Some Rollbacked => 3 | Some Suspended => 4
  end.

Definition err_code (e : errc) : N :=
  match e with ENone => 0 | EFault => 1 | EDup => 2 | ERefused => 3 | ELocked => 4 end.

Fixpoint listN_eqb (a b : list N) : bool :=
  match a, b with
  | [], [] => true
  | x :: a', y :: b' => (x =? y) && listN_eqb a' b'
  | _, _ => false
  end.

Definition cnt_eqb (a b : N * N * N) : bool :=
  let '(a1, a2, a3) := a in let '(b1, b2, b3) := b in (a1 =? b1) && (a2 =? b2) && (a3 =? b3).

(* disagreement codes: 1 journal, 2 error class, 3 callback executions, 4 fence status,
   5 effect counters, 6 number of observations; +10 for the racing pair *)
Definition cmp_thread (off : N) (t : thread) (c : cell) (o : fobs) : list N :=
  (if listN_eqb (map opk_code (rev (t_trace t))) (o_ops o) then [] else [off + 1]) ++
  (if err_code (t_err t) =? o_err o then [] else [off + 2]) ++
  (if N.of_nat (t_ran t) =? o_ran o then [] else [off + 3]) ++
  (if status_code (c_row c) =? o_status o then [] else [off + 4]) ++
  (if cnt_eqb (c_cnt c) (o_biz o) then [] else [off + 5]) ++
  (if cnt_eqb (c_cnt c) (o_biz2 o) then [] else [off + 5]).

Definition dop_of (k : N) (ph : phase) (f : option nat) (drv : bool) : dop :=
  if drv then DDrv k ph f else DApi k ph f.

Fixpoint check_hist (w : dworld) (h : list (N * phase * option nat * bool)) (obs : list fobs) : dworld * list N :=
  match h, obs with
  | [], [] => (w, [])
  | (k, ph, f, drv) :: h', o :: obs' =>
      let '(t, _) := dop_run w (dop_of k ph f drv) in
      let w1 := apply_dop w (dop_of k ph f drv) in
      let '(w2, e) := check_hist w1 h' obs' in
      (w2, cmp_thread 0 t (get (fst w1) k) o ++ e)
  | _, _ => (w, [6])
  end.

Definition check_case (c : fcase) : list N :=
  let '(dw, e) := check_hist dinit (fc_hist c) (fc_obs c) in
  let w := fst dw in
  e ++
  match fc_race c, fc_robs c with
  | None, [] => []
  | Some (p1, p2, f1, f2, sched), [o1; o2] =>
      let r := race (c_row (get w 0)) p1 p2 f1 f2 sched in
      let w1 := apply_hop w (HRace 0 p1 p2 f1 f2 sched) in
      cmp_thread 10 (r_t0 r) (get w1 0) o1 ++ cmp_thread 10 (r_t1 r) (get w1 0) o2 ++
      (if done (r_t0 r) && done (r_t1 r) then [] else [17])
  | _, _ => [16]
  end.

Fixpoint mismatches_from (i : nat) (cs : list fcase) : list (nat * N) :=
  match cs with
  | [] => []
  | c :: cs' => map (fun e => (i, e)) (check_case c) ++ mismatches_from (S i) cs'
  end.

Definition mismatches (cs : list fcase) : list (nat * N) := mismatches_from 0 cs.

(* which known-finding input predicate (if any) does a history satisfy, according to the model:
   0 none, 1 fence.drivermode.decided-business-committed, 2 fence.drivermode.fault-at-fence-commit *)
Fixpoint hist_pred (w : dworld) (h : list (N * phase * option nat * bool)) : N :=
  match h with
  | [] => 0
  | (k, ph, f, drv) :: h' =>
      let locked := is_locked (snd w) k in
      let row := c_row (get (fst w) k) in
      if drv && drv_fault_at_fence_commit locked row ph f then 2
      else if drv && drv_decided_applied locked row ph f then 1
      else hist_pred (apply_dop w (dop_of k ph f drv)) h'
  end.

Definition case_preds (cs : list fcase) : list N := map (fun c => hist_pred dinit (fc_hist c)) cs.
