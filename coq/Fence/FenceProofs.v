(* C06 — proofs about the fence model. *)
From Coq Require Import List NArith Bool Arith Lia.
From SeataV Require Import Gen.FenceRules Fence.FenceModel Fence.FenceRace.
Import ListNotations.

(* ---------- the regenerated tables are fully recognised ------------------------------- *)
Definition tables_recognised : bool :=
  rules_known gen_prepare && rules_known gen_commit && rules_known gen_rollback
  && match gen_withfence with WfStandard => true | WfUnknown _ => false end
  && match gen_cas_old with Some _ => true | None => false end.

Lemma tables_recognised_ok : tables_recognised = true.
Proof. vm_compute. reflexivity. Qed.

(* ---------- the single delivery: finite case analysis, any fault position ---- *)

(* everything the theorems need about one delivery, as one boolean *)
Definition single_ok (row : option status) (ph : phase) (fault : option nat) : bool :=
  let '(t, sh) := deliver1 row ph fault in
  done t
  && match s_owner sh with None => true | Some _ => false end
  && legal row (s_row sh) (s_effs sh)
  (* failure (refusal, duplicate key, injected fault) leaves nothing behind *)
  && (errc_eqb (t_err t) ENone || (ostatus_eqb (s_row sh) row && effs_nil (s_effs sh)))
  (* an effect is committed iff the callback ran and the delivery succeeded, and it is this phase's effect *)
  && (match s_effs sh with
      | [] => negb (Nat.eqb (t_ran t) 1 && errc_eqb (t_err t) ENone)
      | [e] => phase_eqb e ph && Nat.eqb (t_ran t) 1 && errc_eqb (t_err t) ENone
      | _ => false
      end)
  && Nat.leb (t_ran t) 1
  (* a fault that is reached is reported as such *)
  && (match fault with
      | Some n => if Nat.ltb n (t_nops t) then errc_eqb (t_err t) EFault else true
      | None => negb (errc_eqb (t_err t) EFault)
      end).

Lemma single_ok_all : forall row ph fault, single_ok row ph fault = true.
Proof.
  intros row ph fault.
  destruct fault as [n|].
  - do 13 (destruct n as [|n]; [destruct row as [[]|], ph; vm_compute; reflexivity|]).
    destruct row as [[]|], ph; vm_compute; reflexivity.
  - destruct row as [[]|], ph; vm_compute; reflexivity.
Qed.

(* an empty rollback, fault-free: suspension recorded, no callback *)
Lemma empty_rollback_suspends :
  let '(t, sh) := deliver1 None Rollback None in
  s_row sh = Some Suspended /\ s_effs sh = [] /\ t_ran t = 0 /\ t_err t = ENone.
Proof. vm_compute. repeat split. Qed.

(* a prepare that meets any record is refused with the duplicate-key error (unless a fault hits first) *)
Lemma prepare_on_record_refused : forall s fault,
  let '(t, sh) := deliver1 (Some s) Prepare fault in
  t_err t <> ENone /\ s_row sh = Some s /\ s_effs sh = [] /\ t_ran t = 0.
Proof.
  intros s fault. destruct fault as [n|].
  - do 13 (destruct n as [|n]; [destruct s; vm_compute; repeat split; discriminate|]).
    destruct s; vm_compute; repeat split; discriminate.
  - destruct s; vm_compute; repeat split; discriminate.
Qed.

(* ---------- from one operation to the world invariant ------------------------ *)
Lemma legal_legal2 : forall r r' e, legal r r' e = true -> legal2 r r' e = true.
Proof. intros r r' e H. unfold legal2. rewrite H. reflexivity. Qed.

Lemma hop_result_legal2 : forall o row,
  let '(row', effs) := hop_result o row in legal2 row row' effs = true.
Proof.
  intros [k ph fault | k p1 p2 f1 f2 sched] row; simpl.
  - pose proof (single_ok_all row ph fault) as H. unfold single_ok in H.
    destruct (deliver1 row ph fault) as [t sh].
    apply legal_legal2.
    repeat (apply andb_prop in H; destruct H as [H ?]). assumption.
  - pose proof (race_ok_all row p1 p2 f1 f2 sched) as H. unfold race_ok, race_ok_r in H.
    repeat rewrite andb_true_iff in H. destruct H as (((((_ & _) & _) & L) & _) & _). exact L.
Qed.

Lemma ostatus_eqb_eq : forall a b, ostatus_eqb a b = true -> a = b.
Proof. intros [[]|] [[]|]; simpl; congruence. Qed.

Lemma legal2_cnt : forall r r' effs,
  legal2 r r' effs = true -> cnt_of r' = add_effs (cnt_of r) effs.
Proof.
  intros r r' effs H.
  destruct effs as [|a [|b [|c l]]].
  - destruct r as [[]|], r' as [[]|]; vm_compute in H; try discriminate; reflexivity.
  - destruct a, r as [[]|], r' as [[]|]; vm_compute in H; try discriminate; reflexivity.
  - destruct a, b, r as [[]|], r' as [[]|]; vm_compute in H; try discriminate; reflexivity.
  - destruct a, b, r as [[]|], r' as [[]|]; vm_compute in H; discriminate.
Qed.

Lemma legal2_suspended : forall r' effs,
  legal2 (Some Suspended) r' effs = true -> r' = Some Suspended /\ effs = [].
Proof.
  intros r' effs H.
  destruct effs as [|a [|b l]].
  - destruct r' as [[]|]; vm_compute in H; try discriminate; auto.
  - destruct a, r' as [[]|]; vm_compute in H; discriminate.
  - destruct a, b, r' as [[]|]; vm_compute in H; discriminate.
Qed.

Lemma get_set_same : forall w k c, get (set w k c) k = c.
Proof. intros. unfold set. simpl. rewrite N.eqb_refl. reflexivity. Qed.

Lemma get_set_other : forall w k k' c, k <> k' -> get (set w k c) k' = get w k'.
Proof.
  intros. unfold set. simpl. destruct (N.eqb k k') eqn:E; [apply N.eqb_eq in E; contradiction|reflexivity].
Qed.

Definition WInv (w : world) : Prop := forall k, c_cnt (get w k) = cnt_of (c_row (get w k)).

Lemma winv_empty : WInv [].
Proof. intro k. reflexivity. Qed.

Lemma apply_hop_frame : forall w o k, k <> hop_key o -> get (apply_hop w o) k = get w k.
Proof.
  intros w o k Hk. unfold apply_hop.
  destruct (hop_result o (c_row (get w (hop_key o)))) as [row' effs].
  apply get_set_other. congruence.
Qed.

Lemma winv_step : forall w o, WInv w -> WInv (apply_hop w o).
Proof.
  intros w o Hw k.
  destruct (N.eq_dec k (hop_key o)) as [->|Hne].
  - unfold apply_hop.
    pose proof (hop_result_legal2 o (c_row (get w (hop_key o)))) as HL.
    destruct (hop_result o (c_row (get w (hop_key o)))) as [row' effs].
    rewrite get_set_same. simpl. rewrite (Hw (hop_key o)). symmetry. apply legal2_cnt. exact HL.
  - rewrite apply_hop_frame by assumption. apply Hw.
Qed.

Lemma winv_run : forall h w, WInv w -> WInv (run_hist w h).
Proof.
  induction h as [|o h IH]; intros w Hw; simpl; [assumption|].
  apply IH. apply winv_step. assumption.
Qed.

(* ---------- the theorems ------------------------------------------------------ *)
Open Scope N_scope.

Theorem at_most_once : forall h k,
  let c := get (run_hist [] h) k in
  try_of c <= 1 /\ confirm_of c <= 1 /\ cancel_of c <= 1.
Proof.
  intros h k. pose proof (winv_run h [] winv_empty k) as H. cbv zeta.
  unfold try_of, confirm_of, cancel_of. rewrite H.
  destruct (c_row (get (run_hist [] h) k)) as [[]|]; simpl; lia.
Qed.

Theorem exclusive : forall h k,
  let c := get (run_hist [] h) k in ~ (confirm_of c = 1 /\ cancel_of c = 1).
Proof.
  intros h k. pose proof (winv_run h [] winv_empty k) as H. cbv zeta.
  unfold confirm_of, cancel_of. rewrite H.
  destruct (c_row (get (run_hist [] h) k)) as [[]|]; simpl; intros [A B]; discriminate.
Qed.

Lemma suspended_stays : forall h w k,
  c_row (get w k) = Some Suspended ->
  get (run_hist w h) k = get w k.
Proof.
  induction h as [|o h IH]; intros w k Hs; simpl; [reflexivity|].
  assert (E : get (apply_hop w o) k = get w k).
  { destruct (N.eq_dec k (hop_key o)) as [->|Hne]; [|apply apply_hop_frame; assumption].
    unfold apply_hop.
    pose proof (hop_result_legal2 o (c_row (get w (hop_key o)))) as HL.
    destruct (hop_result o (c_row (get w (hop_key o)))) as [row' effs].
    rewrite Hs in HL. apply legal2_suspended in HL. destruct HL as [-> ->].
    rewrite get_set_same. simpl. rewrite <- Hs. destruct (get w (hop_key o)); reflexivity. }
  rewrite IH; rewrite E; auto.
Qed.

(* a rollback delivered while the branch has no record: suspension recorded, no effect, and after
   ANY later history (deliveries, faults, races, other branches) the branch is still suspended with
   the same counters, and a prepare delivered then is refused without running the callback *)
Theorem suspension : forall h1 k,
  let w0 := run_hist [] h1 in
  c_row (get w0 k) = None ->
  let w1 := apply_hop w0 (HDeliver k Rollback None) in
  c_row (get w1 k) = Some Suspended /\ c_cnt (get w1 k) = c_cnt (get w0 k) /\
  forall h2,
    let w2 := run_hist w1 h2 in
    get w2 k = get w1 k /\
    forall fault, let '(t, sh) := deliver1 (c_row (get w2 k)) Prepare fault in
                  t_err t <> ENone /\ t_ran t = 0%nat /\ get (apply_hop w2 (HDeliver k Prepare fault)) k = get w2 k.
Proof.
  intros h1 k w0 Hnone w1.
  assert (H1 : get w1 k = mkC (Some Suspended) (c_cnt (get w0 k))).
  { unfold w1, apply_hop. simpl hop_key. rewrite Hnone.
    change (hop_result (HDeliver k Rollback None) None) with (Some Suspended, @nil phase).
    cbv beta iota. rewrite get_set_same. reflexivity. }
  rewrite H1. simpl. split; [reflexivity|]. split; [reflexivity|].
  intros h2. set (w2 := run_hist w1 h2).
  assert (H2 : get w2 k = get w1 k) by (apply suspended_stays; rewrite H1; reflexivity).
  split; [rewrite H2, H1; reflexivity|].
  intros fault. rewrite H2, H1. simpl c_row.
  pose proof (prepare_on_record_refused Suspended fault) as P.
  destruct (deliver1 (Some Suspended) Prepare fault) as [t sh] eqn:E.
  destruct P as (Pe & Pr & Pf & Pn).
  split; [assumption|]. split; [assumption|].
  unfold apply_hop. simpl hop_key. rewrite H2, H1. simpl c_row. simpl hop_result. rewrite E.
  cbv beta iota. rewrite Pr, Pf. rewrite get_set_same. reflexivity.
Qed.

(* one delivery, any row, any fault position: fence record and business effect commit together *)
Theorem atomic : forall w k ph fault,
  let c := get w k in
  let '(t, sh) := deliver1 (c_row c) ph fault in
  let w' := apply_hop w (HDeliver k ph fault) in
  let c' := get w' k in
  (* the record and the counters move together, along the status machine *)
  legal (c_row c) (c_row c') (s_effs sh) = true /\ c_cnt c' = add_effs (c_cnt c) (s_effs sh) /\
  (* failure of any kind leaves the branch exactly as it was *)
  (t_err t <> ENone -> c' = c) /\
  (* an injected failure that is reached is a failure *)
  (forall n, fault = Some n -> (n < t_nops t)%nat -> t_err t = EFault) /\
  (* an effect is committed iff the callback ran (once) in a delivery that succeeded *)
  (s_effs sh <> [] <-> (t_ran t = 1%nat /\ t_err t = ENone)) /\ (t_ran t <= 1)%nat /\
  (* other branches are untouched *)
  (forall k', k' <> k -> get w' k' = get w k').
Proof.
  intros w k ph fault. cbv zeta.
  pose proof (single_ok_all (c_row (get w k)) ph fault) as H. unfold single_ok in H.
  destruct (deliver1 (c_row (get w k)) ph fault) as [t sh] eqn:E.
  repeat (apply andb_prop in H; destruct H as [H ?]).
  unfold apply_hop. simpl hop_key. simpl hop_result. rewrite E. rewrite get_set_same. simpl.
  repeat split.
  - assumption.
  - intros Herr. destruct (errc_eqb (t_err t) ENone) eqn:Ee.
    + destruct (t_err t); simpl in Ee; try discriminate. contradiction.
    + simpl in H3. apply andb_prop in H3. destruct H3 as [A B].
      apply ostatus_eqb_eq in A. rewrite A. destruct (s_effs sh); [|discriminate].
      simpl. destruct (get w k); reflexivity.
  - intros n -> Hlt. apply Nat.ltb_lt in Hlt. rewrite Hlt in H0.
    destruct (t_err t); simpl in H0; try discriminate; reflexivity.
  - destruct (s_effs sh) as [|e [|e2 l]]; [congruence| |discriminate].
    apply andb_prop in H2. destruct H2 as [H2 _]. apply andb_prop in H2. destruct H2 as [_ H2].
    apply Nat.eqb_eq in H2. assumption.
  - destruct (s_effs sh) as [|e [|e2 l]]; [congruence| |discriminate].
    apply andb_prop in H2. destruct H2 as [_ H2].
    destruct (t_err t); simpl in H2; try discriminate; reflexivity.
  - intros [A B]. destruct (s_effs sh); [|discriminate].
    rewrite A, B in H2. simpl in H2. discriminate.
  - apply Nat.leb_le. assumption.
  - intros k' Hne. apply get_set_other. congruence.
Qed.

(* two racing deliveries of one branch, every schedule of their statements *)
Theorem race_safe : forall row p1 p2 f1 f2 sched,
  let r := race row p1 p2 f1 f2 sched in
  done (r_t0 r) = true /\ done (r_t1 r) = true /\ s_owner (r_sh r) = None /\
  legal2 row (s_row (r_sh r)) (s_effs (r_sh r)) = true /\
  cnt_of (s_row (r_sh r)) = add_effs (cnt_of row) (s_effs (r_sh r)) /\
  (t_err (r_t0 r) <> ENone -> t_err (r_t1 r) <> ENone -> s_row (r_sh r) = row /\ s_effs (r_sh r) = []).
Proof.
  intros row p1 p2 f1 f2 sched. cbv zeta.
  pose proof (race_ok_all row p1 p2 f1 f2 sched) as H. unfold race_ok, race_ok_r, thread_ok in H.
  repeat rewrite andb_true_iff in H.
  destruct H as ((((((D0 & _) & (D1 & _)) & O) & L) & _) & F).
  repeat split; try assumption.
  - destruct (s_owner (r_sh (race row p1 p2 f1 f2 sched))); [discriminate|reflexivity].
  - apply legal2_cnt. assumption.
  - destruct (t_err (r_t0 (race row p1 p2 f1 f2 sched))); try contradiction;
    destruct (t_err (r_t1 (race row p1 p2 f1 f2 sched))); try contradiction; simpl in F;
    apply andb_prop in F; destruct F as [A _]; apply ostatus_eqb_eq in A; assumption.
  - destruct (t_err (r_t0 (race row p1 p2 f1 f2 sched))); try contradiction;
    destruct (t_err (r_t1 (race row p1 p2 f1 f2 sched))); try contradiction; simpl in F;
    apply andb_prop in F; destruct F as [_ B];
    destruct (s_effs (r_sh (race row p1 p2 f1 f2 sched))); try discriminate; reflexivity.
Qed.
