(* C16 — executable model of the proxy driver's routing (conn.go, conn_at.go, conn_xa.go, stmt.go,
   exec/at/at_executor.go).  A program is a list of user-level operations; for every operation the
   model gives the LANGUAGE of driver-level journals (statements reaching the database + coordinator
   messages) the proxy may produce, as pattern lists over tokens; replies (success, non-empty result)
   are read from the journal itself.  The routing tables come from coq/Gen/AtDispatch.v, regenerated
   from the source on every run.  Definitions only; proofs are in ProxyProofs.v. *)
From Coq Require Import String List Bool NArith.
From SeataV Require Import Gen.AtDispatch.
Import ListNotations.
Open Scope N_scope.
Open Scope list_scope.

(* ---------------------------------------------------------------- tokens *)
(* tag, call succeeded, result set non-empty *)
Definition ev := (N * bool * bool)%type.
Definition tBegin := 1.   Definition tCommit := 2.   Definition tRollback := 3.   Definition tIso := 4.
Definition tExec := 10.   Definition tQuery := 11.   Definition tPrepare := 12.
Definition tStmtExec := 13. Definition tStmtQuery := 14.
Definition tImg := 20.    Definition tSp := 21.      Definition tUndoP := 22.  Definition tUndo := 23.
Definition tAux := 24.    (* auxiliary read of the insert executor: SHOW VARIABLES LIKE 'auto_increment_increment' *)
Definition tReg := 30.    Definition tReport := 31.  Definition tLockQ := 32.  Definition tTcOther := 39.
Definition tOther := 99.

Definition ev_tag (e : ev) : N := fst (fst e).
Definition ev_nz (e : ev) : bool := snd e.

Definition pat := (N * option bool * option bool)%type.
Definition optb (o : option bool) (b : bool) : bool :=
  match o with None => true | Some x => Bool.eqb x b end.
Definition m1 (p : pat) (e : ev) : bool :=
  let '(t, o, n) := p in let '(t', o', n') := e in N.eqb t t' && optb o o' && optb n n'.
Fixpoint mall (ps : list pat) (es : list ev) : bool :=
  match ps, es with
  | [], [] => true
  | p :: ps', e :: es' => m1 p e && mall ps' es'
  | _, _ => false
  end.

Definition ev_eqb (a b : ev) : bool :=
  let '(t, o, n) := a in let '(t', o', n') := b in N.eqb t t' && Bool.eqb o o' && Bool.eqb n n'.
Fixpoint evs_eqb (a b : list ev) : bool :=
  match a, b with
  | [], [] => true
  | x :: a', y :: b' => ev_eqb x y && evs_eqb a' b'
  | _, _ => false
  end.

(* what the property allows the AT proxy to add inside a global transaction: image (and metadata)
   SELECTs, the savepoint of a locking read, the undo-log insert, coordinator messages, and — around an
   autocommit statement — the local transaction bracket (BEGIN ... COMMIT, or BEGIN ... ROLLBACK when the target
   answered driver.ErrSkip and database/sql carries on with a prepared statement) *)
Definition is_extra (bracket : bool) (e : ev) : bool :=
  let t := ev_tag e in
  N.eqb t tImg || N.eqb t tSp || N.eqb t tUndoP || N.eqb t tUndo || N.eqb t tAux ||
  N.eqb t tReg || N.eqb t tReport || N.eqb t tLockQ || N.eqb t tTcOther ||
  (bracket && (N.eqb t tBegin || N.eqb t tCommit || N.eqb t tRollback)).
Definition erase_extra (bracket : bool) (es : list ev) : list ev :=
  filter (fun e => negb (is_extra bracket e)) es.
Definition is_tc (e : ev) : bool :=
  let t := ev_tag e in N.eqb t tReg || N.eqb t tReport || N.eqb t tLockQ || N.eqb t tTcOther.

(* ---------------------------------------------------------------- routing (from the generated table) *)
Inductive exkind := ExPlain | ExInsert | ExUpdate | ExDelete | ExSfu | ExUpsert | ExMulti | ExUnknown.

Definition kind_of_ctor (s : string) : exkind :=
  if String.eqb s "NewPlainExecutor" then ExPlain
  else if String.eqb s "NewInsertExecutor" then ExInsert
  else if String.eqb s "NewUpdateExecutor" then ExUpdate
  else if String.eqb s "NewDeleteExecutor" then ExDelete
  else if String.eqb s "NewSelectForUpdateExecutor" then ExSfu
  else if String.eqb s "NewInsertOnUpdateExecutor" then ExUpsert
  else if String.eqb s "NewMultiExecutor" then ExMulti
  else ExUnknown.

Record cfg := {
  c_parse_fail : string; c_outside : string; c_tag : string; c_switch : list (string * string);
  c_default : string; c_tail : string; c_plain : string;
  c_forwards : list (string * list string); c_guards : list (string * list string) }.

Definition gen_cfg : cfg := {|
  c_parse_fail := at_parse_fail; c_outside := at_outside_ctor; c_tag := at_switch_tag; c_switch := at_switch;
  c_default := at_default_ctor; c_tail := at_tail; c_plain := plain_body;
  c_forwards := forwards; c_guards := guards |}.

Fixpoint assoc {A} (k : string) (l : list (string * A)) : option A :=
  match l with
  | [] => None
  | (k', v) :: l' => if String.eqb k k' then Some v else assoc k l'
  end.
Fixpoint mem_str (s : string) (l : list string) : bool :=
  match l with [] => false | x :: l' => String.eqb s x || mem_str s l' end.
Fixpoint strs_eqb (a b : list string) : bool :=
  match a, b with
  | [], [] => true
  | x :: a', y :: b' => String.eqb x y && strs_eqb a' b'
  | _, _ => false
  end.

Definition forward_is (c : cfg) (m : string) (calls : list string) : bool :=
  match assoc m (c_forwards c) with Some l => strs_eqb l calls | None => false end.
Definition guard_has (c : cfg) (f : string) (conj : string) : bool :=
  match assoc f (c_guards c) with Some l => mem_str conj l | None => false end.

(* the source has the shape the model describes: outside a global transaction the plain executor, whose
   body is the callback on the unchanged query and arguments; a parse failure outside passes through;
   every proxy method forwards its own parameters, unchanged and in order, to the target exactly once;
   the local bracket and the xid binding are guarded by tm.IsGlobalTx(ctx) *)
Definition cfg_ok (c : cfg) : bool :=
  String.eqb (c_parse_fail c) "passthrough-outside" &&
  String.eqb (c_outside c) "NewPlainExecutor" &&
  String.eqb (c_tag c) "queryParser.SQLType" &&
  String.eqb (c_tail c) "return executor.ExecContext(ctx, f)" &&
  String.eqb (c_plain c) "{ return f(ctx, u.execContext.Query, u.execContext.NamedValues) }" &&
  forward_is c "Conn.ExecContext" ["targetConn.ExecContext(ctx, query, args)"] &&
  forward_is c "Conn.QueryContext" ["conn.QueryContext(ctx, query, args)"] &&
  forward_is c "Conn.PrepareContext" ["conn.PrepareContext(ctx, query)"] &&
  forward_is c "Conn.BeginTx" ["conn.BeginTx(ctx, opts)"] &&
  forward_is c "Conn.ResetSession" ["conn.ResetSession(ctx)"] &&
  forward_is c "Conn.Close" ["c.targetConn.Close()"] &&
  forward_is c "Stmt.ExecContext" ["stmt.ExecContext(ctx, args)"] &&
  forward_is c "Stmt.QueryContext" ["stmt.QueryContext(ctx, args)"] &&
  forward_is c "Stmt.NumInput" ["s.stmt.NumInput()"] &&
  forward_is c "Stmt.Close" ["s.stmt.Close()"] &&
  guard_has c "ATConn.createOnceTxContext" "tm.IsGlobalTx(ctx)" &&
  guard_has c "ATConn.createNewTxOnExecIfNeed" "tm.IsGlobalTx(ctx)" &&
  guard_has c "ATConn.BeginTx" "tm.IsGlobalTx(ctx)" &&
  guard_has c "XAConn.createOnceTxContext" "tm.IsGlobalTx(ctx)" &&
  guard_has c "XAConn.createNewTxOnExecIfNeed" "tm.IsGlobalTx(ctx)" &&
  guard_has c "XAConn.BeginTx" "!tm.IsGlobalTx(ctx)".

Definition route (c : cfg) (gtx : bool) (ty : string) : exkind :=
  if negb gtx then kind_of_ctor (c_outside c)
  else match assoc ty (c_switch c) with
       | Some k => kind_of_ctor k
       | None => kind_of_ctor (c_default c)
       end.

(* ---------------------------------------------------------------- programs *)
Inductive opk :=
| OStmt (ty : string) (query : bool)   (* ty: the types.SQLType constant the repository's parser assigns *)
| OBegin | OCommit | ORollback.

Record op := {
  o_k : opk;
  o_conn : N;      (* 0 = the pool *)
  o_gtx : bool;    (* the operation's context carries an xid (irrelevant for commit / rollback) *)
  o_ok : bool;     (* the caller saw success *)
  o_prep : bool;   (* the caller prepared the statement (PrepareContext + Stmt.Exec/Query) *)
  o_vp : bool }.   (* bound arguments while the DSN has interpolateParams off: the target answers
                      driver.ErrSkip to the direct call and database/sql prepares the statement *)

Inductive proxy := AT | XA.

(* ---------------------------------------------------------------- the bare driver *)
Definition direct_tag (query : bool) : N := if query then tQuery else tExec.
Definition stmt_tag (query : bool) : N := if query then tStmtQuery else tStmtExec.

(* database/sql over the driver: a statement is one EXEC/QUERY, or PREPARE [+ STMT_EXEC/STMT_QUERY]
   (explicit Prepare, or the driver answered ErrSkip); a failing call may stop before the database *)
Definition bare_accepts (o : op) (obs : list ev) : bool :=
  match o_k o with
  | OStmt _ q =>
      (negb (o_ok o) && mall [] obs) ||
      mall [(direct_tag q, Some (o_ok o), None)] obs ||
      (negb (o_ok o) && mall [(tPrepare, None, None)] obs) ||
      mall [(tPrepare, Some true, None); (stmt_tag q, Some (o_ok o), None)] obs
  | OBegin => (negb (o_ok o) && mall [] obs) || mall [(tBegin, Some (o_ok o), None)] obs ||
              mall [(tIso, Some true, None); (tBegin, Some (o_ok o), None)] obs   (* a non-default isolation level is its own statement *)
  | OCommit => (negb (o_ok o) && mall [] obs) || mall [(tCommit, Some (o_ok o), None)] obs
  | ORollback => (negb (o_ok o) && mall [] obs) || mall [(tRollback, Some (o_ok o), None)] obs
  end.

(* ---------------------------------------------------------------- the AT proxy inside a global transaction *)
Definition is_dml (k : exkind) : bool :=
  match k with ExInsert | ExUpdate | ExDelete | ExUpsert => true | _ => false end.

Definition has_aux (obs : list ev) : bool := existsb (fun e => N.eqb (ev_tag e) tAux) obs.

Definition img_nz (obs : list ev) : bool :=
  match find (fun e => N.eqb (ev_tag e) tImg) obs with Some e => ev_nz e | None => false end.

(* undo rows exist for a statement: UPDATE/DELETE with a non-empty before image, every INSERT *)
Definition has_undo (k : exkind) (nz : bool) : bool :=
  match k with ExInsert | ExUpsert => true | ExUpdate | ExDelete => nz | _ => false end.

Definition ok1 (t : N) : pat := (t, Some true, None).

(* the business statement as the target sees it inside the branch: the direct call, or — bound arguments
   while interpolateParams is off: the target answers driver.ErrSkip — PREPARE + STMT_EXEC/STMT_QUERY *)
Definition biz (vp q : bool) : list pat :=
  if vp then [ok1 tPrepare; ok1 (stmt_tag q)] else [ok1 (direct_tag q)].

(* image queries count once, however they are issued (directly, or prepared after ErrSkip) *)
Definition core (k : exkind) (vp q nz aux : bool) : option (list pat) :=
  let bz := biz vp q in
  match k with
  | ExPlain => Some bz
  | ExUpdate => Some ([(tImg, Some true, Some nz)] ++ bz ++ (if nz then [ok1 tImg] else []))
  | ExDelete => Some ([(tImg, Some true, Some nz)] ++ bz)
  | ExInsert => Some (bz ++ (if aux then [ok1 tAux] else []) ++ [(tImg, Some true, Some true)])   (* also REPLACE *)
  | ExUpsert => Some ([ok1 tImg] ++ bz ++ [ok1 tImg])
  | ExSfu => Some ([ok1 tSp; ok1 tImg] ++ bz ++ [ok1 tLockQ])
  | _ => None
  end.

Definition undo_pats (u : bool) : list pat := if u then [ok1 tUndoP; ok1 tUndo] else [].

(* an autocommit statement: local bracket, phase one inside it *)
Definition bracketed (k : exkind) (vp q nz aux : bool) : option (list pat) :=
  match core k vp q nz aux with
  | None => None
  | Some c =>
      Some ([ok1 tBegin] ++ c ++
            (if is_dml k then [ok1 tReg] ++ undo_pats (has_undo k nz) ++ [ok1 tCommit; ok1 tReport]
             else [ok1 tCommit]))
  end.

(* explicit transactions by connection: begun with a context WITHOUT an xid (a local transaction: no
   branch, whatever contexts its statements run with), or with one: (some DML executor ran, some
   statement produced undo rows) *)
Inductive txk := TxL | TxG (d z : bool).
Definition txs := list (N * txk).
Fixpoint tx_get (c : N) (s : txs) : option txk :=
  match s with [] => None | (c', v) :: s' => if N.eqb c c' then Some v else tx_get c s' end.
Fixpoint tx_del (c : N) (s : txs) : txs :=
  match s with [] => [] | (c', v) :: s' => if N.eqb c c' then tx_del c s' else (c', v) :: tx_del c s' end.
Definition all_local (s : txs) : bool :=
  forallb (fun x => match snd x with TxL => true | TxG _ _ => false end) s.

Definition commit_pats (d z : bool) : list pat :=
  (if d then [ok1 tReg] else []) ++ undo_pats z ++ [ok1 tCommit] ++ (if d then [ok1 tReport] else []).

(* a statement the caller prepared, run with an xid context: Stmt.QueryContext / Stmt.ExecContext reach
   the target statement without bracket, images or lock query (plain statements and locking reads;
   prepared DML is a listed finding) *)
Definition prep_pats (k : exkind) (q : bool) : option (list pat) :=
  match k with
  | ExPlain | ExSfu => Some [ok1 tPrepare; ok1 (stmt_tag q)]
  | _ => None
  end.

(* is the local bracket the proxy's own (autocommit statement with an xid context)? *)
Definition is_bracket (s : txs) (o : op) : bool :=
  match o_k o with
  | OStmt _ _ => o_gtx o && match tx_get (o_conn o) s with None => true | Some _ => false end
  | _ => false
  end.

(* the XA proxy, autocommit statement on the pool with an xid context: registration, XA START, the
   statement, XA END, XA PREPARE (the branch protocol itself is C17's subject) *)
Definition xa_pats (q : bool) : list pat :=
  [ok1 tReg; ok1 tOther; ok1 (direct_tag q); ok1 tOther; ok1 tOther].

Definition accept (ps : option (list pat)) (obs : list ev) (s' : txs) : option txs :=
  match ps with Some l => if mall l obs then Some s' else None | None => None end.

(* one operation: None = the journal is not one the model allows (or the operation is outside the
   modelled class: executor kinds upsert/multi, a failing statement with an xid context, an autocommit
   statement with an xid context on a pinned connection, a direct locking read with an xid context inside a
   local transaction, DML the caller prepared, executor kind multi) *)
Definition step (c : cfg) (px : proxy) (s : txs) (o : op) (obs : list ev) : option txs :=
  if negb (cfg_ok c) then None else
  match o_k o with
  | OStmt ty q =>
      if negb (o_gtx o) then
        match route c false ty with
        | ExPlain => if bare_accepts o obs then Some s else None
        | _ => None
        end
      else if negb (o_ok o) then None
      else match px with
      | XA =>
          match tx_get (o_conn o) s with
          | None => if N.eqb (o_conn o) 0 && negb (o_vp o) && negb (o_prep o) then accept (Some (xa_pats q)) obs s else None
          | Some _ => None
          end
      | AT =>
          let k := route c true ty in
          let nz := img_nz obs in
          if o_prep o then accept (prep_pats k q) obs s else
          match tx_get (o_conn o) s with
          | None =>
              if negb (N.eqb (o_conn o) 0) then None
              else accept (bracketed k (o_vp o) q nz (has_aux obs)) obs s
          | Some TxL =>
              match k with ExSfu => None
                         | _ => accept (core k (o_vp o) q nz (has_aux obs)) obs s end
          | Some (TxG d z) =>
              accept (core k (o_vp o) q nz (has_aux obs)) obs
                     ((o_conn o, TxG (d || is_dml k) (z || has_undo k nz)) :: tx_del (o_conn o) s)
          end
      end
  | OBegin =>
      if negb (o_gtx o) then
        if bare_accepts o obs
        then Some (if o_ok o then (o_conn o, TxL) :: tx_del (o_conn o) s else s)
        else None
      else match px, tx_get (o_conn o) s with
           | AT, None => if o_ok o then accept (Some [ok1 tBegin]) obs ((o_conn o, TxG false false) :: s) else None
           | _, _ => None
           end
  | OCommit =>
      match tx_get (o_conn o) s with
      | Some (TxG d z) =>
          match px with
          | AT => if o_ok o then accept (Some (commit_pats d z)) obs (tx_del (o_conn o) s) else None
          | XA => None
          end
      | _ => if bare_accepts o obs then Some (tx_del (o_conn o) s) else None
      end
  | ORollback =>
      match tx_get (o_conn o) s with
      | Some (TxG _ _) =>
          match px with
          | AT => if o_ok o then accept (Some [ok1 tRollback]) obs (tx_del (o_conn o) s) else None
          | XA => None
          end
      | _ => if bare_accepts o obs then Some (tx_del (o_conn o) s) else None
      end
  end.

Fixpoint run (c : cfg) (px : proxy) (s : txs) (l : list (op * list ev)) : bool :=
  match l with
  | [] => true
  | (o, obs) :: l' => match step c px s o obs with Some s' => run c px s' l' | None => false end
  end.

(* the journals with the allowed extras erased, along the same run *)
Fixpoint erased (c : cfg) (s : txs) (l : list (op * list ev)) : list (op * list ev) :=
  match l with
  | [] => []
  | (o, obs) :: l' =>
      (o, erase_extra (is_bracket s o) obs) ::
      match step c AT s o obs with Some s' => erased c s' l' | None => [] end
  end.

Fixpoint run_state (c : cfg) (px : proxy) (s : txs) (l : list (op * list ev)) : option txs :=
  match l with
  | [] => Some s
  | (o, obs) :: l' => match step c px s o obs with Some s' => run_state c px s' l' | None => None end
  end.

Definition bare_run (l : list (op * list ev)) : bool := forallb (fun x => bare_accepts (fst x) (snd x)) l.
Definition no_gtx (l : list (op * list ev)) : bool := forallb (fun x => negb (o_gtx (fst x))) l.
Definition journal (l : list (op * list ev)) : list ev := concat (map snd l).
