(* C16 — proofs about the proxy routing model. *)
From Coq Require Import String List Bool NArith Lia.
From SeataV Require Import Gen.AtDispatch Proxy.ProxyModel.
Import ListNotations.
Open Scope N_scope.
Open Scope list_scope.

(* ---------------------------------------------------------------- the generated table has the modelled shape *)
Lemma cfg_ok_gen : cfg_ok gen_cfg = true.
Proof. vm_compute. reflexivity. Qed.

Lemma route_out : forall ty, route gen_cfg false ty = ExPlain.
Proof. intro. vm_compute. reflexivity. Qed.

(* ---------------------------------------------------------------- pattern inversion *)
Lemma mall_nil : forall es, mall [] es = true -> es = [].
Proof. destruct es; simpl; congruence. Qed.

Lemma mall_cons : forall p ps es, mall (p :: ps) es = true ->
  exists e es', es = e :: es' /\ m1 p e = true /\ mall ps es' = true.
Proof.
  intros p ps [|e es] H; simpl in H; try discriminate.
  apply andb_prop in H. destruct H. eauto.
Qed.

Lemma optb_some : forall a b, optb (Some a) b = true -> b = a.
Proof. intros a b H. simpl in H. apply eqb_prop in H. congruence. Qed.

Lemma m1_inv : forall t o n e, m1 (t, o, n) e = true ->
  exists o' n', e = (t, o', n') /\ optb o o' = true /\ optb n n' = true.
Proof.
  intros t o n [[t' o'] n'] H. unfold m1 in H.
  apply andb_prop in H. destruct H as [H Hn]. apply andb_prop in H. destruct H as [Ht Ho].
  apply N.eqb_eq in Ht. subst. eauto.
Qed.

Local Arguments mall : simpl never.
Local Arguments m1 : simpl never.

Ltac inv_m1 H :=
  let o' := fresh "o" in let n' := fresh "n" in let E := fresh "E" in let Ho := fresh "Ho" in let Hn := fresh "Hn" in
  apply m1_inv in H; destruct H as (o' & n' & E & Ho & Hn); subst;
  try (apply optb_some in Ho; subst); try (apply optb_some in Hn; subst);
  try clear Ho; try clear Hn.

Ltac inv_mall H :=
  repeat match type of H with
  | mall [] _ = true => apply mall_nil in H; subst
  | mall (_ :: _) _ = true =>
      let e := fresh "e" in let es := fresh "es" in let H1 := fresh "M" in
      apply mall_cons in H; destruct H as (e & es & ? & H1 & H); subst; unfold ok1 in H1; inv_m1 H1
  end.

(* ---------------------------------------------------------------- outside a global transaction *)
Definition quiet (obs : list ev) : bool := forallb (fun e => negb (is_extra false e)) obs.

Lemma bare_quiet : forall o obs, bare_accepts o obs = true -> quiet obs = true.
Proof.
  intros [k c g okf pp vp] obs H. unfold bare_accepts in H. cbn [o_k o_ok] in H.
  destruct k as [ty q| | |]; repeat (apply orb_prop in H; destruct H as [H|H]);
    try (apply andb_prop in H; destruct H as [_ H]);
    try destruct q; unfold direct_tag, stmt_tag in H; inv_mall H; reflexivity.
Qed.

Lemma quiet_app : forall a b, quiet (a ++ b) = quiet a && quiet b.
Proof. intros. unfold quiet. apply forallb_app. Qed.

Lemma quiet_erase : forall obs, quiet obs = true -> erase_extra false obs = obs.
Proof.
  induction obs as [|e obs IH]; simpl; intro H; [reflexivity|].
  apply andb_prop in H. destruct H as [He Ho]. unfold erase_extra in *. simpl. rewrite He. f_equal. auto.
Qed.

Lemma all_local_del : forall c s, all_local s = true -> all_local (tx_del c s) = true.
Proof.
  induction s as [|[c' v] s IH]; simpl; intro H; [reflexivity|].
  apply andb_prop in H. destruct H as [H1 H2]. destruct (N.eqb c c'); simpl; [auto|]. rewrite H1. auto.
Qed.

Lemma all_local_get : forall c s, all_local s = true -> tx_get c s = None \/ tx_get c s = Some TxL.
Proof.
  induction s as [|[c' v] s IH]; simpl; intro H; [left; reflexivity|].
  apply andb_prop in H. destruct H as [H1 H2]. destruct (N.eqb c c'); [|auto].
  destruct v; [right; reflexivity|discriminate].
Qed.

(* from a state without an open branch transaction, an operation whose context carries no xid is
   answered exactly as the bare driver answers it, and the state stays such *)
Lemma step_local : forall px s o obs, all_local s = true -> o_gtx o = false ->
  exists s', all_local s' = true /\
    step gen_cfg px s o obs = if bare_accepts o obs then Some s' else None.
Proof.
  intros px s [k c g okf pp vp] obs L Hg. simpl in Hg. subst g.
  unfold step. rewrite cfg_ok_gen. cbn [negb o_k o_gtx o_conn o_ok].
  destruct k as [ty q| | |].
  - rewrite route_out. exists s. split; [assumption|reflexivity].
  - exists (if okf then (c, TxL) :: tx_del c s else s). split; [|reflexivity].
    destruct okf; [|assumption]. simpl. apply all_local_del. assumption.
  - exists (tx_del c s). split; [apply all_local_del; assumption|].
    destruct (all_local_get c s L) as [E|E]; rewrite E; reflexivity.
  - exists (tx_del c s). split; [apply all_local_del; assumption|].
    destruct (all_local_get c s L) as [E|E]; rewrite E; reflexivity.
Qed.

Theorem outside_same_local : forall px l s, all_local s = true -> no_gtx l = true ->
  run gen_cfg px s l = bare_run l.
Proof.
  induction l as [|[o obs] l IH]; intros s L H; [reflexivity|].
  simpl in H. apply andb_prop in H. destruct H as [Hg Hl]. apply negb_true_iff in Hg.
  destruct (step_local px s o obs L Hg) as (s' & L' & E).
  simpl. rewrite E. unfold bare_run in *. simpl.
  destruct (bare_accepts o obs); simpl; auto.
Qed.

Theorem outside_same : forall px l, no_gtx l = true -> run gen_cfg px [] l = bare_run l.
Proof. intros. apply outside_same_local; auto. Qed.

Lemma run_app : forall c px l1 l2 s,
  run c px s (l1 ++ l2) = match run_state c px s l1 with Some s' => run c px s' l2 | None => false end.
Proof.
  induction l1 as [|[o obs] l1 IH]; intros l2 s; [reflexivity|].
  cbn [app run run_state]. destruct (step c px s o obs); auto.
Qed.

(* after a global transaction has ended (no branch transaction is left open), the proxy is again the
   identity, whatever ran before on the same connections *)
Theorem after_same : forall px pre l s',
  run_state gen_cfg px [] pre = Some s' -> all_local s' = true -> no_gtx l = true ->
  run gen_cfg px [] (pre ++ l) = bare_run l.
Proof.
  intros px pre l s' R L N. rewrite run_app, R. apply outside_same_local; assumption.
Qed.

Theorem outside_quiet : forall l, bare_run l = true -> quiet (journal l) = true.
Proof.
  induction l as [|[o obs] l IH]; intro H; [reflexivity|].
  unfold bare_run in H. simpl in H. apply andb_prop in H. destruct H as [H1 H2].
  unfold journal. simpl. rewrite quiet_app. fold (journal l).
  rewrite (bare_quiet _ _ H1). simpl. apply IH. exact H2.
Qed.

(* ---------------------------------------------------------------- the extras are the only difference *)
Lemma bare_erase : forall o obs, bare_accepts o obs = true -> bare_accepts o (erase_extra false obs) = true.
Proof. intros o obs H. rewrite quiet_erase; [assumption|]. eapply bare_quiet; eauto. Qed.

Ltac accept_inv H :=
  unfold accept in H;
  match type of H with
  | (if mall ?ps ?obs then _ else _) = _ => let M := fresh "M" in destruct (mall ps obs) eqn:M; [|discriminate]
  end.

(* erasure acts on tags only, so it can be done on the patterns *)
Definition pat_tag (p : pat) : N := fst (fst p).
Definition erase_pats (b : bool) (ps : list pat) : list pat :=
  filter (fun p => negb (is_extra b (pat_tag p, true, true))) ps.

Lemma m1_tag : forall p e, m1 p e = true -> ev_tag e = pat_tag p.
Proof.
  intros [[t o] n] [[t' o'] n'] H. unfold m1 in H.
  apply andb_prop in H. destruct H as [H _]. apply andb_prop in H. destruct H as [H _].
  apply N.eqb_eq in H. unfold ev_tag, pat_tag. simpl. symmetry. exact H.
Qed.

Lemma is_extra_tag : forall b e p, ev_tag e = pat_tag p -> is_extra b e = is_extra b (pat_tag p, true, true).
Proof. intros b e p H. unfold is_extra. rewrite H. reflexivity. Qed.

Lemma mall_erase : forall b ps obs, mall ps obs = true -> mall (erase_pats b ps) (erase_extra b obs) = true.
Proof.
  induction ps as [|p ps IH]; intros [|e obs] H; try (simpl in H; discriminate); [reflexivity|].
  change (m1 p e && mall ps obs = true) in H. apply andb_prop in H. destruct H as [H1 H2].
  unfold erase_pats, erase_extra. simpl filter.
  rewrite (is_extra_tag b e p (m1_tag _ _ H1)).
  destruct (is_extra b (pat_tag p, true, true)); simpl negb; cbv iota.
  - apply IH. exact H2.
  - change (m1 p e && mall (erase_pats b ps) (erase_extra b obs) = true). rewrite H1. simpl. apply IH. exact H2.
Qed.

(* finish: H is an accepted pattern list; the goal is the bare language on the erased journal *)
Ltac by_erase H b :=
  accept_inv H;
  match goal with
  | M : mall ?ps ?obs = true |- _ =>
      apply (mall_erase b) in M; cbv -[mall erase_extra] in M;
      unfold bare_accepts; cbv -[mall erase_extra];
      rewrite M; repeat (match goal with |- context [mall ?p ?x] => destruct (mall p x) end); reflexivity
  end.

Lemma step_extra : forall s o obs s',
  step gen_cfg AT s o obs = Some s' ->
  bare_accepts o (erase_extra (is_bracket s o) obs) = true.
Proof.
  intros s [k c g okf pp vp] obs s' H.
  unfold step in H. rewrite cfg_ok_gen in H. cbn [negb o_k o_gtx o_conn o_ok o_vp o_prep] in H.
  unfold is_bracket. cbn [o_k o_gtx o_conn].
  destruct k as [ty q| | |].
  - (* statement *)
    destruct g; cbn [negb andb] in H |- *.
    + destruct okf; cbn [negb] in H; [|discriminate].
      destruct pp.
      { destruct (route gen_cfg true ty); simpl in H; try discriminate; destruct q;
          destruct (tx_get c s) as [[|d z]|]; by_erase H true || by_erase H false. }
      destruct (tx_get c s) as [[|d z]|] eqn:Tx.
      * destruct (route gen_cfg true ty); try discriminate; destruct vp; destruct (img_nz obs); destruct (has_aux obs); destruct q;
          simpl in H; try discriminate; by_erase H false.
      * destruct (route gen_cfg true ty); destruct vp; destruct (img_nz obs); destruct (has_aux obs); destruct q;
          simpl in H; try discriminate; by_erase H false.
      * destruct (N.eqb c 0); cbn [negb] in H; [|discriminate].
        destruct (route gen_cfg true ty); destruct vp; destruct (img_nz obs); destruct (has_aux obs); destruct q;
          simpl in H; try discriminate; by_erase H true.
    + rewrite route_out in H.
      destruct (bare_accepts {| o_k := OStmt ty q; o_conn := c; o_gtx := false; o_ok := okf; o_prep := pp; o_vp := vp |} obs) eqn:B; [|discriminate].
      apply bare_erase. assumption.
  - (* begin *)
    destruct g; cbn [negb] in H.
    + destruct (tx_get c s); [discriminate|]. destruct okf; [|discriminate]. by_erase H false.
    + destruct (bare_accepts {| o_k := OBegin; o_conn := c; o_gtx := false; o_ok := okf; o_prep := pp; o_vp := vp |} obs) eqn:B; [|discriminate].
      apply bare_erase. assumption.
  - (* commit *)
    destruct (tx_get c s) as [[|d z]|].
    + destruct (bare_accepts {| o_k := OCommit; o_conn := c; o_gtx := g; o_ok := okf; o_prep := pp; o_vp := vp |} obs) eqn:B; [|discriminate].
      apply bare_erase. assumption.
    + destruct okf; [|discriminate]. destruct d; destruct z; by_erase H false.
    + destruct (bare_accepts {| o_k := OCommit; o_conn := c; o_gtx := g; o_ok := okf; o_prep := pp; o_vp := vp |} obs) eqn:B; [|discriminate].
      apply bare_erase. assumption.
  - (* rollback *)
    destruct (tx_get c s) as [[|d z]|].
    + destruct (bare_accepts {| o_k := ORollback; o_conn := c; o_gtx := g; o_ok := okf; o_prep := pp; o_vp := vp |} obs) eqn:B; [|discriminate].
      apply bare_erase. assumption.
    + destruct okf; [|discriminate]. by_erase H false.
    + destruct (bare_accepts {| o_k := ORollback; o_conn := c; o_gtx := g; o_ok := okf; o_prep := pp; o_vp := vp |} obs) eqn:B; [|discriminate].
      apply bare_erase. assumption.
Qed.

Theorem extra_only : forall l s, run gen_cfg AT s l = true -> bare_run (erased gen_cfg s l) = true.
Proof.
  induction l as [|[o obs] l IH]; intros s H; [reflexivity|].
  simpl in H. simpl. destruct (step gen_cfg AT s o obs) as [s'|] eqn:St; [|discriminate].
  unfold bare_run. simpl. fold (bare_run (erased gen_cfg s' l)). rewrite (IH _ H), andb_true_r.
  eapply step_extra; eauto.
Qed.

Theorem erased_are_extras : forall b obs e, In e obs -> In e (erase_extra b obs) \/ is_extra b e = true.
Proof.
  intros b obs e H. destruct (is_extra b e) eqn:E; [right; reflexivity|left].
  unfold erase_extra. apply filter_In. split; [assumption|]. rewrite E. reflexivity.
Qed.

(* ---------------------------------------------------------------- results: a backend that cannot see the extras *)
Section Backend.
  Variables (B call reply : Type).
  Variable bstep : B -> call -> B * reply.
  Variable sim : B -> B -> Prop.       (* equal as far as business statements can tell (undo_log and locks aside) *)
  Variable extra : call -> bool.       (* image SELECTs, savepoints, undo-log insert, the local bracket *)
  Hypothesis sim_trans : forall a b c, sim a b -> sim b c -> sim a c.
  Hypothesis extra_sim : forall b c, extra c = true -> sim (fst (bstep b c)) b.
  Hypothesis biz_cong : forall b1 b2 c, extra c = false -> sim b1 b2 ->
    snd (bstep b1 c) = snd (bstep b2 c) /\ sim (fst (bstep b1 c)) (fst (bstep b2 c)).

  (* final state and the replies to the business calls *)
  Fixpoint exec (b : B) (cs : list call) : B * list reply :=
    match cs with
    | [] => (b, [])
    | c :: cs' =>
        let '(b', r) := bstep b c in
        let '(bf, rs) := exec b' cs' in
        (bf, if extra c then rs else r :: rs)
    end.

  Theorem transparent_results : forall cs b1 b2, sim b1 b2 ->
    snd (exec b1 cs) = snd (exec b2 (filter (fun c => negb (extra c)) cs)) /\
    sim (fst (exec b1 cs)) (fst (exec b2 (filter (fun c => negb (extra c)) cs))).
  Proof.
    induction cs as [|c cs IH]; intros b1 b2 S; [simpl; auto|].
    simpl. destruct (extra c) eqn:E; simpl.
    - pose proof (extra_sim b1 c E) as S1.
      destruct (bstep b1 c) as [b1' r1] eqn:B1. simpl in S1.
      specialize (IH b1' b2 (sim_trans _ _ _ S1 S)).
      destruct (exec b1' cs) as [bf rs]. simpl in *. exact IH.
    - destruct (biz_cong b1 b2 c E S) as [R S'].
      destruct (bstep b1 c) as [b1' r1] eqn:B1. destruct (bstep b2 c) as [b2' r2] eqn:B2. simpl in R, S'. subst r2.
      specialize (IH b1' b2' S').
      destruct (exec b1' cs) as [bf rs]. destruct (exec b2' (filter (fun c0 => negb (extra c0)) cs)) as [bf' rs'].
      simpl in *. rewrite E. simpl. destruct IH as [IH1 IH2]. split; [congruence|assumption].
  Qed.
End Backend.

(* non-vacuity of the backend hypotheses: a store of business cells and an undo counter *)
Definition toy_call := (bool * N * N)%type.            (* (is extra, cell, value) *)
Definition toy_step (b : (N -> N) * N) (c : toy_call) : ((N -> N) * N) * N :=
  let '(x, k, v) := c in
  if x then ((fst b, snd b + 1), 0)                          (* an extra: touches only the undo counter *)
  else ((fun j => if N.eqb j k then v else fst b j, snd b), fst b k).   (* a write returning the old value *)
Definition toy_sim (a b : (N -> N) * N) : Prop := forall j, fst a j = fst b j.

Lemma toy_backend :
  (forall a b c, toy_sim a b -> toy_sim b c -> toy_sim a c) /\
  (forall b c, fst (fst c) = true -> toy_sim (fst (toy_step b c)) b) /\
  (forall b1 b2 c, fst (fst c) = false -> toy_sim b1 b2 ->
     snd (toy_step b1 c) = snd (toy_step b2 c) /\ toy_sim (fst (toy_step b1 c)) (fst (toy_step b2 c))).
Proof.
  repeat split.
  - intros a b c H1 H2 j. rewrite H1. apply H2.
  - intros b [[x k] v] E j. simpl in E. subst. reflexivity.
  - destruct c as [[x k] v]. simpl in H. subst. simpl. apply H0.
  - destruct c as [[x k] v]. simpl in H. subst. simpl. intro j. simpl. destruct (N.eqb j k); [reflexivity|apply H0].
Qed.
