(* C16 — correspondence of the routing model with observed runs (evaluated with vm_compute by
   lib/checks/c16.py): the AT / XA / bare journals of every generated program must be accepted by the
   model, the AT journal minus the allowed extras must equal the bare journal, and the caller-visible
   results must be equal. *)
From Coq Require Import String List Bool NArith.
From SeataV Require Import Gen.AtDispatch Proxy.ProxyModel.
Import ListNotations.
Open Scope N_scope.
Open Scope list_scope.

Record pstep := {
  ps_op : op;
  ps_at : list ev;            (* tokenised journal window of the AT proxy run *)
  ps_bare : list ev;          (* the same of the bare-driver run *)
  ps_xa : list ev;            (* the same of the XA proxy run (programs without a global transaction) *)
  ps_same : bool }.           (* rows, affected count, generated id, error class equal in all runs *)

Record pcase := { pc_xa : bool; pc_clean : bool; pc_steps : list pstep }.

Definition with_obs (f : pstep -> list ev) (l : list pstep) : list (op * list ev) :=
  map (fun s => (ps_op s, f s)) l.

Fixpoint same_journals (a b : list (op * list ev)) : bool :=
  match a, b with
  | [], [] => true
  | (_, x) :: a', (_, y) :: b' => evs_eqb x y && same_journals a' b'
  | _, _ => false
  end.

(* 1: the AT journal is not one the model allows; 2: the bare journal is not in the model's language of
   database/sql over the driver; 3: the XA journal (outside) is not; 4: the AT journal minus the allowed
   extras differs from the bare journal; 5: caller-visible results differ; 6: the table regenerated from
   the source does not have the modelled shape *)
Definition check_case (c : pcase) : list N :=
  let l := pc_steps c in
  (if cfg_ok gen_cfg then [] else [6]) ++
  (if negb (pc_clean c) || run gen_cfg AT [] (with_obs ps_at l) then [] else [1]) ++
  (if bare_run (with_obs ps_bare l) then [] else [2]) ++
  (if negb (pc_xa c) || run gen_cfg XA [] (with_obs ps_xa l) then [] else [3]) ++
  (if negb (pc_clean c) || same_journals (erased gen_cfg [] (with_obs ps_at l)) (with_obs ps_bare l) then [] else [4]) ++
  (if negb (pc_clean c) || forallb ps_same l then [] else [5]).

Fixpoint mism_from (i : nat) (l : list pcase) : list (nat * N) :=
  match l with
  | [] => []
  | c :: l' => map (fun e => (i, e)) (check_case c) ++ mism_from (S i) l'
  end.
Definition mismatches (l : list pcase) : list (nat * N) := mism_from 0 l.
