(* C07 — propagation modes and transaction context are honoured across nesting and
   RPC.  Statements only; proofs in Tm/TmTreeProofs.v (structural induction over scope
   trees, generic in the code shape), Tm/TmGo.v (instantiated at the shape regenerated
   from pkg/tm/transaction_executor.go) and Tm/CarrierProofs.v.

   A program is a tree `Scope mode id shared kids outcome` of nested WithGlobalTx calls of
   ANY depth and width; `shared` = called with the parent's context (local call), else
   with a fresh context carrying only the xid (remote call).  spec_scope is the documented
   semantics, written without a context variable, roles or a second phase machinery:
   join / begin an own transaction / run without / fail, by mode and by whether a
   transaction is current.  okw w = the coordinator answers every request with ok and the
   context is never cancelled. *)
From Coq Require Import List NArith Bool String.
From SeataV Require Import Tm.TmModel Gen.TmShape Tm.TmProofs Tm.TmTreeProofs Tm.TmGo.
From SeataV Require Import Base.Bytes Tm.Carrier Tm.CarrierProofs.
Import ListNotations.
Open Scope N_scope.

Theorem C07_code_shape : shape_ok go_shape = true.
Proof. exact go_shape_ok. Qed.

(* requests, the xid each callback sees and every returned class, in order, are those of
   the documented semantics *)
Theorem C07_trace : forall cf t w v w' v' res es,
  okw w -> run_scope go_shape cf t w v = (w', v', res, es) ->
  project es = fst (spec_scope t (g_xid v) (w_next w)).
Proof. exact go_c07_trace. Qed.

Theorem C07_requests : forall cf t w v w' v' res es,
  okw w -> run_scope go_shape cf t w v = (w', v', res, es) ->
  reqs_of (project es) = reqs_of (fst (spec_scope t (g_xid v) (w_next w))).
Proof. exact go_c07_requests. Qed.

Theorem C07_sees_xid : forall cf t w v w' v' res es,
  okw w -> run_scope go_shape cf t w v = (w', v', res, es) ->
  sees_of (project es) = sees_of (fst (spec_scope t (g_xid v) (w_next w))).
Proof. exact go_c07_sees_xid. Qed.

(* under ANY coordinator behaviour and cancellation: when a scope ends the caller's
   context variable (xid, role, name) is what it was, and whatever a callback sees after
   one of its children returned is what it saw on entry *)
Theorem C07_outer_intact : forall cf t w v w' v' res es,
  run_scope go_shape cf t w v = (w', v', res, es) ->
  v' = v /\ forall id x ro nm, In (EAfter id x ro nm) es -> In (EEnter id x ro nm) es.
Proof. exact go_c07_outer_intact. Qed.

(* a transaction that is current when a program starts (joined locally or carried in by
   an RPC integration) is never committed nor rolled back by that program, whatever its
   scopes do *)
Theorem C07_never_ends_joined : forall cf t w v w' v' res es,
  okw w -> g_xid v < w_next w ->
  run_scope go_shape cf t w v = (w', v', res, es) ->
  forall rep, ~ In (EReq (QCommit (g_xid v)) rep) es /\ ~ In (EReq (QRollback (g_xid v)) rep) es.
Proof. exact go_c07_never_ends_joined. Qed.

(* under ANY coordinator behaviour, retry setting and cancellation: every commit/rollback a
   program sends names a transaction the program itself began (an xid the coordinator handed
   out during the run); in particular never the transaction that was current on entry *)
Theorem C07_ends_only_own : forall cf t w v w' v' res es,
  run_scope go_shape cf t w v = (w', v', res, es) ->
  w_next w <= w_next w' /\ xid_range (w_next w) (w_next w') (sp_xids es).
Proof. exact go_c07_ends_only_own. Qed.

Theorem C07_never_ends_joined_any_coordinator : forall cf t w v w' v' res es,
  g_xid v < w_next w ->
  run_scope go_shape cf t w v = (w', v', res, es) ->
  ~ In (g_xid v) (sp_xids es).
Proof. exact go_c07_never_ends_joined_any. Qed.

(* the defect that was repaired: without the restore the very same model loses the outer commit *)
Theorem C07_without_restore_refuted :
  let '(_, v', _, es) := run_scope unrestored_shape {| cf_commit_retry := 2; cf_rollback_retry := 2 |}
                                   nested_required (init_world [] ROk None) no_ctx in
  reqs_of (project es) = [QBegin 1] /\
  reqs_of (fst (spec_scope nested_required 0 1)) = [QBegin 1; QCommit 1] /\ v' <> no_ctx.
Proof. exact go_c07_without_restore_refuted. Qed.

(* non-vacuity: the always-ok coordinator exists, and a depth-3 program in which an inner
   RequiresNew suspends the outer transaction, fails and is rolled back while a Mandatory
   grandchild joins it and the outer transaction is still committed *)
Example C07_nonvacuous_world : okw (init_world [] ROk None).
Proof. exact okw_init. Qed.

Example C07_nonvacuous_tree :
  let t := Scope Required 1 true
             [Scope RequiresNew 2 true [Scope Mandatory 3 false [] ONil] OErr;
              Scope Never 4 true [] ONil;
              Scope NotSupported 5 true [Scope Required 6 true [] ONil] ONil] ONil in
  let '(_, v', res, es) := run_scope go_shape {| cf_commit_retry := 1; cf_rollback_retry := 1 |} t
                                     (init_world [] ROk None) no_ctx in
  reqs_of (project es) = [QBegin 1; QBegin 2; QRollback 2; QBegin 6; QCommit 3; QCommit 1] /\
  sees_of (project es) = [(1, 1); (2, 2); (3, 2); (5, 0); (6, 3)] /\ res = RNilC /\ v' = no_ctx.
Proof. vm_compute. auto. Qed.

(* ---- the xid through the gRPC, gin and dubbo integrations (Tm/Carrier.v: the key the
   sender writes, the transport's key normalisation, multi-valued / wrapped / ill-typed values,
   the receiver's lookups in their order) *)

(* a header set under key k, whatever the shape of its value (a string, a list of strings as
   gRPC/HTTP multi-values or the triple protocol's wrapped attachment, or another type),
   arrives as the callee's xid exactly when k is an accepted spelling, and then it is the
   (first) string held, byte for byte; otherwise the callee sees no transaction *)
Theorem C07_carrier_single : forall c k v,
  carried c [(k, v)] = if accepted c k then hd [] (vals v) else [].
Proof. exact carried_single. Qed.

Theorem C07_carrier_wrapped : forall c k x, accepted c k = true ->
  carried c [(k, AStr x)] = x /\ carried c [(k, AList [x])] = x.
Proof. exact carrier_accepted. Qed.

(* sender half followed by receiver half is the identity on every non-empty xid, for ALL
   headers the outgoing context / request / invocation already holds: other keys, the same
   key with an older value, other spellings, wrapped or ill-typed values *)
Theorem C07_carrier_roundtrip : forall c pre x, x <> [] -> carried c (inject c x pre) = x.
Proof. exact carrier_roundtrip. Qed.

(* a sender WITHOUT a transaction (no transaction, or suspended by NotSupported / Never scopes):
   whatever xid keys its outgoing context still holds, under any spelling and shape, the callee
   sees NO transaction -- gRPC and HTTP.  The dubbo filter forwards such attachments unchanged
   (finding carrier.dubbo.no-tx-stale-attachment): refuted, with the partial statement *)
Theorem C07_carrier_no_transaction : forall c pre, c <> Dubbo -> carried c (inject c [] pre) = [].
Proof. exact carrier_no_transaction. Qed.

Theorem C07_carrier_no_transaction_dubbo_refuted : exists pre, carried Dubbo (inject Dubbo [] pre) <> [].
Proof. exact carrier_no_transaction_dubbo_refuted. Qed.

Theorem C07_carrier_no_transaction_dubbo_partial : forall pre,
  carried Dubbo pre = [] -> carried Dubbo (inject Dubbo [] pre) = [].
Proof. exact carrier_no_transaction_dubbo_partial. Qed.

(* every upper/lower-case spelling of TX_XID is accepted by the gRPC and gin receivers *)
Theorem C07_carrier_case_spellings : forall k, lower k = k_tx_xid ->
  accepted Grpc k = true /\ accepted Gin k = true.
Proof. exact case_spellings_accepted. Qed.

Example C07_carrier_nonvacuous :
  accepted Dubbo (bytes_of_string "seata_xid") = true /\ accepted Gin (bytes_of_string "tX_xId") = true /\
  accepted Grpc (bytes_of_string "TX-XID") = false /\
  carried Gin [(bytes_of_string "tX_xId", AStr (bytes_of_string "10.0.0.1:8091:42"))] = bytes_of_string "10.0.0.1:8091:42" /\
  carried Dubbo (inject Dubbo (bytes_of_string "new")
                   [(bytes_of_string "seata_xid", AStr (bytes_of_string "stale")); (k_TX_XID, AList [bytes_of_string "stale"])])
    = bytes_of_string "new" /\
  carried Grpc [(bytes_of_string "Tx_Xid", AList [bytes_of_string "a"; bytes_of_string "b"]); (k_tx_xid, AStr (bytes_of_string "c"))]
    = bytes_of_string "a".
Proof. vm_compute. auto 10. Qed.
