(* C17 — XA branches follow the XA protocol; phase two addresses the prepared branch.
   Statements only; proofs live in Xa/XaProofs.v.  `journal E p` is everything that
   reached the coordinator and the database when program p (autocommit statements of
   global transactions on fresh connections, local statements, phase-two deliveries on
   the holding process or on a stranger) runs under environment E (xids, assigned
   branch ids, registration refusals, a fault script per command kind, server family). *)
From Coq Require Import String List NArith Bool.
From SeataV Require Import Base.Bytes Xa.XaModel Xa.XaProofs.
Import ListNotations.
Open Scope N_scope.

(* one autocommit branch on a free session, for EVERY combination of failures, the branch
   timeout included: the commands ISSUED are START stmt* END PREPARE or a failure prefix
   START stmt* [END] ROLLBACK — each legal where it is issued, none rejected by the server
   (a second XA ROLLBACK of an already rolled back branch, answered XAER_NOTA, counts as a no-op).
   The run-level statement over all programs is C17_accepted_legal below. *)
Theorem C17_legal : forall detach slow fS fM fE rE fE2 rE2 fP fR fR2,
  (rE = false -> fE = true -> fE2 = false \/ rE2 = true) ->
  let '(t, d, kept, o, act) := auto_local detach false slow fS fM fE rE fE2 rE2 fP fR fR2 in
  exists s, legal_from S0 t = Some s /\ agree s d /\ (is_prepared d = true -> kept = true).
Proof. exact auto_local_legal. Qed.

(* phase two: a PREPARED branch finished on the connection the keeper names (or, detached, on a
   free one), or a rollback request for a registered branch that never started: legal, and the
   command is the one for the REQUEST's identifier (do_p2 builds xa_id of the request) *)
Theorem C17_legal_phase2 : forall detach f d kept busy commit s,
  agree s d ->
  (is_prepared d = true /\ (attached d = true -> kept = true) /\ (attached d = false -> busy = false))
  \/ (d = None /\ s = S0 /\ commit = false) ->
  let '(cr, d') := p2_local detach f d kept busy commit in
  exists s', legal_from s [cr] = Some s' /\ agree s' d'.
Proof. exact p2_local_legal. Qed.

(* for ALL programs (fresh and pool-reused connections, timeouts, phase two for prepared and for
   failed-START branches, holder and stranger), ALL fault scripts and refusals: the commands the
   server ACCEPTED for an identifier stay in the prefix closure of
   START stmt* END PREPARE (COMMIT|ROLLBACK) | START stmt* END ROLLBACK,
   in particular never COMMIT without a successful PREPARE *)
Theorem C17_accepted_legal : forall E p id,
  uniq_bid E -> id <> [] -> accepted_legal (cmds_of id (journal E p)) = true.
Proof. exact accepted_all. Qed.

Theorem C17_commit_needs_prepare : forall E p id,
  uniq_bid E -> id <> [] ->
  In (COMMIT, ROk) (cmds_of id (journal E p)) -> In (PREPARE, ROk) (cmds_of id (journal E p)).
Proof. exact commit_needs_prepare. Qed.

(* the identifier is a function of (xid, branch id), injective on ALL byte strings and
   numbers; phase two rebuilds it with the same function (do_p2 / xaIDBuilder) *)
Theorem C17_ident_injective : forall x1 b1 x2 b2,
  xa_id x1 b1 = xa_id x2 b2 -> x1 = x2 /\ b1 = b2.
Proof. exact xa_id_inj. Qed.

(* decode (encode (xid, b)) = (xid, b) for every uint64 branch id *)
Theorem C17_ident_roundtrip : forall x b, b <= max_u64 ->
  dec_xid (enc_gtrid x) = x /\ dec_branch (enc_bqual b) = b.
Proof. exact ident_roundtrip. Qed.

(* every XA START carries xa_id of the registration accepted immediately before it;
   a refused registration is followed by no XA START *)
Theorem C17_reg_first : forall E p, reg_first (journal E p) = true.
Proof. exact reg_first_all. Qed.

(* one autocommit branch (the function do_auto runs), for EVERY combination of failures at
   START / statement / END / second END / PREPARE / ROLLBACK / second ROLLBACK, busy or free
   session, timed out or not, both server families: never a COMMIT; success is reported exactly
   when the branch is prepared after START stmt END PREPARE; any failure before a successful
   PREPARE returns an error, and, when the compensating commands are not made to fail as well,
   leaves the branch rolled back (or never started). The hypothesis `slow -> fR = false` is the
   listed finding xa.timeout.rollback-fault (C17_timeout_refuted). *)
Theorem C17_failure : forall detach busy slow fS fM fE rE fE2 rE2 fP fR fR2,
  let '(t, d, kept, o, act) := auto_local detach busy slow fS fM fE rE fE2 rE2 fP fR fR2 in
  (o = OOk \/ o = OErr) /\
  ~ In (COMMIT, ROk) t /\
  ((slow = true -> fR = false) ->
     (o = OOk <-> is_prepared d = true) /\
     (o = OOk -> t = [(START, ROk); (STMT, ROk); (END_, ROk); (PREPARE, ROk)])) /\
  ((slow = true -> fR = false) -> (busy || slow || fS || fM || fE || rE || fP) = true -> o = OErr) /\
  (* rE / rE2: XA END meets a rollback-only branch (XA_RB* error, branch left IDLE): rolled back like any failure *)
  ((busy || slow || fS || fM || fE || rE || fP) = true -> fR = false -> (rE = false -> fE = true -> fE2 = false \/ rE2 = true) ->
   (fM = true -> fE = false /\ rE = false) ->
     d = None /\ (fS = true \/ busy = true \/ In (ROLLBACK, ROk) t)).
Proof. exact auto_local_failure. Qed.

(* a timed-out branch returns an error to the caller, is rolled back, released, and inactive *)
Theorem C17_timeout : forall detach fE2 rE2 fP fR2,
  let '(t, d, kept, o, act) := auto_local detach false true false false false false fE2 rE2 fP false fR2 in
  o = OErr /\ d = None /\ kept = false /\ act = false /\
  exists r, t = [(START, ROk); (STMT, ROk); (END_, ROk); (ROLLBACK, ROk); (ROLLBACK, r)] /\ r <> ROk.
Proof. exact auto_local_timeout. Qed.

Theorem C17_timeout_refuted :
  exists detach fE2 fP,
    let '(t, d, kept, o, act) := auto_local detach false true false false false false fE2 false fP true false in
    o = OOk /\ is_prepared d = false /\ In (ROLLBACK, ROk) t.
Proof. exact auto_local_timeout_refuted. Qed.

(* the pool retiring a HELD connection touches nothing (Close keeps it for phase two), and a
   closed session never loses a PREPARED branch: what phase two after a retirement relies on *)
Theorem C17_retire_held : forall s c, c_kept (get_cst s c) = true ->
  s_brs (retire_conn s c) = s_brs s /\ s_jour (retire_conn s c) = s_jour s.
Proof. exact retire_held. Qed.

Theorem C17_closed_session_keeps_prepared : forall d, is_prepared (srv_kill d) = is_prepared d.
Proof. exact kill_keeps_prepared. Qed.

(* the two-phase timeout checker (servers >= 8.0.29) leaves a held connection alone while its
   branch is PREPARED within the hold time, and always while it is still in phase one; whatever it
   closes, a PREPARED branch stays PREPARED (C17_closed_session_keeps_prepared): committing or
   rolling back remains the coordinator's decision *)
Theorem C17_checker_hold : forall s c, c_pt (get_cst s c) = PPrep -> due s false c = false.
Proof. exact due_hold. Qed.

Theorem C17_checker_phase_one : forall s e c, c_pt (get_cst s c) = PZero -> due s e c = false.
Proof. exact due_phase_one. Qed.

(* ---- non-vacuity *)
Definition ex_env : env :=
  {| e_detach := false;
     e_xid := fun g => bytes_of_string (if Nat.eqb g 0 then "10.0.0.7:8091:77" else "a-1");
     e_bid := fun k => 100 + N.of_nat k;
     e_refuse := fun k => Nat.eqb k 3;
     e_fault := fun c n => match c, n with PREPARE, 1%nat => true | STMT, 6%nat => true | _, _ => false end;
     e_fbad := fun c n => match c, n with STMT, 6%nat => true | _, _ => false end;
     e_frb := fun _ => false |}.
Definition ex_prog : list op :=
  [OAuto 0 None false; OAuto 1 None false; OLocal; OPhase2 0 true false; OAuto 0 None false;
   OAuto 1 None false; OPhase2 4 false true;
   OAuto 1 (Some 1%nat) false;   (* the connection of the rolled-back branch, out of the pool again *)
   OAuto 0 None true;            (* branch timeout *)
   OPhase2 7 true false;
   ORetire 0;                    (* the pool retires the (held) connection of the committed branch *)
   OAuto 0 None false;           (* its statement fails with driver.ErrBadConn ... *)
   ORetry 0 false; ORetry 0 false  (* ... database/sql runs it again on a new connection *)].

Example C17_env_nonvacuous : uniq_bid ex_env /\ no_double_end ex_env.
Proof.
  split.
  - intros i j H. unfold ex_env in H. cbn [e_bid] in H. apply N.add_cancel_l in H. now apply Nnat.Nat2N.inj.
  - intros n H. reflexivity.
Qed.

(* the example run really commits one branch, rolls one back after a failed PREPARE, rolls one
   back in phase two through a stranger connection and has one refused registration *)
Example C17_run_nonvacuous :
  cmds_of (xa_id (e_xid ex_env 0) 100) (journal ex_env ex_prog)
    = [(START, ROk); (STMT, ROk); (END_, ROk); (PREPARE, ROk); (COMMIT, ROk)]
  /\ cmds_of (xa_id (e_xid ex_env 1) 101) (journal ex_env ex_prog)
    = [(START, ROk); (STMT, ROk); (END_, ROk); (PREPARE, RFault); (ROLLBACK, ROk)]
  /\ cmds_of (xa_id (e_xid ex_env 0) 102) (journal ex_env ex_prog)
    = [(START, ROk); (STMT, ROk); (END_, ROk); (PREPARE, ROk); (ROLLBACK, ROk)]
  /\ (* second branch on the pooled connection #2 after the rolled-back one; committed by phase two *)
     cmds_of (xa_id (e_xid ex_env 1) 104) (journal ex_env ex_prog)
    = [(START, ROk); (STMT, ROk); (END_, ROk); (PREPARE, ROk); (COMMIT, ROk)]
  /\ (* branch timeout *)
     cmds_of (xa_id (e_xid ex_env 0) 105) (journal ex_env ex_prog)
    = [(START, ROk); (STMT, ROk); (END_, ROk); (ROLLBACK, ROk); (ROLLBACK, RNota)]
  /\ (* driver.ErrBadConn at the statement: this attempt's branch is rolled back, the retry's is prepared *)
     cmds_of (xa_id (e_xid ex_env 0) 106) (journal ex_env ex_prog)
    = [(START, ROk); (STMT, RFault); (END_, ROk); (ROLLBACK, ROk)]
  /\ cmds_of (xa_id (e_xid ex_env 0) 107) (journal ex_env ex_prog)
    = [(START, ROk); (STMT, ROk); (END_, ROk); (PREPARE, ROk)]
  /\ outcomes ex_env ex_prog = [OOk; OErr; OOk; OP2 true; OOk; OErr; OP2 true; OOk; OErr; OP2 true;
                                OOk; OErrBad; OOk; OSkipped]
  /\ length (journal ex_env ex_prog) = 43%nat.
Proof. vm_compute. repeat split. Qed.

(* server >= 8.0.29: the checker within the hold time closes nothing, after it closes session 1;
   phase two then finishes the (detached) PREPARED branch on a new session *)
Example C17_checker_nonvacuous :
  let E := {| e_detach := true; e_xid := e_xid ex_env; e_bid := e_bid ex_env; e_refuse := fun _ => false;
              e_fault := fun _ _ => false; e_fbad := fun _ _ => false; e_frb := fun _ => false |} in
  let p := [OAuto 0 None false; OCheck false; OCheck true; OPhase2 0 true false] in
  outcomes E p = [OOk; OChk []; OChk [1%nat]; OP2 true]
  /\ cmds_of (xa_id (e_xid E 0) 100) (journal E p) = [(START, ROk); (STMT, ROk); (END_, ROk); (PREPARE, ROk); (COMMIT, ROk)]
  /\ In (ESql 2 COMMIT (xa_id (e_xid E 0) 100) ROk) (journal E p).
Proof. vm_compute. repeat split. auto 10. Qed.

(* a rollback-only branch at XA END: the error comes back, the branch is rolled back; a phase-two
   rollback on a process that does not hold the connection (server < 8.0.29) is refused and says so *)
Example C17_rollback_only_nonvacuous :
  let E := {| e_detach := false; e_xid := e_xid ex_env; e_bid := e_bid ex_env; e_refuse := fun _ => false;
              e_fault := fun c n => match c, n with END_, 0%nat => true | _, _ => false end;
              e_fbad := fun _ _ => false; e_frb := fun n => Nat.eqb n 0 |} in
  let p := [OAuto 0 None false; OAuto 1 None false; ORelease 1; OPhase2 1 false false] in
  outcomes E p = [OErr; OOk; OSkipped; OP2 false]
  /\ cmds_of (xa_id (e_xid E 0) 100) (journal E p) = [(START, ROk); (STMT, ROk); (END_, RRb); (END_, RRmfail); (ROLLBACK, ROk)]
  /\ cmds_of (xa_id (e_xid E 1) 101) (journal E p) = [(START, ROk); (STMT, ROk); (END_, ROk); (PREPARE, ROk); (ROLLBACK, RNota)]
  /\ legal_trace (cmds_of (xa_id (e_xid E 0) 100) (journal E p)) = true.
Proof. vm_compute. repeat split. Qed.

Example C17_ident_nonvacuous :
  xa_id (bytes_of_string "a-1") 23 = bytes_of_string "a-1-23"
  /\ xa_id (bytes_of_string "a-1-2") 3 = bytes_of_string "a-1-2-3"
  /\ dec_branch (enc_bqual 18446744073709551615) = 18446744073709551615.
Proof. vm_compute. repeat split. Qed.
