(* C17 — XA branches follow the XA protocol; phase two addresses the prepared branch.
   Statements only; proofs live in Xa/XaProofs.v.  `journal E p` is everything that
   reached the coordinator and the database when program p (autocommit statements of
   global transactions on fresh connections, local statements, phase-two deliveries on
   the holding process or on a stranger) runs under environment E (xids, assigned
   branch ids, registration refusals, a fault script per command kind, server family). *)
From Coq Require Import String List NArith Bool.
From SeataV Require Import Base.Bytes Xa.XaModel Xa.XaProofs.
Import ListNotations.
Open Scope N_scope.

(* for ALL programs, fault scripts and refusals: the commands ISSUED under one branch
   identifier are START stmt* END PREPARE (COMMIT|ROLLBACK) or a failure prefix
   START stmt* [END] ROLLBACK — each legal where it is issued, none rejected by the server *)
Theorem C17_legal : forall E p id,
  uniq_bid E -> no_double_end E -> id <> [] ->
  legal_trace (cmds_of id (journal E p)) = true.
Proof. exact legal_all. Qed.

(* no hypothesis on the fault script: the ACCEPTED commands of an identifier stay in the
   language's prefix closure, in particular never COMMIT without a successful PREPARE *)
Theorem C17_accepted_legal : forall E p id,
  uniq_bid E -> id <> [] -> accepted_legal (cmds_of id (journal E p)) = true.
Proof. exact accepted_all. Qed.

Theorem C17_commit_needs_prepare : forall E p id,
  uniq_bid E -> id <> [] ->
  In (COMMIT, ROk) (cmds_of id (journal E p)) -> In (PREPARE, ROk) (cmds_of id (journal E p)).
Proof. exact commit_needs_prepare. Qed.

(* the identifier is a function of (xid, branch id), injective on ALL byte strings and
   numbers; phase two rebuilds it with the same function (do_p2 / xaIDBuilder) *)
Theorem C17_ident_injective : forall x1 b1 x2 b2,
  xa_id x1 b1 = xa_id x2 b2 -> x1 = x2 /\ b1 = b2.
Proof. exact xa_id_inj. Qed.

(* decode (encode (xid, b)) = (xid, b) for every uint64 branch id *)
Theorem C17_ident_roundtrip : forall x b, b <= max_u64 ->
  dec_xid (enc_gtrid x) = x /\ dec_branch (enc_bqual b) = b.
Proof. exact ident_roundtrip. Qed.

(* every XA START carries xa_id of the registration accepted immediately before it;
   a refused registration is followed by no XA START *)
Theorem C17_reg_first : forall E p, reg_first (journal E p) = true.
Proof. exact reg_first_all. Qed.

(* one autocommit branch (the function do_auto runs), for EVERY combination of failures at
   START / statement / END / second END / PREPARE / ROLLBACK and both server families:
   success is reported exactly when the branch is prepared after START stmt END PREPARE;
   any failure before a successful PREPARE returns an error and never commits, and, when the
   compensating commands are not made to fail as well, leaves the branch rolled back *)
Theorem C17_failure : forall detach fS fM fE fE2 fP fR,
  let '(t, d, kept, o) := auto_local detach fS fM fE fE2 fP fR in
  (o = OOk <-> is_prepared d = true) /\
  (o = OOk -> t = [(START, ROk); (STMT, ROk); (END_, ROk); (PREPARE, ROk)]) /\
  (o = OOk \/ o = OErr) /\
  ((fS || fM || fE || fP) = true -> o = OErr /\ ~ In (COMMIT, ROk) t) /\
  ((fS || fM || fE || fP) = true -> fR = false -> (fE = true -> fE2 = false) -> (fM = true -> fE = false) ->
     d = None /\ (fS = true \/ last t (START, ROk) = (ROLLBACK, ROk))).
Proof. exact auto_local_failure. Qed.

(* ---- non-vacuity *)
Definition ex_env : env :=
  {| e_detach := false;
     e_xid := fun g => bytes_of_string (if Nat.eqb g 0 then "10.0.0.7:8091:77" else "a-1");
     e_bid := fun k => 100 + N.of_nat k;
     e_refuse := fun k => Nat.eqb k 3;
     e_fault := fun c n => match c, n with PREPARE, 1%nat => true | _, _ => false end |}.
Definition ex_prog : list op :=
  [OAuto 0; OAuto 1; OLocal; OPhase2 0 true false; OAuto 0; OAuto 1; OPhase2 4 false true].

Example C17_env_nonvacuous : uniq_bid ex_env /\ no_double_end ex_env.
Proof.
  split.
  - intros i j H. unfold ex_env in H. cbn [e_bid] in H. apply N.add_cancel_l in H. now apply Nnat.Nat2N.inj.
  - intros n H. reflexivity.
Qed.

(* the example run really commits one branch, rolls one back after a failed PREPARE, rolls one
   back in phase two through a stranger connection and has one refused registration *)
Example C17_run_nonvacuous :
  cmds_of (xa_id (e_xid ex_env 0) 100) (journal ex_env ex_prog)
    = [(START, ROk); (STMT, ROk); (END_, ROk); (PREPARE, ROk); (COMMIT, ROk)]
  /\ cmds_of (xa_id (e_xid ex_env 1) 101) (journal ex_env ex_prog)
    = [(START, ROk); (STMT, ROk); (END_, ROk); (PREPARE, RFault); (ROLLBACK, ROk)]
  /\ cmds_of (xa_id (e_xid ex_env 0) 102) (journal ex_env ex_prog)
    = [(START, ROk); (STMT, ROk); (END_, ROk); (PREPARE, ROk); (ROLLBACK, ROk)]
  /\ outcomes ex_env ex_prog = [OOk; OErr; OOk; OP2 true; OOk; OErr; OP2 true]
  /\ length (journal ex_env ex_prog) = 21%nat.
Proof. vm_compute. repeat split. Qed.

Example C17_ident_nonvacuous :
  xa_id (bytes_of_string "a-1") 23 = bytes_of_string "a-1-23"
  /\ xa_id (bytes_of_string "a-1-2") 3 = bytes_of_string "a-1-2-3"
  /\ dec_branch (enc_bqual 18446744073709551615) = 18446744073709551615.
Proof. vm_compute. repeat split. Qed.
