From SeataV Require Import Xa.XaModel.
Theorem C17_placeholder : True. Proof. exact I. Qed.
