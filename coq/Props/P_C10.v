(* C10 — branch rollback is idempotent and blocks a late phase one.
   Statements only; proofs in At/RollbackC10.v. *)
From Coq Require Import List NArith ZArith Bool.
From SeataV Require Import Base.Bytes At.Db At.RollbackKinds Gen.UndoFlow At.Rollback At.RollbackProofs At.RollbackC10.
Import ListNotations.

(* n >= 1 clean deliveries (n = S m) of the rollback of a branch whose first delivery succeeds: every
   answer is 'rollbacked'; the tables and every other branch's undo row are those after the first
   delivery; no normal undo row of the branch is left (a repeated delivery finds no log and leaves the
   GlobalFinished marker, as a first delivery without a log does). For ALL states and branches. *)
Theorem C10_idem : forall cfg d x n,
  let r1 := rollback_branch cfg None d x in
  r_out r1 = status_ok ->
  let '(dn, sts) := deliver cfg (repeat None (S n)) d x in
  Forall (eq status_ok) sts /\ length sts = S n /\ d_tabs dn = d_tabs (r_db r1) /\ no_normal x dn /\
  (forall y, y <> x -> ulookup y (d_undo dn) = ulookup y (d_undo (r_db r1))).
Proof. exact idem. Qed.

(* a database failure at ANY call k of the rollback transaction that is reached: the durable state is
   exactly what it was (tables and undo log), the answer is not 'rollbacked', the local transaction is
   ended, the connection released; the clean retry is then literally the single clean rollback *)
Theorem C10_no_partial : forall cfg k d x,
  let r := rollback_branch cfg (Some k) d x in
  r_fired r = true ->
  r_db r = d /\ r_out r <> status_ok /\ r_tx_open r = false /\ r_conn_released r = true /\
  rollback_branch cfg None (r_db r) x = rollback_branch cfg None d x.
Proof. exact no_partial. Qed.

(* a failure position beyond the calls the rollback makes is no failure *)
Theorem C10_unreached_fault : forall cfg f d x,
  let r := rollback_branch cfg f d x in
  r_fired r = false -> r_db r = r_db (rollback_branch cfg None d x) /\ r_out r = r_out (rollback_branch cfg None d x).
Proof. exact no_fault_clean. Qed.

(* a rollback that finds no undo log answers 'rollbacked', changes no table and leaves the
   GlobalFinished marker; whatever local transaction that branch then tries to commit, the undo log and
   the durable tables stay as they are (a commit only goes through when there was nothing to flush) *)
Theorem C10_marker : forall cfg d x ss,
  ulookup x (d_undo d) = None ->
  let r := rollback_branch cfg None d x in
  r_out r = status_ok /\ d_tabs (r_db r) = d_tabs d /\ ulookup x (d_undo (r_db r)) = Some marker /\
  let '(d2, committed) := phase1_branch cfg x ss (r_db r) in
  d_undo d2 = d_undo (r_db r) /\ db_equiv (d_tabs d2) (d_tabs (r_db r)) /\
  (committed = true ->
   exists imgs, run_stmts (c_only_care cfg) ss (d_tabs d) = Some (d_tabs d2, imgs) /\ forallb image_empty imgs = true).
Proof. exact marker_blocks. Qed.

(* two deliveries of the same rollback racing (or a delivery against any holder of a row lock): the
   loser's call k fails on the lock; it changes nothing, is not answered 'rollbacked', ends its
   transaction, and every later sequence of deliveries behaves as if it had never run *)
Theorem C10_race_loser : forall cfg k d x fs,
  let r := rollback_branch cfg (Some k) d x in
  r_fired r = true ->
  r_db r = d /\ r_out r <> status_ok /\ r_tx_open r = false /\
  deliver cfg fs (r_db r) x = deliver cfg fs d x.
Proof. exact race_loser. Qed.

(* the first call of every delivery can fail: the fault quantifier is never empty *)
Theorem C10_fault_reachable : forall cfg d x, r_fired (rollback_branch cfg (Some 0%nat) d x) = true.
Proof. exact fault_zero_fires. Qed.

(* ---- non-vacuity ---- *)
Definition ex_tn : tablename := [Byte.x74].
Definition ex_d0 : dbs :=
  {| d_tabs := [(ex_tn, [([VInt 1], [VInt 10]); ([VInt 2], [VInt 20])])]; d_undo := [] |}.
Definition ex_cfg : config := {| c_validation := true; c_only_care := true |}.
Definition ex_ss : list stmt := [SUpdate ex_tn (Some [true]) [([VInt 1], [VInt 11])]; SDelete ex_tn [[VInt 2]]].

Example C10_idem_nonvacuous :
  let '(d1, ok) := phase1_branch ex_cfg (1, 1)%N ex_ss ex_d0 in
  ok = true /\ r_out (rollback_branch ex_cfg None d1 (1, 1)%N) = status_ok /\
  let '(d3, sts) := deliver ex_cfg [None; None; None] d1 (1, 1)%N in
  sts = [status_ok; status_ok; status_ok] /\ d_tabs d3 = d_tabs ex_d0 /\ d_undo d3 = [((1, 1)%N, marker)].
Proof. vm_compute. repeat split; reflexivity. Qed.

Example C10_no_partial_nonvacuous :
  let '(d1, ok) := phase1_branch ex_cfg (1, 1)%N ex_ss ex_d0 in
  let r := rollback_branch ex_cfg (Some 7%nat) d1 (1, 1)%N in
  r_fired r = true /\ r_db r = d1 /\ r_out r = status_plain_error /\ r_ops (rollback_branch ex_cfg None d1 (1, 1)%N) = 12%nat.
Proof. vm_compute. repeat split; reflexivity. Qed.

Example C10_marker_nonvacuous :
  let r := rollback_branch ex_cfg None ex_d0 (1, 1)%N in
  let '(d2, committed) := phase1_branch ex_cfg (1, 1)%N ex_ss (r_db r) in
  committed = false /\ d_tabs d2 = d_tabs ex_d0.
Proof. vm_compute. repeat split; reflexivity. Qed.
