(* C05 — TCC branches are registered before try and dispatched faithfully in phase two.
   Statements only; model Tcc/TccModel.v + Tcc/Json.v, proofs Tcc/TccProofs.v. *)
From Coq Require Import String.
From Coq Require Import List ZArith NArith Bool.
From Coq.Strings Require Import Byte.
From SeataV Require Import Base.Bytes Tcc.Json Tcc.TccModel Tcc.TccProofs.
Import ListNotations.
Open Scope Z_scope.

(* json.Unmarshal into interface{} of json.Marshal of ANY Go value of the model (nil, bool, every
   integer, every float64, string, []byte, slices, maps, structs, nested arbitrarily) is the value's
   float64 normal form; hence JSON-equivalent values decode to the same thing *)
Theorem C05_roundtrip : forall v, decode (encode v) = norm v.
Proof. exact roundtrip. Qed.

Theorem C05_roundtrip_equiv : forall v w, json_equiv v w -> decode (encode v) = norm w.
Proof. exact roundtrip_equiv. Qed.

(* the normal form is idempotent, hence the literal statement: what comes back from JSON is
   JSON-equivalent (equal after the float64 normal form) to what went in, for all values *)
Theorem C05_norm_idempotent : forall v, norm (norm v) = norm v.
Proof. exact norm_idem. Qed.

Theorem C05_roundtrip_json_equiv : forall v, json_equiv (decode (encode v)) v.
Proof. exact roundtrip_json_equiv. Qed.

(* prepare inside a global transaction, for every action, xid, parameter struct and coordinator reply *)
Theorem C05_register_first : forall a xid fs r,
  let '(evs, ok) := prepare a true xid fs r in
  List.length (filter is_register evs) = 1%nat /\
  hd_error evs = Some (ERegister tcc_type (a_name a) xid (app_data a fs)) /\
  (forall b, r = ROk b -> evs = [ERegister tcc_type (a_name a) xid (app_data a fs); ETry (a_name a) b] /\ ok = true) /\
  ((forall b, r <> ROk b) -> filter is_try evs = [] /\ ok = false).
Proof. exact register_first. Qed.

(* several prepares with ONE context inside a global transaction (the same action again, or different
   actions): n prepares => n registrations; every try comes directly after the registration of its own
   action; as many tries as registrations that succeeded; the events are exactly, per prepare, its
   registration followed by its try iff the coordinator accepted *)
Theorem C05_register_first_seq : forall xid ps,
  let evs := prepare_seq true xid ps in
  List.length (filter is_register evs) = List.length ps /\
  paired evs = true /\
  List.length (filter is_try evs) = List.length (filter (fun p => reply_ok (snd p)) ps) /\
  evs = flat_map (fun p =>
          ERegister tcc_type (a_name (fst (fst p))) xid (app_data (fst (fst p)) (snd (fst p))) ::
          match snd p with ROk b => [ETry (a_name (fst (fst p))) b] | _ => [] end) ps.
Proof. exact register_first_seq. Qed.

(* the context the user's commit / rollback receives when the coordinator sends back the registered
   application data is the float64 normal form of the map captured at prepare *)
Theorem C05_context : forall a fs,
  exists c, ctx_of (AJson (app_data a fs)) = Some c /\ GMap c = norm (captured a fs).
Proof. exact context_equiv. Qed.

Theorem C05_context_json_equiv : forall a fs,
  exists c, ctx_of (AJson (app_data a fs)) = Some c /\ json_equiv (GMap c) (captured a fs).
Proof. exact context_json_equiv. Qed.

(* the table regenerated from TCCResourceManager.BranchCommit / BranchRollback and the processors in the
   CURRENT source (coq/Gen/TccTable.v): commit calls Commit with fence phase commit and maps success /
   user error / unreadable data to committed / retryable / retryable, rollback likewise, the processors
   stay silent exactly for the status an unknown resource gets, result codes failed = 0 / success = 1.
   phase2 below is driven by that table. *)
Theorem C05_table_recognised : table_expected = true.
Proof. exact table_ok. Qed.

Theorem C05_dispatch : forall reg q,
  (registered reg (q_resource q) = false -> phase2 reg q = []) /\
  (registered reg (q_resource q) = true ->
     forall ctx, ctx_of (q_app q) = Some ctx ->
       phase2 reg q =
         [EInvoke (q_resource q) (q_commit q) (q_xid q) (q_bid q) (q_resource q) ctx;
          ERespond (q_msgid q) (q_commit q) (q_xid q) (q_bid q)
                   (status_of (q_commit q) (q_user_fails q)) (code_of (q_user_fails q))]) /\
  (registered reg (q_resource q) = true -> ctx_of (q_app q) = None ->
     phase2 reg q = [ERespond (q_msgid q) (q_commit q) (q_xid q) (q_bid q)
                              (if q_commit q then st_commit_retry else st_rollback_retry) 0%N]) /\
  (status_of (q_commit q) (q_user_fails q) = (if q_commit q then st_committed else st_rollbacked)
     <-> q_user_fails q = false) /\
  (q_user_fails q = true ->
     status_of (q_commit q) (q_user_fails q) = (if q_commit q then st_commit_retry else st_rollback_retry)).
Proof. exact dispatch. Qed.

Theorem C05_dispatch_seq : forall reg qs,
  phase2_seq reg qs = flat_map (phase2 reg) qs /\
  (forall e, In e (phase2_seq reg qs) -> is_invoke e = true ->
     exists q, In q qs /\ registered reg (q_resource q) = true /\
               exists ctx, ctx_of (q_app q) = Some ctx /\
                 e = EInvoke (q_resource q) (q_commit q) (q_xid q) (q_bid q) (q_resource q) ctx) /\
  List.length (filter is_invoke (phase2_seq reg qs)) =
  List.length (filter (fun q => registered reg (q_resource q) &&
                           match ctx_of (q_app q) with Some _ => true | None => false end) qs).
Proof. exact dispatch_seq. Qed.

(* ---- non-vacuity ---------------------------------------------------------------------- *)
Example C05_roundtrip_nonvacuous :
  let v := GStruct [(bs "N", GInt 9007199254740993); (bs "B", GBytes [x00; xff; x10]);
                    (bs "M", GMap [(bs "k", GList [GFlt 5 (-1); GNil; GBool true])])] in
  decode (encode v) =
  GMap [(bs "B", GStr (bs "AP8Q")); (bs "M", GMap [(bs "k", GList [GFlt 5 (-1); GNil; GBool true])]);
        (bs "N", GFlt 1 53)] /\ norm v <> v.
Proof. vm_compute. split; [reflexivity|discriminate]. Qed.

Example C05_context_nonvacuous :
  let a := mkA (bs "act") (bs "Prepare") (bs "Commit") (bs "Rollback") in
  let fs := [mkF true (Some (bs "k")) (GInt 1); mkF true (Some (bs "k")) (GStr (bs "later wins"));
             mkF false (Some (bs "h")) (GInt 3); mkF true (Some (bs "-")) (GInt 4); mkF true None (GInt 5);
             mkF true (Some (bs "actionName")) (GStr (bs "overridden"))] in
  ctx_of (AJson (app_data a fs)) =
  Some [(bs "actionName", GStr (bs "act")); (bs "k", GStr (bs "later wins")); (bs "sys::commit", GStr (bs "Commit"));
        (bs "sys::prepare", GStr (bs "Prepare")); (bs "sys::rollback", GStr (bs "Rollback"))].
Proof. vm_compute. reflexivity. Qed.

(* "registration fails" includes every reply that is not an accepted registration: a failure result, a
   transport error and a malformed reply (nil, another message type, a pointer) - none of them lets try run *)
Example C05_register_first_malformed_nonvacuous :
  let a := mkA (bs "debit") (bs "Prepare") (bs "Commit") (bs "Rollback") in
  map (fun r => (List.length (filter is_try (fst (prepare a true (bs "x") [] r))), snd (prepare a true (bs "x") [] r)))
      [ROk 5; RFailCode; RError; RMalformed]
  = [(1%nat, true); (0%nat, false); (0%nat, false); (0%nat, false)].
Proof. vm_compute. reflexivity. Qed.

Example C05_register_first_seq_nonvacuous :
  let a := mkA (bs "debit") (bs "Prepare") (bs "Commit") (bs "Rollback") in
  let b := mkA (bs "credit") (bs "Try") (bs "Confirm") (bs "Cancel") in
  (* one transfer: the same action twice, another action in between, one registration refused *)
  map (fun e => match e with ERegister _ r _ _ => (r, 0) | ETry r n => (r, n) end)
      (prepare_seq true (bs "x") [(a, [], ROk 11); (b, [], RFailCode); (a, [], ROk 12)])
  = [(bs "debit", 0); (bs "debit", 11); (bs "credit", 0); (bs "debit", 0); (bs "debit", 12)].
Proof. vm_compute. reflexivity. Qed.

Example C05_dispatch_nonvacuous :
  let reg := [bs "act"; bs "other"] in
  (* a user method returning (false, nil) is a success; (true, error) is a failure *)
  phase2_seq reg [mkQ true (bs "act") (bs "x") 1 7 AEmpty false false; mkQ true (bs "act") (bs "x") 1 8 AEmpty true true;
                  mkQ false (bs "nosuch") (bs "x") 1 9 AEmpty false true] =
  [EInvoke (bs "act") true (bs "x") 1 (bs "act") []; ERespond 7 true (bs "x") 1 5%N 1%N;
   EInvoke (bs "act") true (bs "x") 1 (bs "act") []; ERespond 8 true (bs "x") 1 6%N 0%N].
Proof. vm_compute. reflexivity. Qed.

(* malformed application data really occurs in the model's domain and is answered, not dispatched *)
Example C05_malformed_nonvacuous :
  phase2 [bs "act"] (mkQ false (bs "act") (bs "x") 1 7 (AJson (JObj [(bs "actionContext", JNumZ 5)])) false true)
  = [ERespond 7 false (bs "x") 1 9%N 0%N] /\
  phase2 [bs "act"] (mkQ true (bs "act") (bs "x") 1 7 AGarbage false true) = [ERespond 7 true (bs "x") 1 6%N 0%N].
Proof. vm_compute. split; reflexivity. Qed.
