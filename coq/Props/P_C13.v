(* C13 — the frame reader survives any fragmentation of the byte stream.
   Statements only; the model is Frame/FrameModel.v (RpcPackageHandler.Read /
   Write, encodeHeapMap / decodeHeapMap, getty's handleTCPPackage loop), the
   proofs live in Frame/FrameProofs.v. *)
From Coq Require Import List NArith Bool.
From Coq.Strings Require Import Byte.
From SeataV Require Import Base.Bytes Frame.FrameModel Frame.FrameProofs.
Import ListNotations.
Open Scope N_scope.

(* a written frame followed by ANY bytes reads back as the message (heart-beat
   bodies dropped, as Write drops them), consuming exactly the frame *)
Theorem C13_frame_exact : forall m rest,
  wf_msg m = true ->
  frame_read (frame_write m ++ rest) = RMsg (canon_msg m) (len (frame_write m)).
Proof. exact frame_exact. Qed.

(* every strict prefix of a frame (cuts inside the 16-byte header and inside the
   head map included): "need more data" — no message, no error, nothing consumed
   (pump leaves the buffer untouched on RNeed) *)
Theorem C13_frame_prefix : forall m p,
  wf_msg m = true ->
  (exists q, q <> [] /\ frame_write m = p ++ q) ->
  exists hint, frame_read p = RNeed hint.
Proof. exact frame_prefix. Qed.

(* THE stream theorem: any sequence of frames, cut into reads in any way at all
   (empty reads too): the receive loop delivers exactly the messages, in order,
   and nothing else (no Close, no Spin) *)
Theorem C13_stream_any_partition : forall ms chunks,
  Forall (fun m => wf_msg m = true) ms ->
  concat chunks = flat_map frame_write ms ->
  drive chunks = map Deliver (map canon_msg ms).
Proof. exact FrameProofs.C13_stream_any_partition. Qed.

(* arbitrary bytes: Read terminates within the model's fuel and never returns a
   package of length < 16 (in particular never length 0) *)
Theorem C13_read_garbage : forall data,
  frame_read data <> RFuel /\ forall m n, frame_read data = RMsg m n -> 16 <= n.
Proof. exact frame_read_garbage. Qed.

(* arbitrary bytes in arbitrary chunks, from any buffer content: the transport
   loop never spins and never runs out of fuel *)
Theorem C13_no_spin : forall chunks buf,
  ~ In Spin (drive_from buf chunks) /\ ~ In OutOfFuel (drive_from buf chunks).
Proof. exact FrameProofs.C13_no_spin. Qed.

(* head maps, empty keys and empty values included, survive write/read *)
Theorem C13_headmap_roundtrip : forall h,
  forallb wf_entry h = true -> nodup_keys h = true ->
  decode_headmap (encode_headmap h) (len (encode_headmap h)) = Some h.
Proof. exact headmap_roundtrip. Qed.

(* the head-map loop terminates on any bytes and any declared length *)
Theorem C13_headmap_total : forall bs length, decode_headmap bs length <> None.
Proof. exact decode_headmap_total. Qed.

(* "need more data" ONLY for an incomplete frame: a complete, well-delimited frame at
   the head of the buffer (header there, magic right, 16 <= head length <= total length
   <= bytes available) is always delivered, whatever its body, consuming exactly its
   length — never answered need-more (the transport loop would stall with it) *)
Theorem C13_complete_frame_delivered : forall data,
  complete_frame data = true -> exists m, frame_read data = RMsg m (unbe (sub data 3 7)).
Proof. exact complete_frame_delivered. Qed.

Theorem C13_need_only_incomplete : forall data hint,
  frame_read data = RNeed hint -> complete_frame data = false.
Proof. exact need_only_incomplete. Qed.

(* the delivered message — decoded body included — is a function of the frame's OWN bytes:
   whatever follows a complete frame in the buffer (further frames, garbage, nothing), Read
   gives the same message and the same consumed length; so the deliveries cannot depend on
   where the stream happens to be cut, also for frames whose body is shorter than what its
   codec would like to read *)
Theorem C13_frame_bytes_only : forall f rest,
  complete_frame f = true -> len f = unbe (sub f 3 7) ->
  frame_read (f ++ rest) = frame_read f.
Proof. exact frame_bytes_only. Qed.

(* Read is a function of the bytes it is given (the model's frame_read takes nothing
   else): two connections served by the ONE handler instance, their receives interleaved
   in any order, one of them possibly dying mid-frame — each delivers exactly what it
   would deliver alone *)
Theorem C13_interleaving : forall sched,
  drive2 conn0 conn0 sched = (drive (chunks_of false sched), drive (chunks_of true sched)).
Proof. exact FrameProofs.C13_interleaving. Qed.

(* ---- non-vacuity: concrete non-trivial objects inside every hypothesis ---- *)
Definition ex_head : headmap :=
  [ ([x6b], [x76; x31]); ([], [x65]); ([x6e; x6f], []) ].   (* "k"->"v1", ""->"e", "no"->"" *)
Definition ex_msg1 : rpcmsg :=
  {| r_id := 4294967295; r_type := 0; r_codec := 1; r_compressor := 0;
     r_head := ex_head; r_body := [x00; x01; x00; x03; x61; x62; x63] |}.
Definition ex_msg2 : rpcmsg :=            (* heart-beat request, no head map *)
  {| r_id := 7; r_type := 3; r_codec := 1; r_compressor := 0; r_head := []; r_body := [] |}.
Definition ex_msg3 : rpcmsg :=            (* empty head map, non-empty body *)
  {| r_id := 8; r_type := 1; r_codec := 1; r_compressor := 0; r_head := [];
     r_body := [x00; x02; xff] |}.

Example C13_wf_nonvacuous :
  forallb wf_msg [ex_msg1; ex_msg2; ex_msg3] = true
  /\ forallb wf_entry ex_head = true /\ nodup_keys ex_head = true.
Proof. vm_compute. auto. Qed.

(* a three-frame stream cut inside the first header (3 bytes), inside the head
   map, with an empty read, and across a frame boundary *)
Example C13_stream_nonvacuous :
  let ms := [ex_msg1; ex_msg2; ex_msg3] in
  let s := flat_map frame_write ms in
  let chunks := [firstn 3 s; firstn 17 (skipn 3 s); []; firstn 25 (skipn 20 s); skipn 45 s] in
  concat chunks = s /\ length s = 76%nat
  /\ drive chunks = [Deliver ex_msg1; Deliver ex_msg2; Deliver ex_msg3].
Proof. vm_compute. auto. Qed.

Example C13_prefix_nonvacuous :
  let f := frame_write ex_msg1 in
  (exists q, q <> [] /\ f = firstn 5 f ++ q) /\ frame_read (firstn 5 f) = RNeed 0
  /\ frame_read (firstn 20 f) = RNeed 41.
Proof.
  vm_compute. split; [|auto]. eexists. split; [|reflexivity]. discriminate.
Qed.

(* garbage that reaches every exit of Read: bad magic, hostile lengths *)
Example C13_garbage_nonvacuous :
  frame_read [x00] = RErr
  /\ frame_read [xda] = RNeed 0
  /\ frame_read ([xda; xda; x01; x00; x00; x00; x10; x00; x0f] ++ repeat x00 7) = RErr
  /\ frame_read ([xda; xda; x01; x00; x00; x00; x0f; x00; x10] ++ repeat x00 7) = RErr
  /\ drive [[xda; xda]; [x01; x00]; [x00; x00; x10; x00; x0f] ++ repeat x00 7] = [Close].
Proof. vm_compute. auto 10. Qed.

(* connection A dies 20 bytes into its 41-byte frame; connection B's 16- and 19-byte
   frames, received in between, are delivered all the same *)
Example C13_interleaving_nonvacuous :
  let fa := frame_write ex_msg1 in let fb := frame_write ex_msg2 ++ frame_write ex_msg3 in
  drive2 conn0 conn0 [(false, firstn 9 fa); (true, firstn 10 fb); (false, firstn 11 (skipn 9 fa));
                      (true, skipn 10 fb)]
  = ([], [Deliver ex_msg2; Deliver ex_msg3]).
Proof. vm_compute. reflexivity. Qed.

(* a complete frame whose body no codec knows (type code 0x7777) is delivered, bytes and all *)
Example C13_complete_frame_nonvacuous :
  let f := [xda; xda; x01; x00; x00; x00; x14; x00; x10; x00; x01; x00; x00; x00; x00; x09; x77; x77; x01; x02] in
  complete_frame f = true /\ complete_frame (firstn 19 f) = false
  /\ frame_read f = RMsg {| r_id := 9; r_type := 0; r_codec := 1; r_compressor := 0; r_head := [];
                            r_body := [x77; x77; x01; x02] |} 20
  /\ frame_read (firstn 19 f) = RNeed 20.
Proof. vm_compute. auto. Qed.

(* a delimited frame with a 3-byte body, followed by the magic of the next frame *)
Example C13_frame_bytes_only_nonvacuous :
  let f := [xda; xda; x01; x00; x00; x00; x13; x00; x10; x00; x01; x00; x00; x00; x00; x09; x00; x02; x00] in
  complete_frame f = true /\ len f = unbe (sub f 3 7)
  /\ frame_read (f ++ [xda; xda; x01; x00]) = frame_read f
  /\ frame_read f = RMsg {| r_id := 9; r_type := 0; r_codec := 1; r_compressor := 0; r_head := [];
                            r_body := [x00; x02; x00] |} 19.
Proof. vm_compute. auto. Qed.
