(* C15 — Every coordinator phase-two request gets one correctly addressed,
   truthful reply.  Statements only; proofs are in Remoting/ProcessorProofs.v and
   Remoting/ProcessorGo.v.  `process` interprets go_dispatch, the table
   REGENERATED from the source by `xlate dispatch` (type code -> processor; for
   the two phase-two processors: which request is asserted, which expression
   selects the manager, which method is called with which arguments, what a
   manager error does (silence always / only without a status), which result
   code goes with and without an error, which fields the response echoes and
   which id it is sent under); requests, outcomes and manager sets are arbitrary. *)
From Coq Require Import String.
From Coq Require Import List NArith ZArith Bool Permutation.
From SeataV Require Import Remoting.ProcessorModel Remoting.ProcessorProofs Remoting.ProcessorGo Gen.DispatchTable.
From SeataV Require Remoting.FuturesModel Gen.FuturesCfg.
Import ListNotations.
Open Scope string_scope.

(* obligations on the source: codes 3 / 5 are handled by rows equivalent to the
   reference rows, no other code is handled by a phase-two processor, the shipped
   managers register under distinct branch types covering AT, TCC and XA, and the
   translator recognised everything it read *)
Theorem C15_source_dispatch_good :
  wf_dispatch go_dispatch = true /\ wf_managers go_managers = true /\ go_dispatch_unrecognised = [].
Proof. exact go_dispatch_good. Qed.

(* the manager consulted is the one registered for the request's branch type, through
   the method of the request's kind, with the request's own xid / branch / resource / data *)
Theorem C15_route : forall mgrs r o m meth x b rs dt,
  In (Consult m meth x b rs dt) (process go_dispatch mgrs r o) ->
  m = r_btype r /\ existsb (N.eqb m) mgrs = true
  /\ ((r_code r = 3%N /\ meth = "BranchCommit") \/ (r_code r = 5%N /\ meth = "BranchRollback"))
  /\ x = VN (r_xid r) /\ b = VZ (r_branch r) /\ rs = VN (r_resource r) /\ dt = VN (r_data r).
Proof. exact go_route. Qed.

(* manager returned (st, nil): exactly one response, of the request's kind, carrying the
   request's message id, xid, branch id and precisely st *)
Theorem C15_echo : forall mgrs r st,
  (r_code r = 3%N \/ r_code r = 5%N) -> existsb (N.eqb (r_btype r)) mgrs = true ->
  process go_dispatch mgrs r (ORet st false) =
    [Consult (r_btype r) (meth_of (r_code r)) (VN (r_xid r)) (VZ (r_branch r)) (VN (r_resource r)) (VN (r_data r));
     Respond (resp_of (r_code r)) (VZ (r_id r)) (VN (r_xid r)) (VZ (r_branch r)) (VN st) 1%N].
Proof. exact go_echo. Qed.

(* manager failed — an error together with a status that is not itself a phase-two success
   status (every shipped manager), or a panic: no response says success, neither by its
   status nor by its result code *)
Theorem C15_no_false_success : forall mgrs r o,
  (o = OPanic \/ exists st, o = ORet st true /\ success_status (VN st) = false) ->
  forall resp i x b s rc, In (Respond resp i x b s rc) (process go_dispatch mgrs r o) ->
    success_status s = false /\ rc = 0%N.
Proof. exact go_no_false_success. Qed.

(* whatever the manager did there is at most one response; a panicking manager gets none *)
Theorem C15_at_most_one_response : forall mgrs r o,
  (length (filter is_respond (process go_dispatch mgrs r o)) <= 1)%nat.
Proof. exact go_at_most_one_response. Qed.

Theorem C15_panic_no_response : forall mgrs r,
  forallb (fun e => negb (is_respond e)) (process go_dispatch mgrs r OPanic) = true.
Proof. exact go_panic_no_response. Qed.

(* every response on the wire is the request's own and truthful: its kind, message id, xid,
   branch id, precisely the status the manager returned, result code Success iff no error *)
Theorem C15_respond_only_truthful : forall mgrs r o resp i x b s rc,
  In (Respond resp i x b s rc) (process go_dispatch mgrs r o) ->
  exists st failed, o = ORet st failed /\ s = VN st /\ i = VZ (r_id r) /\ x = VN (r_xid r) /\ b = VZ (r_branch r)
             /\ resp = resp_of (r_code r) /\ rc = (if failed then 0 else 1)%N.
Proof. exact go_respond_only_truthful. Qed.

(* the status hypothesis of C15_no_false_success cannot be dropped where a failure status is
   passed on to the coordinator (error mode 2, the code as it is): a manager returning an
   error TOGETHER WITH PhasetwoCommitted gets PhasetwoCommitted reported (result code Failed).
   Stated on the reference rows, not on go_dispatch (KNOWN_FINDINGS: error-with-success-status) *)
Theorem C15_false_success_refuted_mode2 :
  exists r st, success_status (VN st) = true /\
    In (Respond "BranchCommitResponse" (VZ (r_id r)) (VN (r_xid r)) (VZ (r_branch r)) (VN st) 0%N)
       (process [(3%N, PPhase2 (commit_row 2)); (5%N, PPhase2 (rollback_row 2))] [1%N] r (ORet st true)).
Proof. exact false_success_refuted_mode2. Qed.

(* requests do not influence each other: whatever the order of the stream and
   whatever interleaving of the per-request events the wire shows, the multiset
   of events is the same *)
Theorem C15_independent : forall mgrs (s s' : stream) out out',
  Permutation s s' -> merge (per_request go_dispatch mgrs s) out -> merge (per_request go_dispatch mgrs s') out' ->
  Permutation out out'.
Proof. exact go_independent. Qed.

(* ... nor do the client's own pending requests influence a reply: `process` has no access to the
   pending-request table, the translator checks that nothing between SendAsyncResponse and WritePkg
   may give up except for a missing / closed session (obligation above), and in the C14 model of that
   table a response send under ANY id — also the id of a pending client request — is the identity *)
Theorem C15_reply_ignores_pending_table : forall (s : FuturesModel.st) id wf,
  FuturesModel.step FuturesCfg.go_futures_cfg s (FuturesModel.EWrite id wf) = s.
Proof. exact go_reply_ignores_pending_table. Qed.

(* ---- non-vacuity: a mixed stream (AT commit answered, TCC rollback whose manager
   fails with the retryable status (reported, result code Failed), TCC commit failing
   without a status (silence), XA commit whose manager panics, a request for
   an unregistered branch type, a heartbeat) and one of its interleavings *)
Definition c15_demo : stream :=
  [(mkReq 3 17 1 100 0 7 0, ORet 5 false);
   (mkReq 5 18 1 101 1 8 0, ORet 9 true);
   (mkReq 3 22 3 104 1 8 0, ORet 0 true);
   (mkReq 3 19 2 102 3 9 0, OPanic);
   (mkReq 5 20 2 103 9 9 0, ORet 8 false);
   (mkReq 120 21 0 0 0 0 0, ORet 0 false)].

Example C15_demo_nonvacuous :
  per_request go_dispatch [0; 1; 3]%N c15_demo =
    [[Consult 0 "BranchCommit" (VN 1) (VZ 100) (VN 7) (VN 0);
      Respond "BranchCommitResponse" (VZ 17) (VN 1) (VZ 100) (VN 5) 1%N];
     [Consult 1 "BranchRollback" (VN 1) (VZ 101) (VN 8) (VN 0);
      Respond "BranchRollbackResponse" (VZ 18) (VN 1) (VZ 101) (VN 9) 0%N];
     [Consult 1 "BranchCommit" (VN 3) (VZ 104) (VN 8) (VN 0)];
     [Consult 3 "BranchCommit" (VN 2) (VZ 102) (VN 9) (VN 0); Panic];
     [Panic];
     []].
Proof. vm_compute. reflexivity. Qed.

Example C15_merge_nonvacuous :
  merge [[1; 2]; [3]; []]%nat [3; 1; 2]%nat.
Proof.
  apply (merge_step [[1; 2]%nat] 3%nat [] [[]]). cbn.
  apply (merge_step [] 1%nat [2%nat] [[]; []]). cbn.
  apply (merge_step [] 2%nat [] [[]; []]). cbn.
  apply merge_nil. repeat constructor.
Qed.
