(* C15 — Every coordinator phase-two request gets one correctly addressed,
   truthful reply.  Statements only; proofs are in Remoting/ProcessorProofs.v and
   Remoting/ProcessorGo.v.  `process` interprets go_dispatch, the table
   REGENERATED from the source by `xlate dispatch` (type code -> processor; for
   the two phase-two processors: which request is asserted, which expression
   selects the manager, which method is called with which arguments, whether an
   error returns before anything is sent, which fields the response echoes and
   which id it is sent under); requests, outcomes and manager sets are arbitrary. *)
From Coq Require Import String.
From Coq Require Import List NArith ZArith Bool Permutation.
From SeataV Require Import Remoting.ProcessorModel Remoting.ProcessorProofs Remoting.ProcessorGo Gen.DispatchTable.
Import ListNotations.
Open Scope string_scope.

(* obligations on the source: codes 3 / 5 are handled by rows equivalent to the
   reference rows, no other code is handled by a phase-two processor, the shipped
   managers register under distinct branch types covering AT, TCC and XA, and the
   translator recognised everything it read *)
Theorem C15_source_dispatch_good :
  wf_dispatch go_dispatch = true /\ wf_managers go_managers = true /\ go_dispatch_unrecognised = [].
Proof. exact go_dispatch_good. Qed.

(* the manager consulted is the one registered for the request's branch type, through
   the method of the request's kind, with the request's own xid / branch / resource / data *)
Theorem C15_route : forall mgrs r o m meth x b rs dt,
  In (Consult m meth x b rs dt) (process go_dispatch mgrs r o) ->
  m = r_btype r /\ existsb (N.eqb m) mgrs = true
  /\ ((r_code r = 3%N /\ meth = "BranchCommit") \/ (r_code r = 5%N /\ meth = "BranchRollback"))
  /\ x = VN (r_xid r) /\ b = VZ (r_branch r) /\ rs = VN (r_resource r) /\ dt = VN (r_data r).
Proof. exact go_route. Qed.

(* manager returned (st, nil): exactly one response, of the request's kind, carrying the
   request's message id, xid, branch id and precisely st *)
Theorem C15_echo : forall mgrs r st,
  (r_code r = 3%N \/ r_code r = 5%N) -> existsb (N.eqb (r_btype r)) mgrs = true ->
  process go_dispatch mgrs r (ORet st false) =
    [Consult (r_btype r) (meth_of (r_code r)) (VN (r_xid r)) (VZ (r_branch r)) (VN (r_resource r)) (VN (r_data r));
     Respond (resp_of (r_code r)) (VZ (r_id r)) (VN (r_xid r)) (VZ (r_branch r)) (VN st) 1%N].
Proof. exact go_echo. Qed.

(* manager failed (error or panic): nothing is reported, in particular no success *)
Theorem C15_no_false_success : forall mgrs r o,
  (o = OPanic \/ exists st, o = ORet st true) ->
  forallb (fun e => negb (is_respond e)) (process go_dispatch mgrs r o) = true.
Proof. exact go_no_false_success. Qed.

(* conversely every response on the wire is the truthful one *)
Theorem C15_respond_only_truthful : forall mgrs r o resp i x b s rc,
  In (Respond resp i x b s rc) (process go_dispatch mgrs r o) ->
  exists st, o = ORet st false /\ s = VN st /\ i = VZ (r_id r) /\ x = VN (r_xid r) /\ b = VZ (r_branch r)
             /\ resp = resp_of (r_code r) /\ rc = 1%N.
Proof. exact go_respond_only_truthful. Qed.

(* requests do not influence each other: whatever the order of the stream and
   whatever interleaving of the per-request events the wire shows, the multiset
   of events is the same *)
Theorem C15_independent : forall mgrs (s s' : stream) out out',
  Permutation s s' -> merge (per_request go_dispatch mgrs s) out -> merge (per_request go_dispatch mgrs s') out' ->
  Permutation out out'.
Proof. exact go_independent. Qed.

(* ---- non-vacuity: a mixed stream (AT commit answered, TCC rollback whose manager
   fails with a success-looking status, XA commit whose manager panics, a request for
   an unregistered branch type, a heartbeat) and one of its interleavings *)
Definition c15_demo : stream :=
  [(mkReq 3 17 1 100 0 7 0, ORet 5 false);
   (mkReq 5 18 1 101 1 8 0, ORet 8 true);
   (mkReq 3 19 2 102 3 9 0, OPanic);
   (mkReq 5 20 2 103 9 9 0, ORet 8 false);
   (mkReq 120 21 0 0 0 0 0, ORet 0 false)].

Example C15_demo_nonvacuous :
  per_request go_dispatch [0; 1; 3]%N c15_demo =
    [[Consult 0 "BranchCommit" (VN 1) (VZ 100) (VN 7) (VN 0);
      Respond "BranchCommitResponse" (VZ 17) (VN 1) (VZ 100) (VN 5) 1%N];
     [Consult 1 "BranchRollback" (VN 1) (VZ 101) (VN 8) (VN 0)];
     [Consult 3 "BranchCommit" (VN 2) (VZ 102) (VN 9) (VN 0); Panic];
     [Panic];
     []].
Proof. vm_compute. reflexivity. Qed.

Example C15_merge_nonvacuous :
  merge [[1; 2]; [3]; []]%nat [3; 1; 2]%nat.
Proof.
  apply (merge_step [[1; 2]%nat] 3%nat [] [[]]). cbn.
  apply (merge_step [] 1%nat [2%nat] [[]; []]). cbn.
  apply (merge_step [] 2%nat [] [[]; []]). cbn.
  apply merge_nil. repeat constructor.
Qed.
