(* C18 — captured images equal the rows the statement changed.  Statements only; proofs in
   At/ImageProofs.v and At/SelectArgsProofs.v. *)
From Coq Require Import List String NArith ZArith Bool Permutation.
From SeataV Require Import Base.Bytes At.Db At.Image At.ImageProofs At.SelectArgs At.SelectArgsProofs Gen.Traverse.
Import ListNotations.
Open Scope nat_scope.

(* UPDATE, for all tables, matched key lists (any WHERE / ORDER BY / LIMIT), SET functions, tracked column sets:
   an accepted statement changed no key; before = matched rows as of before, after = the same keys as of after
   (each matched row now holds u(row)); rows outside the match are unchanged and in neither image. *)
Theorem C18_exact : forall pk trk m u t t' b a,
  NoDup m -> (forall k, In k m -> lookup k t <> None) ->
  at_update pk trk m u t = Ok t' b a ->
  (forall k r, In k m -> lookup k t = Some r -> key_of pk (u r) = k)
  /\ b = img_of trk t m
  /\ (forall k r, In (k, r) b <-> In k m /\ exists r0, lookup k t = Some r0 /\ r = proj trk r0)
  /\ a = img_of trk t' m /\ map fst a = map fst b
  /\ (forall k r, In (k, r) a <-> In k m /\ exists r0, lookup k t = Some r0 /\ r = proj trk (u r0))
  /\ (forall k r, In k m -> lookup k t = Some r -> lookup k t' = Some (u r))
  /\ (forall k, ~ In k m -> lookup k t' = lookup k t).
Proof. exact at_update_exact. Qed.

Theorem C18_exact_delete : forall all m t t' b a,
  at_delete all m t = Ok t' b a ->
  a = [] /\ b = img_of all t m
  /\ (forall k r, In (k, r) b <-> In k m /\ exists r0, lookup k t = Some r0 /\ r = proj all r0)
  /\ (forall k, In k m -> lookup k t' = None)
  /\ (forall k, ~ In k m -> lookup k t' = lookup k t).
Proof. exact at_delete_exact. Qed.

(* a statement that changes the primary key of some matched row is rejected (row-by-row unique check as in MySQL) *)
Theorem C18_pk_reject : forall pk trk m u t,
  NoDup m -> (forall k, In k m -> lookup k t <> None) ->
  (exists k r, In k m /\ lookup k t = Some r /\ key_of pk (u r) <> k) ->
  exists e, at_update pk trk m u t = Err e.
Proof. exact at_update_pk_reject. Qed.

(* INSERT: recovered keys = keys of the rows actually inserted; after image = exactly those rows *)
Theorem C18_insert_pk : forall listed last_id nrows,
  insert_supported listed nrows = true ->
  recover listed last_id nrows = Some (assigned_keys listed last_id nrows).
Proof. exact recover_exact. Qed.

Theorem C18_exact_insert : forall trk krs listed last_id t,
  insert_supported listed (List.length krs) = true ->
  map fst krs = assigned_keys listed last_id (List.length krs) ->
  forall r0, at_insert trk krs listed last_id t = r0 ->
  r0 = Err EDupKey
  \/ exists t', r0 = Ok t' [] (img_of trk t' (map fst krs))
       /\ map fst (img_of trk t' (map fst krs)) = map fst krs
       /\ (forall k r, In (k, r) (img_of trk t' (map fst krs)) <-> exists r1, In (k, r1) krs /\ r = proj trk r1)
       /\ (forall k r, In (k, r) krs -> lookup k t = None /\ lookup k t' = Some r)
       /\ (forall k, ~ In k (map fst krs) -> lookup k t' = lookup k t).
Proof. exact at_insert_exact. Qed.

(* INSERT ... ON DUPLICATE KEY UPDATE: before = the colliding rows as of before, after = the same keys plus the inserted
   rows as of after, every other row unchanged; an assignment to a key column is refused up front, and must be *)
Theorem C18_exact_upsert : forall pk all m u krs t t' b a,
  NoDup m -> (forall k, In k m -> lookup k t <> None) ->
  (forall k r, lookup k t = Some r -> key_of pk r = k) ->
  (forall r, key_of pk (u r) = key_of pk r) ->
  at_upsert pk all false m u krs t = Ok t' b a ->
  b = img_of all t m
  /\ a = img_of all t' (m ++ map fst krs)
  /\ (forall k r, In k m -> lookup k t = Some r -> lookup k t' = Some (u r))
  /\ (forall k r, In (k, r) krs -> lookup k t = None /\ ~ In k m /\ lookup k t' = Some r)
  /\ (forall k, ~ In k m -> ~ In k (map fst krs) -> lookup k t' = lookup k t).
Proof. exact at_upsert_exact. Qed.

Theorem C18_upsert_pk_reject : forall pk all m u krs t, exists e, at_upsert pk all true m u krs t = Err e.
Proof. exact at_upsert_pk_reject. Qed.

Theorem C18_upsert_needs_pk_check :
  exists pk all m u t t' b a, at_upsert pk all false m u [] t = Ok t' b a /\ map fst b <> [] /\ a = [].
Proof. exact at_upsert_needs_pk_check. Qed.

(* a table without an AUTO_INCREMENT column: every listed key value, 0 included, names its row *)
Theorem C18_exact_insert_plain_key : forall trk krs t r0,
  at_insert_plain trk krs (Some (map fst krs)) t = r0 ->
  r0 = Err EDupKey
  \/ exists t', r0 = Ok t' [] (img_of trk t' (map fst krs))
       /\ map fst (img_of trk t' (map fst krs)) = map fst krs
       /\ (forall k r, In (k, r) krs -> lookup k t = None /\ lookup k t' = Some r)
       /\ (forall k, ~ In k (map fst krs) -> lookup k t' = lookup k t).
Proof. exact at_insert_plain_exact. Qed.

(* a mix of explicit and generated key values in one statement is refused rather than recorded wrongly *)
Theorem C18_insert_mixed_refused : forall ks last_id nrows,
  all_explicit ks = false -> all_generated ks = false -> recover (Some ks) last_id nrows = None.
Proof. exact recover_mixed_refused. Qed.

(* what the shipped code did before the repairs c33c2c0 / b8ab280 (for the record) *)
Theorem C18_insert_pk_refuted_prefix :
  recover_prefix (Some [[VNull]]) (4, 1)%Z 1 = Some [[VNull]] /\ assigned_keys (Some [[VNull]]) (4, 1)%Z 1 = [[VInt 4%Z]]
  /\ recover_prefix None (4, 1)%Z 2 = None.
Proof. exact recover_prefix_refuted. Qed.

(* the argument index computed for a key placeholder of a multi-row VALUES list is its textual position among the placeholders *)
Theorem C18_insert_arg_index : forall rows pkidx, go_pk_idx rows pkidx = spec_pk_idx rows pkidx.
Proof. exact go_pk_idx_spec. Qed.

(* argument selection: for every WHERE / ORDER BY / LIMIT built from the grammar's node kinds, with parameters anywhere,
   the selected arguments are those whose markers occur there, in marker order; over the table REGENERATED from the Go source *)
Theorem C18_args : forall (A : Type) (roots : list (string * expr)) (args : list A),
  roots_covered grammar roots = true -> roots_in grammar_roots roots = true ->
  select_idx traverse_table select_roots select_sorted roots = sortN (all_markers roots)
  /\ select_args traverse_table select_roots select_sorted roots args = pick args (sortN (all_markers roots)).
Proof. exact select_args_exact. Qed.

Theorem C18_args_generic : forall t e, covered t e = true -> traverse t e = markers e.
Proof. exact traverse_covered. Qed.

Theorem C18_args_order : forall l, Permutation l (sortN l) /\ sortedb (sortN l) = true.
Proof. intro l. split; [apply sortN_perm | apply sortN_sorted]. Qed.

Theorem C18_table_wf :
  (traverse_unknown = [] /\ select_sorted = true /\ select_picks_by_index = true)
  /\ table_leb grammar traverse_table = true
  /\ forallb (fun r => mem_str r select_roots) grammar_roots = true.
Proof. split; [exact gen_table_wf | exact gen_table_covers_grammar]. Qed.

(* a parameter under a node kind the walk does not know (function call) is not selected: finding where.node.func *)
Theorem C18_args_refuted :
  roots_covered traverse_table func_witness = false
  /\ select_idx traverse_table select_roots select_sorted func_witness <> sortN (all_markers func_witness).
Proof. exact select_args_refuted_func. Qed.

(* non-vacuity *)
Example C18_args_nonvacuous :
  roots_covered grammar sample_roots = true /\ roots_in grammar_roots sample_roots = true
  /\ select_args traverse_table select_roots select_sorted sample_roots [10; 11; 12; 13; 14; 15; 16]%N
     = Some [11; 12; 13; 14; 15; 16]%N.
Proof. exact sample_roots_ok. Qed.

Definition ex_tbl : tbl := [([VInt 1], [VInt 1; VStr []; VInt 10]); ([VInt 2], [VInt 2; VNull; VInt 20]); ([VInt 3], [VInt 3; VNull; VInt 30])]%Z.
Definition ex_set_age (r : row) : row := match r with [i; n; _] => [i; n; VInt 99%Z] | _ => r end.
Definition ex_set_id (r : row) : row := match r with [VInt i; n; a] => [VInt (i + 1)%Z; n; a] | _ => r end.

Example C18_exact_nonvacuous :
  at_update [0] [0; 2] [[VInt 3]; [VInt 1]]%Z ex_set_age ex_tbl
  = Ok [([VInt 1], [VInt 1; VStr []; VInt 99]); ([VInt 2], [VInt 2; VNull; VInt 20]); ([VInt 3], [VInt 3; VNull; VInt 99])]%Z
       [([VInt 3], [VInt 3; VInt 30]); ([VInt 1], [VInt 1; VInt 10])]%Z
       [([VInt 3], [VInt 3; VInt 99]); ([VInt 1], [VInt 1; VInt 99])]%Z.
Proof. vm_compute. reflexivity. Qed.

Example C18_pk_reject_nonvacuous :
  at_update [0] [0; 2] [[VInt 3]; [VInt 2]]%Z ex_set_id ex_tbl = Err EPkChanged
  /\ at_update [0] [0; 2] [[VInt 1]]%Z ex_set_id ex_tbl = Err EDupKey.
Proof. split; vm_compute; reflexivity. Qed.

Example C18_insert_nonvacuous :
  insert_supported (Some [[VInt 7]; [VInt 9]]%Z) 2 = true /\ insert_supported None 3 = true
  /\ insert_supported (Some [[VNull]; [VInt 0]]%Z) 2 = true /\ recover (Some [[VNull]; [VInt 0]]%Z) (4, 1)%Z 2 = Some [[VInt 4]; [VInt 5]]%Z
  /\ recover None (4, 3)%Z 3 = Some [[VInt 4]; [VInt 7]; [VInt 10]]%Z
  /\ go_pk_idx [[false; true; false]; [true; true; true]; [false; false; true]] 1 = [Some 0; Some 2; None]%Z.
Proof. repeat split; vm_compute; reflexivity. Qed.

Definition ex_set_body (r : row) : row := match r with [i; n; _] => [i; n; VInt 7%Z] | _ => r end.
Example C18_upsert_nonvacuous :
  at_upsert [0] [0; 1; 2] false [[VInt 2]]%Z ex_set_body [([VInt 9], [VInt 9; VNull; VInt 1])]%Z ex_tbl
  = Ok [([VInt 1], [VInt 1; VStr []; VInt 10]); ([VInt 2], [VInt 2; VNull; VInt 7]); ([VInt 3], [VInt 3; VNull; VInt 30]); ([VInt 9], [VInt 9; VNull; VInt 1])]%Z
       [([VInt 2], [VInt 2; VNull; VInt 20])]%Z
       [([VInt 2], [VInt 2; VNull; VInt 7]); ([VInt 9], [VInt 9; VNull; VInt 1])]%Z.
Proof. vm_compute. reflexivity. Qed.
