(* C16 — the proxy driver is transparent apart from its transactional duties.
   Only statements closed by `exact`; the model is Proxy/ProxyModel.v, instantiated with the routing
   table regenerated from the source (Gen/AtDispatch.v). *)
From Coq Require Import String List Bool NArith.
From SeataV Require Import Gen.AtDispatch Proxy.ProxyModel Proxy.ProxyProofs.
Import ListNotations.
Open Scope N_scope.

(* the regenerated source table has the shape the model describes *)
Theorem C16_table : cfg_ok gen_cfg = true.
Proof. exact cfg_ok_gen. Qed.

(* outside a global transaction: for ALL programs (operations with their journals, INCLUDING operations that
   fail — database faults at BEGIN / COMMIT / ROLLBACK / a statement: the failure is forwarded and nothing
   more is issued) in which no operation's context carries an xid ANYWHERE, through either proxy, the proxy produces exactly the journals the bare
   driver produces ... *)
Theorem C16_outside : forall (px : proxy) (l : list (op * list ev)),
  no_gtx l = true -> run gen_cfg px [] l = bare_run l.
Proof. exact outside_same. Qed.

(* ... and after a global transaction has ended the proxy is again the identity: for ALL accepted prefixes
   `pre` (any mix of global transactions, local transactions, mixed contexts) that leave no branch
   transaction open, and ALL continuations without an xid context, on the same connections *)
Theorem C16_after : forall (px : proxy) (pre l : list (op * list ev)) (s' : txs),
  run_state gen_cfg px [] pre = Some s' -> all_local s' = true -> no_gtx l = true ->
  run gen_cfg px [] (pre ++ l) = bare_run l.
Proof. exact after_same. Qed.

(* ... and such a journal holds no coordinator message, image query, savepoint or undo-log statement *)
Theorem C16_outside_quiet : forall (l : list (op * list ev)),
  bare_run l = true -> forallb (fun e => negb (is_extra false e)) (journal l) = true.
Proof. exact outside_quiet. Qed.

(* inside (and across) global transactions: for ALL programs the AT model accepts, erasing the allowed
   extras (image queries, savepoints, undo-log insert, coordinator messages, the local bracket of an
   autocommit statement) leaves a journal of the bare driver for the same program ... *)
Theorem C16_extra : forall (l : list (op * list ev)) (s : txs),
  run gen_cfg AT s l = true -> bare_run (erased gen_cfg s l) = true.
Proof. exact extra_only. Qed.

(* ... and nothing else is erased *)
Theorem C16_extra_kinds : forall (b : bool) (obs : list ev) (e : ev),
  In e obs -> In e (erase_extra b obs) \/ is_extra b e = true.
Proof. exact erased_are_extras. Qed.

(* results and data: over ANY backend that cannot tell the extras (its state changes only up to `sim`
   under an extra call, and business calls respect `sim`), the proxied call sequence returns to the
   business calls what the bare sequence returns and ends in a `sim`-equal state *)
Theorem C16_inside : forall (B call reply : Type) (bstep : B -> call -> B * reply)
  (sim : B -> B -> Prop) (extra : call -> bool),
  (forall a b c, sim a b -> sim b c -> sim a c) ->
  (forall b c, extra c = true -> sim (fst (bstep b c)) b) ->
  (forall b1 b2 c, extra c = false -> sim b1 b2 ->
     snd (bstep b1 c) = snd (bstep b2 c) /\ sim (fst (bstep b1 c)) (fst (bstep b2 c))) ->
  forall cs b1 b2, sim b1 b2 ->
    snd (exec B call reply bstep extra b1 cs) =
      snd (exec B call reply bstep extra b2 (filter (fun c => negb (extra c)) cs)) /\
    sim (fst (exec B call reply bstep extra b1 cs))
        (fst (exec B call reply bstep extra b2 (filter (fun c => negb (extra c)) cs))).
Proof. exact transparent_results. Qed.

(* ---- non-vacuity *)
Definition upd_op := {| o_k := OStmt "SQLTypeUpdate" false; o_conn := 0; o_gtx := true; o_ok := true; o_prep := false; o_vp := false |}.
Definition upd_obs : list ev :=
  [(tBegin, true, false); (tImg, true, true); (tExec, true, false); (tImg, true, true); (tReg, true, false);
   (tUndoP, true, false); (tUndo, true, false); (tCommit, true, false); (tReport, true, false)].

Example C16_extra_nonvacuous :
  run gen_cfg AT [] [(upd_op, upd_obs)] = true /\
  erased gen_cfg [] [(upd_op, upd_obs)] = [(upd_op, [(tExec, true, false)])].
Proof. vm_compute. split; reflexivity. Qed.

Definition out_op := {| o_k := OStmt "SQLTypeUpdate" false; o_conn := 0; o_gtx := false; o_ok := true; o_prep := false; o_vp := false |}.

Example C16_outside_nonvacuous :
  no_gtx [(out_op, [(tExec, true, false)])] = true /\ run gen_cfg XA [] [(out_op, [(tExec, true, false)])] = true /\
  run gen_cfg AT [] [(out_op, upd_obs)] = false.
Proof. vm_compute. repeat split; reflexivity. Qed.

(* a bracketed UPDATE of a global transaction, then the same connection outside: accepted, the state is local *)
Example C16_after_nonvacuous :
  run_state gen_cfg AT [] [(upd_op, upd_obs)] = Some [] /\ all_local [] = true /\
  run gen_cfg AT [] ([(upd_op, upd_obs)] ++ [(out_op, [(tExec, true, false)])]) = true.
Proof. vm_compute. repeat split; reflexivity. Qed.

(* mixed contexts: a transaction begun WITHOUT an xid stays local although a statement runs with one *)
Example C16_mixed_nonvacuous :
  let b := {| o_k := OBegin; o_conn := 1; o_gtx := false; o_ok := true; o_prep := false; o_vp := false |} in
  let u := {| o_k := OStmt "SQLTypeUpdate" false; o_conn := 1; o_gtx := true; o_ok := true; o_prep := false; o_vp := false |} in
  let c := {| o_k := OCommit; o_conn := 1; o_gtx := true; o_ok := true; o_prep := false; o_vp := false |} in
  run gen_cfg AT [] [(b, [(tBegin, true, false)]); (u, [(tImg, true, true); (tExec, true, false); (tImg, true, true)]);
                      (c, [(tCommit, true, false)])] = true /\
  run gen_cfg AT [] [(b, [(tBegin, true, false)]);
                      (u, [(tBegin, true, false); (tImg, true, true); (tExec, true, false); (tImg, true, true); (tReg, true, false);
                           (tUndoP, true, false); (tUndo, true, false); (tCommit, true, false); (tReport, true, false)]);
                      (c, [(tCommit, true, false)])] = false.
Proof. vm_compute. split; reflexivity. Qed.

(* a failed COMMIT outside a global transaction is forwarded and nothing follows it *)
Example C16_fault_nonvacuous :
  let c := {| o_k := OCommit; o_conn := 1; o_gtx := false; o_ok := false; o_prep := false; o_vp := false |} in
  run gen_cfg AT [] [(c, [(tCommit, false, false)])] = true /\
  run gen_cfg AT [] [(c, [(tCommit, false, false); (tRollback, true, false)])] = false.
Proof. vm_compute. split; reflexivity. Qed.

Example C16_inside_nonvacuous :
  (forall a b c, toy_sim a b -> toy_sim b c -> toy_sim a c) /\
  (forall b c, fst (fst c) = true -> toy_sim (fst (toy_step b c)) b) /\
  (forall b1 b2 c, fst (fst c) = false -> toy_sim b1 b2 ->
     snd (toy_step b1 c) = snd (toy_step b2 c) /\ toy_sim (fst (toy_step b1 c)) (fst (toy_step b2 c))).
Proof. exact toy_backend. Qed.
