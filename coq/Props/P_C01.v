(* C01 — AT global rollback restores every row the transaction touched.
   Statements only; proofs in At/RollbackProofs.v. *)
From Coq Require Import List NArith ZArith Bool.
From SeataV Require Import Base.Bytes At.Db At.RollbackKinds Gen.UndoFlow At.Rollback At.RollbackProofs.
Import ListNotations.

(* For every configuration, every database with unique keys per table, every program (any number of
   branches, each any list of INSERT / UPDATE / DELETE / upsert effects on any tables), every list L of
   row locks covering the rows of every recorded image, and every sequence of committed foreign writes
   that respects L: rolling the committed branches back in reverse order answers 'rollbacked' every
   time, leaves every table extensionally equal to its contents before the global transaction with the
   foreign writes applied, and no normal undo-log row of any branch. *)
Theorem C01_restores : forall cfg xid b prog d0 d1 bs ws (L : list (tablename * key)),
  db_wf (d_tabs d0) ->
  (forall b', (b <= b')%N -> ulookup (xid, b') (d_undo d0) = None) ->
  phase1 cfg xid b prog d0 = (d1, bs) ->
  (forall x, In x bs -> forall tn k, branch_touched d1 x tn k -> In (tn, k) L) ->
  (forall w, In w ws -> ~ In (fwrite_tn w, fwrite_key w) L) ->
  exists d2 sts,
    rollback_all cfg (rev bs) (with_tabs d1 (apply_foreign ws (d_tabs d1))) = (d2, sts) /\
    Forall (eq status_ok) sts /\
    db_equiv (d_tabs d2) (apply_foreign ws (d_tabs d0)) /\
    forall x, In x bs -> no_normal x d2.
Proof. exact restores. Qed.

(* the same with committed foreign writes DURING phase one (between any two branches, any number of
   times) as well as before phase two: every table ends as the initial one with all foreign writes
   applied in their order *)
Theorem C01_restores_interleaved : forall cfg xid b prog d0 d1 bs ws (L : list (tablename * key)),
  db_wf (d_tabs d0) ->
  (forall b', (b <= b')%N -> ulookup (xid, b') (d_undo d0) = None) ->
  phase1i cfg xid b prog d0 = (d1, bs) ->
  (forall x, In x bs -> forall tn k, branch_touched d1 x tn k -> In (tn, k) L) ->
  (forall w, In w (foreign_of prog ++ ws) -> ~ In (fwrite_tn w, fwrite_key w) L) ->
  exists d2 sts,
    rollback_all cfg (rev bs) (with_tabs d1 (apply_foreign ws (d_tabs d1))) = (d2, sts) /\
    Forall (eq status_ok) sts /\
    db_equiv (d_tabs d2) (apply_foreign (foreign_of prog ++ ws) (d_tabs d0)) /\
    forall x, In x bs -> no_normal x d2.
Proof. exact restores_interleaved. Qed.

(* 'rollbacked' is answered only when the whole clean undo of that branch happened: no injected
   failure hit it, the durable state is the one of the clean rollback, no normal undo row is left,
   the local transaction is closed. For ALL states, undo-log contents and fault positions. *)
Theorem C01_truthful : forall cfg f d x,
  let r := rollback_branch cfg f d x in
  r_out r = status_ok ->
  r_fired r = false /\ r_db r = r_db (rollback_branch cfg None d x) /\ no_normal x (r_db r) /\ r_tx_open r = false.
Proof. exact truthful. Qed.

(* every failure to undo — a database failure at any call of the rollback transaction, an undecodable
   log, a dirty / failing image anywhere in the log — is answered with something else than
   'rollbacked' and changes nothing *)
Theorem C01_failure_reported : forall cfg f d x,
  let r := rollback_branch cfg f d x in
  (r_fired r = true -> r_out r <> status_ok /\ r_db r = d) /\
  (forall row, ulookup x (d_undo d) = Some row -> u_normal row = true ->
     (u_body row = None \/
      exists imgs, u_body row = Some imgs /\ undo_images (c_validation cfg) (rev imgs) (d_tabs d) = None) ->
     r_out r <> status_ok /\ r_db r = d).
Proof. exact failure_reported. Qed.

(* a result set of the validation read that breaks off mid-stream is such a failing call, not a shorter
   complete answer (rows.Err() is checked; regenerated) *)
Theorem C01_read_errors_checked : exec_read_errors_checked = true.
Proof. exact read_errors_checked. Qed.

(* the status answered for a plain error is not 'rollbacked' (BranchRollback's mapping, regenerated) *)
Theorem C01_status_mapping : status_plain_error <> status_ok /\ status_unretriable <> status_ok /\ status_other_seata_error <> status_ok.
Proof. exact status_mapping. Qed.

(* ---- non-vacuity: a two-branch program over a composite-key table, with a foreign write ---- *)
Definition ex_tn : tablename := [Byte.x74].
Definition ex_k (n : Z) : key := [VInt n; VStr [Byte.x61]].
Definition ex_d0 : dbs :=
  {| d_tabs := [(ex_tn, [(ex_k 1, [VInt 10; VNull]); (ex_k 2, [VInt 20; VStr [Byte.x62]]); (ex_k 3, [VInt 30; VNull])])];
     d_undo := [] |}.
Definition ex_prog : list (list stmt) :=
  [ [SUpdate ex_tn (Some [true; false]) [(ex_k 1, [VInt 11; VNull])]; SDelete ex_tn [ex_k 2]];
    [SInsert ex_tn [(ex_k 7, [VInt 70; VNull])]; SUpdate ex_tn None [(ex_k 1, [VInt 12; VStr [Byte.x63]])]] ].
Definition ex_cfg : config := {| c_validation := true; c_only_care := true |}.
Definition ex_ws : list fwrite := [FSet ex_tn (ex_k 3) [VInt 99; VNull]].

Example C01_restores_nonvacuous :
  let '(d1, bs) := phase1 ex_cfg 1 1 ex_prog ex_d0 in
  length bs = 2%nat /\
  tbl_eqb_ext (db_get ex_tn (d_tabs d1)) (db_get ex_tn (d_tabs ex_d0)) = false /\
  let '(d2, sts) := rollback_all ex_cfg (rev bs) (with_tabs d1 (apply_foreign ex_ws (d_tabs d1))) in
  sts = [status_ok; status_ok] /\
  tbl_eqb_ext (db_get ex_tn (d_tabs d2)) (db_get ex_tn (apply_foreign ex_ws (d_tabs ex_d0))) = true /\ d_undo d2 = [].
Proof. vm_compute. repeat split; reflexivity. Qed.

Example C01_failure_nonvacuous :
  let '(d1, bs) := phase1 ex_cfg 1 1 ex_prog ex_d0 in
  let r := rollback_branch ex_cfg (Some 5%nat) d1 (1%N, 2%N) in
  r_fired r = true /\ r_out r = status_plain_error /\ r_ops (rollback_branch ex_cfg None d1 (1%N, 2%N)) = 12%nat.
Proof. vm_compute. repeat split; reflexivity. Qed.

Example C01_restores_interleaved_nonvacuous :
  let prog := [IBranch [SUpdate ex_tn (Some [true; false]) [(ex_k 1, [VInt 11; VNull])]];
               IForeign [FSet ex_tn (ex_k 3) [VInt 99; VNull]; FDel ex_tn (ex_k 2)];
               IBranch [SInsert ex_tn [(ex_k 7, [VInt 70; VNull])]]] in
  let '(d1, bs) := phase1i ex_cfg 1 1 prog ex_d0 in
  length bs = 2%nat /\
  let '(d2, sts) := rollback_all ex_cfg (rev bs) d1 in
  sts = [status_ok; status_ok] /\
  tbl_eqb_ext (db_get ex_tn (d_tabs d2)) (db_get ex_tn (apply_foreign (foreign_of prog) (d_tabs ex_d0))) = true /\
  tbl_eqb_ext (db_get ex_tn (d_tabs d2)) (db_get ex_tn (d_tabs ex_d0)) = false.
Proof. vm_compute. repeat split; reflexivity. Qed.
