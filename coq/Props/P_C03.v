(* C03 — global lock keys cover every written row; locking reads consult the coordinator.
   Statements only; proofs in At/LockKeyProofs.v (key text) and At/LockProofs.v. *)
From Coq Require Import String List NArith ZArith Bool.
From SeataV Require Import Base.Bytes At.Db At.Image At.LockKey At.LockKeyProofs At.Lock At.LockProofs.
Import ListNotations.
Open Scope nat_scope.

(* every row whose content differs between the start of a local transaction and its commit is named by the lock keys
   of one of its statements -- for ALL local transactions (lists of update / delete / insert statements) *)
Theorem C03_cover : forall pk all ss t t' lks,
  tx_wf pk all ss t -> run_tx pk all ss t = Some (t', lks) ->
  forall k, lookup k t' <> lookup k t -> exists ks, In ks lks /\ In k ks.
Proof. exact tx_cover. Qed.

(* the key text is a function of table name and key values, whatever image (statement form, column order, repeated key
   columns) it is built from *)
Theorem C03_canonical : forall table pk ks rows1 rows2,
  Forall2 (has_key_for pk) ks rows1 -> Forall2 (has_key_for pk) ks rows2 ->
  lock_key_text table pk rows1 = lock_key_text table pk rows2.
Proof. exact lock_key_text_same. Qed.

(* ... over ALL builders: the writers' text (insert / update / delete / upsert images) equals the text the locking
   read's own builder sends for the same keys *)
Theorem C03_canonical_sfu : forall table pk ks rows,
  Forall2 (has_key_for pk) ks rows -> lock_key_text table pk rows = sfu_key_text table pk ks.
Proof. exact lock_key_text_sfu. Qed.

(* what the shipped builder did before the repair (cells in image order): the same key gave different texts *)
Theorem C03_canonical_refuted_legacy :
  (exists pk k r1 r2, NoDup pk /\ List.length k = List.length pk /\ NoDup r1 /\ NoDup r2 /\ same_key_cells pk k r1 /\ same_key_cells pk k r2
      /\ row_key_text pk r1 <> row_key_text pk r2)
  /\ (exists pk k r1 r2, NoDup pk /\ List.length k = List.length pk /\ same_key_cells pk k r1 /\ same_key_cells pk k r2
      /\ row_key_text pk r1 <> row_key_text pk r2).
Proof. exact C03_canonical_refuted_l. Qed.

(* the coordinator's parse of the joined text gives back exactly the keys, for values free of the separators , _ ; : *)
Theorem C03_parse : forall pk (items : list (bytes * list key * list irow)),
  pk <> [] -> NoDup pk ->
  (forall t ks rows, In (t, ks, rows) items -> item_ok pk (t, ks) /\ Forall2 (has_key_for pk) ks rows) ->
  parse_lock_keys (join_lock_keys (map (fun it => lock_key_text (fst (fst it)) pk (snd it)) items))
  = map (fun it => (fst (fst it), map key_texts (snd (fst it)))) items.
Proof. exact lock_key_text_parse. Qed.

Theorem C03_parse_int_keys : forall pk k, List.length k = List.length pk -> (forall v, In v k -> exists z, v = VInt z) -> key_ok pk k.
Proof. exact key_ok_ints. Qed.

(* with a separator inside a key value two different key lists share one text: finding lockkey.separator *)
Theorem C03_parse_refuted :
  (exists t pk ks1 ks2, NoDup pk /\ pk_shaped pk ks1 /\ pk_shaped pk ks2 /\ ks1 <> ks2 /\
     build_lock_key t pk (map (canon_row pk) ks1) = build_lock_key t pk (map (canon_row pk) ks2))
  /\ (exists t pk ks1 ks2, NoDup pk /\ pk_shaped pk ks1 /\ pk_shaped pk ks2 /\ ks1 <> ks2 /\
     build_lock_key t pk (map (canon_row pk) ks1) = build_lock_key t pk (map (canon_row pk) ks2)).
Proof. exact C03_parse_refuted_l. Qed.

Theorem C03_sfu : forall matched lockable j r,
  sfu matched lockable = (j, r) ->
  (forall ks, r = Some ks -> ks = matched /\ lockable = true /\ (exists pre, j = pre ++ [SLockQuery ks true]) /\ ~ In SRollbackTo j)
  /\ (r = None -> lockable = false /\ exists pre, j = pre ++ [SLockQuery matched false; SRollbackTo])
  /\ (exists rest, j = SSavepoint :: SKeyQuery matched :: SBusiness :: rest).
Proof. exact sfu_spec. Qed.

(* any schedule of local commits of any number of global transactions (hence every interleaving): rows written by
   locally committed branches of different global transactions are disjoint while the locks are held *)
Theorem C03_isolation : forall s l w,
  (forall it, In it s -> covered_item it = true) ->
  run_sched s [] [] = (l, w) ->
  forall k x y, In (k, x) w -> In (k, y) w -> x = y.
Proof. exact sched_isolation. Qed.

Theorem C03_isolation_needs_cover :
  exists s l w, run_sched s [] [] = (l, w) /\ exists k, In (k, 1%N) w /\ In (k, 2%N) w.
Proof. exact sched_isolation_needs_cover. Qed.

(* non-vacuity *)
Definition ex_t : tbl := [([VInt 1; VStr [Byte.x78]], [VInt 1; VStr [Byte.x78]; VInt 10]); ([VInt 2; VStr [Byte.x79]], [VInt 2; VStr [Byte.x79]; VInt 20])]%Z.
Definition ex_u (r : row) : row := match r with [a; b; _] => [a; b; VInt 5%Z] | _ => r end.
Definition ex_tx : list rstmt :=
  [RUpd [[VInt 1; VStr [Byte.x78]]]%Z ex_u [0; 1; 2];
   RIns [([VInt 7; VStr [Byte.x71]], [VInt 7; VStr [Byte.x71]; VInt 1])]%Z (Some [[VInt 7; VStr [Byte.x71]]]%Z) (0, 1)%Z [0; 1; 2];
   RDel [[VInt 2; VStr [Byte.x79]]]%Z].

Example C03_cover_nonvacuous :
  option_map snd (run_tx [0; 1] [0; 1; 2] ex_tx ex_t)
  = Some [[[VInt 1; VStr [Byte.x78]]]; [[VInt 7; VStr [Byte.x71]]]; [[VInt 2; VStr [Byte.x79]]]]%Z.
Proof. vm_compute. reflexivity. Qed.

Example C03_canonical_nonvacuous :
  lock_key_text [Byte.x54] [0; 1] [[(2, VInt 7%Z); (1, VStr [Byte.x72]); (0, VInt 8%Z)]]
  = lock_key_text [Byte.x54] [0; 1] [[(0, VInt 8%Z); (0, VInt 8%Z); (1, VStr [Byte.x72])]]
  /\ lock_key_text [Byte.x54] [0; 1] [[(2, VInt 7%Z); (1, VStr [Byte.x72]); (0, VInt 8%Z)]] = [Byte.x54; Byte.x3a; Byte.x38; Byte.x5f; Byte.x72].
Proof. split; vm_compute; reflexivity. Qed.

Example C03_isolation_nonvacuous :
  snd (run_sched [ {| it_x := 1%N; it_keys := [[VInt 1%Z]; [VInt 2%Z]]; it_written := [[VInt 1%Z]] |};
                   {| it_x := 2%N; it_keys := [[VInt 2%Z]]; it_written := [[VInt 2%Z]] |};
                   {| it_x := 2%N; it_keys := [[VInt 3%Z]]; it_written := [[VInt 3%Z]] |} ] [] [])
  = [([VInt 3%Z], 2%N); ([VInt 1%Z], 1%N)].
Proof. vm_compute. reflexivity. Qed.
