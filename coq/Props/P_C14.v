(* C14 — Concurrent requests are answered by their own responses; stragglers do
   no harm.  Statements only; proofs are in Remoting/FuturesProofs.v.  The model
   (Remoting/FuturesModel.v) is run at go_futures_cfg, the configuration
   REGENERATED from the repository's source by `xlate futures`; histories are
   arbitrary lists of events (sends, both steps of every reply delivery in any
   order and multiplicity, wake-ups, timeouts, responses/heartbeats/pongs with
   arbitrary ids, connection loss) from arbitrary starting counters. *)
From Coq Require Import List NArith ZArith Bool.
From SeataV Require Import Remoting.FuturesModel Remoting.FuturesProofs Remoting.FuturesGo Gen.FuturesCfg.
Import ListNotations.

(* the obligation on the source: its configuration is one the theorems cover,
   and the translator recognised everything it read *)
Theorem C14_source_cfg_good : good_cfg go_futures_cfg = true /\ go_futures_unrecognised = [].
Proof. exact go_futures_good. Qed.

(* a caller that completes with a body got it from a reply carrying its own request id *)
Theorem C14_own_reply : forall c0 h0 lv evs k w b,
  getw k (run go_futures_cfg (init c0 h0 lv) evs) = Some w -> w_stat w = DoneOk b ->
  In (EDeliver (w_id w) b) evs.
Proof. exact go_own_reply. Qed.

(* ... and a caller still waiting when a reply with its id is delivered does complete
   with such a body (ids do not lap: fewer than 2^32 events) *)
Theorem C14_receives : forall c0 h0 lv evs k w b,
  (N.of_nat (length evs) < two32)%N ->
  let s := run go_futures_cfg (init c0 h0 lv) evs in
  getw k s = Some w -> w_stat w = Waiting ->
  exists b', stat_of k (run go_futures_cfg s [EDeliver (w_id w) b; EWake k]) = Some (DoneOk b')
             /\ In (EDeliver (w_id w) b') (evs ++ [EDeliver (w_id w) b]).
Proof. exact go_receives. Qed.

(* answers are matched to pending requests by id alone, so own_reply means "the answer to MY
   request" only if no two requests can carry one id: every request written along a history
   (ESend: sync callers, one-way senders, and — obligation c_ids_plain of C14_source_cfg_good:
   EVERY send site that writes an answerable frame, e.g. OnOpen's RegisterRM re-announcements —
   draws from the client's one generator) gets an id of its own (fewer than 2^32 events) *)
Theorem C14_request_ids_distinct : forall c0 h0 lv evs,
  (N.of_nat (length evs) < two32)%N -> NoDup (drawn go_futures_cfg (init c0 h0 lv) evs).
Proof. exact go_request_ids_distinct. Qed.

(* a caller whose reply never comes is waiting or ends with an error, never with a body;
   when its timer fires it returns the timeout error; outcomes never change afterwards *)
Theorem C14_timeout : forall c0 h0 lv evs k w,
  getw k (run go_futures_cfg (init c0 h0 lv) evs) = Some w ->
  (forall b, ~ In (EDeliver (w_id w) b) evs) ->
  (w_stat w = Waiting \/ exists e, w_stat w = DoneErr e)
  /\ (w_stat w = Waiting ->
      stat_of k (step go_futures_cfg (run go_futures_cfg (init c0 h0 lv) evs) (ETimeout k)) = Some (DoneErr 1)).
Proof. exact go_timeout. Qed.

Theorem C14_outcome_stable : forall s evs k x,
  stat_of k s = Some x -> x <> Waiting -> stat_of k (run go_futures_cfg s evs) = Some x.
Proof. exact go_outcome_stable. Qed.

(* late and duplicate replies never block message processing *)
Theorem C14_no_block : forall c0 h0 lv evs,
  parked (run go_futures_cfg (init c0 h0 lv) evs) = 0%nat.
Proof. exact go_no_block. Qed.

(* completed, timed-out, one-way and response sends leave nothing behind *)
Theorem C14_no_leak : forall c0 h0 lv evs,
  quiescent (run go_futures_cfg (init c0 h0 lv) evs) = true ->
  table (run go_futures_cfg (init c0 h0 lv) evs) = [].
Proof. exact go_no_leak. Qed.

(* after any history a fresh request completes with its reply *)
Theorem C14_fresh_ok : forall c0 h0 lv evs k b,
  let s := run go_futures_cfg (init c0 h0 lv) evs in
  live s = true -> getw k s = None ->
  stat_of k (run go_futures_cfg s [ESend k false; EDeliver (id_of (ctr s + 1)) b; EWake k]) = Some (DoneOk b).
Proof. exact go_fresh_ok. Qed.

(* ---- non-vacuity: a history with two callers in flight across the int32 wrap,
   replies out of order, a duplicate, a straggler after a timeout, a response and
   a pong carrying a pending id, and connection loss; it ends quiescent, callers
   2 and 3 hold each other's... no: their OWN bodies, caller 1 the timeout error *)
Definition c14_demo : list ev :=
  [EOpen; ESend 1 false; ESend 2 false; ESend 3 false;
   EWrite (-2147483648) false; EPong (-2147483647);
   EDeliver (-2147483647) 30; EDeliver (-2147483648) 20; EDeliver (-2147483648) 21;
   EWake 3; ERemove (-2147483648); EWake 2; ERemove (-2147483647); ERemove (-2147483648);
   EClose; ETimeout 1; EDeliver 2147483647 10; EOpen].

Example C14_demo_nonvacuous :
  let s := run go_futures_cfg (init 2147483646 2147483646 false) c14_demo in
  quiescent s = true /\ table s = [] /\ parked s = 0%nat
  /\ stat_of 1 s = Some (DoneErr 1) /\ stat_of 2 s = Some (DoneOk 21) /\ stat_of 3 s = Some (DoneOk 30)
  /\ (N.of_nat (length c14_demo) < two32)%N.
Proof. vm_compute. repeat split; reflexivity. Qed.

(* the properties are not artefacts of the model: at the configuration of the
   tree as pinned (unbuffered blocking signal, timeout removing from the wrong
   map, futures stored for responses, pong removing) the same model parks a
   straggler's delivery, leaks entries and loses a caller's own reply *)
Example C14_pinned_parks_nonvacuous :
  parked (run pinned_cfg (init 0 0 true) [ESend 1 false; ETimeout 1; EDeliver 1 7]) = 1%nat.
Proof. exact pinned_parks. Qed.
Example C14_pinned_leaks_nonvacuous :
  let s := run pinned_cfg (init 0 0 true) [ESend 1 false; ETimeout 1; EWrite 5 false] in
  quiescent s = true /\ length (table s) = 2%nat.
Proof. exact pinned_leaks. Qed.
(* ... and at a configuration that differs from the repaired one only in writing the payload
   AFTER the completion signal, a caller whose reply was delivered returns (nil, nil) *)
Example C14_store_after_signal_nonvacuous :
  stat_of 1 (run store_after_cfg (init 0 0 true) [ESend 1 false; EDeliver 1 7; EWake 1; ERemove 1]) = Some (DoneErr 4).
Proof. exact store_after_returns_nil. Qed.
(* ... and a request written under an id of the listener's second generator (as heartbeats are)
   can share its id with a pending caller, who is then handed that request's answer *)
Example C14_second_generator_nonvacuous :
  let evs := [ESend 1 false; EHeartbeat false; EDeliver (id_of 8) 99; EWake 1] in
  stat_of 1 (run fixed_cfg (init 7 7 true) evs) = Some (DoneOk 99)
  /\ id_of (7 + 1) = id_of (7 + 1).
Proof. exact second_generator_confuses. Qed.
Example C14_pinned_steals_nonvacuous :
  let s := run pinned_cfg (init 0 0 true) [ESend 1 false; EWrite 1 false; EDeliver 1 7; EWake 1] in
  stat_of 1 s = Some Waiting /\ parked s = 1%nat.
Proof. exact pinned_steals. Qed.
