(* C20 — concurrent use of one client: lock discipline over the regenerated table of
   access sites, what a common lock guarantees, resource accounting.
   Statements only; proofs live in Conc/*.v. *)
From Coq Require Import String List NArith Bool Permutation.
From SeataV Require Import Conc.LockSet Conc.LockSetProofs Conc.LockSetListing Conc.Accounting Conc.AccountingProofs Conc.Reent Conc.ReentProofs Conc.Order Conc.OrderProofs Conc.LockSetTable.
Import ListNotations.
Open Scope string_scope.

(* the boolean checker decides the Eraser discipline, for every table and listing *)
Theorem C20_checker_sound : forall (L : listing) (T : list access),
  check L T = true ->
  forall a1 a2, In a1 T -> In a2 T ->
    (a_var a1 = a_var a2 /\ (is_write a1 = true \/ is_write a2 = true)
     /\ a_init a1 = false /\ a_init a2 = false) ->
    ~ exempt L a1 a2 ->
    (exists l, guard_ok a1 l /\ guard_ok a2 l) \/ (a_mode a1 = Synced /\ a_mode a2 = Synced).
Proof. exact check_sound. Qed.

Theorem C20_checker_complete : forall (L : listing) (T : list access),
  discipline L T -> check L T = true.
Proof. exact check_complete. Qed.

(* at the table regenerated from the Go source: every two access sites of the same
   registry, one writing, neither init-only, share a lock (exclusive on the writing
   side) or are both synchronised objects - except the listed finding pairs that still reproduce
   (ls_live: a stale listing entry exempts nothing) *)
Theorem C20_lockset :
  forall a1 a2, In a1 ls_table -> In a2 ls_table ->
    (a_var a1 = a_var a2 /\ (is_write a1 = true \/ is_write a2 = true)
     /\ a_init a1 = false /\ a_init a2 = false) ->
    ~ exempt ls_live a1 a2 ->
    (exists l, guard_ok a1 l /\ guard_ok a2 l) \/ (a_mode a1 = Synced /\ a_mode a2 = Synced).
Proof. exact lockset_at_table. Qed.

(* the translator recognised every construct and every registry the property names has rows *)
Theorem C20_table_wf :
  (forall a, In a ls_table -> forall w, a_kind a <> Unknown w)
  /\ (forall v, In v ls_required -> exists a, In a ls_table /\ a_var a = v)
  /\ ls_table <> [].
Proof. exact table_wf_facts. Qed.

(* each exempted pair really breaks the discipline (stale entries of the listing are dropped from
   ls_live and reported by the driver as STALE-FINDING) *)
Theorem C20_listed_findings_refuted :
  forall v f1 f2, In (v, f1, f2) ls_live ->
  exists a1 a2, In a1 ls_table /\ In a2 ls_table /\ a_var a1 = v /\ a_func a1 = f1 /\ a_func a2 = f2
                /\ conflicting a1 a2 /\ ~ protected a1 a2.
Proof. exact listed_findings_refuted. Qed.

Example C20_lockset_nonvacuous :
  exists a1 a2, In a1 ls_table /\ In a2 ls_table /\ conflicting a1 a2 /\ ~ exempt ls_live a1 a2.
Proof. exact lockset_nonvacuous. Qed.

(* mutex semantics: in every reachable state of the lock machine two different threads
   are never at two sites that share a lock in the discipline's sense while one writes *)
Theorem C20_common_lock_excludes : forall ops t1 t2 a1 a2 l,
  t1 <> t2 ->
  at_site (lrun ops) t1 a1 -> at_site (lrun ops) t2 a2 ->
  guard_ok a1 l -> guard_ok a2 l ->
  (is_write a1 = true \/ is_write a2 = true) ->
  False.
Proof. exact common_lock_excludes. Qed.

Example C20_common_lock_nonvacuous :
  let a := mkAcc "v" "f.go" "F" 1%N Write Plain [("m", Excl)] false in
  at_site (lrun [Acquire 1 "m" Excl; Acquire 2 "m" Shared]) 1 a /\ guard_ok a "m"
  /\ lrun [Acquire 1 "m" Excl; Acquire 2 "m" Shared] = [(1, "m", Excl)].
Proof.
  split; [|split].
  - intros l m H. simpl in H. destruct H as [H|[]]. inversion H; subst. vm_compute. left. reflexivity.
  - exists Excl. split; [left; reflexivity|reflexivity].
  - vm_compute. reflexivity.
Qed.

(* accounting: every unit of client work gives back what it takes *)
Theorem C20_balance : forall k o r, pinned k = false ->
  acquired r (journal k o) = released r (journal k o).
Proof. exact journal_balanced. Qed.

Theorem C20_well_bracketed : forall k o r, well_bracketed r (journal k o) = true.
Proof. exact journal_well_bracketed. Qed.

(* ... in any interleaving of any collection of units *)
Theorem C20_interleaving_balanced : forall r (us : list (unit_kind * outcome)) (h : list ev),
  forallb (fun u => negb (pinned (fst u))) us = true ->
  Permutation h (concat (map (fun u => journal (fst u) (snd u)) us)) ->
  outstanding r h = 0 /\ acquired r h = released r h.
Proof. exact interleaving_balanced. Qed.

Example C20_balance_nonvacuous :
  acquired (RConn 1) (journal (UAt 3 2 None) Commit) = 2
  /\ acquired (RConn 0) (journal (UAt 3 2 (Some 1)) Rollback) = 1
  /\ pinned (UAt 3 2 None) = false.
Proof. vm_compute. repeat split. Qed.

(* the cache refresh of the pinned tree keeps its connection: the balance theorem is
   false for it, n ticks leave n connections in use *)
Theorem C20_refresh_pinned_refuted : exists k o r, acquired r (journal k o) <> released r (journal k o).
Proof. exact refresh_pinned_refuted. Qed.

Theorem C20_refresh_pinned_leaks : forall o n,
  outstanding (RConn 1) (concat (repeat (journal URefreshPinned o) n)) = n.
Proof. exact refresh_pinned_leaks. Qed.

(* source tie of the accounting: every `Conn(ctx)` taken in the data-source packages is
   closed by the function that took it, except in the listed functions *)
Theorem C20_brackets :
  forall f v c, In (f, v, c) ls_brackets -> ~ In f ls_leak_live -> c = true.
Proof. exact brackets_at_table. Qed.

(* no re-entrant locking (sync.Mutex / RWMutex / Once are not re-entrant): the checker is sound
   for every table ... *)
Theorem C20_reent_checker_sound : forall (fs : list fn_row) (hcs : list hc_row),
  reent_check fs hcs = true ->
  forall h, In h hcs -> ~ MayAcquire fs (hc_callee h) (hc_lock h).
Proof. exact reent_check_sound. Qed.

(* ... and at the tables regenerated from the source: no function calls, while holding a lock of
   an object (read or write, lexically, incl. `defer Unlock`), a method of the same object or a
   package-level function that may (transitively, on the same goroutine) acquire that lock again *)
Theorem C20_no_reentrant_lock :
  forall h, In h ls_held_calls -> ~ MayAcquire ls_funcs (hc_callee h) (hc_lock h).
Proof. exact no_reentrant_lock_at_table. Qed.

Example C20_no_reentrant_lock_nonvacuous :
  negb (Nat.eqb (length ls_held_calls) 0)
  && existsb (fun r => negb (Nat.eqb (length (f_may r)) 0)) ls_funcs = true.
Proof. exact reent_table_nonvacuous. Qed.

(* why it matters: in the mutex machine a held lock bars its own re-acquisition, and the
   blocked acquisition leaves the state unchanged for ever (the releasing code is behind it) *)
Theorem C20_held_bars_reacquire : forall (s : lstate) t l m,
  In (t, l, m) s ->
  can_acquire s l Excl = false /\ (m = Excl -> can_acquire s l Shared = false).
Proof. exact held_bars_reacquire. Qed.

Theorem C20_reacquire_stutters : forall (s : lstate) t l m,
  In (t, l, m) s -> lstep s (Acquire t l Excl) = s.
Proof. exact reacquire_stutters. Qed.

(* lock / pool ORDER: a ranking that strictly increases along every edge excludes every cycle of
   the wait-for relation, for every graph ... *)
Theorem C20_order_checker_sound : forall (es : list oedge) (r : list (string * N)),
  order_check es r = true -> forall a, ~ WaitsFor es a a.
Proof. exact order_check_sound. Qed.

(* ... and the graph regenerated from the source (an edge a -> b: some goroutine acquires b - a
   lock, a Once being run, a pooled connection of a *sql.DB - while holding a, directly or through
   statically resolved calls) has no cycle: no set of goroutines can wait for each other in a ring *)
Theorem C20_wait_for_acyclic : forall a, ~ WaitsFor ls_order_edges a a.
Proof. exact order_acyclic_at_table. Qed.

Example C20_wait_for_nonvacuous :
  existsb (fun e => (e_from e =? "pool:sql.DB")%string) ls_order_edges = true.
Proof. exact order_table_nonvacuous. Qed.

(* sync.Pool values: the checker rejects every use of a dead variable, at every position of every
   event trace ... *)
Theorem C20_pool_checker_sound : forall l, pool_ok l = true ->
  forall l1 w l2, l = (l1 ++ PUse w :: l2)%list -> sin w (p_dead (prun pst0 l1)) = false.
Proof. exact pool_ok_sound. Qed.

Theorem C20_put_kills : forall st v, sin v (p_dead (pstep st (PPut v))) = true.
Proof. exact put_kills. Qed.

(* ... and no function of the client uses a value taken from a package-level sync.Pool (or anything
   derived from it) after putting it back *)
Theorem C20_pool_no_use_after_put : forall f p tr, In (f, p, tr) ls_pool_traces ->
  forall l1 w l2, tr = (l1 ++ PUse w :: l2)%list -> sin w (p_dead (prun pst0 l1)) = false.
Proof. exact pool_discipline_at_table. Qed.

Example C20_pool_nonvacuous :
  pool_ok [PGet "p"; PUse "p"; PDerive "stmts" "p"; PPut "p"; PUse "stmts"] = false
  /\ pool_bad_from pst0 [PGet "p"; PUse "p"; PDerive "stmts" "p"; PPut "p"; PUse "stmts"] = ["stmts"]
  /\ pool_ok [PGet "p"; PUse "p"; PDerive "stmts" "p"; PUse "stmts"; PPut "p"] = true.
Proof. exact pool_rejects_use_after_put. Qed.
