(* C11 — phase-two commit deletes exactly the committed branch's undo log, eventually.
   Statements only; the proofs are in At/WorkerProofs.v over the model At/Worker.v. *)
From Coq Require Import List NArith Bool Arith.
From SeataV Require Import At.Worker At.WorkerProofs.
Import ListNotations.

(* the calls answered PhasetwoCommitted are exactly the requests that were queued (accepted), in
   order; a call whose context is done first is refused with a retryable failure and is NOT queued;
   there is no third kind of answer. Originally: every accepted request is answered PhasetwoCommitted — for all settings, initial tables,
   registered resources and all event sequences (requests, ticks, schedules, fault outcomes) *)
Theorem C11_answer : forall c t0 k0 evs,
  let s := run c evs (init t0 k0) in
  committed_of (answers s) = accepted s /\
  forall p, In p (answers s) -> snd p = st_committed \/ snd p = st_retryable.
Proof. exact answer_committed. Qed.

(* a row is removed / is missing from undo_log only if a request for exactly that
   (xid, branch id, resource) was accepted; rows are never invented *)
Theorem C11_precise : forall c t0 k0 evs row,
  let s := run c evs (init t0 k0) in
  (In row (removed s) -> In row (accepted s)) /\
  (In row t0 -> ~ In row (table s) -> In row (accepted s)) /\
  (In row (table s) -> In row t0).
Proof. exact precise. Qed.

(* multiset invariant: accepted = deleted + still in the worker (queue, run's buffer, the batch
   being handed over, fan-out channel, workers) + skipped for an empty resource id; whatever was
   deleted has no row left *)
Theorem C11_no_loss : forall c t0 k0 evs,
  let s := run c evs (init t0 k0) in
  (forall it, cnt it (accepted s) = cnt it (deleted s) + cnt it (pend s) + cnt it (dropped s)) /\
  (forall it, In it (dropped s) -> valid it = false) /\
  (forall it, In it (deleted s) -> ~ In it (table s)).
Proof. exact no_loss. Qed.

Theorem C11_no_loss_rows : forall c t0 k0 evs it,
  let s := run c evs (init t0 k0) in
  In it (accepted s) -> valid it = true -> In it (pend s) \/ ~ In it (table s).
Proof. exact no_loss_valid. Qed.

(* from every reachable state whose pending items fit the receive queue and address registered
   resources, [work s] (explicit, linear in the sizes of queue, buffer, fan-out and jobs) fault-free
   steps — themselves a schedule of the model — leave no accepted request with a row *)
Theorem C11_eventual : forall c t0 k0 evs,
  let s := run c evs (init t0 k0) in
  drainable c s ->
  let s' := drain c (work s) s in
  s' = run c (evs ++ drain_evs c (work s) s) (init t0 k0) /\
  pend s' = [] /\ accepted s' = accepted s /\
  (forall it, In it (accepted s) -> valid it = true -> ~ In it (table s')).
Proof. exact eventual. Qed.

Theorem C11_eventual_schedule_fault_free : forall c n s e, In e (drain_evs c n s) ->
  e = WStep 0 Ok \/ e = Start 0 \/ e = Submit \/ e = Recv \/ e = Tick.
Proof. exact drain_evs_fault_free. Qed.

Theorem C11_eventual_big_queue : forall c t0 k0 evs,
  let s := run c evs (init t0 k0) in
  1 <= nwork c -> length (accepted s) <= qcap c -> all_known s ->
  let s' := drain c (work s) s in
  pend s' = [] /\ (forall it, In it (accepted s) -> valid it = true -> ~ In it (table s')).
Proof. exact eventual_big_queue. Qed.

(* the capacity hypothesis cannot be dropped: circular wait run <-> worker (finding worker.small-buffers) *)
Theorem C11_eventual_refuted_small_buffers :
  exists c t0 evs0, forall evs,
    let s := run c (evs0 ++ evs) (init t0 []) in
    length (accepted s) = 3 /\
    committed_of (answers s) = accepted s /\
    (forall it, In it (accepted s) -> In it (table s) /\ In it (pend s)).
Proof. exact circular_wait_small_buffers. Qed.

(* ---- non-vacuity *)
Example C11_answer_nonvacuous :
  length (answers nv_s) = 2 /\
  let s := run nv_cfg [Accept nv_a; Refuse nv_c; Accept nv_b] (init [nv_a; nv_b; nv_c] [1%N]) in
  answers s = [(nv_a, st_committed); (nv_c, st_retryable); (nv_b, st_committed)] /\
  accepted s = [nv_a; nv_b] /\ pend s = [nv_a; nv_b] /\ table s = [nv_a; nv_b; nv_c].
Proof. vm_compute. repeat split. Qed.

Example C11_precise_nonvacuous :
  run nv_cfg (nv_evs ++ drain_evs nv_cfg (work nv_s) nv_s) (init [nv_a; nv_b; nv_c] [1%N; 2%N])
  = drain nv_cfg (work nv_s) nv_s
  /\ table (drain nv_cfg (work nv_s) nv_s) = [nv_b]
  /\ removed (drain nv_cfg (work nv_s) nv_s) <> [].
Proof. vm_compute. repeat split; discriminate. Qed.

Example C11_no_loss_nonvacuous :
  queue nv_s = [nv_c] /\ flight nv_s = [[JRequeue nv_a]] /\ accepted nv_s = [nv_a; nv_c].
Proof. vm_compute. repeat split. Qed.

Example C11_eventual_nonvacuous :
  1 <= nwork nv_cfg /\ length (pend nv_s) <= qcap nv_cfg /\ pend nv_s <> [] /\
  forallb (fun it => memN (ir it) (known nv_s)) (pend nv_s) = true /\ work nv_s = 16.
Proof. vm_compute. repeat split; try discriminate; auto with arith. Qed.
