(* C06 — TCC fence: idempotence, anti-suspension, empty rollback, atomicity.
   Statements only; the model is Fence/FenceModel.v (one delivery = a thread
   machine of driver operations following WithFence -> DoFence -> handler -> DAO
   -> callback), proofs are in Fence/FenceProofs.v and Fence/FenceRace.v.

   A history is an UNBOUNDED list of operations on any number of branches sharing
   the fence table:   HDeliver k phase fault   one delivery of prepare / commit /
   rollback (or an invalid phase) for branch k, optionally with a database
   failure injected at its n-th driver operation;   HRace k p1 p2 f1 f2 sched   two
   deliveries for branch k whose statements interleave according to sched, each optionally with a
   database failure at one of its row / lock operations.
   try_of / confirm_of / cancel_of count the COMMITTED business effects. *)
From Coq Require Import List NArith Bool Arith.
From SeataV Require Import Fence.FenceModel Fence.FenceRace Fence.FenceProofs Fence.FenceDriverProofs.
Import ListNotations.
Open Scope N_scope.

(* the decision tables of the handler, the compare-and-set's old status, the phase dispatch and the
   shape of WithFence were all recognised by the translator in the CURRENT source (coq/Gen/FenceRules.v,
   regenerated on every run): every theorem below is about those tables *)
Theorem C06_tables_recognised : tables_recognised = true.
Proof. exact tables_recognised_ok. Qed.

Theorem C06_at_most_once : forall h k,
  let c := get (run_hist [] h) k in
  try_of c <= 1 /\ confirm_of c <= 1 /\ cancel_of c <= 1.
Proof. exact at_most_once. Qed.

Theorem C06_exclusive : forall h k,
  let c := get (run_hist [] h) k in ~ (confirm_of c = 1 /\ cancel_of c = 1).
Proof. exact exclusive. Qed.

(* a rollback that arrives while the branch has no record (after any history h1) records the
   suspension and applies no effect; after ANY later history h2 the branch is exactly as the
   rollback left it, and a prepare delivered then (with or without a fault) reports an error,
   does not run the callback and changes nothing *)
Theorem C06_suspension : forall h1 k,
  let w0 := run_hist [] h1 in
  c_row (get w0 k) = None ->
  let w1 := apply_hop w0 (HDeliver k Rollback None) in
  c_row (get w1 k) = Some Suspended /\ c_cnt (get w1 k) = c_cnt (get w0 k) /\
  forall h2,
    let w2 := run_hist w1 h2 in
    get w2 k = get w1 k /\
    forall fault, let '(t, sh) := deliver1 (c_row (get w2 k)) Prepare fault in
                  t_err t <> ENone /\ t_ran t = 0%nat /\ get (apply_hop w2 (HDeliver k Prepare fault)) k = get w2 k.
Proof. exact suspension. Qed.

(* every delivery, on every world, with every fault position *)
Theorem C06_atomic : forall w k ph fault,
  let c := get w k in
  let '(t, sh) := deliver1 (c_row c) ph fault in
  let w' := apply_hop w (HDeliver k ph fault) in
  let c' := get w' k in
  legal (c_row c) (c_row c') (s_effs sh) = true /\ c_cnt c' = add_effs (c_cnt c) (s_effs sh) /\
  (t_err t <> ENone -> c' = c) /\
  (forall n, fault = Some n -> (n < t_nops t)%nat -> t_err t = EFault) /\
  (s_effs sh <> [] <-> (t_ran t = 1%nat /\ t_err t = ENone)) /\ (t_ran t <= 1)%nat /\
  (forall k', k' <> k -> get w' k' = get w k').
Proof. exact atomic. Qed.

(* two racing deliveries for one branch: every initial record, every pair of phases, a database
   failure at any (or no) row / lock operation of either delivery, every schedule (of any length) of
   their statements under the unique key / row lock *)
Theorem C06_race : forall row p1 p2 f1 f2 sched,
  let r := race row p1 p2 f1 f2 sched in
  done (r_t0 r) = true /\ done (r_t1 r) = true /\ s_owner (r_sh r) = None /\
  legal2 row (s_row (r_sh r)) (s_effs (r_sh r)) = true /\
  cnt_of (s_row (r_sh r)) = add_effs (cnt_of row) (s_effs (r_sh r)) /\
  (t_err (r_t0 r) <> ENone -> t_err (r_t1 r) <> ENone -> s_row (r_sh r) = row /\ s_effs (r_sh r) = []).
Proof. exact race_safe. Qed.

(* ---- the seata-fence-mysql proxy-driver mode (FenceConn.BeginTx / FenceTx) -------------------
   DDrv k phase fault = a delivery whose participant opens its transaction on a proxy connection: the
   fence runs in a second transaction B, the business cannot be skipped, FenceTx.Commit commits the
   business transaction A and then - only if that succeeded - B.  DApi = a WithFence delivery.  The
   state also carries the branches whose fence row is locked by a leaked transaction.
   The full property FAILS in exactly two regions (known findings):
     fence.drivermode.decided-business-committed   the fence settles the delivery by itself (duplicate
                                                   phase two, empty rollback) and the caller's business
                                                   transaction gets committed;
     fence.drivermode.fault-at-fence-commit        the failure hits B's COMMIT after A was committed.
   Everywhere else - in particular for a failure of A's COMMIT, which leaves neither effect nor record
   and leaks B's lock - the property holds (dhist_supported / dop_supported = outside both). *)
Theorem C06_drivermode_partial : forall h k,
  dhist_supported dinit h = true ->
  let c := get (fst (run_dhist dinit h)) k in
  try_of c <= 1 /\ confirm_of c <= 1 /\ cancel_of c <= 1 /\ ~ (confirm_of c = 1 /\ cancel_of c = 1).
Proof. exact drv_partial. Qed.

Theorem C06_drivermode_atomic : forall dw o,
  dop_supported dw o = true ->
  let k := dop_key o in
  let '(t, sh) := dop_run dw o in
  let c := get (fst dw) k in
  let c' := get (fst (apply_dop dw o)) k in
  legal (c_row c) (c_row c') (s_effs sh) = true /\ c_cnt c' = add_effs (c_cnt c) (s_effs sh) /\
  (t_err t <> ENone -> c' = c).
Proof. exact drv_atomic. Qed.

(* the two regions are exactly as wide as the defect: inside them every proxy-driver delivery commits a
   record / effect combination that is not a step of the status machine *)
Theorem C06_drivermode_regions_exact : forall locked row ph fault,
  drv_supported locked row ph fault = false ->
  let '(_, sh) := deliver_l true locked row ph fault in legal row (s_row sh) (s_effs sh) = false.
Proof. exact regions_exact. Qed.

Theorem C06_drivermode_refuted :
  (let h := [DDrv 1 Prepare None; DDrv 1 Commit None; DDrv 1 Commit None] in
   dhist_supported dinit h = false /\ confirm_of (get (fst (run_dhist dinit h)) 1) = 2) /\
  (let h := [DDrv 1 Rollback None] in
   dhist_supported dinit h = false /\ get (fst (run_dhist dinit h)) 1 = mkC (Some Suspended) (0, 0, 1)) /\
  (let h := [DDrv 1 Prepare (Some 7%nat)] in
   dhist_supported dinit h = false /\ get (fst (run_dhist dinit h)) 1 = mkC None (1, 0, 0)).
Proof. exact drv_refuted. Qed.

(* the business COMMIT fails (operation 6 of a prepare): supported, nothing durable, lock leaked, the next
   delivery times out on it and changes nothing *)
Example C06_drivermode_business_commit_fault :
  let h := [DDrv 1 Prepare (Some 6%nat); DDrv 1 Prepare None; DApi 1 Rollback None] in
  dhist_supported dinit h = true /\
  run_dhist dinit [DDrv 1 Prepare (Some 6%nat)] = ([(1, mkC None (0, 0, 0))], [1]) /\
  get (fst (run_dhist dinit h)) 1 = mkC None (0, 0, 0) /\
  t_err (fst (dop_run (run_dhist dinit [DDrv 1 Prepare (Some 6%nat)]) (DDrv 1 Prepare None))) = ELocked.
Proof. exact business_commit_fault_example. Qed.

Example C06_drivermode_nonvacuous :
  let h := [DDrv 1 Prepare (Some 3%nat); DDrv 1 Prepare None; DApi 1 Prepare None; DDrv 1 Commit (Some 4%nat);
            DDrv 1 Commit None; DApi 1 Commit None; DDrv 1 Rollback None; DDrv 2 Commit None;
            DDrv 3 Rollback (Some 4%nat)] in
  dhist_supported dinit h = true /\ get (fst (run_dhist dinit h)) 1 = mkC (Some Committed) (1, 1, 0) /\
  get (fst (run_dhist dinit h)) 2 = mkC None (0, 0, 0) /\ get (fst (run_dhist dinit h)) 3 = mkC None (0, 0, 0).
Proof. vm_compute. repeat split. Qed.

(* ---- non-vacuity -------------------------------------------------------------- *)
(* a history in which suspension actually occurs, followed by a late try, a duplicate rollback
   and a commit: the branch stays suspended with no effect at all *)
Example C06_suspension_nonvacuous :
  let h1 := [HDeliver 7 Prepare None; HDeliver 7 Commit None] in
  c_row (get (run_hist [] h1) 8) = None /\
  get (run_hist [] (h1 ++ [HDeliver 8 Rollback None; HDeliver 8 Prepare None; HRace 8 Prepare Rollback None None [true; false];
                           HDeliver 8 Commit None])) 8 = mkC (Some Suspended) (0, 0, 0) /\
  get (run_hist [] h1) 7 = mkC (Some Committed) (1, 1, 0).
Proof. vm_compute. repeat split. Qed.

(* duplicates really are absorbed, faults really roll back, and a race really serialises *)
Example C06_history_nonvacuous :
  get (run_hist [] [HDeliver 1 Prepare (Some 3%nat); HDeliver 1 Prepare None; HDeliver 1 Commit (Some 4%nat);
                    HDeliver 1 Commit None; HDeliver 1 Commit None; HDeliver 1 Rollback None]) 1
    = mkC (Some Committed) (1, 1, 0) /\
  get (run_hist [] [HRace 2 Prepare Rollback None None [true; true; true]; HDeliver 2 Rollback None]) 2
    = mkC (Some Suspended) (0, 0, 0) /\
  get (run_hist [] [HRace 3 Prepare Rollback None (Some F1) []; HDeliver 3 Rollback None]) 3
    = mkC (Some Rollbacked) (1, 0, 1).
Proof. vm_compute. repeat split. Qed.

Example C06_atomic_nonvacuous :
  (* a fault at the business statement of a commit: callback ran, nothing committed *)
  (let '(t, sh) := deliver1 (Some Tried) Commit (Some 5%nat) in
   t_ran t = 1%nat /\ t_err t = EFault /\ s_row sh = Some Tried /\ s_effs sh = []) /\
  (let '(t, sh) := deliver1 (Some Tried) Commit None in
   t_ran t = 1%nat /\ t_err t = ENone /\ s_row sh = Some Committed /\ s_effs sh = [Commit]).
Proof. vm_compute. repeat split. Qed.
